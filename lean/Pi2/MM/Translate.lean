import Pi2.Proof
import Pi2.Codec
import Pi2.MM.Compressed
/-!
# Metamath verification and its translation to the proof checker's language
(`metamath/translate.py: exec_proof`, `metamath/converter/converter.py`), fragment F0 of DESIGN.md

*Fragment.*  One sort of metavariables (`$f #Pattern v`), the built-in constructors `\imp` and `\app`,
constants and n-ary constructors declared only by an `…-is-pattern` axiom, DECLARED NOTATIONS (an
`…-is-pattern` axiom `$a #Pattern ( n v₁ … vₖ )` together with `$a #Notation ( n v₁ … vₖ ) body`: `Ctor.body`;
for Metamath `n` is one more constructor, the converter expands it: `plug`, `imageT`, `DB.notTab`), `|-` axioms with and
without essential hypotheses, the proof rules `proof-rule-prop-1`, `proof-rule-prop-2`, `proof-rule-mp`,
compressed proofs with reuse marks.  Terms are trees: that is how the lark parser delivers them
(`Application(symbol, subterms)`, `Metavariable(name)`), and Metamath's token-string substitution
coincides with tree substitution on parenthesised terms.

`mmVerify` is written from the Metamath book (section 4.1/Appendix B; independent of the code and
validated against an independent Python verifier); `execProof` follows `exec_proof` statement by
statement, running the calls it makes on the tracker model (`PySt`, `Pi2.Tracker`) because it reads
the interpreter's stack; `translateFull` adds the gamma and claim phases of `ProofExp.execute_full`.
Core Lean only.
-/
open Pat

namespace MM

inductive Term where
  | var (v : Nat)
  | imp (a b : Term)
  | app (a b : Term)
  | con (c : Nat) (args : List Term)
deriving Repr, Inhabited

namespace Term

mutual
def beq : Term → Term → Bool
  | var a, var b => a == b
  | imp a b, imp c d => beq a c && beq b d
  | app a b, app c d => beq a c && beq b d
  | con c xs, con d ys => c == d && beqList xs ys
  | _, _ => false
def beqList : List Term → List Term → Bool
  | [], [] => true
  | x :: xs, y :: ys => beq x y && beqList xs ys
  | _, _ => false
end

instance : BEq Term := ⟨beq⟩

mutual
/-- simultaneous substitution; variables outside the domain stay (an assertion's mandatory variables
are all the variables of its statement, so this case does not arise for a well-formed database) -/
def subst (σ : List (Nat × Term)) : Term → Term
  | var v => (σ.lookup v).getD (var v)
  | imp a b => imp (subst σ a) (subst σ b)
  | app a b => app (subst σ a) (subst σ b)
  | con c xs => con c (substList σ xs)
def substList (σ : List (Nat × Term)) : List Term → List Term
  | [] => []
  | x :: xs => subst σ x :: substList σ xs
end

mutual
def vars : Term → List Nat
  | var v => [v]
  | imp a b => vars a ++ vars b
  | app a b => vars a ++ vars b
  | con _ xs => varsList xs
def varsList : List Term → List Nat
  | [] => []
  | x :: xs => vars x ++ varsList xs
end

mutual
/-- the constructor symbols (`con`) of a term -/
def syms : Term → List Nat
  | var _ => []
  | imp a b => syms a ++ syms b
  | app a b => syms a ++ syms b
  | con c xs => c :: symsList xs
def symsList : List Term → List Nat
  | [] => []
  | x :: xs => syms x ++ symsList xs
end

end Term

/-- a constructor `lbl $a #Pattern ( sym v₁ … vₙ )`; `n = 0`: a constant `lbl $a #Pattern sym`.
`body = some b`: the database also declares the NOTATION `… $a #Notation ( sym v₁ … vₙ ) b` (sugar): for
Metamath `sym` is a constructor like any other (the `#Notation` statement is never cited in a proof), for the
converter `( sym t₁ … tₙ )` denotes `b` with `tᵢ` for `vᵢ` -/
structure Ctor where
  sym : Nat
  args : List Nat
  body : Option Term := none
deriving Repr, Inhabited

/-- an `|-` axiom of the database with its essential hypotheses (the block's `$e` statements, in order) -/
structure Rule where
  hyps : List Term
  concl : Term
deriving Repr, Inhabited

structure DB where
  /-- the variables with a `$f #Pattern` statement, in database order -/
  floats : List Nat
  /-- `imp-is-pattern $a #Pattern ( \imp x y )` -/
  impArgs : Nat × Nat
  /-- `app-is-pattern $a #Pattern ( \app x y )` -/
  appArgs : Nat × Nat
  ctors : List Ctor
  /-- the exported axioms (Γ), in database order -/
  rules : List Rule
  /-- `proof-rule-prop-1 $a |- ( \imp x ( \imp y x ) )` -/
  p1 : Nat × Nat
  /-- `proof-rule-prop-2 $a |- ( \imp ( \imp x ( \imp y z ) ) ( \imp ( \imp x y ) ( \imp x z ) ) )` -/
  p2 : Nat × Nat × Nat
  /-- `proof-rule-mp`: `$e |- ( \imp x y )`, `$e |- x`, `$a |- y` -/
  mp : Nat × Nat
deriving Repr, Inhabited

/-- what a label of a proof refers to -/
inductive Lbl where
  | float (v : Nat) | impC | appC | ctor (i : Nat) | rule (i : Nat) | p1 | p2 | mp
deriving Repr, Inhabited, DecidableEq

/-- a typed statement on the Metamath stack: `thm = false`: `#Pattern t`, `thm = true`: `|- t` -/
structure Stmt where
  thm : Bool
  term : Term
deriving Repr, Inhabited

instance : BEq Stmt := ⟨fun a b => a.thm == b.thm && a.term == b.term⟩

/-- an assertion as the verifier sees it: mandatory variables in database order, essential hypotheses,
conclusion -/
structure Assertion where
  mand : List Nat
  hyps : List Stmt
  concl : Stmt
deriving Repr, Inhabited

namespace DB

/-- the mandatory variables of a statement: those of its `$e` and `$a` terms, in `$f` order -/
def mandOf (db : DB) (ts : List Term) : List Nat :=
  db.floats.filter fun v => (Term.varsList ts).contains v

def assertion (db : DB) : Lbl → Option Assertion
  | .float _ => none
  | .impC => some ⟨db.mandOf [.imp (.var db.impArgs.1) (.var db.impArgs.2)], [],
      ⟨false, .imp (.var db.impArgs.1) (.var db.impArgs.2)⟩⟩
  | .appC => some ⟨db.mandOf [.app (.var db.appArgs.1) (.var db.appArgs.2)], [],
      ⟨false, .app (.var db.appArgs.1) (.var db.appArgs.2)⟩⟩
  | .ctor i => db.ctors[i]?.map fun c =>
      ⟨db.mandOf [.con c.sym (c.args.map .var)], [], ⟨false, .con c.sym (c.args.map .var)⟩⟩
  | .rule i => db.rules[i]?.map fun r =>
      ⟨db.mandOf (r.hyps ++ [r.concl]), r.hyps.map (⟨true, ·⟩), ⟨true, r.concl⟩⟩
  | .p1 =>
      let t : Term := .imp (.var db.p1.1) (.imp (.var db.p1.2) (.var db.p1.1))
      some ⟨db.mandOf [t], [], ⟨true, t⟩⟩
  | .p2 =>
      let (x, y, z) := db.p2
      let t : Term := .imp (.imp (.var x) (.imp (.var y) (.var z))) (.imp (.imp (.var x) (.var y)) (.imp (.var x) (.var z)))
      some ⟨db.mandOf [t], [], ⟨true, t⟩⟩
  | .mp =>
      let (x, y) := db.mp
      some ⟨db.mandOf [.imp (.var x) (.var y), .var x, .var y],
        [⟨true, .imp (.var x) (.var y)⟩, ⟨true, .var x⟩], ⟨true, .var y⟩⟩

end DB

/-! ## the verifier (Metamath book §4.1 and Appendix B) -/

/-- split `k` entries off a stack whose head is the top; they are returned deepest first -/
def popN : Nat → List Stmt → Option (List Stmt × List Stmt)
  | 0, st => some ([], st)
  | k + 1, x :: st => (popN k st).map fun (xs, st') => (xs ++ [x], st')
  | _ + 1, [] => none

/-- apply an assertion: the stack holds, deepest first, one `#Pattern` statement per mandatory variable
(in database order) and then the essential hypotheses under the substitution so defined -/
def applyAssertion (a : Assertion) (stack : List Stmt) : Option (List Stmt) := do
  let (es, st1) ← popN a.hyps.length stack
  let (fs, st2) ← popN a.mand.length st1
  if fs.any (·.thm) then none
  let σ := a.mand.zip (fs.map (·.term))
  if es != a.hyps.map (fun h => ⟨h.thm, h.term.subst σ⟩) then none
  pure (⟨a.concl.thm, a.concl.term.subst σ⟩ :: st2)

/-- one step of a compressed proof; `heap` = the statements marked with `Z`, in order -/
def vstep (db : DB) (labels : List Lbl) (st : List Stmt × List Stmt) (n : Nat) : Option (List Stmt × List Stmt) :=
  let (stack, heap) := st
  match resolve labels.length n with
  | .save => match stack with
      | t :: _ => some (stack, heap ++ [t])
      | [] => none
  | .reuse j => (heap[j]?).map fun t => (t :: stack, heap)
  | .label i => do
      match ← labels[i]? with
      | .float v => if db.floats.contains v then pure (⟨false, .var v⟩ :: stack, heap) else none
      | l => do
          let a ← db.assertion l
          pure (← applyAssertion a stack, heap)

def vrun (db : DB) (labels : List Lbl) : List Stmt × List Stmt → List Nat → Option (List Stmt × List Stmt)
  | st, [] => some st
  | st, n :: ns => do vrun db labels (← vstep db labels st n) ns

/-- the proof proves `|- goal`: exactly that statement is left on the stack -/
def mmVerify (db : DB) (goal : Term) (labels : List Lbl) (steps : List Nat) : Bool :=
  match vrun db labels ([], []) steps with
  | some ([s], _) => s == ⟨true, goal⟩
  | _ => false

/-! ## the converter's image of terms and statements -/

/-- `Scope.add_metavariable`: a variable's metavariable id is its position among the `$f` statements -/
def DB.mvId (db : DB) (v : Nat) : Nat := db.floats.idxOf v

/-- the call of a notation's closure (`Notation.__call__` → the lambda built by `_to_pattern`): the body's
pattern with the argument patterns at the positions of the notation's variables (`match_arg`); plain patterns,
no `Instantiate` wrapper -/
def plug (δ : List (Nat × NPat)) : NPat → NPat
  | .mv id ef sf ps ns hs => match Py.lookup δ id with | some q => q | none => .mv id ef sf ps ns hs
  | .imp l r => .imp (plug δ l) (plug δ r)
  | .app l r => .app (plug δ l) (plug δ r)
  | p => p

/-- the declared notations the converter has imported so far: symbol ↦ (metavariable ids of the notation's
variables, the body's pattern over them) -/
abbrev NTab := List (Nat × List Nat × NPat)

mutual
/-- `_to_pattern` in a scope that knows the notations `tab`: a constructor without notation becomes its symbol
applied with nested `App` (the `_missing_declarations` path); a declared notation is called on the images of its
arguments.  (A notation symbol with a different number of arguments is not a term of the database's grammar; the
model then treats the symbol as a plain one.) -/
def imageT (db : DB) (tab : NTab) : Term → NPat
  | .var v => PySt.phiN (db.mvId v)
  | .imp a b => .imp (imageT db tab a) (imageT db tab b)
  | .app a b => .app (imageT db tab a) (imageT db tab b)
  | .con c xs =>
    match tab.lookup c with
    | some (keys, p) =>
      if keys.length = xs.length then plug (keys.zip (imageListT db tab xs)) p
      else imageAppT db tab (.sym c) xs
    | none => imageAppT db tab (.sym c) xs
def imageAppT (db : DB) (tab : NTab) (acc : NPat) : List Term → NPat
  | [] => acc
  | x :: xs => imageAppT db tab (.app acc (imageT db tab x)) xs
def imageListT (db : DB) (tab : NTab) : List Term → List NPat
  | [] => []
  | x :: xs => imageT db tab x :: imageListT db tab xs
end

/-- `_top_down`, second sweep: the `#Notation` axioms are imported in database order before every other axiom;
the body of each is converted in the scope of the EARLIER notations -/
def DB.notTabFrom (db : DB) : NTab → List Ctor → NTab
  | tab, [] => tab
  | tab, c :: cs =>
    match c.body with
    | none => db.notTabFrom tab cs
    | some b => db.notTabFrom (tab ++ [(c.sym, c.args.map db.mvId, imageT db tab b)]) cs

def DB.notTab (db : DB) : NTab := db.notTabFrom [] db.ctors

/-- the converter's image of a term: `_to_pattern` in the final scope -/
def image (db : DB) (t : Term) : NPat := imageT db db.notTab t
def imageApp (db : DB) (acc : NPat) (xs : List Term) : NPat := imageAppT db db.notTab acc xs
def imageList (db : DB) (xs : List Term) : List NPat := imageListT db db.notTab xs

theorem image_var (db : DB) (v : Nat) : image db (.var v) = PySt.phiN (db.mvId v) := by
  simp only [image, imageT]
theorem image_imp (db : DB) (a b : Term) : image db (.imp a b) = .imp (image db a) (image db b) := by
  simp only [image, imageT]
theorem image_app (db : DB) (a b : Term) : image db (.app a b) = .app (image db a) (image db b) := by
  simp only [image, imageT]
theorem imageApp_nil (db : DB) (acc : NPat) : imageApp db acc [] = acc := by
  simp only [imageApp, imageAppT]
theorem imageApp_cons (db : DB) (acc : NPat) (x : Term) (xs : List Term) :
    imageApp db acc (x :: xs) = imageApp db (.app acc (image db x)) xs := by
  simp only [imageApp, imageAppT, image]
theorem imageList_nil (db : DB) : imageList db [] = [] := by
  simp only [imageList, imageListT]
theorem imageList_cons (db : DB) (x : Term) (xs : List Term) :
    imageList db (x :: xs) = image db x :: imageList db xs := by
  simp only [imageList, imageListT, image]
theorem image_con (db : DB) (c : Nat) (xs : List Term) :
    image db (.con c xs) =
      match db.notTab.lookup c with
      | some (keys, p) =>
        if keys.length = xs.length then plug (keys.zip (imageList db xs)) p else imageApp db (.sym c) xs
      | none => imageApp db (.sym c) xs := by
  simp only [image, imageT, imageApp, imageList]

/-- `convert_to_implication(antecedents, conclusion)` (a rule without hypotheses is its conclusion) -/
def implChain (db : DB) : List Term → Term → NPat
  | [], c => image db c
  | h :: hs, c => .imp (image db h) (implChain db hs c)

def DB.axiomImages (db : DB) : List NPat := db.rules.map fun r => implChain db r.hyps r.concl

/-! ## `exec_proof` -/

open PySt

/-- keys of `get_delta(converter.get_metavars_in_order(label))`: the metavariable ids of the
statement's variables in `$f` order (= stack order of their values) -/
def DB.deltaKeys (db : DB) (ts : List Term) : List Nat := (db.mandOf ts).map db.mvId

/-- the state threaded through `exec_proof`: tracker state, calls so far, `mm_memory` -/
structure XSt where
  s : PySt
  calls : List Call
  mem : List TTerm

/-- run calls on the tracker; inner `none` = an exception -/
def XSt.doC (n : Nat) (x : XSt) (cs : List Call) : Option (Option XSt) := do
  match ← doCalls n x.s cs x.calls with
  | none => pure none
  | some (s', a') => pure (some { x with s := s', calls := a' })

def top? (x : XSt) : Option TTerm := x.s.stack.head?.map (·.1)

/-- `stack()[-k]` is a `Pattern` for `k = 1..m` (the `assert isinstance(_, Pattern)` lines) -/
def topPats (x : XSt) (m : Nat) : Bool :=
  x.s.stack.length ≥ m && (x.s.stack.take m).all fun e => !e.1.isProved

/-- `get_rule_delta`: the database's rule variables `roles` (position = the schema's metavariable id)
in stack order; `none` = two roles share a variable (the unpacking fails) -/
def ruleKeys (db : DB) (roles : List Nat) : Option (List Nat) :=
  if roles.Nodup then
    some ((db.floats.filter (roles.contains ·)).map fun v => roles.idxOf v)
  else none

/-- one step of the loop of `exec_proof` (outer `Option`: fuel, inner: an exception) -/
def xstep (cfg : Cfg) (n : Nat) (db : DB) (labels : List Lbl) (x : XSt) (step : Nat) : Option (Option XSt) :=
  match resolve labels.length step with
  | .save =>
      match top? x with
      | none => some none
      | some t => do
          match ← x.doC n [.save] with
          | none => pure none
          | some x' => pure (some { x' with mem := x'.mem ++ [t] })
  | .reuse j =>
      match x.mem[j]? with
      | none => some none
      | some t => x.doC n [.load t]
  | .label i =>
      match labels[i]? with
      | none => some none
      | some (.float v) => x.doC n [.metavar (db.mvId v) [] [] [] [] []]
      | some .impC =>
          let (a, b) := db.impArgs
          if db.mandOf [.imp (.var a) (.var b)] = [a, b] then
            if topPats x 2 then x.doC n [.implies] else some none
          else do
            match ← patternF cfg n x.s (.imp (PySt.phiN (db.mvId a)) (PySt.phiN (db.mvId b))) x.calls with
            | none => pure none
            | some (s', c') =>
              ({ x with s := s', calls := c' } : XSt).doC n [.instantiatePattern (db.deltaKeys [.imp (.var a) (.var b)])]
      | some .appC =>
          let (a, b) := db.appArgs
          if db.mandOf [.app (.var a) (.var b)] = [a, b] then
            if topPats x 2 then x.doC n [.app] else some none
          else do
            match ← patternF cfg n x.s (.app (PySt.phiN (db.mvId a)) (PySt.phiN (db.mvId b))) x.calls with
            | none => pure none
            | some (s', c') =>
              ({ x with s := s', calls := c' } : XSt).doC n [.instantiatePattern (db.deltaKeys [.app (.var a) (.var b)])]
      | some (.ctor k) =>
          match db.ctors[k]? with
          | none => some none
          | some c => do
            -- `get_axiom_by_name(label).pattern`: the image of the axiom's statement; for a declared notation that is the
            -- notation's closure called on its own metavariables = the image of the body (`image_notation_axiom`)
            let t : Term := .con c.sym (c.args.map .var)
            match ← patternF cfg n x.s (image db t) x.calls with
            | none => pure none
            | some (s', c') =>
              let x' : XSt := { x with s := s', calls := c' }
              if (Term.vars t).isEmpty then pure (some x')
              else x'.doC n [.instantiatePattern (db.deltaKeys [t])]
      | some (.rule k) =>
          match db.rules[k]? with
          | none => some none
          | some r => do
            -- save and pop the proofs of the essential hypotheses (top first)
            let rec stash (n : Nat) (x : XSt) (saved : List TTerm) : Nat → Option (Option (XSt × List TTerm))
              | 0 => some (some (x, saved))
              | m + 1 =>
                match top? x with
                | none => some none
                | some t => do
                  match ← x.doC n [.save, .pop] with
                  | none => pure none
                  | some x' => stash n x' (saved ++ [t]) m
            match ← stash n x [] r.hyps.length with
            | none => pure none
            | some (x1, saved) =>
            match ← x1.doC n [.load (.proved (implChain db r.hyps r.concl))] with
            | none => pure none
            | some x2 =>
            let ts := r.hyps ++ [r.concl]
            let inst : Option (Option XSt) :=
              if (Term.varsList ts).isEmpty then some (some x2)
              else x2.doC n [.instantiate (db.deltaKeys ts)]
            match ← inst with
            | none => pure none
            | some x3 =>
            -- discharge the hypotheses: the last saved one (= the first hypothesis) first
            let rec discharge (n : Nat) (x : XSt) : List TTerm → Option (Option XSt)
              | [] => some (some x)
              | t :: ts => do
                match ← x.doC n [.load t] with
                | none => pure none
                | some x' =>
                  match x'.s.stack with
                  | (.proved _, _) :: (.proved _, _) :: _ =>
                    match ← x'.doC n [.mp] with
                    | none => pure none
                    | some x'' => discharge n x'' ts
                  | _ => pure none
            discharge n x3 saved.reverse
      | some .p1 => do
          match ← x.doC n [.prop1] with
          | none => pure none
          | some x' =>
            match ruleKeys db [db.p1.1, db.p1.2] with
            | none => pure none
            | some keys => x'.doC n [.instantiate keys]
      | some .p2 => do
          match ← x.doC n [.prop2] with
          | none => pure none
          | some x' =>
            match ruleKeys db [db.p2.1, db.p2.2.1, db.p2.2.2] with
            | none => pure none
            | some keys => x'.doC n [.instantiate keys]
      | some .mp =>
          match x.s.stack with
          | (.proved _, _) :: (.proved _, _) :: _ => do
            match ← x.doC n [.mp] with
            | none => pure none
            | some x' =>
              match top? x' with
              | none => pure none
              | some c => x'.doC n [.save, .pop, .pop, .pop, .load c]
          | _ => some none

def xrun (cfg : Cfg) (n : Nat) (db : DB) (labels : List Lbl) : XSt → List Nat → Option (Option XSt)
  | x, [] => some (some x)
  | x, k :: ks => do
      match ← xstep cfg n db labels x k with
      | none => pure none
      | some x' => xrun cfg n db labels x' ks

/-- `exec_proof`: the loop, the final comparison with the target's pattern, `publish_proof` -/
def execProof (cfg : Cfg) (n : Nat) (db : DB) (goal : Term) (labels : List Lbl) (steps : List Nat)
    (s : PySt) (acc : List Call) : Option (Option (PySt × List Call)) := do
  match ← xrun cfg n db labels ⟨s, acc, []⟩ steps with
  | none => pure none
  | some x =>
    match x.s.stack with
    | (.proved p, _) :: _ =>
      if ← NPat.peqF n p (image db goal) then
        match ← x.doC n [.publishProof] with
        | none => pure none
        | some x' => pure (some (x'.s, x'.calls))
      else pure none
    | _ => pure none

/-- `TranslatedProofSkeleton.execute_full`: Γ = the exported axioms, one claim (the target), then
`exec_proof` -/
def translateFull (cfg : Cfg) (n : Nat) (db : DB) (goal : Term) (labels : List Lbl) (steps : List Nat) :
    Option (Option (PySt × List Call)) := do
  let claims := [image db goal]
  let rec pub (n : Nat) (s : PySt) (acc : List Call) (c : Call) : List NPat → Option (Option (PySt × List Call))
    | [] => some (some (s, acc))
    | a :: r => do
        match ← patternF cfg n s a acc with
        | none => pure none
        | some (s1, a1) =>
          match ← doCalls n s1 [c] a1 with
          | none => pure none
          | some (s2, a2) => pub n s2 a2 c r
  match ← pub n (PySt.init claims) [] .publishAxiom db.axiomImages with
  | none => pure none
  | some (s1, a1) =>
  match ← doCalls n s1 [.intoClaim] a1 with
  | none => pure none
  | some (s2, a2) =>
  match ← pub n s2 a2 .publishClaim claims.reverse with
  | none => pure none
  | some (s3, a3) =>
  match ← doCalls n s3 [.intoProof] a3 with
  | none => pure none
  | some (s4, a4) => execProof cfg n db goal labels steps s4 a4

end MM

namespace MM

/-- the symbols with a declared notation -/
def DB.notSyms (db : DB) : List Nat := (db.ctors.filter (·.body.isSome)).map (·.sym)

/-- the declared notations, in database order (`seen` = the notation symbols declared so far): a body mentions
only the notation's own variables, and of the notation symbols only EARLIER ones (the converter resolves a symbol
as a notation only if the notation is already in scope when the body is converted) -/
def DB.notWf (db : DB) : List Nat → List Ctor → Bool
  | _, [] => true
  | seen, c :: cs =>
    match c.body with
    | none => db.notWf seen cs
    | some b =>
      b.vars.all c.args.contains &&
      b.syms.all (fun s => seen.contains s || !db.notSyms.contains s) &&
      db.notWf (seen ++ [c.sym]) cs

/-- the notation clauses of `DB.wf`: a symbol with a declared notation has one constructor axiom; notation
bodies are stated over the notation's variables and earlier notations -/
def DB.notOk (db : DB) : Bool :=
  db.ctors.all (fun c => c.body.isNone || (db.ctors.filter (·.sym == c.sym)).length == 1) &&
  db.notWf [] db.ctors

/-- the clauses of `DB.wf` that do not concern notations: `$f` statements are unique; every rule
and constructor is stated over declared variables, the built-in ones over pairwise distinct variables -/
def DB.wf0 (db : DB) : Bool :=
  db.floats.Nodup &&
  ([db.impArgs.1, db.impArgs.2].Nodup && [db.impArgs.1, db.impArgs.2].all db.floats.contains) &&
  ([db.appArgs.1, db.appArgs.2].Nodup && [db.appArgs.1, db.appArgs.2].all db.floats.contains) &&
  db.ctors.all (fun c => c.args.Nodup && c.args.all db.floats.contains) &&
  db.rules.all (fun r => (Term.varsList (r.hyps ++ [r.concl])).all db.floats.contains) &&
  ([db.p1.1, db.p1.2].Nodup && [db.p1.1, db.p1.2].all db.floats.contains) &&
  ([db.p2.1, db.p2.2.1, db.p2.2.2].Nodup && [db.p2.1, db.p2.2.1, db.p2.2.2].all db.floats.contains) &&
  ([db.mp.1, db.mp.2].Nodup && [db.mp.1, db.mp.2].all db.floats.contains)

/-- well-formedness of a database of the fragment (decidable; the driver evaluates it on every generated
database so that the theorems' hypothesis is known to be met): `DB.wf0` and, for the declared notations,
`DB.notOk` (true of every database without notations) -/
def DB.wf (db : DB) : Bool := db.wf0 && db.notOk

/-- the symbols of a call history are named in the order of their first serialisation (names are
arbitrary labels: the correspondence harness renames; see DESIGN.md, `CanonTab`) -/
def CanonCalls : List Nat → List Call → Prop
  | _, [] => True
  | tab, .symbol nm :: cs => nm ≤ tab.length ∧ CanonCalls (if tab.contains nm then tab else tab ++ [nm]) cs
  | tab, _ :: cs => CanonCalls tab cs

end MM
