import Pi2.MM.Mono
import Pi2.MM.XStep
/-!
# Fuel monotonicity of the translator model
-/
set_option linter.unusedSimpArgs false
set_option linter.unusedVariables false
open Pat PySt

namespace MM

/-- sequencing of raising computations (one result) -/
def oseq {α β} (x : Option (Option α)) (f : α → Option (Option β)) : Option (Option β) :=
  x.bind fun o => match o with | none => pure none | some a => f a

theorem OLe.oseq {α β} {x x' : Option (Option α)} {f f' : α → Option (Option β)}
    (hx : OLe x x') (hf : ∀ a, OLe (f a) (f' a)) : OLe (oseq x f) (oseq x' f') := by
  unfold MM.oseq
  apply OLe.bind hx
  intro o
  cases o
  · exact OLe.refl _
  · exact hf _

theorem doC_step (n : Nat) (x : XSt) (cs : List Call) : OLe (x.doC n cs) (x.doC (n + 1) cs) := by
  simp only [XSt.doC, Option.bind_eq_bind, Option.pure_def]
  exact OLe.bindL (doCalls_step n cs x.s x.calls)

theorem stash_step (n : Nat) : ∀ (m : Nat) (x : XSt) (saved : List TTerm),
    OLe (xstep.stash n x saved m) (xstep.stash (n + 1) x saved m) := by
  intro m
  induction m with
  | zero => intro x saved; exact OLe.refl _
  | succ m ih =>
    intro x saved
    simp only [xstep.stash]
    split
    · exact OLe.refl _
    · simp only [Option.bind_eq_bind, Option.pure_def]
      apply OLe.bind (doC_step n x _)
      intro o
      cases o
      · exact OLe.refl _
      · exact ih _ _

theorem discharge_step (n : Nat) : ∀ (ts : List TTerm) (x : XSt),
    OLe (xstep.discharge n x ts) (xstep.discharge (n + 1) x ts) := by
  intro ts
  induction ts with
  | nil => intro x; exact OLe.refl _
  | cons t ts ih =>
    intro x
    simp only [xstep.discharge, Option.bind_eq_bind, Option.pure_def]
    apply OLe.bind (doC_step n x _)
    intro o
    cases o
    · exact OLe.refl _
    · simp only []
      split
      · apply OLe.bind (doC_step n _ _)
        intro o
        cases o
        · exact OLe.refl _
        · exact ih _
      · exact OLe.refl _

theorem OLe.oseqL {α β} {x x' : Option (Option α)} {f : α → Option (Option β)}
    (hx : OLe x x') : OLe (x.bind fun o => match o with | none => pure none | some a => f a)
      (x'.bind fun o => match o with | none => pure none | some a => f a) := OLe.bindL hx

theorem xSave_step (n : Nat) (x : XSt) : OLe (xSave n x) (xSave (n + 1) x) := by
  unfold xSave
  split
  · exact OLe.refl _
  · simp only [Option.bind_eq_bind]
    exact OLe.bindL (doC_step _ _ _)

theorem xReuse_step (n : Nat) (x : XSt) (j : Nat) : OLe (xReuse n x j) (xReuse (n + 1) x j) := by
  unfold xReuse
  split
  · exact OLe.refl _
  · exact doC_step _ _ _

theorem xImp_step (cfg : Cfg) (n : Nat) (db : DB) (x : XSt) :
    OLe (xImp cfg n db x) (xImp cfg (n + 1) db x) := by
  unfold xImp
  simp only [Option.bind_eq_bind]
  apply OLe.ite
  · intro _
    apply OLe.ite
    · intro _; exact doC_step _ _ _
    · intro _; exact OLe.refl _
  · intro _
    apply OLe.bind ((patMono _ _).1 _ _ _)
    intro o
    rcases o with _ | ⟨s', c'⟩
    · exact OLe.refl _
    · exact doC_step _ _ _

theorem xApp_step (cfg : Cfg) (n : Nat) (db : DB) (x : XSt) :
    OLe (xApp cfg n db x) (xApp cfg (n + 1) db x) := by
  unfold xApp
  simp only [Option.bind_eq_bind]
  apply OLe.ite
  · intro _
    apply OLe.ite
    · intro _; exact doC_step _ _ _
    · intro _; exact OLe.refl _
  · intro _
    apply OLe.bind ((patMono _ _).1 _ _ _)
    intro o
    rcases o with _ | ⟨s', c'⟩
    · exact OLe.refl _
    · exact doC_step _ _ _

theorem xCtor_step (cfg : Cfg) (n : Nat) (db : DB) (x : XSt) (k : Nat) :
    OLe (xCtor cfg n db x k) (xCtor cfg (n + 1) db x k) := by
  unfold xCtor
  split
  · exact OLe.refl _
  · simp only [Option.bind_eq_bind]
    apply OLe.bind ((patMono _ _).1 _ _ _)
    intro o
    rcases o with _ | ⟨s', c'⟩
    · exact OLe.refl _
    · simp only []
      apply OLe.ite
      · intro _; exact OLe.refl _
      · intro _; exact doC_step _ _ _

theorem xRule_step (n : Nat) (db : DB) (x : XSt) (k : Nat) :
    OLe (xRule n db x k) (xRule (n + 1) db x k) := by
  unfold xRule
  split
  · exact OLe.refl _
  · simp only [Option.bind_eq_bind]
    apply OLe.bind (stash_step _ _ _ _)
    intro o
    rcases o with _ | ⟨x1, saved⟩
    · exact OLe.refl _
    simp only []
    apply OLe.bind (doC_step _ _ _)
    intro o
    rcases o with _ | x2
    · exact OLe.refl _
    simp only []
    apply OLe.bind
    · apply OLe.ite
      · intro _; exact OLe.refl _
      · intro _; exact doC_step _ _ _
    intro o
    rcases o with _ | x3
    · exact OLe.refl _
    · exact discharge_step _ _ _

theorem xP1_step (n : Nat) (db : DB) (x : XSt) : OLe (xP1 n db x) (xP1 (n + 1) db x) := by
  unfold xP1
  simp only [Option.bind_eq_bind]
  apply OLe.bind (doC_step _ _ _)
  intro o
  rcases o with _ | x'
  · exact OLe.refl _
  simp only []
  split
  · exact OLe.refl _
  · exact doC_step _ _ _

theorem xP2_step (n : Nat) (db : DB) (x : XSt) : OLe (xP2 n db x) (xP2 (n + 1) db x) := by
  unfold xP2
  simp only [Option.bind_eq_bind]
  apply OLe.bind (doC_step _ _ _)
  intro o
  rcases o with _ | x'
  · exact OLe.refl _
  simp only []
  split
  · exact OLe.refl _
  · exact doC_step _ _ _

theorem xMp_step (n : Nat) (x : XSt) : OLe (xMp n x) (xMp (n + 1) x) := by
  unfold xMp
  split
  · simp only [Option.bind_eq_bind]
    apply OLe.bind (doC_step _ _ _)
    intro o
    rcases o with _ | x'
    · exact OLe.refl _
    simp only []
    split
    · exact OLe.refl _
    · exact doC_step _ _ _
  · exact OLe.refl _

theorem xLabel_step (cfg : Cfg) (n : Nat) (db : DB) (x : XSt) (l : Lbl) :
    OLe (xLabel cfg n db x l) (xLabel cfg (n + 1) db x l) := by
  cases l <;> simp only [xLabel]
  · exact doC_step _ _ _
  · exact xImp_step _ _ _ _
  · exact xApp_step _ _ _ _
  · exact xCtor_step _ _ _ _ _
  · exact xRule_step _ _ _ _
  · exact xP1_step _ _ _
  · exact xP2_step _ _ _
  · exact xMp_step _ _

theorem xstep_step (cfg : Cfg) (n : Nat) (db : DB) (labels : List Lbl) (x : XSt) (step : Nat) :
    OLe (xstep cfg n db labels x step) (xstep cfg (n + 1) db labels x step) := by
  rw [xstep_eq, xstep_eq]
  split
  · exact xSave_step _ _
  · exact xReuse_step _ _ _
  · split
    · exact OLe.refl _
    · exact xLabel_step _ _ _ _ _

theorem xrun_step (cfg : Cfg) (n : Nat) (db : DB) (labels : List Lbl) : ∀ (ks : List Nat) (x : XSt),
    OLe (xrun cfg n db labels x ks) (xrun cfg (n + 1) db labels x ks) := by
  intro ks
  induction ks with
  | nil => intro x; exact OLe.refl _
  | cons k ks ih =>
    intro x
    simp only [xrun, Option.bind_eq_bind, Option.pure_def]
    apply OLe.bind (xstep_step _ _ _ _ _ _)
    intro o
    cases o
    · exact OLe.refl _
    · exact ih _

theorem execProof_step (cfg : Cfg) (n : Nat) (db : DB) (goal : Term) (labels : List Lbl)
    (steps : List Nat) (s : PySt) (acc : List Call) :
    OLe (execProof cfg n db goal labels steps s acc) (execProof cfg (n + 1) db goal labels steps s acc) := by
  simp only [execProof, Option.bind_eq_bind, Option.pure_def]
  apply OLe.bind (xrun_step _ _ _ _ _ _)
  intro o
  cases o
  · exact OLe.refl _
  · simp only []
    split
    · apply OLe.bind (NPat.peqF_step _ _ _)
      intro b
      apply OLe.ite
      · intro _
        apply OLe.bind (doC_step _ _ _)
        intro _; exact OLe.refl _
      · intro _; exact OLe.refl _
    · exact OLe.refl _

theorem pub_step (cfg : Cfg) (n : Nat) (c : Call) : ∀ (as : List NPat) (s : PySt) (acc : List Call),
    OLe (translateFull.pub cfg n s acc c as) (translateFull.pub cfg (n + 1) s acc c as) := by
  intro as
  induction as with
  | nil => intro s acc; exact OLe.refl _
  | cons a r ih =>
    intro s acc
    simp only [translateFull.pub, Option.bind_eq_bind, Option.pure_def]
    apply OLe.bind ((patMono _ _).1 _ _ _)
    intro o
    rcases o with _ | ⟨s1, a1⟩
    · exact OLe.refl _
    · simp only []
      apply OLe.bind (doCalls_step _ _ _ _)
      intro o
      rcases o with _ | ⟨s2, a2⟩
      · exact OLe.refl _
      · exact ih _ _

theorem translateFull_step (cfg : Cfg) (n : Nat) (db : DB) (goal : Term) (labels : List Lbl)
    (steps : List Nat) :
    OLe (translateFull cfg n db goal labels steps) (translateFull cfg (n + 1) db goal labels steps) := by
  simp only [translateFull, Option.bind_eq_bind, Option.pure_def]
  apply OLe.bind (pub_step _ _ _ _ _ _)
  intro o
  rcases o with _ | ⟨s1, a1⟩
  · exact OLe.refl _
  simp only []
  apply OLe.bind (doCalls_step _ _ _ _)
  intro o
  rcases o with _ | ⟨s2, a2⟩
  · exact OLe.refl _
  simp only []
  apply OLe.bind (pub_step _ _ _ _ _ _)
  intro o
  rcases o with _ | ⟨s3, a3⟩
  · exact OLe.refl _
  simp only []
  apply OLe.bind (doCalls_step _ _ _ _)
  intro o
  rcases o with _ | ⟨s4, a4⟩
  · exact OLe.refl _
  exact execProof_step _ _ _ _ _ _ _ _

theorem translateFull_mono (cfg : Cfg) {n m : Nat} (h : n ≤ m) (db : DB) (goal : Term)
    (labels : List Lbl) (steps : List Nat) :
    OLe (translateFull cfg n db goal labels steps) (translateFull cfg m db goal labels steps) :=
  OLe.of_step (fun n => translateFull cfg n db goal labels steps)
    (fun n => translateFull_step cfg n db goal labels steps) h

end MM
