/-!
# Metamath compressed proofs (`MetamathConverter._import_proof`, converter.py:228-337)

`encodeNum` is written from Appendix B of the Metamath book (independent of the code): numbers
1‥20 are `A`‥`T`; larger numbers get base-5 prefix digits `U`‥`Y` (values 1‥5), most significant
first.  `convertToNumber`, `tokenize`, `parseLabels`, `importProof` follow the Python statement by
statement.  Core Lean only.
-/
namespace MM

/-- `lsdigit`: 'A'..'T' ↦ 1..20 -/
def lsdigit (c : Char) : Option Nat :=
  if 'A'.toNat ≤ c.toNat ∧ c.toNat ≤ 'T'.toNat then some (c.toNat - 64) else none

/-- `msdigit`: 'U'..'Y' ↦ 1..5 -/
def msdigit (c : Char) : Option Nat :=
  if 'U'.toNat ≤ c.toNat ∧ c.toNat ≤ 'Y'.toNat then some (c.toNat - 84) else none

/-- the loop of `convert_to_number`: `n += msdigit[letter] * 5^exp * 20; exp += 1` -/
def convLoop : List Char → Nat → Nat → Option Nat
  | [], _, n => some n
  | c :: cs, exp, n => do
      let d ← msdigit c
      convLoop cs (exp + 1) (n + d * 5 ^ exp * 20)

/-- `convert_to_number(word)` (`none` = `KeyError`) -/
def convertToNumber (word : List Char) : Option Nat :=
  match word.reverse with
  | [] => none
  | first :: rest => do
      let n ← lsdigit first
      convLoop rest 0 n

/-- the main loop of `_import_proof` over the letters after the label list: `Z` ↦ 0 (asserting an
empty buffer), a word ending in `A`..`T` ↦ its number; a trailing incomplete word is ignored (as the
Python loop does) -/
def tokenize : List Char → List Char → Option (List Nat)
  | [], _ => some []
  | c :: cs, buf =>
      if c = 'Z' then
        if buf.isEmpty then (tokenize cs []).map (0 :: ·) else none
      else if (lsdigit c).isSome then do
        let n ← convertToNumber (buf ++ [c])
        (tokenize cs []).map (n :: ·)
      else tokenize cs (buf ++ [c])

/-- high digits (values 1..5), least significant first; bijective base 5 -/
def hiDigits : Nat → List Nat
  | 0 => []
  | h + 1 => (h % 5 + 1) :: hiDigits (h / 5)
decreasing_by omega

def hiChar (d : Nat) : Char := Char.ofNat (84 + d)
def loChar (d : Nat) : Char := Char.ofNat (64 + d)

/-- the book's encoding of `n ≥ 1` -/
def encodeNum (n : Nat) : List Char :=
  ((hiDigits ((n - 1) / 20)).reverse.map hiChar) ++ [loChar ((n - 1) % 20 + 1)]

/-- one proof step as written in a compressed proof: `none` = the reuse mark `Z` -/
def encodeStep : Option Nat → List Char
  | none => ['Z']
  | some n => encodeNum n

def stepVal : Option Nat → Nat
  | none => 0
  | some n => n

/-- `parse_lemmas` on the token list after "(" (labels are whitespace-separated, ")" ends the list):
returns the labels and the rest -/
def parseLabels : List String → List String → Option (List String × List String)
  | [], _ => none
  | ")" :: rest, acc => some (acc.reverse, rest)
  | l :: rest, acc => parseLabels rest (l :: acc)

/-- `split_proof` + the main loop, on the whitespace-separated tokens of the proof.
`floats`: the variables of the `$f #Pattern` statements in database order (F9);
`vars`: the variables of the target statement.  Result: the label table (1-based, in order:
mandatory hypotheses, then listed labels) and the decoded steps. -/
def importProof (floats : List String) (vars : List String) (tokens : List String) :
    Option (List String × List Nat) :=
  match tokens with
  | "(" :: rest => do
      let (labels, body) ← parseLabels rest []
      let mandatory := ((floats.filter (vars.contains ·)) ++ ((vars.filter (!floats.contains ·)).mergeSort (fun a b => a ≤ b))).map (· ++ "-is-pattern")
      let steps ← tokenize (body.flatMap String.toList) []
      pure (mandatory ++ labels, steps)
  | _ => none

/-- how `exec_proof` resolves a step number against the table of `k` labels: 0 = save the top
(Z), `1..k` = apply label, above = load the (n-k)-th saved step -/
inductive Step where
  | save | label (i : Nat) | reuse (j : Nat)
deriving DecidableEq, Repr

def resolve (k : Nat) (n : Nat) : Step :=
  if n = 0 then .save else if n ≤ k then .label (n - 1) else .reuse (n - k - 1)

end MM
