import Pi2.MM.ConvBridge
import Pi2.XProofCongr
/-!
# The generated converter + the generated `exec_proof` on a database of the fragment = the model's `execProof` on `dbOfCore`

`convOf` packages the query methods of the generated converter (`Pi2/Gen/MMConv.lean`) as the abstract record `PyXProof.Conv` the
generated `exec_proof` (`Pi2/Gen/ExecProof.lean`) takes: a label `Lbl` is looked up by its name in the label table, a variable number
by its name among the declared variables.  `translation_tie` composes `ConvTie.converter_agrees` (through the congruence
`XProofCongr.exec_proof_congr`) with `XProofTie.exec_proof_tie`.
-/
set_option linter.unusedSimpArgs false
set_option linter.unusedVariables false
open MM SliceSup ConvSup Gen.MMConv PyXProof

namespace ConvTie
open ConvSpec XProofCongr

/-- the name of an `Lbl` in the label table -/
def nameOf (table : List (String × Lbl)) (l : Lbl) : Option String := (table.find? fun p => p.2 == l).map (·.1)

def axRecOf (nm : Names) (a : AxiomObj) : AxiomRec := ⟨a.pattern, a.metavars.map nm.vars.idxOf, a.antecedents?⟩

/-- the generated converter as the converter of the generated `exec_proof` -/
def convOf (σ : String → Nat) (fuel : Nat) (c : ConvObj) (sp : Spec) (target : String) : Conv :=
  { isPatternConstructor := fun l => match nameOf sp.table l with | some s => is_pattern_constructor σ fuel c s | none => false
    floating := fun l => match nameOf sp.table l with | some s => c._fp_label_to_pattern.lookup s | none => none
    isExportedAxiom := fun l => match nameOf sp.table l with | some s => (exported_axioms σ fuel c).contains s | none => false
    isProofRule := fun l => match nameOf sp.table l with | some s => is_proof_rule σ fuel c s | none => false
    axiom? := fun l => match nameOf sp.table l with
      | some s => (match get_axiom_by_name σ fuel c s with | .ok a => some (axRecOf sp.names a) | _ => none)
      | none => none
    metavarsInOrder := fun l => match nameOf sp.table l with
      | some s => (match get_metavars_in_order σ fuel c s with | .ok m => m.map sp.names.vars.idxOf | _ => [])
      | none => []
    resolveMetavar := fun n => match resolve_metavar σ fuel c (sp.names.vars.getD n "") with | .ok p => p | _ => .evar 0
    targetPattern := match get_lemma_by_name σ fuel c target with | .ok a => a.pattern | _ => .evar 0 }

theorem nameOf_eq (table : List (String × Lbl)) (hnd : (table.map (·.2)).Nodup) (s : String) (l : Lbl) (h : (s, l) ∈ table) :
    nameOf table l = some s := by
  induction table with
  | nil => simp at h
  | cons p table ih =>
    obtain ⟨s0, l0⟩ := p
    simp only [List.map_cons, List.nodup_cons] at hnd
    simp only [List.mem_cons, Prod.mk.injEq] at h
    rcases h with ⟨rfl, rfl⟩ | h
    · simp [nameOf, List.find?]
    · have hne : l0 ≠ l := fun e => hnd.1 (e ▸ List.mem_map.mpr ⟨(s, l), h, rfl⟩)
      have : (l0 == l) = false := by simp [hne]
      simp only [nameOf, List.find?, this]
      exact ih hnd.2 h

theorem mem_of_lookup {α : Type} (table : List (String × α)) (s : String) (l : α) (h : table.lookup s = some l) : (s, l) ∈ table := by
  induction table with
  | nil => simp at h
  | cons p table ih =>
    obtain ⟨s0, l0⟩ := p
    simp only [List.lookup] at h
    by_cases e : s = s0
    · subst e; simp at h; subst h; simp
    · have : (s == s0) = false := by simp [e]
      simp only [this] at h
      exact List.mem_cons_of_mem _ (ih h)

theorem exported_contains (σ : String → Nat) (fuel : Nat) (c : ConvObj) (s : String) :
    (exported_axioms σ fuel c).contains s = is_exported_axiom σ fuel c s := by
  simp only [exported_axioms, axioms, dictKeys]
  cases h : is_exported_axiom σ fuel c s
  · simp only [List.contains_eq_mem, decide_eq_false_iff_not, List.mem_filter, not_and]
    intro _; simp [h]
  · simp only [List.contains_eq_mem, decide_eq_true_eq, List.mem_filter]
    refine ⟨?_, h⟩
    simp only [is_exported_axiom, is_axiom, Bool.and_eq_true] at h
    exact (dictHas_iff _ _).mp h.1.1

/-- the additional decidable conditions on the specification's output that the composition uses -/
def tableOK (sp : Spec) (mdb : MDb) : Bool :=
  decide (sp.table.map (·.2)).Nodup &&
  sp.table.all fun p => ((floatPairs mdb).map (·.1)).contains p.1 || ((mdb.filter isAxItem).map axLabel).contains p.1

/-- the supported fragment for the composed statement: `InFragment`, the label table is one-to-one and only names `$f` and `$a`
labels, the target's label is not the label of a `$f` statement -/
def InFragmentX (mdb : MDb) (target : String) : Bool :=
  InFragment mdb target && !((floatPairs mdb).map (·.1)).contains target &&
  match dbOfCore mdb target with | some sp => tableOK sp mdb | none => false

theorem getD_idxOf (V : List String) (v : String) (h : v ∈ V) : V.getD (V.idxOf v) "" = v := by
  have hlt : V.idxOf v < V.length := List.idxOf_lt_length_of_mem h
  simp [List.getD, List.getElem?_eq_getElem hlt, List.getElem_idxOf hlt]

section
variable {fuel : Nat} {mdb : MDb} {target : String} {t : MTerm} {prf : List String} {pf : Gen.ImportProof.Proof} {c : ConvObj}

/-- the variables with a `$f` statement resolve alike -/
theorem convOf_resolve (sp : Spec) (hF : FragM mdb fuel target t prf) (hfin : Final sp.names.consts.idxOf mdb target t pf c)
    (hL : LabelsOK mdb) (hcf : coherentFloats sp mdb = true) (v : String) (hv : v ∈ (floatPairs mdb).map (·.2)) :
    (convOf sp.names.consts.idxOf fuel c sp target).resolveMetavar (sp.names.vars.idxOf v) =
      (XProofTie.ofDB sp.db sp.goal).resolveMetavar (sp.names.vars.idxOf v) := by
  obtain ⟨p, hp, rfl⟩ := List.mem_map.mp hv
  obtain ⟨l, v⟩ := p
  have hvV : v ∈ sp.names.vars := (numbering_of_coherent sp mdb hcf).declared v hv
  obtain ⟨_, _, hr, _⟩ := agree_float sp hF hfin hL hcf l v hp
  simp only [convOf, getD_idxOf _ v hvV, hr]

theorem convOf_agree_axiom (sp : Spec) (hF : FragM mdb fuel target t prf) (hfin : Final sp.names.consts.idxOf mdb target t pf c)
    (hL : LabelsOK mdb) (hcf : coherentFloats sp mdb = true) (hnd : (sp.table.map (·.2)).Nodup)
    (st : MStmt) (hst : st ∈ mdb.filter isAxItem) (hco : coherentItem sp st = true) (lbl : Lbl)
    (hlk : sp.table.lookup (axLabel st) = some lbl) :
    ConvAgree (convOf sp.names.consts.idxOf fuel c sp target) (XProofTie.ofDB sp.db sp.goal) lbl := by
  obtain ⟨l, lbl', hlab, hlk', hag⟩ := agree_axiom sp rfl hF hfin (numbering_of_coherent sp mdb hcf) st hst hco
  rw [hlab] at hlk
  rw [hlk] at hlk'
  have := Option.some.inj hlk'
  subst this
  have hname : nameOf sp.table lbl = some l := nameOf_eq sp.table hnd l lbl (mem_of_lookup _ _ _ hlk)
  obtain ⟨pl, eh, l0, tcs, t', hparts, haxok, _, _⟩ := hF.axioms st hst
  have hl0 : l0 = l := by rw [← hlab]; exact ((headLabel_eq_axLabel hparts).2).symm
  subst hl0
  -- the `Lbl` of an axiom is not a `$f` label
  have hnf : (XProofTie.ofDB sp.db sp.goal).floating lbl = none := by
    have h1 := hag.pc; have h2 := hag.pr; have h3 := hag.ex
    rw [ofDB_pc] at h1; rw [ofDB_pr] at h2; rw [ofDB_ex] at h3
    cases lbl with
    | float v =>
      -- a `.float` would be neither constructor, nor rule, nor exported: but `tc` is `#Pattern` or `|-`
      exfalso
      rw [q_is_pattern_constructor hF hfin st hst hparts] at h1
      rw [q_is_proof_rule hF hfin st hst hparts] at h2
      obtain ⟨_, _, _, _, hisax⟩ := q_get_axiom hF hfin st hst hparts
      simp only [is_exported_axiom, hisax, q_is_pattern_constructor hF hfin st hst hparts, q_is_proof_rule hF hfin st hst hparts,
        Bool.true_and] at h3
      simp only [isPC, isPR, isRuleL] at h1 h2 h3
      cases hb1 : (tcs == "#Pattern") <;> cases hb2 : strStartsWith l0 "proof-rule-" <;> simp [hb1, hb2, bne] at h1 h2 h3
    | _ => rfl
  have hfl : c._fp_label_to_pattern.lookup l0 = none := by
    rw [hfin.fps]
    have : l0 ∉ (fpOf (floatPairs mdb)).map (·.1) := by
      rw [fpOf_keys]
      intro hm
      exact hL.disjoint l0 hm (List.mem_map.mpr ⟨st, hst, hlab⟩)
    have h := (dictHas_false_iff _ _).mpr this
    simp only [dictHas] at h
    cases hh : List.lookup l0 (fpOf (floatPairs mdb)) with
    | none => rfl
    | some _ => simp [hh] at h
  obtain ⟨a, hget, hentry, hmio, _⟩ := q_get_axiom hF hfin st hst hparts
  obtain ⟨a', r, hget', hr, hpat, hant, hmv⟩ := hag.ax
  rw [hget] at hget'
  have := Res.ok.inj hget'
  subst this
  obtain ⟨m, hm, hmeq⟩ := hag.mio
  rw [hmio] at hm
  have := Res.ok.inj hm
  subst this
  refine ⟨?_, ?_, ?_, ?_, ?_, ?_, ?_⟩
  · simp only [convOf, hname]; exact hag.pc
  · simp only [convOf, hname, hfl, hnf]
  · simp only [convOf, hname, exported_contains]; exact hag.ex
  · simp only [convOf, hname]; exact hag.pr
  · simp only [convOf, hname, hget, hr, AxRel, axRecOf]
    refine ⟨hpat, hant, ?_⟩
    have : (a.metavars.map sp.names.vars.idxOf = []) ↔ (r.metavars = []) := by
      constructor
      · intro h
        cases hrm : r.metavars with
        | nil => rfl
        | cons x xs =>
          have := (hmv x).mpr (by rw [hrm]; simp)
          rw [h] at this; simp at this
      · intro h
        cases hrm : a.metavars.map sp.names.vars.idxOf with
        | nil => rfl
        | cons x xs =>
          have := (hmv x).mp (by rw [hrm]; simp)
          rw [h] at this; simp at this
    by_cases he : a.metavars.map sp.names.vars.idxOf = []
    · have he' := this.mp he
      simp [he, he']
    · have he' : r.metavars ≠ [] := fun h => he (this.mpr h)
      have h1 : 0 < (a.metavars.map sp.names.vars.idxOf).length := List.length_pos_iff.mpr he
      have h2 : 0 < r.metavars.length := List.length_pos_iff.mpr he'
      have h1' : 0 < a.metavars.length := by simpa using h1
      simp [h1', h2]
  · simp only [convOf, hname, hmio]; exact hmeq
  · intro n hn
    simp only [convOf, hname, hmio, List.mem_map] at hn
    obtain ⟨v, hv, rfl⟩ := hn
    exact convOf_resolve sp hF hfin hL hcf v (List.mem_filter.mp hv).1

theorem convOf_agree_float (sp : Spec) (hF : FragM mdb fuel target t prf) (hfin : Final sp.names.consts.idxOf mdb target t pf c)
    (hL : LabelsOK mdb) (hcf : coherentFloats sp mdb = true) (hnd : (sp.table.map (·.2)).Nodup)
    (l v : String) (hlv : (l, v) ∈ floatPairs mdb) (hlt : l ≠ target) :
    ConvAgree (convOf sp.names.consts.idxOf fuel c sp target) (XProofTie.ofDB sp.db sp.goal) (Lbl.float (sp.names.vars.idxOf v)) := by
  obtain ⟨htab, hfp, _, hpc⟩ := agree_float sp hF hfin hL hcf l v hlv
  have hname : nameOf sp.table (Lbl.float (sp.names.vars.idxOf v)) = some l := nameOf_eq sp.table hnd l _ (mem_of_lookup _ _ _ htab)
  have hlfl : l ∈ (floatPairs mdb).map (·.1) := List.mem_map.mpr ⟨(l, v), hlv, rfl⟩
  -- a `$f` label is not the label of an axiom
  have hnax : l ∉ c._axioms.map (·.1) := by
    rw [axList_keys _ _ _ _ hfin.axioms]
    exact hL.disjoint l hlfl
  have hhas : dictHas c._axioms l = false := (dictHas_false_iff _ _).mpr hnax
  have hpr : is_proof_rule sp.names.consts.idxOf fuel c l = false := by
    simp only [is_proof_rule]
    have : l ∉ c._proof_rules := by
      intro h
      obtain ⟨st', hst', hl'⟩ := List.mem_map.mp ((hfin.prs l).mp h)
      simp only [List.mem_filter] at hst'
      obtain ⟨pl', eh', l', tcs', t'', hparts', _⟩ := hF.axioms st' (by simpa [List.mem_filter] using hst'.1)
      obtain ⟨e1, e2⟩ := headLabel_eq_axLabel hparts'
      exact hL.disjoint l hlfl (List.mem_map.mpr ⟨st', by simpa [List.mem_filter] using hst'.1, by rw [e2, ← e1, hl']⟩)
    simpa using this
  have hmio : get_metavars_in_order sp.names.consts.idxOf fuel c l = .raise := by
    obtain ⟨a, hla, _⟩ := hfin.lemmas
    have hb : (l == target) = false := by simp [hlt]
    have : dictHas c._lemmas l = false := by simp [dictHas, hla, List.lookup, hb]
    simp [get_metavars_in_order, get_metavars, hhas, this, bind, Res.bind]
  have hmio' : (convOf sp.names.consts.idxOf fuel c sp target).metavarsInOrder (Lbl.float (sp.names.vars.idxOf v)) = [] := by
    simp only [convOf, hname, hmio]
  refine ⟨?_, ?_, ?_, ?_, ?_, ?_, ?_⟩
  · simp only [convOf, hname]; exact hpc
  · simp only [convOf, hname]; exact hfp
  · simp only [convOf, hname, exported_contains, is_exported_axiom, is_axiom, hhas, Bool.false_and]; rfl
  · simp only [convOf, hname, hpr]; rfl
  · have : get_axiom_by_name sp.names.consts.idxOf fuel c l = .raise := by
      simp [get_axiom_by_name, is_axiom, hhas, ConvSup.pyAssert, bind, Res.bind]
    simp only [convOf, hname, this, AxRel]
    simp [XProofTie.ofDB, DB.assertion]
  · rw [hmio']
    simp [XProofTie.ofDB, DB.assertion]
  · intro n hn
    rw [hmio'] at hn; simp at hn

end

theorem mapM_lookup_mem {α β : Type} (f : α → Option β) : ∀ (xs : List α) (ys : List β), xs.mapM f = some ys →
    ∀ y ∈ ys, ∃ x ∈ xs, f x = some y := by
  intro xs
  induction xs with
  | nil => intro ys h y hy; simp at h; subst h; simp at hy
  | cons x xs ih =>
    intro ys h y hy
    rw [List.mapM_cons] at h
    cases hx : f x with
    | none => simp [hx] at h
    | some b =>
      cases hr : xs.mapM f with
      | none => simp [hx, hr] at h
      | some r =>
        simp [hx, hr] at h
        subst h
        simp only [List.mem_cons] at hy
        rcases hy with rfl | hy
        · exact ⟨x, by simp, hx⟩
        · obtain ⟨x', hx', hfx'⟩ := ih r hr y hy
          exact ⟨x', by simp [hx'], hfx'⟩

/-- THE COMPOSITION: on a database of the fragment the generated `exec_proof`, run on the generated converter (through `convOf`) with
the label list and steps of the specification, is the model's `execProof` on the specification's database — same exception /
out-of-fuel / final tracker state and call history -/
theorem translation_tie (mdb : MDb) (target : String) (h : InFragmentX mdb target = true) :
    ∃ sp, dbOfCore mdb target = some sp ∧
      ∀ fuel, dbFuel mdb ≤ fuel → ∃ c, MetamathConverter_init sp.names.consts.idxOf fuel default mdb = .ok c ∧
        (∃ a pf, get_lemma_by_name sp.names.consts.idxOf fuel c target = .ok a ∧ a.proof? = some pf ∧ proofAgrees sp pf = true) ∧
        ∀ (cfg : PySt.Cfg) (n : Nat) (s : PySt) (acc : List Call), 5 ≤ n →
          XProofTie.outcome (Gen.XProof.exec_proof (convOf sp.names.consts.idxOf fuel c sp target) cfg n sp.labels sp.steps s acc) =
            execProof cfg n sp.db sp.goal sp.labels sp.steps s acc := by
  simp only [InFragmentX, Bool.and_eq_true, Bool.not_eq_true', List.contains_eq_mem, decide_eq_false_iff_not] at h
  obtain ⟨⟨hfrag, htgt⟩, htab⟩ := h
  have hfrag' := hfrag
  simp only [InFragment, Bool.and_eq_true] at hfrag'
  obtain ⟨hM, hsp⟩ := hfrag'
  cases hdb : dbOfCore mdb target with
  | none => simp [hdb] at hsp
  | some sp =>
    simp only [hdb, Bool.and_eq_true, List.all_eq_true] at hsp htab
    obtain ⟨⟨⟨⟨hitems, hfloats⟩, hgoal⟩, hproof⟩, hwf⟩ := hsp
    simp only [tableOK, Bool.and_eq_true, decide_eq_true_eq, List.all_eq_true, Bool.or_eq_true, List.contains_eq_mem] at htab
    obtain ⟨hnd, hcov⟩ := htab
    obtain ⟨t, prf, pf, hlem, hL, hpf, hF⟩ := inFragmentM_sound hM
    refine ⟨sp, rfl, ?_⟩
    intro fuel hfuel
    obtain ⟨c, hc, hfin⟩ := init_ok sp.names.consts.idxOf fuel mdb target t prf pf (hF fuel hfuel) hpf
    obtain ⟨a, hla, hpat, hapf, _⟩ := agree_goal (fuel := fuel) sp rfl hfin hlem hfloats hgoal
    have hpa : proofAgrees sp pf = true := by
      simp only [coherentProof, hlem, hpf] at hproof
      exact hproof
    refine ⟨c, hc, ⟨a, pf, hla, hapf, hpa⟩, ?_⟩
    intro cfg n s acc hn
    have hagree : ∀ lbl ∈ sp.labels, ConvAgree (convOf sp.names.consts.idxOf fuel c sp target) (XProofTie.ofDB sp.db sp.goal) lbl := by
      intro lbl hlbl
      simp only [proofAgrees, Bool.and_eq_true, decide_eq_true_eq] at hpa
      obtain ⟨p, _, hp⟩ := mapM_lookup_mem _ _ _ hpa.1.2 lbl hlbl
      have hmem := mem_of_lookup _ _ _ hp
      rcases hcov _ hmem with hfl | hax
      · obtain ⟨q, hq, hq1⟩ := List.mem_map.mp hfl
        obtain ⟨l, v⟩ := q
        simp only [] at hq1
        obtain ⟨htl, _⟩ := agree_float sp (hF fuel hfuel) hfin hL hfloats l v hq
        rw [← hq1, htl] at hp
        have := Option.some.inj hp
        subst this
        exact convOf_agree_float sp (hF fuel hfuel) hfin hL hfloats hnd l v hq
          (fun e => htgt (e ▸ List.mem_map.mpr ⟨(l, v), hq, rfl⟩))
      · obtain ⟨st, hst, hlab⟩ := List.mem_map.mp hax
        exact convOf_agree_axiom sp (hF fuel hfuel) hfin hL hfloats hnd st hst (hitems st hst) lbl (by rw [hlab]; exact hp)
    have htp : (convOf sp.names.consts.idxOf fuel c sp target).targetPattern = (XProofTie.ofDB sp.db sp.goal).targetPattern := by
      simp only [convOf, hla]; exact hpat
    rw [exec_proof_congr _ _ cfg n sp.labels sp.steps s acc hagree htp]
    exact XProofTie.exec_proof_tie sp.db sp.goal cfg n sp.labels sp.steps s acc (DB.wf_WF sp.db hwf) hn

end ConvTie

#print axioms ConvTie.translation_tie
