import Pi2.MM.Sim
/-!
# T1: a verifying Metamath proof translates
-/
set_option linter.unusedSimpArgs false
set_option linter.unusedVariables false
open Pat PySt NPat

namespace MM

theorem pub_mono (cfg : Cfg) {n m : Nat} (h : n ≤ m) (c : Call) (as : List NPat) (s : PySt)
    (acc : List Call) :
    OLe (translateFull.pub cfg n s acc c as) (translateFull.pub cfg m s acc c as) :=
  OLe.of_step (fun n => translateFull.pub cfg n s acc c as) (fun n => pub_step cfg n c as s acc) h

/-- the gamma and claim loops return -/
theorem pub_total (cfg : Cfg) (c : Call) (ph : Phase)
    (hc : (c = .publishAxiom ∧ ph = .gamma) ∨ (c = .publishClaim ∧ ph = .claim)) :
    ∀ (as : List NPat) (s : PySt) (acc : List Call), (∀ a ∈ as, a.B0 = true) → StF0 s →
    s.phase = ph →
    ∃ n s' a', translateFull.pub cfg n s acc c as = some (some (s', a')) ∧ StF0 s' ∧
      s'.phase = ph ∧ s'.claims = s.claims ∧ (∀ u ∈ s.memory, u ∈ s'.memory) ∧
      (c = .publishAxiom → ∀ a ∈ as, TTerm.proved a ∈ s'.memory) := by
  intro as
  induction as with
  | nil =>
    intro s acc _ hs hph
    exact ⟨0, s, acc, rfl, hs, hph, rfl, fun _ h => h, fun _ a ha => by simp at ha⟩
  | cons a r ih =>
    intro s acc has hs hph
    have haB := has a (by simp)
    obtain ⟨n1, s1, a1, h1⟩ := patternF_term cfg a s acc haB hs
    obtain ⟨cs, hcs, _, hstk, hsf1, hfr, _⟩ := patternF_tr cfg (Nat.le_refl n1) haB hs h1
    simp only [List.singleton_append] at hstk
    obtain ⟨e, he⟩ := hfr.2.2.1
    -- the publish call
    have hpub : ∃ s2, (∀ n, track1 n s1 c = some (some s2)) ∧ StF0 s2 ∧ s2.phase = ph ∧
        s2.claims = s.claims ∧ (∀ u ∈ s1.memory, u ∈ s2.memory) ∧
        (c = .publishAxiom → TTerm.proved a ∈ s2.memory) := by
      rcases hc with ⟨rfl, rfl⟩ | ⟨rfl, rfl⟩
      · refine ⟨{ s1 with stack := (.pat a, true) :: s.stack, memory := s1.memory ++ [.proved a] },
          ?_, ?_, ?_, ?_, ?_, ?_⟩
        · intro n; simp [track1, hfr.1, hph, hstk]
        · refine ⟨?_, ?_, hsf1.2.2⟩
          · intro e he
            rcases List.mem_cons.mp he with rfl | he
            · exact B0.toF0 a haB
            · exact hs.1 e he
          · intro u hu
            rcases List.mem_append.mp hu with hu | hu
            · exact hsf1.2.1 u hu
            · simp at hu; subst hu; exact B0.toF0 a haB
        · exact hfr.1.trans hph
        · exact hfr.2.1
        · intro u hu; exact List.mem_append_left _ hu
        · intro _; simp
      · refine ⟨{ s1 with stack := (.pat a, true) :: s.stack }, ?_, ?_, ?_, ?_, ?_, ?_⟩
        · intro n; simp [track1, hfr.1, hph, hstk]
        · refine ⟨?_, hsf1.2.1, hsf1.2.2⟩
          intro e he
          rcases List.mem_cons.mp he with rfl | he
          · exact B0.toF0 a haB
          · exact hs.1 e he
        · exact hfr.1.trans hph
        · exact hfr.2.1
        · intro u hu; exact hu
        · intro e; cases e
    obtain ⟨s2, ht2, hsf2, hph2, hcl2, hm2, hax2⟩ := hpub
    obtain ⟨n3, s', a', h3, hsf', hph', hcl', hm', hax'⟩ :=
      ih s2 (a1 ++ [c]) (fun x hx => has x (List.mem_cons_of_mem _ hx)) hsf2 hph2
    refine ⟨max n1 n3, s', a', ?_, hsf', hph', hcl'.trans hcl2, ?_, ?_⟩
    · simp only [translateFull.pub, Option.bind_eq_bind]
      rw [patternF_mono cfg (Nat.le_max_left n1 n3) _ _ _ _ h1]
      simp only [Option.bind_some, doCalls_ok _ s1 s2 c a1 (ht2 _)]
      exact pub_mono cfg (Nat.le_max_right n1 n3) _ _ _ _ _ h3
    · intro u hu
      exact hm' u (hm2 u (by rw [he]; exact List.mem_append_left _ hu))
    · intro hc' x hx
      rcases List.mem_cons.mp hx with rfl | hx
      · exact hm' _ (hax2 hc')
      · exact hax' hc' x hx

theorem implChain_mem_B0 (db : DB) : ∀ a ∈ db.axiomImages, a.B0 = true := by
  intro a ha
  obtain ⟨r, _, rfl⟩ := List.mem_map.mp ha
  exact implChain_B0 db _ _

theorem execProof_mono (cfg : Cfg) {n m : Nat} (h : n ≤ m) (db : DB) (goal : Term)
    (labels : List Lbl) (steps : List Nat) (s : PySt) (acc : List Call) :
    OLe (execProof cfg n db goal labels steps s acc) (execProof cfg m db goal labels steps s acc) :=
  OLe.of_step (fun n => execProof cfg n db goal labels steps s acc)
    (fun n => execProof_step cfg n db goal labels steps s acc) h

/-- the proof phase -/
theorem execProof_total (cfg : Cfg) (db : DB) (goal : Term) (hwf : db.WF) (labels : List Lbl)
    (steps : List Nat) (s : PySt) (acc : List Call) (hinv : Inv db goal [] [] ⟨s, acc, []⟩)
    (hv : mmVerify db goal labels steps = true) :
    ∃ n s' a', execProof cfg n db goal labels steps s acc = some (some (s', a')) ∧ s'.claims = [] := by
  unfold mmVerify at hv
  split at hv
  · next st heap hrun =>
    have hst := Stmt.beq_eq _ _ hv
    subst hst
    obtain ⟨n1, x, hx, hi⟩ := sim_vrun cfg db goal hwf labels steps [] [] _ _ ⟨s, acc, []⟩ hinv hrun
    obtain ⟨T, hT, hr⟩ := hi.stack
    match T, hr with
    | [t], hr =>
    obtain ⟨⟨p, rfl, hpF, hpe⟩, _⟩ := hr
    simp only [if_true, List.map_cons, List.map_nil, ent] at hT
    obtain ⟨n2, hpeq⟩ := peqF_total p (image db goal) hpF (B0.toF0 _ (image_B0 db goal))
    rw [hpe] at hpeq
    simp only [decide_true] at hpeq
    have hpub : track1 n2 x.s .publishProof
        = some (some { x.s with stack := [(.proved p, true)], claims := [] }) := by
      simp [track1, hi.phase, hT, hi.claims, hpeq]
    refine ⟨max n1 n2, { x.s with stack := [(.proved p, true)], claims := [] },
      x.calls ++ [.publishProof], ?_, rfl⟩
    simp only [execProof, Option.bind_eq_bind]
    rw [xrun_mono cfg (Nat.le_max_left n1 n2) _ _ _ _ _ hx]
    simp only [Option.bind_some, hT]
    rw [peqF_mono (Nat.le_max_right n1 n2) _ _ _ hpeq]
    simp only [Option.bind_some, if_true]
    have hR : Reach (max n1 n2) x.s [.publishProof]
        { x.s with stack := [(.proved p, true)], claims := [] } :=
      ⟨_, track1_mono (Nat.le_max_right n1 n2) _ _ _ hpub, rfl⟩
    rw [doC_reach hR]
    rfl
  · simp at hv

/-- T1. A proof that the Metamath verifier accepts is translated (for enough fuel, under any
memoisation configuration), and the translation proves its one claim. -/
theorem translate_succeeds_core (cfg : PySt.Cfg) (db : DB) (goal : Term) (labels : List Lbl)
    (steps : List Nat) (hwf : db.wf = true) (hv : mmVerify db goal labels steps = true) :
    ∃ n s calls, translateFull cfg n db goal labels steps = some (some (s, calls)) ∧ s.claims = [] := by
  have hWF := db.wf_WF hwf
  have hg0 : (image db goal).F0 = true := B0.toF0 _ (image_B0 db goal)
  have hs0 : StF0 (PySt.init [image db goal]) :=
    ⟨by simp [PySt.init], by simp [PySt.init], by simp [PySt.init]; exact hg0⟩
  -- gamma
  obtain ⟨n1, s1, a1, h1, hsf1, hph1, hcl1, _, hax1⟩ := pub_total cfg .publishAxiom .gamma
    (Or.inl ⟨rfl, rfl⟩) db.axiomImages (PySt.init [image db goal]) [] (implChain_mem_B0 db) hs0 rfl
  have ht1 : ∀ n, track1 n s1 .intoClaim = some (some { s1 with phase := .claim, stack := [] }) := by
    intro n; simp [track1, hph1]
  have hsf2 : StF0 { s1 with phase := .claim, stack := [] } := ⟨by simp, hsf1.2.1, hsf1.2.2⟩
  -- claim
  obtain ⟨n2, s3, a3, h3, hsf3, hph3, hcl3, hm3, _⟩ := pub_total cfg .publishClaim .claim
    (Or.inr ⟨rfl, rfl⟩) [image db goal].reverse { s1 with phase := .claim, stack := [] }
    (a1 ++ [.intoClaim]) (by simp; exact image_B0 db goal) hsf2 rfl
  have ht3 : ∀ n, track1 n s3 .intoProof = some (some { s3 with phase := .proof, stack := [] }) := by
    intro n; simp [track1, hph3]
  -- proof
  have hinv : Inv db goal [] [] ⟨{ s3 with phase := .proof, stack := [] }, a3 ++ [.intoProof], []⟩ := by
    refine ⟨rfl, ?_, ⟨[], rfl, trivial⟩, trivial, by simp, ?_, hsf3.2.1⟩
    · show s3.claims = _
      rw [hcl3]; show s1.claims = _; rw [hcl1]; rfl
    · intro r hr
      refine ⟨.proved (implChain db r.hyps r.concl), ?_, rfl⟩
      apply hm3
      exact hax1 rfl _ (List.mem_map_of_mem (f := fun r => implChain db r.hyps r.concl) hr)
  obtain ⟨n4, s', a', h4, hfin⟩ := execProof_total cfg db goal hWF labels steps _ _ hinv hv
  refine ⟨max n1 (max n2 n4), s', a', ?_, hfin⟩
  simp only [translateFull, Option.bind_eq_bind]
  rw [pub_mono cfg (Nat.le_max_left _ _) _ _ _ _ _ h1]
  simp only [Option.bind_some, doCalls_ok _ s1 _ .intoClaim a1 (ht1 _)]
  rw [pub_mono cfg (Nat.le_trans (Nat.le_max_left n2 n4) (Nat.le_max_right _ _)) _ _ _ _ _ h3]
  simp only [Option.bind_some, doCalls_ok _ s3 _ .intoProof a3 (ht3 _)]
  exact execProof_mono cfg (Nat.le_trans (Nat.le_max_right n2 n4) (Nat.le_max_right _ _)) _ _ _ _ _ _ _ h4

end MM
#print axioms MM.translate_succeeds_core
