import Pi2.MM.Ast
/-!
# The slicer (`metamath/metamath_extract_slice.py`: `slice_database`,
`supporting_database_for_provable`, `match_axiom`, `deconstruct_provable`, `construct_axiom`)

Python sets are lists here (no output depends on the iteration order of a set any more: after the commit
"keep a top-level $d statement at its place in a slice" the `$d` statements live in the ordered dictionary
`cut_antecedents`).  `none` = the real code raises.
Parentheses in a compressed proof are assumed to be standalone tokens (the real code searches the
proof *string* for the characters).  Core Lean only.
-/
namespace MM

def defaultConstants : List String :=
  ["(", ")", "#Variable", "#ElementVariable", "#SetVariable", "#Pattern", "#Symbol"]

mutual
/-- the symbols `get_constants` adds to the default set -/
def termConstants : MTerm → List String
  | .mv _ => []
  | .app s args => s :: termsConstants args
def termsConstants : List MTerm → List String
  | [] => []
  | t :: ts => termConstants t ++ termsConstants ts
end

mutual
/-- `Term.get_metavariables` (the head symbol of an application is never a metavariable) -/
def termMvs : MTerm → List String
  | .mv n => [n]
  | .app _ args => termsMvs args
def termsMvs : List MTerm → List String
  | [] => []
  | t :: ts => termMvs t ++ termsMvs ts
end

mutual
/-- `statements_get_constants((s,))` without the default set; `none` = `RuntimeError` (a `$c`/`$v` statement) -/
def stmtConstants : MStmt → Option (List String)
  | .float _ tc _ => some [tc]
  | .ess _ ts => some (termsConstants ts)
  | .ax _ ts => some (termsConstants ts)
  | .prov _ ts _ => some (termsConstants ts)
  | .block ss => stmtsConstants ss
  | .disj _ => some []
  | .const _ => none
  | .var _ => none
def stmtsConstants : List MStmt → Option (List String)
  | [] => some []
  | s :: ss => do pure ((← stmtConstants s) ++ (← stmtsConstants ss))
end

mutual
/-- `Statement.get_metavariables` -/
def stmtMvs : MStmt → List String
  | .const _ => []
  | .var _ => []
  | .disj vs => vs
  | .float _ _ v => [v]
  | .ess _ ts => termsMvs ts
  | .ax _ ts => termsMvs ts
  | .prov _ ts _ => termsMvs ts
  | .block ss => stmtsMvs ss
def stmtsMvs : List MStmt → List String
  | [] => []
  | s :: ss => stmtMvs s ++ stmtsMvs ss
end

mutual
def stmtSize : MStmt → Nat
  | .block ss => stmtsSize ss + 1
  | _ => 1
def stmtsSize : List MStmt → Nat
  | [] => 0
  | s :: ss => stmtSize s + stmtsSize ss
end

/-- `deconstruct_compressed_proof(provable)[0]`: the labels between the parentheses -/
def proofLabels (pf : List String) : Option (List String) :=
  if pf.isEmpty then none else
  let start := pf.idxOf? "("
  let after := match start with
    | some i => pf.drop (i + 1)
    | none => pf
  match after.idxOf? ")" with
  | none => none
  | some j => if start.isNone && j = 0 then none else some (after.take j)

/-- the work-list loop of `match_axiom` on a block: `last` = the statement processed last.
outer `none` = raise, inner `none` = the function returns `None` -/
def matchAxiomLoop : Nat → List MStmt → Option MStmt → Option (Option MStmt)
  | 0, _, _ => none
  | _ + 1, [], last =>
      match last with
      | some (.ax l ts) => some (some (.ax l ts))
      | _ => none                                   -- `assert isinstance(_, AxiomaticStatement)` / unbound
  | n + 1, s :: rest, _ =>
      match s with
      | .block ss => matchAxiomLoop n (rest ++ ss) (some s)
      | .disj _ => matchAxiomLoop n rest (some s)
      | .ess _ _ => matchAxiomLoop n rest (some s)
      | .ax _ _ => matchAxiomLoop n rest (some s)
      | _ => some none

/-- `match_axiom` -/
def matchAxiom : MStmt → Option (Option MStmt)
  | .ax l ts => some (some (.ax l ts))
  | .block ss => matchAxiomLoop (stmtsSize ss + 2) ss none
  | _ => some none

def stmtLabel? : MStmt → Option String
  | .float l _ _ => some l | .ess l _ => some l | .ax l _ => some l | .prov l _ _ => some l
  | _ => none

/-- `deconstruct_provable` for a statement on which `match_axiom` returned `None` -/
def deconstructProvable : MStmt → Option (List MStmt × MStmt)
  | .prov l ts pf => some ([], .prov l ts pf)
  | .block ss =>
      match ss.getLast? with
      | some (.prov l ts pf) =>
          if ss.dropLast.all (fun s => match s with | .disj _ => true | .ess _ _ => true | _ => false)
          then some (ss.dropLast, .prov l ts pf) else none
      | _ => none
  | _ => none

/-- `construct_axiom` -/
def constructAxiom (ants : List MStmt) (label : String) (terms : List MTerm) : MStmt :=
  if ants.isEmpty then .ax label terms else .block (ants ++ [.ax label terms])

/-- `cut_antecedents`: an ordered dictionary.  The key of a labelled entry is `some label`; a top-level `$d`
statement is filed by the real code under the string `'$d {len(cut_antecedents)}'`, which is a new key whenever it
is used (every earlier `$d` key carries a smaller number) and — labels being tokens, without blanks — never a label:
such an entry has the key `none` here and is appended.  Only labels are ever looked up. -/
abbrev Cut := List (Option String × MStmt)

/-- ordered dictionary update (`d[k] = v`: an existing key keeps its position) -/
def dictSet (d : Cut) (k : String) (v : MStmt) : Cut :=
  if d.any (·.1 == some k) then d.map fun (k', v') => if k' == some k then (k', v) else (k', v')
  else d ++ [(some k, v)]

def sortDedup (xs : List String) : List String :=
  (xs.mergeSort (fun a b => a ≤ b)).eraseDups

def sugarOf (cut : Cut) (label : String) : Option String :=
  if label.endsWith "is-pattern" then
    let sugar := (label.dropEnd "is-pattern".length).toString ++ "is-sugar"
    if cut.any (·.1 == some sugar) then some sugar else none
  else none

/-- the labels of the essential hypotheses stated outside a block: hypotheses of every later assertion -/
def topEssLabels (cut : Cut) : List String :=
  cut.filterMap fun (k, st) =>
    match st with
    | .ess _ _ => k
    | _ => none

/-- what `supporting_database_for_provable` does with one entry of `cut_antecedents`: a `$d` statement stays where it
is, restricted to the needed metavariables (if more than one remains); a needed statement and the floating statement
of a needed metavariable are kept -/
def nameNeeded (needed : List String) : Option String → Bool
  | some n => needed.contains n
  | none => false

def keepEntry (needed mvs : List String) : Option String × MStmt → Option MStmt := fun (name, st) =>
  match st with
  | .disj vs =>
      let r := vs.filter fun v => mvs.contains v
      if r.length > 1 then some (.disj r) else none
  | .float _ _ v => if nameNeeded needed name || mvs.contains v then some st else none
  | _ => if nameNeeded needed name then some st else none

/-- `supporting_database_for_provable` -/
def supportingDb (cut : Cut) (syntaxDeps : List (String × List String)) (label : String) (terms : List MTerm)
    (proof : List String) (essentials : List MStmt) : Option MDb := do
  let labels ← proofLabels proof
  let needed1 := labels ++ labels.filterMap (sugarOf cut)
  let needed := needed1 ++ (needed1.flatMap fun l => (syntaxDeps.lookup l).getD []) ++ topEssLabels cut
  -- `cut_antecedents[lemma_name]` for every needed lemma (`KeyError` otherwise)
  let neededStmts ← needed.mapM fun l => cut.lookup (some l)
  let all := MStmt.prov label terms proof :: (essentials ++ neededStmts)
  let consts ← stmtsConstants all
  let mvs := stmtsMvs all
  -- (F15) the typecodes of the floating statements kept for the needed metavariables
  let keptTypecodes := cut.filterMap fun (_, st) =>
    match st with
    | .float _ tc v => if mvs.contains v then some tc else none
    | _ => none
  let constStmt := MStmt.const (sortDedup (defaultConstants ++ consts ++ keptTypecodes))
  let varStmt := if mvs.isEmpty then [] else [MStmt.var (sortDedup mvs)]
  let kept := cut.filterMap (keepEntry needed mvs)
  pure (constStmt :: (varStmt ++ kept ++ [.block (essentials ++ [.prov label terms proof])]))

structure SliceSt where
  cut : Cut := []
  out : List (String × MDb) := []

/-- one top-level statement of `slice_database` -/
def sliceStep (syntaxDeps : List (String × List String)) (incl excl : List String) (st : SliceSt) (s : MStmt) :
    Option SliceSt :=
  match s with
  | .const _ => some st
  | .var _ => some st
  | .disj _ => some { st with cut := st.cut ++ [(none, s)] }
  | .float l _ _ => some { st with cut := dictSet st.cut l s }
  | .ess l _ => some { st with cut := dictSet st.cut l s }
  | _ => do
    match ← matchAxiom s with
    | some (.ax l _) => pure { st with cut := dictSet st.cut l s }
    | some _ => none
    | none => do
        let (ants, concl) ← deconstructProvable s
        match concl with
        | .prov l ts pf => do
            let out ← if incl.contains l && !excl.contains l then do
                pure (st.out ++ [(l, ← supportingDb st.cut syntaxDeps l ts pf ants)])
              else pure st.out
            pure { st with out := out, cut := dictSet st.cut l (constructAxiom ants l ts) }
        | _ => none

/-- `list(slice_database(db, syntax_deps, include, exclude))` -/
def sliceDatabase (db : MDb) (syntaxDeps : List (String × List String)) (incl excl : List String) :
    Option (List (String × MDb)) :=
  (db.foldlM (sliceStep syntaxDeps incl excl) {}).map (·.out)

end MM
