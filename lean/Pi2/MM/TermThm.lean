import Pi2.MM.F0
import Pi2.MM.Translate
/-!
# Metamath terms: equality, substitution, and the converter's image
-/
set_option linter.unusedSimpArgs false
set_option linter.unusedVariables false
open Pat PySt NPat

namespace MM

/-! ## equality of terms and statements -/

mutual
theorem Term.beq_eq : (a b : Term) → Term.beq a b = true → a = b
  | .var a, .var b, h => by simp only [Term.beq, beq_iff_eq] at h; rw [h]
  | .imp a b, .imp c d, h => by
    simp only [Term.beq, Bool.and_eq_true] at h
    rw [Term.beq_eq a c h.1, Term.beq_eq b d h.2]
  | .app a b, .app c d, h => by
    simp only [Term.beq, Bool.and_eq_true] at h
    rw [Term.beq_eq a c h.1, Term.beq_eq b d h.2]
  | .con c xs, .con d ys, h => by
    simp only [Term.beq, Bool.and_eq_true, beq_iff_eq] at h
    rw [h.1, Term.beqList_eq xs ys h.2]
  | .var _, .imp _ _, h => by simp [Term.beq] at h
  | .var _, .app _ _, h => by simp [Term.beq] at h
  | .var _, .con _ _, h => by simp [Term.beq] at h
  | .imp _ _, .var _, h => by simp [Term.beq] at h
  | .imp _ _, .app _ _, h => by simp [Term.beq] at h
  | .imp _ _, .con _ _, h => by simp [Term.beq] at h
  | .app _ _, .var _, h => by simp [Term.beq] at h
  | .app _ _, .imp _ _, h => by simp [Term.beq] at h
  | .app _ _, .con _ _, h => by simp [Term.beq] at h
  | .con _ _, .var _, h => by simp [Term.beq] at h
  | .con _ _, .imp _ _, h => by simp [Term.beq] at h
  | .con _ _, .app _ _, h => by simp [Term.beq] at h
theorem Term.beqList_eq : (xs ys : List Term) → Term.beqList xs ys = true → xs = ys
  | [], [], _ => rfl
  | x :: xs, y :: ys, h => by
    simp only [Term.beqList, Bool.and_eq_true] at h
    rw [Term.beq_eq x y h.1, Term.beqList_eq xs ys h.2]
  | [], _ :: _, h => by simp [Term.beqList] at h
  | _ :: _, [], h => by simp [Term.beqList] at h
end

theorem Stmt.beq_eq (a b : Stmt) (h : (a == b) = true) : a = b := by
  obtain ⟨t1, x1⟩ := a
  obtain ⟨t2, x2⟩ := b
  have h' : (t1 == t2 && Term.beq x1 x2) = true := h
  simp only [Bool.and_eq_true, beq_iff_eq] at h'
  rw [h'.1, Term.beq_eq x1 x2 h'.2]

theorem stmts_eq_of_not_bne : ∀ (xs ys : List Stmt), (xs != ys) = false → xs = ys := by
  intro xs
  induction xs with
  | nil =>
    intro ys h
    cases ys with
    | nil => rfl
    | cons _ _ => simp [bne, BEq.beq, List.beq] at h
  | cons x xs ih =>
    intro ys h
    cases ys with
    | nil => simp [bne, BEq.beq, List.beq] at h
    | cons y ys =>
      have h' : (x == y && xs == ys) = true := by
        simpa [bne, List.beq] using h
      simp only [Bool.and_eq_true] at h'
      rw [Stmt.beq_eq x y h'.1, ih ys (by simp [bne, h'.2])]

/-! ## `popN` -/

theorem popN_spec : ∀ (k : Nat) (stack xs st' : List Stmt), popN k stack = some (xs, st') →
    stack = xs.reverse ++ st' ∧ xs.length = k := by
  intro k
  induction k with
  | zero =>
    intro stack xs st' h
    simp only [popN, Option.some.injEq, Prod.mk.injEq] at h
    obtain ⟨rfl, rfl⟩ := h
    simp
  | succ k ih =>
    intro stack xs st' h
    cases stack with
    | nil => simp [popN] at h
    | cons x st =>
      simp only [popN, Option.map_eq_some_iff] at h
      obtain ⟨⟨ys, st2⟩, h1, h2⟩ := h
      simp only [Prod.mk.injEq] at h2
      obtain ⟨rfl, rfl⟩ := h2
      obtain ⟨e, hl⟩ := ih st ys st2 h1
      exact ⟨by simp [e], by simp [hl]⟩

/-! ## the image is notation-free -/

mutual
theorem image_B0 (db : DB) : (t : Term) → (image db t).B0 = true
  | .var v => by simp [image, PySt.phiN, B0]
  | .imp a b => by simp [image, B0, image_B0 db a, image_B0 db b]
  | .app a b => by simp [image, B0, image_B0 db a, image_B0 db b]
  | .con c xs => by
    simp only [image]
    exact imageApp_B0 db xs (.sym c) rfl
theorem imageApp_B0 (db : DB) : (xs : List Term) → (acc : NPat) → acc.B0 = true →
    (imageApp db acc xs).B0 = true
  | [], acc, h => by simpa [imageApp] using h
  | x :: xs, acc, h => by
    simp only [imageApp]
    exact imageApp_B0 db xs _ (by simp [B0, h, image_B0 db x])
end

theorem implChain_B0 (db : DB) : ∀ (hs : List Term) (c : Term), (implChain db hs c).B0 = true := by
  intro hs
  induction hs with
  | nil => intro c; exact image_B0 db c
  | cons h hs ih => intro c; simp [implChain, B0, image_B0 db h, ih c]

/-! ## the image commutes with substitution -/

/-- `δ` instantiates the metavariable of every variable of the term by the image of its value -/
def Agrees (db : DB) (σ : List (Nat × Term)) (δ : VId → Option Pat) (vs : List Nat) : Prop :=
  ∀ v ∈ vs, ∃ u, σ.lookup v = some u ∧ δ (db.mvId v) = some (image db u).expand

mutual
theorem image_subst (db : DB) (σ : List (Nat × Term)) (δ : VId → Option Pat) :
    (t : Term) → Agrees db σ δ (Term.vars t) →
    Py.inst δ (image db t).expand = (image db (t.subst σ)).expand
  | .var v, h => by
    obtain ⟨u, hu, hd⟩ := h v (by simp [Term.vars])
    simp [image, PySt.phiN, expand, Py.inst, hd, Term.subst, hu]
  | .imp a b, h => by
    have ha := image_subst db σ δ a (fun v hv => h v (by simp [Term.vars, hv]))
    have hb := image_subst db σ δ b (fun v hv => h v (by simp [Term.vars, hv]))
    simp [image, expand, Py.inst, Term.subst, ha, hb]
  | .app a b, h => by
    have ha := image_subst db σ δ a (fun v hv => h v (by simp [Term.vars, hv]))
    have hb := image_subst db σ δ b (fun v hv => h v (by simp [Term.vars, hv]))
    simp [image, expand, Py.inst, Term.subst, ha, hb]
  | .con c xs, h => by
    simp only [image, Term.subst]
    exact imageApp_subst db σ δ xs (fun v hv => h v (by simpa [Term.vars] using hv)) (.sym c) (.sym c)
      (by simp [expand, Py.inst])
theorem imageApp_subst (db : DB) (σ : List (Nat × Term)) (δ : VId → Option Pat) :
    (xs : List Term) → Agrees db σ δ (Term.varsList xs) → ∀ (acc acc' : NPat),
    Py.inst δ acc.expand = acc'.expand →
    Py.inst δ (imageApp db acc xs).expand = (imageApp db acc' (Term.substList σ xs)).expand
  | [], _, acc, acc', h => by simpa [imageApp, Term.substList] using h
  | x :: xs, hv, acc, acc', h => by
    simp only [imageApp, Term.substList]
    have hx := image_subst db σ δ x (fun v hv' => hv v (by simp [Term.varsList, hv']))
    exact imageApp_subst db σ δ xs (fun v hv' => hv v (by simp [Term.varsList, hv'])) _ _
      (by simp [expand, Py.inst, h, hx])
end

theorem implChain_subst (db : DB) (σ : List (Nat × Term)) (δ : VId → Option Pat) :
    ∀ (hs : List Term) (c : Term), Agrees db σ δ (Term.varsList (hs ++ [c])) →
    Py.inst δ (implChain db hs c).expand
      = (implChain db (hs.map (Term.subst σ)) (c.subst σ)).expand := by
  intro hs
  induction hs with
  | nil =>
    intro c h
    simp only [implChain, List.map_nil]
    exact image_subst db σ δ c (fun v hv => h v (by simp [Term.varsList, hv]))
  | cons x hs ih =>
    intro c h
    have hx := image_subst db σ δ x (fun v hv => h v (by simp [Term.varsList, hv]))
    have hr := ih c (fun v hv => h v (by
      simp only [List.cons_append, Term.varsList, List.mem_append]; exact Or.inr hv))
    simp [implChain, expand, Py.inst, hx, hr]

/-! ## the substitution of an assertion against the tracker's `delta` -/

theorem zip_agree (g : Nat → Nat) (f : Term → Pat) : ∀ (mand : List Nat) (terms : List Term),
    terms.length = mand.length → (∀ v ∈ mand, ∀ w ∈ mand, g v = g w → v = w) →
    ∀ v ∈ mand, ∃ u, (mand.zip terms).lookup v = some u ∧
      Py.lookup ((mand.map g).zip (terms.map f)) (g v) = some (f u) := by
  intro mand
  induction mand with
  | nil => intro terms _ _ v hv; simp at hv
  | cons a mand ih =>
    intro terms hlen hinj v hv
    cases terms with
    | nil => simp at hlen
    | cons t ts =>
      simp only [List.length_cons, Nat.add_right_cancel_iff] at hlen
      by_cases hva : v = a
      · subst hva
        exact ⟨t, by simp [List.lookup], by simp [Py.lookup]⟩
      · have hvm : v ∈ mand := by
          rcases List.mem_cons.mp hv with h | h
          · exact absurd h hva
          · exact h
        obtain ⟨u, h1, h2⟩ := ih ts hlen
          (fun x hx y hy => hinj x (List.mem_cons_of_mem _ hx) y (List.mem_cons_of_mem _ hy)) v hvm
        have hg : ¬ g a = g v := fun e =>
          hva (hinj a (by simp) v hv e).symm
        refine ⟨u, ?_, ?_⟩
        · simp only [List.zip_cons_cons, List.lookup_cons]
          have : (v == a) = false := by simp [hva]
          rw [this]; exact h1
        · simp only [List.map_cons, List.zip_cons_cons, Py.lookup, hg, if_false]
          exact h2

theorem mvId_inj (db : DB) (v w : Nat) (hv : v ∈ db.floats) (h : db.mvId v = db.mvId w) : v = w := by
  unfold DB.mvId at h
  have h1 : db.floats.idxOf v < db.floats.length := List.idxOf_lt_length_of_mem hv
  have h2 : db.floats.idxOf w < db.floats.length := h ▸ h1
  have e1 := List.getElem_idxOf h1
  have e2 := List.getElem_idxOf h2
  simp only [h] at e1
  rw [← e1, e2]

theorem mem_mandOf (db : DB) (ts : List Term) (v : Nat) :
    v ∈ db.mandOf ts ↔ v ∈ db.floats ∧ v ∈ Term.varsList ts := by
  simp [DB.mandOf]

theorem nodup_map_on {α β} (f : α → β) : ∀ (l : List α), l.Nodup →
    (∀ x ∈ l, ∀ y ∈ l, f x = f y → x = y) → (l.map f).Nodup := by
  intro l
  induction l with
  | nil => intro _ _; simp
  | cons a l ih =>
    intro hl hinj
    obtain ⟨ha, hl'⟩ := List.nodup_cons.mp hl
    simp only [List.map_cons, List.nodup_cons, List.mem_map, not_exists, not_and]
    refine ⟨?_, ih hl' (fun x hx y hy => hinj x (List.mem_cons_of_mem _ hx) y (List.mem_cons_of_mem _ hy))⟩
    intro x hx e
    have := hinj x (List.mem_cons_of_mem _ hx) a (by simp) e
    subst this
    exact ha hx

theorem mandOf_nodup (db : DB) (ts : List Term) (h : db.floats.Nodup) : (db.mandOf ts).Nodup :=
  List.Nodup.sublist List.filter_sublist h

theorem deltaKeys_nodup (db : DB) (ts : List Term) (h : db.floats.Nodup) :
    (db.deltaKeys ts).Nodup := by
  unfold DB.deltaKeys
  apply nodup_map_on _ _ (mandOf_nodup db ts h)
  intro x hx y hy e
  exact mvId_inj db x y ((mem_mandOf db ts x).mp hx).1 e

theorem idxOf_inj (l : List Nat) (v w : Nat) (hv : v ∈ l) (h : l.idxOf v = l.idxOf w) : v = w := by
  have h1 : l.idxOf v < l.length := List.idxOf_lt_length_of_mem hv
  have h2 : l.idxOf w < l.length := h ▸ h1
  have e1 := List.getElem_idxOf h1
  have e2 := List.getElem_idxOf h2
  simp only [h] at e1
  rw [← e1, e2]

theorem ruleKeys_spec (db : DB) (roles keys : List Nat) (h : ruleKeys db roles = some keys) :
    roles.Nodup ∧ keys = (db.floats.filter (roles.contains ·)).map (roles.idxOf ·) := by
  unfold ruleKeys at h
  split at h
  · next hn => simp only [Option.some.injEq] at h; exact ⟨hn, h.symm⟩
  · simp at h

theorem ruleKeys_nodup (db : DB) (roles keys : List Nat) (hf : db.floats.Nodup)
    (h : ruleKeys db roles = some keys) : keys.Nodup := by
  obtain ⟨_, rfl⟩ := ruleKeys_spec db roles keys h
  apply nodup_map_on _ _ (List.Nodup.sublist List.filter_sublist hf)
  intro x hx y hy e
  have hxr : x ∈ roles := by simpa using (List.mem_filter.mp hx).2
  exact idxOf_inj roles x y hxr e

/-! ## well-formed databases -/

structure DB.WF (db : DB) : Prop where
  nodup : db.floats.Nodup
  impNe : db.impArgs.1 ≠ db.impArgs.2
  impMem : db.impArgs.1 ∈ db.floats ∧ db.impArgs.2 ∈ db.floats
  appNe : db.appArgs.1 ≠ db.appArgs.2
  appMem : db.appArgs.1 ∈ db.floats ∧ db.appArgs.2 ∈ db.floats
  ctors : ∀ c ∈ db.ctors, c.args.Nodup ∧ ∀ v ∈ c.args, v ∈ db.floats
  rules : ∀ r ∈ db.rules, ∀ v ∈ Term.varsList (r.hyps ++ [r.concl]), v ∈ db.floats
  p1Ne : db.p1.1 ≠ db.p1.2
  p1Mem : db.p1.1 ∈ db.floats ∧ db.p1.2 ∈ db.floats
  p2Nodup : [db.p2.1, db.p2.2.1, db.p2.2.2].Nodup
  p2Mem : db.p2.1 ∈ db.floats ∧ db.p2.2.1 ∈ db.floats ∧ db.p2.2.2 ∈ db.floats
  mpNe : db.mp.1 ≠ db.mp.2
  mpMem : db.mp.1 ∈ db.floats ∧ db.mp.2 ∈ db.floats

theorem DB.wf_WF (db : DB) (h : db.wf = true) : db.WF := by
  simp only [DB.wf, Bool.and_eq_true, List.all_eq_true, decide_eq_true_eq,
    List.contains_eq_mem] at h
  obtain ⟨⟨⟨⟨⟨⟨⟨h1, h2⟩, h3⟩, h4⟩, h5⟩, h6⟩, h7⟩, h8⟩ := h
  refine ⟨h1, ?_, ?_, ?_, ?_, ?_, ?_, ?_, ?_, ?_, ?_, ?_, ?_⟩
  · simpa using h2.1
  · simpa using h2.2
  · simpa using h3.1
  · simpa using h3.2
  · intro c hc; exact h4 c hc
  · intro r hr; exact h5 r hr
  · simpa using h6.1
  · simpa using h6.2
  · exact h7.1
  · simpa using h7.2
  · simpa using h8.1
  · simpa using h8.2

end MM
