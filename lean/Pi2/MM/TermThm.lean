import Pi2.MM.F0
import Pi2.MM.Translate
/-!
# Metamath terms: equality, substitution, and the converter's image
-/
set_option linter.unusedSimpArgs false
set_option linter.unusedVariables false
open Pat PySt NPat

namespace MM

/-! ## equality of terms and statements -/

mutual
theorem Term.beq_eq : (a b : Term) → Term.beq a b = true → a = b
  | .var a, .var b, h => by simp only [Term.beq, beq_iff_eq] at h; rw [h]
  | .imp a b, .imp c d, h => by
    simp only [Term.beq, Bool.and_eq_true] at h
    rw [Term.beq_eq a c h.1, Term.beq_eq b d h.2]
  | .app a b, .app c d, h => by
    simp only [Term.beq, Bool.and_eq_true] at h
    rw [Term.beq_eq a c h.1, Term.beq_eq b d h.2]
  | .con c xs, .con d ys, h => by
    simp only [Term.beq, Bool.and_eq_true, beq_iff_eq] at h
    rw [h.1, Term.beqList_eq xs ys h.2]
  | .var _, .imp _ _, h => by simp [Term.beq] at h
  | .var _, .app _ _, h => by simp [Term.beq] at h
  | .var _, .con _ _, h => by simp [Term.beq] at h
  | .imp _ _, .var _, h => by simp [Term.beq] at h
  | .imp _ _, .app _ _, h => by simp [Term.beq] at h
  | .imp _ _, .con _ _, h => by simp [Term.beq] at h
  | .app _ _, .var _, h => by simp [Term.beq] at h
  | .app _ _, .imp _ _, h => by simp [Term.beq] at h
  | .app _ _, .con _ _, h => by simp [Term.beq] at h
  | .con _ _, .var _, h => by simp [Term.beq] at h
  | .con _ _, .imp _ _, h => by simp [Term.beq] at h
  | .con _ _, .app _ _, h => by simp [Term.beq] at h
theorem Term.beqList_eq : (xs ys : List Term) → Term.beqList xs ys = true → xs = ys
  | [], [], _ => rfl
  | x :: xs, y :: ys, h => by
    simp only [Term.beqList, Bool.and_eq_true] at h
    rw [Term.beq_eq x y h.1, Term.beqList_eq xs ys h.2]
  | [], _ :: _, h => by simp [Term.beqList] at h
  | _ :: _, [], h => by simp [Term.beqList] at h
end

theorem Stmt.beq_eq (a b : Stmt) (h : (a == b) = true) : a = b := by
  obtain ⟨t1, x1⟩ := a
  obtain ⟨t2, x2⟩ := b
  have h' : (t1 == t2 && Term.beq x1 x2) = true := h
  simp only [Bool.and_eq_true, beq_iff_eq] at h'
  rw [h'.1, Term.beq_eq x1 x2 h'.2]

theorem stmts_eq_of_not_bne : ∀ (xs ys : List Stmt), (xs != ys) = false → xs = ys := by
  intro xs
  induction xs with
  | nil =>
    intro ys h
    cases ys with
    | nil => rfl
    | cons _ _ => simp [bne, BEq.beq, List.beq] at h
  | cons x xs ih =>
    intro ys h
    cases ys with
    | nil => simp [bne, BEq.beq, List.beq] at h
    | cons y ys =>
      have h' : (x == y && xs == ys) = true := by
        simpa [bne, List.beq] using h
      simp only [Bool.and_eq_true] at h'
      rw [Stmt.beq_eq x y h'.1, ih ys (by simp [bne, h'.2])]

/-! ## `popN` -/

theorem popN_spec : ∀ (k : Nat) (stack xs st' : List Stmt), popN k stack = some (xs, st') →
    stack = xs.reverse ++ st' ∧ xs.length = k := by
  intro k
  induction k with
  | zero =>
    intro stack xs st' h
    simp only [popN, Option.some.injEq, Prod.mk.injEq] at h
    obtain ⟨rfl, rfl⟩ := h
    simp
  | succ k ih =>
    intro stack xs st' h
    cases stack with
    | nil => simp [popN] at h
    | cons x st =>
      simp only [popN, Option.map_eq_some_iff] at h
      obtain ⟨⟨ys, st2⟩, h1, h2⟩ := h
      simp only [Prod.mk.injEq] at h2
      obtain ⟨rfl, rfl⟩ := h2
      obtain ⟨e, hl⟩ := ih st ys st2 h1
      exact ⟨by simp [e], by simp [hl]⟩

/-! ## declared notations: the table of body patterns -/

/-- every body pattern of the table is notation-free -/
def TabB0 (tab : NTab) : Prop := ∀ e ∈ tab, e.2.2.B0 = true
/-- every body pattern of the table mentions the notation's own variables only -/
def TabMv (tab : NTab) : Prop := ∀ e ∈ tab, ∀ id ∈ e.2.2.metavars, id ∈ e.2.1

theorem list_lookup_mem {β : Type} : ∀ (l : List (Nat × β)) (a : Nat) (b : β), l.lookup a = some b → (a, b) ∈ l := by
  intro l
  induction l with
  | nil => intro a b h; simp [List.lookup] at h
  | cons x l ih =>
    intro a b h
    obtain ⟨k, v⟩ := x
    simp only [List.lookup_cons] at h
    by_cases hk : a = k
    · subst hk
      simp only [beq_self_eq_true, Option.some.injEq] at h
      subst h; simp
    · have : (a == k) = false := by simp [hk]
      rw [this] at h
      exact List.mem_cons_of_mem _ (ih a b h)

theorem pylookup_zip_some : ∀ (keys : List Nat) (L : List NPat), L.length = keys.length → ∀ id ∈ keys,
    ∃ q, Py.lookup (keys.zip L) id = some q := by
  intro keys
  induction keys with
  | nil => intro L _ id h; simp at h
  | cons k keys ih =>
    intro L hl id hid
    cases L with
    | nil => simp at hl
    | cons q L =>
      simp only [List.length_cons, Nat.add_right_cancel_iff] at hl
      by_cases hk : k = id
      · exact ⟨q, by simp [Py.lookup, hk]⟩
      · have : id ∈ keys := by
          rcases List.mem_cons.mp hid with h | h
          · exact absurd h.symm hk
          · exact h
        obtain ⟨q', hq'⟩ := ih L hl id this
        exact ⟨q', by simp [Py.lookup, hk, hq']⟩

/-- two calls of a notation whose arguments correspond under `δ` -/
theorem pylookup_zip_inst (δ : VId → Option Pat) : ∀ (keys : List Nat) (L L' : List NPat),
    L.length = keys.length → L'.length = keys.length →
    L.map (fun q => Py.inst δ q.expand) = L'.map NPat.expand → ∀ id ∈ keys,
    ∃ q q', Py.lookup (keys.zip L) id = some q ∧ Py.lookup (keys.zip L') id = some q' ∧
      Py.inst δ q.expand = q'.expand := by
  intro keys
  induction keys with
  | nil => intro L L' _ _ _ id h; simp at h
  | cons k keys ih =>
    intro L L' hl hl' hm id hid
    cases L with
    | nil => simp at hl
    | cons q L =>
      cases L' with
      | nil => simp at hl'
      | cons q' L' =>
        simp only [List.length_cons, Nat.add_right_cancel_iff] at hl hl'
        simp only [List.map_cons, List.cons.injEq] at hm
        by_cases hk : k = id
        · exact ⟨q, q', by simp [Py.lookup, hk], by simp [Py.lookup, hk], hm.1⟩
        · have : id ∈ keys := by
            rcases List.mem_cons.mp hid with h | h
            · exact absurd h.symm hk
            · exact h
          obtain ⟨r, r', h1, h2, h3⟩ := ih L L' hl hl' hm.2 id this
          exact ⟨r, r', by simp [Py.lookup, hk, h1], by simp [Py.lookup, hk, h2], h3⟩

theorem plug_B0 (m : List (Nat × NPat)) (hm : ∀ kv ∈ m, kv.2.B0 = true) :
    (p : NPat) → p.B0 = true → (plug m p).B0 = true
  | .sym _, _ => by simp [plug, B0]
  | .mv id ef sf ps ns hs, h => by
    simp only [plug]
    cases hl : Py.lookup m id with
    | none => simpa using h
    | some q => exact hm _ (Py.lookup_mem _ _ _ hl)
  | .imp l r, h => by
    simp only [B0, Bool.and_eq_true] at h
    simp [plug, B0, plug_B0 m hm l h.1, plug_B0 m hm r h.2]
  | .app l r, h => by
    simp only [B0, Bool.and_eq_true] at h
    simp [plug, B0, plug_B0 m hm l h.1, plug_B0 m hm r h.2]
  | .evar _, h => by simp [B0] at h
  | .svar _, h => by simp [B0] at h
  | .ex _ _, h => by simp [B0] at h
  | .mu _ _, h => by simp [B0] at h
  | .esub _ _ _, h => by simp [B0] at h
  | .ssub _ _ _, h => by simp [B0] at h
  | .inst _ _, h => by simp [B0] at h

/-- the metavariables of a call: those of the arguments, and those of the body that are not arguments -/
theorem plug_metavars (m : List (Nat × NPat)) :
    (p : NPat) → p.B0 = true → ∀ id ∈ (plug m p).metavars,
      (∃ kv ∈ m, id ∈ kv.2.metavars) ∨ (id ∈ p.metavars ∧ Py.lookup m id = none)
  | .sym _, _ => by simp [plug, NPat.metavars]
  | .mv i ef sf ps ns hs, h => by
    intro id hid
    simp only [plug] at hid
    cases hl : Py.lookup m i with
    | none =>
      rw [hl] at hid
      simp only [NPat.metavars, List.mem_singleton] at hid
      subst hid
      exact Or.inr ⟨by simp [NPat.metavars], hl⟩
    | some q =>
      rw [hl] at hid
      exact Or.inl ⟨_, Py.lookup_mem _ _ _ hl, hid⟩
  | .imp l r, h => by
    simp only [B0, Bool.and_eq_true] at h
    intro id hid
    simp only [plug, NPat.metavars, List.mem_append] at hid
    rcases hid with hid | hid
    · rcases plug_metavars m l h.1 id hid with h' | h'
      · exact Or.inl h'
      · exact Or.inr ⟨by simp [NPat.metavars, h'.1], h'.2⟩
    · rcases plug_metavars m r h.2 id hid with h' | h'
      · exact Or.inl h'
      · exact Or.inr ⟨by simp [NPat.metavars, h'.1], h'.2⟩
  | .app l r, h => by
    simp only [B0, Bool.and_eq_true] at h
    intro id hid
    simp only [plug, NPat.metavars, List.mem_append] at hid
    rcases hid with hid | hid
    · rcases plug_metavars m l h.1 id hid with h' | h'
      · exact Or.inl h'
      · exact Or.inr ⟨by simp [NPat.metavars, h'.1], h'.2⟩
    · rcases plug_metavars m r h.2 id hid with h' | h'
      · exact Or.inl h'
      · exact Or.inr ⟨by simp [NPat.metavars, h'.1], h'.2⟩
  | .evar _, h => by simp [B0] at h
  | .svar _, h => by simp [B0] at h
  | .ex _ _, h => by simp [B0] at h
  | .mu _ _, h => by simp [B0] at h
  | .esub _ _ _, h => by simp [B0] at h
  | .ssub _ _ _, h => by simp [B0] at h
  | .inst _ _, h => by simp [B0] at h

/-- instantiating a call = calling on the instantiated arguments, when the body mentions the notation's
variables only -/
theorem plug_inst (δ : VId → Option Pat) (keys : List Nat) (L L' : List NPat)
    (hl : L.length = keys.length) (hl' : L'.length = keys.length)
    (hm : L.map (fun q => Py.inst δ q.expand) = L'.map NPat.expand) :
    (p : NPat) → p.B0 = true → (∀ id ∈ p.metavars, id ∈ keys) →
    Py.inst δ (plug (keys.zip L) p).expand = (plug (keys.zip L') p).expand
  | .sym _, _, _ => by simp [plug, expand, Py.inst]
  | .mv i ef sf ps ns hs, _, hk => by
    obtain ⟨q, q', h1, h2, h3⟩ := pylookup_zip_inst δ keys L L' hl hl' hm i (hk i (by simp [NPat.metavars]))
    simp only [plug, h1, h2]
    exact h3
  | .imp l r, h, hk => by
    simp only [B0, Bool.and_eq_true] at h
    have h1 := plug_inst δ keys L L' hl hl' hm l h.1 (fun id hid => hk id (by simp [NPat.metavars, hid]))
    have h2 := plug_inst δ keys L L' hl hl' hm r h.2 (fun id hid => hk id (by simp [NPat.metavars, hid]))
    simp [plug, expand, Py.inst, h1, h2]
  | .app l r, h, hk => by
    simp only [B0, Bool.and_eq_true] at h
    have h1 := plug_inst δ keys L L' hl hl' hm l h.1 (fun id hid => hk id (by simp [NPat.metavars, hid]))
    have h2 := plug_inst δ keys L L' hl hl' hm r h.2 (fun id hid => hk id (by simp [NPat.metavars, hid]))
    simp [plug, expand, Py.inst, h1, h2]
  | .evar _, h, _ => by simp [B0] at h
  | .svar _, h, _ => by simp [B0] at h
  | .ex _ _, h, _ => by simp [B0] at h
  | .mu _ _, h, _ => by simp [B0] at h
  | .esub _ _ _, h, _ => by simp [B0] at h
  | .ssub _ _ _, h, _ => by simp [B0] at h
  | .inst _ _, h, _ => by simp [B0] at h

theorem imageListT_length (db : DB) (tab : NTab) : ∀ xs : List Term, (imageListT db tab xs).length = xs.length
  | [] => by simp [imageListT]
  | x :: xs => by simp [imageListT, imageListT_length db tab xs]

theorem substList_length (σ : List (Nat × Term)) : ∀ xs : List Term, (Term.substList σ xs).length = xs.length
  | [] => by simp [Term.substList]
  | x :: xs => by simp [Term.substList, substList_length σ xs]

/-! ## the image is notation-free -/

mutual
theorem imageT_B0 (db : DB) (tab : NTab) (htab : TabB0 tab) : (t : Term) → (imageT db tab t).B0 = true
  | .var v => by simp [imageT, PySt.phiN, B0]
  | .imp a b => by simp [imageT, B0, imageT_B0 db tab htab a, imageT_B0 db tab htab b]
  | .app a b => by simp [imageT, B0, imageT_B0 db tab htab a, imageT_B0 db tab htab b]
  | .con c xs => by
    simp only [imageT]
    cases hlk : tab.lookup c with
    | none => exact imageAppT_B0 db tab htab xs (.sym c) rfl
    | some e =>
      obtain ⟨keys, p⟩ := e
      simp only []
      split
      · apply plug_B0 _ _ p (htab _ (list_lookup_mem _ _ _ hlk))
        intro kv hkv
        exact imageListT_B0 db tab htab xs kv.2 (List.of_mem_zip hkv).2
      · exact imageAppT_B0 db tab htab xs (.sym c) rfl
theorem imageAppT_B0 (db : DB) (tab : NTab) (htab : TabB0 tab) : (xs : List Term) → (acc : NPat) → acc.B0 = true →
    (imageAppT db tab acc xs).B0 = true
  | [], acc, h => by simpa [imageAppT] using h
  | x :: xs, acc, h => by
    simp only [imageAppT]
    exact imageAppT_B0 db tab htab xs _ (by simp [B0, h, imageT_B0 db tab htab x])
theorem imageListT_B0 (db : DB) (tab : NTab) (htab : TabB0 tab) : (xs : List Term) →
    ∀ q ∈ imageListT db tab xs, q.B0 = true
  | [], q, h => by simp [imageListT] at h
  | x :: xs, q, h => by
    simp only [imageListT, List.mem_cons] at h
    rcases h with rfl | h
    · exact imageT_B0 db tab htab x
    · exact imageListT_B0 db tab htab xs q h
end

theorem notTabFrom_B0 (db : DB) : ∀ (cs : List Ctor) (tab : NTab), TabB0 tab → TabB0 (db.notTabFrom tab cs)
  | [], tab, h => by simpa [DB.notTabFrom] using h
  | c :: cs, tab, h => by
    simp only [DB.notTabFrom]
    cases hb : c.body with
    | none => exact notTabFrom_B0 db cs tab h
    | some b =>
      apply notTabFrom_B0 db cs
      intro e he
      rcases List.mem_append.mp he with he | he
      · exact h e he
      · simp only [List.mem_singleton] at he
        subst he
        exact imageT_B0 db tab h b

theorem notTab_B0 (db : DB) : TabB0 db.notTab :=
  notTabFrom_B0 db db.ctors [] (fun _ h => by simp at h)

theorem image_B0 (db : DB) (t : Term) : (image db t).B0 = true := imageT_B0 db _ (notTab_B0 db) t

theorem imageApp_B0 (db : DB) (xs : List Term) (acc : NPat) (h : acc.B0 = true) : (imageApp db acc xs).B0 = true :=
  imageAppT_B0 db _ (notTab_B0 db) xs acc h

/-! ## the metavariables of an image are those of the term's variables -/

mutual
theorem imageT_mv (db : DB) (tab : NTab) (hB : TabB0 tab) (hM : TabMv tab) : (t : Term) →
    ∀ id ∈ (imageT db tab t).metavars, ∃ v ∈ Term.vars t, id = db.mvId v
  | .var v => by
    intro id hid
    simp only [imageT, PySt.phiN, NPat.metavars, List.mem_singleton] at hid
    exact ⟨v, by simp [Term.vars], hid⟩
  | .imp a b => by
    intro id hid
    simp only [imageT, NPat.metavars, List.mem_append] at hid
    rcases hid with hid | hid
    · obtain ⟨v, hv, e⟩ := imageT_mv db tab hB hM a id hid
      exact ⟨v, by simp [Term.vars, hv], e⟩
    · obtain ⟨v, hv, e⟩ := imageT_mv db tab hB hM b id hid
      exact ⟨v, by simp [Term.vars, hv], e⟩
  | .app a b => by
    intro id hid
    simp only [imageT, NPat.metavars, List.mem_append] at hid
    rcases hid with hid | hid
    · obtain ⟨v, hv, e⟩ := imageT_mv db tab hB hM a id hid
      exact ⟨v, by simp [Term.vars, hv], e⟩
    · obtain ⟨v, hv, e⟩ := imageT_mv db tab hB hM b id hid
      exact ⟨v, by simp [Term.vars, hv], e⟩
  | .con c xs => by
    intro id hid
    simp only [imageT] at hid
    have happ : id ∈ (imageAppT db tab (.sym c) xs).metavars → ∃ v ∈ Term.vars (.con c xs), id = db.mvId v := by
      intro h
      rcases imageAppT_mv db tab hB hM xs (.sym c) id h with h | h
      · simp [NPat.metavars] at h
      · simpa [Term.vars] using h
    cases hlk : tab.lookup c with
    | none => rw [hlk] at hid; exact happ hid
    | some e =>
      obtain ⟨keys, p⟩ := e
      rw [hlk] at hid
      simp only [] at hid
      split at hid
      · next hlen =>
        have hmem := list_lookup_mem _ _ _ hlk
        rcases plug_metavars _ p (hB _ hmem) id hid with ⟨kv, hkv, hin⟩ | ⟨hin, hnone⟩
        · obtain ⟨v, hv, e⟩ := imageListT_mv db tab hB hM xs kv.2 (List.of_mem_zip hkv).2 id hin
          exact ⟨v, by simpa [Term.vars] using hv, e⟩
        · obtain ⟨q, hq⟩ := pylookup_zip_some keys (imageListT db tab xs)
            (by rw [imageListT_length]; exact hlen.symm) id (hM _ hmem id hin)
          rw [hq] at hnone; cases hnone
      · exact happ hid
theorem imageAppT_mv (db : DB) (tab : NTab) (hB : TabB0 tab) (hM : TabMv tab) : (xs : List Term) → (acc : NPat) →
    ∀ id ∈ (imageAppT db tab acc xs).metavars, id ∈ acc.metavars ∨ ∃ v ∈ Term.varsList xs, id = db.mvId v
  | [], acc => by intro id hid; exact Or.inl (by simpa [imageAppT] using hid)
  | x :: xs, acc => by
    intro id hid
    simp only [imageAppT] at hid
    rcases imageAppT_mv db tab hB hM xs _ id hid with h | ⟨v, hv, e⟩
    · simp only [NPat.metavars, List.mem_append] at h
      rcases h with h | h
      · exact Or.inl h
      · obtain ⟨v, hv, e⟩ := imageT_mv db tab hB hM x id h
        exact Or.inr ⟨v, by simp [Term.varsList, hv], e⟩
    · exact Or.inr ⟨v, by simp [Term.varsList, hv], e⟩
theorem imageListT_mv (db : DB) (tab : NTab) (hB : TabB0 tab) (hM : TabMv tab) : (xs : List Term) →
    ∀ q ∈ imageListT db tab xs, ∀ id ∈ q.metavars, ∃ v ∈ Term.varsList xs, id = db.mvId v
  | [], q, h => by simp [imageListT] at h
  | x :: xs, q, h => by
    intro id hid
    simp only [imageListT, List.mem_cons] at h
    rcases h with rfl | h
    · obtain ⟨v, hv, e⟩ := imageT_mv db tab hB hM x id hid
      exact ⟨v, by simp [Term.varsList, hv], e⟩
    · obtain ⟨v, hv, e⟩ := imageListT_mv db tab hB hM xs q h id hid
      exact ⟨v, by simp [Term.varsList, hv], e⟩
end

/-- every declared notation is stated over its own variables -/
def NotVars (cs : List Ctor) : Prop := ∀ c ∈ cs, ∀ b, c.body = some b → ∀ v ∈ Term.vars b, v ∈ c.args

theorem notTabFrom_mv (db : DB) : ∀ (cs : List Ctor) (tab : NTab), NotVars cs → TabB0 tab → TabMv tab →
    TabMv (db.notTabFrom tab cs)
  | [], tab, _, _, h => by simpa [DB.notTabFrom] using h
  | c :: cs, tab, hv, hB, hM => by
    have hv' : NotVars cs := fun c' hc' => hv c' (List.mem_cons_of_mem _ hc')
    simp only [DB.notTabFrom]
    cases hb : c.body with
    | none => exact notTabFrom_mv db cs tab hv' hB hM
    | some b =>
      apply notTabFrom_mv db cs _ hv'
      · intro e he
        rcases List.mem_append.mp he with he | he
        · exact hB e he
        · simp only [List.mem_singleton] at he
          subst he
          exact imageT_B0 db tab hB b
      · intro e he
        rcases List.mem_append.mp he with he | he
        · exact hM e he
        · simp only [List.mem_singleton] at he
          subst he
          intro id hid
          obtain ⟨v, hvb, e⟩ := imageT_mv db tab hB hM b id hid
          simp only [List.mem_map]
          exact ⟨v, hv c (by simp) b hb v hvb, e.symm⟩

theorem notTab_mv (db : DB) (h : NotVars db.ctors) : TabMv db.notTab :=
  notTabFrom_mv db db.ctors [] h (fun _ h => by simp at h) (fun _ h => by simp at h)

/-- a database without declared notations: the table is empty and the image is the plain one -/
theorem notTabFrom_plain (db : DB) : ∀ (cs : List Ctor) (tab : NTab), (∀ c ∈ cs, c.body = none) →
    db.notTabFrom tab cs = tab
  | [], tab, _ => by simp [DB.notTabFrom]
  | c :: cs, tab, h => by
    simp only [DB.notTabFrom, h c (by simp)]
    exact notTabFrom_plain db cs tab (fun c' hc' => h c' (List.mem_cons_of_mem _ hc'))

theorem notTab_plain (db : DB) (h : ∀ c ∈ db.ctors, c.body = none) : db.notTab = [] :=
  notTabFrom_plain db db.ctors [] h

theorem image_con_none (db : DB) (c : Nat) (xs : List Term) (h : db.notTab.lookup c = none) :
    image db (.con c xs) = imageApp db (.sym c) xs := by
  rw [image_con, h]

theorem image_con_some (db : DB) (c : Nat) (xs : List Term) (keys : List Nat) (p : NPat)
    (h : db.notTab.lookup c = some (keys, p)) (hl : keys.length = xs.length) :
    image db (.con c xs) = plug (keys.zip (imageList db xs)) p := by
  rw [image_con, h]; simp only [hl, if_true]

theorem image_con_arity (db : DB) (c : Nat) (xs : List Term) (keys : List Nat) (p : NPat)
    (h : db.notTab.lookup c = some (keys, p)) (hl : ¬ keys.length = xs.length) :
    image db (.con c xs) = imageApp db (.sym c) xs := by
  rw [image_con, h]; simp only [hl, if_false]

theorem image_con_plain (db : DB) (h : ∀ c ∈ db.ctors, c.body = none) (c : Nat) (xs : List Term) :
    image db (.con c xs) = imageApp db (.sym c) xs :=
  image_con_none db c xs (by rw [notTab_plain db h]; rfl)

theorem implChain_B0 (db : DB) : ∀ (hs : List Term) (c : Term), (implChain db hs c).B0 = true := by
  intro hs
  induction hs with
  | nil => intro c; exact image_B0 db c
  | cons h hs ih => intro c; simp [implChain, B0, image_B0 db h, ih c]

/-! ## the image commutes with substitution -/

/-- `δ` instantiates the metavariable of every variable of the term by the image of its value -/
def Agrees (db : DB) (σ : List (Nat × Term)) (δ : VId → Option Pat) (vs : List Nat) : Prop :=
  ∀ v ∈ vs, ∃ u, σ.lookup v = some u ∧ δ (db.mvId v) = some (image db u).expand

mutual
theorem image_subst (db : DB) (hM : TabMv db.notTab) (σ : List (Nat × Term)) (δ : VId → Option Pat) :
    (t : Term) → Agrees db σ δ (Term.vars t) →
    Py.inst δ (image db t).expand = (image db (t.subst σ)).expand
  | .var v, h => by
    obtain ⟨u, hu, hd⟩ := h v (by simp [Term.vars])
    simp [image_var, PySt.phiN, expand, Py.inst, hd, Term.subst, hu]
  | .imp a b, h => by
    have ha := image_subst db hM σ δ a (fun v hv => h v (by simp [Term.vars, hv]))
    have hb := image_subst db hM σ δ b (fun v hv => h v (by simp [Term.vars, hv]))
    simp [image_imp, expand, Py.inst, Term.subst, ha, hb]
  | .app a b, h => by
    have ha := image_subst db hM σ δ a (fun v hv => h v (by simp [Term.vars, hv]))
    have hb := image_subst db hM σ δ b (fun v hv => h v (by simp [Term.vars, hv]))
    simp [image_app, expand, Py.inst, Term.subst, ha, hb]
  | .con c xs, h => by
    have hv : Agrees db σ δ (Term.varsList xs) := fun v hv => h v (by simpa [Term.vars] using hv)
    have happ := imageApp_subst db hM σ δ xs hv (.sym c) (.sym c) (by simp [expand, Py.inst])
    simp only [Term.subst]
    cases hlk : db.notTab.lookup c with
    | none => rw [image_con_none db c _ hlk, image_con_none db c _ hlk]; exact happ
    | some e =>
      obtain ⟨keys, p⟩ := e
      by_cases hl : keys.length = xs.length
      · have hl' : keys.length = (Term.substList σ xs).length := by rw [substList_length]; exact hl
        rw [image_con_some db c _ keys p hlk hl, image_con_some db c _ keys p hlk hl']
        have hmem := list_lookup_mem _ _ _ hlk
        exact plug_inst δ keys _ _ (by rw [imageList, imageListT_length]; exact hl.symm)
          (by rw [imageList, imageListT_length]; exact hl'.symm) (imageList_subst db hM σ δ xs hv) p
          (notTab_B0 db _ hmem) (hM _ hmem)
      · have hl' : ¬ keys.length = (Term.substList σ xs).length := by rw [substList_length]; exact hl
        rw [image_con_arity db c _ keys p hlk hl, image_con_arity db c _ keys p hlk hl']; exact happ
theorem imageApp_subst (db : DB) (hM : TabMv db.notTab) (σ : List (Nat × Term)) (δ : VId → Option Pat) :
    (xs : List Term) → Agrees db σ δ (Term.varsList xs) → ∀ (acc acc' : NPat),
    Py.inst δ acc.expand = acc'.expand →
    Py.inst δ (imageApp db acc xs).expand = (imageApp db acc' (Term.substList σ xs)).expand
  | [], _, acc, acc', h => by simpa [imageApp_nil, Term.substList] using h
  | x :: xs, hv, acc, acc', h => by
    simp only [imageApp_cons, Term.substList]
    have hx := image_subst db hM σ δ x (fun v hv' => hv v (by simp [Term.varsList, hv']))
    exact imageApp_subst db hM σ δ xs (fun v hv' => hv v (by simp [Term.varsList, hv'])) _ _
      (by simp [expand, Py.inst, h, hx])
theorem imageList_subst (db : DB) (hM : TabMv db.notTab) (σ : List (Nat × Term)) (δ : VId → Option Pat) :
    (xs : List Term) → Agrees db σ δ (Term.varsList xs) →
    (imageList db xs).map (fun q => Py.inst δ q.expand) = (imageList db (Term.substList σ xs)).map NPat.expand
  | [], _ => by simp [imageList_nil, Term.substList]
  | x :: xs, hv => by
    have hx := image_subst db hM σ δ x (fun v hv' => hv v (by simp [Term.varsList, hv']))
    have hr := imageList_subst db hM σ δ xs (fun v hv' => hv v (by simp [Term.varsList, hv']))
    simp only [imageList_cons, Term.substList, List.map_cons, hx, hr]
end

theorem implChain_subst (db : DB) (hM : TabMv db.notTab) (σ : List (Nat × Term)) (δ : VId → Option Pat) :
    ∀ (hs : List Term) (c : Term), Agrees db σ δ (Term.varsList (hs ++ [c])) →
    Py.inst δ (implChain db hs c).expand
      = (implChain db (hs.map (Term.subst σ)) (c.subst σ)).expand := by
  intro hs
  induction hs with
  | nil =>
    intro c h
    simp only [implChain, List.map_nil]
    exact image_subst db hM σ δ c (fun v hv => h v (by simp [Term.varsList, hv]))
  | cons x hs ih =>
    intro c h
    have hx := image_subst db hM σ δ x (fun v hv => h v (by simp [Term.varsList, hv]))
    have hr := ih c (fun v hv => h v (by
      simp only [List.cons_append, Term.varsList, List.mem_append]; exact Or.inr hv))
    simp [implChain, expand, Py.inst, hx, hr]

/-! ## the substitution of an assertion against the tracker's `delta` -/

theorem zip_agree (g : Nat → Nat) (f : Term → Pat) : ∀ (mand : List Nat) (terms : List Term),
    terms.length = mand.length → (∀ v ∈ mand, ∀ w ∈ mand, g v = g w → v = w) →
    ∀ v ∈ mand, ∃ u, (mand.zip terms).lookup v = some u ∧
      Py.lookup ((mand.map g).zip (terms.map f)) (g v) = some (f u) := by
  intro mand
  induction mand with
  | nil => intro terms _ _ v hv; simp at hv
  | cons a mand ih =>
    intro terms hlen hinj v hv
    cases terms with
    | nil => simp at hlen
    | cons t ts =>
      simp only [List.length_cons, Nat.add_right_cancel_iff] at hlen
      by_cases hva : v = a
      · subst hva
        exact ⟨t, by simp [List.lookup], by simp [Py.lookup]⟩
      · have hvm : v ∈ mand := by
          rcases List.mem_cons.mp hv with h | h
          · exact absurd h hva
          · exact h
        obtain ⟨u, h1, h2⟩ := ih ts hlen
          (fun x hx y hy => hinj x (List.mem_cons_of_mem _ hx) y (List.mem_cons_of_mem _ hy)) v hvm
        have hg : ¬ g a = g v := fun e =>
          hva (hinj a (by simp) v hv e).symm
        refine ⟨u, ?_, ?_⟩
        · simp only [List.zip_cons_cons, List.lookup_cons]
          have : (v == a) = false := by simp [hva]
          rw [this]; exact h1
        · simp only [List.map_cons, List.zip_cons_cons, Py.lookup, hg, if_false]
          exact h2

theorem mvId_inj (db : DB) (v w : Nat) (hv : v ∈ db.floats) (h : db.mvId v = db.mvId w) : v = w := by
  unfold DB.mvId at h
  have h1 : db.floats.idxOf v < db.floats.length := List.idxOf_lt_length_of_mem hv
  have h2 : db.floats.idxOf w < db.floats.length := h ▸ h1
  have e1 := List.getElem_idxOf h1
  have e2 := List.getElem_idxOf h2
  simp only [h] at e1
  rw [← e1, e2]

theorem mem_mandOf (db : DB) (ts : List Term) (v : Nat) :
    v ∈ db.mandOf ts ↔ v ∈ db.floats ∧ v ∈ Term.varsList ts := by
  simp [DB.mandOf]

theorem nodup_map_on {α β} (f : α → β) : ∀ (l : List α), l.Nodup →
    (∀ x ∈ l, ∀ y ∈ l, f x = f y → x = y) → (l.map f).Nodup := by
  intro l
  induction l with
  | nil => intro _ _; simp
  | cons a l ih =>
    intro hl hinj
    obtain ⟨ha, hl'⟩ := List.nodup_cons.mp hl
    simp only [List.map_cons, List.nodup_cons, List.mem_map, not_exists, not_and]
    refine ⟨?_, ih hl' (fun x hx y hy => hinj x (List.mem_cons_of_mem _ hx) y (List.mem_cons_of_mem _ hy))⟩
    intro x hx e
    have := hinj x (List.mem_cons_of_mem _ hx) a (by simp) e
    subst this
    exact ha hx

theorem mandOf_nodup (db : DB) (ts : List Term) (h : db.floats.Nodup) : (db.mandOf ts).Nodup :=
  List.Nodup.sublist List.filter_sublist h

theorem deltaKeys_nodup (db : DB) (ts : List Term) (h : db.floats.Nodup) :
    (db.deltaKeys ts).Nodup := by
  unfold DB.deltaKeys
  apply nodup_map_on _ _ (mandOf_nodup db ts h)
  intro x hx y hy e
  exact mvId_inj db x y ((mem_mandOf db ts x).mp hx).1 e

theorem idxOf_inj (l : List Nat) (v w : Nat) (hv : v ∈ l) (h : l.idxOf v = l.idxOf w) : v = w := by
  have h1 : l.idxOf v < l.length := List.idxOf_lt_length_of_mem hv
  have h2 : l.idxOf w < l.length := h ▸ h1
  have e1 := List.getElem_idxOf h1
  have e2 := List.getElem_idxOf h2
  simp only [h] at e1
  rw [← e1, e2]

theorem ruleKeys_spec (db : DB) (roles keys : List Nat) (h : ruleKeys db roles = some keys) :
    roles.Nodup ∧ keys = (db.floats.filter (roles.contains ·)).map (roles.idxOf ·) := by
  unfold ruleKeys at h
  split at h
  · next hn => simp only [Option.some.injEq] at h; exact ⟨hn, h.symm⟩
  · simp at h

theorem ruleKeys_nodup (db : DB) (roles keys : List Nat) (hf : db.floats.Nodup)
    (h : ruleKeys db roles = some keys) : keys.Nodup := by
  obtain ⟨_, rfl⟩ := ruleKeys_spec db roles keys h
  apply nodup_map_on _ _ (List.Nodup.sublist List.filter_sublist hf)
  intro x hx y hy e
  have hxr : x ∈ roles := by simpa using (List.mem_filter.mp hx).2
  exact idxOf_inj roles x y hxr e

/-! ## well-formed databases -/

structure DB.WF (db : DB) : Prop where
  nodup : db.floats.Nodup
  impNe : db.impArgs.1 ≠ db.impArgs.2
  impMem : db.impArgs.1 ∈ db.floats ∧ db.impArgs.2 ∈ db.floats
  appNe : db.appArgs.1 ≠ db.appArgs.2
  appMem : db.appArgs.1 ∈ db.floats ∧ db.appArgs.2 ∈ db.floats
  ctors : ∀ c ∈ db.ctors, c.args.Nodup ∧ ∀ v ∈ c.args, v ∈ db.floats
  rules : ∀ r ∈ db.rules, ∀ v ∈ Term.varsList (r.hyps ++ [r.concl]), v ∈ db.floats
  p1Ne : db.p1.1 ≠ db.p1.2
  p1Mem : db.p1.1 ∈ db.floats ∧ db.p1.2 ∈ db.floats
  p2Nodup : [db.p2.1, db.p2.2.1, db.p2.2.2].Nodup
  p2Mem : db.p2.1 ∈ db.floats ∧ db.p2.2.1 ∈ db.floats ∧ db.p2.2.2 ∈ db.floats
  mpNe : db.mp.1 ≠ db.mp.2
  mpMem : db.mp.1 ∈ db.floats ∧ db.mp.2 ∈ db.floats
  /-- every declared notation is stated over its own variables -/
  notVars : NotVars db.ctors

theorem DB.WF.tabMv {db : DB} (h : db.WF) : TabMv db.notTab := notTab_mv db h.notVars

theorem notWf_vars (db : DB) : ∀ (cs : List Ctor) (seen : List Nat), db.notWf seen cs = true → NotVars cs
  | [], _, _ => by intro c hc; simp at hc
  | c :: cs, seen, h => by
    simp only [DB.notWf] at h
    intro c' hc' b hb v hv
    cases hcb : c.body with
    | none =>
      rw [hcb] at h
      rcases List.mem_cons.mp hc' with rfl | hc'
      · rw [hcb] at hb; cases hb
      · exact notWf_vars db cs seen h c' hc' b hb v hv
    | some b0 =>
      rw [hcb] at h
      simp only [Bool.and_eq_true, List.all_eq_true, List.contains_eq_mem, decide_eq_true_eq] at h
      rcases List.mem_cons.mp hc' with rfl | hc'
      · rw [hcb] at hb
        cases hb
        exact h.1.1 v hv
      · exact notWf_vars db cs _ h.2 c' hc' b hb v hv

theorem DB.wf_WF (db : DB) (h : db.wf = true) : db.WF := by
  simp only [DB.wf, Bool.and_eq_true] at h
  obtain ⟨h, hN⟩ := h
  have hnv : NotVars db.ctors := by
    simp only [DB.notOk, Bool.and_eq_true] at hN
    exact notWf_vars db db.ctors [] hN.2
  simp only [DB.wf0, Bool.and_eq_true, List.all_eq_true, decide_eq_true_eq,
    List.contains_eq_mem] at h
  obtain ⟨⟨⟨⟨⟨⟨⟨h1, h2⟩, h3⟩, h4⟩, h5⟩, h6⟩, h7⟩, h8⟩ := h
  refine ⟨h1, ?_, ?_, ?_, ?_, ?_, ?_, ?_, ?_, ?_, ?_, ?_, ?_, hnv⟩
  · simpa using h2.1
  · simpa using h2.2
  · simpa using h3.1
  · simpa using h3.2
  · intro c hc; exact h4 c hc
  · intro r hr; exact h5 r hr
  · simpa using h6.1
  · simpa using h6.2
  · exact h7.1
  · simpa using h7.2
  · simpa using h8.1
  · simpa using h8.2

/-! ## the pattern of a notation's constructor axiom is the image of its body

`exec_proof` pushes `get_axiom_by_name('n-is-pattern').pattern`, which the converter computes as the image of the statement
`( n v₁ … vₖ )` (the notation's closure called on its own metavariables); `xstep` pushes `image db (.con n (args.map .var))`.
For a well-formed database this is the image of the notation's body. -/

/-- the notation symbols of a list of constructor declarations -/
def notSymsOf (cs : List Ctor) : List Nat := (cs.filter (·.body.isSome)).map (·.sym)

theorem notSymsOf_cons_none (c : Ctor) (cs : List Ctor) (h : c.body = none) : notSymsOf (c :: cs) = notSymsOf cs := by
  simp [notSymsOf, List.filter_cons, h]
theorem notSymsOf_cons_some (c : Ctor) (cs : List Ctor) (b : Term) (h : c.body = some b) :
    notSymsOf (c :: cs) = c.sym :: notSymsOf cs := by
  simp [notSymsOf, List.filter_cons, h]

theorem notTabFrom_keys (db : DB) : ∀ (cs : List Ctor) (tab : NTab),
    (db.notTabFrom tab cs).map (·.1) = tab.map (·.1) ++ notSymsOf cs
  | [], tab => by simp [DB.notTabFrom, notSymsOf]
  | c :: cs, tab => by
    simp only [DB.notTabFrom]
    cases hb : c.body with
    | none => simp only []; rw [notTabFrom_keys db cs tab, notSymsOf_cons_none c cs hb]
    | some b =>
      simp only []
      rw [notTabFrom_keys db cs _, notSymsOf_cons_some c cs b hb]
      simp

theorem notTabFrom_prefix (db : DB) : ∀ (cs : List Ctor) (tab : NTab), ∃ ext, db.notTabFrom tab cs = tab ++ ext
  | [], tab => ⟨[], by simp [DB.notTabFrom]⟩
  | c :: cs, tab => by
    simp only [DB.notTabFrom]
    cases hb : c.body with
    | none => exact notTabFrom_prefix db cs tab
    | some b =>
      obtain ⟨ext, he⟩ := notTabFrom_prefix db cs (tab ++ [(c.sym, c.args.map db.mvId, imageT db tab b)])
      exact ⟨(c.sym, c.args.map db.mvId, imageT db tab b) :: ext, by simp only []; rw [he]; simp⟩

theorem notTabFrom_append (db : DB) : ∀ (pre post : List Ctor) (tab : NTab),
    db.notTabFrom tab (pre ++ post) = db.notTabFrom (db.notTabFrom tab pre) post
  | [], post, tab => by simp [DB.notTabFrom]
  | c :: pre, post, tab => by
    simp only [List.cons_append, DB.notTabFrom]
    cases hb : c.body with
    | none => exact notTabFrom_append db pre post tab
    | some b => exact notTabFrom_append db pre post _

theorem list_lookup_append_mem {β : Type} : ∀ (l ext : List (Nat × β)) (a : Nat), a ∈ l.map (·.1) →
    (l ++ ext).lookup a = l.lookup a := by
  intro l
  induction l with
  | nil => intro ext a h; simp at h
  | cons x l ih =>
    intro ext a h
    obtain ⟨k, v⟩ := x
    simp only [List.cons_append, List.lookup_cons]
    by_cases hk : a = k
    · subst hk; simp
    · have : (a == k) = false := by simp [hk]
      rw [this]
      apply ih
      simp only [List.map_cons, List.mem_cons] at h
      rcases h with h | h
      · exact absurd h hk
      · exact h

theorem list_lookup_append_not_mem {β : Type} : ∀ (l ext : List (Nat × β)) (a : Nat), a ∉ l.map (·.1) →
    (l ++ ext).lookup a = ext.lookup a := by
  intro l
  induction l with
  | nil => intro ext a _; rfl
  | cons x l ih =>
    intro ext a h
    obtain ⟨k, v⟩ := x
    simp only [List.map_cons, List.mem_cons, not_or] at h
    simp only [List.cons_append, List.lookup_cons]
    have : (a == k) = false := by simp [h.1]
    rw [this]
    exact ih ext a h.2

theorem list_lookup_not_mem {β : Type} (l : List (Nat × β)) (a : Nat) (h : a ∉ l.map (·.1)) : l.lookup a = none := by
  have := list_lookup_append_not_mem l [] a h
  simpa using this

mutual
/-- the image of a term depends on the table only through the term's symbols -/
theorem imageT_congr (db : DB) (tab tab' : NTab) : (t : Term) → (∀ s ∈ Term.syms t, tab.lookup s = tab'.lookup s) →
    imageT db tab t = imageT db tab' t
  | .var v, _ => by simp [imageT]
  | .imp a b, h => by
    simp only [imageT]
    rw [imageT_congr db tab tab' a (fun s hs => h s (by simp [Term.syms, hs])),
      imageT_congr db tab tab' b (fun s hs => h s (by simp [Term.syms, hs]))]
  | .app a b, h => by
    simp only [imageT]
    rw [imageT_congr db tab tab' a (fun s hs => h s (by simp [Term.syms, hs])),
      imageT_congr db tab tab' b (fun s hs => h s (by simp [Term.syms, hs]))]
  | .con c xs, h => by
    have hxs : ∀ s ∈ Term.symsList xs, tab.lookup s = tab'.lookup s := fun s hs => h s (by simp [Term.syms, hs])
    simp only [imageT]
    rw [← h c (by simp [Term.syms]), imageListT_congr db tab tab' xs hxs]
    have happ := fun acc => imageAppT_congr db tab tab' xs hxs acc
    cases tab.lookup c with
    | none => exact happ _
    | some e => simp only [happ]
theorem imageAppT_congr (db : DB) (tab tab' : NTab) : (xs : List Term) →
    (∀ s ∈ Term.symsList xs, tab.lookup s = tab'.lookup s) → ∀ acc : NPat,
    imageAppT db tab acc xs = imageAppT db tab' acc xs
  | [], _, acc => by simp [imageAppT]
  | x :: xs, h, acc => by
    simp only [imageAppT]
    rw [imageT_congr db tab tab' x (fun s hs => h s (by simp [Term.symsList, hs]))]
    exact imageAppT_congr db tab tab' xs (fun s hs => h s (by simp [Term.symsList, hs])) _
theorem imageListT_congr (db : DB) (tab tab' : NTab) : (xs : List Term) →
    (∀ s ∈ Term.symsList xs, tab.lookup s = tab'.lookup s) →
    imageListT db tab xs = imageListT db tab' xs
  | [], _ => by simp [imageListT]
  | x :: xs, h => by
    simp only [imageListT]
    rw [imageT_congr db tab tab' x (fun s hs => h s (by simp [Term.symsList, hs])),
      imageListT_congr db tab tab' xs (fun s hs => h s (by simp [Term.symsList, hs]))]
end

/-- calling a notation on its own metavariables gives the body's pattern back -/
theorem pylookup_zip_id (f : Nat → Nat) : ∀ (vs : List Nat) (id : Nat) (q : NPat),
    Py.lookup ((vs.map f).zip (vs.map fun v => PySt.phiN (f v))) id = some q → q = PySt.phiN id := by
  intro vs
  induction vs with
  | nil => intro id q h; simp [Py.lookup] at h
  | cons v vs ih =>
    intro id q h
    simp only [List.map_cons, List.zip_cons_cons, Py.lookup] at h
    split at h
    · next e => cases h; rw [e]
    · exact ih id q h

theorem plug_id (f : Nat → Nat) (vs : List Nat) : (p : NPat) → p.B0 = true →
    plug ((vs.map f).zip (vs.map fun v => PySt.phiN (f v))) p = p
  | .sym _, _ => by simp [plug]
  | .mv id ef sf ps ns hs, h => by
    simp only [B0, Bool.and_eq_true, List.isEmpty_iff] at h
    obtain ⟨⟨⟨⟨rfl, rfl⟩, rfl⟩, rfl⟩, rfl⟩ := h
    simp only [plug]
    cases hl : Py.lookup ((vs.map f).zip (vs.map fun v => PySt.phiN (f v))) id with
    | none => rfl
    | some q => simp only []; rw [pylookup_zip_id f vs id q hl]; rfl
  | .imp l r, h => by
    simp only [B0, Bool.and_eq_true] at h
    simp [plug, plug_id f vs l h.1, plug_id f vs r h.2]
  | .app l r, h => by
    simp only [B0, Bool.and_eq_true] at h
    simp [plug, plug_id f vs l h.1, plug_id f vs r h.2]
  | .evar _, h => by simp [B0] at h
  | .svar _, h => by simp [B0] at h
  | .ex _ _, h => by simp [B0] at h
  | .mu _ _, h => by simp [B0] at h
  | .esub _ _ _, h => by simp [B0] at h
  | .ssub _ _ _, h => by simp [B0] at h
  | .inst _ _, h => by simp [B0] at h

theorem imageList_vars (db : DB) : ∀ vs : List Nat,
    imageList db (vs.map .var) = vs.map fun v => PySt.phiN (db.mvId v)
  | [] => by simp [imageList_nil]
  | v :: vs => by simp [imageList_cons, image_var, imageList_vars db vs]

/-- the symbols of a notation's body: notation symbols declared earlier, or no notation symbols at all -/
theorem notWf_body (db : DB) : ∀ (pre : List Ctor) (seen : List Nat) (c : Ctor) (b : Term) (post : List Ctor),
    db.notWf seen (pre ++ c :: post) = true → c.body = some b →
    ∀ s ∈ Term.syms b, s ∈ seen ++ notSymsOf pre ∨ s ∉ db.notSyms
  | [], seen, c, b, post, h, hb => by
    simp only [List.nil_append, DB.notWf, hb, Bool.and_eq_true, List.all_eq_true, Bool.or_eq_true,
      List.contains_eq_mem, decide_eq_true_eq, Bool.not_eq_true', decide_eq_false_iff_not] at h
    intro s hs
    rcases h.1.2 s hs with h' | h'
    · exact Or.inl (by simp [notSymsOf, h'])
    · exact Or.inr h'
  | c' :: pre, seen, c, b, post, h, hb => by
    simp only [List.cons_append, DB.notWf] at h
    intro s hs
    cases hb' : c'.body with
    | none =>
      rw [hb'] at h
      rw [notSymsOf_cons_none c' pre hb']
      exact notWf_body db pre seen c b post h hb s hs
    | some b' =>
      rw [hb'] at h
      simp only [Bool.and_eq_true] at h
      rw [notSymsOf_cons_some c' pre b' hb']
      rcases notWf_body db pre _ c b post h.2 hb s hs with h' | h'
      · exact Or.inl (by simpa [List.append_assoc] using h')
      · exact Or.inr h'

theorem image_notation_axiom (db : DB) (hwf : db.wf = true) (k : Nat) (c : Ctor) (b : Term)
    (hk : db.ctors[k]? = some c) (hb : c.body = some b) :
    image db (.con c.sym (c.args.map .var)) = image db b := by
  simp only [DB.wf, DB.notOk, Bool.and_eq_true] at hwf
  obtain ⟨_, huniq, hord⟩ := hwf
  -- the declarations before and after `c`
  have hlt : k < db.ctors.length := by
    rcases Nat.lt_or_ge k db.ctors.length with h | h
    · exact h
    · rw [List.getElem?_eq_none h] at hk; cases hk
  have hget : db.ctors[k] = c := by
    rw [List.getElem?_eq_getElem hlt] at hk; exact Option.some.inj hk
  have hsplit : db.ctors = db.ctors.take k ++ c :: db.ctors.drop (k + 1) := by
    rw [← hget]; simp
  generalize hpre : db.ctors.take k = pre at hsplit
  generalize hpost : db.ctors.drop (k + 1) = post at hsplit
  -- the symbol of `c` is not declared as a notation before
  have hcm : c ∈ db.ctors := List.mem_of_getElem? hk
  have hu := List.all_eq_true.mp huniq c hcm
  simp only [hb, Option.isNone_some, Bool.false_or, beq_iff_eq] at hu
  have hnotpre : c.sym ∉ notSymsOf pre := by
    intro hin
    simp only [notSymsOf, List.mem_map, List.mem_filter] at hin
    obtain ⟨c', ⟨hc', _⟩, hs⟩ := hin
    rw [hsplit, List.filter_append, List.filter_cons] at hu
    simp only [beq_self_eq_true, if_true, List.length_append, List.length_cons] at hu
    have : 0 < (pre.filter (·.sym == c.sym)).length :=
      List.length_pos_of_mem (List.mem_filter.mpr ⟨hc', by simp [hs]⟩)
    omega
  -- the table
  have htab : db.notTab = db.notTabFrom (db.notTabFrom [] pre ++ [(c.sym, c.args.map db.mvId, imageT db (db.notTabFrom [] pre) b)]) post := by
    unfold DB.notTab
    rw [hsplit, notTabFrom_append]
    simp only [DB.notTabFrom, hb]
  obtain ⟨ext, hext⟩ := notTabFrom_prefix db post
    (db.notTabFrom [] pre ++ [(c.sym, c.args.map db.mvId, imageT db (db.notTabFrom [] pre) b)])
  have hkeysPre : (db.notTabFrom [] pre).map (·.1) = notSymsOf pre := by
    rw [notTabFrom_keys]; simp
  have hlk : db.notTab.lookup c.sym = some (c.args.map db.mvId, imageT db (db.notTabFrom [] pre) b) := by
    rw [htab, hext, List.append_assoc, list_lookup_append_not_mem _ _ _ (by rw [hkeysPre]; exact hnotpre)]
    simp [List.lookup_cons]
  have hB : (imageT db (db.notTabFrom [] pre) b).B0 = true :=
    imageT_B0 db _ (notTabFrom_B0 db pre [] (fun _ h => by simp at h)) b
  rw [image_con_some db c.sym _ _ _ hlk (by simp), imageList_vars, plug_id db.mvId c.args _ hB]
  -- the body's symbols are looked up alike in the scope of the earlier notations and in the final scope
  unfold image
  apply imageT_congr
  intro s hs
  have hallkeys : db.notTab.map (·.1) = db.notSyms := by
    unfold DB.notTab; rw [notTabFrom_keys]; simp [notSymsOf, DB.notSyms]
  by_cases hin : s ∈ notSymsOf pre
  · rw [htab, hext, List.append_assoc]
    exact (list_lookup_append_mem _ _ s (by rw [hkeysPre]; exact hin)).symm
  · have hnot : s ∉ db.notSyms := by
      rcases notWf_body db pre [] c b post (by rw [← hsplit]; exact hord) hb s hs with h | h
      · exact absurd (by simpa using h) hin
      · exact h
    rw [list_lookup_not_mem _ s (by rw [hkeysPre]; exact hin), list_lookup_not_mem _ s (by rw [hallkeys]; exact hnot)]

/-- a database without declared notations meets the notation clauses of `DB.wf` -/
theorem notWf_plain (db : DB) : ∀ (cs : List Ctor) (seen : List Nat), (∀ c ∈ cs, c.body = none) →
    db.notWf seen cs = true
  | [], _, _ => by simp [DB.notWf]
  | c :: cs, seen, h => by
    simp only [DB.notWf, h c (by simp)]
    exact notWf_plain db cs seen (fun c' hc' => h c' (List.mem_cons_of_mem _ hc'))

theorem DB.notOk_plain (db : DB) (h : ∀ c ∈ db.ctors, c.body = none) : db.notOk = true := by
  simp only [DB.notOk, Bool.and_eq_true, List.all_eq_true]
  exact ⟨fun c hc => by simp [h c hc], notWf_plain db db.ctors [] h⟩

end MM
