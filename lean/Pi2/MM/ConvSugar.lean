import Pi2.MM.ConvShape
/-!
# `#Notation` statements and the notation-free core of the specification

`dbOfMDb` = `dbOfCore` of the database without its `#Notation` statements + the bodies (`Pi2/MM/ConvSpec.lean`).  The converter tie
(`Pi2/MM/ConvTie.lean` … `ConvCoherence.lean`) is stated for `dbOfCore` / `CoreShape`; here: a database that `dbOfCore` accepts has no
`#Notation` statement, so on it `dbOfMDb = dbOfCore` — the tie's theorems are theorems about `dbOfMDb`.
-/
namespace MM.ConvSpec

theorem declOf_sugar (nm : Names) {st : MStmt} (h : isSugar st = true) : declOf nm st = none := by
  unfold isSugar at h
  match st, h with
  | .ax l [.app tc [], .app n args, body], _ => simp [declOf, typed]

theorem sugarFree_of_mapM (nm : Names) : ∀ (mdb : MDb) (ds : List Decl), mdb.mapM (declOf nm) = some ds → sugarFree mdb = true := by
  intro mdb
  induction mdb with
  | nil => intro _ _; rfl
  | cons st r ih =>
    intro ds h
    rw [List.mapM_cons] at h
    cases h1 : declOf nm st with
    | none => simp [h1] at h
    | some d =>
      cases h2 : r.mapM (declOf nm) with
      | none => simp [h1, h2] at h
      | some ds' =>
        have hr := ih ds' h2
        simp only [sugarFree, List.all_cons, Bool.and_eq_true] at hr ⊢
        refine ⟨?_, hr⟩
        cases hs : isSugar st with
        | false => rfl
        | true => rw [declOf_sugar nm hs] at h1; cases h1

/-- a database that the core specification accepts has no `#Notation` statement -/
theorem sugarFree_of_dbOfCore {mdb : MDb} {target : String} {sp : Spec} (h : dbOfCore mdb target = some sp) : sugarFree mdb = true := by
  unfold dbOfCore at h
  cases h1 : mdb.mapM (declOf (namesOf mdb)) with
  | none => simp [h1] at h
  | some ds => exact sugarFree_of_mapM _ mdb ds h1

/-- … so on it the specification is the core specification -/
theorem dbOfMDb_of_dbOfCore {mdb : MDb} {target : String} {sp : Spec} (h : dbOfCore mdb target = some sp) : dbOfMDb mdb target = some sp := by
  rw [dbOfMDb_of_sugarFree (sugarFree_of_dbOfCore h), h]

/-! ## conservativity: the notation-free shape is the shape of the databases without `#Notation` statements -/

mutual
theorem arityShape_nil : ∀ t : MTerm, arityShape [] t = true
  | .mv _ => by simp [arityShape]
  | .app s args => by simp [arityShape, aritiesShape_nil args]
theorem aritiesShape_nil : ∀ ts : List MTerm, aritiesShape [] ts = true
  | [] => by simp [aritiesShape]
  | t :: ts => by simp [aritiesShape, arityShape_nil t, aritiesShape_nil ts]
end

theorem stmtArity_nil (st : MStmt) : stmtArity [] st = true := by
  cases st with
  | block ss =>
    simp only [stmtArity, List.all_eq_true]
    intro s _
    cases s <;> simp [aritiesShape_nil]
  | _ => simp [stmtArity, aritiesShape_nil]

theorem sugarShape_of_sugarFree (K heads : List String) : ∀ (mdb : MDb) (cs : List (String × List String)) (seen : List String),
    sugarFree mdb = true → sugarShape K heads cs seen mdb = true := by
  intro mdb
  induction mdb with
  | nil => intro _ _ _; simp [sugarShape]
  | cons st r ih =>
    intro cs seen h
    simp only [sugarFree, List.all_cons, Bool.and_eq_true] at h
    have hst : sugarOf st = none := by
      have := h.1
      simp only [isSugar, Bool.not_eq_true', Option.isSome_eq_false_iff, Option.isNone_iff_eq_none] at this
      exact this
    have hr : sugarFree r = true := h.2
    unfold sugarShape
    rw [hst]
    cases ctorHeadOf st with
    | none => exact ih cs seen hr
    | some p => exact ih _ seen hr

/-- conservativity: every database of the notation-free shape is a database of the shape -/
theorem fragmentShape_of_coreShape {mdb : MDb} {target : String} (h : CoreShape mdb target = true) : FragmentShape mdb target = true := by
  have hs := sugarFree_of_coreShape h
  have hlab : (labelsOf mdb).Nodup := by
    simp only [CoreShape, Bool.and_eq_true, decide_eq_true_eq] at h
    exact h.1.1.1.1.1.2
  simp only [FragmentShape, headsPlain, sugarsOf_of_sugarFree hs, coreOf_of_sugarFree hs, h, List.map_nil, List.nodup_nil, List.all_nil,
    Bool.and_eq_true, hlab, sugarShape_of_sugarFree _ _ mdb [] [] hs, and_true,
    List.all_eq_true, stmtArity_nil, implies_true, decide_true, Bool.true_and]
  simp

/-! ## non-vacuity: `MM.ConvSpec.Example.db` with two declared notations -/
namespace Example

/-- `Example.db` with `( n x ) := ( f x ( \\imp x c ) )` and `m := ( n c )` (a notation over an EARLIER notation, without
arguments), an axiom that uses `n`, and the goal `|- ( \\imp m ( \\imp c m ) )` proved by `proof-rule-prop-1` (Metamath sees `m` as a
constructor like any other; the converter expands it) -/
def dbN : MDb := [
  .const ["#Pattern", "|-", "(", ")", "\\imp", "\\app", "c", "f", "#Notation", "n", "m"],
  .var ["x", "y", "z"],
  .float "y-is-pattern" "#Pattern" "y",
  .float "z-is-pattern" "#Pattern" "z",
  .float "x-is-pattern" "#Pattern" "x",
  .ax "imp-is-pattern" [tc "#Pattern", imp (v "x") (v "y")],
  .ax "app-is-pattern" [tc "#Pattern", .app "\\app" [v "y", v "x"]],
  .ax "c-is-pattern" [tc "#Pattern", .app "c" []],
  .ax "f-is-pattern" [tc "#Pattern", .app "f" [v "z", v "x"]],
  .ax "n-is-pattern" [tc "#Pattern", .app "n" [v "x"]],
  .ax "n-is-sugar" [tc "#Notation", .app "n" [v "x"], .app "f" [v "x", imp (v "x") (.app "c" [])]],
  .ax "m-is-pattern" [tc "#Pattern", .app "m" []],
  .ax "m-is-sugar" [tc "#Notation", .app "m" [], .app "n" [.app "c" []]],
  .ax "proof-rule-prop-1" [tc "|-", imp (v "x") (imp (v "y") (v "x"))],
  .ax "proof-rule-prop-2" [tc "|-", imp (imp (v "x") (imp (v "y") (v "z"))) (imp (imp (v "x") (v "y")) (imp (v "x") (v "z")))],
  .block [.ess "proof-rule-mp.0" [tc "|-", imp (v "y") (v "x")], .ess "proof-rule-mp.1" [tc "|-", v "y"],
          .ax "proof-rule-mp" [tc "|-", v "x"]],
  .ax "ax0" [tc "|-", .app "f" [.app "c" [], .app "n" [.app "\\app" [v "x", .app "m" []]]]],
  .block [.ess "r.0" [tc "|-", imp (v "x") (.app "c" [])], .ess "r.1" [tc "|-", v "z"],
          .ax "r" [tc "|-", .app "f" [v "z", .app "f" [v "x", .app "c" []]]]],
  .prov "goal" [tc "|-", imp (.app "m" []) (imp (.app "c" []) (.app "m" []))] ["(", "m-is-pattern", "c-is-pattern", "proof-rule-prop-1", ")", "BAC"]]

theorem dbN_in_fragment : FragmentShape dbN "goal" = true := by decide +kernel

/-- the specification accepts it: the database is well formed (`DB.wf`, incl. `notOk`), the Metamath verifier accepts the proof, and
exactly the constructor entries of `n` and `m` carry bodies: `n x := f x (x → c)`, `m := n c` (constants by position in `$c`) -/
theorem dbN_spec :
    (match dbOfMDb dbN "goal" with
     | some sp => sp.db.wf && mmVerify sp.db sp.goal sp.labels sp.steps &&
        (sp.db.ctors.map fun k => (k.sym, k.args, k.body.isSome)) == [(6, [], false), (7, [2, 0], false), (9, [0], true), (10, [], true)] &&
        (sp.db.ctors.filterMap (·.body)) == [MM.Term.con 7 [.var 0, .imp (.var 0) (.con 6 [])], MM.Term.con 9 [.con 6 []]]
     | none => false) = true := by decide +kernel

/-- the clause "after the notations its body uses": the same database with the two `#Notation` statements exchanged (`m := ( n c )`
before the `#Notation` statement of `n`) is NOT of the shape (the real converter would keep `n` opaque inside `m`: KF-C16-forward-notation) -/
def dbFwd : MDb :=
  dbN.map fun st => match st with
    | .ax "n-is-sugar" _ => .ax "m-is-sugar" [tc "#Notation", .app "m" [], .app "n" [.app "c" []]]
    | .ax "m-is-sugar" _ => .ax "n-is-sugar" [tc "#Notation", .app "n" [v "x"], .app "f" [v "x", imp (v "x") (.app "c" [])]]
    | st => st

theorem dbFwd_not_in_fragment : FragmentShape dbFwd "goal" = false := by decide +kernel

end Example

end MM.ConvSpec
