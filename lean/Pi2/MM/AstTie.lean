import Pi2.MM.AstEmbed
import Pi2.MM.AstThm
/-!
# The generated Metamath parser callbacks / grammar rules / `Encoder` (`Pi2/Gen/MMAst.lean`) = the model `Pi2/MM/Ast.lean`

`Pi2/Gen/MMAst.lean` is regenerated on every run by `vlib/transmmast.py` from the text of `class ASTTransformer`, the lark
grammar and `parse_database` (metamath/parser.py), the AST dataclasses and `class Encoder` (metamath/ast.py).

* `parse_terms_eq` / `parse_term_eq`: the generated `parse_terms` (with its `while` loop, `parse_term`, the balanced-parenthesis
  scan with the loop variable `i` used after the loop, both asserts, the slices) IS `MM.parseTerms`, on every token list, for
  every fuel ≥ 3·tokens + 2 (`termFuel`); `parseTermsF_fuel`: the model's own fuel does not matter either.
* `keywords_eq`: the anonymous literals of the grammar are the model's `isKeyword`.
* `g_stmt_eq`: one statement — the rule function generated from the grammar (alternative chosen by its keyword prefix, the
  children in grammar order, the callback of the alias) is the statement branch `modelStmt` of `parseStmtsF`
  (`parseStmtsF_cons`: a verbatim copy); `genStmts_eq`: `stmt*` up to `$}` / the end of input is `parseStmtsF`;
  `parse_database_eq`: `parse_database F toks = (parseDb toks).map ofDb` for EVERY token list, `F ≥ toks.length`.
  `ofDb` embeds the model's AST into the generated one (`.var/.disj`: names ↦ `Metavariable` objects, `.float l tc v` ↦ the
  terms `(Application(tc), Metavariable(v))`, proof tokens `pf` ↦ the proof string `' '.join(pf)`).
* `visit_Term_toks`, `visit_Stmt_toks`, `encode_tokens`: the strings the generated `Encoder` writes for (the image of) a model
  database, concatenated and split at the characters the grammar ignores (`lexTokens`), are `printTerm` / `printStmt` / `printDb` —
  provided every string of the database is a lexeme (`Lex`: non-empty, no ignored character: what a lexer token is), and
  `omit_proof = False`.  `proof_string_toks` / `proof_string_tokens`: the proof string `' '.join(pf)` is read back as the tokens
  `pf` (`.split()`), and written between ` $= ` and ` $.` it contributes exactly `pf`.
* `print_parse_text`: for the GENERATED functions, `parse_database (lexTokens (text written for db)) = db` whenever
  `db = parse_database toks` for lexemes `toks` — by transporting `MM.print_parse`.

OUTSIDE (assumed, stated in `vlib/transmmast.py`): lark's lexer (= `lexTokens` + keyword classification on such texts), its LALR(1)
parser (= the rule functions), the order in which `Transformer` calls the callbacks.  The theorems HERE are about the strings the
`Encoder` writes; what `Printer.write/flush` make of them is `Pi2/MM/AstText.lean`: for every database of lexemes the text is
lexed to the same tokens (`Printer` as repaired by 5aefd01; before, a statement label that consists only of characters `str.isspace`
accepts but the grammar does not ignore — `'\x0b'`, `'\x1c'`–`'\x1f'`, `'\x85'`, `'\xa0'`, U+2000…, U+3000 — was taken for
indentation by `Printer.is_line_buffer_empty` and dropped: `AstText.old_printer_dropped_blank_label`).
-/
namespace AstTie
open MM MMAstSup Gen.MMAst

theorem translated : Gen.MMAst.translated = true := by decide

/-! ## the keyword terminals -/
theorem keywords_eq (t : String) : keywords.contains t = isKeyword t := by
  simp only [keywords, isKeyword, List.contains_cons, List.contains_nil, Bool.or_false]
  cases (t == "$c") <;> cases (t == "$.") <;> cases (t == "$v") <;> cases (t == "$d") <;> cases (t == "$f") <;>
    cases (t == "$e") <;> cases (t == "$a") <;> cases (t == "$p") <;> cases (t == "$=") <;> cases (t == "${") <;>
    cases (t == "$}") <;> rfl

/-! ## `parse_term` / `parse_terms` -/

theorem for1_spec : ∀ (ts : List String) (d k : Nat) (i? : Option Nat),
    ∃ i' n', parse_term_for1 (pyEnumerateFrom k ts) i? ((d : Int) + 1) = some (i', n') ∧
      (∀ j, scanClose d ts k = some j → i' = some j ∧ n' = 0) ∧ (scanClose d ts k = none → n' ≠ 0)
  | [], d, k, i? => ⟨i?, (d : Int) + 1, by simp [pyEnumerateFrom, parse_term_for1], by simp [scanClose], by intro _; omega⟩
  | t :: ts, d, k, i? => by
      simp only [pyEnumerateFrom, parse_term_for1, scanClose]
      by_cases h1 : t = "("
      · subst h1
        obtain ⟨i', n', h, ha, hb⟩ := for1_spec ts (d + 1) (k + 1) (some k)
        refine ⟨i', n', ?_, by simpa using ha, by simpa using hb⟩
        have hne : ¬ ((d : Int) + 1 + 1 = 0) := by omega
        simp [hne]
        exact h
      · by_cases h2 : t = ")"
        · subst h2
          cases d with
          | zero =>
            refine ⟨some k, 0, ?_, by simp, by simp⟩
            simp
          | succ d =>
            obtain ⟨i', n', h, ha, hb⟩ := for1_spec ts d (k + 1) (some k)
            refine ⟨i', n', ?_, by simpa using ha, by simpa using hb⟩
            have hne : ¬ ((d : Int) + 1 = 0) := by omega
            simp [hne]
            exact h
        · obtain ⟨i', n', h, ha, hb⟩ := for1_spec ts d (k + 1) (some k)
          refine ⟨i', n', ?_, by simpa [h1, h2] using ha, by simpa [h1, h2] using hb⟩
          have hne : ¬ ((d : Int) + 1 = 0) := by omega
          simp [h1, h2, hne]
          exact h

/-- one call of `parse_term`, in terms of the model's scan for the closing parenthesis -/
theorem parse_term_cons (self : ASTTransformer) (F : Nat) (t : String) (rest : List String) :
    parse_term self (F + 1) (t :: rest) =
      if t = "(" then
        match scanClose 0 rest 0 with
        | none => none
        | some k => if k < 2 then none else
          match rest with
          | [] => none
          | head :: inner => (parse_terms self F (inner.take (k - 1))).bind fun sub =>
              some (MTerm.app head sub, rest.drop (k + 1))
      else if self.metavariables.contains t then some (MTerm.mv t, rest) else some (MTerm.app t [], rest) := by
  rw [parse_term]
  simp only [pyAssert, pyIdx, pySliceFrom, pyEnumerate, pySlice]
  by_cases h1 : t = "("
  · subst h1
    obtain ⟨i', n', h, ha, hb⟩ := for1_spec rest 0 0 none
    simp only [Int.natCast_zero, Int.zero_add] at h
    simp [h]
    cases hs : scanClose 0 rest 0 with
    | none =>
      have := hb hs
      cases i' <;> simp [this]
    | some k =>
      obtain ⟨rfl, rfl⟩ := ha k hs
      simp
      by_cases hk : k < 2
      · have : ¬ (2 < k + 1) := by omega
        simp [hk, this]
      · have : 2 < k + 1 := by omega
        simp [hk, this]
        cases rest with
        | nil => simp [scanClose] at hs
        | cons head inner =>
          simp
          have e1 : (List.take k (head :: inner)).tail = List.take (k - 1) inner := by
            obtain ⟨k', rfl⟩ : ∃ k', k = k' + 2 := ⟨k - 2, by omega⟩
            simp
          rw [e1]
  · simp [h1]

theorem parse_terms_succ (self : ASTTransformer) (G : Nat) (ts : List String) :
    parse_terms self (G + 1) ts = (parse_terms_while1 self G ts []).map (·.2) := by
  rw [parse_terms]
  cases parse_terms_while1 self G ts [] <;> simp

/-- the `while` loop of `parse_terms` (with `parse_term` inside) is the model's `parseTermsF`, given enough fuel on both sides -/
theorem while1_eq (self : ASTTransformer) : ∀ (m : Nat) (ts : List String), ts.length ≤ m →
    ∀ (F n : Nat) (acc : List MTerm), 3 * ts.length + 1 ≤ F → ts.length + 1 ≤ n →
    parse_terms_while1 self F ts acc =
      (parseTermsF self.metavariables n ts).map fun r => (([] : List String), acc ++ r) := by
  intro m
  induction m with
  | zero =>
    intro ts hm F n acc hF hn
    have : ts = [] := List.length_eq_zero_iff.mp (by omega)
    subst this
    obtain ⟨F', rfl⟩ : ∃ F', F = F' + 1 := ⟨F - 1, by omega⟩
    rw [parse_terms_while1]; simp [parseTermsF]
  | succ m ih =>
    intro ts hm F n acc hF hn
    cases ts with
    | nil =>
      obtain ⟨F', rfl⟩ : ∃ F', F = F' + 1 := ⟨F - 1, by omega⟩
      rw [parse_terms_while1]; simp [parseTermsF]
    | cons t rest =>
      simp only [List.length_cons] at hm hF hn
      obtain ⟨F2, rfl⟩ : ∃ F2, F = F2 + 1 + 1 := ⟨F - 2, by omega⟩
      obtain ⟨n', rfl⟩ : ∃ n', n = n' + 1 := ⟨n - 1, by omega⟩
      rw [parse_terms_while1, parseTermsF]
      simp only [List.length_cons, bne_iff_ne, ne_eq, Nat.add_eq_zero_iff, Nat.succ_ne_self, and_false,
        not_false_eq_true, ↓reduceIte]
      rw [parse_term_cons]
      by_cases h1 : t = "("
      · simp only [h1, ↓reduceIte]
        cases hs : scanClose 0 rest 0 with
        | none => simp
        | some k =>
          simp only
          by_cases hk : k < 2
          · simp [hk]
          · simp only [hk, ↓reduceIte]
            cases rest with
            | nil => simp
            | cons head inner =>
              simp only [List.length_cons] at hm hF hn
              obtain ⟨F3, rfl⟩ : ∃ F3, F2 = F3 + 1 := ⟨F2 - 1, by omega⟩
              have hsub : (List.take (k - 1) inner).length ≤ inner.length := by simp [List.length_take]; omega
              have hmore : (List.drop (k + 1) (head :: inner)).length ≤ inner.length := by
                simp only [List.length_drop, List.length_cons]; omega
              dsimp only
              rw [parse_terms_succ, ih _ (by omega) F3 n' [] (by omega) (by omega)]
              cases hsubr : parseTermsF self.metavariables n' (List.take (k - 1) inner) with
              | none => simp
              | some sub =>
                simp only [Option.map_some, List.nil_append, Option.bind_some, Option.bind_eq_bind]
                rw [ih _ (by omega) (F3 + 1 + 1) n' _ (by omega) (by omega)]
                cases parseTermsF self.metavariables n' (List.drop (k + 1) (head :: inner)) <;> simp
      · simp only [h1, ↓reduceIte]
        by_cases h2 : self.metavariables.contains t
        · simp only [h2, ↓reduceIte, Option.bind_some, Option.bind_eq_bind]
          rw [ih _ (by omega) (F2 + 1) n' _ (by omega) (by omega)]
          cases parseTermsF self.metavariables n' rest <;> simp
        · simp only [h2, Bool.false_eq_true, ↓reduceIte, Option.bind_some, Option.bind_eq_bind]
          rw [ih _ (by omega) (F2 + 1) n' _ (by omega) (by omega)]
          cases parseTermsF self.metavariables n' rest <;> simp

/-- **`parse_terms` is the model's `parseTerms`** (any fuel ≥ three per token plus two; `termFuel` is such) -/
theorem parse_terms_eq (self : ASTTransformer) (F : Nat) (ts : List String) (hF : 3 * ts.length + 2 ≤ F) :
    parse_terms self F ts = parseTerms self.metavariables ts := by
  obtain ⟨G, rfl⟩ : ∃ G, F = G + 1 := ⟨F - 1, by omega⟩
  rw [parse_terms_succ, while1_eq self _ ts (Nat.le_refl _) G (ts.length + 1) [] (by omega) (Nat.le_refl _), parseTerms]
  cases parseTermsF self.metavariables (ts.length + 1) ts <;> simp

theorem parse_terms_termFuel (self : ASTTransformer) (ts : List String) :
    parse_terms self (termFuel ts) ts = parseTerms self.metavariables ts :=
  parse_terms_eq self _ ts (by simp [termFuel])

/-- the model's fuel does not matter once it exceeds the number of tokens -/
theorem parseTermsF_fuel (mvs : List String) (ts : List String) (n : Nat) (hn : ts.length + 1 ≤ n) :
    parseTermsF mvs n ts = parseTerms mvs ts := by
  have h1 := while1_eq ⟨mvs⟩ _ ts (Nat.le_refl _) (3 * ts.length + 1) n [] (Nat.le_refl _) hn
  have h2 := while1_eq ⟨mvs⟩ _ ts (Nat.le_refl _) (3 * ts.length + 1) (ts.length + 1) [] (Nat.le_refl _) (Nat.le_refl _)
  rw [h1] at h2
  simp only [List.nil_append] at h2
  rw [parseTerms]
  cases ha : parseTermsF mvs n ts <;> cases hb : parseTermsF mvs (ts.length + 1) ts <;> simp_all

/-- **`parse_term` is one step of the model**: the first term and the remaining tokens -/
theorem parse_term_eq (self : ASTTransformer) (F : Nat) (t : String) (rest : List String)
    (hF : 3 * (rest.length + 1) ≤ F) :
    parse_term self F (t :: rest) =
      if t = "(" then
        match scanClose 0 rest 0 with
        | none => none
        | some k => if k < 2 then none else
          match rest with
          | [] => none
          | head :: inner => (parseTerms self.metavariables (inner.take (k - 1))).map fun sub =>
              (MTerm.app head sub, rest.drop (k + 1))
      else if self.metavariables.contains t then some (MTerm.mv t, rest) else some (MTerm.app t [], rest) := by
  obtain ⟨G, rfl⟩ : ∃ G, F = G + 1 := ⟨F - 1, by omega⟩
  rw [parse_term_cons]
  by_cases h1 : t = "("
  · simp only [h1, ↓reduceIte]
    cases scanClose 0 rest 0 with
    | none => rfl
    | some k =>
      simp only
      by_cases hk : k < 2
      · simp [hk]
      · simp only [hk, ↓reduceIte]
        cases rest with
        | nil => rfl
        | cons head inner =>
          simp only [List.length_cons] at hF
          have hsub : (List.take (k - 1) inner).length ≤ inner.length := by simp [List.length_take]; omega
          dsimp only
          rw [parse_terms_eq self G _ (by omega)]
          cases parseTerms self.metavariables (List.take (k - 1) inner) <;> simp
  · simp [h1]

theorem ofStmts_append (as bs : List MStmt) : ofStmts (as ++ bs) = ofStmts as ++ ofStmts bs := by
  induction as with
  | nil => simp [ofStmts]
  | cons a as ih => simp [ofStmts, ih]

/-! ## the grammar combinators on tokens -/
def notKw (t : String) : Bool := !isKeyword t

theorem first_token_eq : first_token = notKw := by
  funext t; simp only [first_token, notKw, keywords_eq]

theorem token_single (self : ASTTransformer) (t : String) : token self [t] = some t := by
  simp [token, pyIdx, pyAssert]

theorem g_token_cons (self : ASTTransformer) (t : String) (ts : List String) :
    g_token self (t :: ts) = if isKeyword t then none else some (t, self, ts) := by
  simp only [g_token, gTOKEN, keywords_eq]
  by_cases h : isKeyword t <;> simp [h, token_single]

theorem g_token_nil (self : ASTTransformer) : g_token self [] = none := by
  simp [g_token, gTOKEN]

theorem gStarF_token (self : ASTTransformer) : ∀ (ts : List String) (N : Nat), ts.length + 1 ≤ N →
    gStarF first_token g_token N self ts = some (ts.takeWhile notKw, self, ts.dropWhile notKw)
  | [], N, h => by
      obtain ⟨N', rfl⟩ : ∃ N', N = N' + 1 := ⟨N - 1, by omega⟩
      simp [gStarF]
  | t :: ts, N, h => by
      obtain ⟨N', rfl⟩ : ∃ N', N = N' + 1 := ⟨N - 1, by simp at h; omega⟩
      simp only [gStarF, first_token_eq]
      by_cases hk : isKeyword t
      · simp [notKw, hk]
      · have := gStarF_token self ts N' (by simp at h; omega)
        rw [first_token_eq] at this
        simp [notKw, hk, g_token_cons, this]

theorem gStar_token (self : ASTTransformer) (ts : List String) :
    gStar first_token g_token self ts = some (ts.takeWhile notKw, self, ts.dropWhile notKw) :=
  gStarF_token self ts _ (Nat.le_refl _)

theorem gPlus_token (self : ASTTransformer) (ts : List String) :
    gPlus first_token g_token self ts =
      match ts with
      | [] => none
      | t :: r => if isKeyword t then none else some (t :: r.takeWhile notKw, self, r.dropWhile notKw) := by
  cases ts with
  | nil => simp [gPlus, g_token_nil]
  | cons t r =>
    simp only [gPlus, g_token_cons]
    by_cases hk : isKeyword t <;> simp [hk, gStar_token]

/-- the model's `takeUntil`, for a keyword: the maximal run of `TOKEN`s, then exactly that keyword -/
theorem takeUntil_eq (stop : String) (hstop : isKeyword stop = true) : ∀ ts : List String,
    takeUntil stop ts =
      match ts.dropWhile notKw with
      | t :: r => if t = stop then some (ts.takeWhile notKw, r) else none
      | [] => none
  | [] => by simp [takeUntil]
  | t :: ts => by
      rw [takeUntil]
      by_cases h1 : t = stop
      · subst h1; simp [notKw, hstop]
      · by_cases hk : isKeyword t
        · simp [h1, hk, notKw]
        · rw [takeUntil_eq stop hstop ts]
          simp only [h1, hk, notKw, Bool.not_false, List.dropWhile_cons_of_pos, List.takeWhile_cons_of_pos, ↓reduceIte,
            Bool.false_eq_true]
          cases List.dropWhile notKw ts with
          | nil => simp
          | cons x r => by_cases hx : x = stop <;> simp [hx]

/-! ## the callbacks, in closed form -/
theorem constant_stmt_eq (self : ASTTransformer) (cs : List String) :
    constant_stmt self cs = some (.ConstantStatement cs) := rfl

theorem variable_stmt_eq (self : ASTTransformer) (vs : List String) :
    variable_stmt self vs = some (.VariableStatement (vs.map MTerm.mv), ⟨self.metavariables ++ vs⟩) := rfl

theorem disjoint_for1_eq (self : ASTTransformer) : ∀ vs : List String,
    disjoint_stmt_for1 self vs = if vs.all self.metavariables.contains then some () else none
  | [] => by simp [disjoint_stmt_for1]
  | v :: vs => by
      simp only [disjoint_stmt_for1, pyAssert, List.all_cons]
      by_cases h : v ∈ self.metavariables <;> simp [h, disjoint_for1_eq self vs]

theorem disjoint_stmt_eq (self : ASTTransformer) (vs : List String) :
    disjoint_stmt self vs =
      if vs.all self.metavariables.contains then some (.DisjointStatement (vs.map MTerm.mv)) else none := by
  simp only [disjoint_stmt, disjoint_for1_eq]
  by_cases h : vs.all self.metavariables.contains <;> simp [h]

theorem floating_stmt_eq (self : ASTTransformer) (l tc v : String) :
    floating_stmt self [l, tc, v] =
      if self.metavariables.contains v then some (.FloatingStatement l [MTerm.app tc [], MTerm.mv v]) else none := by
  simp only [floating_stmt, pyUnpack3, pyAssert]
  by_cases h : v ∈ self.metavariables <;> simp [h]

theorem essential_stmt_eq (self : ASTTransformer) (l : String) (body : List String) :
    essential_stmt self (l :: body) = (parseTerms self.metavariables body).map (Stmt.EssentialStatement l) := by
  simp only [essential_stmt, pyHeadRest, parse_terms_termFuel]
  cases h : parseTerms self.metavariables body <;> simp [h]

theorem axiom_stmt_eq (self : ASTTransformer) (l : String) (body : List String) :
    axiom_stmt self (l :: body) = (parseTerms self.metavariables body).map (Stmt.AxiomaticStatement l) := by
  simp only [axiom_stmt, pyHeadRest, parse_terms_termFuel]
  cases h : parseTerms self.metavariables body <;> simp [h]

theorem strs_map_str : ∀ body : List String, Arg.strs (body.map Arg.str) = some body
  | [] => by simp [Arg.strs]
  | b :: body => by
      have := strs_map_str body
      simp only [Arg.strs] at this ⊢
      simp [Arg.asStr, this]

/-- `provable_stmt` on the children the grammar delivers: the label, the `TOKEN`s of the statement, the result of `proof` -/
theorem provable_stmt_eq (self : ASTTransformer) (l : String) (body pf : List String) :
    provable_stmt self ([Arg.str l] ++ body.map Arg.str ++ [Arg.list pf]) =
      (parseTerms self.metavariables body).map fun ts => Stmt.ProvableStatement l ts (some (pyJoin " " pf)) := by
  have h1 : pyDropLast (body.map Arg.str ++ [Arg.list pf]) 1 = body.map Arg.str := by simp [pyDropLast]
  have h2 : pyLast (body.map Arg.str ++ [Arg.list pf]) = some (Arg.list pf) := by simp [pyLast]
  rw [provable_stmt]
  simp only [List.singleton_append, List.cons_append, List.nil_append, pyHeadRest, Option.bind_eq_bind, Option.bind_some]
  rw [h2, h1]
  simp only [Option.bind_some, strs_map_str, parse_terms_termFuel, Arg.toList, Arg.asStr]
  cases h : parseTerms self.metavariables body <;> simp

/-! ## one statement -/
/-- the statement-level branch of the model's `parseStmtsF` (a verbatim copy of its inner expression: `parseStmtsF_cons`) -/
def modelStmt (n : Nat) (mvs : List String) (t : String) (ts : List String) : Option (MStmt × List String × List String) :=
          if t = "$c" then do
            let (cs, rest) ← takeUntil "$." ts
            if cs.isEmpty then none else pure (MStmt.const cs, mvs, rest)
          else if t = "$v" then do
            let (vs, rest) ← takeUntil "$." ts
            if vs.isEmpty then none else pure (MStmt.var vs, mvs ++ vs, rest)
          else if t = "$d" then do
            let (vs, rest) ← takeUntil "$." ts
            if vs.isEmpty then none
            else if vs.all mvs.contains then pure (MStmt.disj vs, mvs, rest) else none
          else if t = "${" then do
            let (ss, mvs', rest) ← parseStmtsF n true mvs ts
            pure (MStmt.block ss, mvs', rest)
          else if isKeyword t then none
          else
            match ts with
            | "$f" :: tc :: v :: "$." :: rest =>
                if isKeyword tc || isKeyword v then none
                else if mvs.contains v then pure (MStmt.float t tc v, mvs, rest) else none
            | "$e" :: ts' => do
                let (body, rest) ← takeUntil "$." ts'
                if body.isEmpty then none else pure (MStmt.ess t (← parseTerms mvs body), mvs, rest)
            | "$a" :: ts' => do
                let (body, rest) ← takeUntil "$." ts'
                if body.isEmpty then none else pure (MStmt.ax t (← parseTerms mvs body), mvs, rest)
            | "$p" :: ts' => do
                let (body, rest1) ← takeUntil "$=" ts'
                let (pf, rest) ← takeUntil "$." rest1
                if body.isEmpty then none else pure (MStmt.prov t (← parseTerms mvs body) pf, mvs, rest)
            | _ => none

theorem parseStmtsF_cons (n : Nat) (b : Bool) (mvs : List String) (t : String) (ts : List String) :
    parseStmtsF (n + 1) b mvs (t :: ts) =
      if t = "$}" then (if b then some ([], mvs, ts) else none)
      else (do
        let (s, mvs1, rest) ← modelStmt n mvs t ts
        let (ss, mvs2, rest2) ← parseStmtsF n b mvs1 rest
        pure (s :: ss, mvs2, rest2)) := by
  rw [parseStmtsF.eq_def]; rfl

/-- the model's `takeUntil` through the grammar combinators: the run of `TOKEN`s, then the literal -/
theorem takeUntil_gLit (stop : String) (hstop : isKeyword stop = true) (ts : List String) :
    takeUntil stop ts = (gLit stop (ts.dropWhile notKw)).map fun r => (ts.takeWhile notKw, r) := by
  rw [takeUntil_eq stop hstop]
  cases ts.dropWhile notKw with
  | nil => simp [gLit]
  | cons y r => by_cases hy : y = stop <;> simp [gLit, hy]

def ofRes : MStmt × List String × List String → Stmt × ASTTransformer × List String :=
  fun x => (ofStmt x.1, ⟨x.2.1⟩, x.2.2)
def ofRess : List MStmt × List String × List String → List Stmt × ASTTransformer × List String :=
  fun x => (ofStmts x.1, ⟨x.2.1⟩, x.2.2)

/-- the generated counterpart of `parseStmtsF`: `stmt*`, then the closing `$}` (in a block) or the end of the input -/
def genStmts (F N : Nat) (inBlock : Bool) (self : ASTTransformer) (ts : List String) :
    Option (List Stmt × ASTTransformer × List String) :=
  (gStarF first_stmt (g_stmt F) N self ts).bind fun x =>
    if inBlock then (gLit "$}" x.2.2).map fun r => (x.1, x.2.1, r) else (gEnd x.2.2).map fun _ => (x.1, x.2.1, [])

theorem kw_dot : isKeyword "$." = true := by decide
theorem kw_eq : isKeyword "$=" = true := by decide

theorem gLit_self (s : String) (ts : List String) : gLit s (s :: ts) = some ts := by simp [gLit]
theorem gLit_cons (s t : String) (ts : List String) : gLit s (t :: ts) = if t = s then some ts else none := by
  simp [gLit]
theorem gLit_nil (s : String) : gLit s [] = none := rfl

theorem g_stmt_c (F n : Nat) (mvs ts : List String) :
    g_stmt (F + 1) ⟨mvs⟩ ("$c" :: ts) = (modelStmt n mvs "$c" ts).map ofRes := by
  rw [g_stmt]
  simp only [gPeekLit, List.getElem?_cons_zero, beq_self_eq_true, ↓reduceIte, gLit_self, gPlus_token, modelStmt,
    takeUntil_gLit _ kw_dot, constant_stmt_eq]
  cases ts with
  | nil => simp [gLit_nil]
  | cons x r =>
    by_cases hk : isKeyword x
    · by_cases hx : x = "$."
      · subst hx; simp [kw_dot, notKw, gLit_self]
      · simp [hk, notKw, gLit_cons, hx]
    · simp [hk, notKw]
      cases gLit "$." (List.dropWhile notKw r) <;> simp [ofRes, ofStmt]

theorem g_stmt_v (F n : Nat) (mvs ts : List String) :
    g_stmt (F + 1) ⟨mvs⟩ ("$v" :: ts) = (modelStmt n mvs "$v" ts).map ofRes := by
  rw [g_stmt]
  simp only [gPeekLit, List.getElem?_cons_zero, beq_self_eq_true, ↓reduceIte, gLit_self, gPlus_token, modelStmt,
    takeUntil_gLit _ kw_dot, variable_stmt_eq, show ("$v" == "$c") = false by decide, show ¬ ("$v" = "$c") by decide,
    Option.some.injEq, Bool.false_eq_true]
  cases ts with
  | nil => simp [gLit_nil]
  | cons x r =>
    by_cases hk : isKeyword x
    · by_cases hx : x = "$."
      · subst hx; simp [kw_dot, notKw, gLit_self]
      · simp [hk, notKw, gLit_cons, hx]
    · simp [hk, notKw]
      cases gLit "$." (List.dropWhile notKw r) <;> simp [ofRes, ofStmt]

theorem g_stmt_d (F n : Nat) (mvs ts : List String) :
    g_stmt (F + 1) ⟨mvs⟩ ("$d" :: ts) = (modelStmt n mvs "$d" ts).map ofRes := by
  rw [g_stmt]
  simp only [gPeekLit, List.getElem?_cons_zero, beq_self_eq_true, ↓reduceIte, gLit_self, gPlus_token, modelStmt,
    takeUntil_gLit _ kw_dot, disjoint_stmt_eq, show ("$d" == "$c") = false by decide, show ¬ ("$d" = "$c") by decide,
    show ("$d" == "$v") = false by decide, show ¬ ("$d" = "$v") by decide,
    Option.some.injEq, Bool.false_eq_true]
  cases ts with
  | nil => simp [gLit_nil]
  | cons x r =>
    by_cases hk : isKeyword x
    · by_cases hx : x = "$."
      · subst hx; simp [kw_dot, notKw, gLit_self]
      · simp [hk, notKw, gLit_cons, hx]
    · simp [hk, notKw]
      cases gLit "$." (List.dropWhile notKw r) with
      | none => simp
      | some r' =>
        simp only [Option.bind_some, Option.map_some, Function.comp]
        by_cases h1 : x ∈ mvs
        · simp only [h1, ofRes, ofStmt, List.all_cons, List.contains_eq_mem, decide_true, Bool.true_and, List.all_eq_true,
            decide_eq_true_eq, List.map_cons, true_and, List.mem_cons, forall_eq_or_imp]
          split <;> simp [ofRes, ofStmt]
        · simp [h1]

theorem ne_of_notKw {t : String} (hk : isKeyword t = false) (s : String) (hs : isKeyword s = true) : t ≠ s := by
  intro h; subst h; simp [hk] at hs

theorem g_stmt_tok (F n : Nat) (mvs : List String) (t : String) (ts : List String) (hk : isKeyword t = false) :
    g_stmt (F + 1) ⟨mvs⟩ (t :: ts) = (modelStmt n mvs t ts).map ofRes := by
  have n1 := ne_of_notKw hk "$c" (by decide)
  have n2 := ne_of_notKw hk "$v" (by decide)
  have n3 := ne_of_notKw hk "$d" (by decide)
  have n4 := ne_of_notKw hk "${" (by decide)
  rw [g_stmt]; unfold modelStmt
  simp only [gPeekLit, gPeekTOKEN, List.getElem?_cons_zero, List.getElem?_cons_succ, keywords_eq, hk, n1, n2, n3, n4,
    ↓reduceIte, Option.some.injEq, beq_iff_eq, Bool.not_false, Bool.true_and, Bool.false_eq_true, g_token_cons]
  cases ts with
  | nil => simp
  | cons x ts' =>
    by_cases hf : x = "$f"
    · subst hf
      simp only [List.getElem?_cons_zero, ↓reduceIte, Option.bind_eq_bind, Option.bind_some, gLit_self, Option.pure_def]
      rcases ts' with _ | ⟨tc, _ | ⟨v, _ | ⟨y, rest⟩⟩⟩
      · simp [g_token_nil]
      · by_cases h1 : isKeyword tc <;> simp [g_token_nil, g_token_cons, h1]
      · by_cases h1 : isKeyword tc <;> by_cases h2 : isKeyword v <;> simp [g_token_nil, g_token_cons, h1, h2, gLit_nil]
      · by_cases h1 : isKeyword tc <;> by_cases h2 : isKeyword v <;> by_cases h3 : y = "$." <;>
          simp [g_token_cons, h1, h2, h3, gLit_cons, floating_stmt_eq]
        by_cases hv : v ∈ mvs <;> simp [hv, ofRes, ofStmt]
    · by_cases he : x = "$e"
      · subst he
        simp only [List.getElem?_cons_zero, ↓reduceIte, Option.bind_eq_bind, Option.bind_some, gLit_self, Option.pure_def,
          Option.some.injEq, show ¬ ("$e" = "$f") by decide, gPlus_token, takeUntil_gLit _ kw_dot]
        cases ts' with
        | nil => simp [gLit_nil]
        | cons x r =>
          by_cases hx : isKeyword x
          · by_cases hd : x = "$."
            · subst hd; simp [kw_dot, notKw, gLit_self]
            · simp [hx, notKw, gLit_cons, hd]
          · have hnk : notKw x = true := by simp [notKw, hx]
            simp only [hx, hnk, Bool.false_eq_true, ↓reduceIte, Option.bind_some, List.singleton_append,
              essential_stmt_eq, List.takeWhile_cons, List.dropWhile_cons]
            cases gLit "$." (List.dropWhile notKw r) with
            | none => simp
            | some r' =>
              cases hp : parseTerms mvs (x :: List.takeWhile notKw r) <;> simp [hp, ofRes, ofStmt]
      · by_cases ha : x = "$a"
        · subst ha
          simp only [List.getElem?_cons_zero, ↓reduceIte, Option.bind_eq_bind, Option.bind_some, gLit_self, Option.pure_def,
            Option.some.injEq, show ¬ ("$a" = "$f") by decide, show ¬ ("$a" = "$e") by decide, gPlus_token,
            takeUntil_gLit _ kw_dot]
          cases ts' with
          | nil => simp [gLit_nil]
          | cons x r =>
            by_cases hx : isKeyword x
            · by_cases hd : x = "$."
              · subst hd; simp [kw_dot, notKw, gLit_self]
              · simp [hx, notKw, gLit_cons, hd]
            · have hnk : notKw x = true := by simp [notKw, hx]
              simp only [hx, hnk, Bool.false_eq_true, ↓reduceIte, Option.bind_some, List.singleton_append,
                axiom_stmt_eq, List.takeWhile_cons, List.dropWhile_cons]
              cases gLit "$." (List.dropWhile notKw r) with
              | none => simp
              | some r' =>
                cases hp : parseTerms mvs (x :: List.takeWhile notKw r) <;> simp [hp, ofRes, ofStmt]
        · by_cases hp : x = "$p"
          · subst hp
            simp only [List.getElem?_cons_zero, ↓reduceIte, Option.bind_eq_bind, Option.bind_some, gLit_self, Option.pure_def,
              Option.some.injEq, show ¬ ("$p" = "$f") by decide, show ¬ ("$p" = "$e") by decide,
              show ¬ ("$p" = "$a") by decide, gPlus_token, takeUntil_gLit _ kw_dot, takeUntil_gLit _ kw_eq, g_proof,
              gStar_token, proof]
            cases ts' with
            | nil => simp [gLit_nil]
            | cons x r =>
              by_cases hx : isKeyword x
              · by_cases hd : x = "$="
                · subst hd; simp [kw_eq, notKw, gLit_self]
                · simp [hx, notKw, gLit_cons, hd]
              · have hnk : notKw x = true := by simp [notKw, hx]
                simp only [hx, hnk, Bool.false_eq_true, ↓reduceIte, Option.bind_some, provable_stmt_eq,
                  List.takeWhile_cons, List.dropWhile_cons]
                cases gLit "$=" (List.dropWhile notKw r) with
                | none => simp
                | some r1 =>
                  simp only [Option.bind_some, Option.map_some]
                  cases gLit "$." (List.dropWhile notKw r1) with
                  | none => simp
                  | some r2 =>
                    cases hp : parseTerms mvs (x :: List.takeWhile notKw r) <;> simp [hp, ofRes, ofStmt]
          · simp [hf, he, ha, hp]

theorem g_stmt_block (F n : Nat) (mvs ts : List String)
    (hb : genStmts F (ts.length + 1) true ⟨mvs⟩ ts = (parseStmtsF n true mvs ts).map ofRess) :
    g_stmt (F + 1) ⟨mvs⟩ ("${" :: ts) = (modelStmt n mvs "${" ts).map ofRes := by
  rw [g_stmt]; unfold modelStmt
  simp only [gPeekLit, gPeekTOKEN, List.getElem?_cons_zero, keywords_eq, show isKeyword "${" = true by decide,
    show ¬ ("${" = "$c") by decide, show ¬ ("${" = "$v") by decide, show ¬ ("${" = "$d") by decide,
    Option.some.injEq, beq_iff_eq, ↓reduceIte, Bool.not_true, Bool.false_and, Bool.false_eq_true, gLit_self,
    Option.bind_eq_bind, Option.bind_some, gStar, Option.pure_def]
  simp only [genStmts, ↓reduceIte] at hb
  cases hp : parseStmtsF n true mvs ts with
  | none =>
    rw [hp] at hb
    simp only [Option.map_none, Option.bind_eq_none_iff, Option.map_eq_none_iff] at hb
    cases hg : gStarF first_stmt (g_stmt F) (ts.length + 1) ⟨mvs⟩ ts with
    | none => simp
    | some x => simp [hb x hg]
  | some y =>
    rw [hp] at hb
    cases hg : gStarF first_stmt (g_stmt F) (ts.length + 1) ⟨mvs⟩ ts with
    | none => simp [hg] at hb
    | some x =>
      rw [hg] at hb
      simp only [Option.bind_some, Option.map_some] at hb
      cases hl : gLit "$}" x.2.2 with
      | none => simp [hl] at hb
      | some r =>
        simp only [hl, Option.map_some, Option.some.injEq] at hb
        simp only [Option.bind_some, hl, block, Option.pure_def, Option.map_some, Option.some.injEq, ofRes, ofStmt]
        simp only [ofRess, Prod.mk.injEq] at hb
        obtain ⟨e1, e2, e3⟩ := hb
        simp [e1, e2, e3]

theorem g_stmt_kw (F n : Nat) (self : ASTTransformer) (mvs : List String) (t : String) (ts : List String)
    (hk : isKeyword t = true) (n1 : t ≠ "$c") (n2 : t ≠ "$v") (n3 : t ≠ "$d") (n4 : t ≠ "${") :
    g_stmt (F + 1) self (t :: ts) = none ∧ modelStmt n mvs t ts = none := by
  constructor
  · rw [g_stmt]
    have hmem : t ∈ keywords := by
      have := keywords_eq t
      rw [hk] at this
      simpa using this
    simp [gPeekLit, gPeekTOKEN, hmem, n1, n2, n3, n4]
  · unfold modelStmt
    simp [hk, n1, n2, n3, n4]

/-- **one statement**: the rule function `g_stmt` (alternative chosen by its keyword prefix, children in grammar order, the
callback) is the statement branch of the model — given that for the body of a block (shorter) -/
theorem g_stmt_eq (F n : Nat) (mvs : List String) (t : String) (ts : List String)
    (hb : t = "${" → genStmts F (ts.length + 1) true ⟨mvs⟩ ts = (parseStmtsF n true mvs ts).map ofRess) :
    g_stmt (F + 1) ⟨mvs⟩ (t :: ts) = (modelStmt n mvs t ts).map ofRes := by
  by_cases h1 : t = "$c"
  · subst h1; exact g_stmt_c F n mvs ts
  by_cases h2 : t = "$v"
  · subst h2; exact g_stmt_v F n mvs ts
  by_cases h3 : t = "$d"
  · subst h3; exact g_stmt_d F n mvs ts
  by_cases h4 : t = "${"
  · subst h4; exact g_stmt_block F n mvs ts (hb rfl)
  by_cases hk : isKeyword t
  · obtain ⟨a, b⟩ := g_stmt_kw F n ⟨mvs⟩ mvs t ts hk h1 h2 h3 h4
    rw [a, b]; rfl
  · exact g_stmt_tok F n mvs t ts (by simpa using hk)

/-! ## a statement consumes tokens -/
theorem takeUntil_len {stop : String} {ts a b : List String} (h : takeUntil stop ts = some (a, b)) :
    b.length < ts.length := by
  rw [takeUntil_split stop ts a b h]; simp; omega

theorem modelStmt_len {n : Nat} {mvs : List String} {t : String} {ts : List String} {s : MStmt} {mvs1 rest : List String}
    (h : modelStmt n mvs t ts = some (s, mvs1, rest)) : rest.length ≤ ts.length := by
  unfold modelStmt at h
  split at h
  · simp only [Option.bind_eq_bind, Option.bind_eq_some_iff] at h
    obtain ⟨⟨cs, r⟩, htu, h⟩ := h
    split at h
    · cases h
    · simp only [Option.pure_def, Option.some.injEq, Prod.mk.injEq] at h
      obtain ⟨_, _, rfl⟩ := h
      exact Nat.le_of_lt (takeUntil_len htu)
  · split at h
    · simp only [Option.bind_eq_bind, Option.bind_eq_some_iff] at h
      obtain ⟨⟨cs, r⟩, htu, h⟩ := h
      split at h
      · cases h
      · simp only [Option.pure_def, Option.some.injEq, Prod.mk.injEq] at h
        obtain ⟨_, _, rfl⟩ := h
        exact Nat.le_of_lt (takeUntil_len htu)
    · split at h
      · simp only [Option.bind_eq_bind, Option.bind_eq_some_iff] at h
        obtain ⟨⟨cs, r⟩, htu, h⟩ := h
        split at h
        · cases h
        · split at h
          · simp only [Option.pure_def, Option.some.injEq, Prod.mk.injEq] at h
            obtain ⟨_, _, rfl⟩ := h
            exact Nat.le_of_lt (takeUntil_len htu)
          · cases h
      · split at h
        · simp only [Option.bind_eq_bind, Option.bind_eq_some_iff] at h
          obtain ⟨⟨ss, m, r⟩, hblk, h⟩ := h
          simp only [Option.pure_def, Option.some.injEq, Prod.mk.injEq] at h
          obtain ⟨_, _, rfl⟩ := h
          obtain ⟨e, _⟩ := parseStmtsF_print _ _ _ _ _ _ _ hblk
          rw [e]; simp; omega
        · split at h
          · cases h
          · split at h
            · split at h
              · cases h
              · split at h
                · simp only [Option.pure_def, Option.some.injEq, Prod.mk.injEq] at h
                  obtain ⟨_, _, rfl⟩ := h
                  simp; omega
                · cases h
            · simp only [Option.bind_eq_bind, Option.bind_eq_some_iff] at h
              obtain ⟨⟨body, r⟩, htu, h⟩ := h
              split at h
              · cases h
              · simp only [Option.bind_eq_some_iff, Option.pure_def, Option.some.injEq, Prod.mk.injEq] at h
                obtain ⟨_, _, _, _, rfl⟩ := h
                have := takeUntil_len htu; simp; omega
            · simp only [Option.bind_eq_bind, Option.bind_eq_some_iff] at h
              obtain ⟨⟨body, r⟩, htu, h⟩ := h
              split at h
              · cases h
              · simp only [Option.bind_eq_some_iff, Option.pure_def, Option.some.injEq, Prod.mk.injEq] at h
                obtain ⟨_, _, _, _, rfl⟩ := h
                have := takeUntil_len htu; simp; omega
            · simp only [Option.bind_eq_bind, Option.bind_eq_some_iff] at h
              obtain ⟨⟨body, r1⟩, htu1, ⟨pf, r⟩, htu2, h⟩ := h
              split at h
              · cases h
              · simp only [Option.bind_eq_some_iff, Option.pure_def, Option.some.injEq, Prod.mk.injEq] at h
                obtain ⟨_, _, _, _, rfl⟩ := h
                have := takeUntil_len htu1; have := takeUntil_len htu2; simp at *; omega
            · cases h

/-! ## statement sequences -/
theorem first_stmt_false {t : String} (h : first_stmt t = false) :
    isKeyword t = true ∧ t ≠ "$c" ∧ t ≠ "$v" ∧ t ≠ "$d" ∧ t ≠ "${" := by
  simp only [first_stmt, keywords_eq, Bool.or_eq_false_iff, beq_eq_false_iff_ne, ne_eq, Bool.not_eq_eq_eq_not,
    Bool.not_false] at h
  obtain ⟨⟨⟨⟨a, b⟩, c⟩, d⟩, e⟩ := h
  exact ⟨e, a, b, c, d⟩

theorem genStmts_nil (F N : Nat) (b : Bool) (self : ASTTransformer) :
    genStmts F (N + 1) b self [] = if b then none else some ([], self, []) := by
  cases b <;> simp [genStmts, gStarF, gLit_nil, gEnd]

theorem genStmts_cons (F N : Nat) (b : Bool) (self : ASTTransformer) (t : String) (ts : List String) :
    genStmts F (N + 1) b self (t :: ts) =
      if first_stmt t then
        (g_stmt F self (t :: ts)).bind fun x =>
          (genStmts F N b x.2.1 x.2.2).map fun y => (x.1 :: y.1, y.2.1, y.2.2)
      else if b then (gLit "$}" (t :: ts)).map fun r => ([], self, r) else none := by
  simp only [genStmts, gStarF]
  by_cases hf : first_stmt t
  · simp only [hf, ↓reduceIte, Option.bind_eq_bind, Option.pure_def]
    cases g_stmt F self (t :: ts) with
    | none => simp
    | some x =>
      simp only [Option.bind_some]
      cases gStarF first_stmt (g_stmt F) N x.2.1 x.2.2 with
      | none => simp
      | some y =>
        cases b
        · simp only [Option.bind_some, Bool.false_eq_true, ↓reduceIte, Option.map_map]
          cases gEnd y.2.2 <;> simp
        · simp only [Option.bind_some, ↓reduceIte, Option.map_map]
          cases gLit "$}" y.2.2 <;> simp
  · cases b <;> simp [hf, gEnd]

/-- **`stmt*` + the callbacks = the model's `parseStmtsF`** (enough fuel on every side) -/
theorem genStmts_eq : ∀ (m : Nat) (ts : List String), ts.length ≤ m → ∀ (F N n : Nat) (b : Bool) (mvs : List String),
    ts.length ≤ F → ts.length + 1 ≤ N → ts.length + 1 ≤ n →
    genStmts F N b ⟨mvs⟩ ts = (parseStmtsF n b mvs ts).map ofRess := by
  intro m
  induction m with
  | zero =>
    intro ts hm F N n b mvs hF hN hn
    have : ts = [] := List.length_eq_zero_iff.mp (by omega)
    subst this
    obtain ⟨N', rfl⟩ : ∃ N', N = N' + 1 := ⟨N - 1, by omega⟩
    obtain ⟨n', rfl⟩ : ∃ n', n = n' + 1 := ⟨n - 1, by omega⟩
    rw [genStmts_nil, parseStmtsF.eq_def]
    cases b <;> simp [ofRess, ofStmts]
  | succ m ih =>
    intro ts hm F N n b mvs hF hN hn
    obtain ⟨N', rfl⟩ : ∃ N', N = N' + 1 := ⟨N - 1, by omega⟩
    obtain ⟨n', rfl⟩ : ∃ n', n = n' + 1 := ⟨n - 1, by omega⟩
    cases ts with
    | nil =>
      rw [genStmts_nil, parseStmtsF.eq_def]
      cases b <;> simp [ofRess, ofStmts]
    | cons t ts' =>
      simp only [List.length_cons] at hm hF hN hn
      obtain ⟨F', rfl⟩ : ∃ F', F = F' + 1 := ⟨F - 1, by omega⟩
      rw [genStmts_cons, parseStmtsF_cons]
      by_cases hc : t = "$}"
      · subst hc
        have : first_stmt "$}" = false := by decide
        cases b <;> simp [this, gLit_self, ofRess, ofStmts]
      · simp only [hc, ↓reduceIte]
        by_cases hf : first_stmt t
        · simp only [hf, ↓reduceIte]
          rw [g_stmt_eq F' n' mvs t ts' (fun _ => ih ts' (by omega) F' _ n' true mvs (by omega) (Nat.le_refl _) (by omega))]
          cases hms : modelStmt n' mvs t ts' with
          | none => simp
          | some x =>
            obtain ⟨s, mvs1, rest⟩ := x
            have hl := modelStmt_len hms
            simp only [Option.map_some, Option.bind_some, ofRes, Option.bind_eq_bind]
            rw [ih rest (by omega) (F' + 1) N' n' b mvs1 (by omega) (by omega) (by omega)]
            cases parseStmtsF n' b mvs1 rest <;> simp [ofRess, ofStmts]
        · have hf' : first_stmt t = false := by simpa using hf
          obtain ⟨hk, n1, n2, n3, n4⟩ := first_stmt_false hf'
          obtain ⟨_, hm0⟩ := g_stmt_kw 0 n' ⟨mvs⟩ mvs t ts' hk n1 n2 n3 n4
          simp only [hf', Bool.false_eq_true, ↓reduceIte, hm0, Option.bind_eq_bind, Option.bind_none, Option.map_none]
          cases b <;> simp [gLit_cons, hc]

/-- **`parse_database` is the model's `parseDb`** on every token list (fuel at least the number of tokens) -/
theorem parse_database_eq (F : Nat) (toks : List String) (hF : toks.length ≤ F) :
    parse_database F toks = (parseDb toks).map ofDb := by
  have h := genStmts_eq _ toks (Nat.le_refl _) F (toks.length + 1) (toks.length + 1) false [] hF (Nat.le_refl _) (Nat.le_refl _)
  simp only [genStmts, Bool.false_eq_true, ↓reduceIte] at h
  simp only [parse_database, g_database, gStar, ASTTransformer.new, database, parseDb, pyAssert, Option.bind_eq_bind,
    Option.pure_def, ↓reduceIte]
  cases hp : parseStmtsF (toks.length + 1) false [] toks with
  | none =>
    rw [hp] at h
    cases hg : gStarF first_stmt (g_stmt F) (toks.length + 1) ⟨[]⟩ toks with
    | none => simp
    | some x =>
      rw [hg] at h
      simp only [Option.bind_some, Option.map_none, Option.map_eq_none_iff] at h
      simp [h]
  | some y =>
    rw [hp] at h
    cases hg : gStarF first_stmt (g_stmt F) (toks.length + 1) ⟨[]⟩ toks with
    | none => rw [hg] at h; simp at h
    | some x =>
      rw [hg] at h
      simp only [Option.bind_some, Option.map_some] at h
      cases he : gEnd x.2.2 with
      | none => rw [he] at h; simp at h
      | some u =>
        rw [he] at h
        simp only [Option.map_some, Option.some.injEq, ofRess, Prod.mk.injEq] at h
        obtain ⟨e1, _, _⟩ := h
        simp [he, ofDb, e1]

/-! ## the Encoder: the strings written, split at the ignored characters -/
/-- a character the grammar ignores between tokens (`%ignore /[ \n\t\f\r]+/`) -/
def isWs (c : Char) : Bool := ignoreChars.contains c
/-- what the lexer can deliver as ONE token and the printer must give back as one: non-empty, without ignored characters -/
def lexB (t : String) : Bool := !t.toList.isEmpty && t.toList.all fun c => !isWs c
def Lex (t : String) : Prop := lexB t = true
/-- the lexer's view of a text (a list of characters): the maximal runs of non-ignored characters -/
def lexTokens (text : List Char) : List String := splitWs isWs text

theorem tab_is_ws : (Encoder.new).tab.toList.all isWs = true := by decide
/-- a keyword terminal is never a `TOKEN` (it contains `$`), and is delivered whole (no ignored character) -/
theorem keywords_not_TOKEN : keywords.all (fun k => k.toList.any tokenExcluded.contains && lexB k) = true := by decide
/-- `TOKEN` = non-empty, no ignored character, no `$` -/
theorem tokenExcluded_eq : tokenExcluded = ignoreChars ++ ['$'] := by decide

theorem Lex.ne_nil {t : String} (h : Lex t) : t.toList ≠ [] := by
  simp only [Lex, lexB, Bool.and_eq_true, Bool.not_eq_eq_eq_not, Bool.not_true, List.isEmpty_eq_false_iff] at h
  exact h.1
theorem Lex.no_ws {t : String} (h : Lex t) : ∀ c ∈ t.toList, isWs c = false := by
  simp only [Lex, lexB, Bool.and_eq_true, List.all_eq_true, Bool.not_eq_eq_eq_not, Bool.not_true] at h
  exact h.2
theorem Lex.truthy {t : String} (h : Lex t) : strTruthy t = true := by
  simp only [strTruthy, bne_iff_ne, ne_eq]
  intro e; subst e; exact h.ne_nil rfl

theorem splitAux_word : ∀ (w acc X : List Char), (∀ c ∈ w, isWs c = false) →
    splitAux isWs (w ++ X) acc = splitAux isWs X (w.reverse ++ acc)
  | [], acc, X, _ => by simp
  | c :: w, acc, X, h => by
      have hc : isWs c = false := h c (by simp)
      simp only [List.cons_append, splitAux, hc, Bool.false_eq_true, ↓reduceIte]
      rw [splitAux_word w (c :: acc) X (fun d hd => h d (by simp [hd]))]
      simp

theorem split_lex {t : String} (h : Lex t) {c : Char} (hc : isWs c = true) (X : List Char) :
    splitWs isWs (t.toList ++ c :: X) = t :: splitWs isWs X := by
  rw [splitWs, splitAux_word _ _ _ h.no_ws]
  have hne : t.toList.reverse.isEmpty = false := by
    have := h.ne_nil
    cases ht : t.toList with
    | nil => exact absurd ht this
    | cons a b => simp
  simp only [splitAux, hc, ↓reduceIte, List.append_nil, hne, Bool.false_eq_true, List.reverse_reverse, String.ofList_toList,
    splitWs]

theorem split_ws {c : Char} (hc : isWs c = true) (X : List Char) : splitWs isWs (c :: X) = splitWs isWs X := by
  simp [splitWs, splitAux, hc]

/-- `cs`, followed by an ignored character, is read as the tokens `T` -/
def Toks (cs : List Char) (T : List String) : Prop :=
  ∀ (c : Char) (X : List Char), isWs c = true → splitWs isWs (cs ++ c :: X) = T ++ splitWs isWs X
/-- `L` may follow anything that is read as tokens (it is empty or starts with an ignored character) -/
def LToks (L : List Char) (TL : List String) : Prop := ∀ A TA, Toks A TA → Toks (A ++ L) (TA ++ TL)
/-- `cs` ends its last token itself (it is empty or ends with an ignored character) -/
def TToks (cs : List Char) (T : List String) : Prop := ∀ X : List Char, splitWs isWs (cs ++ X) = T ++ splitWs isWs X

theorem Toks.nil : Toks [] [] := fun c X hc => by simp [split_ws hc]
theorem Toks.lex {t : String} (h : Lex t) : Toks t.toList [t] := fun c X hc => by simp [split_lex h hc]
theorem Toks.sep {A B : List Char} {TA TB : List String} (hA : Toks A TA) {c : Char} (hc : isWs c = true) (hB : Toks B TB) :
    Toks (A ++ c :: B) (TA ++ TB) := fun d X hd => by
  have := hA c (B ++ d :: X) hc
  simp only [List.append_assoc, List.cons_append] at this ⊢
  rw [this, hB d X hd]
theorem Toks.ws_cons {B : List Char} {TB : List String} {c : Char} (hc : isWs c = true) (hB : Toks B TB) : Toks (c :: B) TB := by
  have := Toks.sep Toks.nil hc hB
  simpa using this
theorem Toks.snoc_ws {A : List Char} {TA : List String} (hA : Toks A TA) {c : Char} (hc : isWs c = true) : Toks (A ++ [c]) TA := by
  have := Toks.sep hA hc Toks.nil
  simpa using this
theorem LToks.nil : LToks [] [] := fun A TA h => by simpa using h
theorem LToks.cons {c : Char} (hc : isWs c = true) {V L : List Char} {TV TL : List String} (hV : Toks V TV) (hL : LToks L TL) :
    LToks (c :: (V ++ L)) (TV ++ TL) := fun A TA hA => by
  have := hL _ _ (Toks.sep hA hc hV)
  simpa [List.append_assoc] using this
theorem TToks.nil : TToks [] [] := fun X => by simp
theorem TToks.append {A B : List Char} {TA TB : List String} (hA : TToks A TA) (hB : TToks B TB) : TToks (A ++ B) (TA ++ TB) :=
  fun X => by rw [List.append_assoc, hA, hB, List.append_assoc]
theorem Toks.toT {A : List Char} {TA : List String} (hA : Toks A TA) {c : Char} (hc : isWs c = true) : TToks (A ++ [c]) TA :=
  fun X => by simpa using hA c X hc

theorem written_append (a b : List PCall) : written (a ++ b) = written a ++ written b := by simp [written]
theorem written_single (s : String) : written [.write s] = s.toList := by simp [written]
theorem written_nil : written [] = [] := rfl
theorem written_cons (s : String) (a : List PCall) : written (.write s :: a) = s.toList ++ written a := by simp [written]
theorem written_indent (a : List PCall) : written (.indent :: a) = written a := by simp [written]
theorem written_deindent (a : List PCall) : written (.deindent :: a) = written a := by simp [written]

theorem ws_sp : isWs ' ' = true := by decide
theorem ws_nl : isWs '\n' = true := by decide

theorem lex_lp : Lex "(" := by unfold Lex; decide
theorem lex_rp : Lex ")" := by unfold Lex; decide

mutual
/-- **`Encoder.visit` on a term writes the model's `printTerm`** -/
theorem visit_Term_toks (self : Encoder) : ∀ (t : MTerm), (∀ x ∈ printTerm t, Lex x) →
    Toks (written (visit_Term self t)) (printTerm t)
  | .mv n, h => by
      simp only [visit_Term, printTerm, written_single]
      exact Toks.lex (h n (by simp [printTerm]))
  | .app s [], h => by
      simp only [visit_Term, printTerm, written_single, List.length_nil, beq_self_eq_true, ↓reduceIte]
      exact Toks.lex (h s (by simp [printTerm]))
  | .app s (a :: as), h => by
      have hs : Lex s := h s (by simp [printTerm])
      have hsub : ∀ x ∈ printTerms (a :: as), Lex x := fun x hx => h x (by simp [printTerm, hx])
      have hL := for1_toks self (a :: as) hsub
      have e : written (visit_Term self (.app s (a :: as))) =
          (("(".toList ++ ' ' :: s.toList) ++ written (postvisit_application_for1 self (a :: as))) ++ ' ' :: ")".toList := by
        simp only [visit_Term, List.length_cons, written_append, written_single]
        simp [written_cons, written_append, written_nil, show "( ".toList = ['(', ' '] by decide, show " )".toList = [' ', ')'] by decide,
          show "(".toList = ['('] by decide, show ")".toList = [')'] by decide]
      rw [e]
      have := Toks.sep (hL _ _ (Toks.sep (Toks.lex lex_lp) ws_sp (Toks.lex hs))) ws_sp (Toks.lex lex_rp)
      simpa [printTerm] using this
theorem for1_toks (self : Encoder) : ∀ (ts : List MTerm), (∀ x ∈ printTerms ts, Lex x) →
    LToks (written (postvisit_application_for1 self ts)) (printTerms ts)
  | [], _ => by simpa [postvisit_application_for1, printTerms, written_nil] using LToks.nil
  | t :: ts, h => by
      have h1 := visit_Term_toks self t (fun x hx => h x (by simp [printTerms, hx]))
      have h2 := for1_toks self ts (fun x hx => h x (by simp [printTerms, hx]))
      have e : written (postvisit_application_for1 self (t :: ts)) =
          ' ' :: (written (visit_Term self t) ++ written (postvisit_application_for1 self ts)) := by
        simp [postvisit_application_for1, written_append, written_cons, written_nil, show " ".toList = [' '] by decide]
      rw [e]
      simpa [printTerms] using LToks.cons ws_sp h1 h2
end

/-! ### the loops over strings / metavariables / terms, the proof string -/
theorem const_for1_toks (self : Encoder) : ∀ (cs : List String), (∀ x ∈ cs, Lex x) →
    LToks (written (postvisit_constant_statement_for1 self cs)) cs
  | [], _ => by simpa [postvisit_constant_statement_for1, written_nil] using LToks.nil
  | c :: cs, h => by
      have h2 := const_for1_toks self cs (fun x hx => h x (by simp [hx]))
      have e : written (postvisit_constant_statement_for1 self (c :: cs)) =
          ' ' :: (c.toList ++ written (postvisit_constant_statement_for1 self cs)) := by
        simp [postvisit_constant_statement_for1, written_append, written_cons, written_nil, show " ".toList = [' '] by decide]
      rw [e]
      simpa using LToks.cons ws_sp (Toks.lex (h c (by simp))) h2

theorem var_for1_toks (self : Encoder) : ∀ (vs : List String), (∀ x ∈ vs, Lex x) →
    LToks (written (postvisit_variable_statement_for1 self (vs.map MTerm.mv))) vs
  | [], _ => by simpa [postvisit_variable_statement_for1, written_nil] using LToks.nil
  | c :: cs, h => by
      have h2 := var_for1_toks self cs (fun x hx => h x (by simp [hx]))
      have e : written (postvisit_variable_statement_for1 self ((c :: cs).map MTerm.mv)) =
          ' ' :: (c.toList ++ written (postvisit_variable_statement_for1 self (cs.map MTerm.mv))) := by
        simp [postvisit_variable_statement_for1, visit_Term, written_append, written_cons, written_nil,
          show " ".toList = [' '] by decide]
      rw [e]
      simpa using LToks.cons ws_sp (Toks.lex (h c (by simp))) h2

theorem disj_for1_toks (self : Encoder) : ∀ (vs : List String), (∀ x ∈ vs, Lex x) →
    LToks (written (postvisit_disjoint_statement_for1 self (vs.map MTerm.mv))) vs
  | [], _ => by simpa [postvisit_disjoint_statement_for1, written_nil] using LToks.nil
  | c :: cs, h => by
      have h2 := disj_for1_toks self cs (fun x hx => h x (by simp [hx]))
      have e : written (postvisit_disjoint_statement_for1 self ((c :: cs).map MTerm.mv)) =
          ' ' :: (c.toList ++ written (postvisit_disjoint_statement_for1 self (cs.map MTerm.mv))) := by
        simp [postvisit_disjoint_statement_for1, visit_Term, written_append, written_cons, written_nil,
          show " ".toList = [' '] by decide]
      rw [e]
      simpa using LToks.cons ws_sp (Toks.lex (h c (by simp))) h2

theorem terms_for1_toks (self : Encoder) : ∀ (ts : List MTerm), (∀ x ∈ printTerms ts, Lex x) →
    LToks (written (postvisit_structured_statement_for1 self ts)) (printTerms ts)
  | [], _ => by simpa [postvisit_structured_statement_for1, printTerms, written_nil] using LToks.nil
  | t :: ts, h => by
      have h1 := visit_Term_toks self t (fun x hx => h x (by simp [printTerms, hx]))
      have h2 := terms_for1_toks self ts (fun x hx => h x (by simp [printTerms, hx]))
      have e : written (postvisit_structured_statement_for1 self (t :: ts)) =
          ' ' :: (written (visit_Term self t) ++ written (postvisit_structured_statement_for1 self ts)) := by
        simp [postvisit_structured_statement_for1, written_append, written_cons, written_nil, show " ".toList = [' '] by decide]
      rw [e]
      simpa [printTerms] using LToks.cons ws_sp h1 h2

theorem inter_cons (sep : List Char) (t : List Char) : ∀ (rest : List (List Char)),
    sep.intercalate (t :: rest) = t ++ (rest.flatMap fun x => sep ++ x)
  | [] => by simp [List.intercalate]
  | a :: r => by
      have := inter_cons sep a r
      simp only [List.intercalate] at this ⊢
      simp [List.intersperse, this]

/-- the characters of the proof string `' '.join(pf)` the parser stores -/
theorem join_chars (t : String) (rest : List String) :
    (pyJoin " " (t :: rest)).toList = t.toList ++ (rest.flatMap fun x => ' ' :: x.toList) := by
  simp [pyJoin, String.toList_intercalate, inter_cons, List.flatMap_map]

theorem join_nil : (pyJoin " " []).toList = [] := by simp [pyJoin, String.intercalate]

theorem tail_toks : ∀ (rest : List String), (∀ x ∈ rest, Lex x) → LToks (rest.flatMap fun x => ' ' :: x.toList) rest
  | [], _ => by simpa using LToks.nil
  | t :: rest, h => by
      have h2 := tail_toks rest (fun x hx => h x (by simp [hx]))
      simpa using LToks.cons ws_sp (Toks.lex (h t (by simp))) h2

/-- **the proof string and the proof tokens**: behind a blank, `' '.join(pf)` is read as the tokens `pf` -/
theorem proof_string_toks (pf : List String) (h : ∀ x ∈ pf, Lex x) : LToks (' ' :: (pyJoin " " pf).toList) pf := by
  cases pf with
  | nil =>
    rw [join_nil]
    simpa using LToks.cons ws_sp Toks.nil LToks.nil
  | cons t rest =>
    rw [join_chars]
    simpa using LToks.cons ws_sp (Toks.lex (h t (by simp))) (tail_toks rest (fun x hx => h x (by simp [hx])))

/-- conversely the proof tokens are the proof string split at the ignored characters (`.split()`) -/
theorem proof_string_tokens (pf : List String) (h : ∀ x ∈ pf, Lex x) : lexTokens ((pyJoin " " pf).toList ++ [' ']) = pf := by
  have := proof_string_toks pf h [] [] Toks.nil ' ' [] ws_sp
  simp only [List.nil_append, splitWs, splitAux] at this
  have e : splitWs isWs (' ' :: ((pyJoin " " pf).toList ++ [' '])) = lexTokens ((pyJoin " " pf).toList ++ [' ']) :=
    split_ws ws_sp _
  rw [← e]
  simpa [splitWs, splitAux] using this

/-! ### statements -/
theorem lex_c : Lex "$c" := by unfold Lex; decide
theorem lex_v : Lex "$v" := by unfold Lex; decide
theorem lex_d : Lex "$d" := by unfold Lex; decide
theorem lex_f : Lex "$f" := by unfold Lex; decide
theorem lex_e : Lex "$e" := by unfold Lex; decide
theorem lex_a : Lex "$a" := by unfold Lex; decide
theorem lex_p : Lex "$p" := by unfold Lex; decide
theorem lex_eq : Lex "$=" := by unfold Lex; decide
theorem lex_dot : Lex "$." := by unfold Lex; decide
theorem lex_lb : Lex "${" := by unfold Lex; decide
theorem lex_rb : Lex "$}" := by unfold Lex; decide

theorem TToks.then {B C : List Char} {TB TC : List String} (hB : TToks B TB) (hC : Toks C TC) : Toks (B ++ C) (TB ++ TC) :=
  fun c X hc => by rw [List.append_assoc, hB, hC c X hc, List.append_assoc]

/-- a structured statement (`$f`, `$e`, `$a`): label, blank, `$` and the type letter (two writes, one token), the terms, ` $.` -/
theorem structured_toks (self : Encoder) (S : Stmt) (l k : String) (ts : List MTerm) (hl : Lex l) (hk : Lex k)
    (hts : ∀ x ∈ printTerms ts, Lex x)
    (e : written (postvisit_structured_statement self S) =
      ((l.toList ++ ' ' :: k.toList) ++ written (postvisit_structured_statement_for1 self ts)) ++ ' ' :: "$.".toList) :
    Toks (written (postvisit_structured_statement self S)) (l :: k :: (printTerms ts ++ ["$."])) := by
  rw [e]
  have := Toks.sep (terms_for1_toks self ts hts _ _ (Toks.sep (Toks.lex hl) ws_sp (Toks.lex hk))) ws_sp (Toks.lex lex_dot)
  simpa using this

mutual
/-- **`Encoder.visit` on a statement of the model writes the model's `printStmt`** (`omit_proof=False`) -/
theorem visit_Stmt_toks (self : Encoder) (ho : self.omit_proof = false) : ∀ (s : MStmt), (∀ x ∈ printStmt s, Lex x) →
    Toks (written (visit_Stmt self (ofStmt s))) (printStmt s)
  | .const cs, h => by
      have hcs : ∀ x ∈ cs, Lex x := fun x hx => h x (by simp [printStmt, hx])
      have e : written (visit_Stmt self (ofStmt (.const cs))) =
          ("$c".toList ++ written (postvisit_constant_statement_for1 self cs)) ++ ' ' :: "$.".toList := by
        simp [ofStmt, visit_Stmt, written_append, written_cons, written_nil, show " $.".toList = ' ' :: "$.".toList by decide]
      rw [e]
      simpa [printStmt] using Toks.sep (const_for1_toks self cs hcs _ _ (Toks.lex lex_c)) ws_sp (Toks.lex lex_dot)
  | .var vs, h => by
      have hvs : ∀ x ∈ vs, Lex x := fun x hx => h x (by simp [printStmt, hx])
      have e : written (visit_Stmt self (ofStmt (.var vs))) =
          ("$v".toList ++ written (postvisit_variable_statement_for1 self (vs.map MTerm.mv))) ++ ' ' :: "$.".toList := by
        simp [ofStmt, visit_Stmt, written_append, written_cons, written_nil, show " $.".toList = ' ' :: "$.".toList by decide]
      rw [e]
      simpa [printStmt] using Toks.sep (var_for1_toks self vs hvs _ _ (Toks.lex lex_v)) ws_sp (Toks.lex lex_dot)
  | .disj vs, h => by
      have hvs : ∀ x ∈ vs, Lex x := fun x hx => h x (by simp [printStmt, hx])
      have e : written (visit_Stmt self (ofStmt (.disj vs))) =
          ("$d".toList ++ written (postvisit_disjoint_statement_for1 self (vs.map MTerm.mv))) ++ ' ' :: "$.".toList := by
        simp [ofStmt, visit_Stmt, written_append, written_cons, written_nil, show " $.".toList = ' ' :: "$.".toList by decide]
      rw [e]
      simpa [printStmt] using Toks.sep (disj_for1_toks self vs hvs _ _ (Toks.lex lex_d)) ws_sp (Toks.lex lex_dot)
  | .float l tc v, h => by
      have hl : Lex l := h l (by simp [printStmt])
      have hts : ∀ x ∈ printTerms [MTerm.app tc [], MTerm.mv v], Lex x := fun x hx => h x (by
        simp [printTerms, printTerm] at hx; rcases hx with rfl | rfl <;> simp [printStmt])
      have := structured_toks self (ofStmt (.float l tc v)) l "$f" _ hl lex_f hts (by
        simp [ofStmt, postvisit_structured_statement, get_statement_type, isFloatingStatement, isProvableStatement, Stmt.label,
          Stmt.terms, hl.truthy, written_append, written_cons, written_nil, show " $.".toList = ' ' :: "$.".toList by decide,
          show " ".toList = [' '] by decide, show "$".toList = ['$'] by decide, show "f".toList = ['f'] by decide,
          show "$f".toList = ['$', 'f'] by decide])
      simpa [visit_Stmt, ofStmt, printStmt, printTerms, printTerm] using this
  | .ess l ts, h => by
      have hl : Lex l := h l (by simp [printStmt])
      have hts : ∀ x ∈ printTerms ts, Lex x := fun x hx => h x (by simp [printStmt, hx])
      have := structured_toks self (ofStmt (.ess l ts)) l "$e" _ hl lex_e hts (by
        simp [ofStmt, postvisit_structured_statement, get_statement_type, isFloatingStatement, isEssentialStatement,
          isProvableStatement, Stmt.label,
          Stmt.terms, hl.truthy, written_append, written_cons, written_nil, show " $.".toList = ' ' :: "$.".toList by decide,
          show " ".toList = [' '] by decide, show "$".toList = ['$'] by decide, show "e".toList = ['e'] by decide,
          show "$e".toList = ['$', 'e'] by decide])
      simpa [visit_Stmt, ofStmt, printStmt] using this
  | .ax l ts, h => by
      have hl : Lex l := h l (by simp [printStmt])
      have hts : ∀ x ∈ printTerms ts, Lex x := fun x hx => h x (by simp [printStmt, hx])
      have := structured_toks self (ofStmt (.ax l ts)) l "$a" _ hl lex_a hts (by
        simp [ofStmt, postvisit_structured_statement, get_statement_type, isFloatingStatement, isEssentialStatement,
          isAxiomaticStatement, isProvableStatement, Stmt.label,
          Stmt.terms, hl.truthy, written_append, written_cons, written_nil, show " $.".toList = ' ' :: "$.".toList by decide,
          show " ".toList = [' '] by decide, show "$".toList = ['$'] by decide, show "a".toList = ['a'] by decide,
          show "$a".toList = ['$', 'a'] by decide])
      simpa [visit_Stmt, ofStmt, printStmt] using this
  | .prov l ts pf, h => by
      have hl : Lex l := h l (by simp [printStmt])
      have hts : ∀ x ∈ printTerms ts, Lex x := fun x hx => h x (by simp [printStmt, hx])
      have hpf : ∀ x ∈ pf, Lex x := fun x hx => h x (by simp [printStmt, hx])
      have e : written (visit_Stmt self (ofStmt (.prov l ts pf))) =
          ((((l.toList ++ ' ' :: "$p".toList) ++ written (postvisit_structured_statement_for1 self ts)) ++ ' ' :: "$=".toList)
            ++ ' ' :: (pyJoin " " pf).toList) ++ ' ' :: "$.".toList := by
        simp [visit_Stmt, ofStmt, postvisit_structured_statement, get_statement_type, isFloatingStatement, isEssentialStatement,
          isAxiomaticStatement, isProvableStatement, Stmt.label, Stmt.proof, ho,
          Stmt.terms, hl.truthy, written_append, written_cons, written_nil, show " $.".toList = ' ' :: "$.".toList by decide,
          show " ".toList = [' '] by decide, show "$".toList = ['$'] by decide, show "p".toList = ['p'] by decide,
          show "$p".toList = ['$', 'p'] by decide, show " $= ".toList = [' ', '$', '=', ' '] by decide,
          show "$=".toList = ['$', '='] by decide]
      rw [e]
      have h1 := terms_for1_toks self ts hts _ _ (Toks.sep (Toks.lex hl) ws_sp (Toks.lex lex_p))
      have h2 := proof_string_toks pf hpf _ _ (Toks.sep h1 ws_sp (Toks.lex lex_eq))
      simpa [printStmt] using Toks.sep h2 ws_sp (Toks.lex lex_dot)
  | .block ss, h => by
      have hss : ∀ x ∈ printStmts ss, Lex x := fun x hx => h x (by simp [printStmt, hx])
      have e : written (visit_Stmt self (ofStmt (.block ss))) =
          "${".toList ++ ' ' :: (written (postvisit_block_for1 self (ofStmts ss) (ofStmts ss) 0) ++ "$}".toList) := by
        simp [ofStmt, visit_Stmt, written_append, written_cons, written_nil, written_indent, written_deindent,
          show "${ ".toList = ['$', '{', ' '] by decide,
          show "${".toList = ['$', '{'] by decide]
      rw [e]
      simpa [printStmt] using
        Toks.sep (Toks.lex lex_lb) ws_sp ((block_for1_toks self ho ss (ofStmts ss) 0 hss).then (Toks.lex lex_rb))
theorem block_for1_toks (self : Encoder) (ho : self.omit_proof = false) : ∀ (ss : List MStmt) (all : List Stmt) (i : Nat),
    (∀ x ∈ printStmts ss, Lex x) → TToks (written (postvisit_block_for1 self all (ofStmts ss) i)) (printStmts ss)
  | [], all, i, _ => by simpa [ofStmts, postvisit_block_for1, printStmts, written_nil] using TToks.nil
  | s :: ss, all, i, h => by
      have h1 := visit_Stmt_toks self ho s (fun x hx => h x (by simp [printStmts, hx]))
      have h2 := block_for1_toks self ho ss all (i + 1) (fun x hx => h x (by simp [printStmts, hx]))
      by_cases hi : i + 1 != all.length
      · have e : written (postvisit_block_for1 self all (ofStmts (s :: ss)) i) =
            (written (visit_Stmt self (ofStmt s)) ++ ['\n']) ++ written (postvisit_block_for1 self all (ofStmts ss) (i + 1)) := by
          simp [ofStmts, postvisit_block_for1, hi, written_append, written_cons, written_nil, show "\n".toList = ['\n'] by decide]
        rw [e]
        simpa [printStmts] using (h1.toT ws_nl).append h2
      · have e : written (postvisit_block_for1 self all (ofStmts (s :: ss)) i) =
            (written (visit_Stmt self (ofStmt s)) ++ [' ']) ++ written (postvisit_block_for1 self all (ofStmts ss) (i + 1)) := by
          simp [ofStmts, postvisit_block_for1, hi, written_append, written_cons, written_nil, show " ".toList = [' '] by decide]
        rw [e]
        simpa [printStmts] using (h1.toT ws_sp).append h2
end

theorem db_for1_toks (self : Encoder) (ho : self.omit_proof = false) : ∀ (ss : List MStmt), (∀ x ∈ printStmts ss, Lex x) →
    TToks (written (postvisit_database_for1 self (ofStmts ss))) (printStmts ss)
  | [], _ => by simpa [ofStmts, postvisit_database_for1, printStmts, written_nil] using TToks.nil
  | s :: ss, h => by
      have h1 := visit_Stmt_toks self ho s (fun x hx => h x (by simp [printStmts, hx]))
      have h2 := db_for1_toks self ho ss (fun x hx => h x (by simp [printStmts, hx]))
      have e : written (postvisit_database_for1 self (ofStmts (s :: ss))) =
          (written (visit_Stmt self (ofStmt s)) ++ ['\n']) ++ written (postvisit_database_for1 self (ofStmts ss)) := by
        simp [ofStmts, postvisit_database_for1, written_append, written_cons, written_nil, show "\n".toList = ['\n'] by decide]
      rw [e]
      simpa [printStmts] using (h1.toT ws_nl).append h2

/-- a term / a statement alone: followed by one blank (or a newline), the text is read as the model's tokens -/
theorem encode_term_tokens (self : Encoder) (t : MTerm) (h : ∀ x ∈ printTerm t, Lex x) :
    lexTokens (written (visit_Term self t) ++ [' ']) = printTerm t := by
  simpa [lexTokens, splitWs, splitAux] using visit_Term_toks self t h ' ' [] ws_sp

theorem encode_stmt_tokens (self : Encoder) (ho : self.omit_proof = false) (s : MStmt) (h : ∀ x ∈ printStmt s, Lex x) :
    lexTokens (written (visit_Stmt self (ofStmt s)) ++ ['\n']) = printStmt s := by
  simpa [lexTokens, splitWs, splitAux] using visit_Stmt_toks self ho s h '\n' [] ws_nl

/-- **the Encoder's text, split at the ignored characters, is the model's `printDb`** — for every database of the model whose
strings (labels, symbols, variables, proof tokens) are lexemes: non-empty, without ignored characters -/
theorem encode_tokens (self : Encoder) (ho : self.omit_proof = false) (db : MDb) (h : ∀ x ∈ printDb db, Lex x) :
    lexTokens (written (encode self (ofDb db))) = printDb db := by
  have := db_for1_toks self ho db h []
  simpa [lexTokens, encode, visit_Database, ofDb, printDb, splitWs, splitAux] using this

/-- **printing a parsed database and parsing the text again gives the same database** — for the GENERATED parser and Encoder:
`toks` = what the lexer delivered (lexemes), `F` any fuel ≥ their number; the text the Encoder writes (the concatenation of the
written strings) is lexed to the same tokens, and parsed to the same database -/
theorem print_parse_text (F : Nat) (toks : List String) (db : Database) (self : Encoder) (ho : self.omit_proof = false)
    (hlex : ∀ t ∈ toks, Lex t) (hF : toks.length ≤ F) (h : parse_database F toks = some db) :
    lexTokens (written (encode self db)) = toks ∧
    parse_database F (lexTokens (written (encode self db))) = some db := by
  rw [parse_database_eq F toks hF] at h
  simp only [Option.map_eq_some_iff] at h
  obtain ⟨mdb, hp, rfl⟩ := h
  have hpr := MM.print_parse toks mdb hp
  have ht : lexTokens (written (encode self (ofDb mdb))) = toks := by
    rw [encode_tokens self ho mdb (by rw [hpr]; exact hlex), hpr]
  refine ⟨ht, ?_⟩
  rw [ht, parse_database_eq F toks hF, hp]; rfl

/-! ## non-vacuity: the example of `Pi2/MM/AstThm.lean` through the generated parser and Encoder -/
theorem exToks_lex : ∀ t ∈ MM.exToks, Lex t := by
  have : MM.exToks.all lexB = true := by decide
  intro t ht
  exact List.all_eq_true.mp this t ht

set_option maxRecDepth 10000 in
theorem ex_parse : parse_database MM.exToks.length MM.exToks = some (ofDb MM.exDb) := by
  rw [parse_database_eq _ _ (Nat.le_refl _)]
  have : parseDb MM.exToks = some MM.exDb := by rfl
  rw [this]; rfl

theorem ex_roundtrip :
    lexTokens (written (encode Encoder.new (ofDb MM.exDb))) = MM.exToks ∧
    parse_database MM.exToks.length (lexTokens (written (encode Encoder.new (ofDb MM.exDb)))) = some (ofDb MM.exDb) :=
  print_parse_text _ _ _ Encoder.new rfl exToks_lex (Nat.le_refl _) ex_parse

/-- the parser rejects something: `l $a ( a ) $.` (`assert i > 2`) and a `$c` without constants -/
theorem ex_rejects : parse_database 6 ["x", "$a", "(", "a", ")", "$."] = none ∧ parse_database 2 ["$c", "$."] = none := by
  constructor <;> (rw [parse_database_eq _ _ (by simp)]; rfl)

end AstTie

#print axioms AstTie.parse_terms_eq
#print axioms AstTie.parse_term_eq
#print axioms AstTie.g_stmt_eq
#print axioms AstTie.genStmts_eq
#print axioms AstTie.parse_database_eq
#print axioms AstTie.visit_Term_toks
#print axioms AstTie.visit_Stmt_toks
#print axioms AstTie.encode_tokens
#print axioms AstTie.proof_string_tokens
#print axioms AstTie.print_parse_text
