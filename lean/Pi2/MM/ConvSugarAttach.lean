import Pi2.MM.ConvSugarCtors
/-!
# `dbOfMDb` on databases of the shape `FragmentShape`: `attachAll` succeeds and the result is well formed

`spec_wf`: for a database of the shape (its clause `headsPlain` — the `#Notation` heads are neither `\imp` nor `\app` — is used: a
`#Notation` statement for `\imp` is rejected by `attach`: `Pi2/Props/C16c.lean`, `notation_for_imp_rejected`), the
specification `dbOfMDb` is the core specification of the database without its `#Notation` statements, with another constructor table
`db.ctors` that differs in the bodies only, and `DB.wf` holds.
-/
set_option linter.unusedSimpArgs false
set_option linter.unusedVariables false
set_option linter.unnecessarySimpa false
set_option linter.unusedSectionVars false
open MM SliceSup ConvSup Gen.MMConv

namespace ConvCoh
open ConvSpec ConvTie

/-- (head, variables) of the constructor axioms, in order -/
def ctorPairs (mdb : MDb) : List (String × List String) := (mdb.filterMap ctorHeadOf).map fun p => (p.1, (mvNames p.2).getD [])

/-- what `sugarShape` says of the `#Notation` statements, as a predicate on their list -/
def SugOK (K heads : List String) (P : List (String × List String)) : List String → List Sugar → Prop
  | _, [] => True
  | seen, sg :: r => (∃ vs, mvNames sg.2.2.1 = some vs ∧ (sg.2.1, vs) ∈ P ∧ termShape K vs sg.2.2.2 = true) ∧
      (∀ h ∈ headsOf sg.2.2.2, h ∈ seen ∨ h ∉ heads) ∧ SugOK K heads P (seen ++ [sg.2.1]) r

theorem sugOK_of_shape (K heads : List String) (P : List (String × List String)) : ∀ (mdb : MDb) (cs : List (String × List String))
    (seen : List String), sugarShape K heads cs seen mdb = true → (∀ p ∈ cs, p ∈ P) → (∀ p ∈ ctorPairs mdb, p ∈ P) →
    SugOK K heads P seen (sugarsOf mdb) := by
  intro mdb
  induction mdb with
  | nil => intro _ _ _ _ _; trivial
  | cons st r ih =>
    intro cs seen h hcs hP
    unfold sugarShape at h
    cases hs : sugarOf st with
    | some sg =>
      obtain ⟨l, n, args, body⟩ := sg
      rw [hs] at h
      simp only [Bool.and_eq_true] at h
      obtain ⟨⟨h1, h2⟩, h3⟩ := h
      have hsug : sugarsOf (st :: r) = (l, n, args, body) :: sugarsOf r := by simp [sugarsOf, List.filterMap_cons, hs]
      have hpairs : ctorPairs (st :: r) = ctorPairs r := by
        simp [ctorPairs, List.filterMap_cons, ctorHeadOf_sugar (st := st) (by simp [isSugar, hs])]
      rw [hpairs] at hP
      rw [hsug]
      refine ⟨?_, ?_, ih cs _ h3 hcs hP⟩
      · cases hm : mvNames args with
        | none => simp [hm] at h1
        | some vs =>
          simp only [hm, Bool.and_eq_true, beq_iff_eq] at h1
          obtain ⟨q, hq, hq2⟩ := List.map_eq_singleton_iff.mp h1.1
          have hqm : q ∈ cs.filter (·.1 == n) := by rw [hq]; simp
          obtain ⟨hqcs, hqn⟩ := List.mem_filter.mp hqm
          have : q = (n, vs) := by
            have : q.1 = n := by simpa using hqn
            rw [← this, ← hq2]
          exact ⟨vs, rfl, hcs _ (this ▸ hqcs), h1.2⟩
      · intro hd hhd
        have := (List.all_eq_true.mp h2) hd hhd
        simpa using this
    | none =>
      rw [hs] at h
      have hsug : sugarsOf (st :: r) = sugarsOf r := by simp [sugarsOf, List.filterMap_cons, hs]
      rw [hsug]
      cases hc : ctorHeadOf st with
      | some p =>
        obtain ⟨s, args⟩ := p
        rw [hc] at h
        have hpairs : ctorPairs (st :: r) = (s, (mvNames args).getD []) :: ctorPairs r := by
          simp [ctorPairs, List.filterMap_cons, hc]
        rw [hpairs] at hP
        refine ih _ seen h ?_ (fun p hp => hP p (by simp [hp]))
        intro p hp
        rcases List.mem_append.mp hp with hp | hp
        · exact hcs p hp
        · simp only [List.mem_singleton] at hp
          subst hp
          exact hP _ (by simp)
      | none =>
        rw [hc] at h
        have hpairs : ctorPairs (st :: r) = ctorPairs r := by simp [ctorPairs, List.filterMap_cons, hc]
        rw [hpairs] at hP
        exact ih cs seen h hcs hP

/-! ## the symbols of a translated term -/
mutual
theorem syms_of_termOf (nm : Names) : (t : MTerm) → (T : MM.Term) → termOf nm t = some T →
    ∀ s ∈ T.syms, ∃ h ∈ headsOf t, h ∈ nm.consts ∧ s = nm.consts.idxOf h
  | .mv v, T, h => by
    simp only [termOf, Option.map_eq_some_iff] at h
    obtain ⟨_, _, rfl⟩ := h
    intro s hs
    simp [Term.syms] at hs
  | .app s args, T, h => by
    unfold termOf at h
    by_cases h1 : s = "\\imp"
    · subst h1
      simp only [if_true] at h
      match args, h with
      | [a, b], h =>
        cases ha : termOf nm a with
        | none => simp [ha] at h
        | some A =>
          cases hb : termOf nm b with
          | none => simp [ha, hb] at h
          | some B =>
            simp [ha, hb] at h
            subst h
            have hl := symsList_of_termsOf nm [a, b] [A, B] (by simp [termsOf, ha, hb])
            intro s hs
            obtain ⟨h', hh', hK, rfl⟩ := hl s (by simpa [Term.syms, Term.symsList] using hs)
            exact ⟨h', by simp [headsOf, hh'], hK, rfl⟩
      | [], h => simp at h
      | [_], h => simp at h
      | _ :: _ :: _ :: _, h => simp at h
    · by_cases h2 : s = "\\app"
      · subst h2
        simp only [h1, if_false, if_true] at h
        match args, h with
        | [a, b], h =>
          cases ha : termOf nm a with
          | none => simp [ha] at h
          | some A =>
            cases hb : termOf nm b with
            | none => simp [ha, hb] at h
            | some B =>
              simp [ha, hb] at h
              subst h
              have hl := symsList_of_termsOf nm [a, b] [A, B] (by simp [termsOf, ha, hb])
              intro s hs
              obtain ⟨h', hh', hK, rfl⟩ := hl s (by simpa [Term.syms, Term.symsList] using hs)
              exact ⟨h', by simp [headsOf, hh'], hK, rfl⟩
        | [], h => simp at h
        | [_], h => simp at h
        | _ :: _ :: _ :: _, h => simp at h
      · simp only [h1, h2, if_false] at h
        split at h
        · cases h
        · cases hc : nm.con? s with
          | none => simp [hc] at h
          | some c =>
            cases hts : termsOf nm args with
            | none => simp [hc, hts] at h
            | some Ts =>
              simp [hc, hts] at h
              subst h
              have hl := symsList_of_termsOf nm args Ts hts
              have hcK : s ∈ nm.consts ∧ c = nm.consts.idxOf s := by
                unfold Names.con? at hc
                split at hc
                · rename_i hK
                  simp only [Option.some.injEq] at hc
                  exact ⟨by simpa using hK, hc.symm⟩
                · cases hc
              intro s' hs'
              simp only [Term.syms, List.mem_cons] at hs'
              rcases hs' with rfl | hs'
              · exact ⟨s, by simp [headsOf], hcK.1, hcK.2⟩
              · obtain ⟨h', hh', hK, rfl⟩ := hl s' hs'
                exact ⟨h', by simp [headsOf, hh'], hK, rfl⟩
theorem symsList_of_termsOf (nm : Names) : (ts : List MTerm) → (Ts : List MM.Term) → termsOf nm ts = some Ts →
    ∀ s ∈ Term.symsList Ts, ∃ h ∈ headsOfL ts, h ∈ nm.consts ∧ s = nm.consts.idxOf h
  | [], Ts, h => by
    simp [termsOf] at h
    subst h
    intro s hs
    simp [Term.symsList] at hs
  | t :: ts, Ts, h => by
    simp only [termsOf] at h
    cases h1 : termOf nm t with
    | none => simp [h1] at h
    | some T =>
      cases h2 : termsOf nm ts with
      | none => simp [h1, h2] at h
      | some Ts' =>
        simp [h1, h2] at h
        subst h
        intro s hs
        simp only [Term.symsList, List.mem_append] at hs
        rcases hs with hs | hs
        · obtain ⟨h', hh', hK, rfl⟩ := syms_of_termOf nm t T h1 s hs
          exact ⟨h', by simp [headsOfL, hh'], hK, rfl⟩
        · obtain ⟨h', hh', hK, rfl⟩ := symsList_of_termsOf nm ts Ts' h2 s hs
          exact ⟨h', by simp [headsOfL, hh'], hK, rfl⟩
end

/-! ## the translated `#Notation` statements -/
section
variable (nm : Names) (fs heads : List String) (L : List (String × List MTerm))
  (hfsV : ∀ v ∈ fs, v ∈ nm.vars) (hres : ∀ v ∈ fs, reserved v = false)
  (hL : ∀ p ∈ L, ∃ vs, mvNames p.2 = some vs ∧ (∀ v ∈ vs, v ∈ fs) ∧ (plainP p = true → p.1 ∈ nm.consts ∧ reserved p.1 = false))
  (hplain : ∀ n ∈ heads, n ≠ "\\imp" ∧ n ≠ "\\app")
include hfsV hres hL hplain

theorem entries_of_sugOK : ∀ (sgs : List Sugar) (seen : List String),
    SugOK nm.consts heads (L.map fun p => (p.1, (mvNames p.2).getD [])) seen sgs → (∀ sg ∈ sgs, sg.2.1 ∈ heads) →
    ∃ es, sgs.mapM (sugarEntry nm) = some es ∧ es.map (·.1) = (sgs.map (·.2.1)).map nm.consts.idxOf ∧
      (∀ e ∈ es, ∃ p ∈ L, plainP p = true ∧ p.1 ∈ heads ∧ (toC nm p).sym = e.1 ∧ (toC nm p).args = e.2.1) ∧
      (∀ e ∈ es, ∀ v ∈ e.2.2.vars, v ∈ e.2.1) ∧
      SymsOK (heads.map nm.consts.idxOf) (seen.map nm.consts.idxOf) (es.map fun e => (e.1, e.2.2)) := by
  intro sgs
  induction sgs with
  | nil => intro seen _ _; exact ⟨[], rfl, rfl, by simp, by simp, trivial⟩
  | cons sg sgs ih =>
    intro seen hok hheads
    obtain ⟨l, n, args, body⟩ := sg
    obtain ⟨⟨vs, hvs, hP, hts⟩, hhd, hrest⟩ := hok
    simp only at hvs hP hts hhd hrest
    have hnh : n ∈ heads := hheads (l, n, args, body) (by simp)
    obtain ⟨es, hes, hkeys, hents, hvars, hsyms⟩ := ih (seen ++ [n]) hrest (fun sg hsg => hheads sg (by simp [hsg]))
    obtain ⟨p, hpL, hpe⟩ := List.mem_map.mp hP
    simp only [Prod.mk.injEq] at hpe
    obtain ⟨hp1, hp2⟩ := hpe
    obtain ⟨vs', hvs', hvfs, hpl⟩ := hL p hpL
    have hpp : plainP p = true := by
      have := hplain n hnh
      simp [plainP, hp1, this.1, this.2]
    obtain ⟨hnK, hnres⟩ := hpl hpp
    rw [hp1] at hnK
    rw [hvs', Option.getD_some] at hp2
    subst hp2
    have hvV : ∀ v ∈ vs', v ∈ nm.vars := fun v hv => hfsV v (hvfs v hv)
    have hvR : ∀ v ∈ vs', reserved v = false := fun v hv => hres v (hvfs v hv)
    have hargs := mvNames_spec args vs' hvs
    obtain ⟨b, hb⟩ := termOf_of_shape nm vs' hvV body hts
    have hentry : sugarEntry nm (l, n, args, body) = some (nm.consts.idxOf n, vs'.map nm.vars.idxOf, b) := by
      have hmm : (vs'.map fun v => MM.Term.var (nm.vars.idxOf v)) = (vs'.map nm.vars.idxOf).map .var := by
        rw [List.map_map]; rfl
      simp only [sugarEntry, Names.con?, List.contains_eq_mem, hnK, decide_true, if_true, hargs, termsOf_mvs nm vs' hvV, hmm,
        asVars_vars, hb, Option.bind_eq_bind, Option.bind_some, Option.pure_def]
    refine ⟨(nm.consts.idxOf n, vs'.map nm.vars.idxOf, b) :: es, ?_, ?_, ?_, ?_, ?_⟩
    · exact (mapM_cons_some _ _ _ _).mpr ⟨_, es, hentry, hes, rfl⟩
    · simp [hkeys]
    · intro e he
      rcases List.mem_cons.mp he with rfl | he
      · exact ⟨p, hpL, hpp, hp1 ▸ hnh, by simp [toC, hp1], by simp [toC, hvs']⟩
      · exact hents e he
    · intro e he
      rcases List.mem_cons.mp he with rfl | he
      · intro v hv
        obtain ⟨e1, _⟩ := vars_of_termOf nm (tsize body) body b (Nat.le_refl _) hb
        obtain ⟨_, hm⟩ := wfT_of_shape nm.consts vs' hvR body hts
        simp only at hv ⊢
        rw [e1] at hv
        obtain ⟨w, hw, rfl⟩ := List.mem_map.mp hv
        exact List.mem_map.mpr ⟨w, hm w hw, rfl⟩
      · exact hvars e he
    · simp only [List.map_cons]
      refine ⟨?_, by simpa using hsyms⟩
      intro s hs
      obtain ⟨h', hh', hK, rfl⟩ := syms_of_termOf nm body b hb s hs
      rcases hhd h' hh' with hsn | hnot
      · exact Or.inl (List.mem_map.mpr ⟨h', hsn, rfl⟩)
      · right
        intro hm
        obtain ⟨h'', hh'', he⟩ := List.mem_map.mp hm
        have := str_idxOf_inj nm.consts h' h'' hK he.symm
        exact hnot (this ▸ hh'')

end

/-! ## positions -/
theorem filter_map_idxOf (K A B : List String) (hA : ∀ a ∈ A, a ∈ K) :
    (A.map K.idxOf).filter (B.map K.idxOf).contains = (A.filter B.contains).map K.idxOf := by
  rw [List.filter_map]
  congr 1
  apply List.filter_congr
  intro a ha
  simp only [Function.comp, List.contains_eq_mem]
  by_cases hb : a ∈ B
  · have : K.idxOf a ∈ B.map K.idxOf := List.mem_map.mpr ⟨a, hb, rfl⟩
    simp [hb, this]
  · have : K.idxOf a ∉ B.map K.idxOf := by
      intro hm
      obtain ⟨b, hbB, he⟩ := List.mem_map.mp hm
      have := str_idxOf_inj K a b (hA a ha) he.symm
      exact hb (this ▸ hbB)
    simp [hb, this]

theorem wf0_ctors (db : DB) (f : Ctor → Ctor) (hf : ∀ k, (f k).args = k.args) :
    ({ db with ctors := db.ctors.map f } : DB).wf0 = db.wf0 := by
  unfold DB.wf0
  simp only [List.all_map, Function.comp_def, hf]

/-- **`dbOfMDb` on a database of the shape**: the core specification of the database without its `#Notation` statements, with a
constructor table that differs in the bodies only; the database is well formed -/
theorem spec_wf (mdb : MDb) (target : String) (h : FragmentShape mdb target = true) :
    ∃ sp0 db, dbOfCore (coreOf mdb) target = some sp0 ∧ Coherent (coreOf mdb) target sp0 ∧
      dbOfMDb mdb target = some { sp0 with db := db } ∧
      (∃ f : Ctor → Ctor, (∀ k, (f k).sym = k.sym ∧ (f k).args = k.args) ∧ db = { sp0.db with ctors := sp0.db.ctors.map f }) ∧
      db.wf = true := by
  have hp : headsPlain mdb = true := headsPlain_of_fragmentShape h
  simp only [FragmentShape, Bool.and_eq_true, decide_eq_true_eq, List.all_eq_true, beq_iff_eq] at h
  obtain ⟨⟨⟨⟨⟨⟨⟨hcore, _⟩, hhnd⟩, hcount⟩, hordS⟩, hsug⟩, _⟩, _⟩ := h
  obtain ⟨sp, hsp, hcoh, hwf⟩ := coherence (coreOf mdb) target hcore
  have S := shaped_of hcore
  obtain ⟨hnm, hct, hbodies⟩ := ctors_of_core hcore hsp
  rw [namesOf_coreOf] at hnm
  rw [ctorHeads_coreOf, namesOf_coreOf] at hct
  have hLf := ctorHead_facts S
  rw [ctorHeads_coreOf, constsOf_coreOf] at hLf
  -- abbreviations
  generalize hLdef : mdb.filterMap ctorHeadOf = L at hct hLf hcount hordS
  generalize hfsdef : (floatsOf (coreOf mdb)).map (·.2) = fs at hLf
  have hfsV : ∀ v ∈ fs, v ∈ (namesOf mdb).vars := by
    intro v hv
    have := fs_declared S v (hfsdef ▸ hv)
    rwa [namesOf_coreOf] at this
  have hres : ∀ v ∈ fs, reserved v = false := fun v hv => fs_unreserved S v (hfsdef ▸ hv)
  have hplain : ∀ n ∈ (sugarsOf mdb).map (·.2.1), n ≠ "\\imp" ∧ n ≠ "\\app" := by
    intro n hn
    obtain ⟨sg, hsg, rfl⟩ := List.mem_map.mp hn
    have := (List.all_eq_true.mp hp) sg hsg
    simpa using this
  have hsok := sugOK_of_shape (constsOf mdb) ((sugarsOf mdb).map (·.2.1)) (ctorPairs mdb) mdb [] [] hsug (by simp) (fun p hp => hp)
  rw [ctorPairs, hLdef] at hsok
  obtain ⟨es, hes, hkeys, hents, hvars, hsyms⟩ := entries_of_sugOK (namesOf mdb) fs _ L hfsV hres hLf hplain (sugarsOf mdb) [] hsok
    (fun sg hsg => List.mem_map.mpr ⟨sg, hsg, rfl⟩)
  generalize hheads : (sugarsOf mdb).map (·.2.1) = heads at *
  generalize hK : (namesOf mdb).consts = K at *
  have hKc : constsOf mdb = K := hK
  -- the constructor table
  have hLpK : ∀ p ∈ L.filter plainP, p.1 ∈ K := by
    intro p hp
    obtain ⟨hpL, hpp⟩ := List.mem_filter.mp hp
    obtain ⟨_, _, _, hh⟩ := hLf p hpL
    exact hKc ▸ (hh hpp).1
  have hheadsK : ∀ n ∈ heads, n ∈ K ∧ (L.filter (·.1 == n)).length = 1 := by
    intro n hn
    have hc := hcount n hn
    rw [List.filter_map, List.length_map] at hc
    have hc' : (L.filter (·.1 == n)).length = 1 := hc
    refine ⟨?_, hc'⟩
    obtain ⟨q, hq⟩ := List.length_eq_one_iff.mp hc'
    have hqm : q ∈ L.filter (·.1 == n) := by rw [hq]; simp
    obtain ⟨hqL, hqn⟩ := List.mem_filter.mp hqm
    have hqn' : q.1 = n := by simpa using hqn
    have hqp : plainP q = true := by
      have := hplain n hn
      simp [plainP, hqn', this.1, this.2]
    exact hqn' ▸ hLpK q (List.mem_filter.mpr ⟨hqL, hqp⟩)
  have hfilt : ∀ n ∈ heads, sp.db.ctors.filter (·.sym == K.idxOf n) = (L.filter (·.1 == n)).map (toC (namesOf mdb)) := by
    intro n hn
    rw [hct, List.filter_map, List.filter_filter]
    congr 1
    apply List.filter_congr
    intro p hpL
    simp only [Function.comp, toC, hK]
    by_cases hpn : p.1 = n
    · have := hplain n hn
      simp [hpn, plainP, this.1, this.2]
    · have hb : (p.1 == n) = false := by simpa using hpn
      rw [hb]
      by_cases hpp : plainP p = true
      · have hpK := hLpK p (List.mem_filter.mpr ⟨hpL, hpp⟩)
        have : K.idxOf p.1 ≠ K.idxOf n := idx_ne K _ _ hpK hpn
        simp [this]
      · simp [hpp]
  have hone : ∀ e ∈ es, ∃ k, sp.db.ctors.filter (·.sym == e.1) = [k] ∧ k.args = e.2.1 ∧ k.body = none := by
    intro e he
    obtain ⟨p, hpL, hpp, hph, hs, ha⟩ := hents e he
    obtain ⟨_, hlen⟩ := hheadsK p.1 hph
    have hf := hfilt p.1 hph
    have hsym : e.1 = K.idxOf p.1 := by rw [← hs]; simp [toC, hK]
    rw [← hsym] at hf
    obtain ⟨q, hq⟩ := List.length_eq_one_iff.mp hlen
    have hpm : p ∈ L.filter (·.1 == p.1) := List.mem_filter.mpr ⟨hpL, by simp⟩
    rw [hq] at hpm
    simp only [List.mem_singleton] at hpm
    subst hpm
    rw [hq] at hf
    exact ⟨toC (namesOf mdb) p, hf, ha, rfl⟩
  have hkeys' : es.map (·.1) = heads.map K.idxOf := hkeys
  have hnd : (es.map (·.1)).Nodup := by
    rw [hkeys']
    exact nodup_map_idxOf K heads hhnd (fun n hn => (hheadsK n hn).1)
  have hatt := attachAll_spec (namesOf mdb) (sugarsOf mdb) es sp.db hes hnd hone
  generalize hN : (es.map fun e => (e.1, e.2.2)) = N at hatt hsyms
  have hNk : N.map (·.1) = heads.map K.idxOf := by
    rw [← hN, List.map_map, ← hkeys']
    rfl
  refine ⟨sp, { sp.db with ctors := sp.db.ctors.map (dress1 N) }, hsp, hcoh, ?_, ⟨dress1 N, fun k => ⟨dress1_sym N k, dress1_args N k⟩, rfl⟩, ?_⟩
  · unfold dbOfMDb
    rw [hsp]
    simp only [Option.bind_eq_bind, Option.bind_some, hnm, hatt, Option.pure_def]
  · unfold DB.wf
    rw [wf0_ctors _ _ (dress1_args N)]
    have hwf0 : sp.db.wf0 = true := by
      unfold DB.wf at hwf
      simp only [Bool.and_eq_true] at hwf
      exact hwf.1
    rw [hwf0, Bool.true_and]
    apply notOk_dress _ sp.db.ctors N rfl hbodies (by rw [hNk, ← hkeys']; exact hnd)
    · intro p hpN
      rw [← hN] at hpN
      obtain ⟨e, he, rfl⟩ := List.mem_map.mp hpN
      obtain ⟨k, hk, _, _⟩ := hone e he
      simp only [hk, List.length_singleton]
    · rw [hNk, hct]
      have : ((L.filter plainP).map (toC (namesOf mdb))).map (·.sym) = ((L.filter plainP).map (·.1)).map K.idxOf := by
        simp only [List.map_map]
        apply List.map_congr_left
        intro p _
        simp [toC, hK]
      rw [this, filter_map_idxOf K _ heads (by
        intro a ha
        obtain ⟨p, hp, rfl⟩ := List.mem_map.mp ha
        exact hLpK p hp)]
      congr 1
      have h2 : (L.filter plainP).map (·.1) = (L.map (·.1)).filter fun s => !(s == "\\imp" || s == "\\app") := by
        rw [List.filter_map]
        rfl
      rw [h2, List.filter_filter]
      refine Eq.trans ?_ hordS
      apply List.filter_congr
      intro s _
      by_cases hs : s ∈ heads
      · have := hplain s hs
        simp [hs, this.1, this.2]
      · simp [hs]
    · intro p hpN k hk hks v hv
      rw [← hN] at hpN
      obtain ⟨e, he, rfl⟩ := List.mem_map.mp hpN
      obtain ⟨k0, hk0, hargs, _⟩ := hone e he
      have : k ∈ sp.db.ctors.filter (·.sym == e.1) := List.mem_filter.mpr ⟨hk, by simpa using hks⟩
      rw [hk0] at this
      simp only [List.mem_singleton] at this
      subst this
      rw [hargs]
      exact hvars e he v hv
    · rw [hNk]
      simpa using hsyms

end ConvCoh
