import Pi2.MM.SliceVerify
/-!
# `slice_verifies`: non-vacuity, and the two repaired defects of the slicer as regression facts
-/
namespace MM
namespace SliceEx

def T (s : String) : MTerm := .app s []
def imp (a b : MTerm) : MTerm := .app "->" [a, b]
def all (x a : MTerm) : MTerm := .app "A." [x, a]
def p : MTerm := .mv "p"
def q : MTerm := .mv "q"
def x : MTerm := .mv "x"

/-- a database with top-level `$d`, rules with `$e` hypotheses in blocks (`mp`, `ag`; `ag` has the mandatory
condition `$d x p`), and two lemmas with a hypothesis each; `th2` uses `th1`:
```
$c ( ) -> A. wff set |- $.   $v p q x $.
wp $f wff p $.  wq $f wff q $.  vx $f set x $.
$d x p $.  $d x q $.
wi $a wff ( -> p q ) $.
ax1 $a |- ( -> p ( -> q p ) ) $.
${ mp.1 $e |- p $.  mp.2 $e |- ( -> p q ) $.  mp $a |- q $. $}
${ ag.1 $e |- p $.  ag $a |- ( A. x p ) $. $}
${ th1.1 $e |- p $.  th1 $p |- ( A. x ( -> q p ) ) $= ( wi ax1 mp ag ) BAECABAEDABFGH $. $}
${ th2.1 $e |- p $.  th2 $p |- ( A. x ( -> p p ) ) $= ( th1 ) AABCD $. $}
``` -/
def exDb : MDb :=
  [.const ["(", ")", "->", "A.", "wff", "set", "|-"],
   .var ["p", "q", "x"],
   .float "wp" "wff" "p", .float "wq" "wff" "q", .float "vx" "set" "x",
   .disj ["x", "p"], .disj ["x", "q"],
   .ax "wi" [T "wff", imp p q],
   .ax "ax1" [T "|-", imp p (imp q p)],
   .block [.ess "mp.1" [T "|-", p], .ess "mp.2" [T "|-", imp p q], .ax "mp" [T "|-", q]],
   .block [.ess "ag.1" [T "|-", p], .ax "ag" [T "|-", all x p]],
   .block [.ess "th1.1" [T "|-", p],
           .prov "th1" [T "|-", all x (imp q p)] ["(", "wi", "ax1", "mp", "ag", ")", "BAECABAEDABFGH"]],
   .block [.ess "th2.1" [T "|-", p],
           .prov "th2" [T "|-", all x (imp p p)] ["(", "th1", ")", "AABCD"]]]

/-- all hypotheses of the theorem hold -/
theorem exDb_wf : WellFormedDb exDb := wellFormedDb_of_decide (by decide +kernel)

theorem exDb_th1 : verifyLemma exDb "th1" = true := by decide +kernel
theorem exDb_th2 : verifyLemma exDb "th2" = true := by decide +kernel
theorem exDb_all : verifyDb exDb = true := by decide +kernel

/-- the slice of `th1`, as the slicer prints it (`$c` and `$v` sorted): everything `th1` cites, the two `$d` at their place -/
def exSl1 : MDb :=
  [.const ["#ElementVariable", "#Pattern", "#SetVariable", "#Symbol", "#Variable", "(", ")", "->", "A.", "set",
           "wff", "|-"],
   .var ["p", "q", "x"],
   .float "wp" "wff" "p", .float "wq" "wff" "q", .float "vx" "set" "x",
   .disj ["x", "p"], .disj ["x", "q"],
   .ax "wi" [T "wff", imp p q],
   .ax "ax1" [T "|-", imp p (imp q p)],
   .block [.ess "mp.1" [T "|-", p], .ess "mp.2" [T "|-", imp p q], .ax "mp" [T "|-", q]],
   .block [.ess "ag.1" [T "|-", p], .ax "ag" [T "|-", all x p]],
   .block [.ess "th1.1" [T "|-", p],
           .prov "th1" [T "|-", all x (imp q p)] ["(", "wi", "ax1", "mp", "ag", ")", "BAECABAEDABFGH"]]]

/-- the slice of `th2`: `th1` has become an axiom with its hypothesis, the two `$d` are kept, `wi`, `ax1`, `mp`, `ag`
are gone -/
def exSl2 : MDb :=
  [.const ["#ElementVariable", "#Pattern", "#SetVariable", "#Symbol", "#Variable", "(", ")", "->", "A.", "set",
           "wff", "|-"],
   .var ["p", "q", "x"],
   .float "wp" "wff" "p", .float "wq" "wff" "q", .float "vx" "set" "x",
   .disj ["x", "p"], .disj ["x", "q"],
   .block [.ess "th1.1" [T "|-", p], .ax "th1" [T "|-", all x (imp q p)]],
   .block [.ess "th2.1" [T "|-", p],
           .prov "th2" [T "|-", all x (imp p p)] ["(", "th1", ")", "AABCD"]]]

/-- `List.mergeSort` is defined by well-founded recursion and does not reduce: the unsorted `$c` / `$v` lists are
named, the sorting is evaluated with `simp` -/
theorem exDb_sliced_raw : ∃ L1 V1 L2 V2, sliceDatabase exDb [] ["th1", "th2"] [] = some
      [("th1", .const (sortDedup L1) :: .var (sortDedup V1) :: exSl1.drop 2),
       ("th2", .const (sortDedup L2) :: .var (sortDedup V2) :: exSl2.drop 2)] ∧
    L1 = ["(", ")", "#Variable", "#ElementVariable", "#SetVariable", "#Pattern", "#Symbol", "|-", "A.", "->", "|-",
      "wff", "->", "|-", "->", "->", "|-", "|-", "->", "|-", "|-", "|-", "A.", "wff", "wff", "set"] ∧
    V1 = ["x", "q", "p", "p", "p", "q", "p", "q", "p", "p", "p", "q", "q", "p", "x", "p"] ∧
    L2 = ["(", ")", "#Variable", "#ElementVariable", "#SetVariable", "#Pattern", "#Symbol", "|-", "A.", "->", "|-",
      "|-", "|-", "A.", "->", "wff", "wff", "set"] ∧
    V2 = ["x", "p", "p", "p", "p", "x", "q", "p"] :=
  ⟨_, _, _, _, rfl, rfl, rfl, rfl, rfl⟩

/-- the slices the slicer produces -/
theorem exDb_slices : sliceDatabase exDb [] ["th1", "th2"] [] = some [("th1", exSl1), ("th2", exSl2)] := by
  obtain ⟨L1, V1, L2, V2, h, rfl, rfl, rfl, rfl⟩ := exDb_sliced_raw
  have c1 : sortDedup ["(", ")", "#Variable", "#ElementVariable", "#SetVariable", "#Pattern", "#Symbol", "|-", "A.",
      "->", "|-", "wff", "->", "|-", "->", "->", "|-", "|-", "->", "|-", "|-", "|-", "A.", "wff", "wff", "set"] =
      ["#ElementVariable", "#Pattern", "#SetVariable", "#Symbol", "#Variable", "(", ")", "->", "A.", "set", "wff",
       "|-"] := by
    unfold sortDedup; simp [List.mergeSort, List.MergeSort.Internal.splitInTwo]; decide
  have v1 : sortDedup ["x", "q", "p", "p", "p", "q", "p", "q", "p", "p", "p", "q", "q", "p", "x", "p"] =
      ["p", "q", "x"] := by
    unfold sortDedup; simp [List.mergeSort, List.MergeSort.Internal.splitInTwo]; decide
  have c2 : sortDedup ["(", ")", "#Variable", "#ElementVariable", "#SetVariable", "#Pattern", "#Symbol", "|-", "A.",
      "->", "|-", "|-", "|-", "A.", "->", "wff", "wff", "set"] =
      ["#ElementVariable", "#Pattern", "#SetVariable", "#Symbol", "#Variable", "(", ")", "->", "A.", "set", "wff",
       "|-"] := by
    unfold sortDedup; simp [List.mergeSort, List.MergeSort.Internal.splitInTwo]; decide
  have v2 : sortDedup ["x", "p", "p", "p", "p", "x", "q", "p"] = ["p", "q", "x"] := by
    unfold sortDedup; simp [List.mergeSort, List.MergeSort.Internal.splitInTwo]; decide
  rw [h, c1, v1, c2, v2]
  rfl

/-- non-vacuity of `slice_verifies`: its hypotheses hold for `exDb` and the slice of `th2`, so the slice verifies … -/
theorem exSl2_verifies : verifyLemma exSl2 "th2" = true :=
  slice_verifies exDb_wf exDb_slices (by simp) exDb_th2

theorem exSl1_verifies : verifyLemma exSl1 "th1" = true :=
  slice_verifies exDb_wf exDb_slices (by simp) exDb_th1

/-- … which can also be computed -/
example : verifyLemma exSl2 "th2" = true := by decide +kernel
example : verifyLemma exSl1 "th1" = true := by decide +kernel

/-! ## the two defects found while proving `slice_verifies`, repaired in the slicer: regression facts -/

/-- (1) a top-level `$d` AFTER an axiom over both variables, which the lemma uses with equal variables.  The slicer
used to move every top-level `$d` to the front of the slice, where `ax1` acquired the condition `$d x y`:
```
$c |- ( ) foo #Pattern $.  $v x y z $.
x-f $f #Pattern x $.  y-f $f #Pattern y $.  z-f $f #Pattern z $.
ax1 $a |- ( foo x y ) $.
$d x y $.
th $p |- ( foo z z ) $= ( ax1 ) AAB $.
``` -/
def cexDb : MDb :=
  [.const ["|-", "(", ")", "foo", "#Pattern"],
   .var ["x", "y", "z"],
   .float "x-f" "#Pattern" "x", .float "y-f" "#Pattern" "y", .float "z-f" "#Pattern" "z",
   .ax "ax1" [T "|-", .app "foo" [.mv "x", .mv "y"]],
   .disj ["x", "y"],
   .prov "th" [T "|-", .app "foo" [.mv "z", .mv "z"]] ["(", "ax1", ")", "AAB"]]

/-- the slice the repaired slicer cuts for `th`: the `$d` stays behind `ax1` -/
def cexSl : MDb :=
  [.const ["#ElementVariable", "#Pattern", "#SetVariable", "#Symbol", "#Variable", "(", ")", "foo", "|-"],
   .var ["x", "y", "z"],
   .float "x-f" "#Pattern" "x", .float "y-f" "#Pattern" "y", .float "z-f" "#Pattern" "z",
   .ax "ax1" [T "|-", .app "foo" [.mv "x", .mv "y"]],
   .disj ["x", "y"],
   .block [.prov "th" [T "|-", .app "foo" [.mv "z", .mv "z"]] ["(", "ax1", ")", "AAB"]]]

/-- what the slicer produced before the repair -/
def cexSlOld : MDb :=
  [.const ["#ElementVariable", "#Pattern", "#SetVariable", "#Symbol", "#Variable", "(", ")", "foo", "|-"],
   .var ["x", "y", "z"],
   .disj ["x", "y"],
   .float "x-f" "#Pattern" "x", .float "y-f" "#Pattern" "y", .float "z-f" "#Pattern" "z",
   .ax "ax1" [T "|-", .app "foo" [.mv "x", .mv "y"]],
   .block [.prov "th" [T "|-", .app "foo" [.mv "z", .mv "z"]] ["(", "ax1", ")", "AAB"]]]

theorem cexDb_wf : WellFormedDb cexDb := wellFormedDb_of_decide (by decide +kernel)

theorem cexDb_verifies : verifyLemma cexDb "th" = true ∧ verifyDb cexDb = true := by decide +kernel

theorem cexDb_sliced : sliceDatabase cexDb [] ["th"] [] = some [("th", cexSl)] := by
  have raw : ∃ L V, sliceDatabase cexDb [] ["th"] [] = some
      [("th", .const (sortDedup L) :: .var (sortDedup V) :: cexSl.drop 2)] ∧
      L = ["(", ")", "#Variable", "#ElementVariable", "#SetVariable", "#Pattern", "#Symbol", "|-", "foo", "|-", "foo",
        "#Pattern", "#Pattern", "#Pattern"] ∧ V = ["z", "z", "x", "y"] := ⟨_, _, rfl, rfl, rfl⟩
  obtain ⟨L, V, h, rfl, rfl⟩ := raw
  have c : sortDedup ["(", ")", "#Variable", "#ElementVariable", "#SetVariable", "#Pattern", "#Symbol", "|-", "foo",
      "|-", "foo", "#Pattern", "#Pattern", "#Pattern"] =
      ["#ElementVariable", "#Pattern", "#SetVariable", "#Symbol", "#Variable", "(", ")", "foo", "|-"] := by
    unfold sortDedup; simp [List.mergeSort, List.MergeSort.Internal.splitInTwo]; decide
  have v : sortDedup ["z", "z", "x", "y"] = ["x", "y", "z"] := by
    unfold sortDedup; simp [List.mergeSort, List.MergeSort.Internal.splitInTwo]; decide
  rw [h, c, v]
  rfl

/-- the slice verifies now (by the theorem, and by computation); the old slice did not -/
theorem cex_disj_now_verifies : verifyLemma cexSl "th" = true :=
  slice_verifies cexDb_wf cexDb_sliced (by simp) cexDb_verifies.1

example : verifyLemma cexSl "th" = true := by decide +kernel

theorem cex_disj_old_slice_fails : verifyLemma cexSlOld "th" = false := by decide +kernel

/-- (2) an essential hypothesis stated outside a block, cited by the lemma after it.  The slicer used to drop it:
```
$c |- ( ) foo #Pattern $.  $v x $.  x-f $f #Pattern x $.
h $e |- ( foo x x ) $.
th $p |- ( foo x x ) $= ( ) B $.
``` -/
def cexEssDb : MDb :=
  [.const ["|-", "(", ")", "foo", "#Pattern"],
   .var ["x"],
   .float "x-f" "#Pattern" "x",
   .ess "h" [T "|-", .app "foo" [.mv "x", .mv "x"]],
   .prov "th" [T "|-", .app "foo" [.mv "x", .mv "x"]] ["(", ")", "B"]]

def cexEssSl : MDb :=
  [.const ["#ElementVariable", "#Pattern", "#SetVariable", "#Symbol", "#Variable", "(", ")", "foo", "|-"],
   .var ["x"],
   .float "x-f" "#Pattern" "x",
   .ess "h" [T "|-", .app "foo" [.mv "x", .mv "x"]],
   .block [.prov "th" [T "|-", .app "foo" [.mv "x", .mv "x"]] ["(", ")", "B"]]]

/-- what the slicer produced before the repair -/
def cexEssSlOld : MDb :=
  [.const ["#ElementVariable", "#Pattern", "#SetVariable", "#Symbol", "#Variable", "(", ")", "foo", "|-"],
   .var ["x"],
   .float "x-f" "#Pattern" "x",
   .block [.prov "th" [T "|-", .app "foo" [.mv "x", .mv "x"]] ["(", ")", "B"]]]

theorem cexEssDb_wf : WellFormedDb cexEssDb := wellFormedDb_of_decide (by decide +kernel)

theorem cexEssDb_verifies : verifyLemma cexEssDb "th" = true ∧ verifyDb cexEssDb = true := by decide +kernel

theorem cexEssDb_sliced : sliceDatabase cexEssDb [] ["th"] [] = some [("th", cexEssSl)] := by
  have raw : ∃ L V, sliceDatabase cexEssDb [] ["th"] [] = some
      [("th", .const (sortDedup L) :: .var (sortDedup V) :: cexEssSl.drop 2)] ∧
      L = ["(", ")", "#Variable", "#ElementVariable", "#SetVariable", "#Pattern", "#Symbol", "|-", "foo", "|-", "foo",
        "#Pattern"] ∧ V = ["x", "x", "x", "x"] := ⟨_, _, rfl, rfl, rfl⟩
  obtain ⟨L, V, h, rfl, rfl⟩ := raw
  have c : sortDedup ["(", ")", "#Variable", "#ElementVariable", "#SetVariable", "#Pattern", "#Symbol", "|-", "foo",
      "|-", "foo", "#Pattern"] =
      ["#ElementVariable", "#Pattern", "#SetVariable", "#Symbol", "#Variable", "(", ")", "foo", "|-"] := by
    unfold sortDedup; simp [List.mergeSort, List.MergeSort.Internal.splitInTwo]; decide
  have v : sortDedup ["x", "x", "x", "x"] = ["x"] := by
    unfold sortDedup; simp [List.mergeSort, List.MergeSort.Internal.splitInTwo]; decide
  rw [h, c, v]
  rfl

theorem cex_top_ess_now_verifies : verifyLemma cexEssSl "th" = true :=
  slice_verifies cexEssDb_wf cexEssDb_sliced (by simp) cexEssDb_verifies.1

example : verifyLemma cexEssSl "th" = true := by decide +kernel

theorem cex_top_ess_old_slice_fails : verifyLemma cexEssSlOld "th" = false := by decide +kernel

end SliceEx
end MM

#print axioms MM.SliceEx.exDb_wf
#print axioms MM.SliceEx.exDb_slices
#print axioms MM.SliceEx.cex_disj_now_verifies
#print axioms MM.SliceEx.cex_top_ess_now_verifies
#print axioms MM.SliceEx.exSl2_verifies
#print axioms MM.SliceEx.cex_disj_old_slice_fails
