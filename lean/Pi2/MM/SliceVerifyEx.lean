import Pi2.MM.SliceVerify
/-!
# `slice_verifies`: non-vacuity, and the counterexample without `disjFirst`
-/
namespace MM
namespace SliceEx

def T (s : String) : MTerm := .app s []
def imp (a b : MTerm) : MTerm := .app "->" [a, b]
def all (x a : MTerm) : MTerm := .app "A." [x, a]
def p : MTerm := .mv "p"
def q : MTerm := .mv "q"
def x : MTerm := .mv "x"

/-- a database with top-level `$d`, rules with `$e` hypotheses in blocks (`mp`, `ag`; `ag` has the mandatory
condition `$d x p`), and two lemmas with a hypothesis each; `th2` uses `th1`:
```
$c ( ) -> A. wff set |- $.   $v p q x $.
wp $f wff p $.  wq $f wff q $.  vx $f set x $.
$d x p $.  $d x q $.
wi $a wff ( -> p q ) $.
ax1 $a |- ( -> p ( -> q p ) ) $.
${ mp.1 $e |- p $.  mp.2 $e |- ( -> p q ) $.  mp $a |- q $. $}
${ ag.1 $e |- p $.  ag $a |- ( A. x p ) $. $}
${ th1.1 $e |- p $.  th1 $p |- ( A. x ( -> q p ) ) $= ( wi ax1 mp ag ) BAECABAEDABFGH $. $}
${ th2.1 $e |- p $.  th2 $p |- ( A. x ( -> p p ) ) $= ( th1 ) AABCD $. $}
``` -/
def exDb : MDb :=
  [.const ["(", ")", "->", "A.", "wff", "set", "|-"],
   .var ["p", "q", "x"],
   .float "wp" "wff" "p", .float "wq" "wff" "q", .float "vx" "set" "x",
   .disj ["x", "p"], .disj ["x", "q"],
   .ax "wi" [T "wff", imp p q],
   .ax "ax1" [T "|-", imp p (imp q p)],
   .block [.ess "mp.1" [T "|-", p], .ess "mp.2" [T "|-", imp p q], .ax "mp" [T "|-", q]],
   .block [.ess "ag.1" [T "|-", p], .ax "ag" [T "|-", all x p]],
   .block [.ess "th1.1" [T "|-", p],
           .prov "th1" [T "|-", all x (imp q p)] ["(", "wi", "ax1", "mp", "ag", ")", "BAECABAEDABFGH"]],
   .block [.ess "th2.1" [T "|-", p],
           .prov "th2" [T "|-", all x (imp p p)] ["(", "th1", ")", "AABCD"]]]

/-- all hypotheses of the theorem hold -/
theorem exDb_wf : WellFormedDb exDb := wellFormedDb_of_decide (by decide +kernel)

theorem exDb_th1 : verifyLemma exDb "th1" = true := by decide +kernel
theorem exDb_th2 : verifyLemma exDb "th2" = true := by decide +kernel
theorem exDb_all : verifyDb exDb = true := by decide +kernel

/-- the slice of `th1`, as the slicer prints it (`$c` and `$v` sorted): everything `th1` cites, the two `$d` -/
def exSl1 : MDb :=
  [.const ["#ElementVariable", "#Pattern", "#SetVariable", "#Symbol", "#Variable", "(", ")", "->", "A.", "set",
           "wff", "|-"],
   .var ["p", "q", "x"],
   .disj ["p", "x"], .disj ["q", "x"],
   .float "wp" "wff" "p", .float "wq" "wff" "q", .float "vx" "set" "x",
   .ax "wi" [T "wff", imp p q],
   .ax "ax1" [T "|-", imp p (imp q p)],
   .block [.ess "mp.1" [T "|-", p], .ess "mp.2" [T "|-", imp p q], .ax "mp" [T "|-", q]],
   .block [.ess "ag.1" [T "|-", p], .ax "ag" [T "|-", all x p]],
   .block [.ess "th1.1" [T "|-", p],
           .prov "th1" [T "|-", all x (imp q p)] ["(", "wi", "ax1", "mp", "ag", ")", "BAECABAEDABFGH"]]]

/-- the slice of `th2`: `th1` has become an axiom with its hypothesis, the two `$d` are kept, `wi`, `ax1`, `mp`, `ag`
are gone -/
def exSl2 : MDb :=
  [.const ["#ElementVariable", "#Pattern", "#SetVariable", "#Symbol", "#Variable", "(", ")", "->", "A.", "set",
           "wff", "|-"],
   .var ["p", "q", "x"],
   .disj ["p", "x"], .disj ["q", "x"],
   .float "wp" "wff" "p", .float "wq" "wff" "q", .float "vx" "set" "x",
   .block [.ess "th1.1" [T "|-", p], .ax "th1" [T "|-", all x (imp q p)]],
   .block [.ess "th2.1" [T "|-", p],
           .prov "th2" [T "|-", all x (imp p p)] ["(", "th1", ")", "AABCD"]]]

/-- `List.mergeSort` is defined by well-founded recursion and does not reduce: the unsorted `$c` / `$v` lists are
named, the sorting is evaluated with `simp` -/
theorem exDb_sliced_raw : ∃ L1 V1 L2 V2, sliceDatabase exDb [] ["th1", "th2"] [] = some
      [("th1", .const (sortDedup L1) :: .var (sortDedup V1) :: exSl1.drop 2),
       ("th2", .const (sortDedup L2) :: .var (sortDedup V2) :: exSl2.drop 2)] ∧
    L1 = ["(", ")", "#Variable", "#ElementVariable", "#SetVariable", "#Pattern", "#Symbol", "|-", "A.", "->", "|-",
      "wff", "->", "|-", "->", "->", "|-", "|-", "->", "|-", "|-", "|-", "A.", "wff", "wff", "set"] ∧
    V1 = ["x", "q", "p", "p", "p", "q", "p", "q", "p", "p", "p", "q", "q", "p", "x", "p"] ∧
    L2 = ["(", ")", "#Variable", "#ElementVariable", "#SetVariable", "#Pattern", "#Symbol", "|-", "A.", "->", "|-",
      "|-", "|-", "A.", "->", "wff", "wff", "set"] ∧
    V2 = ["x", "p", "p", "p", "p", "x", "q", "p"] :=
  ⟨_, _, _, _, rfl, rfl, rfl, rfl, rfl⟩

/-- the slices the slicer produces -/
theorem exDb_slices : sliceDatabase exDb [] ["th1", "th2"] [] = some [("th1", exSl1), ("th2", exSl2)] := by
  obtain ⟨L1, V1, L2, V2, h, rfl, rfl, rfl, rfl⟩ := exDb_sliced_raw
  have c1 : sortDedup ["(", ")", "#Variable", "#ElementVariable", "#SetVariable", "#Pattern", "#Symbol", "|-", "A.",
      "->", "|-", "wff", "->", "|-", "->", "->", "|-", "|-", "->", "|-", "|-", "|-", "A.", "wff", "wff", "set"] =
      ["#ElementVariable", "#Pattern", "#SetVariable", "#Symbol", "#Variable", "(", ")", "->", "A.", "set", "wff",
       "|-"] := by
    unfold sortDedup; simp [List.mergeSort, List.MergeSort.Internal.splitInTwo]; decide
  have v1 : sortDedup ["x", "q", "p", "p", "p", "q", "p", "q", "p", "p", "p", "q", "q", "p", "x", "p"] =
      ["p", "q", "x"] := by
    unfold sortDedup; simp [List.mergeSort, List.MergeSort.Internal.splitInTwo]; decide
  have c2 : sortDedup ["(", ")", "#Variable", "#ElementVariable", "#SetVariable", "#Pattern", "#Symbol", "|-", "A.",
      "->", "|-", "|-", "|-", "A.", "->", "wff", "wff", "set"] =
      ["#ElementVariable", "#Pattern", "#SetVariable", "#Symbol", "#Variable", "(", ")", "->", "A.", "set", "wff",
       "|-"] := by
    unfold sortDedup; simp [List.mergeSort, List.MergeSort.Internal.splitInTwo]; decide
  have v2 : sortDedup ["x", "p", "p", "p", "p", "x", "q", "p"] = ["p", "q", "x"] := by
    unfold sortDedup; simp [List.mergeSort, List.MergeSort.Internal.splitInTwo]; decide
  rw [h, c1, v1, c2, v2]
  rfl

/-- non-vacuity of `slice_verifies`: its hypotheses hold for `exDb` and the slice of `th2`, so the slice verifies … -/
theorem exSl2_verifies : verifyLemma exSl2 "th2" = true :=
  slice_verifies exDb_wf exDb_slices (by simp) exDb_th2

theorem exSl1_verifies : verifyLemma exSl1 "th1" = true :=
  slice_verifies exDb_wf exDb_slices (by simp) exDb_th1

/-- … which can also be computed -/
example : verifyLemma exSl2 "th2" = true := by decide +kernel
example : verifyLemma exSl1 "th1" = true := by decide +kernel

/-! ## the counterexample: a top-level `$d` after an axiom that mentions both variables -/

/-- ```
$c |- ( ) foo #Pattern $.  $v x y z $.
x-f $f #Pattern x $.  y-f $f #Pattern y $.  z-f $f #Pattern z $.
ax1 $a |- ( foo x y ) $.
$d x y $.
th $p |- ( foo z z ) $= ( ax1 ) AAB $.
``` -/
def cexDb : MDb :=
  [.const ["|-", "(", ")", "foo", "#Pattern"],
   .var ["x", "y", "z"],
   .float "x-f" "#Pattern" "x", .float "y-f" "#Pattern" "y", .float "z-f" "#Pattern" "z",
   .ax "ax1" [T "|-", .app "foo" [.mv "x", .mv "y"]],
   .disj ["x", "y"],
   .prov "th" [T "|-", .app "foo" [.mv "z", .mv "z"]] ["(", "ax1", ")", "AAB"]]

/-- the slice the slicer cuts for `th` (`$c` / `$v` sorted as `sorted()` does) -/
def cexSl : MDb :=
  [.const ["#ElementVariable", "#Pattern", "#SetVariable", "#Symbol", "#Variable", "(", ")", "foo", "|-"],
   .var ["x", "y", "z"],
   .disj ["x", "y"],
   .float "x-f" "#Pattern" "x", .float "y-f" "#Pattern" "y", .float "z-f" "#Pattern" "z",
   .ax "ax1" [T "|-", .app "foo" [.mv "x", .mv "y"]],
   .block [.prov "th" [T "|-", .app "foo" [.mv "z", .mv "z"]] ["(", "ax1", ")", "AAB"]]]

/-- every hypothesis of `WellFormedDb` but `disjFirst` holds -/
theorem cexDb_almost_wf : (allLabelsL cexDb).Nodup ∧ ")" ∉ allLabelsL cexDb ∧ (∀ s ∈ cexDb, isEssStmt s = false) ∧
    (∀ x ∈ flatL cexDb, leafOk (dbVars cexDb) x = true) ∧ (∀ c ∈ defaultConstants, c ∉ dbVars cexDb) ∧
    disjBeforeUseB [] cexDb = false := by decide +kernel

theorem cexDb_verifies : verifyLemma cexDb "th" = true ∧ verifyDb cexDb = true := by decide +kernel

/-- the slicer's output is `cexSl` … -/
theorem cexDb_sliced : sliceDatabase cexDb [] ["th"] [] = some [("th", cexSl)] := by
  have raw : ∃ L V, sliceDatabase cexDb [] ["th"] [] = some
      [("th", .const (sortDedup L) :: .var (sortDedup V) :: cexSl.drop 2)] ∧
      L = ["(", ")", "#Variable", "#ElementVariable", "#SetVariable", "#Pattern", "#Symbol", "|-", "foo", "|-", "foo",
        "#Pattern", "#Pattern", "#Pattern"] ∧ V = ["z", "z", "x", "y"] := ⟨_, _, rfl, rfl, rfl⟩
  obtain ⟨L, V, h, rfl, rfl⟩ := raw
  have c : sortDedup ["(", ")", "#Variable", "#ElementVariable", "#SetVariable", "#Pattern", "#Symbol", "|-", "foo",
      "|-", "foo", "#Pattern", "#Pattern", "#Pattern"] =
      ["#ElementVariable", "#Pattern", "#SetVariable", "#Symbol", "#Variable", "(", ")", "foo", "|-"] := by
    unfold sortDedup; simp [List.mergeSort, List.MergeSort.Internal.splitInTwo]; decide
  have v : sortDedup ["z", "z", "x", "y"] = ["x", "y", "z"] := by
    unfold sortDedup; simp [List.mergeSort, List.MergeSort.Internal.splitInTwo]; decide
  rw [h, c, v]
  rfl

/-- … and it does NOT verify: `ax1` now has the mandatory condition `$d x y`, which `z`, `z` violates -/
theorem cexSl_fails : verifyLemma cexSl "th" = false := by decide +kernel

/-- the hypothesis `disjFirst` of `slice_verifies` cannot be dropped -/
theorem slice_verifies_needs_disjFirst : ∃ (db : MDb) (l : String) (sl : MDb),
    (allLabelsL db).Nodup ∧ ")" ∉ allLabelsL db ∧ (∀ s ∈ db, isEssStmt s = false) ∧
    (∀ x ∈ flatL db, leafOk (dbVars db) x = true) ∧ (∀ c ∈ defaultConstants, c ∉ dbVars db) ∧
    sliceDatabase db [] [l] [] = some [(l, sl)] ∧ verifyDb db = true ∧ verifyLemma db l = true ∧
    verifyLemma sl l = false :=
  ⟨cexDb, "th", cexSl, cexDb_almost_wf.1, cexDb_almost_wf.2.1, cexDb_almost_wf.2.2.1, cexDb_almost_wf.2.2.2.1,
    cexDb_almost_wf.2.2.2.2.1, cexDb_sliced, cexDb_verifies.2, cexDb_verifies.1, cexSl_fails⟩

end SliceEx
end MM

#print axioms MM.SliceEx.exDb_wf
#print axioms MM.SliceEx.exDb_slices
#print axioms MM.SliceEx.slice_verifies_needs_disjFirst
#print axioms MM.SliceEx.exSl2_verifies
#print axioms MM.SliceEx.cexSl_fails
