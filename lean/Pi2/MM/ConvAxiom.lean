import Pi2.MM.ConvPat
/-!
# `_collect_variables`, the scopes, `_convert_axiom_for_scope`: the `Axiom` object of a statement `|- t` / `#Pattern t`
-/
set_option linter.unusedSimpArgs false
set_option linter.unusedVariables false
open MM SliceSup ConvSup Gen.MMConv

namespace ConvTie

/-! ## `_collect_variables` -/
theorem whileM_measure {σ : Type} (cond : σ → Bool) (body : σ → Res σ) (μ : σ → Nat) (I : σ → Prop)
    (hstep : ∀ s, I s → cond s = true → ∃ s', body s = .ok s' ∧ I s' ∧ μ s' < μ s) :
    ∀ (fuel : Nat) (s : σ), I s → μ s < fuel → ∃ s', whileM cond body fuel s = .ok s' ∧ I s' ∧ cond s' = false := by
  intro fuel
  induction fuel with
  | zero => intro s _ h; omega
  | succ n ih =>
    intro s hI hμ
    cases hc : cond s with
    | false => exact ⟨s, by simp [whileM, hc], hI, hc⟩
    | true =>
      obtain ⟨s', hb, hI', hlt⟩ := hstep s hI hc
      obtain ⟨s'', hw, hI'', hc''⟩ := ih s' hI' (by omega)
      exact ⟨s'', by simp [whileM, hc, hb, hw, bind, Res.bind], hI'', hc''⟩

theorem tsizes_append (a b : List MTerm) : tsizes (a ++ b) = tsizes a + tsizes b := by
  induction a with
  | nil => simp [tsizes]
  | cons x a ih => simp [tsizes, ih]; omega

theorem termsMvs_append (a b : List MTerm) : termsMvs (a ++ b) = termsMvs a ++ termsMvs b := by
  induction a with
  | nil => simp [termsMvs]
  | cons x a ih => simp [termsMvs, ih]

theorem beq_mv (a b : String) : ((MTerm.mv a) == (MTerm.mv b)) = (a == b) := rfl

theorem contains_mv (L : List MTerm) (hL : ∀ x ∈ L, isMetavariable x = true) (v : String) :
    L.contains (MTerm.mv v) = (L.map MTerm.name).contains v := by
  induction L with
  | nil => rfl
  | cons x L ih =>
    have hx := hL x (by simp)
    cases x with
    | app _ _ => simp [isMetavariable] at hx
    | mv w =>
      simp only [List.contains_cons, List.map_cons, MTerm.name, beq_mv]
      rw [ih (fun y hy => hL y (by simp [hy]))]

/-- the body of the `while todo:` loop of `_collect_variables`: the text of `Pi2/Gen/MMConv.lean`, checked by `rfl` where it is used -/
def collectStep : List MTerm × List MTerm → Res (List MTerm × List MTerm) :=
  fun (todo, collected_variables) => do
    let (todo, current) ← listPop todo
    if isApplication current then
      let todo := todo ++ current.subterms
      pure (todo, collected_variables)
    else
      if isMetavariable current then
        if !(collected_variables.contains current) then
          let collected_variables := collected_variables ++ [current]
          pure (todo, collected_variables)
        else
          pure (todo, collected_variables)
      else
        Res.raise

/-- `_collect_variables(t)`: `Metavariable` objects with pairwise different names, the variables of `t` -/
theorem collect_variables_ok (σ : String → Nat) (fuel : Nat) (c : ConvObj) (t : MTerm) (hf : tsize t < fuel) :
    ∃ L, _collect_variables σ fuel c t = .ok L ∧ (∀ x ∈ L, isMetavariable x = true) ∧ (L.map MTerm.name).Nodup ∧
      ∀ v, v ∈ L.map MTerm.name ↔ v ∈ termMvs t := by
  let I : List MTerm × List MTerm → Prop := fun s =>
    (∀ x ∈ s.2, isMetavariable x = true) ∧ (s.2.map MTerm.name).Nodup ∧
      ∀ v, (v ∈ s.2.map MTerm.name ∨ v ∈ termsMvs s.1) ↔ v ∈ termMvs t
  have hw := whileM_measure
    (fun (x : List MTerm × List MTerm) => match x with | (todo, collected_variables) => !todo.isEmpty) collectStep
    (fun s => tsizes s.1) I ?_ fuel ([t], []) ⟨by simp, by simp, by intro v; simp [termsMvs]⟩ (by simpa [tsizes] using hf)
  · obtain ⟨⟨todo, L⟩, hw, ⟨h1, h2, h3⟩, hc⟩ := hw
    have htodo : todo = [] := by simpa using hc
    subst htodo
    refine ⟨L, ?_, h1, h2, by intro v; have := h3 v; simpa [termsMvs] using this⟩
    unfold _collect_variables
    unfold collectStep at hw
    simp only [bind, Res.bind, pure] at hw ⊢
    rw [hw]
  · intro ⟨todo, L⟩ ⟨h1, h2, h3⟩ hc
    have hne : todo ≠ [] := by simpa using hc
    obtain ⟨init, last, rfl⟩ : ∃ init last, todo = init ++ [last] := ⟨todo.dropLast, todo.getLast hne, (List.dropLast_concat_getLast hne).symm⟩
    have hpop : listPop (init ++ [last]) = .ok (init, last) := by simp [listPop]
    cases last with
    | app s args =>
      refine ⟨(init ++ args, L), by simp [collectStep, hpop, isApplication, MTerm.subterms, bind, Res.bind, pure], ⟨h1, h2, ?_⟩, ?_⟩
      · intro v
        rw [← h3 v]
        simp only [termsMvs_append, termsMvs, termMvs, List.append_nil]
      · simp [tsizes_append, tsizes, tsize]
    | mv w =>
      by_cases hin : w ∈ L.map MTerm.name
      · refine ⟨(init, L), ?_, ⟨h1, h2, ?_⟩, ?_⟩
        · have : L.contains (MTerm.mv w) = true := by rw [contains_mv L h1]; simpa using hin
          simp [collectStep, hpop, isApplication, isMetavariable, this, bind, Res.bind, pure]
        · intro v
          rw [← h3 v]
          simp only [termsMvs_append, termsMvs, termMvs, List.append_nil, List.mem_append, List.mem_singleton]
          constructor
          · rintro (h | h)
            · exact Or.inl h
            · exact Or.inr (Or.inl h)
          · rintro (h | h | rfl)
            · exact Or.inl h
            · exact Or.inr h
            · exact Or.inl hin
        · simp [tsizes_append, tsizes, tsize]
      · refine ⟨(init, L ++ [MTerm.mv w]), ?_, ⟨?_, ?_, ?_⟩, ?_⟩
        · have : L.contains (MTerm.mv w) = false := by
            rw [contains_mv L h1]
            simpa using hin
          simp [collectStep, hpop, isApplication, isMetavariable, this, bind, Res.bind, pure]
        · intro x hx
          simp only [List.mem_append, List.mem_singleton] at hx
          rcases hx with hx | rfl
          · exact h1 x hx
          · rfl
        · simp only [List.map_append, List.map_cons, List.map_nil, MTerm.name]
          exact List.nodup_append.mpr ⟨h2, by simp, by intro a ha b hb; simp at hb; subst hb; intro e; subst e; exact hin ha⟩
        · intro v
          rw [← h3 v]
          simp only [List.map_append, List.map_cons, List.map_nil, MTerm.name, termsMvs_append, termsMvs, termMvs, List.append_nil,
            List.mem_append, List.mem_singleton]
          constructor
          · rintro ((h | rfl) | h)
            · exact Or.inl h
            · exact Or.inr (Or.inr rfl)
            · exact Or.inr (Or.inl h)
          · rintro (h | h | rfl)
            · exact Or.inl (Or.inl h)
            · exact Or.inr h
            · exact Or.inl (Or.inr rfl)
        · simp [tsizes_append, tsizes, tsize]

end ConvTie

namespace ConvTie

/-! ## scopes -/
structure GoodScope (sc : ScopeObj) (fs : List String) : Prop where
  mv : sc._metavars = ⟨mvData fs, some PyType.MetaVar⟩
  ev : sc._element_vars = ⟨[], some PyType.EVar⟩
  sv : sc._set_vars = ⟨[], some PyType.SVar⟩
  nots : GoodNotations sc._notations
  amb : sc._ambiguous_vars = []
  nodup : fs.Nodup

/-- `Scope()` / `NotationScope(args)` followed by `import_from_scope(sc)` -/
def copyScope (sc : ScopeObj) (args : List String) : ScopeObj :=
  { _metavars := sc._metavars, _element_vars := ⟨[], some PyType.EVar⟩, _set_vars := ⟨[], some PyType.SVar⟩,
    _notations := sc._notations, _ambiguous_vars := [], _args := args }

theorem goodScope_copy (sc : ScopeObj) (fs : List String) (args : List String) (h : GoodScope sc fs) :
    GoodScope (copyScope sc args) fs := ⟨h.mv, rfl, rfl, h.nots, rfl, h.nodup⟩

theorem import_from_scope_ok (σ : String → Nat) (fuel : Nat) (self other : ScopeObj) (fs : List String) (h : GoodScope other fs) :
    Scope_import_from_scope σ fuel self other none =
      .ok { self with _metavars := other._metavars, _element_vars := ⟨[], some PyType.EVar⟩, _set_vars := ⟨[], some PyType.SVar⟩,
                      _notations := other._notations } := by
  have h1 : vdCopy other._metavars = .ok other._metavars := by
    apply vdCopy_ok
    · rw [h.mv]; exact mvData_fits fs
    · rw [h.mv]; simp only []; rw [mvData_keys]; exact h.nodup
  have h2 : vdOfDict ([] : PyDict NPat) (some PyType.EVar) = .ok ⟨[], some PyType.EVar⟩ := rfl
  have h3 : vdOfDict ([] : PyDict NPat) (some PyType.SVar) = .ok ⟨[], some PyType.SVar⟩ := rfl
  simp [Scope_import_from_scope, h1, h.ev, h.sv, vdItems, h2, h3, bind, Res.bind, pure]

theorem unambiguize_ok (σ : String → Nat) (fuel : Nat) (c : ConvObj) (args : List MTerm) (fs : List String)
    (h : GoodScope c._scope fs) : _unambiguize_scope σ fuel c args = .ok [copyScope c._scope []] := by
  have hamb : ∀ a : MTerm, GlobalScope_is_ambiguous σ fuel c._scope (StrOrMv.mv a.name) = false := by
    intro a; simp [GlobalScope_is_ambiguous, h.amb]
  simp [_unambiguize_scope, hamb, Scope_init, import_from_scope_ok σ fuel _ c._scope fs h, bind, Res.bind, pure, copyScope]
  exact ⟨rfl, rfl⟩

theorem to_notation_scope_ok (σ : String → Nat) (fuel : Nat) (sc : ScopeObj) (vars : List MTerm) (fs : List String)
    (h : GoodScope sc fs) (hv : ∀ x ∈ vars, isMetavariable x = true) :
    to_notation_scope σ fuel sc vars = .ok (copyScope sc (vars.map MTerm.name)) := by
  have hall : (vars.all fun arg => isMetavariable arg) = true := by simpa using hv
  simp [to_notation_scope, hall, NotationScope_init, Scope_init, import_from_scope_ok σ fuel _ sc fs h, bind, Res.bind, pure, copyScope]
  rfl

end ConvTie

namespace ConvTie

/-! ## the argument type check of an axiom's notation -/
theorem enumerate_mem {α : Type} : ∀ (xs : List α) (k : Nat) (p : Nat × α), p ∈ ImpSup.pyEnumerateFrom k xs →
    k ≤ p.1 ∧ p.1 < k + xs.length ∧ p.2 ∈ xs := by
  intro xs
  induction xs with
  | nil => intro k p h; simp [ImpSup.pyEnumerateFrom] at h
  | cons x xs ih =>
    intro k p h
    simp only [ImpSup.pyEnumerateFrom, List.mem_cons] at h
    rcases h with rfl | h
    · simp
    · obtain ⟨h1, h2, h3⟩ := ih (k + 1) p h
      simp only [List.length_cons, List.mem_cons]
      exact ⟨by omega, by omega, Or.inr h3⟩

theorem forM'_none {α β : Type} (xs : List α) (body : Option β → α → Res (Option β))
    (h : ∀ p ∈ xs, body none p = .ok none) : forM' xs none body = .ok none := by
  induction xs with
  | nil => rfl
  | cons x xs ih =>
    simp only [forM'_cons, h x (by simp), Res.bind_ok]
    exact ih (fun p hp => h p (by simp [hp]))

/-- the values a type check accepts: every argument name resolves to a `MetaVar`, and there are enough arguments -/
theorem arguments_type_check_ok (σ : String → Nat) (fuel : Nat) (c : ConvObj) (ns : ScopeObj) (fs : List String)
    (hns : GoodScope ns fs) (hargs : ∀ v ∈ ns._args, v ∈ fs) :
    ∃ tc, _get_arguments_type_check σ fuel c ns = .ok tc ∧
      ∀ (view : SelfView) (S : List String) (args : List NPat), view._symbols = ⟨symData σ S, some PyType.Symbol⟩ →
        (∀ v ∈ ns._args, v ∉ S ∧ v ∉ view._declared_constants) → ns._args.length ≤ args.length → tc view args = .ok true := by
  refine ⟨_, rfl, ?_⟩
  intro view S args hsym hdis hlen
  have hen : ∀ p ∈ ImpSup.pyEnumerate ns._args, p.1 < args.length ∧ p.2 ∈ ns._args := by
    intro p hp
    obtain ⟨_, h2, h3⟩ := enumerate_mem ns._args 0 p hp
    exact ⟨by omega, h3⟩
  show (forM' (ImpSup.pyEnumerate ns._args) (none : Option Bool) _ >>= _) = _
  rw [forM'_none]
  · rfl
  · intro p hp
    obtain ⟨i, name⟩ := p
    obtain ⟨hi, hn⟩ := hen (i, name) hp
    have hres : _resolve_ro σ fuel view ns name = .ok (mkMetaVar (fs.idxOf name)) := by
      rw [resolve_ro_var σ fuel view S ns name hsym (hdis name hn).1 (hdis name hn).2]
      apply scope_resolve_mv
      rw [hns.mv]
      exact mvData_lookup fs name (hargs name hn)
    simp only [listGet_ok args i hi, hres, bind, Res.bind, pure, typeOf, mkMetaVar, isPattern, beq_self_eq_true,
      Bool.and_self, if_true]

end ConvTie

namespace ConvTie

/-! ## `_make_axiom_from_notation`, `_convert_axiom_for_scope` -/
/-- the value of a variable: `MetaVar(position of its `$f` statement)` -/
def valOf (fs : List String) (v : String) : NPat := mkMetaVar (fs.idxOf v)

theorem resolve_args_ok (σ : String → Nat) (fuel : Nat) (c : ConvObj) (S : List String) (scope : ScopeObj) (fs : List String)
    (hS : SymState σ c S) (hsc : GoodScope scope fs) :
    ∀ names : List String, (∀ v ∈ names, v ∈ fs ∧ v ∉ S ∧ v ∉ c._declared_constants) →
      mapS names c (fun c a => _resolve σ fuel c scope a) = .ok (c, names.map (valOf fs)) := by
  intro names
  induction names with
  | nil => intro _; rfl
  | cons v names ih =>
    intro h
    obtain ⟨h1, h2, h3⟩ := h v (by simp)
    have hr : _resolve σ fuel c scope v = .ok (c, valOf fs v) := by
      rw [resolve_var σ fuel c S scope v hS h2 h3, scope_resolve_mv σ fuel scope v (valOf fs v)]
      · rfl
      · rw [hsc.mv]; exact mvData_lookup fs v h1
    simp only [mapS, hr, ih (fun w hw => h w (by simp [hw])), bind, Res.bind, pure, List.map_cons]

theorem map_getElem_idxOf {α : Type} (names : List String) (f : String → α) (v : String) (h : v ∈ names) :
    (names.map f)[names.idxOf v]? = some (f v) := by
  have hlt : names.idxOf v < names.length := List.idxOf_lt_length_of_mem h
  rw [List.getElem?_map, List.getElem?_eq_getElem hlt]
  simp [List.getElem_idxOf hlt]

theorem mem_sortedStrs (xs : List String) (v : String) : v ∈ sortedStrs xs ↔ v ∈ xs := by
  unfold sortedStrs sortDedup
  rw [List.mem_eraseDups]
  exact List.mem_mergeSort

end ConvTie

namespace ConvTie

mutual
/-- a term of the fragment over the constants `K` (independently of the argument list) -/
def wfT (K : List String) : MTerm → Bool
  | .mv v => !isBuiltin v
  | .app s args =>
      if s = "\\imp" ∨ s = "\\app" then args.length == 2 && wfTs K args
      else !isBuiltin s && K.contains s && wfTs K args
def wfTs (K : List String) : List MTerm → Bool
  | [] => true
  | t :: ts => wfT K t && wfTs K ts
end

theorem wfTerm_of_wfT (K names : List String) (hdis : ∀ x ∈ names, x ∉ K) :
    ∀ (n : Nat) (t : MTerm), tsize t ≤ n → wfT K t = true → (∀ v ∈ termMvs t, v ∈ names) → wfTerm K names t = true := by
  intro n
  induction n with
  | zero => intro t h; have := tsize_pos t; omega
  | succ n ih =>
    have hl : ∀ (ts : List MTerm), tsizes ts ≤ n → wfTs K ts = true → (∀ v ∈ termsMvs ts, v ∈ names) → wfTerms K names ts = true := by
      intro ts
      induction ts with
      | nil => intro _ _ _; rfl
      | cons t ts iht =>
        intro hsz hwf hv
        simp only [wfTs, Bool.and_eq_true] at hwf
        simp only [tsizes] at hsz
        simp only [termsMvs, List.mem_append] at hv
        have := tsize_pos t
        simp only [wfTerms, Bool.and_eq_true]
        exact ⟨ih t (by omega) hwf.1 (fun v h => hv v (Or.inl h)), iht (by omega) hwf.2 (fun v h => hv v (Or.inr h))⟩
    intro t hsz hwf hv
    cases t with
    | mv v =>
      simp only [wfT] at hwf
      simp only [termMvs, List.mem_singleton, forall_eq] at hv
      simp [wfTerm, hv, hwf]
    | app s args =>
      simp only [tsize] at hsz
      simp only [termMvs] at hv
      by_cases hb : s = "\\imp" ∨ s = "\\app"
      · simp only [wfT, hb, if_true, Bool.and_eq_true] at hwf
        simp only [wfTerm, hb, if_true, Bool.and_eq_true]
        exact ⟨hwf.1, hl args (by omega) hwf.2 hv⟩
      · simp only [wfT, hb, if_false, Bool.and_eq_true] at hwf
        simp only [wfTerm, hb, if_false, Bool.and_eq_true]
        refine ⟨⟨⟨hwf.1.1, hwf.1.2⟩, ?_⟩, hl args (by omega) hwf.2 hv⟩
        have hK : s ∈ K := by simpa using hwf.1.2
        simp only [Bool.not_eq_true', List.contains_eq_mem, decide_eq_false_iff_not]
        intro hs
        exact hdis s hs hK

/-- the `Axiom` object of the statement `label: tc t` (an `$a`, an `$e`) in a scope without ambiguity -/
structure AxiomOf (σ : String → Nat) (fs : List String) (label : String) (t : MTerm) (a : AxiomObj) : Prop where
  name : a.name = label
  pattern : a.pattern = patOf σ (valOf fs) t
  metavars : ∀ v, v ∈ a.metavars ↔ v ∈ termMvs t
  antecedents : a.antecedents? = none

theorem make_axiom_ok (σ : String → Nat) (fuel : Nat) (c : ConvObj) (S : List String) (scope : ScopeObj) (fs : List String)
    (n : Notation) (P : (String → NPat) → NPat)
    (hS : SymState σ c S) (hsc : GoodScope scope fs) (hnames : ∀ v ∈ n.args, v ∈ fs ∧ v ∉ S ∧ v ∉ c._declared_constants)
    (htc : ∀ (view : SelfView) (S : List String) (args : List NPat), view._symbols = ⟨symData σ S, some PyType.Symbol⟩ →
        (∀ v ∈ n.args, v ∉ S ∧ v ∉ view._declared_constants) → n.args.length ≤ args.length → n.type_check view args = .ok true)
    (hf : ClosureSpec n.callable n.args P) :
    _make_axiom_from_notation σ fuel c scope n =
      .ok (c, { cls := AxCls.Axiom, name := n.name, args := n.args, type_check := n.type_check, pattern := P (valOf fs),
                metavars := sortedStrs (setOf n.args), antecedents? := none, proof? := none }) := by
  have hfilter : (n.args.filter fun var => Scope_is_metavar σ fuel scope var) = n.args := by
    apply List.filter_eq_self.mpr
    intro v hv
    have : v ∈ (mvData fs).map (·.1) := by rw [mvData_keys]; exact (hnames v hv).1
    simp [Scope_is_metavar, vdHas, hsc.mv, (dictHas_iff _ _).mpr this]
  have hcall : Notation_call σ fuel n c.view (n.args.map (valOf fs)) = .ok (P (valOf fs)) := by
    apply notation_call_ok
    · exact htc c.view S _ hS.syms (fun v hv => ⟨(hnames v hv).2.1, (hnames v hv).2.2⟩) (by simp)
    · exact hf c.view _ (valOf fs) (fun v hv => map_getElem_idxOf n.args (valOf fs) v hv)
  simp only [_make_axiom_from_notation, resolve_args_ok σ fuel c S scope fs hS hsc n.args hnames, hfilter, hcall, bind, Res.bind, pure]

end ConvTie

namespace ConvTie

theorem symsOf_subset (K : List String) : ∀ (n : Nat) (t : MTerm), tsize t ≤ n → wfT K t = true → ∀ s ∈ symsOf t, s ∈ K := by
  intro n
  induction n with
  | zero => intro t h; have := tsize_pos t; omega
  | succ n ih =>
    have hl : ∀ (ts : List MTerm), tsizes ts ≤ n → wfTs K ts = true → ∀ s ∈ symsOfL ts, s ∈ K := by
      intro ts
      induction ts with
      | nil => intro _ _ s hs; simp [symsOfL] at hs
      | cons t ts iht =>
        intro hsz hwf s hs
        simp only [wfTs, Bool.and_eq_true] at hwf
        simp only [tsizes] at hsz
        have := tsize_pos t
        simp only [symsOfL, List.mem_append] at hs
        rcases hs with hs | hs
        · exact ih t (by omega) hwf.1 s hs
        · exact iht (by omega) hwf.2 s hs
    intro t hsz hwf s hs
    cases t with
    | mv v => simp [symsOf] at hs
    | app h args =>
      simp only [tsize] at hsz
      by_cases hb : h = "\\imp" ∨ h = "\\app"
      · simp only [wfT, hb, if_true, Bool.and_eq_true] at hwf
        simp only [symsOf, hb, if_true] at hs
        exact hl args (by omega) hwf.2 s hs
      · simp only [wfT, hb, if_false, Bool.and_eq_true] at hwf
        simp only [symsOf, hb, if_false, List.mem_cons] at hs
        rcases hs with rfl | hs
        · simpa using hwf.1.2
        · exact hl args (by omega) hwf.2 s hs

/-- a statement `label: tc t` that is not a `$p` -/
def isAxOrEss : MStmt → Bool | .ax _ _ => true | .ess _ _ => true | _ => false

theorem convert_axiom_ok (σ : String → Nat) (fuel : Nat) (c : ConvObj) (S : List String) (scope : ScopeObj) (fs : List String)
    (st : MStmt) (tc0 t : MTerm) (hst : isAxOrEss st = true) (hterms : st.terms = [tc0, t])
    (hfuel : tsize t < fuel) (hS : SymState σ c S) (hsc : GoodScope scope fs)
    (hwf : wfT c._declared_constants t = true) (hvars : ∀ v ∈ termMvs t, v ∈ fs)
    (hdis : ∀ x ∈ fs, x ∉ c._declared_constants) (hSK : ∀ s ∈ S, s ∈ c._declared_constants) :
    ∃ a, _convert_axiom_for_scope σ fuel c scope st = .ok (withSyms σ c (setUnion S (symsOf t)), a) ∧
      AxiomOf σ fs st.label t a ∧ a.cls = AxCls.Axiom ∧ a.proof? = none := by
  obtain ⟨L, hL, hLmv, hLnd, hLmem⟩ := collect_variables_ok σ fuel c t hfuel
  have hnames_fs : ∀ v ∈ L.map MTerm.name, v ∈ fs := fun v hv => hvars v ((hLmem v).mp hv)
  have hns := goodScope_copy scope fs (L.map MTerm.name) hsc
  have hwf' : wfTerm c._declared_constants (copyScope scope (L.map MTerm.name))._args t = true :=
    wfTerm_of_wfT _ _ (fun x hx => hdis x (hnames_fs x hx)) (tsize t) t (Nat.le_refl _) hwf (fun v hv => (hLmem v).mpr hv)
  obtain ⟨f, hf, hfs⟩ := to_pattern_ok σ (copyScope scope (L.map MTerm.name)) hns.nots fuel t c S hfuel hS hwf'
  obtain ⟨tc, htc, htcs⟩ := arguments_type_check_ok σ fuel (withSyms σ c (setUnion S (symsOf t)))
    (copyScope scope (L.map MTerm.name)) fs hns hnames_fs
  have hS'K : ∀ s ∈ setUnion S (symsOf t), s ∈ c._declared_constants := by
    intro s hs
    rcases (mem_setUnion _ _ _).mp hs with h | h
    · exact hSK s h
    · exact symsOf_subset _ (tsize t) t (Nat.le_refl _) hwf s h
  have hmk := make_axiom_ok σ fuel (withSyms σ c (setUnion S (symsOf t))) (setUnion S (symsOf t)) scope fs
    { name := st.label, args := L.map MTerm.name, type_check := tc, callable := f } (fun val => patOf σ val t)
    (symState_withSyms σ c _) hsc
    (fun v hv => ⟨hnames_fs v hv, fun h => hdis v (hnames_fs v hv) (hS'K v h), hdis v (hnames_fs v hv)⟩)
    htcs hfs
  have hname : _get_axiom_name σ fuel c st = .ok st.label := by
    cases st <;> simp [isAxOrEss] at hst <;>
      simp [_get_axiom_name, isBlock, isAxiomatic, isEssential, isProvable, bind, Res.bind, pure]
  have hterm : _get_axiom_term σ fuel c st = .ok t := by
    cases st <;> simp [isAxOrEss] at hst <;>
      simp [_get_axiom_term, isBlock, isAxiomatic, isEssential, isProvable, bind, Res.bind, pure, hterms]
  have hkind : (isAxiomatic st || isEssential st) = true := by
    cases st <;> simp [isAxOrEss] at hst <;> simp [isAxiomatic, isEssential]
  refine ⟨{ cls := AxCls.Axiom, name := st.label, args := L.map MTerm.name, type_check := tc,
            pattern := patOf σ (valOf fs) t, metavars := sortedStrs (setOf (L.map MTerm.name)), antecedents? := none, proof? := none },
    ?_, ⟨rfl, rfl, ?_, rfl⟩, rfl, rfl⟩
  · simp only [_convert_axiom_for_scope, hname, hterms, listGet_one, hL, hterm, to_notation_scope_ok σ fuel scope L fs hsc hLmv,
      hf, htc, hkind, if_true, hmk, bind, Res.bind, pure]
  · intro v
    simp only [mem_sortedStrs, mem_setOf]
    exact hLmem v

end ConvTie
