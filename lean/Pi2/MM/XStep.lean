import Pi2.MM.Translate
/-!
# `xstep` case by case (definitional restatement)
-/
open Pat PySt
namespace MM

def xSave (n : Nat) (x : XSt) : Option (Option XSt) :=
      match top? x with
      | none => some none
      | some t => do
          match ← x.doC n [.save] with
          | none => pure none
          | some x' => pure (some { x' with mem := x'.mem ++ [t] })

def xReuse (n : Nat) (x : XSt) (j : Nat) : Option (Option XSt) :=
      match x.mem[j]? with
      | none => some none
      | some t => x.doC n [.load t]

def xImp (cfg : Cfg) (n : Nat) (db : DB) (x : XSt) : Option (Option XSt) :=
          let (a, b) := db.impArgs
          if db.mandOf [.imp (.var a) (.var b)] = [a, b] then
            if topPats x 2 then x.doC n [.implies] else some none
          else do
            match ← patternF cfg n x.s (.imp (PySt.phiN (db.mvId a)) (PySt.phiN (db.mvId b))) x.calls with
            | none => pure none
            | some (s', c') =>
              ({ x with s := s', calls := c' } : XSt).doC n [.instantiatePattern (db.deltaKeys [.imp (.var a) (.var b)])]

def xApp (cfg : Cfg) (n : Nat) (db : DB) (x : XSt) : Option (Option XSt) :=
          let (a, b) := db.appArgs
          if db.mandOf [.app (.var a) (.var b)] = [a, b] then
            if topPats x 2 then x.doC n [.app] else some none
          else do
            match ← patternF cfg n x.s (.app (PySt.phiN (db.mvId a)) (PySt.phiN (db.mvId b))) x.calls with
            | none => pure none
            | some (s', c') =>
              ({ x with s := s', calls := c' } : XSt).doC n [.instantiatePattern (db.deltaKeys [.app (.var a) (.var b)])]

def xCtor (cfg : Cfg) (n : Nat) (db : DB) (x : XSt) (k : Nat) : Option (Option XSt) :=
          match db.ctors[k]? with
          | none => some none
          | some c => do
            let t : Term := .con c.sym (c.args.map .var)
            match ← patternF cfg n x.s (image db t) x.calls with
            | none => pure none
            | some (s', c') =>
              let x' : XSt := { x with s := s', calls := c' }
              if (Term.vars t).isEmpty then pure (some x')
              else x'.doC n [.instantiatePattern (db.deltaKeys [t])]

def xRule (n : Nat) (db : DB) (x : XSt) (k : Nat) : Option (Option XSt) :=
          match db.rules[k]? with
          | none => some none
          | some r => do
            match ← xstep.stash n x [] r.hyps.length with
            | none => pure none
            | some (x1, saved) =>
            match ← x1.doC n [.load (.proved (implChain db r.hyps r.concl))] with
            | none => pure none
            | some x2 =>
            let ts := r.hyps ++ [r.concl]
            let inst : Option (Option XSt) :=
              if (Term.varsList ts).isEmpty then some (some x2)
              else x2.doC n [.instantiate (db.deltaKeys ts)]
            match ← inst with
            | none => pure none
            | some x3 =>
            xstep.discharge n x3 saved.reverse

def xP1 (n : Nat) (db : DB) (x : XSt) : Option (Option XSt) := do
          match ← x.doC n [.prop1] with
          | none => pure none
          | some x' =>
            match ruleKeys db [db.p1.1, db.p1.2] with
            | none => pure none
            | some keys => x'.doC n [.instantiate keys]

def xP2 (n : Nat) (db : DB) (x : XSt) : Option (Option XSt) := do
          match ← x.doC n [.prop2] with
          | none => pure none
          | some x' =>
            match ruleKeys db [db.p2.1, db.p2.2.1, db.p2.2.2] with
            | none => pure none
            | some keys => x'.doC n [.instantiate keys]

def xMp (n : Nat) (x : XSt) : Option (Option XSt) :=
          match x.s.stack with
          | (.proved _, _) :: (.proved _, _) :: _ => do
            match ← x.doC n [.mp] with
            | none => pure none
            | some x' =>
              match top? x' with
              | none => pure none
              | some c => x'.doC n [.save, .pop, .pop, .pop, .load c]
          | _ => some none

def xLabel (cfg : Cfg) (n : Nat) (db : DB) (x : XSt) : Lbl → Option (Option XSt)
  | .float v => x.doC n [.metavar (db.mvId v) [] [] [] [] []]
  | .impC => xImp cfg n db x
  | .appC => xApp cfg n db x
  | .ctor k => xCtor cfg n db x k
  | .rule k => xRule n db x k
  | .p1 => xP1 n db x
  | .p2 => xP2 n db x
  | .mp => xMp n x

theorem xstep_eq (cfg : Cfg) (n : Nat) (db : DB) (labels : List Lbl) (x : XSt) (step : Nat) :
    xstep cfg n db labels x step =
      match resolve labels.length step with
      | .save => xSave n x
      | .reuse j => xReuse n x j
      | .label i =>
        match labels[i]? with
        | none => some none
        | some l => xLabel cfg n db x l := by
  unfold xstep
  split
  · next h => rw [h]; rfl
  · next h => rw [h]; rfl
  · next i h =>
    rw [h]
    simp only []
    split <;> (next hl => (rw [hl]; try rfl))
end MM
