import Pi2.MM.Verify
import Pi2.MM.SliceThm
/-!
# Properties of the reference verifier (`Verify.lean`) used by the slice theorem

1. `runSteps_sim`: a proof run only depends on (a) the entries of the labels it cites, (b) the variable status of the
   tokens that occur in them, (c) the `$d` pairs between those variables.
2. `lookupLabel` as a lookup in one association list; labels are unique along a successful run (`run_inv`).
3. `sim_stmt` / `sim_stmts`: running a statement made of `$d`, `$e`, `$a`, `$p`, `${ $}` in two contexts that agree on
   the statement's symbols produces the same assertions (same mandatory hypotheses in the same order, same
   conclusion, fewer `$d` conditions).
-/
namespace MM

/-! ## 1. proof runs -/

section ProofSim
variable (T : String → Prop)

/-- `e2` does what `e1` does, on stacks over the tokens `T` -/
def EntrySim : VEntry → VEntry → Prop
  | .f tc v, .f tc' v' => tc = tc' ∧ v = v' ∧ T tc ∧ T v
  | .e toks, .e toks' => toks = toks' ∧ ∀ x ∈ toks, T x
  | .a a1, .a a2 => a1.fhyps = a2.fhyps ∧ a1.ehyps = a2.ehyps ∧ a1.stmt = a2.stmt ∧
      (∀ p ∈ a2.dvs, p ∈ a1.dvs) ∧ ∀ x ∈ a1.stmt, T x
  | _, _ => False

variable {T}

theorem varsOf_congr {vars1 vars2 : List String} (hv : ∀ t, T t → (t ∈ vars1 ↔ t ∈ vars2))
    {toks : List String} (ht : ∀ x ∈ toks, T x) : varsOf vars1 toks = varsOf vars2 toks := by
  unfold varsOf
  apply List.filter_congr
  intro x hx
  have := hv x (ht x hx)
  by_cases h : x ∈ vars1
  · simp [h, this.1 h]
  · have h2 : x ∉ vars2 := fun h' => h (this.2 h')
    simp [h, h2]

theorem mem_varsOf {vars toks : List String} {x : String} : x ∈ varsOf vars toks ↔ x ∈ toks ∧ x ∈ vars := by
  simp [varsOf, List.mem_filter]

/-- the substitution's range consists of tokens of the arguments -/
theorem mkSubst_range : ∀ (fs : List (String × String × String)) (args : List (List String)) (acc σ : VSubst),
    mkSubst fs args acc = some σ → (∀ a ∈ args, ∀ x ∈ a, T x) → (∀ p ∈ acc, ∀ x ∈ p.2, T x) →
    ∀ p ∈ σ, ∀ x ∈ p.2, T x
  | [], _, acc, σ, h, _, hacc => by
      simp only [mkSubst] at h; injection h with h; subst h; exact hacc
  | _ :: _, [], _, _, h, _, _ => by simp [mkSubst] at h
  | f :: fs, a :: as, acc, σ, h, hargs, hacc => by
      cases a with
      | nil => simp [mkSubst] at h
      | cons t rest =>
        simp only [mkSubst] at h
        split at h
        · refine mkSubst_range fs as _ σ h (fun a ha => hargs a (List.mem_cons_of_mem _ ha)) ?_
          intro p hp
          rcases List.mem_cons.1 hp with rfl | hp
          · intro x hx; exact hargs (t :: rest) (by simp) x (List.mem_cons_of_mem _ hx)
          · exact hacc p hp
        · cases h

theorem lookup_range {σ : VSubst} (hσ : ∀ p ∈ σ, ∀ x ∈ p.2, T x) {k : String} {r : List String}
    (h : σ.lookup k = some r) : ∀ x ∈ r, T x := by
  induction σ with
  | nil => simp [List.lookup] at h
  | cons p σ ih =>
    obtain ⟨k', v'⟩ := p
    rw [List.lookup_cons] at h
    split at h
    · injection h with h; subst h; exact hσ (k', v') (by simp)
    · exact ih (fun p hp => hσ p (List.mem_cons_of_mem _ hp)) h

theorem substToks_range {σ : VSubst} (hσ : ∀ p ∈ σ, ∀ x ∈ p.2, T x) {toks : List String}
    (ht : ∀ x ∈ toks, T x) : ∀ x ∈ substToks σ toks, T x := by
  intro x hx
  simp only [substToks, List.mem_flatMap] at hx
  obtain ⟨t, htm, hx⟩ := hx
  split at hx
  · next r hr => exact lookup_range hσ hr x hx
  · simp at hx; rw [hx]; exact ht t htm

theorem dvOk_sim {vars1 vars2 : List String} {d1 d2 : List (String × String)}
    (hv : ∀ t, T t → (t ∈ vars1 ↔ t ∈ vars2))
    (hd : ∀ a b, T a → T b → a ∈ vars1 → b ∈ vars1 → (a, b) ∈ d1 → (a, b) ∈ d2)
    {σ : VSubst} (hσ : ∀ p ∈ σ, ∀ x ∈ p.2, T x) {p : String × String}
    (h : dvOk vars1 d1 σ p = true) : dvOk vars2 d2 σ p = true := by
  unfold dvOk at h ⊢
  split at h
  · next ex ey hx hy =>
    have hex := lookup_range hσ hx
    have hey := lookup_range hσ hy
    rw [← varsOf_congr hv hex, ← varsOf_congr hv hey]
    rw [List.all_eq_true] at h ⊢
    intro a ha
    have h' := h a ha
    rw [List.all_eq_true] at h' ⊢
    intro b hb
    have h'' := h' b hb
    simp only [Bool.and_eq_true, List.contains_iff_mem] at h'' ⊢
    refine ⟨h''.1, ?_⟩
    have ha' := mem_varsOf.1 ha
    have hb' := mem_varsOf.1 hb
    split
    · next hlt => rw [if_pos hlt] at h''; exact hd a b (hex a ha'.1) (hey b hb'.1) ha'.2 hb'.2 h''.2
    · next hlt => rw [if_neg hlt] at h''; exact hd b a (hey b hb'.1) (hex a ha'.1) hb'.2 ha'.2 h''.2
  · cases h

def StackOK (T : String → Prop) (st : List (List String)) : Prop := ∀ a ∈ st, ∀ x ∈ a, T x

theorem applyEntry_sim {vars1 vars2 : List String} {d1 d2 : List (String × String)}
    (hv : ∀ t, T t → (t ∈ vars1 ↔ t ∈ vars2))
    (hd : ∀ a b, T a → T b → a ∈ vars1 → b ∈ vars1 → (a, b) ∈ d1 → (a, b) ∈ d2)
    {e1 e2 : VEntry} (he : EntrySim T e1 e2) {stack r : List (List String)} (hs : StackOK T stack)
    (h : applyEntry vars1 d1 stack e1 = some r) : applyEntry vars2 d2 stack e2 = some r ∧ StackOK T r := by
  cases e1 with
  | f tc v =>
    cases e2 with
    | f tc' v' =>
      obtain ⟨rfl, rfl, htc, hv'⟩ := he
      simp only [applyEntry] at h ⊢
      injection h with h; subst h
      refine ⟨rfl, ?_⟩
      intro a ha
      rcases List.mem_cons.1 ha with rfl | ha
      · intro x hx; simp at hx; rcases hx with rfl | rfl <;> assumption
      · exact hs a ha
    | e _ => exact he.elim
    | a _ => exact he.elim
  | e toks =>
    cases e2 with
    | e toks' =>
      obtain ⟨rfl, ht⟩ := he
      simp only [applyEntry] at h ⊢
      injection h with h; subst h
      refine ⟨rfl, ?_⟩
      intro a ha
      rcases List.mem_cons.1 ha with rfl | ha
      · exact ht
      · exact hs a ha
    | f _ _ => exact he.elim
    | a _ => exact he.elim
  | a a1 =>
    cases e2 with
    | a a2 =>
      obtain ⟨hf, hee, hst, hdv, hT⟩ := he
      simp only [applyEntry] at h ⊢
      rw [← hf, ← hee, ← hst]
      split at h
      · cases h
      · next hlen =>
        rw [if_neg hlen]
        have hargs : ∀ a ∈ (stack.take (a1.fhyps.length + a1.ehyps.length)).reverse, ∀ x ∈ a, T x := by
          intro a ha
          exact hs a (List.mem_of_mem_take (List.mem_reverse.1 ha))
        split at h
        · cases h
        · next σ hσ =>
          have hσr := mkSubst_range (T := T) _ _ _ _ hσ hargs (by intro p hp; cases hp)
          split at h
          · next hc =>
            injection h with h; subst h
            have hc2 : ((a1.ehyps.zip (List.drop a1.fhyps.length
                (stack.take (a1.fhyps.length + a1.ehyps.length)).reverse)).all
                  (fun ea => substToks σ ea.1.2 == ea.2) && a2.dvs.all (dvOk vars2 d2 σ)) = true := by
              rw [Bool.and_eq_true] at hc ⊢
              refine ⟨hc.1, ?_⟩
              rw [List.all_eq_true]
              intro p hp
              exact dvOk_sim hv hd hσr (List.all_eq_true.1 hc.2 p (hdv p hp))
            rw [if_pos hc2]
            refine ⟨rfl, ?_⟩
            intro a ha
            rcases List.mem_cons.1 ha with rfl | ha
            · exact substToks_range hσr hT
            · exact hs a (List.mem_of_mem_drop ha)
          · cases h
    | f _ _ => exact he.elim
    | e _ => exact he.elim

/-- the proof run: the same steps succeed with the same stack -/
theorem runSteps_sim {look1 look2 : String → Option VEntry} {vars1 vars2 : List String}
    {d1 d2 : List (String × String)}
    (hv : ∀ t, T t → (t ∈ vars1 ↔ t ∈ vars2))
    (hd : ∀ a b, T a → T b → a ∈ vars1 → b ∈ vars1 → (a, b) ∈ d1 → (a, b) ∈ d2) :
    ∀ (steps : List PStep) (stack saved r : List (List String)),
      (∀ l, PStep.lab l ∈ steps → ∃ e1 e2, look1 l = some e1 ∧ look2 l = some e2 ∧ EntrySim T e1 e2) →
      StackOK T stack → StackOK T saved →
      runSteps look1 vars1 d1 steps stack saved = some r → runSteps look2 vars2 d2 steps stack saved = some r
  | [], stack, saved, r, _, _, _, h => by simpa [runSteps] using h
  | .save :: rest, stack, saved, r, hl, hs, hsv, h => by
      cases stack with
      | nil => simp [runSteps] at h
      | cons top stack' =>
        simp only [runSteps] at h ⊢
        refine runSteps_sim hv hd rest _ _ r (fun l hl' => hl l (List.mem_cons_of_mem _ hl')) hs ?_ h
        intro a ha
        rcases List.mem_append.1 ha with ha | ha
        · exact hsv a ha
        · simp at ha; subst ha; exact hs _ (by simp)
  | .lab l :: rest, stack, saved, r, hl, hs, hsv, h => by
      obtain ⟨e1, e2, h1, h2, he⟩ := hl l (by simp)
      simp only [runSteps, h1, h2] at h ⊢
      split at h
      · cases h
      · next stack' hap =>
        obtain ⟨hap2, hs'⟩ := applyEntry_sim hv hd he hs hap
        rw [hap2]
        exact runSteps_sim hv hd rest _ _ r (fun l hl' => hl l (List.mem_cons_of_mem _ hl')) hs' hsv h
  | .load j :: rest, stack, saved, r, hl, hs, hsv, h => by
      simp only [runSteps] at h ⊢
      split at h
      · cases h
      · next x hx =>
        refine runSteps_sim hv hd rest _ _ r (fun l hl' => hl l (List.mem_cons_of_mem _ hl')) ?_ hsv h
        intro a ha
        rcases List.mem_cons.1 ha with rfl | ha
        · exact hsv _ (List.mem_of_getElem? hx)
        · exact hs a ha

end ProofSim

/-! ## 2. labels -/

/-- what the labels denote, as one association list -/
def entries (st : VState) : List (String × VEntry) :=
  st.ctx.f.map (fun f => (f.1, VEntry.f f.2.1 f.2.2)) ++ st.ctx.e.map (fun e => (e.1, VEntry.e e.2)) ++
  st.asserts.map (fun a => (a.1, VEntry.a a.2))

theorem lookup_map_find {α β : Type} (key : α → String) (g : α → β) (k : String) :
    ∀ l : List α, (l.map fun x => (key x, g x)).lookup k = (l.find? fun x => key x == k).map g
  | [] => rfl
  | x :: l => by
      simp only [List.map_cons, List.lookup_cons, List.find?_cons]
      by_cases h : key x = k
      · subst h; simp
      · have h1 : (k == key x) = false := by simpa using fun e => h e.symm
        have h2 : (key x == k) = false := by simpa using h
        rw [h1, h2]; exact lookup_map_find key g k l

theorem lookupLabel_eq (st : VState) (l : String) : lookupLabel st l = (entries st).lookup l := by
  unfold lookupLabel entries
  rw [List.lookup_append, List.lookup_append,
    lookup_map_find (fun f : String × String × String => f.1) (fun f => VEntry.f f.2.1 f.2.2),
    lookup_map_find (fun e : String × List String => e.1) (fun e => VEntry.e e.2)]
  cases h1 : st.ctx.f.find? (fun f => f.1 == l) with
  | some f => simp
  | none =>
    cases h2 : st.ctx.e.find? (fun e => e.1 == l) with
    | some e => simp
    | none =>
      simp only [Option.map_none, Option.none_or]
      induction st.asserts with
      | nil => rfl
      | cons a as ih =>
        obtain ⟨k, v⟩ := a
        simp only [List.map_cons, List.lookup_cons]
        split
        · rfl
        · exact ih

theorem mem_entries {st : VState} {p : String × VEntry} : p ∈ entries st ↔
    (∃ f ∈ st.ctx.f, p = (f.1, VEntry.f f.2.1 f.2.2)) ∨ (∃ e ∈ st.ctx.e, p = (e.1, VEntry.e e.2)) ∨
    (∃ a ∈ st.asserts, p = (a.1, VEntry.a a.2)) := by
  simp only [entries, List.mem_append, List.mem_map, or_assoc]
  constructor
  · rintro (⟨f, hf, rfl⟩ | ⟨e, he, rfl⟩ | ⟨a, ha, rfl⟩)
    · exact Or.inl ⟨f, hf, rfl⟩
    · exact Or.inr (Or.inl ⟨e, he, rfl⟩)
    · exact Or.inr (Or.inr ⟨a, ha, rfl⟩)
  · rintro (⟨f, hf, rfl⟩ | ⟨e, he, rfl⟩ | ⟨a, ha, rfl⟩)
    · exact Or.inl ⟨f, hf, rfl⟩
    · exact Or.inr (Or.inl ⟨e, he, rfl⟩)
    · exact Or.inr (Or.inr ⟨a, ha, rfl⟩)

/-- a label denotes one thing -/
def Uniq (st : VState) : Prop := ∀ l e e', (l, e) ∈ entries st → (l, e') ∈ entries st → e = e'

def KeysSeen (st : VState) : Prop := ∀ p ∈ entries st, p.1 ∈ st.seen

def VInv (st : VState) : Prop := Uniq st ∧ KeysSeen st

theorem lookup_of_uniq {st : VState} (hu : Uniq st) {l : String} {e : VEntry} (h : (l, e) ∈ entries st) :
    lookupLabel st l = some e := by
  rw [lookupLabel_eq]
  cases hl : (entries st).lookup l with
  | none =>
    have := List.lookup_eq_none_iff.1 hl (l, e) h
    simp at this
  | some e' =>
    rw [hu l e e' h (lookup_mem _ _ _ hl)]

theorem mem_of_lookupLabel {st : VState} {l : String} {e : VEntry} (h : lookupLabel st l = some e) :
    (l, e) ∈ entries st := by
  rw [lookupLabel_eq] at h
  exact lookup_mem _ _ _ h

theorem lookupLabel_none {st : VState} (hk : KeysSeen st) {l : String} (h : l ∉ st.seen) :
    lookupLabel st l = none := by
  cases hl : lookupLabel st l with
  | none => rfl
  | some e => exact absurd (hk _ (mem_of_lookupLabel hl)) h

structure StMono (st st' : VState) : Prop where
  f : ∀ x ∈ st.ctx.f, x ∈ st'.ctx.f
  e : ∀ x ∈ st.ctx.e, x ∈ st'.ctx.e
  a : ∀ x ∈ st.asserts, x ∈ st'.asserts
  s : ∀ x ∈ st.seen, x ∈ st'.seen

theorem StMono.refl (st : VState) : StMono st st := ⟨fun _ h => h, fun _ h => h, fun _ h => h, fun _ h => h⟩

theorem StMono.trans {a b c : VState} (h1 : StMono a b) (h2 : StMono b c) : StMono a c :=
  ⟨fun x h => h2.f x (h1.f x h), fun x h => h2.e x (h1.e x h), fun x h => h2.a x (h1.a x h),
   fun x h => h2.s x (h1.s x h)⟩

theorem StMono.entries {st st' : VState} (h : StMono st st') : ∀ p ∈ entries st, p ∈ entries st' := by
  intro p hp
  rcases mem_entries.1 hp with ⟨f, hf, rfl⟩ | ⟨e, he, rfl⟩ | ⟨a, ha, rfl⟩
  · exact mem_entries.2 (Or.inl ⟨f, h.f f hf, rfl⟩)
  · exact mem_entries.2 (Or.inr (Or.inl ⟨e, h.e e he, rfl⟩))
  · exact mem_entries.2 (Or.inr (Or.inr ⟨a, h.a a ha, rfl⟩))

/-- a state whose entries and used labels are among those of a good state is good -/
theorem inv_sub {st st' : VState} (hi : VInv st) (he : ∀ p ∈ entries st', p ∈ entries st)
    (hs : ∀ x ∈ st.seen, x ∈ st'.seen) : VInv st' :=
  ⟨fun l e e' h1 h2 => hi.1 l e e' (he _ h1) (he _ h2), fun p hp => hs _ (hi.2 p (he p hp))⟩

/-- declaring a fresh label -/
theorem inv_add {st st' : VState} (hi : VInv st) {l : String} {e : VEntry} (hl : l ∉ st.seen)
    (he : ∀ p ∈ entries st', p ∈ entries st ∨ p = (l, e)) (hs : st'.seen = st.seen ++ [l]) : VInv st' := by
  constructor
  · intro k e1 e2 h1 h2
    rcases he _ h1 with h1 | h1 <;> rcases he _ h2 with h2 | h2
    · exact hi.1 k e1 e2 h1 h2
    · injection h2 with hk _; subst hk; exact absurd (hi.2 _ h1) hl
    · injection h1 with hk _; subst hk; exact absurd (hi.2 _ h2) hl
    · injection h1 with _ h1; injection h2 with _ h2; rw [h1, h2]
  · intro p hp
    rw [hs]
    rcases he p hp with h | rfl
    · exact List.mem_append_left _ (hi.2 p h)
    · simp

theorem not_mem_of_contains_false {l : String} {xs : List String} (h : xs.contains l = false) : l ∉ xs := by
  intro hmem
  rw [List.contains_iff_mem.2 hmem] at h
  cases h

mutual
/-- along a successful run labels stay unique and nothing that is visible disappears inside a scope -/
theorem runStmt_inv (tgt : Option String) : ∀ (s : MStmt) (st st' : VState),
    runStmt tgt st s = .ok st' → VInv st → VInv st' ∧ StMono st st'
  | .const cs, st, st', h, hi => by
      simp only [runStmt] at h; injection h with h; subst h
      exact ⟨inv_sub hi (fun p hp => hp) (fun x hx => hx), ⟨fun _ h => h, fun _ h => h, fun _ h => h, fun _ h => h⟩⟩
  | .var vs, st, st', h, hi => by
      simp only [runStmt] at h; injection h with h; subst h
      exact ⟨inv_sub hi (fun p hp => hp) (fun x hx => hx), ⟨fun _ h => h, fun _ h => h, fun _ h => h, fun _ h => h⟩⟩
  | .disj vs, st, st', h, hi => by
      simp only [runStmt] at h
      split at h
      · injection h with h; subst h
        exact ⟨inv_sub hi (fun p hp => hp) (fun x hx => hx), ⟨fun _ h => h, fun _ h => h, fun _ h => h, fun _ h => h⟩⟩
      · cases h
  | .float l tc v, st, st', h, hi => by
      simp only [runStmt] at h
      split at h
      · next hc =>
        injection h with h; subst h
        simp only [Bool.and_eq_true, Bool.not_eq_true'] at hc
        have hl : l ∉ st.seen := not_mem_of_contains_false hc.2
        refine ⟨inv_add hi (l := l) (e := .f tc v) hl ?_ rfl,
          ⟨fun x h => List.mem_append_left _ h, fun _ h => h, fun _ h => h, fun x h => List.mem_append_left _ h⟩⟩
        intro p hp
        rcases mem_entries.1 hp with ⟨f, hf, rfl⟩ | ⟨e, he, rfl⟩ | ⟨a, ha, rfl⟩
        · rcases List.mem_append.1 hf with hf | hf
          · exact Or.inl (mem_entries.2 (Or.inl ⟨f, hf, rfl⟩))
          · simp at hf; subst hf; exact Or.inr rfl
        · exact Or.inl (mem_entries.2 (Or.inr (Or.inl ⟨e, he, rfl⟩)))
        · exact Or.inl (mem_entries.2 (Or.inr (Or.inr ⟨a, ha, rfl⟩)))
      · cases h
  | .ess l ts, st, st', h, hi => by
      simp only [runStmt] at h
      split at h
      · next hc =>
        injection h with h; subst h
        simp only [Bool.and_eq_true, Bool.not_eq_true'] at hc
        have hl : l ∉ st.seen := not_mem_of_contains_false hc.2
        refine ⟨inv_add hi (l := l) (e := .e (printTerms ts)) hl ?_ rfl,
          ⟨fun _ h => h, fun x h => List.mem_append_left _ h, fun _ h => h, fun x h => List.mem_append_left _ h⟩⟩
        intro p hp
        rcases mem_entries.1 hp with ⟨f, hf, rfl⟩ | ⟨e, he, rfl⟩ | ⟨a, ha, rfl⟩
        · exact Or.inl (mem_entries.2 (Or.inl ⟨f, hf, rfl⟩))
        · rcases List.mem_append.1 he with he | he
          · exact Or.inl (mem_entries.2 (Or.inr (Or.inl ⟨e, he, rfl⟩)))
          · simp at he; subst he; exact Or.inr rfl
        · exact Or.inl (mem_entries.2 (Or.inr (Or.inr ⟨a, ha, rfl⟩)))
      · cases h
  | .ax l ts, st, st', h, hi => by
      simp only [runStmt] at h
      split at h
      · next hc =>
        injection h with h; subst h
        simp only [Bool.and_eq_true, Bool.not_eq_true'] at hc
        have hl : l ∉ st.seen := not_mem_of_contains_false hc.2
        refine ⟨inv_add hi (l := l) (e := .a (makeAssertion st.ctx (printTerms ts))) hl ?_ rfl,
          ⟨fun _ h => h, fun _ h => h, fun x h => List.mem_append_left _ h, fun x h => List.mem_append_left _ h⟩⟩
        intro p hp
        rcases mem_entries.1 hp with ⟨f, hf, rfl⟩ | ⟨e, he, rfl⟩ | ⟨a, ha, rfl⟩
        · exact Or.inl (mem_entries.2 (Or.inl ⟨f, hf, rfl⟩))
        · exact Or.inl (mem_entries.2 (Or.inr (Or.inl ⟨e, he, rfl⟩)))
        · rcases List.mem_append.1 ha with ha | ha
          · exact Or.inl (mem_entries.2 (Or.inr (Or.inr ⟨a, ha, rfl⟩)))
          · simp at ha; subst ha; exact Or.inr rfl
      · cases h
  | .prov l ts pf, st, st', h, hi => by
      simp only [runStmt] at h
      split at h
      · next hc =>
        simp only [Bool.and_eq_true, Bool.not_eq_true'] at hc
        have hl : l ∉ st.seen := not_mem_of_contains_false hc.2
        have key : ∀ st'' : VState, st'' = ⟨st.ctx, st.asserts ++ [(l, makeAssertion st.ctx (printTerms ts))], st.seen ++ [l]⟩ →
            VInv st'' ∧ StMono st st'' := by
          intro st'' e; subst e
          refine ⟨inv_add hi (l := l) (e := .a (makeAssertion st.ctx (printTerms ts))) hl ?_ rfl,
            ⟨fun _ h => h, fun _ h => h, fun x h => List.mem_append_left _ h, fun x h => List.mem_append_left _ h⟩⟩
          intro p hp
          rcases mem_entries.1 hp with ⟨f, hf, rfl⟩ | ⟨e, he, rfl⟩ | ⟨a, ha, rfl⟩
          · exact Or.inl (mem_entries.2 (Or.inl ⟨f, hf, rfl⟩))
          · exact Or.inl (mem_entries.2 (Or.inr (Or.inl ⟨e, he, rfl⟩)))
          · rcases List.mem_append.1 ha with ha | ha
            · exact Or.inl (mem_entries.2 (Or.inr (Or.inr ⟨a, ha, rfl⟩)))
            · simp at ha; subst ha; exact Or.inr rfl
        split at h
        · split at h
          · injection h with h; exact key _ h.symm
          · cases h
        · split at h
          · split at h <;> cases h
          · injection h with h; exact key _ h.symm
      · cases h
  | .block ss, st, st', h, hi => by
      simp only [runStmt] at h
      split at h
      · next st'' h2 =>
        injection h with h; subst h
        obtain ⟨hi'', hm⟩ := runStmts_inv tgt ss st st'' h2 hi
        refine ⟨inv_sub hi'' ?_ (fun x hx => hx), ⟨fun _ h => h, fun _ h => h, hm.a, hm.s⟩⟩
        intro p hp
        rcases mem_entries.1 hp with ⟨f, hf, rfl⟩ | ⟨e, he, rfl⟩ | ⟨a, ha, rfl⟩
        · exact mem_entries.2 (Or.inl ⟨f, hm.f f hf, rfl⟩)
        · exact mem_entries.2 (Or.inr (Or.inl ⟨e, hm.e e he, rfl⟩))
        · exact mem_entries.2 (Or.inr (Or.inr ⟨a, ha, rfl⟩))
      · cases h
      · cases h
theorem runStmts_inv (tgt : Option String) : ∀ (ss : List MStmt) (st st' : VState),
    runStmts tgt st ss = .ok st' → VInv st → VInv st' ∧ StMono st st'
  | [], st, st', h, hi => by
      simp only [runStmts] at h; injection h with h; subst h
      exact ⟨hi, StMono.refl _⟩
  | s :: ss, st, st', h, hi => by
      simp only [runStmts] at h
      split at h
      · next st1 h1 =>
        obtain ⟨hi1, hm1⟩ := runStmt_inv tgt s st st1 h1 hi
        obtain ⟨hi2, hm2⟩ := runStmts_inv tgt ss st1 st' h hi1
        exact ⟨hi2, hm1.trans hm2⟩
      · cases h
      · cases h
end

theorem inv_init : VInv {} := ⟨fun l e e' h => by simp [entries] at h, fun p hp => by simp [entries] at hp⟩

/-! ## 3. the same statement in two contexts -/

mutual
/-- the statements of a statement that are not blocks, in order -/
def flat : MStmt → List MStmt
  | .block ss => flatL ss
  | s => [s]
def flatL : List MStmt → List MStmt
  | [] => []
  | s :: ss => flat s ++ flatL ss
end

theorem flatL_append : ∀ (a b : List MStmt), flatL (a ++ b) = flatL a ++ flatL b
  | [], b => by simp [flatL]
  | s :: a, b => by simp [flatL, flatL_append a b]

theorem mem_flatL {x : MStmt} : ∀ {ss : List MStmt}, x ∈ flatL ss ↔ ∃ s ∈ ss, x ∈ flat s
  | [] => by simp [flatL]
  | s :: ss => by simp [flatL, mem_flatL (ss := ss)]

/-- the label under which an assertion is registered -/
def assertLabel? : MStmt → Option String
  | .ax l _ => some l
  | .prov l _ _ => some l
  | _ => none

def assertLabels (s : MStmt) : List String := (flat s).filterMap assertLabel?
def assertLabelsL (ss : List MStmt) : List String := (flatL ss).filterMap assertLabel?

theorem checkSymbols_iff {c : VCtx} {toks : List String} {nf : Bool} :
    checkSymbols c toks nf = true ↔
      (∃ x rest, toks = x :: rest ∧ x ∈ c.c) ∧
      ∀ x ∈ toks, ¬(x ∈ c.c ∧ x ∈ c.v) ∧ (x ∈ c.c ∨ x ∈ c.v) ∧
        (nf = true → x ∈ c.v → ∃ f ∈ c.f, f.2.2 = x) := by
  unfold checkSymbols
  rw [Bool.and_eq_true, List.all_eq_true]
  constructor
  · rintro ⟨h1, h2⟩
    refine ⟨?_, ?_⟩
    · cases toks with
      | nil => simp at h1
      | cons x rest => exact ⟨x, rest, rfl, by simpa using h1⟩
    · intro x hx
      have := h2 x hx
      simp only [Bool.and_eq_true, Bool.not_eq_true', Bool.or_eq_true, List.contains_iff_mem,
        Bool.and_eq_false_iff, List.any_eq_true, beq_iff_eq] at this
      obtain ⟨⟨h3, h4⟩, h5⟩ := this
      refine ⟨?_, h4, ?_⟩
      · rintro ⟨a, b⟩
        rcases h3 with h3 | h3
        · rw [List.contains_iff_mem.2 a] at h3; cases h3
        · rw [List.contains_iff_mem.2 b] at h3; cases h3
      · intro hnf hv
        rcases h5 with (h5 | h5) | h5
        · rw [hnf] at h5; cases h5
        · rw [List.contains_iff_mem.2 hv] at h5; cases h5
        · exact h5
  · rintro ⟨⟨x, rest, rfl, hx⟩, h2⟩
    refine ⟨by simpa using hx, ?_⟩
    intro y hy
    obtain ⟨h3, h4, h5⟩ := h2 y hy
    simp only [Bool.and_eq_true, Bool.not_eq_true', Bool.or_eq_true, List.contains_iff_mem,
      Bool.and_eq_false_iff, List.any_eq_true, beq_iff_eq]
    refine ⟨⟨?_, h4⟩, ?_⟩
    · by_cases a : y ∈ c.c
      · right
        cases hb : c.v.contains y with
        | false => rfl
        | true => exact absurd ⟨a, List.contains_iff_mem.1 hb⟩ h3
      · left
        cases hb : c.c.contains y with
        | false => rfl
        | true => exact absurd (List.contains_iff_mem.1 hb) a
    · cases nf with
      | false => left; left; rfl
      | true =>
        by_cases hv : y ∈ c.v
        · right; exact h5 rfl hv
        · left; right
          cases hb : c.v.contains y with
          | false => rfl
          | true => exact absurd (List.contains_iff_mem.1 hb) hv

mutual
/-- the tokens of a printed term: parentheses, its constants, its metavariables -/
theorem mem_printTerm : ∀ (t : MTerm) (x : String), x ∈ printTerm t →
    x = "(" ∨ x = ")" ∨ x ∈ termConstants t ∨ x ∈ termMvs t
  | .mv n, x, h => by simp [printTerm] at h; subst h; simp [termMvs]
  | .app s [], x, h => by simp [printTerm] at h; subst h; simp [termConstants]
  | .app s (a :: as), x, h => by
      simp only [printTerm, List.mem_cons, List.mem_append, List.not_mem_nil, or_false] at h
      rcases h with h | h | h | h
      · exact Or.inl h
      · subst h; simp [termConstants]
      · rcases mem_printTerms (a :: as) x h with h | h | h | h
        · exact Or.inl h
        · exact Or.inr (Or.inl h)
        · exact Or.inr (Or.inr (Or.inl (by simp only [termConstants]; exact List.mem_cons_of_mem _ h)))
        · exact Or.inr (Or.inr (Or.inr (by simp only [termMvs]; exact h)))
      · exact Or.inr (Or.inl h)
theorem mem_printTerms : ∀ (ts : List MTerm) (x : String), x ∈ printTerms ts →
    x = "(" ∨ x = ")" ∨ x ∈ termsConstants ts ∨ x ∈ termsMvs ts
  | [], x, h => by simp [printTerms] at h
  | t :: ts, x, h => by
      simp only [printTerms, List.mem_append] at h
      rcases h with h | h
      · rcases mem_printTerm t x h with h | h | h | h
        · exact Or.inl h
        · exact Or.inr (Or.inl h)
        · exact Or.inr (Or.inr (Or.inl (by simp [termsConstants, h])))
        · exact Or.inr (Or.inr (Or.inr (by simp [termsMvs, h])))
      · rcases mem_printTerms ts x h with h | h | h | h
        · exact Or.inl h
        · exact Or.inr (Or.inl h)
        · exact Or.inr (Or.inr (Or.inl (by simp [termsConstants, h])))
        · exact Or.inr (Or.inr (Or.inr (by simp [termsMvs, h])))
end

mutual
theorem mvs_sub_printTerm : ∀ (t : MTerm) (x : String), x ∈ termMvs t → x ∈ printTerm t
  | .mv n, x, h => by simpa [termMvs, printTerm] using h
  | .app s [], x, h => by simp [termMvs, termsMvs] at h
  | .app s (a :: as), x, h => by
      simp only [termMvs] at h
      simp only [printTerm, List.mem_cons, List.mem_append]
      exact Or.inr (Or.inr (Or.inl (mvs_sub_printTerms (a :: as) x h)))
theorem mvs_sub_printTerms : ∀ (ts : List MTerm) (x : String), x ∈ termsMvs ts → x ∈ printTerms ts
  | [], x, h => by simp [termsMvs] at h
  | t :: ts, x, h => by
      simp only [termsMvs, List.mem_append] at h
      simp only [printTerms, List.mem_append]
      rcases h with h | h
      · exact Or.inl (mvs_sub_printTerm t x h)
      · exact Or.inr (mvs_sub_printTerms ts x h)
end

section Sim
set_option linter.unusedSectionVars false
variable (Vdb mvs C2 M : List String)

/-- a symbol of a kept statement: a kept variable, or a constant of the slice that is not a variable of the database -/
def TokGood (x : String) : Prop := x ∈ mvs ∨ (x ∈ C2 ∧ x ∉ Vdb)

/-- database context `c1`, slice context `c2`, inside a top-level statement whose metavariables are `M` -/
structure CtxRel (c1 c2 : VCtx) : Prop where
  vK : ∀ x, x ∈ c2.v ↔ x ∈ mvs
  vV : ∀ x ∈ c1.v, x ∈ Vdb
  cV : ∀ x ∈ c1.c, x ∉ Vdb
  cC : ∀ x, x ∈ c2.c ↔ x ∈ C2
  fF : c2.f = c1.f.filter fun f => mvs.contains f.2.2
  eE : c2.e = c1.e
  eM : ∀ e ∈ c1.e, ∀ x ∈ varsOf c1.v e.2, x ∈ M
  eV : ∀ e ∈ c1.e, varsOf c1.v e.2 = varsOf c2.v e.2
  eT : ∀ e ∈ c1.e, ∀ x ∈ e.2, x ∈ mvs ∨ (x ∈ C2 ∧ x ∉ Vdb)
  d21 : ∀ p ∈ c2.d, p.1 ∈ M → p.2 ∈ M → p ∈ c1.d
  d12 : ∀ p ∈ c1.d, p.1 ∈ mvs → p.2 ∈ mvs → p ∈ c2.d

/-- assertion of the database, assertion of the slice -/
def ASim (a1 a2 : VAssert) : Prop :=
  a1.fhyps = a2.fhyps ∧ a1.ehyps = a2.ehyps ∧ a1.stmt = a2.stmt ∧ (∀ p ∈ a2.dvs, p ∈ a1.dvs) ∧
    ∀ x ∈ a1.stmt, TokGood Vdb mvs C2 x

/-- the symbols of a kept statement: good tokens, the variables among them are metavariables of the top-level statement -/
def TermsOK (ts : List MTerm) : Prop :=
  (∀ x ∈ printTerms ts, TokGood Vdb mvs C2 x) ∧ ∀ x ∈ printTerms ts, x ∈ Vdb → x ∈ M

/-- what is asked of the non-block statements of a kept statement (`t`: the target lemma) -/
def LeafOK (t : String) : MStmt → Prop
  | .disj vs => ∀ x ∈ vs, x ∈ mvs
  | .ess _ ts => TermsOK Vdb mvs C2 M ts ∧ ∀ x ∈ termsMvs ts, x ∈ mvs
  | .ax _ ts => TermsOK Vdb mvs C2 M ts ∧ ∀ x ∈ termsMvs ts, x ∈ mvs
  | .prov l ts _ => l ≠ t ∧ TermsOK Vdb mvs C2 M ts ∧ ∀ x ∈ termsMvs ts, x ∈ mvs
  | _ => False

variable {Vdb mvs C2 M}
variable (kV : ∀ x ∈ mvs, x ∈ Vdb) (cV2 : ∀ x ∈ C2, x ∉ Vdb)
include kV cV2

theorem tok_var_iff {c1 c2 : VCtx} (hr : CtxRel Vdb mvs C2 M c1 c2) {x : String}
    (hg : TokGood Vdb mvs C2 x) (hc : x ∈ c1.c ∨ x ∈ c1.v) : x ∈ c1.v ↔ x ∈ c2.v := by
  constructor
  · intro h
    rcases hg with hg | hg
    · exact (hr.vK x).2 hg
    · exact absurd (hr.vV x h) hg.2
  · intro h
    have hm := (hr.vK x).1 h
    rcases hc with hc | hc
    · exact absurd (kV x hm) (hr.cV x hc)
    · exact hc

theorem varsOf_rel {c1 c2 : VCtx} (hr : CtxRel Vdb mvs C2 M c1 c2) {toks : List String}
    (hg : ∀ x ∈ toks, TokGood Vdb mvs C2 x) (hc : ∀ x ∈ toks, x ∈ c1.c ∨ x ∈ c1.v) :
    varsOf c1.v toks = varsOf c2.v toks := by
  unfold varsOf
  apply List.filter_congr
  intro x hx
  have := tok_var_iff kV cV2 hr (hg x hx) (hc x hx)
  by_cases h : x ∈ c1.v
  · simp [h, this.1 h]
  · have h2 : x ∉ c2.v := fun h' => h (this.2 h')
    simp [h, h2]

theorem check_rel {c1 c2 : VCtx} (hr : CtxRel Vdb mvs C2 M c1 c2) {toks : List String} {nf : Bool}
    (hg : ∀ x ∈ toks, TokGood Vdb mvs C2 x) (h : checkSymbols c1 toks nf = true) :
    checkSymbols c2 toks nf = true := by
  rw [checkSymbols_iff] at h ⊢
  obtain ⟨⟨x, rest, rfl, hx⟩, h2⟩ := h
  refine ⟨⟨x, rest, rfl, ?_⟩, ?_⟩
  · rcases hg x (by simp) with hgx | hgx
    · exact absurd (kV x hgx) (hr.cV x hx)
    · exact (hr.cC x).2 hgx.1
  · intro y hy
    obtain ⟨h3, h4, h5⟩ := h2 y hy
    rcases hg y hy with hgy | hgy
    · have hyv : y ∈ c2.v := (hr.vK y).2 hgy
      have hyc : y ∉ c2.c := fun hc => cV2 y ((hr.cC y).1 hc) (kV y hgy)
      refine ⟨fun hh => hyc hh.1, Or.inr hyv, ?_⟩
      intro hnf _
      have hy1 : y ∈ c1.v := by
        rcases h4 with h4 | h4
        · exact absurd (kV y hgy) (hr.cV y h4)
        · exact h4
      obtain ⟨f, hf, hfy⟩ := h5 hnf hy1
      refine ⟨f, ?_, hfy⟩
      rw [hr.fF, List.mem_filter]
      exact ⟨hf, by rw [hfy]; exact List.contains_iff_mem.2 hgy⟩
    · have hyc : y ∈ c2.c := (hr.cC y).2 hgy.1
      have hyv : y ∉ c2.v := fun hv => hgy.2 (kV y ((hr.vK y).1 hv))
      exact ⟨fun hh => hyv hh.2, Or.inl hyc, fun _ hv => absurd hv hyv⟩

theorem makeAssertion_rel {c1 c2 : VCtx} (hr : CtxRel Vdb mvs C2 M c1 c2) {toks : List String}
    (hg : ∀ x ∈ toks, TokGood Vdb mvs C2 x) (hM : ∀ x ∈ toks, x ∈ Vdb → x ∈ M)
    (hc : ∀ x ∈ toks, x ∈ c1.c ∨ x ∈ c1.v) :
    ASim Vdb mvs C2 (makeAssertion c1 toks) (makeAssertion c2 toks) := by
  have hv := varsOf_rel kV cV2 hr hg hc
  have hmand : varsOf c1.v toks ++ c1.e.flatMap (fun e => varsOf c1.v e.2) =
      varsOf c2.v toks ++ c2.e.flatMap (fun e => varsOf c2.v e.2) := by
    rw [hv, hr.eE]
    congr 1
    have : ∀ l : List (String × List String), (∀ e ∈ l, varsOf c1.v e.2 = varsOf c2.v e.2) →
        l.flatMap (fun e => varsOf c1.v e.2) = l.flatMap (fun e => varsOf c2.v e.2) := by
      intro l
      induction l with
      | nil => intro _; rfl
      | cons a l ih =>
        intro h
        simp only [List.flatMap_cons]
        rw [h a (by simp), ih (fun e he => h e (List.mem_cons_of_mem _ he))]
    exact this _ hr.eV
  have hmandM : ∀ x ∈ varsOf c1.v toks ++ c1.e.flatMap (fun e => varsOf c1.v e.2), x ∈ M ∧ x ∈ mvs := by
    intro x hx
    have hx2 : x ∈ c2.v := by
      rw [hmand] at hx
      rcases List.mem_append.1 hx with hx | hx
      · exact (mem_varsOf.1 hx).2
      · obtain ⟨e, _, hx⟩ := List.mem_flatMap.1 hx
        exact (mem_varsOf.1 hx).2
    refine ⟨?_, (hr.vK x).1 hx2⟩
    rcases List.mem_append.1 hx with hx | hx
    · have := mem_varsOf.1 hx
      exact hM x this.1 (hr.vV x this.2)
    · obtain ⟨e, he, hx⟩ := List.mem_flatMap.1 hx
      exact hr.eM e he x hx
  refine ⟨?_, ?_, rfl, ?_, hg⟩
  · show c1.f.filter _ = c2.f.filter _
    rw [← hmand, hr.fF, List.filter_filter]
    apply List.filter_congr
    intro f _
    by_cases hf : (varsOf c1.v toks ++ c1.e.flatMap (fun e => varsOf c1.v e.2)).contains f.2.2 = true
    · rw [hf, List.contains_iff_mem.2 (hmandM _ (List.contains_iff_mem.1 hf)).2]; rfl
    · simp only [Bool.not_eq_true] at hf; rw [hf]; rfl
  · exact hr.eE.symm
  · intro p hp
    show p ∈ c1.d.filter _
    have hp' : p ∈ c2.d.filter _ := hp
    rw [← hmand] at hp'
    rw [List.mem_filter] at hp' ⊢
    simp only [Bool.and_eq_true, List.contains_iff_mem] at hp' ⊢
    exact ⟨hr.d21 p hp'.1 (hmandM _ hp'.2.1).1 (hmandM _ hp'.2.2).1, hp'.2⟩

/-- the outcome of running the same statement(s) on both sides -/
structure SimRes (labels mvl : List String) (st1 st1' st2 st2' : VState) : Prop where
  ctx : CtxRel Vdb mvs C2 M st1'.ctx st2'.ctx
  seen : ∀ x ∈ st2'.seen, x ∈ st1'.seen
  v1 : st1'.ctx.v = st1.ctx.v
  f1 : st1'.ctx.f = st1.ctx.f
  mv : ∀ x ∈ mvl, x ∈ st1.ctx.v
  asserts : ∃ n1 n2, st1'.asserts = st1.asserts ++ n1 ∧ st2'.asserts = st2.asserts ++ n2 ∧
    n1.map (·.1) = labels ∧ n2.map (·.1) = labels ∧
    ∀ l a2, (l, a2) ∈ n2 → ∃ a1, (l, a1) ∈ n1 ∧ ASim Vdb mvs C2 a1 a2

theorem terms_mv {c1 c2 : VCtx} (hr : CtxRel Vdb mvs C2 M c1 c2) {ts : List MTerm}
    (hmv : ∀ x ∈ termsMvs ts, x ∈ mvs) (hc : checkSymbols c1 (printTerms ts) true = true) :
    ∀ x ∈ termsMvs ts, x ∈ c1.v := by
  intro x hx
  rcases ((checkSymbols_iff.1 hc).2 x (mvs_sub_printTerms ts x hx)).2.1 with h | h
  · exact absurd (kV x (hmv x hx)) (hr.cV x h)
  · exact h

theorem simRes_assert {st1 st2 : VState} (hr : CtxRel Vdb mvs C2 M st1.ctx st2.ctx)
    (hseen : ∀ x ∈ st2.seen, x ∈ st1.seen) {l : String} {ts : List MTerm}
    (hg : ∀ x ∈ printTerms ts, TokGood Vdb mvs C2 x) (hM : ∀ x ∈ printTerms ts, x ∈ Vdb → x ∈ M)
    (hmv : ∀ x ∈ termsMvs ts, x ∈ mvs)
    (hc : checkSymbols st1.ctx (printTerms ts) true = true) :
    SimRes (Vdb := Vdb) (mvs := mvs) (C2 := C2) (M := M) [l] (termsMvs ts) st1
      ⟨st1.ctx, st1.asserts ++ [(l, makeAssertion st1.ctx (printTerms ts))], st1.seen ++ [l]⟩ st2
      ⟨st2.ctx, st2.asserts ++ [(l, makeAssertion st2.ctx (printTerms ts))], st2.seen ++ [l]⟩ := by
  refine {
    ctx := hr
    seen := ?_
    v1 := rfl
    f1 := rfl
    mv := terms_mv kV cV2 hr hmv hc
    asserts := ⟨[(l, makeAssertion st1.ctx (printTerms ts))], [(l, makeAssertion st2.ctx (printTerms ts))],
              rfl, rfl, rfl, rfl, ?_⟩ }
  · intro x hx
    rcases List.mem_append.1 hx with hx | hx
    · exact List.mem_append_left _ (hseen x hx)
    · exact List.mem_append_right _ hx
  · intro l' a2 h
    simp only [List.mem_singleton, Prod.mk.injEq] at h
    obtain ⟨rfl, rfl⟩ := h
    refine ⟨_, by simp, makeAssertion_rel kV cV2 hr hg hM ?_⟩
    intro x hx
    exact ((checkSymbols_iff.1 hc).2 x hx).2.1

mutual
theorem sim_stmt (t : String) : ∀ (s : MStmt) (st1 st1' st2 : VState),
    (∀ x ∈ flat s, LeafOK Vdb mvs C2 M t x) → CtxRel Vdb mvs C2 M st1.ctx st2.ctx →
    (∀ x ∈ st2.seen, x ∈ st1.seen) → runStmt (some t) st1 s = .ok st1' →
    ∃ st2', runStmt (some t) st2 s = .ok st2' ∧
      SimRes (Vdb := Vdb) (mvs := mvs) (C2 := C2) (M := M) (assertLabels s) (stmtMvs s) st1 st1' st2 st2'
  | .const cs, st1, st1', st2, hl, hr, hseen, h => False.elim (hl (.const cs) (by simp [flat]))
  | .var vs, st1, st1', st2, hl, hr, hseen, h => False.elim (hl (.var vs) (by simp [flat]))
  | .float l tc v, st1, st1', st2, hl, hr, hseen, h => False.elim (hl (.float l tc v) (by simp [flat]))
  | .disj vs, st1, st1', st2, hl, hr, hseen, h => by
      have hvs : ∀ x ∈ vs, x ∈ mvs := hl (.disj vs) (by simp [flat])
      simp only [runStmt] at h ⊢
      split at h
      · next hc1 =>
        injection h with h; subst h
        have : (vs.all fun t => st2.ctx.v.contains t) = true := by
          rw [List.all_eq_true]; intro x hx
          exact List.contains_iff_mem.2 ((hr.vK x).2 (hvs x hx))
        rw [if_pos this]
        refine ⟨_, rfl, {
          ctx := ?_
          seen := hseen
          v1 := rfl
          f1 := rfl
          mv := ?_
          asserts := ⟨[], [], by simp, by simp, by simp [assertLabels, flat, assertLabel?],
            by simp [assertLabels, flat, assertLabel?], by intro l a h; cases h⟩ }⟩
        · exact { hr with
            d21 := by
              intro p hp h1 h2
              rcases List.mem_append.1 hp with hp | hp
              · exact List.mem_append_left _ (hr.d21 p hp h1 h2)
              · exact List.mem_append_right _ hp
            d12 := by
              intro p hp h1 h2
              rcases List.mem_append.1 hp with hp | hp
              · exact List.mem_append_left _ (hr.d12 p hp h1 h2)
              · exact List.mem_append_right _ hp }
        · intro x hx
          exact List.contains_iff_mem.1 (List.all_eq_true.1 hc1 x hx)
      · cases h
  | .ess l ts, st1, st1', st2, hl, hr, hseen, h => by
      obtain ⟨⟨hg, hM⟩, hmv⟩ : TermsOK Vdb mvs C2 M ts ∧ ∀ x ∈ termsMvs ts, x ∈ mvs :=
        hl (.ess l ts) (by simp [flat])
      simp only [runStmt] at h ⊢
      split at h
      · next hc =>
        injection h with h; subst h
        simp only [Bool.and_eq_true, Bool.not_eq_true'] at hc
        have hl1 : l ∉ st1.seen := not_mem_of_contains_false hc.2
        have hl2 : st2.seen.contains l = false := by
          cases hb : st2.seen.contains l with
          | false => rfl
          | true => exact absurd (hseen l (List.contains_iff_mem.1 hb)) hl1
        have hc2 := check_rel kV cV2 hr hg hc.1
        rw [hc2, hl2]
        simp only [Bool.not_false, Bool.and_self, if_true]
        have hcm : ∀ x ∈ printTerms ts, x ∈ st1.ctx.c ∨ x ∈ st1.ctx.v :=
          fun x hx => ((checkSymbols_iff.1 hc.1).2 x hx).2.1
        refine ⟨_, rfl, {
          ctx := ?_
          seen := ?_
          v1 := rfl
          f1 := rfl
          mv := terms_mv kV cV2 hr hmv hc.1
          asserts := ⟨[], [], by simp, by simp, by simp [assertLabels, flat, assertLabel?],
            by simp [assertLabels, flat, assertLabel?], by intro l a h; cases h⟩ }⟩
        · exact { hr with
            eE := by show st2.ctx.e ++ _ = st1.ctx.e ++ _; rw [hr.eE]
            eM := by
              intro e he x hx
              rcases List.mem_append.1 he with he | he
              · exact hr.eM e he x hx
              · simp only [List.mem_singleton] at he; subst he
                have := mem_varsOf.1 hx
                exact hM x this.1 (hr.vV x this.2)
            eV := by
              intro e he
              rcases List.mem_append.1 he with he | he
              · exact hr.eV e he
              · simp only [List.mem_singleton] at he; subst he
                exact varsOf_rel kV cV2 hr hg hcm
            eT := by
              intro e he
              rcases List.mem_append.1 he with he | he
              · exact hr.eT e he
              · simp only [List.mem_singleton] at he; subst he
                exact hg }
        · intro x hx
          rcases List.mem_append.1 hx with hx | hx
          · exact List.mem_append_left _ (hseen x hx)
          · exact List.mem_append_right _ hx
      · cases h
  | .ax l ts, st1, st1', st2, hl, hr, hseen, h => by
      obtain ⟨⟨hg, hM⟩, hmv⟩ : TermsOK Vdb mvs C2 M ts ∧ ∀ x ∈ termsMvs ts, x ∈ mvs :=
        hl (.ax l ts) (by simp [flat])
      simp only [runStmt] at h ⊢
      split at h
      · next hc =>
        injection h with h; subst h
        simp only [Bool.and_eq_true, Bool.not_eq_true'] at hc
        have hl1 : l ∉ st1.seen := not_mem_of_contains_false hc.2
        have hl2 : st2.seen.contains l = false := by
          cases hb : st2.seen.contains l with
          | false => rfl
          | true => exact absurd (hseen l (List.contains_iff_mem.1 hb)) hl1
        have hc2 := check_rel kV cV2 hr hg hc.1
        rw [hc2, hl2]
        simp only [Bool.not_false, Bool.and_self, if_true]
        refine ⟨_, rfl, ?_⟩
        have : assertLabels (.ax l ts) = [l] := by simp [assertLabels, flat, assertLabel?]
        rw [this]
        exact simRes_assert kV cV2 hr hseen hg hM hmv hc.1
      · cases h
  | .prov l ts pf, st1, st1', st2, hl, hr, hseen, h => by
      obtain ⟨hne, ⟨hg, hM⟩, hmv⟩ : l ≠ t ∧ TermsOK Vdb mvs C2 M ts ∧ ∀ x ∈ termsMvs ts, x ∈ mvs :=
        hl (.prov l ts pf) (by simp [flat])
      have hne' : ¬ t = l := fun e => hne e.symm
      simp only [runStmt, if_neg hne'] at h ⊢
      split at h
      · next hc =>
        injection h with h; subst h
        simp only [Bool.and_eq_true, Bool.not_eq_true'] at hc
        have hl1 : l ∉ st1.seen := not_mem_of_contains_false hc.2
        have hl2 : st2.seen.contains l = false := by
          cases hb : st2.seen.contains l with
          | false => rfl
          | true => exact absurd (hseen l (List.contains_iff_mem.1 hb)) hl1
        have hc2 := check_rel kV cV2 hr hg hc.1
        rw [hc2, hl2]
        simp only [Bool.not_false, Bool.and_self, if_true]
        refine ⟨_, rfl, ?_⟩
        have : assertLabels (.prov l ts pf) = [l] := by simp [assertLabels, flat, assertLabel?]
        rw [this]
        exact simRes_assert kV cV2 hr hseen hg hM hmv hc.1
      · cases h
  | .block ss, st1, st1', st2, hl, hr, hseen, h => by
      simp only [runStmt] at h ⊢
      split at h
      · next st1'' h1 =>
        injection h with h; subst h
        obtain ⟨st2'', h2, hres⟩ := sim_stmts t ss st1 st1'' st2 (by simpa [flat] using hl) hr hseen h1
        rw [h2]
        have : assertLabels (.block ss) = assertLabelsL ss := by simp [assertLabels, assertLabelsL, flat]
        rw [this]
        exact ⟨_, rfl, { ctx := hr, seen := hres.seen, v1 := rfl, f1 := rfl, mv := hres.mv, asserts := hres.asserts }⟩
      · cases h
      · cases h
theorem sim_stmts (t : String) : ∀ (ss : List MStmt) (st1 st1' st2 : VState),
    (∀ x ∈ flatL ss, LeafOK Vdb mvs C2 M t x) → CtxRel Vdb mvs C2 M st1.ctx st2.ctx →
    (∀ x ∈ st2.seen, x ∈ st1.seen) → runStmts (some t) st1 ss = .ok st1' →
    ∃ st2', runStmts (some t) st2 ss = .ok st2' ∧
      SimRes (Vdb := Vdb) (mvs := mvs) (C2 := C2) (M := M) (assertLabelsL ss) (stmtsMvs ss) st1 st1' st2 st2'
  | [], st1, st1', st2, hl, hr, hseen, h => by
      simp only [runStmts] at h ⊢
      injection h with h; subst h
      exact ⟨_, rfl, {
        ctx := hr
        seen := hseen
        v1 := rfl
        f1 := rfl
        mv := by intro x hx; simp [stmtsMvs] at hx
        asserts := ⟨[], [], by simp, by simp, by simp [assertLabelsL, flatL],
          by simp [assertLabelsL, flatL], by intro l a h; cases h⟩ }⟩
  | s :: ss, st1, st1', st2, hl, hr, hseen, h => by
      simp only [runStmts] at h ⊢
      split at h
      · next st1m h1 =>
        obtain ⟨st2m, h2, hres1⟩ := sim_stmt t s st1 st1m st2
          (fun x hx => hl x (by simp [flatL, hx])) hr hseen h1
        obtain ⟨st2', h2', hres2⟩ := sim_stmts t ss st1m st1' st2m
          (fun x hx => hl x (by simp [flatL, hx])) hres1.ctx hres1.seen h
        rw [h2]
        refine ⟨st2', h2', {
          ctx := hres2.ctx
          seen := hres2.seen
          v1 := by rw [hres2.v1, hres1.v1]
          f1 := by rw [hres2.f1, hres1.f1]
          mv := ?_
          asserts := ?_ }⟩
        · intro x hx
          simp only [stmtsMvs, List.mem_append] at hx
          rcases hx with hx | hx
          · exact hres1.mv x hx
          · have := hres2.mv x hx
            rw [hres1.v1] at this; exact this
        obtain ⟨n1, n2, e1, e2, k1, k2, hs⟩ := hres1.asserts
        obtain ⟨m1, m2, e1', e2', k1', k2', hs'⟩ := hres2.asserts
        refine ⟨n1 ++ m1, n2 ++ m2, by rw [e1', e1, List.append_assoc], by rw [e2', e2, List.append_assoc],
          ?_, ?_, ?_⟩
        · simp [assertLabelsL, flatL, List.filterMap_append, k1, k1', assertLabels]
        · simp [assertLabelsL, flatL, List.filterMap_append, k2, k2', assertLabels]
        · intro l a2 hm
          rcases List.mem_append.1 hm with hm | hm
          · obtain ⟨a1, h1, h2⟩ := hs l a2 hm
            exact ⟨a1, List.mem_append_left _ h1, h2⟩
          · obtain ⟨a1, h1, h2⟩ := hs' l a2 hm
            exact ⟨a1, List.mem_append_right _ h1, h2⟩
      · cases h
      · cases h
end

end Sim

/-! ## 4. more facts about runs -/

theorem runStmts_append (tgt : Option String) : ∀ (a b : List MStmt) (st : VState),
    runStmts tgt st (a ++ b) = match runStmts tgt st a with
      | .ok st' => runStmts tgt st' b
      | .done => .done
      | .fail => .fail
  | [], b, st => by simp [runStmts]
  | s :: a, b, st => by
      simp only [List.cons_append, runStmts]
      cases runStmt tgt st s with
      | ok st' => simp only []; exact runStmts_append tgt a b st'
      | done => rfl
      | fail => rfl

def allLabels (s : MStmt) : List String := (flat s).filterMap stmtLabel?
def allLabelsL (ss : List MStmt) : List String := (flatL ss).filterMap stmtLabel?

theorem allLabelsL_cons (s : MStmt) (ss : List MStmt) : allLabelsL (s :: ss) = allLabels s ++ allLabelsL ss := by
  simp [allLabelsL, allLabels, flatL, List.filterMap_append]

theorem allLabelsL_append (a b : List MStmt) : allLabelsL (a ++ b) = allLabelsL a ++ allLabelsL b := by
  simp [allLabelsL, flatL_append, List.filterMap_append]

mutual
/-- the labels a run uses are those of the statements -/
theorem runStmt_seen (tgt : Option String) : ∀ (s : MStmt) (st st' : VState),
    runStmt tgt st s = .ok st' → ∀ x ∈ st'.seen, x ∈ st.seen ∨ x ∈ allLabels s
  | .const cs, st, st', h => by
      simp only [runStmt] at h; injection h with h; subst h; exact fun x hx => Or.inl hx
  | .var vs, st, st', h => by
      simp only [runStmt] at h; injection h with h; subst h; exact fun x hx => Or.inl hx
  | .disj vs, st, st', h => by
      simp only [runStmt] at h
      split at h
      · injection h with h; subst h; exact fun x hx => Or.inl hx
      · cases h
  | .float l tc v, st, st', h => by
      simp only [runStmt] at h
      split at h
      · injection h with h; subst h
        intro x hx
        rcases List.mem_append.1 hx with hx | hx
        · exact Or.inl hx
        · right; simp at hx; subst hx; simp [allLabels, flat, stmtLabel?]
      · cases h
  | .ess l ts, st, st', h => by
      simp only [runStmt] at h
      split at h
      · injection h with h; subst h
        intro x hx
        rcases List.mem_append.1 hx with hx | hx
        · exact Or.inl hx
        · right; simp at hx; subst hx; simp [allLabels, flat, stmtLabel?]
      · cases h
  | .ax l ts, st, st', h => by
      simp only [runStmt] at h
      split at h
      · injection h with h; subst h
        intro x hx
        rcases List.mem_append.1 hx with hx | hx
        · exact Or.inl hx
        · right; simp at hx; subst hx; simp [allLabels, flat, stmtLabel?]
      · cases h
  | .prov l ts pf, st, st', h => by
      simp only [runStmt] at h
      have key : ∀ st'' : VState, st'' = ⟨st.ctx, st.asserts ++ [(l, makeAssertion st.ctx (printTerms ts))], st.seen ++ [l]⟩ →
          ∀ x ∈ st''.seen, x ∈ st.seen ∨ x ∈ allLabels (.prov l ts pf) := by
        intro st'' e x hx; subst e
        rcases List.mem_append.1 hx with hx | hx
        · exact Or.inl hx
        · right; simp at hx; subst hx; simp [allLabels, flat, stmtLabel?]
      split at h
      · split at h
        · split at h
          · injection h with h; exact key _ h.symm
          · cases h
        · split at h
          · split at h <;> cases h
          · injection h with h; exact key _ h.symm
      · cases h
  | .block ss, st, st', h => by
      simp only [runStmt] at h
      split at h
      · next st'' h2 =>
        injection h with h; subst h
        intro x hx
        have := runStmts_seen tgt ss st st'' h2 x hx
        simpa [allLabels, allLabelsL, flat] using this
      · cases h
      · cases h
theorem runStmts_seen (tgt : Option String) : ∀ (ss : List MStmt) (st st' : VState),
    runStmts tgt st ss = .ok st' → ∀ x ∈ st'.seen, x ∈ st.seen ∨ x ∈ allLabelsL ss
  | [], st, st', h => by
      simp only [runStmts] at h; injection h with h; subst h; exact fun x hx => Or.inl hx
  | s :: ss, st, st', h => by
      simp only [runStmts] at h
      split at h
      · next st1 h1 =>
        intro x hx
        rw [allLabelsL_cons]
        rcases runStmts_seen tgt ss st1 st' h x hx with hx | hx
        · rcases runStmt_seen tgt s st st1 h1 x hx with hx | hx
          · exact Or.inl hx
          · exact Or.inr (List.mem_append_left _ hx)
        · exact Or.inr (List.mem_append_right _ hx)
      · cases h
      · cases h
end

mutual
/-- a run that stops with `done` has met the target -/
theorem runStmt_done (t : String) : ∀ (s : MStmt) (st : VState),
    runStmt (some t) st s = .done → ∃ ts pf, MStmt.prov t ts pf ∈ flat s
  | .const cs, st, h => by simp [runStmt] at h
  | .var vs, st, h => by simp [runStmt] at h
  | .disj vs, st, h => by simp only [runStmt] at h; split at h <;> cases h
  | .float l tc v, st, h => by simp only [runStmt] at h; split at h <;> cases h
  | .ess l ts, st, h => by simp only [runStmt] at h; split at h <;> cases h
  | .ax l ts, st, h => by simp only [runStmt] at h; split at h <;> cases h
  | .prov l ts pf, st, h => by
      simp only [runStmt] at h
      split at h
      · split at h
        · next e => subst e; exact ⟨ts, pf, by simp [flat]⟩
        · cases h
      · cases h
  | .block ss, st, h => by
      simp only [runStmt] at h
      split at h
      · cases h
      · next h2 =>
        obtain ⟨ts, pf, hm⟩ := runStmts_done t ss st h2
        exact ⟨ts, pf, by simpa [flat] using hm⟩
      · cases h
theorem runStmts_done (t : String) : ∀ (ss : List MStmt) (st : VState),
    runStmts (some t) st ss = .done → ∃ ts pf, MStmt.prov t ts pf ∈ flatL ss
  | [], st, h => by simp [runStmts] at h
  | s :: ss, st, h => by
      simp only [runStmts] at h
      split at h
      · next st1 h1 =>
        obtain ⟨ts, pf, hm⟩ := runStmts_done t ss st1 h
        exact ⟨ts, pf, by simp [flatL, hm]⟩
      · next h1 =>
        obtain ⟨ts, pf, hm⟩ := runStmt_done t s st h1
        exact ⟨ts, pf, by simp [flatL, hm]⟩
      · cases h
end

/-- a `$p` that is not the target is run like a `$a` -/
theorem run_prov_eq_ax {t l : String} (hne : l ≠ t) (st : VState) (ts : List MTerm) (pf : List String) :
    runStmt (some t) st (.prov l ts pf) = runStmt (some t) st (.ax l ts) := by
  have hne' : ¬ t = l := fun e => hne e.symm
  simp only [runStmt, if_neg hne']

/-- an assertion alone in a block -/
theorem run_block_single_ax (tgt : Option String) (st : VState) (l : String) (ts : List MTerm) :
    runStmt tgt st (.block [.ax l ts]) = runStmt tgt st (.ax l ts) := by
  simp only [runStmt, runStmts]
  by_cases h : (checkSymbols st.ctx (printTerms ts) true && !st.seen.contains l) = true
  · simp only [if_pos h]
  · simp only [if_neg h]

/-- `$a`, `$p` and blocks leave the context as it is -/
theorem run_ctx_eq {tgt : Option String} {st st' : VState} {s : MStmt}
    (hs : match s with | .ax .. => True | .prov .. => True | .block _ => True | _ => False)
    (h : runStmt tgt st s = .ok st') : st'.ctx = st.ctx := by
  cases s with
  | ax l ts =>
    simp only [runStmt] at h
    split at h
    · injection h with h; subst h; rfl
    · cases h
  | prov l ts pf =>
    simp only [runStmt] at h
    split at h
    · split at h
      · split at h
        · injection h with h; subst h; rfl
        · cases h
      · split at h
        · split at h <;> cases h
        · injection h with h; subst h; rfl
    · cases h
  | block ss =>
    simp only [runStmt] at h
    split at h
    · injection h with h; subst h; rfl
    · cases h
    · cases h
  | _ => exact hs.elim

/-! ## 5. verifying everything verifies each lemma -/

mutual
theorem runStmt_all_target (t : String) : ∀ (s : MStmt) (st st' : VState), runStmt none st s = .ok st' →
    runStmt (some t) st s = .done ∨
      (runStmt (some t) st s = .ok st' ∧ ∀ ts pf, MStmt.prov t ts pf ∉ flat s)
  | .const cs, st, st', h => Or.inr ⟨by simpa [runStmt] using h, by simp [flat]⟩
  | .var vs, st, st', h => Or.inr ⟨by simpa [runStmt] using h, by simp [flat]⟩
  | .disj vs, st, st', h => Or.inr ⟨by simpa [runStmt] using h, by simp [flat]⟩
  | .float l tc v, st, st', h => Or.inr ⟨by simpa [runStmt] using h, by simp [flat]⟩
  | .ess l ts, st, st', h => Or.inr ⟨by simpa [runStmt] using h, by simp [flat]⟩
  | .ax l ts, st, st', h => Or.inr ⟨by simpa [runStmt] using h, by simp [flat]⟩
  | .prov l ts pf, st, st', h => by
      rw [runStmt] at h ⊢
      split at h
      · next hc =>
        rw [if_pos hc]
        simp only at h ⊢
        split at h
        · next hv =>
          by_cases e : t = l
          · left; rw [if_pos e, if_pos hv]
          · right
            rw [if_neg e]
            refine ⟨h, ?_⟩
            intro ts' pf' hm
            simp only [flat, List.mem_singleton, MStmt.prov.injEq] at hm
            exact e hm.1
        · cases h
      · cases h
  | .block ss, st, st', h => by
      rw [runStmt] at h ⊢
      split at h
      · next st'' h2 =>
        injection h with h; subst h
        rcases runStmts_all_target t ss st st'' h2 with hd | ⟨ho, hn⟩
        · left; rw [hd]
        · right; rw [ho]; exact ⟨rfl, by simpa [flat] using hn⟩
      · cases h
      · cases h
theorem runStmts_all_target (t : String) : ∀ (ss : List MStmt) (st st' : VState), runStmts none st ss = .ok st' →
    runStmts (some t) st ss = .done ∨
      (runStmts (some t) st ss = .ok st' ∧ ∀ ts pf, MStmt.prov t ts pf ∉ flatL ss)
  | [], st, st', h => Or.inr ⟨by simpa [runStmts] using h, by simp [flatL]⟩
  | s :: ss, st, st', h => by
      rw [runStmts] at h ⊢
      split at h
      · next st1 h1 =>
        rcases runStmt_all_target t s st st1 h1 with hd | ⟨ho, hn⟩
        · left; rw [hd]
        · rw [ho]
          simp only
          rcases runStmts_all_target t ss st1 st' h with hd' | ⟨ho', hn'⟩
          · exact Or.inl hd'
          · refine Or.inr ⟨ho', ?_⟩
            intro ts pf hm
            simp only [flatL, List.mem_append] at hm
            rcases hm with hm | hm
            · exact hn ts pf hm
            · exact hn' ts pf hm
      · cases h
      · cases h
end

/-- a database that verifies as a whole verifies lemma by lemma -/
theorem verifyLemma_of_verifyDb {db : MDb} {l : String} (h : verifyDb db = true)
    (hl : ∃ ts pf, MStmt.prov l ts pf ∈ flatL db) : verifyLemma db l = true := by
  unfold verifyDb at h
  unfold verifyLemma
  cases hr : runStmts none {} db with
  | ok st =>
    rcases runStmts_all_target l db {} st hr with hd | ⟨_, hn⟩
    · rw [hd]
    · obtain ⟨ts, pf, hm⟩ := hl
      exact absurd hm (hn ts pf)
  | done => rw [hr] at h; cases h
  | fail => rw [hr] at h; cases h

end MM
