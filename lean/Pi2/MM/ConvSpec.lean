import Pi2.MM.Translate
import Pi2.MM.Ast
/-!
# From a Metamath database (`MDb`, what the parser delivers) to the model's database (`MM.DB`)

The specification side of `MetamathConverter`: how a database of the supported fragment DETERMINES the model's `DB`, the
classification of every label (`Lbl`), the numbering of variables and constants and the target lemma.  Written from the Metamath
meaning of the statements — a `$c`/`$v` statement declares tokens, `$f #Pattern v` makes `v` range over patterns, `$a #Pattern t`
says how patterns are built, `$a |- t` (with the `$e |- h` of its block) is an inference rule, `$p |- t $= …` a theorem with a
compressed proof — and from the fixed names by which `translate.exec_proof` knows the built-in constructors and the three proof
rules; NOT from the converter's code (`Pi2/MM/ConvTie.lean` proves that the generated converter agrees with it).

* numbering: a variable is its position among the declared variables (`$v`, in order), a constant its position among the
  declared constants (`$c`, in order);
* `\imp` and `\app` are the built-in binary connectives, `\exists` and `\mu` (binders) are outside the fragment; every other
  head symbol is a constructor (`Term.con`);
* the label table gives each label that a proof may cite its `Lbl`; constructors and rules are numbered in database order;
* the target's proof: the mandatory hypotheses are the `$f` statements of the target's variables, in database order, then the
  labels between the parentheses; the letters are decoded as in Appendix B of the Metamath book (`MM.tokenize`).
-/
namespace MM.ConvSpec

/-- the declared tokens of a database, in order of declaration -/
structure Names where
  consts : List String
  vars : List String
deriving Repr

def constsOf : MDb → List String
  | [] => []
  | .const cs :: r => cs ++ constsOf r
  | _ :: r => constsOf r
def varsOf : MDb → List String
  | [] => []
  | .var vs :: r => vs ++ varsOf r
  | _ :: r => varsOf r
def namesOf (mdb : MDb) : Names := ⟨constsOf mdb, varsOf mdb⟩

def Names.var? (nm : Names) (v : String) : Option Nat := if nm.vars.contains v then some (nm.vars.idxOf v) else none
def Names.con? (nm : Names) (c : String) : Option Nat := if nm.consts.contains c then some (nm.consts.idxOf c) else none

mutual
/-- a term of the database as a term of the model -/
def termOf (nm : Names) : MTerm → Option Term
  | .mv v => (nm.var? v).map .var
  | .app s args =>
      if s = "\\imp" then
        match args with
        | [a, b] => do pure (.imp (← termOf nm a) (← termOf nm b))
        | _ => none
      else if s = "\\app" then
        match args with
        | [a, b] => do pure (.app (← termOf nm a) (← termOf nm b))
        | _ => none
      else if s = "\\exists" ∨ s = "\\mu" then none      -- the binders of matching logic are not in the fragment
      else do pure (.con (← nm.con? s) (← termsOf nm args))
def termsOf (nm : Names) : List MTerm → Option (List Term)
  | [] => some []
  | t :: ts => do pure ((← termOf nm t) :: (← termsOf nm ts))
end

/-- a statement body `typecode term` -/
def typed : List MTerm → Option (String × MTerm)
  | [.app tc [], t] => some (tc, t)
  | _ => none

/-- `$e |- h` -/
def hypOf (nm : Names) : MStmt → Option Term
  | .ess _ ts =>
      match typed ts with
      | some (tc, h) => if tc = "|-" then termOf nm h else none
      | none => none
  | _ => none

/-- what a top-level statement (or block) of the fragment declares -/
inductive Decl where
  | tokens                                                    -- `$c`, `$v`
  | float (label : String) (v : Nat)                          -- `label $f #Pattern v`
  | syntax (label : String) (t : Term)                        -- `label $a #Pattern t`
  | rule (label : String) (hyps : List Term) (concl : Term)   -- `label $a |- t`, in a block after its `$e |- h`
  | lemma (label : String) (goal : Term) (proof : List String) -- `label $p |- t $= proof`
deriving Repr

def declOf (nm : Names) : MStmt → Option Decl
  | .const _ => some .tokens
  | .var _ => some .tokens
  | .float l tc v => if tc = "#Pattern" then (nm.var? v).map (.float l) else none
  | .ax l ts =>
      match typed ts with
      | some (tc, t) =>
          if tc = "#Pattern" then (termOf nm t).map (.syntax l)
          else if tc = "|-" then (termOf nm t).map (.rule l [])
          else none
      | none => none
  | .prov l ts pf =>
      match typed ts with
      | some (tc, t) => if tc = "|-" then (termOf nm t).map (.lemma l · pf) else none
      | none => none
  | .block ss =>
      match ss.getLast? with
      | some (.ax l ts) =>
          match typed ts with
          | some (tc, t) =>
              if tc = "|-" then do pure (.rule l (← ss.dropLast.mapM (hypOf nm)) (← termOf nm t)) else none
          | none => none
      | _ => none
  | _ => none

/-- the role of a declaration for `exec_proof`; labels of constructors and rules are kept for the label table -/
inductive Role where
  | tokens
  | float (label : String) (v : Nat)
  | imp (a b : Nat) | app (a b : Nat)
  | ctor (label : String) (c : Ctor)
  | p1 (a b : Nat) | p2 (a b c : Nat) | mp (a b : Nat)
  | rule (label : String) (r : Rule)
  | lemma (label : String) (goal : Term) (proof : List String)
deriving Repr

def asVars : List Term → Option (List Nat)
  | [] => some []
  | .var v :: ts => (asVars ts).map (v :: ·)
  | _ :: _ => none

def roleOf : Decl → Option Role
  | .tokens => some .tokens
  | .float l v => some (.float l v)
  | .syntax l t =>
      match t with
      | .imp (.var a) (.var b) => if l = "imp-is-pattern" then some (.imp a b) else none
      | .app (.var a) (.var b) => if l = "app-is-pattern" then some (.app a b) else none
      | .con c args => if l = "imp-is-pattern" ∨ l = "app-is-pattern" then none else (asVars args).map fun vs => .ctor l { sym := c, args := vs }
      | _ => none
  | .rule l hyps concl =>
      if l = "proof-rule-prop-1" then
        match hyps, concl with
        | [], .imp (.var a) (.imp (.var b) (.var a')) => if a = a' then some (.p1 a b) else none
        | _, _ => none
      else if l = "proof-rule-prop-2" then
        match hyps, concl with
        | [], .imp (.imp (.var a) (.imp (.var b) (.var c))) (.imp (.imp (.var a') (.var b')) (.imp (.var a'') (.var c'))) =>
            if a = a' ∧ a = a'' ∧ b = b' ∧ c = c' then some (.p2 a b c) else none
        | _, _ => none
      else if l = "proof-rule-mp" then
        match hyps, concl with
        | [.imp (.var a) (.var b), .var a'], .var b' => if a = a' ∧ b = b' then some (.mp a b) else none
        | _, _ => none
      else if "proof-rule-".toList.isPrefixOf l.toList then none
      else some (.rule l ⟨hyps, concl⟩)
  | .lemma l g pf => some (.lemma l g pf)

/-- the label table: constructors and rules are numbered in database order -/
def tableOf : List Role → Nat → Nat → List (String × Lbl)
  | [], _, _ => []
  | .float l v :: rs, i, j => (l, .float v) :: tableOf rs i j
  | .imp _ _ :: rs, i, j => ("imp-is-pattern", .impC) :: tableOf rs i j
  | .app _ _ :: rs, i, j => ("app-is-pattern", .appC) :: tableOf rs i j
  | .ctor l _ :: rs, i, j => (l, .ctor i) :: tableOf rs (i + 1) j
  | .p1 _ _ :: rs, i, j => ("proof-rule-prop-1", .p1) :: tableOf rs i j
  | .p2 _ _ _ :: rs, i, j => ("proof-rule-prop-2", .p2) :: tableOf rs i j
  | .mp _ _ :: rs, i, j => ("proof-rule-mp", .mp) :: tableOf rs i j
  | .rule l _ :: rs, i, j => (l, .rule j) :: tableOf rs i (j + 1)
  | _ :: rs, i, j => tableOf rs i j

def dbOfRoles (rs : List Role) : Option DB := do
  let imp ← rs.findSome? fun | .imp a b => some (a, b) | _ => none
  let p1 ← rs.findSome? fun | .p1 a b => some (a, b) | _ => none
  let p2 ← rs.findSome? fun | .p2 a b c => some (a, b, c) | _ => none
  let mp ← rs.findSome? fun | .mp a b => some (a, b) | _ => none
  pure {
    floats := rs.filterMap fun | .float _ v => some v | _ => none
    impArgs := imp
    -- a database without `app-is-pattern` has no label for `Lbl.appC`: the field is then irrelevant (any well-formed value)
    appArgs := (rs.findSome? fun | .app a b => some (a, b) | _ => none).getD imp
    ctors := rs.filterMap fun | .ctor _ c => some c | _ => none
    rules := rs.filterMap fun | .rule _ r => some r | _ => none
    p1 := p1, p2 := p2, mp := mp }

/-- the `$f` label of a variable -/
def floatLabel (rs : List Role) (v : Nat) : Option String :=
  rs.findSome? fun | .float l w => if w = v then some l else none | _ => none

/-- a compressed proof `( labels ) letters…` -/
def proofOf (pf : List String) : Option (List String × List Nat) :=
  match pf with
  | "(" :: rest => do
      let (labels, body) ← parseLabels rest []
      let steps ← tokenize (body.flatMap String.toList) []
      pure (labels, steps)
  | _ => none

structure Spec where
  names : Names
  roles : List Role
  db : DB
  table : List (String × Lbl)
  goal : Term
  labels : List Lbl
  steps : List Nat

/-- the model's view of a database WITHOUT `#Notation` statements and a target label (`none`: outside the fragment) -/
def dbOfCore (mdb : MDb) (target : String) : Option Spec := do
  let nm := namesOf mdb
  let decls ← mdb.mapM (declOf nm)
  let roles ← decls.mapM roleOf
  let db ← dbOfRoles roles
  let table := tableOf roles 0 0
  let (goal, pf) ← roles.findSome? fun | .lemma l g pf => if l = target then some (g, pf) else none | _ => none
  let (cited, steps) ← proofOf pf
  -- the mandatory hypotheses: the `$f` statements of the goal's variables, in database order
  let mand ← (db.mandOf [goal]).mapM (floatLabel roles)
  let labels ← (mand ++ cited).mapM fun l => table.lookup l
  pure ⟨nm, roles, db, table, goal, labels, steps⟩

/-! ## declared notations

`l $a #Notation ( n v₁ … vₖ ) BODY $.` (`l $a #Notation n BODY $.` for `k = 0`) next to the constructor axiom
`n-is-pattern $a #Pattern ( n v₁ … vₖ ) $.`.  For Metamath the statement is one more axiom, of a typecode no `|-` statement and no
`#Pattern` statement of the fragment has a hypothesis of: no valid proof of the target can cite it.  So it contributes nothing to the
numbering, the label table (its label has no `Lbl`: a proof that cites it is outside the fragment) or the rules: the database without
its `#Notation` statements (`coreOf`) determines all of those (`dbOfCore`).  What it says is what `( n t₁ … tₖ )` DENOTES: the body with
`tᵢ` for `vᵢ` — `Ctor.body` of the constructor entry of `n`. -/

/-- `l $a #Notation ( n v₁ … vₖ ) BODY`: label, head, arguments, body -/
def sugarOf : MStmt → Option (String × String × List MTerm × MTerm)
  | .ax l [.app tc [], .app n args, body] => if tc = "#Notation" then some (l, n, args, body) else none
  | _ => none

def isSugar (st : MStmt) : Bool := (sugarOf st).isSome

/-- the database without its `#Notation` statements -/
def coreOf (mdb : MDb) : MDb := mdb.filter fun st => !isSugar st

/-- the `#Notation` statements, in database order -/
def sugarsOf (mdb : MDb) : List (String × String × List MTerm × MTerm) := mdb.filterMap sugarOf

/-- one `#Notation` statement: its head is a constant with exactly one constructor axiom, stated over the same (pairwise different,
by `DB.wf`) variables in the same order, without a notation so far; the body is a term of the database.  (Which symbols the body may
mention — its own variables, earlier notations — is `DB.wf`'s clause `notOk`.) -/
def attach (nm : Names) (db : DB) (sg : String × String × List MTerm × MTerm) : Option DB := do
  let c ← nm.con? sg.2.1
  let vs ← asVars (← termsOf nm sg.2.2.1)
  let b ← termOf nm sg.2.2.2
  match db.ctors.filter (·.sym == c) with
  | [k] =>
      if k.args = vs ∧ k.body.isNone then
        some { db with ctors := db.ctors.map fun k' => if k'.sym == c then { k' with body := some b } else k' }
      else none
  | _ => none

def attachAll (nm : Names) : DB → List (String × String × List MTerm × MTerm) → Option DB
  | db, [] => some db
  | db, sg :: r => do attachAll nm (← attach nm db sg) r

/-- the model's view of a database and a target label (`none`: outside the fragment): `dbOfCore` of the database without its
`#Notation` statements, with the bodies of the declared notations at their constructors -/
def dbOfMDb (mdb : MDb) (target : String) : Option Spec := do
  let sp ← dbOfCore (coreOf mdb) target
  let db ← attachAll sp.names sp.db (sugarsOf mdb)
  pure { sp with db := db }

/-- a database without `#Notation` statements -/
def sugarFree (mdb : MDb) : Bool := mdb.all fun st => !isSugar st

theorem coreOf_of_sugarFree {mdb : MDb} (h : sugarFree mdb = true) : coreOf mdb = mdb := by
  unfold coreOf
  exact List.filter_eq_self.mpr (by simpa [sugarFree] using h)

theorem sugarsOf_of_sugarFree {mdb : MDb} (h : sugarFree mdb = true) : sugarsOf mdb = [] := by
  unfold sugarsOf
  rw [List.filterMap_eq_nil_iff]
  intro st hst
  have := (List.all_eq_true.mp h) st hst
  simpa [isSugar] using this

/-- on a database without `#Notation` statements the specification is the core specification -/
theorem dbOfMDb_of_sugarFree {mdb : MDb} (h : sugarFree mdb = true) (target : String) : dbOfMDb mdb target = dbOfCore mdb target := by
  unfold dbOfMDb
  rw [coreOf_of_sugarFree h, sugarsOf_of_sugarFree h]
  cases dbOfCore mdb target <;> rfl

end MM.ConvSpec
