import Pi2.MM.ConvSugarWf
/-!
# The constructor table of `dbOfCore`, statement by statement

For a database of the shape `CoreShape`, the constructor entries of the model database (`Spec.db.ctors`) are, in database order, the
constructor axioms `… $a #Pattern ( s v₁ … vₙ )` whose head is neither `\imp` nor `\app`: symbol = position of `s` among the constants,
arguments = positions of the `vᵢ` among the variables, no body (`ctors_of_core`).  And: the database without its `#Notation` statements
has the same constants, variables and constructor axioms (`namesOf_coreOf`, `ctorHeads_coreOf`).
-/
set_option linter.unusedSimpArgs false
set_option linter.unusedVariables false
set_option linter.unnecessarySimpa false
set_option linter.unusedSectionVars false
open MM SliceSup ConvSup Gen.MMConv

namespace ConvCoh
open ConvSpec ConvTie

/-! ## the database without its `#Notation` statements -/
theorem sugar_is_ax {st : MStmt} (h : isSugar st = true) : ∃ l tc n args body, st = .ax l [.app tc [], .app n args, body] := by
  unfold isSugar at h
  match st, h with
  | .ax l [.app tc [], .app n args, body], _ => exact ⟨_, _, _, _, _, rfl⟩

theorem ctorHeadOf_sugar {st : MStmt} (h : isSugar st = true) : ctorHeadOf st = none := by
  obtain ⟨l, tc, n, args, body, rfl⟩ := sugar_is_ax h
  rfl

theorem coreOf_cons (st : MStmt) (r : MDb) : coreOf (st :: r) = if isSugar st then coreOf r else st :: coreOf r := by
  unfold coreOf
  rw [List.filter_cons]
  cases isSugar st <;> simp

theorem constsOf_coreOf : ∀ mdb : MDb, constsOf (coreOf mdb) = constsOf mdb := by
  intro mdb
  induction mdb with
  | nil => rfl
  | cons st r ih =>
    rw [coreOf_cons]
    cases h : isSugar st with
    | true =>
      obtain ⟨l, tc, n, args, body, rfl⟩ := sugar_is_ax h
      simpa [constsOf] using ih
    | false =>
      simp only [Bool.false_eq_true, if_false]
      cases st <;> simp [constsOf, ih]

theorem varsOf_coreOf : ∀ mdb : MDb, varsOf (coreOf mdb) = varsOf mdb := by
  intro mdb
  induction mdb with
  | nil => rfl
  | cons st r ih =>
    rw [coreOf_cons]
    cases h : isSugar st with
    | true =>
      obtain ⟨l, tc, n, args, body, rfl⟩ := sugar_is_ax h
      simpa [varsOf] using ih
    | false =>
      simp only [Bool.false_eq_true, if_false]
      cases st <;> simp [varsOf, ih]

theorem namesOf_coreOf (mdb : MDb) : namesOf (coreOf mdb) = namesOf mdb := by
  simp [namesOf, constsOf_coreOf, varsOf_coreOf]

theorem ctorHeads_coreOf : ∀ mdb : MDb, (coreOf mdb).filterMap ctorHeadOf = mdb.filterMap ctorHeadOf := by
  intro mdb
  induction mdb with
  | nil => rfl
  | cons st r ih =>
    rw [coreOf_cons]
    cases h : isSugar st with
    | true => simp [List.filterMap_cons, ctorHeadOf_sugar h, ih]
    | false => simp [List.filterMap_cons, ih]

/-! ## the constructor entry of a statement -/
def toC (nm : Names) (p : String × List MTerm) : Ctor :=
  { sym := nm.consts.idxOf p.1, args := ((mvNames p.2).getD []).map nm.vars.idxOf }

/-- the head is neither `\imp` nor `\app` -/
def plainP (p : String × List MTerm) : Bool := !(p.1 == "\\imp" || p.1 == "\\app")

def ctorEntry (nm : Names) (st : MStmt) : Option Ctor :=
  (ctorHeadOf st).bind fun p => if plainP p then some (toC nm p) else none

theorem ctorEntries_eq (nm : Names) : ∀ mdb : MDb,
    mdb.filterMap (ctorEntry nm) = ((mdb.filterMap ctorHeadOf).filter plainP).map (toC nm) := by
  intro mdb
  induction mdb with
  | nil => rfl
  | cons st r ih =>
    cases h : ctorHeadOf st with
    | none => simp [List.filterMap_cons, ctorEntry, h, ih]
    | some p => cases hp : plainP p <;> simp [List.filterMap_cons, ctorEntry, h, hp, ih]

theorem mvNames_map : ∀ vs : List String, mvNames (vs.map .mv) = some vs := by
  intro vs
  induction vs with
  | nil => rfl
  | cons v vs ih => simp [mvNames, ih]

theorem filterMap_of_mapM {α β γ : Type} (f : α → Option β) (g : β → Option γ) : ∀ (xs : List α) (ys : List β),
    xs.mapM f = some ys → ys.filterMap g = xs.filterMap fun x => (f x).bind g := by
  intro xs
  induction xs with
  | nil => intro ys h; simp at h; subst h; rfl
  | cons x xs ih =>
    intro ys h
    obtain ⟨y, ys', hy, hys', rfl⟩ := (mapM_cons_some f x xs ys).mp h
    simp only [List.filterMap_cons, hy, Option.bind_some, ih ys' hys']

theorem filterMap_congr_mem {α β : Type} (f g : α → Option β) : ∀ (xs : List α), (∀ x ∈ xs, f x = g x) →
    xs.filterMap f = xs.filterMap g := by
  intro xs
  induction xs with
  | nil => intro _; rfl
  | cons x xs ih =>
    intro h
    simp only [List.filterMap_cons, h x (by simp), ih (fun y hy => h y (by simp [hy]))]

section
variable (nm : Names) (fs : List String) (hfsV : ∀ v ∈ fs, v ∈ nm.vars) (hres : ∀ v ∈ fs, reserved v = false)
include hfsV

theorem ctor_of_syntax (l s : String) (args : List MTerm) (h : syntaxShape nm.consts fs l (.app s args) = true) :
    (roleOfStmt nm (.ax l [.app "#Pattern" [], .app s args])).bind ctorOf? =
      ctorEntry nm (.ax l [.app "#Pattern" [], .app s args]) := by
  simp only [syntaxShape] at h
  split at h
  · cases h
  · rename_i vs hvs
    have hargs := mvNames_spec args vs hvs
    subst hargs
    simp only [Bool.and_eq_true, List.all_eq_true, List.contains_eq_mem, decide_eq_true_eq] at h
    obtain ⟨⟨hvfs, hnd⟩, hcase⟩ := h
    have hvV : ∀ v ∈ vs, v ∈ nm.vars := fun v hv => hfsV v (hvfs v hv)
    by_cases h1 : s = "\\imp"
    · subst h1
      simp only [if_true, Bool.and_eq_true, beq_iff_eq] at hcase
      obtain ⟨rfl, hlen⟩ := hcase
      match vs, hlen, hvfs, hnd, hvV with
      | [x, y], _, hvfs, hnd, hvV =>
        have hx := hvV x (by simp)
        have hy := hvV y (by simp)
        have hT : termOf nm (.app "\\imp" [.mv x, .mv y]) = some (.imp (.var (nm.vars.idxOf x)) (.var (nm.vars.idxOf y))) := by
          simp only [termOf_imp, termOf_mv nm _ hx, termOf_mv nm _ hy, Option.bind_some]
        simp only [List.map_cons, List.map_nil] at hT ⊢
        simp [roleOfStmt, declOf, typed, hT, roleOf, ctorOf?, ctorEntry, ctorHeadOf, plainP]
    · rw [if_neg h1] at hcase
      by_cases h2 : s = "\\app"
      · subst h2
        simp only [if_true, Bool.and_eq_true, beq_iff_eq] at hcase
        obtain ⟨rfl, hlen⟩ := hcase
        match vs, hlen, hvfs, hnd, hvV with
        | [x, y], _, hvfs, hnd, hvV =>
          have hx := hvV x (by simp)
          have hy := hvV y (by simp)
          have hT : termOf nm (.app "\\app" [.mv x, .mv y]) = some (.app (.var (nm.vars.idxOf x)) (.var (nm.vars.idxOf y))) := by
            simp [termOf, Names.var?, hx, hy]
          simp only [List.map_cons, List.map_nil] at hT ⊢
          simp [roleOfStmt, declOf, typed, hT, roleOf, ctorOf?, ctorEntry, ctorHeadOf, plainP]
      · rw [if_neg h2] at hcase
        simp only [Bool.and_eq_true, Bool.not_eq_true', List.contains_eq_mem, decide_eq_true_eq, bne_iff_ne, ne_eq] at hcase
        obtain ⟨⟨⟨⟨hres', hK⟩, hq⟩, hl1⟩, hl2⟩ := hcase
        have h3 : ¬ (s = "\\exists" ∨ s = "\\mu") := by
          intro h3
          simp only [reserved, Bool.or_eq_false_iff, beq_eq_false_iff_ne, ne_eq] at hres'
          rcases h3 with h3 | h3
          · exact hres'.1.2 h3
          · exact hres'.2 h3
        have hT : termOf nm (.app s (vs.map .mv)) = some (.con (nm.consts.idxOf s) ((vs.map nm.vars.idxOf).map .var)) := by
          unfold termOf
          simp [h1, h2, h3, Names.con?, hK, termsOf_mvs nm vs hvV, List.map_map, Function.comp]
        have hl : ¬ (l = "imp-is-pattern" ∨ l = "app-is-pattern") := by simp [hl1, hl2]
        have hr : roleOf (.syntax l (.con (nm.consts.idxOf s) ((vs.map nm.vars.idxOf).map .var))) =
            some (.ctor l { sym := nm.consts.idxOf s, args := vs.map nm.vars.idxOf }) := by
          simp only [roleOf, hl, if_false, asVars_vars, Option.map_some]
        have hp : plainP (s, vs.map MTerm.mv) = true := by simp [plainP, h1, h2]
        simp only [roleOfStmt, declOf, typed, if_true, hT, Option.map_some, Option.bind_some, hr, ctorOf?, ctorEntry, ctorHeadOf, hp,
          toC, mvNames_map, Option.getD_some]

theorem item_not_ctor {st : MStmt} {r : Role} (hf : ItemFacts nm fs st r) (l : String) (h : axHeadOf st = some (l, "|-")) :
    ctorOf? r = none := by
  obtain ⟨pl, eh, l', tcs, t, T, Hs, _, _, _, hitem, _, _, _, _, hhead⟩ := hf.parts
  rw [h] at hhead
  simp only [Option.some.injEq, Prod.mk.injEq] at hhead
  obtain ⟨rfl, rfl⟩ := hhead
  cases r <;> simp [roleItem] at hitem <;> rfl

include hres in
/-- the constructor entry that the specification makes of a statement of the shape -/
theorem ctor_of_stmt (st : MStmt) (h : stmtShape nm.consts fs st = true) :
    (roleOfStmt nm st).bind ctorOf? = ctorEntry nm st := by
  cases st with
  | const cs => rfl
  | var vs => rfl
  | disj _ => exact (no_disj h).elim
  | ess _ _ => exact (no_ess h).elim
  | float l tc v =>
    simp only [roleOfStmt, declOf, ctorEntry, ctorHeadOf, Option.bind_none]
    split
    · cases nm.var? v <;> simp [roleOf, ctorOf?]
    · rfl
  | prov l ts pf =>
    obtain ⟨t, rfl, ht⟩ := prov_shape h
    obtain ⟨T, hT⟩ := termOf_of_shape nm fs hfsV t ht
    simp [roleOfStmt, declOf, typed, hT, roleOf, ctorOf?, ctorEntry, ctorHeadOf]
  | ax l ts =>
    obtain ⟨tc, t, rfl, hcase⟩ := ax_shape h
    rcases hcase with ⟨rfl, hsyn⟩ | ⟨rfl, ht, hrule⟩
    · cases t with
      | mv v => simp [syntaxShape] at hsyn
      | app s args => exact ctor_of_syntax nm fs hfsV l s args hsyn
    · obtain ⟨r, hr, hf⟩ := item_role nm fs hfsV hres _ h rfl
      rw [hr, Option.bind_some, item_not_ctor nm fs hfsV hf l rfl]
      cases t <;> simp [ctorEntry, ctorHeadOf]
  | block ss =>
    obtain ⟨l, t, hs, hlast, _⟩ := block_shape h
    obtain ⟨r, hr, hf⟩ := item_role nm fs hfsV hres _ h (by simp [isAxItem, hlast])
    rw [hr, Option.bind_some, item_not_ctor nm fs hfsV hf l (by simp [axHeadOf, hlast])]
    rfl

end

/-- what `dbOfCore` returns, part by part -/
theorem dbOfCore_parts {mdb : MDb} {target : String} {sp : Spec} (h : dbOfCore mdb target = some sp) :
    ∃ roles, mdb.mapM (roleOfStmt (namesOf mdb)) = some roles ∧ dbOfRoles roles = some sp.db ∧ sp.names = namesOf mdb := by
  rw [dbOfMDb_eq] at h
  have hcomp := mapM_comp (declOf (namesOf mdb)) roleOf mdb
  rw [hcomp] at h
  cases h1 : mdb.mapM (fun x => (declOf (namesOf mdb) x).bind roleOf) with
  | none => simp [h1] at h
  | some roles =>
    rw [h1, Option.bind_some] at h
    cases h2 : dbOfRoles roles with
    | none => simp [h2] at h
    | some db =>
      rw [h2, Option.bind_some] at h
      refine ⟨roles, h1, ?_, ?_⟩
      all_goals
        simp only [Option.bind_eq_some_iff] at h
        obtain ⟨_, _, _, _, _, _, _, _, h⟩ := h
        simp only [Option.some.injEq] at h
        subst h
        first | exact h2 | rfl

/-- **the constructor table of the core specification** -/
theorem ctors_of_core {mdb : MDb} {target : String} (hsh : CoreShape mdb target = true) {sp : Spec}
    (h : dbOfCore mdb target = some sp) :
    sp.names = namesOf mdb ∧
    sp.db.ctors = ((mdb.filterMap ctorHeadOf).filter plainP).map (toC (namesOf mdb)) ∧ (∀ k ∈ sp.db.ctors, k.body = none) := by
  have S := shaped_of hsh
  obtain ⟨roles, hmap, hdb, hnm⟩ := dbOfCore_parts h
  obtain ⟨imp, p1, p2, mp, _, _, _, _, hdbeq⟩ := dbOfRoles_some roles sp.db hdb
  have e3 : sp.db.ctors = roles.filterMap ctorOf? := by rw [hdbeq]
  have hct : sp.db.ctors = ((mdb.filterMap ctorHeadOf).filter plainP).map (toC (namesOf mdb)) := by
    rw [e3, filterMap_of_mapM _ ctorOf? mdb roles hmap, ← ctorEntries_eq]
    apply filterMap_congr_mem
    intro st hst
    exact ctor_of_stmt (namesOf mdb) _ (fs_declared S) (fs_unreserved S) st (S.stmts st hst)
  refine ⟨hnm, hct, ?_⟩
  intro k hk
  rw [hct] at hk
  obtain ⟨p, _, rfl⟩ := List.mem_map.mp hk
  rfl

/-- what the shape says of a constructor axiom: its arguments are variables with a `$f`; a head other than `\imp`, `\app` is a
declared constant that is no reserved word -/
theorem ctorHead_facts {mdb : MDb} {target : String} (S : Shaped mdb target) :
    ∀ p ∈ mdb.filterMap ctorHeadOf, ∃ vs, mvNames p.2 = some vs ∧ (∀ v ∈ vs, v ∈ (floatsOf mdb).map (·.2)) ∧
      (plainP p = true → p.1 ∈ constsOf mdb ∧ reserved p.1 = false) := by
  intro p hp
  obtain ⟨st, hst, hh⟩ := List.mem_filterMap.mp hp
  have hs := S.stmts st hst
  cases st with
  | ax l ts =>
    obtain ⟨tc, t, rfl, hcase⟩ := ax_shape hs
    rcases hcase with ⟨rfl, hsyn⟩ | ⟨rfl, _, _⟩
    · cases t with
      | mv v => simp [syntaxShape] at hsyn
      | app s args =>
        simp only [ctorHeadOf, if_true, Option.some.injEq] at hh
        subst hh
        simp only [syntaxShape] at hsyn
        split at hsyn
        · cases hsyn
        · rename_i vs hvs
          simp only [Bool.and_eq_true, List.all_eq_true, List.contains_eq_mem, decide_eq_true_eq] at hsyn
          obtain ⟨⟨hvfs, _⟩, hcase⟩ := hsyn
          refine ⟨vs, hvs, hvfs, ?_⟩
          intro hpl
          simp only [plainP, Bool.not_eq_true', Bool.or_eq_false_iff, beq_eq_false_iff_ne, ne_eq] at hpl
          rw [if_neg hpl.1, if_neg hpl.2] at hcase
          simp only [Bool.and_eq_true, Bool.not_eq_true', List.contains_eq_mem, decide_eq_true_eq] at hcase
          exact ⟨hcase.1.1.1.2, hcase.1.1.1.1⟩
    · cases t <;> simp [ctorHeadOf] at hh
  | _ => simp [ctorHeadOf] at hh

end ConvCoh
