import Pi2.MM.Translate
import Pi2.ModuleThm
import Pi2.Nary
/-!
# Fuel monotonicity: more fuel, same answer
-/
set_option linter.unusedSimpArgs false
set_option linter.unusedVariables false
open Pat

/-- `x` is at most as defined as `y` -/
def OLe {α} (x y : Option α) : Prop := ∀ a, x = some a → y = some a

namespace OLe
theorem refl {α} (x : Option α) : OLe x x := fun _ h => h
theorem none {α} (y : Option α) : OLe (none : Option α) y := fun _ h => by cases h
theorem trans {α} {x y z : Option α} (h1 : OLe x y) (h2 : OLe y z) : OLe x z :=
  fun a h => h2 a (h1 a h)
theorem bind {α β} {x x' : Option α} {f f' : α → Option β} (hx : OLe x x')
    (hf : ∀ a, OLe (f a) (f' a)) : OLe (x.bind f) (x'.bind f') := by
  intro b h
  simp only [Option.bind_eq_some_iff] at h ⊢
  obtain ⟨a, ha, hb⟩ := h
  exact ⟨a, hx a ha, hf a b hb⟩
theorem bindL {α β} {x x' : Option α} {f : α → Option β} (hx : OLe x x') :
    OLe (x.bind f) (x'.bind f) := bind hx (fun _ => refl _)
theorem map {α β} {x x' : Option α} {f : α → β} (hx : OLe x x') : OLe (x.map f) (x'.map f) := by
  intro b h
  simp only [Option.map_eq_some_iff] at h ⊢
  obtain ⟨a, ha, hb⟩ := h
  exact ⟨a, hx a ha, hb⟩
theorem ite {α} {c : Prop} [Decidable c] {a a' b b' : Option α} (h1 : c → OLe a a')
    (h2 : ¬ c → OLe b b') : OLe (if c then a else b) (if c then a' else b') := by
  by_cases hc : c
  · simp only [hc, if_true]; exact h1 hc
  · simp only [hc, if_false]; exact h2 hc
end OLe

namespace NPat

def MonoAll (n : Nat) : Prop :=
  (∀ δ p, OLe (instF n δ p) (instF (n + 1) δ p)) ∧
  (∀ δ m, OLe (mapF n δ m) (mapF (n + 1) δ m)) ∧
  (∀ p, OLe (metavarsF n p) (metavarsF (n + 1) p)) ∧
  (∀ x plug p, OLe (esubF n x plug p) (esubF (n + 1) x plug p)) ∧
  (∀ x plug p, OLe (ssubF n x plug p) (ssubF (n + 1) x plug p))

set_option hygiene false in
macro "mono_step" : tactic =>
  `(tactic| repeat' (first
      | exact OLe.refl _
      | exact hi _ _
      | exact hm _ _
      | exact hv _
      | exact he _ _ _
      | exact hs _ _ _
      | apply OLe.ite
      | apply OLe.bind
      | intro _))

theorem monoAll_succ (n : Nat) (ih : MonoAll n) : MonoAll (n + 1) := by
  obtain ⟨hi, hm, hv, he, hs⟩ := ih
  refine ⟨?_, ?_, ?_, ?_, ?_⟩
  · intro δ p
    cases p <;> simp only [instF, Option.bind_eq_bind, Option.pure_def] <;> mono_step
  · intro δ m
    rcases m with _ | ⟨⟨k, v⟩, r⟩ <;> simp only [mapF, Option.bind_eq_bind, Option.pure_def] <;>
      mono_step
  · intro p
    cases p <;> simp only [metavarsF, Option.bind_eq_bind, Option.pure_def] <;> mono_step
  · intro x plug p
    cases p <;> simp only [esubF, Option.bind_eq_bind, Option.pure_def] <;> mono_step
  · intro x plug p
    cases p <;> simp only [ssubF, Option.bind_eq_bind, Option.pure_def] <;> mono_step

theorem monoAll (n : Nat) : MonoAll n := by
  induction n with
  | zero =>
    refine ⟨?_, ?_, ?_, ?_, ?_⟩ <;> intros <;> simp only [instF, mapF, metavarsF, esubF, ssubF] <;>
      exact OLe.none _
  | succ n ih => exact monoAll_succ n ih

end NPat

theorem OLe.of_step {α} (f : Nat → Option α) (h : ∀ n, OLe (f n) (f (n + 1))) {n m : Nat}
    (hnm : n ≤ m) : OLe (f n) (f m) := by
  induction hnm with
  | refl => exact OLe.refl _
  | step _ ih => exact ih.trans (h _)

namespace NPat

theorem instF_mono {n m : Nat} (h : n ≤ m) (δ : List (Nat × NPat)) (p : NPat) :
    OLe (instF n δ p) (instF m δ p) :=
  OLe.of_step (fun n => instF n δ p) (fun n => (monoAll n).1 δ p) h

theorem metavarsF_mono {n m : Nat} (h : n ≤ m) (p : NPat) :
    OLe (metavarsF n p) (metavarsF m p) :=
  OLe.of_step (fun n => metavarsF n p) (fun n => (monoAll n).2.2.1 p) h

theorem mapF_mono {n m : Nat} (h : n ≤ m) (δ m' : List (Nat × NPat)) :
    OLe (mapF n δ m') (mapF m δ m') :=
  OLe.of_step (fun n => mapF n δ m') (fun n => (monoAll n).2.1 δ m') h

theorem peqF_step (n : Nat) : ∀ a b, OLe (peqF n a b) (peqF (n + 1) a b) := by
  induction n with
  | zero => intro a b; simp only [peqF]; exact OLe.none _
  | succ n ih =>
    have hi := fun δ p => (monoAll n).1 δ p
    intro a b
    cases a <;> cases b <;> simp only [peqF, Option.bind_eq_bind, Option.pure_def] <;>
      repeat' (first
        | exact OLe.refl _
        | exact hi _ _
        | exact ih _ _
        | apply OLe.ite
        | apply OLe.bind
        | intro _)

theorem peqF_mono {n m : Nat} (h : n ≤ m) (a b : NPat) : OLe (peqF n a b) (peqF m a b) :=
  OLe.of_step (fun n => peqF n a b) (fun n => peqF_step n a b) h

theorem headF_step (n : Nat) : ∀ a, OLe (headF n a) (headF (n + 1) a) := by
  induction n with
  | zero => intro a; simp only [headF]; exact OLe.none _
  | succ n ih =>
    have hi := fun δ p => (monoAll n).1 δ p
    intro a
    cases a <;> simp only [headF, Option.bind_eq_bind, Option.pure_def] <;>
      repeat' (first
        | exact OLe.refl _
        | exact hi _ _
        | exact ih _
        | apply OLe.bind
        | intro _)

theorem headF_mono {n m : Nat} (h : n ≤ m) (a : NPat) : OLe (headF n a) (headF m a) :=
  OLe.of_step (fun n => headF n a) (fun n => headF_step n a) h

theorem naryF_step (n : Nat) : ∀ a, OLe (naryF n a) (naryF (n + 1) a) := by
  induction n with
  | zero => intro a; simp only [naryF]; exact OLe.none _
  | succ n ih =>
    have hi := fun δ p => (monoAll n).1 δ p
    intro a
    cases a <;> simp only [naryF, Option.bind_eq_bind, Option.pure_def] <;>
      repeat' (first
        | exact OLe.refl _
        | exact hi _ _
        | exact ih _
        | apply OLe.bind
        | intro _)

/-- more fuel, same answer -/
theorem naryF_mono {n m : Nat} (h : n ≤ m) (p : NPat) (r : NPat × List NPat) (hr : naryF n p = some r) :
    naryF m p = some r :=
  OLe.of_step (fun n => naryF n p) (fun n => naryF_step n p) h r hr

theorem evarIsFreeF_step (n : Nat) : ∀ e a, OLe (evarIsFreeF n e a) (evarIsFreeF (n + 1) e a) := by
  induction n with
  | zero => intro e a; simp only [evarIsFreeF]; exact OLe.none _
  | succ n ih =>
    have hi := fun δ p => (monoAll n).1 δ p
    intro e a
    cases a <;> simp only [evarIsFreeF, Option.bind_eq_bind, Option.pure_def] <;>
      repeat' (first
        | exact OLe.refl _
        | exact hi _ _
        | exact ih _ _
        | apply OLe.ite
        | apply OLe.bind
        | intro _)

theorem pyMP_step (n : Nat) (a b : NPat) : OLe (pyMP n a b) (pyMP (n + 1) a b) := by
  simp only [pyMP, Option.bind_eq_bind, Option.pure_def]
  apply OLe.bind (headF_step n a)
  intro q
  cases q <;> first | exact OLe.refl _ | exact OLe.bindL (peqF_step n _ _)

theorem pyGen_step (n : Nat) (a : NPat) (x : VId) : OLe (pyGen n a x) (pyGen (n + 1) a x) := by
  simp only [pyGen, Option.bind_eq_bind, Option.pure_def]
  apply OLe.bind (headF_step n a)
  intro q
  cases q <;> first | exact OLe.refl _ | exact OLe.bindL (evarIsFreeF_step n _ _)

end NPat

namespace PySt
open NPat

theorem teqF_step (n : Nat) (a b : TTerm) : OLe (teqF n a b) (teqF (n + 1) a b) := by
  cases a <;> cases b <;> simp only [teqF] <;> first | exact OLe.refl _ | exact peqF_step n _ _

theorem indexF_step (n : Nat) (t : TTerm) : ∀ (mem : List TTerm) (i : Nat),
    OLe (indexF n t mem i) (indexF (n + 1) t mem i) := by
  intro mem
  induction mem with
  | nil => intro i; exact OLe.refl _
  | cons u r ih =>
    intro i
    simp only [indexF, Option.bind_eq_bind, Option.pure_def]
    apply OLe.bind (teqF_step n u t)
    intro b
    cases b
    · simpa using ih (i + 1)
    · exact OLe.refl _

theorem inMemoryF_step (n : Nat) (p : NPat) : ∀ (mem : List TTerm),
    OLe (inMemoryF n p mem) (inMemoryF (n + 1) p mem) := by
  intro mem
  induction mem with
  | nil => exact OLe.refl _
  | cons u r ih =>
    simp only [inMemoryF, Option.bind_eq_bind, Option.pure_def]
    apply OLe.bind (teqF_step n u (.pat p))
    intro b
    cases b
    · simpa using ih
    · exact OLe.refl _

theorem track1_step (n : Nat) (s : PySt) (c : Call) : OLe (track1 n s c) (track1 (n + 1) s c) := by
  cases c <;> simp only [track1, Option.bind_eq_bind, Option.pure_def] <;> try exact OLe.refl _
  · -- mp
    split <;> try exact OLe.refl _
    exact OLe.bindL (pyMP_step n _ _)
  · -- gen
    split <;> try exact OLe.refl _
    exact OLe.bindL (pyGen_step n _ _)
  · -- instantiate
    split <;> try exact OLe.refl _
    split <;> try exact OLe.refl _
    split <;> try exact OLe.refl _
    exact OLe.bindL ((monoAll n).1 _ _)
  · -- load
    exact OLe.bindL (indexF_step n _ _ _)
  · -- publishProof
    split <;> try exact OLe.refl _
    exact OLe.bindL (peqF_step n _ _)

theorem track1_mono {n m : Nat} (h : n ≤ m) (s : PySt) (c : Call) :
    OLe (track1 n s c) (track1 m s c) :=
  OLe.of_step (fun n => track1 n s c) (fun n => track1_step n s c) h

theorem emit1_step (n : Nat) (s : PySt) (c : Call) : OLe (emit1 n s c) (emit1 (n + 1) s c) := by
  cases c <;> simp only [emit1, Option.bind_eq_bind, Option.pure_def] <;> try exact OLe.refl _
  exact OLe.bindL (indexF_step n _ _ _)

theorem doCalls_step (n : Nat) : ∀ (cs : List Call) (s : PySt) (acc : List Call),
    OLe (doCalls n s cs acc) (doCalls (n + 1) s cs acc) := by
  intro cs
  induction cs with
  | nil => intro s acc; exact OLe.refl _
  | cons c r ih =>
    intro s acc
    simp only [doCalls, Option.bind_eq_bind, Option.pure_def]
    apply OLe.bind (track1_step n s c)
    intro o
    cases o
    · exact OLe.refl _
    · exact ih _ _

theorem doCalls_mono {n m : Nat} (h : n ≤ m) (cs : List Call) (s : PySt) (acc : List Call) :
    OLe (doCalls n s cs acc) (doCalls m s cs acc) :=
  OLe.of_step (fun n => doCalls n s cs acc) (fun n => doCalls_step n cs s acc) h

end PySt

theorem OLe.andThen {α β γ} {x x' : Option (Option (α × β))} {f f' : α → β → Option (Option γ)}
    (hx : OLe x x') (hf : ∀ a b, OLe (f a b) (f' a b)) : OLe (andThen x f) (andThen x' f') := by
  unfold _root_.andThen
  apply OLe.bind hx
  intro o
  rcases o with _ | ⟨a, b⟩
  · exact OLe.refl _
  · exact hf a b

namespace PySt

def PatMono (cfg : Cfg) (n : Nat) : Prop :=
  (∀ s p acc, OLe (patternF cfg n s p acc) (patternF cfg (n + 1) s p acc)) ∧
  (∀ s ps acc, OLe (patternF.patternListF cfg n s ps acc) (patternF.patternListF cfg (n + 1) s ps acc))

theorem memoHitF_step (cfg : Cfg) (n : Nat) (p : NPat) (s : PySt) :
    OLe (memoHitF cfg n p s) (memoHitF cfg (n + 1) p s) := by
  unfold memoHitF
  split
  · exact OLe.refl _
  · exact inMemoryF_step n p _

theorem saveF_step (cfg : Cfg) (n : Nat) (p : NPat) (s : PySt) (a : List Call) :
    OLe (saveF cfg n p s a) (saveF cfg (n + 1) p s a) := by
  unfold saveF
  split
  · apply OLe.ite
    · intro _; exact doCalls_step n _ _ _
    · intro _; exact OLe.refl _
  · exact OLe.refl _

theorem buildF_step (cfg : Cfg) (n : Nat) (ih : PatMono cfg n) (s : PySt) (p : NPat)
    (acc : List Call) : OLe (buildF cfg n s p acc) (buildF cfg (n + 1) s p acc) := by
  obtain ⟨hp, hl⟩ := ih
  cases p <;> simp only [buildF] <;>
    repeat' (first
      | exact doCalls_step n _ _ _
      | exact hp _ _ _
      | exact hl _ _ _
      | apply OLe.andThen
      | intro _)

theorem patMono (cfg : Cfg) (n : Nat) : PatMono cfg n := by
  induction n with
  | zero =>
    constructor
    · intro s p acc; simp only [patternF]; exact OLe.none _
    · intro s ps acc; simp only [patternF.patternListF]; exact OLe.none _
  | succ n ih =>
    constructor
    · intro s p acc
      rw [patternF_succ, patternF_succ]
      apply OLe.bind (memoHitF_step cfg n p s)
      intro hit
      apply OLe.ite
      · intro _; exact doCalls_step n _ _ _
      · intro _
        apply OLe.andThen (buildF_step cfg n ih s p acc)
        intro a b; exact saveF_step cfg n p a b
    · intro s ps acc
      cases ps with
      | nil => simp only [patternF.patternListF]; exact OLe.refl _
      | cons p ps =>
        rw [patternListF_cons, patternListF_cons]
        apply OLe.andThen (ih.1 _ _ _)
        intro a b; exact ih.2 _ _ _

theorem patternF_mono (cfg : Cfg) {n m : Nat} (h : n ≤ m) (s : PySt) (p : NPat) (acc : List Call) :
    OLe (patternF cfg n s p acc) (patternF cfg m s p acc) :=
  OLe.of_step (fun n => patternF cfg n s p acc) (fun n => (patMono cfg n).1 s p acc) h

end PySt
