import Pi2.MM.ConvTie
import Pi2.XProofTie
/-!
# From the converter's strings to the model's numbers: `patOf` is `image ∘ termOf`, `$f` order is `mandOf`
-/
set_option linter.unusedSimpArgs false
set_option linter.unusedVariables false
open MM SliceSup ConvSup Gen.MMConv

namespace ConvTie
open ConvSpec

theorem str_idxOf_inj (V : List String) (a b : String) (ha : a ∈ V) (h : V.idxOf a = V.idxOf b) : a = b := by
  induction V with
  | nil => simp at ha
  | cons x V ih =>
    simp only [List.idxOf_cons] at h
    by_cases e1 : x = a
    · subst e1
      by_cases e2 : x = b
      · exact e2
      · have : (x == b) = false := by simp [e2]
        simp [this] at h
    · have h1 : (x == a) = false := by simp [e1]
      by_cases e2 : x = b
      · subst e2; simp [h1] at h
      · have h2 : (x == b) = false := by simp [e2]
        simp only [h1, h2, cond_false, Nat.add_right_cancel_iff] at h
        exact ih (by simpa [Ne.symm e1] using ha) h

/-- numbering the variables commutes with positions in a list of variables -/
theorem idxOf_map_idx (V : List String) (v : String) (hv : v ∈ V) : ∀ (l : List String), (∀ x ∈ l, x ∈ V) →
    (l.map V.idxOf).idxOf (V.idxOf v) = l.idxOf v := by
  intro l
  induction l with
  | nil => intro _; rfl
  | cons x l ih =>
    intro hl
    simp only [List.map_cons, List.idxOf_cons]
    by_cases e : x = v
    · subst e; simp
    · have h1 : (x == v) = false := by simp [e]
      have h2 : (V.idxOf x == V.idxOf v) = false := by
        simp only [beq_eq_false_iff_ne, ne_eq]
        intro h
        exact e (str_idxOf_inj V x v (hl x (by simp)) h)
      simp only [h1, h2, cond_false, ih (fun y hy => hl y (by simp [hy]))]

theorem imageApp_foldl (db : DB) : ∀ (xs : List MM.Term) (acc : NPat),
    imageApp db acc xs = (xs.map (image db)).foldl (fun a p => NPat.app a p) acc := by
  intro xs
  induction xs with
  | nil => intro acc; simp [imageApp_nil]
  | cons x xs ih => intro acc; simp only [imageApp_cons, List.map_cons, List.foldl_cons]; exact ih _

/-- the numbering context: `fs` = the variables with a `$f` statement (names), all declared; the model's floats are their numbers;
the model database declares no notation (`dbOfCore` produces none) -/
structure Numbering (nm : Names) (fs : List String) (db : DB) : Prop where
  declared : ∀ x ∈ fs, x ∈ nm.vars
  floats : db.floats = fs.map nm.vars.idxOf
  plain : ∀ c ∈ db.ctors, c.body = none

theorem valOf_eq (nm : Names) (fs : List String) (db : DB) (h : Numbering nm fs db) (v : String) (hv : v ∈ nm.vars) :
    valOf fs v = image db (.var (nm.vars.idxOf v)) := by
  simp only [valOf, image_var, DB.mvId, h.floats, idxOf_map_idx nm.vars v hv fs h.declared]
  rfl

theorem patOf_image (nm : Names) (fs : List String) (db : DB) (h : Numbering nm fs db) :
    ∀ (n : Nat) (t : MTerm) (T : MM.Term), tsize t ≤ n → termOf nm t = some T →
      patOf nm.consts.idxOf (valOf fs) t = image db T := by
  intro n
  induction n with
  | zero => intro t _ ht; have := tsize_pos t; omega
  | succ n ih =>
    have hl : ∀ (ts : List MTerm) (Ts : List MM.Term), tsizes ts ≤ n → termsOf nm ts = some Ts →
        patsOf nm.consts.idxOf (valOf fs) ts = Ts.map (image db) := by
      intro ts
      induction ts with
      | nil => intro Ts _ h; simp [termsOf] at h; subst h; rfl
      | cons t ts iht =>
        intro Ts hsz hts
        simp only [tsizes] at hsz
        have := tsize_pos t
        simp only [termsOf] at hts
        cases h1 : termOf nm t with
        | none => simp [h1] at hts
        | some T =>
          cases h2 : termsOf nm ts with
          | none => simp [h1, h2] at hts
          | some Ts' =>
            simp [h1, h2] at hts
            subst hts
            simp only [patsOf, List.map_cons, ih t T (by omega) h1, iht Ts' (by omega) h2]
    intro t T hsz ht
    cases t with
    | mv v =>
      simp only [termOf, Names.var?] at ht
      by_cases hv : nm.vars.contains v
      · simp only [hv, if_true, Option.map_some, Option.some.injEq] at ht
        subst ht
        simp only [patOf]
        exact valOf_eq nm fs db h v (by simpa using hv)
      · rw [if_neg hv] at ht; simp at ht
    | app s args =>
      simp only [tsize] at hsz
      unfold termOf at ht
      by_cases h1 : s = "\\imp"
      · subst h1
        rw [if_pos rfl] at ht
        match args, ht with
        | [a, b], ht =>
          simp only [tsizes] at hsz
          cases ha : termOf nm a with
          | none => simp [ha] at ht
          | some A =>
            cases hb : termOf nm b with
            | none => simp [ha, hb] at ht
            | some B =>
              simp [ha, hb] at ht
              subst ht
              have := tsize_pos a; have := tsize_pos b
              simp only [patOf, patsOf, if_true, image_imp, ih a A (by omega) ha, ih b B (by omega) hb]
      · by_cases h2 : s = "\\app"
        · subst h2
          rw [if_neg h1, if_pos rfl] at ht
          match args, ht with
          | [a, b], ht =>
            simp only [tsizes] at hsz
            cases ha : termOf nm a with
            | none => simp [ha] at ht
            | some A =>
              cases hb : termOf nm b with
              | none => simp [ha, hb] at ht
              | some B =>
                simp [ha, hb] at ht
                subst ht
                have := tsize_pos a; have := tsize_pos b
                have hne : ("\\app" : String) ≠ "\\imp" := by decide
                simp only [patOf, patsOf, hne, if_false, if_true, image_app, ih a A (by omega) ha, ih b B (by omega) hb]
        · rw [if_neg h1, if_neg h2] at ht
          by_cases h3 : s = "\\exists" ∨ s = "\\mu"
          · rw [if_pos h3] at ht; cases ht
          rw [if_neg h3] at ht
          cases hc : nm.con? s with
          | none => simp [hc] at ht
          | some cn =>
            cases hts : termsOf nm args with
            | none => simp [hc, hts] at ht
            | some Ts =>
              simp [hc, hts] at ht
              subst ht
              have hcn : cn = nm.consts.idxOf s := by
                simp only [Names.con?] at hc
                split at hc
                · exact (Option.some.inj hc).symm
                · cases hc
              simp only [patOf, h1, h2, if_false, image_con_plain db h.plain, imageApp_foldl, hl args Ts (by omega) hts, hcn]

end ConvTie

namespace ConvTie
open ConvSpec

theorem vars_of_termOf (nm : Names) : ∀ (n : Nat) (t : MTerm) (T : MM.Term), tsize t ≤ n → termOf nm t = some T →
    Term.vars T = (termMvs t).map nm.vars.idxOf ∧ ∀ v ∈ termMvs t, v ∈ nm.vars := by
  intro n
  induction n with
  | zero => intro t _ ht; have := tsize_pos t; omega
  | succ n ih =>
    have hl : ∀ (ts : List MTerm) (Ts : List MM.Term), tsizes ts ≤ n → termsOf nm ts = some Ts →
        Term.varsList Ts = (termsMvs ts).map nm.vars.idxOf ∧ ∀ v ∈ termsMvs ts, v ∈ nm.vars := by
      intro ts
      induction ts with
      | nil => intro Ts _ h; simp [termsOf] at h; subst h; exact ⟨rfl, by simp [termsMvs]⟩
      | cons t ts iht =>
        intro Ts hsz hts
        simp only [tsizes] at hsz
        have := tsize_pos t
        simp only [termsOf] at hts
        cases h1 : termOf nm t with
        | none => simp [h1] at hts
        | some T =>
          cases h2 : termsOf nm ts with
          | none => simp [h1, h2] at hts
          | some Ts' =>
            simp [h1, h2] at hts
            subst hts
            obtain ⟨e1, m1⟩ := ih t T (by omega) h1
            obtain ⟨e2, m2⟩ := iht Ts' (by omega) h2
            refine ⟨by simp [Term.varsList, termsMvs, e1, e2], ?_⟩
            intro v hv
            simp only [termsMvs, List.mem_append] at hv
            rcases hv with hv | hv
            · exact m1 v hv
            · exact m2 v hv
    intro t T hsz ht
    cases t with
    | mv v =>
      simp only [termOf, Names.var?] at ht
      by_cases hv : nm.vars.contains v
      · simp only [hv, if_true, Option.map_some, Option.some.injEq] at ht
        subst ht
        exact ⟨rfl, by simpa [termMvs] using hv⟩
      · rw [if_neg hv] at ht; simp at ht
    | app s args =>
      simp only [tsize] at hsz
      unfold termOf at ht
      by_cases h1 : s = "\\imp"
      · subst h1
        rw [if_pos rfl] at ht
        match args, ht with
        | [a, b], ht =>
          cases ha : termOf nm a with
          | none => simp [ha] at ht
          | some A =>
            cases hb : termOf nm b with
            | none => simp [ha, hb] at ht
            | some B =>
              simp [ha, hb] at ht
              subst ht
              have hts : termsOf nm [a, b] = some [A, B] := by simp [termsOf, ha, hb]
              have := hl [a, b] [A, B] (by omega) hts
              simpa [Term.vars, Term.varsList, termMvs] using this
      · by_cases h2 : s = "\\app"
        · subst h2
          rw [if_neg h1, if_pos rfl] at ht
          match args, ht with
          | [a, b], ht =>
            cases ha : termOf nm a with
            | none => simp [ha] at ht
            | some A =>
              cases hb : termOf nm b with
              | none => simp [ha, hb] at ht
              | some B =>
                simp [ha, hb] at ht
                subst ht
                have hts : termsOf nm [a, b] = some [A, B] := by simp [termsOf, ha, hb]
                have := hl [a, b] [A, B] (by omega) hts
                simpa [Term.vars, Term.varsList, termMvs] using this
        · rw [if_neg h1, if_neg h2] at ht
          by_cases h3 : s = "\\exists" ∨ s = "\\mu"
          · rw [if_pos h3] at ht; cases ht
          rw [if_neg h3] at ht
          cases hc : nm.con? s with
          | none => simp [hc] at ht
          | some cn =>
            cases hts : termsOf nm args with
            | none => simp [hc, hts] at ht
            | some Ts =>
              simp [hc, hts] at ht
              subst ht
              have := hl args Ts (by omega) hts
              simpa [Term.vars, termMvs] using this

theorem varsList_of_termsOf (nm : Names) : ∀ (ts : List MTerm) (Ts : List MM.Term), termsOf nm ts = some Ts →
    Term.varsList Ts = (termsMvs ts).map nm.vars.idxOf ∧ (∀ v ∈ termsMvs ts, v ∈ nm.vars) ∧ Ts.length = ts.length ∧
      ∀ i (h : i < ts.length) (h' : i < Ts.length), termOf nm ts[i] = some Ts[i] := by
  intro ts
  induction ts with
  | nil => intro Ts h; simp [termsOf] at h; subst h; exact ⟨rfl, by simp [termsMvs], rfl, by intro i h; simp at h⟩
  | cons t ts ih =>
    intro Ts hts
    simp only [termsOf] at hts
    cases h1 : termOf nm t with
    | none => simp [h1] at hts
    | some T =>
      cases h2 : termsOf nm ts with
      | none => simp [h1, h2] at hts
      | some Ts' =>
        simp [h1, h2] at hts
        subst hts
        obtain ⟨e1, m1⟩ := vars_of_termOf nm (tsize t) t T (Nat.le_refl _) h1
        obtain ⟨e2, m2, l2, g2⟩ := ih Ts' h2
        refine ⟨by simp [Term.varsList, termsMvs, e1, e2], ?_, by simp [l2], ?_⟩
        · intro v hv
          simp only [termsMvs, List.mem_append] at hv
          rcases hv with hv | hv
          · exact m1 v hv
          · exact m2 v hv
        · intro i h h'
          cases i with
          | zero => exact h1
          | succ i => exact g2 i (by simpa using h) (by simpa using h')

/-- the statement's variables in `$f` order, numbered, are the model's mandatory variables -/
theorem mandOf_eq (nm : Names) (fs : List String) (db : DB) (h : Numbering nm fs db) (ts : List MTerm) (Ts : List MM.Term)
    (hts : termsOf nm ts = some Ts) :
    db.mandOf Ts = (fs.filter fun v => (termsMvs ts).contains v).map nm.vars.idxOf := by
  obtain ⟨hv, hmem, _, _⟩ := varsList_of_termsOf nm ts Ts hts
  simp only [DB.mandOf, h.floats, hv, List.filter_map]
  congr 1
  apply List.filter_congr
  intro v hvfs
  simp only [Function.comp]
  have hvV := h.declared v hvfs
  by_cases hin : v ∈ termsMvs ts
  · have : nm.vars.idxOf v ∈ (termsMvs ts).map nm.vars.idxOf := List.mem_map.mpr ⟨v, hin, rfl⟩
    simp [hin, this]
  · have : nm.vars.idxOf v ∉ (termsMvs ts).map nm.vars.idxOf := by
      intro hm
      obtain ⟨w, hw, e⟩ := List.mem_map.mp hm
      exact hin ((str_idxOf_inj nm.vars w v (hmem w hw) e) ▸ hw)
    simp [hin, this]

theorem patsOf_image (nm : Names) (fs : List String) (db : DB) (h : Numbering nm fs db) : ∀ (ts : List MTerm) (Ts : List MM.Term),
    termsOf nm ts = some Ts → ts.map (patOf nm.consts.idxOf (valOf fs)) = Ts.map (image db) := by
  intro ts
  induction ts with
  | nil => intro Ts h; simp [termsOf] at h; subst h; rfl
  | cons t ts ih =>
    intro Ts hts
    simp only [termsOf] at hts
    cases h1 : termOf nm t with
    | none => simp [h1] at hts
    | some T =>
      cases h2 : termsOf nm ts with
      | none => simp [h1, h2] at hts
      | some Ts' =>
        simp [h1, h2] at hts
        subst hts
        simp only [List.map_cons, patOf_image nm fs db h (tsize t) t T (Nat.le_refl _) h1, ih Ts' h2]

end ConvTie

namespace ConvTie
open ConvSpec

/-! ## coherence of the specification's output with the statements (decidable, evaluated by the driver on every database) -/
def isPC : Lbl → Bool | .impC | .appC | .ctor _ => true | _ => false
def isPR : Lbl → Bool | .p1 | .p2 | .mp => true | _ => false
def isRuleL : Lbl → Bool | .rule _ => true | _ => false

theorem ofDB_pc (db : DB) (goal : MM.Term) (l : Lbl) : (XProofTie.ofDB db goal).isPatternConstructor l = isPC l := by cases l <;> rfl
theorem ofDB_pr (db : DB) (goal : MM.Term) (l : Lbl) : (XProofTie.ofDB db goal).isProofRule l = isPR l := by cases l <;> rfl
theorem ofDB_ex (db : DB) (goal : MM.Term) (l : Lbl) : (XProofTie.ofDB db goal).isExportedAxiom l = isRuleL l := by cases l <;> rfl

/-- the hypotheses of an assertion are the theorems `|- H` for the terms `Hs` -/
def hypsAre : List Stmt → List MM.Term → Bool
  | [], [] => true
  | h :: hs, H :: Hs => h.thm && Term.beq h.term H && hypsAre hs Hs
  | _, _ => false

theorem hypsAre_eq : ∀ (hs : List Stmt) (Hs : List MM.Term), hypsAre hs Hs = true → hs = Hs.map (⟨true, ·⟩) := by
  intro hs
  induction hs with
  | nil => intro Hs h; cases Hs with
    | nil => rfl
    | cons _ _ => simp [hypsAre] at h
  | cons x hs ih =>
    intro Hs h
    cases Hs with
    | nil => simp [hypsAre] at h
    | cons H Hs =>
      simp only [hypsAre, Bool.and_eq_true] at h
      obtain ⟨thm, term⟩ := x
      simp only [] at h
      have e1 : thm = true := h.1.1
      have e2 : term = H := Term.beq_eq _ _ h.1.2
      subst e1 e2
      simp [ih Hs h.2]

/-- the model database gives the label of the statement `l: tc t` (with hypotheses `eh`) the `Lbl` of the right kind, and to that
`Lbl` the assertion the statement itself states -/
def coherentItem (sp : Spec) (st : MStmt) : Bool :=
  match axParts st with
  | some (_, eh, l, tcs, t) =>
    match sp.table.lookup l, termOf sp.names t, termsOf sp.names (eh.map (·.2)) with
    | some lbl, some T, some Hs =>
      (match sp.db.assertion lbl with
       | some A => decide (A.mand = sp.db.mandOf (Hs ++ [T])) && hypsAre A.hyps Hs && (A.concl.thm == (tcs == "|-")) &&
           Term.beq A.concl.term T
       | none => false) &&
      (isPC lbl == (tcs == "#Pattern")) && (isPR lbl == (tcs != "#Pattern" && strStartsWith l "proof-rule-")) &&
      (isRuleL lbl == (tcs != "#Pattern" && !strStartsWith l "proof-rule-"))
    | _, _, _ => false
  | none => false

def coherentFloats0 (sp : Spec) (mdb : MDb) : Bool :=
  ((floatPairs mdb).all fun p => sp.names.vars.contains p.2 && decide (sp.table.lookup p.1 = some (Lbl.float (sp.names.vars.idxOf p.2)))) &&
  decide (sp.db.floats = ((floatPairs mdb).map (·.2)).map sp.names.vars.idxOf)

/-- the `$f` statements; and the model database declares no notation (`dbOfCore` never produces one: `Ctor.body = none`) -/
def coherentFloats (sp : Spec) (mdb : MDb) : Bool :=
  coherentFloats0 sp mdb && sp.db.ctors.all (·.body.isNone)

def coherentGoal (sp : Spec) (mdb : MDb) : Bool :=
  match lemmaOf mdb with
  | some (_, t, _) => (match termOf sp.names t with | some T => Term.beq T sp.goal | none => false)
  | none => false

/-- the decoded proof of the target (`_import_proof`: keys `1..k`, the labels of the mandatory `$f` hypotheses by their conventional
names `<v>-is-pattern` and then the cited labels; the step numbers) is the specification's label list and steps -/
def proofAgrees (sp : Spec) (pf : Gen.ImportProof.Proof) : Bool :=
  decide (pf.labels.map (·.1) = (List.range pf.labels.length).map (· + 1)) &&
  decide ((pf.labels.mapM fun p => sp.table.lookup (String.ofList p.2)) = some sp.labels) &&
  decide (pf.applied_lemmas = sp.steps)

def coherentProof (sp : Spec) (mdb : MDb) : Bool :=
  match lemmaOf mdb with
  | some (l, t, prf) =>
      (match callImportProof ((floatPairs mdb).map (·.2)) (.prov l [.app "|-" [], t] prf) with
       | .ok pf => proofAgrees sp pf
       | _ => false)
  | none => false

/-- the supported fragment -/
def InFragment (mdb : MDb) (target : String) : Bool :=
  InFragmentM mdb (dbFuel mdb) target &&
  match dbOfCore mdb target with
  | some sp => (mdb.filter isAxItem).all (coherentItem sp) && coherentFloats sp mdb && coherentGoal sp mdb && coherentProof sp mdb && sp.db.wf
  | none => false

theorem termsOf_append (nm : Names) : ∀ (as : List MTerm) (As : List MM.Term) (b : MTerm) (B : MM.Term), termsOf nm as = some As →
    termOf nm b = some B → termsOf nm (as ++ [b]) = some (As ++ [B]) := by
  intro as
  induction as with
  | nil => intro As b B h hb; simp [termsOf] at h; subst h; simp [termsOf, hb]
  | cons a as ih =>
    intro As b B h hb
    simp only [termsOf] at h
    cases h1 : termOf nm a with
    | none => simp [h1] at h
    | some A =>
      cases h2 : termsOf nm as with
      | none => simp [h1, h2] at h
      | some As' =>
        simp [h1, h2] at h
        subst h
        simp [termsOf, h1, ih As' b B h2 hb]

/-- how the converter's `Axiom` object and metavariable order for a label relate to the model's answers for an `Lbl` -/
structure AgreeAxiom (σ : String → Nat) (fuel : Nat) (c : ConvObj) (nm : Names) (db : DB) (goal : MM.Term) (l : String) (lbl : Lbl) :
    Prop where
  pc : is_pattern_constructor σ fuel c l = (XProofTie.ofDB db goal).isPatternConstructor lbl
  pr : is_proof_rule σ fuel c l = (XProofTie.ofDB db goal).isProofRule lbl
  ex : is_exported_axiom σ fuel c l = (XProofTie.ofDB db goal).isExportedAxiom lbl
  ax : ∃ a r, get_axiom_by_name σ fuel c l = .ok a ∧ (XProofTie.ofDB db goal).axiom? lbl = some r ∧ a.pattern = r.pattern ∧
      a.antecedents? = r.antecedents ∧ (∀ n, n ∈ a.metavars.map nm.vars.idxOf ↔ n ∈ r.metavars)
  mio : ∃ m, get_metavars_in_order σ fuel c l = .ok m ∧ m.map nm.vars.idxOf = (XProofTie.ofDB db goal).metavarsInOrder lbl

theorem agree_axiom {σ : String → Nat} {fuel : Nat} {mdb : MDb} {target : String} {t : MTerm} {prf : List String}
    {pf : Gen.ImportProof.Proof} {c : ConvObj} (sp : Spec) (hσ : σ = sp.names.consts.idxOf)
    (hF : FragM mdb fuel target t prf) (hfin : Final σ mdb target t pf c)
    (hnum : Numbering sp.names ((floatPairs mdb).map (·.2)) sp.db)
    (st : MStmt) (hst : st ∈ mdb.filter isAxItem) (hco : coherentItem sp st = true) :
    ∃ l lbl, axLabel st = l ∧ sp.table.lookup l = some lbl ∧ AgreeAxiom σ fuel c sp.names sp.db sp.goal l lbl := by
  subst hσ
  obtain ⟨pl, eh, l, tcs, t', hparts, haxok, _, _⟩ := hF.axioms st hst
  unfold coherentItem at hco
  rw [hparts] at hco
  simp only [] at hco
  cases hlk : sp.table.lookup l with
  | none => simp [hlk] at hco
  | some lbl =>
    cases hT : termOf sp.names t' with
    | none => simp [hlk, hT] at hco
    | some T =>
      cases hHs : termsOf sp.names (eh.map (·.2)) with
      | none => simp [hlk, hT, hHs] at hco
      | some Hs =>
        simp only [hlk, hT, hHs, Bool.and_eq_true, beq_iff_eq] at hco
        obtain ⟨⟨⟨hA, hpc⟩, hpr⟩, hrl⟩ := hco
        cases hass : sp.db.assertion lbl with
        | none => simp [hass] at hA
        | some A =>
          simp only [hass, Bool.and_eq_true, decide_eq_true_eq, beq_iff_eq] at hA
          obtain ⟨⟨⟨hmand, hhyps⟩, hthm⟩, hconcl⟩ := hA
          have hhyps' := hypsAre_eq _ _ hhyps
          have hconcl' := Term.beq_eq _ _ hconcl
          obtain ⟨a, hget, hentry, hmio, _⟩ := q_get_axiom hF hfin st hst hparts
          have hall := termsOf_append sp.names _ Hs t' T hHs hT
          refine ⟨l, lbl, (headLabel_eq_axLabel hparts).2, hlk, ?_, ?_, ?_, ?_, ?_⟩
          · rw [q_is_pattern_constructor hF hfin st hst hparts, ofDB_pc, hpc]
          · rw [q_is_proof_rule hF hfin st hst hparts, ofDB_pr, hpr]
          · obtain ⟨_, _, _, _, hisax⟩ := q_get_axiom hF hfin st hst hparts
            simp only [is_exported_axiom, hisax, q_is_pattern_constructor hF hfin st hst hparts,
              q_is_proof_rule hF hfin st hst hparts, Bool.true_and, ofDB_ex, hrl]
            -- `tc` is `#Pattern` or `|-`
            cases h1 : (tcs == "#Pattern") <;> cases h2 : strStartsWith l "proof-rule-" <;> simp [h1, h2, bne]
          · refine ⟨a, XProofTie.axiomRec sp.db A, hget, by simp [XProofTie.ofDB, hass], ?_, ?_, ?_⟩
            · rw [hentry.pattern]
              simp only [XProofTie.axiomRec, hconcl']
              exact patOf_image sp.names _ sp.db hnum (tsize t') t' T (Nat.le_refl _) hT
            · rw [hentry.antecedents]
              have hlen := (varsList_of_termsOf sp.names _ Hs hHs).2.2.1
              have hpi := patsOf_image sp.names _ sp.db hnum _ Hs hHs
              have hmm : (Hs.map (fun x => ({ thm := true, term := x } : Stmt))).map (fun h => image sp.db h.term) = Hs.map (image sp.db) := by
                rw [List.map_map]; rfl
              by_cases he : eh.map (·.2) = []
              · have : Hs = [] := by rw [he] at hlen; simpa using hlen
                simp [XProofTie.axiomRec, hhyps', he, this]
              · have hne : Hs ≠ [] := by intro e; rw [e] at hlen; exact he (List.length_eq_zero_iff.mp hlen.symm)
                have hne' : (Hs.map (fun x => ({ thm := true, term := x } : Stmt))).isEmpty = false := by
                  cases Hs with
                  | nil => exact absurd rfl hne
                  | cons _ _ => rfl
                simp only [XProofTie.axiomRec, hhyps', he, if_false, hne', Bool.false_eq_true, hmm, hpi]
            · intro n
              have hterms : (Hs.map (fun x => ({ thm := true, term := x } : Stmt))).map (fun s => s.term) = Hs := by
                rw [List.map_map]; exact List.map_id _
              have hv := (varsList_of_termsOf sp.names _ (Hs ++ [T]) hall).1
              simp only [XProofTie.axiomRec, hhyps', hconcl', hterms, hv]
              simp only [List.mem_map]
              constructor
              · rintro ⟨v, hv', rfl⟩
                exact ⟨v, (hentry.metavars v).mp hv', rfl⟩
              · rintro ⟨v, hv', rfl⟩
                exact ⟨v, (hentry.metavars v).mpr hv', rfl⟩
          · refine ⟨_, hmio, ?_⟩
            simp only [XProofTie.ofDB, hass, Option.map_some, Option.getD_some, hmand]
            exact (mandOf_eq sp.names _ sp.db hnum _ (Hs ++ [T]) hall).symm

end ConvTie

namespace ConvTie
open ConvSpec

theorem numbering_of_coherent (sp : Spec) (mdb : MDb) (h : coherentFloats sp mdb = true) :
    Numbering sp.names ((floatPairs mdb).map (·.2)) sp.db := by
  simp only [coherentFloats, Bool.and_eq_true] at h
  obtain ⟨h, hpl⟩ := h
  simp only [coherentFloats0, Bool.and_eq_true, List.all_eq_true, decide_eq_true_eq, List.contains_eq_mem] at h
  refine ⟨?_, h.2, ?_⟩
  · intro x hx
    obtain ⟨p, hp, rfl⟩ := List.mem_map.mp hx
    exact (h.1 p hp).1
  · intro c hc
    have := List.all_eq_true.mp hpl c hc
    simpa using this

/-- a `$f` label: the model's `Lbl.float`, the same `MetaVar`, not a pattern constructor -/
theorem agree_float {σ : String → Nat} {fuel : Nat} {mdb : MDb} {target : String} {t : MTerm} {prf : List String}
    {pf : Gen.ImportProof.Proof} {c : ConvObj} (sp : Spec)
    (hF : FragM mdb fuel target t prf) (hfin : Final σ mdb target t pf c) (hL : LabelsOK mdb) (hco : coherentFloats sp mdb = true)
    (l v : String) (hlv : (l, v) ∈ floatPairs mdb) :
    sp.table.lookup l = some (Lbl.float (sp.names.vars.idxOf v)) ∧
    c._fp_label_to_pattern.lookup l = (XProofTie.ofDB sp.db sp.goal).floating (Lbl.float (sp.names.vars.idxOf v)) ∧
    resolve_metavar σ fuel c v = .ok ((XProofTie.ofDB sp.db sp.goal).resolveMetavar (sp.names.vars.idxOf v)) ∧
    is_pattern_constructor σ fuel c l = (XProofTie.ofDB sp.db sp.goal).isPatternConstructor (Lbl.float (sp.names.vars.idxOf v)) := by
  have hnum := numbering_of_coherent sp mdb hco
  simp only [coherentFloats, coherentFloats0, Bool.and_eq_true, List.all_eq_true, decide_eq_true_eq, List.contains_eq_mem] at hco
  obtain ⟨hvV, htab⟩ := hco.1.1 (l, v) hlv
  obtain ⟨h1, h2, h3⟩ := q_floating hF hfin hL l v hlv
  have hidx : sp.db.mvId (sp.names.vars.idxOf v) = ((floatPairs mdb).map (·.2)).idxOf v := by
    simp only [DB.mvId, hnum.floats]
    exact idxOf_map_idx sp.names.vars v hvV _ hnum.declared
  refine ⟨htab, ?_, ?_, ?_⟩
  · rw [h1]; simp only [XProofTie.ofDB, hidx]; rfl
  · rw [h2]; simp only [XProofTie.ofDB, hidx]; rfl
  · rw [h3]; rfl

/-- the target: `get_lemma_by_name(target).pattern` is the image of the goal -/
theorem agree_goal {σ : String → Nat} {fuel : Nat} {mdb : MDb} {target : String} {t : MTerm} {prf : List String}
    {pf : Gen.ImportProof.Proof} {c : ConvObj} (sp : Spec) (hσ : σ = sp.names.consts.idxOf)
    (hfin : Final σ mdb target t pf c) (hlem : lemmaOf mdb = some (target, t, prf))
    (hcf : coherentFloats sp mdb = true) (hcg : coherentGoal sp mdb = true) :
    ∃ a, get_lemma_by_name σ fuel c target = .ok a ∧ a.pattern = (XProofTie.ofDB sp.db sp.goal).targetPattern ∧ a.proof? = some pf ∧
      lemmas σ fuel c = [target] := by
  subst hσ
  obtain ⟨a, h1, h2, h3, h4⟩ := q_lemma (fuel := fuel) hfin
  refine ⟨a, h1, ?_, h3, h4⟩
  simp only [coherentGoal, hlem] at hcg
  cases hT : termOf sp.names t with
  | none => simp [hT] at hcg
  | some T =>
    simp only [hT] at hcg
    have hTg : T = sp.goal := Term.beq_eq _ _ hcg
    rw [h2, ← hTg]
    exact patOf_image sp.names _ sp.db (numbering_of_coherent sp mdb hcf) (tsize t) t T (Nat.le_refl _) hT

/-- THE TIE: on a database of the fragment, for every fuel `≥ dbFuel`, the generated converter returns a converter object that
answers every query about every `$f` label and every `$a` label as `XProofTie.ofDB (dbOfCore mdb)` answers it for the `Lbl` the
label table gives the label (symbols numbered by the `$c` positions, variables by the `$v` positions) -/
theorem converter_agrees (mdb : MDb) (target : String) (h : InFragment mdb target = true) :
    ∃ sp, dbOfCore mdb target = some sp ∧ sp.db.wf = true ∧
      ∀ fuel, dbFuel mdb ≤ fuel → ∃ c, MetamathConverter_init sp.names.consts.idxOf fuel default mdb = .ok c ∧
        (∀ l v, (l, v) ∈ floatPairs mdb →
          sp.table.lookup l = some (Lbl.float (sp.names.vars.idxOf v)) ∧
          c._fp_label_to_pattern.lookup l = (XProofTie.ofDB sp.db sp.goal).floating (Lbl.float (sp.names.vars.idxOf v)) ∧
          resolve_metavar sp.names.consts.idxOf fuel c v = .ok ((XProofTie.ofDB sp.db sp.goal).resolveMetavar (sp.names.vars.idxOf v)) ∧
          is_pattern_constructor sp.names.consts.idxOf fuel c l =
            (XProofTie.ofDB sp.db sp.goal).isPatternConstructor (Lbl.float (sp.names.vars.idxOf v))) ∧
        (∀ st ∈ mdb.filter isAxItem, ∃ l lbl, axLabel st = l ∧ sp.table.lookup l = some lbl ∧
          AgreeAxiom sp.names.consts.idxOf fuel c sp.names sp.db sp.goal l lbl) ∧
        (exported_axioms sp.names.consts.idxOf fuel c =
          ((mdb.filter isAxItem).filter fun st => !isPcItem st && !isPrItem st).map axLabel) ∧
        (∃ a pf, get_lemma_by_name sp.names.consts.idxOf fuel c target = .ok a ∧
          a.pattern = (XProofTie.ofDB sp.db sp.goal).targetPattern ∧ a.proof? = some pf ∧ proofAgrees sp pf = true ∧
          lemmas sp.names.consts.idxOf fuel c = [target]) := by
  simp only [InFragment, Bool.and_eq_true] at h
  obtain ⟨hM, hsp⟩ := h
  cases hdb : dbOfCore mdb target with
  | none => simp [hdb] at hsp
  | some sp =>
    simp only [hdb, Bool.and_eq_true, List.all_eq_true] at hsp
    obtain ⟨⟨⟨⟨hitems, hfloats⟩, hgoal⟩, hproof⟩, hwf⟩ := hsp
    obtain ⟨t, prf, pf, hlem, hL, hpf, hF⟩ := inFragmentM_sound hM
    refine ⟨sp, rfl, hwf, ?_⟩
    intro fuel hfuel
    obtain ⟨c, hc, hfin⟩ := init_ok sp.names.consts.idxOf fuel mdb target t prf pf (hF fuel hfuel) hpf
    refine ⟨c, hc, ?_, ?_, q_exported (hF fuel hfuel) hfin, ?_⟩
    · intro l v hlv
      exact agree_float sp (hF fuel hfuel) hfin hL hfloats l v hlv
    · intro st hst
      exact agree_axiom sp rfl (hF fuel hfuel) hfin (numbering_of_coherent sp mdb hfloats) st hst (hitems st hst)
    · obtain ⟨a, h1, h2, h3, h4⟩ := agree_goal (fuel := fuel) sp rfl hfin hlem hfloats hgoal
      have hpa : proofAgrees sp pf = true := by
        simp only [coherentProof, hlem, hpf] at hproof
        exact hproof
      exact ⟨a, pf, h1, h2, h3, hpa, h4⟩

end ConvTie

#print axioms ConvTie.converter_agrees
