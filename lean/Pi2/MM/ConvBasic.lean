import Pi2.Gen.MMConv
import Pi2.MM.ConvSpec
/-!
# Basic facts about the vocabulary of the generated converter (`Pi2/ConvSupport.lean`) and `_check_axiom`
-/
set_option linter.unusedSimpArgs false
set_option linter.unusedVariables false
open MM SliceSup ConvSup Gen.MMConv

namespace ConvTie

/-! ## `Res` -/
theorem bind_eq_ok {α β : Type} {r : Res α} {f : α → Res β} {b : β} (h : (r >>= f) = .ok b) : ∃ a, r = .ok a ∧ f a = .ok b := by
  cases r <;> simp_all [bind, Res.bind]

@[simp] theorem listGet_zero {α : Type} (a : α) (l : List α) : listGet (a :: l) 0 = .ok a := rfl
@[simp] theorem listGet_one {α : Type} (a b : α) (l : List α) : listGet (a :: b :: l) 1 = .ok b := rfl
@[simp] theorem listGet_two {α : Type} (a b c : α) (l : List α) : listGet (a :: b :: c :: l) 2 = .ok c := rfl

theorem listGet_ok {α : Type} (l : List α) (i : Nat) (h : i < l.length) : listGet l i = .ok l[i] := by
  simp [listGet, ofOption, List.getElem?_eq_getElem h]

@[simp] theorem listLast_concat {α : Type} (l : List α) (a : α) : listLast (l ++ [a]) = .ok a := by
  simp [listLast, ofOption]

/-! ## sets -/
theorem setAdd_mem (s : List String) (x : String) (h : x ∈ s) : setAdd s x = s := by
  simp [setAdd, h]
theorem setAdd_new (s : List String) (x : String) (h : x ∉ s) : setAdd s x = s ++ [x] := by
  simp [setAdd, h]
theorem mem_setAdd (s : List String) (x y : String) : y ∈ setAdd s x ↔ y ∈ s ∨ y = x := by
  unfold setAdd
  split <;> rename_i h
  · simp at h
    constructor
    · exact Or.inl
    · rintro (h' | rfl)
      · exact h'
      · exact h
  · simp
theorem mem_setUnion (t : List String) : ∀ (s : List String) (y : String), y ∈ setUnion s t ↔ y ∈ s ∨ y ∈ t := by
  induction t with
  | nil => intro s y; simp [setUnion]
  | cons x t ih =>
    intro s y
    have : setUnion s (x :: t) = setUnion (setAdd s x) t := rfl
    rw [this, ih, mem_setAdd]
    simp only [List.mem_cons]
    constructor
    · rintro ((h | h) | h)
      · exact Or.inl h
      · exact Or.inr (Or.inl h)
      · exact Or.inr (Or.inr h)
    · rintro (h | h | h)
      · exact Or.inl (Or.inl h)
      · exact Or.inl (Or.inr h)
      · exact Or.inr h
theorem mem_setOf (t : List String) (y : String) : y ∈ setOf t ↔ y ∈ t := by
  simp [setOf, mem_setUnion]
theorem setAdd_nodup (s : List String) (x : String) (h : s.Nodup) : (setAdd s x).Nodup := by
  unfold setAdd
  split <;> rename_i hx
  · exact h
  · simp at hx
    exact List.nodup_append.mpr ⟨h, by simp, by intro a ha b hb; simp at hb; subst hb; intro e; subst e; exact hx ha⟩
theorem setUnion_nodup (t : List String) : ∀ (s : List String), s.Nodup → (setUnion s t).Nodup := by
  induction t with
  | nil => intro s h; exact h
  | cons x t ih => intro s h; exact ih _ (setAdd_nodup s x h)
theorem setUnion_subset_self (t : List String) : ∀ (s : List String), (∀ x ∈ t, x ∈ s) → setUnion s t = s := by
  induction t with
  | nil => intro s _; rfl
  | cons x t ih =>
    intro s h
    have : setUnion s (x :: t) = setUnion (setAdd s x) t := rfl
    rw [this, setAdd_mem s x (h x (by simp))]
    exact ih s (fun y hy => h y (by simp [hy]))

/-! ## dicts -/
theorem dictHas_iff {α : Type} (d : PyDict α) (k : String) : dictHas d k = true ↔ k ∈ d.map (·.1) := by
  induction d with
  | nil => simp [dictHas, List.lookup]
  | cons p d ih =>
    obtain ⟨k', v⟩ := p
    simp only [dictHas, List.lookup, List.map_cons, List.mem_cons]
    by_cases h : k = k'
    · subst h; simp
    · have : (k == k') = false := by simp [h]
      simp only [this]
      simp only [dictHas] at ih
      rw [ih]
      simp [h]

theorem dictHas_false_iff {α : Type} (d : PyDict α) (k : String) : dictHas d k = false ↔ k ∉ d.map (·.1) := by
  rw [← dictHas_iff]; simp

theorem dictSet_new {α : Type} (d : PyDict α) (k : String) (v : α) (h : k ∉ d.map (·.1)) : SliceSup.dictSet d k v = d ++ [(k, v)] := by
  unfold SliceSup.dictSet
  have : d.any (·.1 == k) = false := by
    simp only [List.any_eq_false]
    intro p hp
    simp only [beq_iff_eq]
    intro e
    exact h (List.mem_map.mpr ⟨p, hp, e⟩)
  simp [this]

theorem lookup_append_new {α : Type} (d : PyDict α) (k k' : String) (v : α) (h : k' ∉ d.map (·.1)) :
    (d ++ [(k', v)]).lookup k = if k = k' then some v else d.lookup k := by
  induction d with
  | nil =>
    simp only [List.nil_append, List.lookup]
    by_cases e : k = k'
    · subst e; simp
    · have : (k == k') = false := by simp [e]
      simp [this, e]
  | cons p d ih =>
    obtain ⟨k0, v0⟩ := p
    simp only [List.map_cons, List.mem_cons, not_or] at h
    simp only [List.cons_append, List.lookup]
    by_cases e0 : k = k0
    · subst e0
      have : k ≠ k' := fun e => h.1 e.symm
      simp [this]
    · have : (k == k0) = false := by simp [e0]
      simp only [this]
      exact ih h.2

theorem dictGet_ok {α : Type} (d : PyDict α) (k : String) (v : α) (h : d.lookup k = some v) : dictGet d k = .ok v := by
  simp [dictGet, ofOption, h]

/-! ## `VarDict` -/
theorem vdSet_ok (d : VarDict) (k : String) (v : NPat) (h : vdFits d.expected v = true) :
    vdSet d k v = .ok { d with data := SliceSup.dictSet d.data k v } := by
  simp [vdSet, h]

theorem vdOfDict_go (e : Option PyType) : ∀ (items acc : PyDict NPat), (∀ p ∈ items, vdFits e p.2 = true) →
    (items.map (·.1)).Nodup → (∀ p ∈ items, p.1 ∉ acc.map (·.1)) →
    items.foldlM (fun d (p : String × NPat) => vdSet d p.1 p.2) (⟨acc, e⟩ : VarDict) = .ok ⟨acc ++ items, e⟩ := by
  intro items
  induction items with
  | nil => intro acc _ _ _; simp [List.foldlM]
  | cons p items ih =>
    intro acc hf hnd hacc
    obtain ⟨k, v⟩ := p
    simp only [List.foldlM]
    have h1 : vdSet (⟨acc, e⟩ : VarDict) k v = .ok ⟨acc ++ [(k, v)], e⟩ := by
      rw [vdSet_ok _ _ _ (hf (k, v) (by simp))]
      simp [dictSet_new acc k v (hacc (k, v) (by simp))]
    simp only [h1, bind, Res.bind]
    have := ih (acc ++ [(k, v)]) (fun p hp => hf p (by simp [hp])) (by simp at hnd; exact hnd.2) (by
      intro p hp
      simp only [List.map_append, List.map_cons, List.map_nil, List.mem_append, List.mem_singleton, not_or]
      refine ⟨hacc p (by simp [hp]), ?_⟩
      simp at hnd
      intro e'
      exact hnd.1 p.2 (by rw [← e']; exact hp))
    simpa using this

theorem vdOfDict_ok (items : PyDict NPat) (e : Option PyType) (hf : ∀ p ∈ items, vdFits e p.2 = true)
    (hnd : (items.map (·.1)).Nodup) : vdOfDict items e = .ok ⟨items, e⟩ := by
  have := vdOfDict_go e items [] hf hnd (by simp)
  simpa [vdOfDict] using this

theorem vdCopy_ok (d : VarDict) (hf : ∀ p ∈ d.data, vdFits d.expected p.2 = true) (hnd : (d.data.map (·.1)).Nodup) :
    vdCopy d = .ok d := by
  unfold vdCopy
  rw [vdOfDict_ok _ _ hf hnd]

end ConvTie

namespace ConvTie
theorem lookup_map_update {α : Type} (k x : String) (v : α) : ∀ (d : PyDict α),
    (d.map fun (p : String × α) => if p.1 == k then (p.1, v) else (p.1, p.2)).lookup x
      = if x = k then (d.lookup k).map (fun _ => v) else d.lookup x := by
  intro d
  induction d with
  | nil => simp
  | cons p d ih =>
    obtain ⟨k0, v0⟩ := p
    simp only [List.map_cons]
    by_cases e0 : k0 = k
    · subst e0
      by_cases ex : x = k0
      · subst ex; simp [List.lookup]
      · have : (x == k0) = false := by simp [ex]
        simp only [beq_self_eq_true, if_true, List.lookup, this, ex, if_false]
        have := ih
        simp only [ex, if_false] at this
        simpa using this
    · have hk : (k0 == k) = false := by simp [e0]
      have hk' : (k == k0) = false := by simp [Ne.symm e0]
      simp only [hk, Bool.false_eq_true, if_false, hk']
      by_cases ex : x = k0
      · subst ex
        simp [e0, List.lookup]
      · have hx : (x == k0) = false := by simp [ex]
        simp only [List.lookup, hx, ih, hk']

theorem lookup_dictSet {α : Type} (d : PyDict α) (k x : String) (v : α) :
    (SliceSup.dictSet d k v).lookup x = if x = k then some v else d.lookup x := by
  unfold SliceSup.dictSet
  split <;> rename_i h
  · have := lookup_map_update k x v d
    have hk : ∃ w, d.lookup k = some w := by
      simp only [List.any_eq_true] at h
      obtain ⟨p, hp, e⟩ := h
      have : k ∈ d.map (·.1) := List.mem_map.mpr ⟨p, hp, by simpa using e⟩
      have h2 := (dictHas_iff d k).mpr this
      simp only [dictHas, Option.isSome_iff_exists] at h2
      exact h2
    obtain ⟨w, hw⟩ := hk
    rw [hw] at this
    simpa using this
  · have hk : k ∉ d.map (·.1) := by
      intro hm
      obtain ⟨p, hp, e⟩ := List.mem_map.mp hm
      apply h
      simp only [List.any_eq_true]
      exact ⟨p, hp, by simp [e]⟩
    exact lookup_append_new d x k v hk

theorem dictSet_keys_of_mem {α : Type} (d : PyDict α) (k : String) (v : α) (h : k ∈ d.map (·.1)) :
    (SliceSup.dictSet d k v).map (·.1) = d.map (·.1) := by
  unfold SliceSup.dictSet
  have : d.any (·.1 == k) = true := by
    obtain ⟨p, hp, e⟩ := List.mem_map.mp h
    simp only [List.any_eq_true]
    exact ⟨p, hp, by simp [e]⟩
  simp only [this, if_true, List.map_map]
  apply List.map_congr_left
  intro p _
  obtain ⟨k', v'⟩ := p
  simp only [Function.comp]
  split <;> rfl
end ConvTie

namespace ConvSup
instance : LawfulMonad Res := LawfulMonad.mk'
  (id_map := by intro α x; cases x <;> rfl)
  (pure_bind := by intros; rfl)
  (bind_assoc := by intro α β γ x f g; cases x <;> rfl)
  (bind_pure_comp := by intro α β f x; cases x <;> rfl)
end ConvSup

namespace ConvTie
/-- `Scope._metavars` after the `$f #Pattern` statements of the variables `fs`: `Scope.add_metavariable` numbers them in order -/
def mvData (fs : List String) : PyDict NPat := fs.zipIdx.map fun p => (p.1, mkMetaVar p.2)

theorem mvData_append (fs : List String) (v : String) : mvData (fs ++ [v]) = mvData fs ++ [(v, mkMetaVar fs.length)] := by
  simp [mvData, List.zipIdx_append]

theorem mvData_keys (fs : List String) : (mvData fs).map (·.1) = fs := by
  simp only [mvData, List.map_map]
  have : ((fun (x : String × NPat) => x.1) ∘ fun (p : String × Nat) => (p.1, mkMetaVar p.2)) = Prod.fst := by
    funext p; rfl
  rw [this, List.zipIdx_map_fst]

theorem mvData_length (fs : List String) : (mvData fs).length = fs.length := by simp [mvData]

theorem mvData_lookup_aux : ∀ (fs : List String) (k : Nat) (v : String), v ∈ fs →
    ((fs.zipIdx k).map fun p => (p.1, mkMetaVar p.2)).lookup v = some (mkMetaVar (k + fs.idxOf v)) := by
  intro fs
  induction fs with
  | nil => intro k v h; simp at h
  | cons w fs ih =>
    intro k v hv
    simp only [List.zipIdx_cons, List.map_cons, List.lookup]
    by_cases e : v = w
    · subst e; simp
    · have : (v == w) = false := by simp [e]
      simp only [this]
      have hin : v ∈ fs := by simpa [e] using hv
      rw [ih (k + 1) v hin]
      have hwv : (w == v) = false := by simp [Ne.symm e]
      simp only [List.idxOf_cons, hwv, cond_false]
      congr 2
      omega

theorem mvData_lookup (fs : List String) (v : String) (h : v ∈ fs) : (mvData fs).lookup v = some (mkMetaVar (fs.idxOf v)) := by
  have := mvData_lookup_aux fs 0 v h
  simpa [mvData] using this

theorem mvData_fits (fs : List String) : ∀ p ∈ mvData fs, vdFits (some PyType.MetaVar) p.2 = true := by
  intro p hp
  simp only [mvData, List.mem_map] at hp
  obtain ⟨q, _, rfl⟩ := hp
  rfl
end ConvTie
