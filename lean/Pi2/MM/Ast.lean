/-!
# Metamath databases as the generator sees them: AST, printer, parser
(`metamath/ast.py`: `Encoder`; `metamath/parser.py`: lark grammar + `ASTTransformer`)

Everything is at the level of *tokens*: the lark lexer (whitespace, `$( … $)` comments, the keyword
terminals) and the printer's whitespace / indentation are outside the model; the correspondence
harness splits the real printer's output at whitespace and feeds the real parser's input tokens to
the model.  `none` = the real code raises (lark syntax error or an `assert`).  Core Lean only.
-/
namespace MM

/-- `ast.Term`: `Metavariable(name)` or `Application(symbol, subterms)` -/
inductive MTerm where
  | mv (name : String)
  | app (sym : String) (args : List MTerm)
deriving Repr, Inhabited

inductive MStmt where
  | const (cs : List String)
  | var (vs : List String)
  | disj (vs : List String)
  | float (label typecode var : String)
  | ess (label : String) (terms : List MTerm)
  | ax (label : String) (terms : List MTerm)
  | prov (label : String) (terms : List MTerm) (proof : List String)   -- `proof`: the tokens between `$=` and `$.`
  | block (ss : List MStmt)
deriving Repr, Inhabited

abbrev MDb := List MStmt

/-! ## `Encoder` -/
mutual
def printTerm : MTerm → List String
  | .mv n => [n]
  | .app s [] => [s]
  | .app s (a :: as) => "(" :: s :: (printTerms (a :: as) ++ [")"])
def printTerms : List MTerm → List String
  | [] => []
  | t :: ts => printTerm t ++ printTerms ts
end

mutual
def printStmt : MStmt → List String
  | .const cs => "$c" :: (cs ++ ["$."])
  | .var vs => "$v" :: (vs ++ ["$."])
  | .disj vs => "$d" :: (vs ++ ["$."])
  | .float l tc v => [l, "$f", tc, v, "$."]
  | .ess l ts => l :: "$e" :: (printTerms ts ++ ["$."])
  | .ax l ts => l :: "$a" :: (printTerms ts ++ ["$."])
  | .prov l ts pf => l :: "$p" :: (printTerms ts ++ "$=" :: (pf ++ ["$."]))
  | .block ss => "${" :: (printStmts ss ++ ["$}"])
def printStmts : List MStmt → List String
  | [] => []
  | s :: ss => printStmt s ++ printStmts ss
end

def printDb (db : MDb) : List String := printStmts db

/-! ## the parser -/

/-- the keyword terminals of the grammar; every other token is a `TOKEN` -/
def isKeyword (t : String) : Bool :=
  ["$c", "$v", "$d", "$f", "$e", "$a", "$p", "$=", "$.", "${", "$}"].contains t

/-- `parse_term`'s scan for the matching parenthesis: `scanClose depth ts k` looks at `ts` (the tokens
after the opening one), `k` = number of tokens already passed; returns the number of tokens strictly
between the opening parenthesis and its match -/
def scanClose : Nat → List String → Nat → Option Nat
  | _, [], _ => none
  | d, t :: ts, k =>
      if t = "(" then scanClose (d + 1) ts (k + 1)
      else if t = ")" then (if d = 0 then some k else scanClose (d - 1) ts (k + 1))
      else scanClose d ts (k + 1)

/-- `parse_terms` / `parse_term` (fuel: the token count suffices) -/
def parseTermsF (mvs : List String) : Nat → List String → Option (List MTerm)
  | _, [] => some []
  | 0, _ :: _ => none
  | n + 1, first :: rest =>
      if first = "(" then
        match scanClose 0 rest 0 with
        | none => none                       -- `assert num_nested == 0`
        | some k =>
          -- Python's `i` is `k + 1`; `assert i > 2`
          if k < 2 then none else
          match rest with
          | [] => none
          | head :: inner => do
              let sub ← parseTermsF mvs n (inner.take (k - 1))
              let more ← parseTermsF mvs n (rest.drop (k + 1))
              pure (.app head sub :: more)
      else if mvs.contains first then do
        pure (.mv first :: (← parseTermsF mvs n rest))
      else do
        pure (.app first [] :: (← parseTermsF mvs n rest))

def parseTerms (mvs : List String) (ts : List String) : Option (List MTerm) := parseTermsF mvs (ts.length + 1) ts

/-- split at the first occurrence of a terminal: the `TOKEN`s before it (none of them a keyword) and the rest after it -/
def takeUntil (stop : String) : List String → Option (List String × List String)
  | [] => none
  | t :: ts =>
      if t = stop then some ([], ts)
      else if isKeyword t then none
      else (takeUntil stop ts).map fun (a, b) => (t :: a, b)

/-- statements up to the closing `$}` (when `inBlock`) or the end of input; threads the transformer's
`metavariables` list -/
def parseStmtsF : Nat → Bool → List String → List String → Option (List MStmt × List String × List String)
  | 0, _, _, _ => none
  | _ + 1, inBlock, mvs, [] => if inBlock then none else some ([], mvs, [])
  | n + 1, inBlock, mvs, t :: ts =>
      if t = "$}" then (if inBlock then some ([], mvs, ts) else none)
      else do
        let (s, mvs1, rest) ← (
          if t = "$c" then do
            let (cs, rest) ← takeUntil "$." ts
            if cs.isEmpty then none else pure (MStmt.const cs, mvs, rest)
          else if t = "$v" then do
            let (vs, rest) ← takeUntil "$." ts
            if vs.isEmpty then none else pure (MStmt.var vs, mvs ++ vs, rest)
          else if t = "$d" then do
            let (vs, rest) ← takeUntil "$." ts
            if vs.isEmpty then none
            else if vs.all mvs.contains then pure (MStmt.disj vs, mvs, rest) else none
          else if t = "${" then do
            let (ss, mvs', rest) ← parseStmtsF n true mvs ts
            pure (MStmt.block ss, mvs', rest)
          else if isKeyword t then none
          else
            match ts with
            | "$f" :: tc :: v :: "$." :: rest =>
                if isKeyword tc || isKeyword v then none
                else if mvs.contains v then pure (MStmt.float t tc v, mvs, rest) else none
            | "$e" :: ts' => do
                let (body, rest) ← takeUntil "$." ts'
                if body.isEmpty then none else pure (MStmt.ess t (← parseTerms mvs body), mvs, rest)
            | "$a" :: ts' => do
                let (body, rest) ← takeUntil "$." ts'
                if body.isEmpty then none else pure (MStmt.ax t (← parseTerms mvs body), mvs, rest)
            | "$p" :: ts' => do
                let (body, rest1) ← takeUntil "$=" ts'
                let (pf, rest) ← takeUntil "$." rest1
                if body.isEmpty then none else pure (MStmt.prov t (← parseTerms mvs body) pf, mvs, rest)
            | _ => none)
        let (ss, mvs2, rest2) ← parseStmtsF n inBlock mvs1 rest
        pure (s :: ss, mvs2, rest2)

/-- `parse_database` -/
def parseDb (toks : List String) : Option MDb :=
  (parseStmtsF (toks.length + 1) false [] toks).map (·.1)

end MM
