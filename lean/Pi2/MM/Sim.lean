import Pi2.MM.TermThm
import Pi2.MM.TrackF0
/-!
# T1: the translator simulates the Metamath verifier
-/
set_option linter.unusedSimpArgs false
set_option linter.unusedVariables false
open Pat PySt NPat

namespace MM

/-! ## the correspondence between Metamath statements and tracker terms -/

def EntRel (db : DB) (st : Stmt) (t : TTerm) : Prop :=
  ∃ p, t = (if st.thm then .proved p else .pat p) ∧ p.F0 = true ∧
    p.expand = (image db st.term).expand

def Rel (db : DB) : List Stmt → List TTerm → Prop
  | [], [] => True
  | a :: as, t :: ts => EntRel db a t ∧ Rel db as ts
  | _, _ => False

theorem EntRel.F0 {db : DB} {st : Stmt} {t : TTerm} (h : EntRel db st t) : t.body.F0 = true := by
  obtain ⟨p, rfl, hp, _⟩ := h
  split <;> exact hp

theorem Rel.F0 {db : DB} : ∀ {L : List Stmt} {T : List TTerm}, Rel db L T → ∀ t ∈ T, t.body.F0 = true
  | [], [], _ => by simp
  | _ :: _, _ :: _, h => by
    intro t ht
    rcases List.mem_cons.mp ht with rfl | ht
    · exact h.1.F0
    · exact Rel.F0 h.2 t ht
  | [], _ :: _, h => h.elim
  | _ :: _, [], h => h.elim

theorem Rel.length_eq {db : DB} : ∀ {L : List Stmt} {T : List TTerm}, Rel db L T → L.length = T.length
  | [], [], _ => rfl
  | _ :: _, _ :: _, h => by simp [Rel.length_eq h.2]
  | [], _ :: _, h => h.elim
  | _ :: _, [], h => h.elim

theorem Rel.append {db : DB} : ∀ {A : List Stmt} {TA : List TTerm} {B : List Stmt} {TB : List TTerm},
    Rel db A TA → Rel db B TB → Rel db (A ++ B) (TA ++ TB)
  | [], [], _, _, _, h => by simpa using h
  | _ :: _, _ :: _, _, _, h1, h2 => ⟨h1.1, Rel.append h1.2 h2⟩
  | [], _ :: _, _, _, h, _ => h.elim
  | _ :: _, [], _, _, h, _ => h.elim

theorem Rel.split {db : DB} : ∀ (A : List Stmt) {B : List Stmt} {T : List TTerm},
    Rel db (A ++ B) T → ∃ TA TB, T = TA ++ TB ∧ Rel db A TA ∧ Rel db B TB
  | [], _, T, h => ⟨[], T, rfl, trivial, h⟩
  | a :: A, B, [], h => h.elim
  | a :: A, B, t :: T, h => by
    obtain ⟨TA, TB, rfl, h1, h2⟩ := Rel.split A h.2
    exact ⟨t :: TA, TB, rfl, ⟨h.1, h1⟩, h2⟩

theorem Rel.snoc {db : DB} {L : List Stmt} {T : List TTerm} {a : Stmt} {t : TTerm}
    (h : Rel db L T) (ha : EntRel db a t) : Rel db (L ++ [a]) (T ++ [t]) :=
  Rel.append h ⟨ha, trivial⟩

theorem Rel.get {db : DB} : ∀ {L : List Stmt} {T : List TTerm}, Rel db L T → ∀ (j : Nat) (a : Stmt),
    L[j]? = some a → ∃ t, T[j]? = some t ∧ EntRel db a t
  | [], [], _, j, a, h => by simp at h
  | b :: L, t :: T, hr, 0, a, h => by
    simp only [List.getElem?_cons_zero, Option.some.injEq] at h
    subst h
    exact ⟨t, rfl, hr.1⟩
  | b :: L, t :: T, hr, j + 1, a, h => by
    simp only [List.getElem?_cons_succ] at h ⊢
    exact Rel.get hr.2 j a h
  | [], _ :: _, h, _, _, _ => h.elim
  | _ :: _, [], h, _, _, _ => h.elim

theorem Rel.reverse {db : DB} : ∀ {L : List Stmt} {T : List TTerm}, Rel db L T →
    Rel db L.reverse T.reverse
  | [], [], _ => trivial
  | a :: L, t :: T, h => by
    simp only [List.reverse_cons]
    exact Rel.snoc (Rel.reverse h.2) h.1
  | [], _ :: _, h => h.elim
  | _ :: _, [], h => h.elim

/-- the patterns of a run of `#Pattern` statements -/
theorem Rel.pats {db : DB} : ∀ {L : List Stmt} {T : List TTerm}, Rel db L T →
    (∀ f ∈ L, f.thm = false) →
    ∃ ps : List NPat, T = ps.map TTerm.pat ∧ (∀ p ∈ ps, p.F0 = true) ∧
      ps.map NPat.expand = L.map fun f => (image db f.term).expand
  | [], [], _, _ => ⟨[], rfl, by simp, rfl⟩
  | a :: L, t :: T, h, hf => by
    obtain ⟨ps, rfl, h1, h2⟩ := Rel.pats h.2 (fun f hf' => hf f (List.mem_cons_of_mem _ hf'))
    obtain ⟨p, rfl, hp, he⟩ := h.1
    have : a.thm = false := hf a (by simp)
    refine ⟨p :: ps, by simp [this], ?_, by simp [he, h2]⟩
    intro q hq
    rcases List.mem_cons.mp hq with rfl | hq
    · exact hp
    · exact h1 q hq
  | [], _ :: _, h, _ => h.elim
  | _ :: _, [], h, _ => h.elim

/-- the conclusions of a run of `|-` statements -/
theorem Rel.proofs {db : DB} : ∀ {L : List Stmt} {T : List TTerm}, Rel db L T →
    (∀ f ∈ L, f.thm = true) →
    ∃ ps : List NPat, T = ps.map TTerm.proved ∧ (∀ p ∈ ps, p.F0 = true) ∧
      ps.map NPat.expand = L.map fun f => (image db f.term).expand
  | [], [], _, _ => ⟨[], rfl, by simp, rfl⟩
  | a :: L, t :: T, h, hf => by
    obtain ⟨ps, rfl, h1, h2⟩ := Rel.proofs h.2 (fun f hf' => hf f (List.mem_cons_of_mem _ hf'))
    obtain ⟨p, rfl, hp, he⟩ := h.1
    have : a.thm = true := hf a (by simp)
    refine ⟨p :: ps, by simp [this], ?_, by simp [he, h2]⟩
    intro q hq
    rcases List.mem_cons.mp hq with rfl | hq
    · exact hp
    · exact h1 q hq
  | [], _ :: _, h, _ => h.elim
  | _ :: _, [], h, _ => h.elim

/-- a stack entry with a clear residue flag -/
def ent (t : TTerm) : TTerm × Bool := (t, false)

/-- the invariant of `exec_proof`'s loop against the verifier's state -/
structure Inv (db : DB) (goal : Term) (stack heap : List Stmt) (x : XSt) : Prop where
  phase : x.s.phase = .proof
  claims : x.s.claims = [image db goal]
  stack : ∃ T, x.s.stack = T.map ent ∧ Rel db stack T
  heap : Rel db heap x.mem
  memSub : ∀ t ∈ x.mem, t ∈ x.s.memory
  axioms : ∀ r ∈ db.rules, ∃ u ∈ x.s.memory, convT u = .proved (implChain db r.hyps r.concl).expand
  memF0 : ∀ u ∈ x.s.memory, u.body.F0 = true

theorem Inv.stF0 {db : DB} {goal : Term} {stack heap : List Stmt} {x : XSt}
    (h : Inv db goal stack heap x) : StF0 x.s := by
  obtain ⟨T, hT, hr⟩ := h.stack
  refine ⟨?_, h.memF0, ?_⟩
  · intro e he
    rw [hT] at he
    obtain ⟨t, ht, rfl⟩ := List.mem_map.mp he
    exact hr.F0 t ht
  · intro c hc
    rw [h.claims] at hc
    simp at hc; subst hc
    exact B0.toF0 _ (image_B0 db goal)

/-! ## runs of the tracker with some fuel -/

def ReachE (s : PySt) (cs : List Call) (s' : PySt) : Prop := ∃ n, Reach n s cs s'

theorem ReachE.nil (s : PySt) : ReachE s [] s := ⟨0, rfl⟩

theorem ReachE.cons {s s1 s' : PySt} {c : Call} {cs : List Call}
    (h1 : ∃ n, track1 n s c = some (some s1)) (h2 : ReachE s1 cs s') : ReachE s (c :: cs) s' := by
  obtain ⟨n1, h1⟩ := h1
  obtain ⟨n2, h2⟩ := h2
  exact ⟨max n1 n2, s1, track1_mono (Nat.le_max_left n1 n2) _ _ _ h1,
    reach_mono (Nat.le_max_right n1 n2) h2⟩

theorem ReachE.single {s s' : PySt} {c : Call} (h : ∃ n, track1 n s c = some (some s')) :
    ReachE s [c] s' := ReachE.cons h (ReachE.nil s')

theorem ReachE.append {s s1 s' : PySt} {cs1 cs2 : List Call} (h1 : ReachE s cs1 s1)
    (h2 : ReachE s1 cs2 s') : ReachE s (cs1 ++ cs2) s' := by
  obtain ⟨n1, h1⟩ := h1
  obtain ⟨n2, h2⟩ := h2
  exact ⟨max n1 n2, (reach_append _ cs1 cs2 s s').mpr
    ⟨s1, reach_mono (Nat.le_max_left n1 n2) h1, reach_mono (Nat.le_max_right n1 n2) h2⟩⟩

theorem doC_reach {n : Nat} {x : XSt} {cs : List Call} {s' : PySt} (h : Reach n x.s cs s') :
    x.doC n cs = some (some { x with s := s', calls := x.calls ++ cs }) := by
  simp only [XSt.doC, reach_doCalls n cs x.s x.calls s' h, Option.bind_eq_bind, Option.bind_some,
    Option.pure_def]

theorem doC_mono {n m : Nat} (h : n ≤ m) (x : XSt) (cs : List Call) :
    OLe (x.doC n cs) (x.doC m cs) :=
  OLe.of_step (fun n => x.doC n cs) (fun n => doC_step n x cs) h

theorem doC_total {x : XSt} {cs : List Call} {s' : PySt} (h : ReachE x.s cs s') :
    ∃ n, x.doC n cs = some (some { x with s := s', calls := x.calls ++ cs }) := by
  obtain ⟨n, h⟩ := h
  exact ⟨n, doC_reach h⟩

/-! ## the verifier, inverted -/

theorem applyAssertion_spec (mand : List Nat) (hyps : List Stmt) (concl : Stmt)
    (stack stack' : List Stmt) (h : applyAssertion ⟨mand, hyps, concl⟩ stack = some stack') :
    ∃ (es fs st2 : List Stmt), stack = es.reverse ++ (fs.reverse ++ st2) ∧ es.length = hyps.length ∧
      fs.length = mand.length ∧ (∀ f ∈ fs, f.thm = false) ∧
      es = hyps.map (fun h => ⟨h.thm, h.term.subst (mand.zip (fs.map (·.term)))⟩) ∧
      stack' = ⟨concl.thm, concl.term.subst (mand.zip (fs.map (·.term)))⟩ :: st2 := by
  simp only [applyAssertion, Option.bind_eq_bind, Option.bind_eq_some_iff] at h
  obtain ⟨⟨es, st1⟩, h1, ⟨fs, st2⟩, h2, h⟩ := h
  simp only [] at h
  obtain ⟨e1, l1⟩ := popN_spec _ _ _ _ h1
  obtain ⟨e2, l2⟩ := popN_spec _ _ _ _ h2
  by_cases hany : fs.any (·.thm) = true
  · simp [hany] at h
  · simp only [hany, Bool.false_eq_true, if_false, Option.pure_def, Option.bind_some] at h
    by_cases hne : (es != hyps.map fun h => ⟨h.thm, h.term.subst (mand.zip (fs.map (·.term)))⟩) = true
    · simp [hne] at h
    · simp only [hne, Bool.false_eq_true, if_false, Option.bind_some, Option.some.injEq] at h
      simp only [] at e2
      refine ⟨es, fs, st2, by rw [e1, e2], l1, l2, ?_, ?_, h.symm⟩
      · intro f hf
        have : ¬ (fs.any (·.thm) = true) := hany
        simp only [List.any_eq_true, not_exists, not_and, Bool.not_eq_true] at this
        exact this f hf
      · exact stmts_eq_of_not_bne _ _ (by simpa using hne)

/-! ## single calls, explicitly -/

theorem tr_implies (n : Nat) (s : PySt) (l r : NPat) (b1 b2 : Bool) (st : List (TTerm × Bool))
    (hs : s.stack = (.pat r, b1) :: (.pat l, b2) :: st) :
    track1 n s .implies = some (some { s with stack := (.pat (.imp l r), false) :: st }) := by
  simp [track1, hs]

theorem tr_app (n : Nat) (s : PySt) (l r : NPat) (b1 b2 : Bool) (st : List (TTerm × Bool))
    (hs : s.stack = (.pat r, b1) :: (.pat l, b2) :: st) :
    track1 n s .app = some (some { s with stack := (.pat (.app l r), false) :: st }) := by
  simp [track1, hs]

theorem tr_save (n : Nat) (s : PySt) (t : TTerm) (b : Bool) (st : List (TTerm × Bool))
    (hs : s.stack = (t, b) :: st) :
    track1 n s .save = some (some { s with memory := s.memory ++ [t] }) := by
  simp [track1, hs]

theorem tr_pop (n : Nat) (s : PySt) (e : TTerm × Bool) (st : List (TTerm × Bool))
    (hs : s.stack = e :: st) : track1 n s .pop = some (some { s with stack := st }) := by
  simp [track1, hs]

theorem takePlugs_ents (plugs : List NPat) (rest : List (TTerm × Bool)) :
    takePlugs plugs.length ((plugs.reverse.map TTerm.pat).map ent ++ rest) = some (plugs, rest) := by
  have e : (plugs.reverse.map TTerm.pat).map ent = plugs.reverse.map entry := by
    rw [List.map_map]; rfl
  rw [e]
  simpa using takePlugs_rev plugs.reverse rest

theorem tr_instPattern (n : Nat) (s : PySt) (a : NPat) (plugs : List NPat) (keys : List Nat)
    (rest : List (TTerm × Bool)) (hlen : keys.length = plugs.length)
    (hs : s.stack = (.pat a, false) :: ((plugs.reverse.map TTerm.pat).map ent ++ rest)) :
    track1 n s (.instantiatePattern keys)
      = some (some { s with stack := (.pat (.inst a (keys.zip plugs)), false) :: rest }) := by
  simp only [track1, hs, hlen, takePlugs_ents]

theorem tr_instantiate (n : Nat) (s : PySt) (a c : NPat) (plugs : List NPat) (keys : List Nat)
    (rest : List (TTerm × Bool)) (hlen : keys.length = plugs.length) (hne : keys ≠ [])
    (hs : s.stack = (.proved a, false) :: ((plugs.reverse.map TTerm.pat).map ent ++ rest))
    (hc : instF n (keys.zip plugs) a = some c) :
    track1 n s (.instantiate keys) = some (some { s with stack := (.proved c, false) :: rest }) := by
  have : keys.isEmpty = false := by cases keys <;> simp at hne ⊢
  simp only [track1, hs, this, Bool.false_eq_true, if_false, hlen, takePlugs_ents, hc,
    Option.bind_eq_bind, Option.bind_some, Option.pure_def]

theorem tr_mp (n : Nat) (s : PySt) (l r c : NPat) (b1 b2 : Bool) (st : List (TTerm × Bool))
    (hs : s.stack = (.proved r, b1) :: (.proved l, b2) :: st) (hc : pyMP n l r = some (some c)) :
    track1 n s .mp = some (some { s with stack := (.proved c, false) :: st }) := by
  simp only [track1, hs, hc, Option.bind_eq_bind, Option.bind_some, Option.pure_def]

/-! ## re-establishing the invariant -/

theorem Inv.update {db : DB} {goal : Term} {stack heap : List Stmt} {x : XSt}
    (h : Inv db goal stack heap x) (x' : XSt) (stack' heap' : List Stmt)
    (hphase : x'.s.phase = x.s.phase) (hclaims : x'.s.claims = x.s.claims)
    (hstack : ∃ T, x'.s.stack = T.map ent ∧ Rel db stack' T)
    (hheap : Rel db heap' x'.mem)
    (hmemsub : ∀ t ∈ x'.mem, t ∈ x'.s.memory)
    (hext : ∃ e, x'.s.memory = x.s.memory ++ e ∧ ∀ u ∈ e, u.body.F0 = true) :
    Inv db goal stack' heap' x' := by
  obtain ⟨e, he, hF⟩ := hext
  refine ⟨by rw [hphase, h.phase], by rw [hclaims, h.claims], hstack, hheap, hmemsub, ?_, ?_⟩
  · intro r hr
    obtain ⟨u, hu, hc⟩ := h.axioms r hr
    exact ⟨u, by rw [he]; exact List.mem_append_left _ hu, hc⟩
  · intro u hu
    rw [he] at hu
    rcases List.mem_append.mp hu with hu | hu
    · exact h.memF0 u hu
    · exact hF u hu

/-! ## the steps that do not apply an assertion -/

theorem sim_save (db : DB) (goal : Term) (stack heap : List Stmt) (x : XSt) (t : Stmt)
    (rest : List Stmt) (hinv : Inv db goal stack heap x) (hst : stack = t :: rest) :
    ∃ n x', xSave n x = some (some x') ∧ Inv db goal stack (heap ++ [t]) x' := by
  obtain ⟨T, hT, hr⟩ := hinv.stack
  subst hst
  cases T with
  | nil => exact hr.elim
  | cons tt T' =>
    have hstk : x.s.stack = (tt, false) :: T'.map ent := by rw [hT]; rfl
    have htop : top? x = some tt := by simp [top?, hstk]
    have hR : Reach 0 x.s [.save] { x.s with memory := x.s.memory ++ [tt] } :=
      ⟨_, tr_save 0 x.s tt false _ hstk, rfl⟩
    refine ⟨0, ⟨{ x.s with memory := x.s.memory ++ [tt] }, x.calls ++ [.save], x.mem ++ [tt]⟩,
      ?_, ?_⟩
    · simp only [xSave, htop, doC_reach hR, Option.bind_eq_bind, Option.bind_some, Option.pure_def]
    · refine hinv.update _ _ _ rfl rfl ⟨tt :: T', hstk, hr⟩ (Rel.snoc hinv.heap hr.1) ?_
        ⟨[tt], rfl, by simp; exact hr.1.F0⟩
      intro u hu
      simp only [List.mem_append, List.mem_singleton] at hu ⊢
      rcases hu with hu | hu
      · exact Or.inl (hinv.memSub u hu)
      · exact Or.inr hu

theorem sim_reuse (db : DB) (goal : Term) (stack heap : List Stmt) (x : XSt) (j : Nat) (t : Stmt)
    (hinv : Inv db goal stack heap x) (hj : heap[j]? = some t) :
    ∃ n x', xReuse n x j = some (some x') ∧ Inv db goal (t :: stack) heap x' := by
  obtain ⟨T, hT, hr⟩ := hinv.stack
  obtain ⟨tt, hm, he⟩ := hinv.heap.get j t hj
  have hmem : tt ∈ x.s.memory := hinv.memSub tt (List.mem_of_getElem? hm)
  obtain ⟨n, hl⟩ := load_total x.s tt hinv.stF0 he.F0 ⟨tt, hmem, rfl⟩
  refine ⟨n, { x with s := x.s.push tt, calls := x.calls ++ [.load tt] }, ?_, ?_⟩
  · simp only [xReuse, hm]
    exact doC_reach ⟨_, hl, rfl⟩
  · exact hinv.update _ _ _ rfl rfl ⟨tt :: T, by simp [PySt.push, hT, ent], he, hr⟩ hinv.heap
      hinv.memSub ⟨[], by simp [PySt.push], by simp⟩

theorem sim_float (db : DB) (goal : Term) (stack heap : List Stmt) (x : XSt) (v : Nat)
    (hinv : Inv db goal stack heap x) :
    ∃ n x', x.doC n [.metavar (db.mvId v) [] [] [] [] []] = some (some x') ∧
      Inv db goal (⟨false, .var v⟩ :: stack) heap x' := by
  obtain ⟨T, hT, hr⟩ := hinv.stack
  have hR : Reach 0 x.s [.metavar (db.mvId v) [] [] [] [] []] (x.s.push (.pat (PySt.phiN (db.mvId v)))) :=
    ⟨_, rfl, rfl⟩
  refine ⟨0, ⟨x.s.push (.pat (PySt.phiN (db.mvId v))),
    x.calls ++ [.metavar (db.mvId v) [] [] [] [] []], x.mem⟩, doC_reach hR, ?_⟩
  refine hinv.update _ _ _ rfl rfl ⟨.pat (PySt.phiN (db.mvId v)) :: T, by simp [PySt.push, hT, ent], ?_, hr⟩
    hinv.heap hinv.memSub ⟨[], by simp [PySt.push], by simp⟩
  exact ⟨PySt.phiN (db.mvId v), rfl, rfl, rfl⟩

/-! ## applying an assertion: the common part -/

theorem inv_split {db : DB} {goal : Term} {stack heap : List Stmt} {x : XSt}
    (hinv : Inv db goal stack heap x) (es fs st2 : List Stmt)
    (hstack : stack = es.reverse ++ (fs.reverse ++ st2)) (hfs : ∀ f ∈ fs, f.thm = false) :
    ∃ (TE : List TTerm) (plugs : List NPat) (T2 : List TTerm),
      x.s.stack = TE.map ent ++ ((plugs.reverse.map TTerm.pat).map ent ++ T2.map ent) ∧
      Rel db es.reverse TE ∧ Rel db st2 T2 ∧ plugs.length = fs.length ∧
      (∀ p ∈ plugs, p.F0 = true) ∧
      plugs.map NPat.expand = fs.map fun f => (image db f.term).expand := by
  obtain ⟨T, hT, hr⟩ := hinv.stack
  subst hstack
  obtain ⟨TE, T', rfl, hE, hr'⟩ := Rel.split _ hr
  obtain ⟨TF, T2, rfl, hF, h2⟩ := Rel.split _ hr'
  obtain ⟨ps, rfl, hps, hpe⟩ := hF.pats (fun f hf => hfs f (List.mem_reverse.mp hf))
  refine ⟨TE, ps.reverse, T2, by simp [hT], hE, h2, ?_, ?_, ?_⟩
  · have := congrArg List.length hpe
    simpa using this
  · intro p hp; exact hps p (List.mem_reverse.mp hp)
  · rw [List.map_reverse, hpe, List.map_reverse, List.reverse_reverse]

theorem agrees_of (db : DB) (hnd : db.floats.Nodup) (g : Nat → Nat) (mand : List Nat)
    (fs : List Stmt) (plugs : List NPat) (hlen : fs.length = mand.length)
    (hexp : plugs.map NPat.expand = fs.map fun f => (image db f.term).expand)
    (hinj : ∀ v ∈ mand, ∀ w ∈ mand, g v = g w → v = w) :
    ∀ v ∈ mand, ∃ u, (mand.zip (fs.map (·.term))).lookup v = some u ∧
      Py.lookup (NPat.expand.expandMap ((mand.map g).zip plugs)) (g v) = some (image db u).expand := by
  intro v hv
  rw [expandMap_zip, hexp]
  have e : (fs.map fun f => (image db f.term).expand)
      = (fs.map (·.term)).map fun t => (image db t).expand := by rw [List.map_map]; rfl
  rw [e]
  exact zip_agree g (fun t => (image db t).expand) mand (fs.map (·.term)) (by simpa using hlen) hinj v hv

theorem agrees_mvId (db : DB) (hnd : db.floats.Nodup) (ts : List Term)
    (fs : List Stmt) (plugs : List NPat) (hlen : fs.length = (db.mandOf ts).length)
    (hexp : plugs.map NPat.expand = fs.map fun f => (image db f.term).expand)
    (vs : List Nat) (hvs : ∀ v ∈ vs, v ∈ db.floats ∧ v ∈ Term.varsList ts) :
    Agrees db ((db.mandOf ts).zip (fs.map (·.term)))
      (Py.lookup (NPat.expand.expandMap ((db.deltaKeys ts).zip plugs))) vs := by
  intro v hv
  exact agrees_of db hnd db.mvId (db.mandOf ts) fs plugs hlen hexp
    (fun a ha b hb e => mvId_inj db a b ((mem_mandOf db ts a).mp ha).1 e) v
    ((mem_mandOf db ts v).mpr (hvs v hv))

/-- compile a pattern, then instantiate it by the patterns below it -/
def patThenInst (cfg : Cfg) (n : Nat) (x : XSt) (P : NPat) (keys : List Nat) :
    Option (Option XSt) := do
  match ← patternF cfg n x.s P x.calls with
  | none => pure none
  | some (s', c') => ({ x with s := s', calls := c' } : XSt).doC n [.instantiatePattern keys]

/-- a `#Pattern` assertion without hypotheses, translated by `pattern` + `instantiate_notation` -/
theorem sim_patAssert (cfg : Cfg) (db : DB) (goal : Term) (hnd : db.floats.Nodup) (hM : TabMv db.notTab)
    (stack heap : List Stmt) (x : XSt) (t : Term)
    (hvars : ∀ v ∈ Term.vars t, v ∈ db.floats)
    (hinv : Inv db goal stack heap x) (fs st2 : List Stmt)
    (hstack : stack = fs.reverse ++ st2) (hlen : fs.length = (db.mandOf [t]).length)
    (hfs : ∀ f ∈ fs, f.thm = false) :
    ∃ n x', patThenInst cfg n x (image db t) (db.deltaKeys [t]) = some (some x') ∧
      Inv db goal (⟨false, t.subst ((db.mandOf [t]).zip (fs.map (·.term)))⟩ :: st2) heap x' := by
  obtain ⟨TE, plugs, T2, hS, hE, h2, hpl, hpF, hpe⟩ :=
    inv_split hinv [] fs st2 (by simpa using hstack) hfs
  have hTE : TE = [] := by
    cases TE with
    | nil => rfl
    | cons _ _ => exact hE.elim
  subst hTE
  simp only [List.map_nil, List.nil_append] at hS
  obtain ⟨n1, s1, a1, h1⟩ := patternF_term cfg (image db t) x.s x.calls (image_B0 db t) hinv.stF0
  obtain ⟨cs, hcs, _, hstk, hsf, hfr, _⟩ := patternF_tr cfg (Nat.le_refl n1) (image_B0 db t) hinv.stF0 h1
  have hstk' : s1.stack = (.pat (image db t), false) ::
      ((plugs.reverse.map TTerm.pat).map ent ++ T2.map ent) := by
    rw [hstk, hS]; rfl
  have hkl : (db.deltaKeys [t]).length = plugs.length := by
    simp [DB.deltaKeys, hpl, hlen]
  have hR : Reach n1 s1 [.instantiatePattern (db.deltaKeys [t])]
      { s1 with stack := (.pat (.inst (image db t) ((db.deltaKeys [t]).zip plugs)), false) :: T2.map ent } :=
    ⟨_, tr_instPattern n1 s1 _ plugs _ _ hkl hstk', rfl⟩
  refine ⟨n1, ⟨{ s1 with stack := (.pat (.inst (image db t) ((db.deltaKeys [t]).zip plugs)), false) :: T2.map ent }, a1 ++ [.instantiatePattern (db.deltaKeys [t])], x.mem⟩, ?_, ?_⟩
  · simp only [patThenInst, h1, Option.bind_eq_bind, Option.bind_some]
    exact doC_reach (x := ⟨s1, a1, x.mem⟩) hR
  · obtain ⟨e, he⟩ := hfr.2.2.1
    refine hinv.update _ _ _ hfr.1 hfr.2.1 ⟨_ :: T2, rfl, ?_, h2⟩ hinv.heap ?_ ⟨e, he, ?_⟩
    · refine ⟨.inst (image db t) ((db.deltaKeys [t]).zip plugs), rfl, ?_, ?_⟩
      · simp [F0, B0.toF0 _ (image_B0 db t), F0Map_zip _ _ hpF]
      · simp only [NPat.expand]
        exact image_subst db hM _ _ t (agrees_mvId db hnd [t] fs plugs hlen hpe _
          (fun v hv => ⟨hvars v hv, by simp [Term.varsList, hv]⟩))
    · intro u hu
      show u ∈ s1.memory
      rw [he]; exact List.mem_append_left _ (hinv.memSub u hu)
    · intro u hu
      exact hsf.2.1 u (by rw [he]; exact List.mem_append_right _ hu)

theorem xImp_eq (cfg : Cfg) (n : Nat) (db : DB) (x : XSt) :
    xImp cfg n db x =
      if db.mandOf [.imp (.var db.impArgs.1) (.var db.impArgs.2)] = [db.impArgs.1, db.impArgs.2] then
        if topPats x 2 then x.doC n [.implies] else some none
      else patThenInst cfg n x (image db (.imp (.var db.impArgs.1) (.var db.impArgs.2)))
        (db.deltaKeys [.imp (.var db.impArgs.1) (.var db.impArgs.2)]) := by
  unfold xImp patThenInst
  simp only [image_var, image_imp, image_app]
  rfl

theorem xApp_eq (cfg : Cfg) (n : Nat) (db : DB) (x : XSt) :
    xApp cfg n db x =
      if db.mandOf [.app (.var db.appArgs.1) (.var db.appArgs.2)] = [db.appArgs.1, db.appArgs.2] then
        if topPats x 2 then x.doC n [.app] else some none
      else patThenInst cfg n x (image db (.app (.var db.appArgs.1) (.var db.appArgs.2)))
        (db.deltaKeys [.app (.var db.appArgs.1) (.var db.appArgs.2)]) := by
  unfold xApp patThenInst
  simp only [image_var, image_imp, image_app]
  rfl

theorem xCtor_eq (cfg : Cfg) (n : Nat) (db : DB) (x : XSt) (k : Nat) (c : Ctor)
    (hc : db.ctors[k]? = some c) :
    xCtor cfg n db x k =
      if (Term.vars (.con c.sym (c.args.map .var))).isEmpty then
        (patternF cfg n x.s (image db (.con c.sym (c.args.map .var))) x.calls).bind fun o =>
          match o with
          | none => pure none
          | some (s', c') => pure (some { x with s := s', calls := c' })
      else patThenInst cfg n x (image db (.con c.sym (c.args.map .var)))
        (db.deltaKeys [.con c.sym (c.args.map .var)]) := by
  unfold xCtor patThenInst
  simp only [hc, Option.bind_eq_bind]
  split
  · apply obind_congr rfl
    intro o
    rcases o with _ | ⟨s', c'⟩ <;> simp_all
  · apply obind_congr rfl
    intro o
    rcases o with _ | ⟨s', c'⟩ <;> simp_all

/-- the two mandatory variables in declaration order: one tracker call -/
theorem sim_binary (db : DB) (goal : Term) (stack heap : List Stmt) (x : XSt) (a b : Nat)
    (hab : a ≠ b) (mk : Term → Term → Term) (mkN : NPat → NPat → NPat) (c : Call)
    (hmk : ∀ σ u v, Term.subst σ (mk u v) = mk (Term.subst σ u) (Term.subst σ v))
    (himg : ∀ u v, (image db (mk u v)).expand = (mkN (image db u) (image db v)).expand)
    (hmkN : ∀ p q p' q', p.expand = p'.expand → q.expand = q'.expand →
      (mkN p q).expand = (mkN p' q').expand)
    (hF0 : ∀ p q, p.F0 = true → q.F0 = true → (mkN p q).F0 = true)
    (htr : ∀ (s : PySt) l r st, s.stack = (.pat r, false) :: (.pat l, false) :: st →
      track1 0 s c = some (some { s with stack := (.pat (mkN l r), false) :: st }))
    (hinv : Inv db goal stack heap x) (fs st2 : List Stmt)
    (hstack : stack = fs.reverse ++ st2) (hlen : fs.length = 2)
    (hfs : ∀ f ∈ fs, f.thm = false) :
    topPats x 2 = true ∧ ∃ x', x.doC 0 [c] = some (some x') ∧
      Inv db goal (⟨false, (mk (.var a) (.var b)).subst ([a, b].zip (fs.map (·.term)))⟩ :: st2) heap x' := by
  obtain ⟨TE, plugs, T2, hS, hE, h2, hpl, hpF, hpe⟩ :=
    inv_split hinv [] fs st2 (by simpa using hstack) hfs
  have hTE : TE = [] := by
    cases TE with
    | nil => rfl
    | cons _ _ => exact hE.elim
  subst hTE
  simp only [List.map_nil, List.nil_append] at hS
  match fs, hlen with
  | [f0, f1], _ =>
  match plugs, hpl with
  | [p0, p1], _ =>
  simp only [List.reverse_cons, List.reverse_nil, List.nil_append, List.map_cons, List.map_nil,
    List.cons_append, ent] at hS
  simp only [List.map_cons, List.map_nil, List.cons.injEq, and_true] at hpe
  have hp0 := hpF p0 (by simp)
  have hp1 := hpF p1 (by simp)
  refine ⟨by simp [topPats, hS, TTerm.isProved], ⟨{ x.s with stack := (.pat (mkN p0 p1), false) :: T2.map ent }, x.calls ++ [c], x.mem⟩, ?_, ?_⟩
  · exact doC_reach ⟨_, htr x.s p0 p1 _ hS, rfl⟩
  · refine hinv.update _ _ _ rfl rfl ⟨_ :: T2, rfl, ?_, h2⟩ hinv.heap hinv.memSub ⟨[], by simp, by simp⟩
    refine ⟨mkN p0 p1, rfl, hF0 _ _ hp0 hp1, ?_⟩
    have hba : (b == a) = false := by simp; exact fun e => hab e.symm
    simp only [hmk, Term.subst, List.map_cons, List.map_nil, List.zip_cons_cons, List.lookup_cons,
      beq_self_eq_true, hba, Option.getD_some, himg]
    exact hmkN _ _ _ _ hpe.1 hpe.2

theorem sim_imp (cfg : Cfg) (db : DB) (goal : Term) (hwf : db.WF) (stack heap stack' : List Stmt)
    (x : XSt) (hinv : Inv db goal stack heap x)
    (h : applyAssertion ⟨db.mandOf [.imp (.var db.impArgs.1) (.var db.impArgs.2)], [],
      ⟨false, .imp (.var db.impArgs.1) (.var db.impArgs.2)⟩⟩ stack = some stack') :
    ∃ n x', xImp cfg n db x = some (some x') ∧ Inv db goal stack' heap x' := by
  obtain ⟨es, fs, st2, hst, hel, hfl, hfs, _, rfl⟩ := applyAssertion_spec _ _ _ _ _ h
  have : es = [] := by simpa using hel
  subst this
  simp only [List.reverse_nil, List.nil_append] at hst
  by_cases hm : db.mandOf [.imp (.var db.impArgs.1) (.var db.impArgs.2)] = [db.impArgs.1, db.impArgs.2]
  · obtain ⟨htp, x', hx', hi⟩ := sim_binary db goal stack heap x db.impArgs.1 db.impArgs.2 hwf.impNe
      Term.imp NPat.imp .implies (fun _ _ _ => by simp [Term.subst]) (fun _ _ => by simp [image_imp, image_app])
      (fun _ _ _ _ h1 h2 => by simp [NPat.expand, h1, h2]) (fun _ _ h1 h2 => by simp [NPat.F0, h1, h2])
      (fun s l r st hs => tr_implies 0 s l r false false st hs) hinv fs st2 hst (by rw [hfl, hm]; rfl) hfs
    refine ⟨0, x', ?_, ?_⟩
    · rw [xImp_eq]; simp only [hm, if_true, htp]; exact hx'
    · simp only [hm]; exact hi
  · obtain ⟨n, x', hx', hi⟩ := sim_patAssert cfg db goal hwf.nodup hwf.tabMv stack heap x
      (.imp (.var db.impArgs.1) (.var db.impArgs.2))
      (by intro v hv; simp [Term.vars] at hv; rcases hv with rfl | rfl
          · exact hwf.impMem.1
          · exact hwf.impMem.2) hinv fs st2 hst hfl hfs
    refine ⟨n, x', ?_, hi⟩
    rw [xImp_eq]; simp only [hm, if_false]; exact hx'

theorem sim_app (cfg : Cfg) (db : DB) (goal : Term) (hwf : db.WF) (stack heap stack' : List Stmt)
    (x : XSt) (hinv : Inv db goal stack heap x)
    (h : applyAssertion ⟨db.mandOf [.app (.var db.appArgs.1) (.var db.appArgs.2)], [],
      ⟨false, .app (.var db.appArgs.1) (.var db.appArgs.2)⟩⟩ stack = some stack') :
    ∃ n x', xApp cfg n db x = some (some x') ∧ Inv db goal stack' heap x' := by
  obtain ⟨es, fs, st2, hst, hel, hfl, hfs, _, rfl⟩ := applyAssertion_spec _ _ _ _ _ h
  have : es = [] := by simpa using hel
  subst this
  simp only [List.reverse_nil, List.nil_append] at hst
  by_cases hm : db.mandOf [.app (.var db.appArgs.1) (.var db.appArgs.2)] = [db.appArgs.1, db.appArgs.2]
  · obtain ⟨htp, x', hx', hi⟩ := sim_binary db goal stack heap x db.appArgs.1 db.appArgs.2 hwf.appNe
      Term.app NPat.app .app (fun _ _ _ => by simp [Term.subst]) (fun _ _ => by simp [image_imp, image_app])
      (fun _ _ _ _ h1 h2 => by simp [NPat.expand, h1, h2]) (fun _ _ h1 h2 => by simp [NPat.F0, h1, h2])
      (fun s l r st hs => tr_app 0 s l r false false st hs) hinv fs st2 hst (by rw [hfl, hm]; rfl) hfs
    refine ⟨0, x', ?_, ?_⟩
    · rw [xApp_eq]; simp only [hm, if_true, htp]; exact hx'
    · simp only [hm]; exact hi
  · obtain ⟨n, x', hx', hi⟩ := sim_patAssert cfg db goal hwf.nodup hwf.tabMv stack heap x
      (.app (.var db.appArgs.1) (.var db.appArgs.2))
      (by intro v hv; simp [Term.vars] at hv; rcases hv with rfl | rfl
          · exact hwf.appMem.1
          · exact hwf.appMem.2) hinv fs st2 hst hfl hfs
    refine ⟨n, x', ?_, hi⟩
    rw [xApp_eq]; simp only [hm, if_false]; exact hx'

theorem varsList_map_var (l : List Nat) : Term.varsList (l.map .var) = l := by
  induction l with
  | nil => rfl
  | cons a l ih => simp [Term.varsList, Term.vars, ih]

theorem sim_ctor (cfg : Cfg) (db : DB) (goal : Term) (hwf : db.WF) (stack heap stack' : List Stmt)
    (x : XSt) (k : Nat) (c : Ctor) (hc : db.ctors[k]? = some c) (hinv : Inv db goal stack heap x)
    (h : applyAssertion ⟨db.mandOf [.con c.sym (c.args.map .var)], [],
      ⟨false, .con c.sym (c.args.map .var)⟩⟩ stack = some stack') :
    ∃ n x', xCtor cfg n db x k = some (some x') ∧ Inv db goal stack' heap x' := by
  obtain ⟨es, fs, st2, hst, hel, hfl, hfs, _, rfl⟩ := applyAssertion_spec _ _ _ _ _ h
  have : es = [] := by simpa using hel
  subst this
  simp only [List.reverse_nil, List.nil_append] at hst
  have hcm : c ∈ db.ctors := List.mem_of_getElem? hc
  have hvars : Term.vars (.con c.sym (c.args.map .var)) = c.args := by
    simp [Term.vars, varsList_map_var]
  by_cases hemp : (Term.vars (.con c.sym (c.args.map .var))).isEmpty = true
  · have hargs : c.args = [] := by rw [hvars] at hemp; simpa using hemp
    have hmand : db.mandOf [.con c.sym (c.args.map .var)] = [] := by
      simp [DB.mandOf, Term.varsList, Term.vars, hargs]
    have hfs0 : fs = [] := by rw [hmand] at hfl; simpa using hfl
    subst hfs0
    simp only [List.reverse_nil, List.nil_append] at hst
    subst hst
    obtain ⟨T, hT, hr⟩ := hinv.stack
    obtain ⟨n1, s1, a1, h1⟩ := patternF_term cfg (image db (.con c.sym (c.args.map .var))) x.s x.calls
      (image_B0 db _) hinv.stF0
    obtain ⟨cs, hcs, _, hstk, hsf, hfr, _⟩ := patternF_tr cfg (Nat.le_refl n1) (image_B0 db _) hinv.stF0 h1
    refine ⟨n1, ⟨s1, a1, x.mem⟩, ?_, ?_⟩
    · rw [xCtor_eq cfg n1 db x k c hc]
      simp only [hemp, if_true, h1, Option.bind_some, Option.pure_def]
    · obtain ⟨e, he⟩ := hfr.2.2.1
      refine hinv.update _ _ _ hfr.1 hfr.2.1 ⟨_ :: T, by rw [hstk, hT]; rfl, ?_, hr⟩ hinv.heap ?_
        ⟨e, he, ?_⟩
      · refine ⟨image db (.con c.sym (c.args.map .var)), rfl, B0.toF0 _ (image_B0 db _), ?_⟩
        simp [hargs, Term.subst, Term.substList]
      · intro u hu
        show u ∈ s1.memory
        rw [he]; exact List.mem_append_left _ (hinv.memSub u hu)
      · intro u hu
        exact hsf.2.1 u (by rw [he]; exact List.mem_append_right _ hu)
  · obtain ⟨n, x', hx', hi⟩ := sim_patAssert cfg db goal hwf.nodup hwf.tabMv stack heap x
      (.con c.sym (c.args.map .var))
      (by intro v hv; rw [hvars] at hv; exact (hwf.ctors c hcm).2 v hv) hinv fs st2 hst hfl hfs
    refine ⟨n, x', ?_, hi⟩
    rw [xCtor_eq cfg n db x k c hc]; simp only [hemp, Bool.false_eq_true, if_false]; exact hx'

/-! ## `instantiate` of a proved schema by the patterns below it -/

theorem sim_instantiate (x : XSt) (A : NPat) (hA : A.F0 = true) (plugs : List NPat)
    (hpF : ∀ p ∈ plugs, p.F0 = true) (rest : List (TTerm × Bool)) (keys : List Nat)
    (hkl : keys.length = plugs.length) (hne : keys ≠ [])
    (hstk : x.s.stack = (.proved A, false) :: ((plugs.reverse.map TTerm.pat).map ent ++ rest)) :
    ∃ n c, x.doC n [.instantiate keys] = some (some ⟨{ x.s with stack := (.proved c, false) :: rest },
        x.calls ++ [.instantiate keys], x.mem⟩) ∧ c.F0 = true ∧
      c.expand = Py.inst (Py.lookup (NPat.expand.expandMap (keys.zip plugs))) A.expand := by
  obtain ⟨n, c, hc, hcF, hce⟩ := instF_total (keys.zip plugs) A hA (F0Map_zip _ _ hpF)
  exact ⟨n, c, doC_reach ⟨_, tr_instantiate n x.s A c plugs keys rest hkl hne hstk hc, rfl⟩, hcF, hce⟩

theorem sim_p1 (db : DB) (goal : Term) (hwf : db.WF) (stack heap stack' : List Stmt)
    (x : XSt) (hinv : Inv db goal stack heap x)
    (h : applyAssertion ⟨db.mandOf [.imp (.var db.p1.1) (.imp (.var db.p1.2) (.var db.p1.1))], [],
      ⟨true, .imp (.var db.p1.1) (.imp (.var db.p1.2) (.var db.p1.1))⟩⟩ stack = some stack') :
    ∃ n x', xP1 n db x = some (some x') ∧ Inv db goal stack' heap x' := by
  obtain ⟨es, fs, st2, hst, hel, hfl, hfs, _, rfl⟩ := applyAssertion_spec _ _ _ _ _ h
  have : es = [] := by simpa using hel
  subst this
  obtain ⟨TE, plugs, T2, hS, hE, h2, hpl, hpF, hpe⟩ := inv_split hinv [] fs st2 hst hfs
  have hTE : TE = [] := by
    cases TE with
    | nil => rfl
    | cons _ _ => exact hE.elim
  subst hTE
  simp only [List.map_nil, List.nil_append] at hS
  -- the keys
  have hroles : [db.p1.1, db.p1.2].Nodup := by simp [hwf.p1Ne]
  have hmandEq : db.floats.filter ([db.p1.1, db.p1.2].contains ·)
      = db.mandOf [.imp (.var db.p1.1) (.imp (.var db.p1.2) (.var db.p1.1))] := by
    unfold DB.mandOf
    apply List.filter_congr
    intro v _
    simp only [Term.varsList, Term.vars, List.append_nil, List.contains_eq_mem, List.mem_cons,
      List.mem_append, List.not_mem_nil, or_false, decide_eq_decide]
    constructor
    · rintro (h | h) <;> simp [h]
    · rintro (h | h | h) <;> simp [h]
  have hkeys : ruleKeys db [db.p1.1, db.p1.2]
      = some ((db.mandOf [.imp (.var db.p1.1) (.imp (.var db.p1.2) (.var db.p1.1))]).map
          ([db.p1.1, db.p1.2].idxOf ·)) := by
    simp only [ruleKeys, hroles, if_true, hmandEq]
  have hx1 : db.p1.1 ∈ db.mandOf [.imp (.var db.p1.1) (.imp (.var db.p1.2) (.var db.p1.1))] :=
    (mem_mandOf db _ _).mpr ⟨hwf.p1Mem.1, by simp [Term.varsList, Term.vars]⟩
  have hx2 : db.p1.2 ∈ db.mandOf [.imp (.var db.p1.1) (.imp (.var db.p1.2) (.var db.p1.1))] :=
    (mem_mandOf db _ _).mpr ⟨hwf.p1Mem.2, by simp [Term.varsList, Term.vars]⟩
  generalize hmand : db.mandOf [.imp (.var db.p1.1) (.imp (.var db.p1.2) (.var db.p1.1))] = mand at *
  have hne : mand.map ([db.p1.1, db.p1.2].idxOf ·) ≠ [] := by
    intro e
    have : mand = [] := by simpa using e
    rw [this] at hx1; simp at hx1
  -- prop1
  have hs1 : (x.s.push (.proved prop1N)).stack = (.proved prop1N, false) ::
      ((plugs.reverse.map TTerm.pat).map ent ++ T2.map ent) := by simp [PySt.push, hS]
  obtain ⟨n, c, hc, hcF, hce⟩ := sim_instantiate ⟨x.s.push (.proved prop1N), x.calls ++ [.prop1], x.mem⟩
    prop1N (by rfl) plugs hpF (T2.map ent) (mand.map ([db.p1.1, db.p1.2].idxOf ·))
    (by simp [hpl, hfl]) hne hs1
  refine ⟨n, ?_, ?_, ?_⟩
  rotate_left
  · simp only [xP1, Option.bind_eq_bind]
    have hR1 : Reach n x.s [.prop1] (x.s.push (.proved prop1N)) := ⟨_, rfl, rfl⟩
    rw [doC_reach hR1]
    simp only [Option.bind_some, hkeys]
    exact hc
  · refine hinv.update _ _ _ rfl rfl ⟨_ :: T2, rfl, ?_, h2⟩ hinv.heap hinv.memSub
      ⟨[], by simp [PySt.push], by simp⟩
    refine ⟨c, rfl, hcF, ?_⟩
    rw [hce]
    have hag := agrees_of db hwf.nodup ([db.p1.1, db.p1.2].idxOf ·) mand fs plugs hfl hpe
      (fun a ha b hb e => by
        have ha' : a ∈ [db.p1.1, db.p1.2] := by
          have := ((mem_mandOf db _ a).mp (hmand ▸ ha)).2
          simpa [Term.varsList, Term.vars, or_comm] using this
        exact idxOf_inj _ a b ha' e)
    obtain ⟨u1, hl1, hd1⟩ := hag _ hx1
    obtain ⟨u2, hl2, hd2⟩ := hag _ hx2
    have i1 : [db.p1.1, db.p1.2].idxOf db.p1.1 = 0 := by simp [List.idxOf_cons]
    have i2 : [db.p1.1, db.p1.2].idxOf db.p1.2 = 1 := by
      have : (db.p1.1 == db.p1.2) = false := by simpa using hwf.p1Ne
      simp [List.idxOf_cons, this]
    simp only [i1, i2] at hd1 hd2
    simp [prop1N, PySt.phiN, NPat.expand, Py.inst, hd1, hd2, image_var, image_imp, image_app, Term.subst, hl1, hl2]

theorem sim_p2 (db : DB) (goal : Term) (hwf : db.WF) (stack heap stack' : List Stmt)
    (x : XSt) (hinv : Inv db goal stack heap x)
    (h : applyAssertion ⟨db.mandOf [(Term.imp (.imp (.var db.p2.1) (.imp (.var db.p2.2.1) (.var db.p2.2.2))) (.imp (.imp (.var db.p2.1) (.var db.p2.2.1)) (.imp (.var db.p2.1) (.var db.p2.2.2))))], [], ⟨true, (Term.imp (.imp (.var db.p2.1) (.imp (.var db.p2.2.1) (.var db.p2.2.2))) (.imp (.imp (.var db.p2.1) (.var db.p2.2.1)) (.imp (.var db.p2.1) (.var db.p2.2.2))))⟩⟩ stack = some stack') :
    ∃ n x', xP2 n db x = some (some x') ∧ Inv db goal stack' heap x' := by
  obtain ⟨es, fs, st2, hst, hel, hfl, hfs, _, rfl⟩ := applyAssertion_spec _ _ _ _ _ h
  have : es = [] := by simpa using hel
  subst this
  obtain ⟨TE, plugs, T2, hS, hE, h2, hpl, hpF, hpe⟩ := inv_split hinv [] fs st2 hst hfs
  have hTE : TE = [] := by
    cases TE with
    | nil => rfl
    | cons _ _ => exact hE.elim
  subst hTE
  simp only [List.map_nil, List.nil_append] at hS
  -- the keys
  have hroles : [db.p2.1, db.p2.2.1, db.p2.2.2].Nodup := hwf.p2Nodup
  have hn := hwf.p2Nodup
  simp only [List.nodup_cons, List.mem_cons, List.not_mem_nil, or_false, not_or, not_false_eq_true,
    List.nodup_nil, and_true] at hn
  obtain ⟨⟨h12, h13⟩, h23⟩ := hn
  have hmandEq : db.floats.filter ([db.p2.1, db.p2.2.1, db.p2.2.2].contains ·) = db.mandOf [(Term.imp (.imp (.var db.p2.1) (.imp (.var db.p2.2.1) (.var db.p2.2.2))) (.imp (.imp (.var db.p2.1) (.var db.p2.2.1)) (.imp (.var db.p2.1) (.var db.p2.2.2))))] := by
    unfold DB.mandOf
    apply List.filter_congr
    intro v _
    simp only [Term.varsList, Term.vars, List.append_nil, List.contains_eq_mem, List.mem_cons,
      List.mem_append, List.not_mem_nil, or_false, decide_eq_decide]
    constructor
    · rintro (h | h | h) <;> simp [h]
    · rintro ((h | h | h) | (h | h) | h | h) <;> simp [h]
  have hkeys : ruleKeys db [db.p2.1, db.p2.2.1, db.p2.2.2] = some ((db.mandOf [(Term.imp (.imp (.var db.p2.1) (.imp (.var db.p2.2.1) (.var db.p2.2.2))) (.imp (.imp (.var db.p2.1) (.var db.p2.2.1)) (.imp (.var db.p2.1) (.var db.p2.2.2))))]).map ([db.p2.1, db.p2.2.1, db.p2.2.2].idxOf ·)) := by
    simp only [ruleKeys, hroles, if_true, hmandEq]
  have hx1 : db.p2.1 ∈ db.mandOf [(Term.imp (.imp (.var db.p2.1) (.imp (.var db.p2.2.1) (.var db.p2.2.2))) (.imp (.imp (.var db.p2.1) (.var db.p2.2.1)) (.imp (.var db.p2.1) (.var db.p2.2.2))))] :=
    (mem_mandOf db _ _).mpr ⟨hwf.p2Mem.1, by simp [Term.varsList, Term.vars]⟩
  have hx2 : db.p2.2.1 ∈ db.mandOf [(Term.imp (.imp (.var db.p2.1) (.imp (.var db.p2.2.1) (.var db.p2.2.2))) (.imp (.imp (.var db.p2.1) (.var db.p2.2.1)) (.imp (.var db.p2.1) (.var db.p2.2.2))))] :=
    (mem_mandOf db _ _).mpr ⟨hwf.p2Mem.2.1, by simp [Term.varsList, Term.vars]⟩
  have hx3 : db.p2.2.2 ∈ db.mandOf [(Term.imp (.imp (.var db.p2.1) (.imp (.var db.p2.2.1) (.var db.p2.2.2))) (.imp (.imp (.var db.p2.1) (.var db.p2.2.1)) (.imp (.var db.p2.1) (.var db.p2.2.2))))] :=
    (mem_mandOf db _ _).mpr ⟨hwf.p2Mem.2.2, by simp [Term.varsList, Term.vars]⟩
  generalize hmand : db.mandOf [(Term.imp (.imp (.var db.p2.1) (.imp (.var db.p2.2.1) (.var db.p2.2.2))) (.imp (.imp (.var db.p2.1) (.var db.p2.2.1)) (.imp (.var db.p2.1) (.var db.p2.2.2))))] = mand at *
  have hne : mand.map ([db.p2.1, db.p2.2.1, db.p2.2.2].idxOf ·) ≠ [] := by
    intro e
    have : mand = [] := by simpa using e
    rw [this] at hx1; simp at hx1
  have hs1 : (x.s.push (.proved prop2N)).stack = (.proved prop2N, false) ::
      ((plugs.reverse.map TTerm.pat).map ent ++ T2.map ent) := by simp [PySt.push, hS]
  obtain ⟨n, c, hc, hcF, hce⟩ := sim_instantiate ⟨x.s.push (.proved prop2N), x.calls ++ [.prop2], x.mem⟩
    prop2N (by rfl) plugs hpF (T2.map ent) (mand.map ([db.p2.1, db.p2.2.1, db.p2.2.2].idxOf ·))
    (by simp [hpl, hfl]) hne hs1
  refine ⟨n, ?_, ?_, ?_⟩
  rotate_left
  · simp only [xP2, Option.bind_eq_bind]
    have hR1 : Reach n x.s [.prop2] (x.s.push (.proved prop2N)) := ⟨_, rfl, rfl⟩
    rw [doC_reach hR1]
    simp only [Option.bind_some, hkeys]
    exact hc
  · refine hinv.update _ _ _ rfl rfl ⟨_ :: T2, rfl, ?_, h2⟩ hinv.heap hinv.memSub
      ⟨[], by simp [PySt.push], by simp⟩
    refine ⟨c, rfl, hcF, ?_⟩
    rw [hce]
    have hag := agrees_of db hwf.nodup ([db.p2.1, db.p2.2.1, db.p2.2.2].idxOf ·) mand fs plugs hfl hpe
      (fun a ha b hb e => by
        have ha' : a ∈ [db.p2.1, db.p2.2.1, db.p2.2.2] := by
          have := ((mem_mandOf db _ a).mp (hmand ▸ ha)).2
          simp only [Term.varsList, Term.vars, List.append_nil, List.mem_append, List.mem_cons,
            List.not_mem_nil, or_false] at this
          simp only [List.mem_cons, List.not_mem_nil, or_false]
          rcases this with (h | h | h) | (h | h) | h | h <;> simp [h]
        exact idxOf_inj _ a b ha' e)
    obtain ⟨u1, hl1, hd1⟩ := hag _ hx1
    obtain ⟨u2, hl2, hd2⟩ := hag _ hx2
    obtain ⟨u3, hl3, hd3⟩ := hag _ hx3
    have b12 : (db.p2.1 == db.p2.2.1) = false := by simpa using h12
    have b13 : (db.p2.1 == db.p2.2.2) = false := by simpa using h13
    have b23 : (db.p2.2.1 == db.p2.2.2) = false := by simpa using h23
    have i1 : [db.p2.1, db.p2.2.1, db.p2.2.2].idxOf db.p2.1 = 0 := by simp [List.idxOf_cons]
    have i2 : [db.p2.1, db.p2.2.1, db.p2.2.2].idxOf db.p2.2.1 = 1 := by simp [List.idxOf_cons, b12]
    have i3 : [db.p2.1, db.p2.2.1, db.p2.2.2].idxOf db.p2.2.2 = 2 := by simp [List.idxOf_cons, b13, b23]
    simp only [i1, i2, i3] at hd1 hd2 hd3
    simp [prop2N, PySt.phiN, NPat.expand, Py.inst, hd1, hd2, hd3, image_var, image_imp, image_app, Term.subst, hl1, hl2, hl3]

theorem filter_length_two (l : List Nat) (hl : l.Nodup) (x y : Nat) (hxy : x ≠ y) (hx : x ∈ l)
    (hy : y ∈ l) (p : Nat → Bool) (hp : ∀ v, p v = true ↔ (v = x ∨ v = y)) :
    (l.filter p).length = 2 := by
  have h1 : (l.filter p).Nodup := List.Nodup.sublist List.filter_sublist hl
  have h2 : [x, y].Nodup := by simp [hxy]
  have := (List.perm_ext_iff_of_nodup h1 h2).mpr (by
    intro a
    simp only [List.mem_filter, hp, List.mem_cons, List.not_mem_nil, or_false]
    constructor
    · exact fun h => h.2
    · rintro (rfl | rfl)
      · exact ⟨hx, Or.inl rfl⟩
      · exact ⟨hy, Or.inr rfl⟩)
  simpa using this.length_eq

theorem mandOf_mp_length (db : DB) (hwf : db.WF) :
    (db.mandOf [.imp (.var db.mp.1) (.var db.mp.2), .var db.mp.1, .var db.mp.2]).length = 2 := by
  unfold DB.mandOf
  apply filter_length_two db.floats hwf.nodup db.mp.1 db.mp.2 hwf.mpNe hwf.mpMem.1 hwf.mpMem.2
  intro v
  simp only [Term.varsList, Term.vars, List.append_nil, List.contains_eq_mem, List.mem_cons,
    List.mem_append, List.not_mem_nil, or_false, decide_eq_true_eq]
  constructor
  · rintro ((h | h) | h | h) <;> simp [h]
  · rintro (h | h) <;> simp [h]

theorem sim_mp (db : DB) (goal : Term) (hwf : db.WF) (stack heap stack' : List Stmt)
    (x : XSt) (hinv : Inv db goal stack heap x)
    (h : applyAssertion ⟨db.mandOf [.imp (.var db.mp.1) (.var db.mp.2), .var db.mp.1, .var db.mp.2],
      [⟨true, .imp (.var db.mp.1) (.var db.mp.2)⟩, ⟨true, .var db.mp.1⟩], ⟨true, .var db.mp.2⟩⟩ stack
        = some stack') :
    ∃ n x', xMp n x = some (some x') ∧ Inv db goal stack' heap x' := by
  obtain ⟨es, fs, st2, hst, hel, hfl, hfs, hes, rfl⟩ := applyAssertion_spec _ _ _ _ _ h
  rw [mandOf_mp_length db hwf] at hfl
  generalize hσ : (db.mandOf [.imp (.var db.mp.1) (.var db.mp.2), .var db.mp.1, .var db.mp.2]).zip
    (fs.map (·.term)) = σ at *
  subst hes
  obtain ⟨TE, plugs, T2, hS, hE, h2, hpl, hpF, hpe⟩ := inv_split hinv _ fs st2 hst hfs
  simp only [List.map_cons, List.map_nil, List.reverse_cons, List.reverse_nil, List.nil_append,
    List.cons_append] at hE
  match TE, hE with
  | [t2, t1], hE =>
  obtain ⟨⟨q2, rfl, hq2F, hq2e⟩, ⟨q1, rfl, hq1F, hq1e⟩, _⟩ := hE
  simp only [Term.subst, if_true, image_var, image_imp, image_app, NPat.expand] at hq2e hq1e
  match plugs, (hpl.trans hfl) with
  | [p0, p1], _ =>
  simp only [List.map_cons, List.map_nil, List.reverse_cons, List.reverse_nil, List.nil_append,
    List.cons_append, ent, if_true] at hS
  -- modus ponens
  obtain ⟨n1, c, hc, hce, hcF⟩ := pyMP_total q1 q2 _ hq1F hq2F (by rw [hq1e, hq2e])
  have hR1 : Reach n1 x.s [.mp] { x.s with stack := (.proved c, false) :: (.pat p1, false) :: (.pat p0, false) :: T2.map ent } :=
    ⟨_, tr_mp n1 x.s q1 q2 c false false _ hS hc, rfl⟩
  -- save, pop the conclusion and the two patterns, load the conclusion
  have hsf4 : StF0 { x.s with stack := T2.map ent, memory := x.s.memory ++ [.proved c] } := by
    refine ⟨?_, ?_, hinv.stF0.2.2⟩
    · intro e he
      exact hinv.stF0.1 e (by rw [hS]; simp [he])
    · intro u hu
      rcases List.mem_append.mp hu with hu | hu
      · exact hinv.memF0 u hu
      · simp at hu; subst hu; exact hcF
  obtain ⟨n2, hl⟩ := load_total _ (.proved c) hsf4 hcF ⟨.proved c, by simp, rfl⟩
  have hR2 : ReachE { x.s with stack := (.proved c, false) :: (.pat p1, false) :: (.pat p0, false) :: T2.map ent }
      [.save, .pop, .pop, .pop, .load (.proved c)]
      { x.s with stack := (.proved c, false) :: T2.map ent, memory := x.s.memory ++ [.proved c] } := by
    refine ReachE.cons ⟨0, tr_save 0 _ _ false _ rfl⟩ ?_
    refine ReachE.cons ⟨0, tr_pop 0 _ _ _ rfl⟩ ?_
    refine ReachE.cons ⟨0, tr_pop 0 _ _ _ rfl⟩ ?_
    refine ReachE.cons ⟨0, tr_pop 0 _ _ _ rfl⟩ ?_
    exact ReachE.single ⟨n2, hl⟩
  obtain ⟨n3, hR2⟩ := hR2
  refine ⟨max n1 n3, ⟨{ x.s with stack := (.proved c, false) :: T2.map ent, memory := x.s.memory ++ [.proved c] }, (x.calls ++ [.mp]) ++ [.save, .pop, .pop, .pop, .load (.proved c)], x.mem⟩, ?_, ?_⟩
  · simp only [xMp, hS, Option.bind_eq_bind]
    rw [doC_reach (reach_mono (Nat.le_max_left n1 n3) hR1)]
    simp only [Option.bind_some, top?, List.head?_cons, Option.map_some]
    have h5 := doC_reach (x := ⟨{ x.s with stack := (.proved c, false) :: (.pat p1, false) :: (.pat p0, false) :: T2.map ent }, x.calls ++ [.mp], x.mem⟩)
      (reach_mono (Nat.le_max_right n1 n3) hR2)
    simpa using h5
  · refine hinv.update _ _ _ rfl rfl ⟨_ :: T2, rfl, ?_, h2⟩ hinv.heap ?_
      ⟨[.proved c], rfl, by simp; exact hcF⟩
    · exact ⟨c, rfl, hcF, by rw [hce]; simp [Term.subst]⟩
    · intro u hu
      exact List.mem_append_left _ (hinv.memSub u hu)

/-! ## an axiom with essential hypotheses -/

/-- the calls of the `save; pop` loop -/
def stashCalls : Nat → List Call
  | 0 => []
  | m + 1 => [.save, .pop] ++ stashCalls m

theorem stash_spec (n : Nat) : ∀ (E : List TTerm) (x : XSt) (saved : List TTerm)
    (rest : List (TTerm × Bool)), x.s.stack = E.map ent ++ rest →
    xstep.stash n x saved E.length = some (some
      (⟨{ x.s with stack := rest, memory := x.s.memory ++ E }, x.calls ++ stashCalls E.length, x.mem⟩,
        saved ++ E)) := by
  intro E
  induction E with
  | nil =>
    intro x saved rest hs
    simp only [List.map_nil, List.nil_append] at hs
    simp [xstep.stash, stashCalls, ← hs]
  | cons t E ih =>
    intro x saved rest hs
    have hs' : x.s.stack = (t, false) :: (E.map ent ++ rest) := by rw [hs]; rfl
    have hR : Reach n x.s [.save, .pop] { x.s with stack := E.map ent ++ rest, memory := x.s.memory ++ [t] } :=
      ⟨_, tr_save n x.s t false _ hs', _, tr_pop n _ _ _ hs', rfl⟩
    simp only [List.length_cons, xstep.stash, top?, hs', List.head?_cons, Option.map_some,
      doC_reach hR, Option.bind_eq_bind, Option.bind_some]
    rw [ih _ _ rest rfl]
    simp [stashCalls, List.append_assoc]

def chainP : List Pat → Pat → Pat
  | [], c => c
  | h :: hs, c => .imp h (chainP hs c)

theorem implChain_expand (db : DB) : ∀ (hs : List Term) (c : Term),
    (implChain db hs c).expand = chainP (hs.map fun h => (image db h).expand) (image db c).expand := by
  intro hs
  induction hs with
  | nil => intro c; rfl
  | cons h hs ih => intro c; simp [implChain, NPat.expand, chainP, ih]

theorem discharge_mono {n m : Nat} (h : n ≤ m) (x : XSt) (ts : List TTerm) :
    OLe (xstep.discharge n x ts) (xstep.discharge m x ts) :=
  OLe.of_step (fun n => xstep.discharge n x ts) (fun n => discharge_step n ts x) h

theorem discharge_total : ∀ (qs : List NPat) (x : XSt) (c : NPat) (C : Pat)
    (rest : List (TTerm × Bool)), x.s.stack = (.proved c, false) :: rest → c.F0 = true →
    (∀ q ∈ qs, q.F0 = true) → StF0 x.s → (∀ q ∈ qs, TTerm.proved q ∈ x.s.memory) →
    c.expand = chainP (qs.map NPat.expand) C →
    ∃ n c' cs, xstep.discharge n x (qs.map .proved) = some (some
        ⟨{ x.s with stack := (.proved c', false) :: rest }, x.calls ++ cs, x.mem⟩) ∧
      c'.F0 = true ∧ c'.expand = C := by
  intro qs
  induction qs with
  | nil =>
    intro x c C rest hs hc _ _ _ he
    refine ⟨0, c, [], ?_, hc, he⟩
    simp [xstep.discharge, ← hs]
  | cons q qs ih =>
    intro x c C rest hs hc hqs hsf hmem he
    have hq := hqs q (by simp)
    obtain ⟨n1, hl⟩ := load_total x.s (.proved q) hsf hq ⟨_, hmem q (by simp), rfl⟩
    simp only [List.map_cons, chainP] at he
    obtain ⟨n2, c1, hmp, hc1e, hc1F⟩ := pyMP_total c q _ hc hq he
    have hs1 : (x.s.push (.proved q)).stack = (.proved q, false) :: (.proved c, false) :: rest := by
      simp [PySt.push, hs]
    have hR2 : Reach n2 (x.s.push (.proved q)) [.mp] { x.s with stack := (.proved c1, false) :: rest } :=
      ⟨_, tr_mp n2 _ c q c1 false false rest hs1 hmp, rfl⟩
    obtain ⟨n3, c', cs, hd, hc'F, hc'e⟩ := ih
      ⟨{ x.s with stack := (.proved c1, false) :: rest }, (x.calls ++ [.load (.proved q)]) ++ [.mp], x.mem⟩
      c1 C rest rfl hc1F (fun q' hq' => hqs q' (List.mem_cons_of_mem _ hq'))
      (hsf.cons _ _ _ hc1F (fun e he' => by rw [hs]; exact List.mem_cons_of_mem _ he'))
      (fun q' hq' => hmem q' (List.mem_cons_of_mem _ hq')) hc1e
    refine ⟨max n1 (max n2 n3), c', [.load (.proved q), .mp] ++ cs, ?_, hc'F, hc'e⟩
    have hR1 : Reach (max n1 (max n2 n3)) x.s [.load (.proved q)] (x.s.push (.proved q)) :=
      ⟨_, track1_mono (Nat.le_max_left _ _) _ _ _ hl, rfl⟩
    have hR2' : Reach (max n1 (max n2 n3)) (x.s.push (.proved q)) [.mp]
        { x.s with stack := (.proved c1, false) :: rest } :=
      reach_mono (Nat.le_trans (Nat.le_max_left n2 n3) (Nat.le_max_right _ _)) hR2
    have hd' := discharge_mono (Nat.le_trans (Nat.le_max_right n2 n3) (Nat.le_max_right n1 _)) _ _ _ hd
    simp only [List.map_cons, xstep.discharge, Option.bind_eq_bind, doC_reach hR1, Option.bind_some, hs1]
    have h5 := doC_reach (x := ⟨x.s.push (.proved q), x.calls ++ [.load (.proved q)], x.mem⟩) hR2'
    simp only [] at h5
    rw [h5]
    simp only [Option.bind_some]
    rw [hd']
    simp [List.append_assoc]

theorem sim_rule (db : DB) (goal : Term) (hwf : db.WF) (stack heap stack' : List Stmt)
    (x : XSt) (k : Nat) (r : Rule) (hk : db.rules[k]? = some r) (hinv : Inv db goal stack heap x)
    (h : applyAssertion ⟨db.mandOf (r.hyps ++ [r.concl]), r.hyps.map (⟨true, ·⟩), ⟨true, r.concl⟩⟩ stack
        = some stack') :
    ∃ n x', xRule n db x k = some (some x') ∧ Inv db goal stack' heap x' := by
  obtain ⟨es, fs, st2, hst, hel, hfl, hfs, hes, rfl⟩ := applyAssertion_spec _ _ _ _ _ h
  have hrm : r ∈ db.rules := List.mem_of_getElem? hk
  generalize hσ : (db.mandOf (r.hyps ++ [r.concl])).zip (fs.map (·.term)) = σ at *
  obtain ⟨TE, plugs, T2, hS, hE, h2, hpl, hpF, hpe⟩ := inv_split hinv es fs st2 hst hfs
  have hes' : es = r.hyps.map fun t => ⟨true, t.subst σ⟩ := by rw [hes, List.map_map]; rfl
  obtain ⟨qsr, rfl, hqF, hqe⟩ := hE.proofs (by
    intro f hf
    rw [hes'] at hf
    obtain ⟨t, _, rfl⟩ := List.mem_map.mp (List.mem_reverse.mp hf)
    rfl)
  have hlenE : (qsr.map TTerm.proved).length = r.hyps.length := by
    have := hE.length_eq
    simp only [List.length_reverse, List.length_map] at this ⊢
    rw [← this, hes']; simp
  -- stash
  have hstash := fun n => stash_spec n (qsr.map TTerm.proved) x []
    ((plugs.reverse.map TTerm.pat).map ent ++ T2.map ent) hS
  rw [hlenE] at hstash
  simp only [List.nil_append] at hstash
  generalize hx1 : (⟨{ x.s with stack := (plugs.reverse.map TTerm.pat).map ent ++ T2.map ent, memory := x.s.memory ++ qsr.map TTerm.proved }, x.calls ++ stashCalls r.hyps.length, x.mem⟩ : XSt) = x1 at hstash
  have hx1s : x1.s.stack = (plugs.reverse.map TTerm.pat).map ent ++ T2.map ent := by rw [← hx1]
  have hx1m : x1.s.memory = x.s.memory ++ qsr.map TTerm.proved := by rw [← hx1]
  have hx1mem : x1.mem = x.mem := by rw [← hx1]
  have hx1p : x1.s.phase = x.s.phase ∧ x1.s.claims = x.s.claims := by rw [← hx1]; exact ⟨rfl, rfl⟩
  have hsf1 : StF0 x1.s := by
    refine ⟨?_, ?_, by rw [hx1p.2]; exact hinv.stF0.2.2⟩
    · intro e he
      rw [hx1s] at he
      exact hinv.stF0.1 e (by rw [hS]; exact List.mem_append_right _ he)
    · intro u hu
      rw [hx1m] at hu
      rcases List.mem_append.mp hu with hu | hu
      · exact hinv.memF0 u hu
      · obtain ⟨q, hq, rfl⟩ := List.mem_map.mp hu
        exact hqF q hq
  -- load the axiom
  have hchainF : (implChain db r.hyps r.concl).F0 = true := B0.toF0 _ (implChain_B0 db _ _)
  obtain ⟨u, hu, huc⟩ := hinv.axioms r hrm
  obtain ⟨n2, hl⟩ := load_total x1.s (.proved (implChain db r.hyps r.concl)) hsf1 hchainF
    ⟨u, by rw [hx1m]; exact List.mem_append_left _ hu, by simpa [convT] using huc⟩
  have hs2 : (x1.s.push (.proved (implChain db r.hyps r.concl))).stack
      = (.proved (implChain db r.hyps r.concl), false) ::
        ((plugs.reverse.map TTerm.pat).map ent ++ T2.map ent) := by simp [PySt.push, hx1s]
  -- instantiate
  have hvarsF : ∀ v ∈ Term.varsList (r.hyps ++ [r.concl]), v ∈ db.floats := hwf.rules r hrm
  have hinst : ∃ n3 c x3, (if (Term.varsList (r.hyps ++ [r.concl])).isEmpty then
        some (some (⟨x1.s.push (.proved (implChain db r.hyps r.concl)),
          x1.calls ++ [.load (.proved (implChain db r.hyps r.concl))], x1.mem⟩ : XSt))
      else (⟨x1.s.push (.proved (implChain db r.hyps r.concl)),
          x1.calls ++ [.load (.proved (implChain db r.hyps r.concl))], x1.mem⟩ : XSt).doC n3
            [.instantiate (db.deltaKeys (r.hyps ++ [r.concl]))]) = some (some x3) ∧
      x3.s = { x1.s with stack := (.proved c, false) :: T2.map ent } ∧ x3.mem = x1.mem ∧ c.F0 = true ∧
      c.expand = (implChain db (r.hyps.map (Term.subst σ)) (r.concl.subst σ)).expand := by
    by_cases hemp : (Term.varsList (r.hyps ++ [r.concl])).isEmpty = true
    · have hvl : Term.varsList (r.hyps ++ [r.concl]) = [] := by simpa using hemp
      have hmand : db.mandOf (r.hyps ++ [r.concl]) = [] := by simp [DB.mandOf, hvl]
      have hfs0 : fs = [] := by rw [hmand] at hfl; simpa using hfl
      have hp0 : plugs = [] := by rw [hfs0] at hpl; simpa using hpl
      subst hp0
      refine ⟨0, implChain db r.hyps r.concl, (⟨x1.s.push (.proved (implChain db r.hyps r.concl)), x1.calls ++ [.load (.proved (implChain db r.hyps r.concl))], x1.mem⟩ : XSt), by simp only [hemp, if_true], ?_, rfl, hchainF, ?_⟩
      · simp [PySt.push, hx1s]
      · have := implChain_subst db hwf.tabMv σ (fun _ => none) r.hyps r.concl (by
          intro v hv; rw [hvl] at hv; simp at hv)
        rw [← this, Py.inst_empty _ (NPat.shape_expand _ (F0.shape _ hchainF))]
    · have hne : db.deltaKeys (r.hyps ++ [r.concl]) ≠ [] := by
        intro e
        have hv : Term.varsList (r.hyps ++ [r.concl]) ≠ [] := by simpa using hemp
        obtain ⟨v, hv'⟩ := List.exists_mem_of_ne_nil _ hv
        have : v ∈ db.mandOf (r.hyps ++ [r.concl]) := (mem_mandOf db _ v).mpr ⟨hvarsF v hv', hv'⟩
        have e' : db.mandOf (r.hyps ++ [r.concl]) = [] := by simpa [DB.deltaKeys] using e
        rw [e'] at this; simp at this
      obtain ⟨n3, c, hc, hcF, hce⟩ := sim_instantiate
        ⟨x1.s.push (.proved (implChain db r.hyps r.concl)),
          x1.calls ++ [.load (.proved (implChain db r.hyps r.concl))], x1.mem⟩
        _ hchainF plugs hpF (T2.map ent) (db.deltaKeys (r.hyps ++ [r.concl]))
        (by simp [DB.deltaKeys, hpl, hfl]) hne hs2
      refine ⟨n3, c, (⟨{ x1.s with stack := (.proved c, false) :: T2.map ent }, (x1.calls ++ [.load (.proved (implChain db r.hyps r.concl))]) ++ [.instantiate (db.deltaKeys (r.hyps ++ [r.concl]))], x1.mem⟩ : XSt), (by simp only [hemp, Bool.false_eq_true, if_false]; exact hc), rfl, rfl, hcF, ?_⟩
      rw [hce, ← hσ]
      exact implChain_subst db hwf.tabMv _ _ r.hyps r.concl
        (agrees_mvId db hwf.nodup _ fs plugs hfl hpe _ (fun v hv => ⟨hvarsF v hv, hv⟩))
  obtain ⟨n3, c, x3, hx3, hx3s, hx3m, hcF, hce⟩ := hinst
  -- discharge
  have hx3stk : x3.s.stack = (.proved c, false) :: T2.map ent := by rw [hx3s]
  have hx3mem : x3.s.memory = x.s.memory ++ qsr.map TTerm.proved := by rw [hx3s]; exact hx1m
  have hsf3 : StF0 x3.s := by
    rw [hx3s]
    exact hsf1.cons _ _ _ hcF (fun e he => by rw [hx1s]; exact List.mem_append_right _ he)
  have hqe' : qsr.reverse.map NPat.expand = r.hyps.map fun t => (image db (t.subst σ)).expand := by
    rw [List.map_reverse, hqe, ← List.map_reverse, List.reverse_reverse, hes', List.map_map]
    rfl
  obtain ⟨n4, c', cs, hd, hc'F, hc'e⟩ := discharge_total qsr.reverse x3 c
    (image db (r.concl.subst σ)).expand (T2.map ent) hx3stk hcF
    (fun q hq => hqF q (List.mem_reverse.mp hq)) hsf3
    (fun q hq => by
      rw [hx3mem]
      exact List.mem_append_right _ (List.mem_map_of_mem (List.mem_reverse.mp hq)))
    (by rw [hce, implChain_expand, hqe', List.map_map]; rfl)
  -- assemble with one fuel
  refine ⟨max n2 (max n3 n4), ?_, ?_, ?_⟩
  rotate_left
  · simp only [xRule, hk, Option.bind_eq_bind, hstash, Option.bind_some]
    have hR : Reach (max n2 (max n3 n4)) x1.s [.load (.proved (implChain db r.hyps r.concl))]
        (x1.s.push (.proved (implChain db r.hyps r.concl))) :=
      ⟨_, track1_mono (Nat.le_max_left _ _) _ _ _ hl, rfl⟩
    rw [doC_reach hR]
    simp only [Option.bind_some]
    have hx3' : (if (Term.varsList (r.hyps ++ [r.concl])).isEmpty then
        some (some (⟨x1.s.push (.proved (implChain db r.hyps r.concl)),
          x1.calls ++ [.load (.proved (implChain db r.hyps r.concl))], x1.mem⟩ : XSt))
      else (⟨x1.s.push (.proved (implChain db r.hyps r.concl)),
          x1.calls ++ [.load (.proved (implChain db r.hyps r.concl))], x1.mem⟩ : XSt).doC
            (max n2 (max n3 n4)) [.instantiate (db.deltaKeys (r.hyps ++ [r.concl]))])
        = some (some x3) := by
      split at hx3
      · next he => simp only [he, if_true]; exact hx3
      · next he =>
        simp only [he, if_false]
        exact doC_mono (Nat.le_trans (Nat.le_max_left n3 n4) (Nat.le_max_right _ _)) _ _ _ hx3
    rw [hx3']
    simp only [Option.bind_some]
    have := discharge_mono (Nat.le_trans (Nat.le_max_right n3 n4) (Nat.le_max_right n2 _)) _ _ _ hd
    simp only [List.map_reverse] at this
    exact this
  · refine hinv.update _ _ _ (by simp [hx3s, hx1p.1]) (by simp [hx3s, hx1p.2])
      ⟨.proved c' :: T2, by simp [ent], ?_, h2⟩ (by simp [hx3m, hx1mem]; exact hinv.heap) ?_
      ⟨qsr.map TTerm.proved, by simp [hx3mem], ?_⟩
    · exact ⟨c', rfl, hc'F, hc'e⟩
    · intro u hu
      simp only [hx3m, hx1mem] at hu
      show u ∈ x3.s.memory
      rw [hx3mem]
      exact List.mem_append_left _ (hinv.memSub u hu)
    · intro u hu
      obtain ⟨q, hq, rfl⟩ := List.mem_map.mp hu
      exact hqF q hq

/-! ## one step, and the loop -/

theorem sim_vstep (cfg : Cfg) (db : DB) (goal : Term) (hwf : db.WF) (labels : List Lbl)
    (stack heap stack' heap' : List Stmt) (x : XSt) (k : Nat) (hinv : Inv db goal stack heap x)
    (hv : vstep db labels (stack, heap) k = some (stack', heap')) :
    ∃ n x', xstep cfg n db labels x k = some (some x') ∧ Inv db goal stack' heap' x' := by
  cases hres : resolve labels.length k with
  | save =>
    simp only [vstep, hres] at hv
    cases stack with
    | nil => simp at hv
    | cons t rest =>
      simp only [Option.some.injEq, Prod.mk.injEq] at hv
      obtain ⟨rfl, rfl⟩ := hv
      obtain ⟨n, x', h1, h2⟩ := sim_save db goal _ heap x t rest hinv rfl
      exact ⟨n, x', by rw [xstep_eq]; simp only [hres]; exact h1, h2⟩
  | reuse j =>
    simp only [vstep, hres, Option.map_eq_some_iff, Prod.mk.injEq] at hv
    obtain ⟨t, hj, rfl, rfl⟩ := hv
    obtain ⟨n, x', h1, h2⟩ := sim_reuse db goal stack heap x j t hinv hj
    exact ⟨n, x', by rw [xstep_eq]; simp only [hres]; exact h1, h2⟩
  | label i =>
    simp only [vstep, hres, Option.bind_eq_bind, Option.bind_eq_some_iff] at hv
    obtain ⟨l, hl, hv⟩ := hv
    have hx : ∀ n, xstep cfg n db labels x k = xLabel cfg n db x l := by
      intro n; rw [xstep_eq]; simp only [hres, hl]
    cases l with
    | float v =>
      simp only [] at hv
      split at hv
      · simp only [Option.pure_def, Option.some.injEq, Prod.mk.injEq] at hv
        obtain ⟨rfl, rfl⟩ := hv
        obtain ⟨n, x', h1, h2⟩ := sim_float db goal stack heap x v hinv
        exact ⟨n, x', by rw [hx]; exact h1, h2⟩
      · simp at hv
    | impC =>
      simp only [DB.assertion, Option.bind_some, Option.bind_eq_some_iff, Option.pure_def,
        Option.some.injEq, Prod.mk.injEq] at hv
      obtain ⟨st, ha, rfl, rfl⟩ := hv
      obtain ⟨n, x', h1, h2⟩ := sim_imp cfg db goal hwf stack heap _ x hinv ha
      exact ⟨n, x', by rw [hx]; exact h1, h2⟩
    | appC =>
      simp only [DB.assertion, Option.bind_some, Option.bind_eq_some_iff, Option.pure_def,
        Option.some.injEq, Prod.mk.injEq] at hv
      obtain ⟨st, ha, rfl, rfl⟩ := hv
      obtain ⟨n, x', h1, h2⟩ := sim_app cfg db goal hwf stack heap _ x hinv ha
      exact ⟨n, x', by rw [hx]; exact h1, h2⟩
    | ctor j =>
      simp only [DB.assertion, Option.bind_eq_some_iff, Option.map_eq_some_iff, Option.pure_def,
        Option.some.injEq, Prod.mk.injEq] at hv
      obtain ⟨a, ⟨c, hc, rfl⟩, st, ha, rfl, rfl⟩ := hv
      obtain ⟨n, x', h1, h2⟩ := sim_ctor cfg db goal hwf stack heap _ x j c hc hinv ha
      exact ⟨n, x', by rw [hx]; exact h1, h2⟩
    | rule j =>
      simp only [DB.assertion, Option.bind_eq_some_iff, Option.map_eq_some_iff, Option.pure_def,
        Option.some.injEq, Prod.mk.injEq] at hv
      obtain ⟨a, ⟨r, hr, rfl⟩, st, ha, rfl, rfl⟩ := hv
      obtain ⟨n, x', h1, h2⟩ := sim_rule db goal hwf stack heap _ x j r hr hinv ha
      exact ⟨n, x', by rw [hx]; exact h1, h2⟩
    | p1 =>
      simp only [DB.assertion, Option.bind_some, Option.bind_eq_some_iff, Option.pure_def,
        Option.some.injEq, Prod.mk.injEq] at hv
      obtain ⟨st, ha, rfl, rfl⟩ := hv
      obtain ⟨n, x', h1, h2⟩ := sim_p1 db goal hwf stack heap _ x hinv ha
      exact ⟨n, x', by rw [hx]; exact h1, h2⟩
    | p2 =>
      simp only [DB.assertion, Option.bind_some, Option.bind_eq_some_iff, Option.pure_def,
        Option.some.injEq, Prod.mk.injEq] at hv
      obtain ⟨st, ha, rfl, rfl⟩ := hv
      obtain ⟨n, x', h1, h2⟩ := sim_p2 db goal hwf stack heap _ x hinv ha
      exact ⟨n, x', by rw [hx]; exact h1, h2⟩
    | mp =>
      simp only [DB.assertion, Option.bind_some, Option.bind_eq_some_iff, Option.pure_def,
        Option.some.injEq, Prod.mk.injEq] at hv
      obtain ⟨st, ha, rfl, rfl⟩ := hv
      obtain ⟨n, x', h1, h2⟩ := sim_mp db goal hwf stack heap _ x hinv ha
      exact ⟨n, x', by rw [hx]; exact h1, h2⟩

theorem xstep_mono (cfg : Cfg) {n m : Nat} (h : n ≤ m) (db : DB) (labels : List Lbl) (x : XSt)
    (k : Nat) : OLe (xstep cfg n db labels x k) (xstep cfg m db labels x k) :=
  OLe.of_step (fun n => xstep cfg n db labels x k) (fun n => xstep_step cfg n db labels x k) h

theorem xrun_mono (cfg : Cfg) {n m : Nat} (h : n ≤ m) (db : DB) (labels : List Lbl) (x : XSt)
    (ks : List Nat) : OLe (xrun cfg n db labels x ks) (xrun cfg m db labels x ks) :=
  OLe.of_step (fun n => xrun cfg n db labels x ks) (fun n => xrun_step cfg n db labels ks x) h

theorem sim_vrun (cfg : Cfg) (db : DB) (goal : Term) (hwf : db.WF) (labels : List Lbl) :
    ∀ (ks : List Nat) (stack heap stack' heap' : List Stmt) (x : XSt), Inv db goal stack heap x →
    vrun db labels (stack, heap) ks = some (stack', heap') →
    ∃ n x', xrun cfg n db labels x ks = some (some x') ∧ Inv db goal stack' heap' x' := by
  intro ks
  induction ks with
  | nil =>
    intro stack heap stack' heap' x hinv hv
    simp only [vrun, Option.some.injEq, Prod.mk.injEq] at hv
    obtain ⟨rfl, rfl⟩ := hv
    exact ⟨0, x, rfl, hinv⟩
  | cons k ks ih =>
    intro stack heap stack' heap' x hinv hv
    simp only [vrun, Option.bind_eq_bind, Option.bind_eq_some_iff] at hv
    obtain ⟨⟨st1, hp1⟩, h1, hv⟩ := hv
    obtain ⟨n1, x1, hx1, hinv1⟩ := sim_vstep cfg db goal hwf labels stack heap st1 hp1 x k hinv h1
    obtain ⟨n2, x', hx2, hinv'⟩ := ih st1 hp1 stack' heap' x1 hinv1 hv
    refine ⟨max n1 n2, x', ?_, hinv'⟩
    simp only [xrun, Option.bind_eq_bind]
    rw [xstep_mono cfg (Nat.le_max_left n1 n2) _ _ _ _ _ hx1]
    simp only [Option.bind_some]
    exact xrun_mono cfg (Nat.le_max_right n1 n2) _ _ _ _ _ hx2

end MM
