import Pi2.MM.F0
import Pi2.MM.XMono
/-!
# The tracker on the simple fragment: side conditions of single calls, traces, `Interpreter.pattern`
-/
set_option linter.unusedSimpArgs false
set_option linter.unusedVariables false
open Pat PySt NPat

namespace MM

/-! ## states over the fragment -/

def StF0 (s : PySt) : Prop :=
  (∀ e ∈ s.stack, e.1.body.F0 = true) ∧ (∀ t ∈ s.memory, t.body.F0 = true) ∧
    (∀ c ∈ s.claims, c.F0 = true)

theorem StF0.shape {s : PySt} (h : StF0 s) : ShapeSt s :=
  ⟨fun e he => F0.shape _ (h.1 e he), fun t ht => F0.shape _ (h.2.1 t ht),
    fun c hc => F0.shape _ (h.2.2 c hc)⟩

theorem StF0.setStack {s : PySt} (h : StF0 s) (S : List (TTerm × Bool))
    (hS : ∀ e ∈ S, e.1.body.F0 = true) : StF0 { s with stack := S } := ⟨hS, h.2.1, h.2.2⟩

theorem StF0.cons {s : PySt} (h : StF0 s) (t : TTerm) (b : Bool) (st : List (TTerm × Bool))
    (ht : t.body.F0 = true) (hst : ∀ e ∈ st, e ∈ s.stack) :
    StF0 { s with stack := (t, b) :: st } := by
  apply h.setStack
  intro e he
  rcases List.mem_cons.mp he with rfl | he
  · exact ht
  · exact h.1 e (hst e he)

theorem StF0.push {s : PySt} (h : StF0 s) (t : TTerm) (ht : t.body.F0 = true) : StF0 (s.push t) :=
  h.cons t false s.stack ht (fun _ h => h)

theorem StF0.addMem {s : PySt} (h : StF0 s) (t : TTerm) (ht : t.body.F0 = true) :
    StF0 { s with memory := s.memory ++ [t] } := by
  refine ⟨h.1, ?_, h.2.2⟩
  intro u hu
  rcases List.mem_append.mp hu with hu | hu
  · exact h.2.1 u hu
  · simp at hu; subst hu; exact ht

/-! ## side conditions without the symbol-naming condition -/

def SideNS (s : PySt) (c : Call) : Prop :=
  SideCond s c ∧ touchesResidue s c = false ∧
  (∀ keys, (c = .instantiate keys ∨ c = .instantiatePattern keys) → keys.Nodup) ∧
  (∀ t, c = .load t → t.body.Shape = true) ∧
  (∀ id ef sf ps ns hs, c = .metavar id ef sf ps ns hs → ef = [] ∧ sf = [])

def AllNS (n : Nat) : PySt → List Call → Prop
  | _, [] => True
  | s, c :: cs => ((c = .intoClaim ∨ c = .intoProof) ∨ SideNS s c) ∧
      ∀ s', track1 n s c = some (some s') → AllNS n s' cs

set_option hygiene false in
macro "sym_done" : tactic =>
  `(tactic| (simp only [Option.some.injEq] at ht; subst ht; rfl))

theorem track1_symtab (n : Nat) (s s' : PySt) (c : Call) (hc : ∀ nm, c ≠ .symbol nm)
    (ht : track1 n s c = some (some s')) : s'.symtab = s.symtab := by
  cases c with
  | symbol nm => exact absurd rfl (hc nm)
  | evar x => simp only [track1] at ht; sym_done
  | svar x => simp only [track1] at ht; sym_done
  | metavar id ef sf ps ns hs => simp only [track1] at ht; sym_done
  | implies => simp only [track1] at ht; split at ht <;> first | sym_done | simp at ht
  | app => simp only [track1] at ht; split at ht <;> first | sym_done | simp at ht
  | ex x => simp only [track1] at ht; split at ht <;> first | sym_done | simp at ht
  | mu x => simp only [track1] at ht; split at ht <;> first | sym_done | simp at ht
  | esubst x =>
    simp only [track1] at ht
    split at ht
    · split at ht <;> first | sym_done | simp at ht
    · simp at ht
  | ssubst x =>
    simp only [track1] at ht
    split at ht
    · split at ht <;> first | sym_done | simp at ht
    · simp at ht
  | prop1 => simp only [track1] at ht; sym_done
  | prop2 => simp only [track1] at ht; sym_done
  | prop3 => simp only [track1] at ht; sym_done
  | quantifier => simp only [track1] at ht; sym_done
  | mp =>
    simp only [track1] at ht
    split at ht
    · simp only [Option.bind_eq_bind, Option.bind_eq_some_iff] at ht
      obtain ⟨oc, _, ht⟩ := ht
      cases oc with
      | none => simp at ht
      | some c => simp only [Option.pure_def] at ht; sym_done
    · simp at ht
  | gen x =>
    simp only [track1] at ht
    split at ht
    · simp only [Option.bind_eq_bind, Option.bind_eq_some_iff] at ht
      obtain ⟨oc, _, ht⟩ := ht
      cases oc with
      | none => simp at ht
      | some c => simp only [Option.pure_def] at ht; sym_done
    · simp at ht
  | instantiate keys =>
    simp only [track1] at ht
    split at ht
    · split at ht
      · sym_done
      · split at ht
        · simp at ht
        · simp only [Option.bind_eq_bind, Option.bind_eq_some_iff, Option.pure_def] at ht
          obtain ⟨c, _, ht⟩ := ht
          sym_done
    · simp at ht
  | instantiatePattern keys =>
    simp only [track1] at ht
    split at ht
    · split at ht <;> first | sym_done | simp at ht
    · simp at ht
  | pop => simp only [track1] at ht; split at ht <;> first | sym_done | simp at ht
  | save => simp only [track1] at ht; split at ht <;> first | sym_done | simp at ht
  | load t =>
    simp only [track1, Option.bind_eq_bind, Option.bind_eq_some_iff] at ht
    obtain ⟨oi, _, ht⟩ := ht
    cases oi with
    | none => simp at ht
    | some i => simp only [Option.pure_def] at ht; sym_done
  | publishProof =>
    simp only [track1] at ht
    split at ht
    · simp only [Option.bind_eq_bind, Option.bind_eq_some_iff] at ht
      obtain ⟨e, _, ht⟩ := ht
      cases e with
      | false => simp at ht
      | true => simp only [if_true, Option.pure_def] at ht; sym_done
    · simp at ht
  | publishAxiom => simp only [track1] at ht; split at ht <;> first | sym_done | simp at ht
  | publishClaim => simp only [track1] at ht; split at ht <;> first | sym_done | simp at ht
  | intoClaim => simp only [track1] at ht; split at ht <;> first | sym_done | simp at ht
  | intoProof => simp only [track1] at ht; split at ht <;> first | sym_done | simp at ht

theorem allSideM_of_NS (n : Nat) : ∀ (cs : List Call) (s : PySt), AllNS n s cs →
    CanonCalls s.symtab cs → AllSideM n s cs := by
  intro cs
  induction cs with
  | nil => intro s _ _; trivial
  | cons c cs ih =>
    intro s h hc
    obtain ⟨h1, h2⟩ := h
    by_cases hsym : ∃ nm, c = .symbol nm
    · obtain ⟨nm, rfl⟩ := hsym
      simp only [CanonCalls] at hc
      refine ⟨?_, ?_⟩
      · rcases h1 with (e | e) | hok
        · cases e
        · cases e
        · exact Or.inr ⟨hok.1, hok.2.1, fun nm' e => by cases e; exact hc.1, hok.2.2.1, hok.2.2.2.1,
            hok.2.2.2.2⟩
      · intro s' hs'
        apply ih s' (h2 s' hs')
        have : s'.symtab = if s.symtab.contains nm then s.symtab else s.symtab ++ [nm] := by
          simp only [track1, Option.some.injEq] at hs'; subst hs'; rfl
        rw [this]; exact hc.2
    · have hns : ∀ nm, c ≠ .symbol nm := fun nm e => hsym ⟨nm, e⟩
      have hc' : CanonCalls s.symtab cs := by
        cases c <;> first | exact hc | exact absurd rfl (hns _)
      refine ⟨?_, ?_⟩
      · rcases h1 with e | hok
        · exact Or.inl e
        · exact Or.inr ⟨hok.1, hok.2.1, fun nm e => absurd e (hns nm), hok.2.2.1, hok.2.2.2.1,
            hok.2.2.2.2⟩
      · intro s' hs'
        apply ih s' (h2 s' hs')
        rw [track1_symtab n s s' c hns hs']; exact hc'

/-! ## traces: the calls lead from `s` to `s'` with fuel `n`, and satisfy the side conditions -/

def Tr (n : Nat) (s : PySt) (cs : List Call) (s' : PySt) : Prop := Reach n s cs s' ∧ AllNS n s cs

theorem Tr.nil (n : Nat) (s : PySt) : Tr n s [] s := ⟨rfl, trivial⟩

theorem Tr.cons {n : Nat} {s s1 s' : PySt} {c : Call} {cs : List Call}
    (ht : track1 n s c = some (some s1)) (hs : (c = .intoClaim ∨ c = .intoProof) ∨ SideNS s c)
    (h : Tr n s1 cs s') : Tr n s (c :: cs) s' := by
  refine ⟨⟨s1, ht, h.1⟩, hs, ?_⟩
  intro s2 hs2
  rw [ht] at hs2
  cases hs2
  exact h.2

theorem Tr.single {n : Nat} {s s' : PySt} {c : Call}
    (ht : track1 n s c = some (some s')) (hs : (c = .intoClaim ∨ c = .intoProof) ∨ SideNS s c) :
    Tr n s [c] s' := Tr.cons ht hs (Tr.nil n s')

theorem Tr.append {n : Nat} {cs1 cs2 : List Call} {s s1 s' : PySt}
    (h1 : Tr n s cs1 s1) (h2 : Tr n s1 cs2 s') : Tr n s (cs1 ++ cs2) s' := by
  induction cs1 generalizing s with
  | nil =>
    have : s1 = s := h1.1
    subst this
    simpa using h2
  | cons c cs ih =>
    obtain ⟨⟨s2, hs2, hr⟩, hside, hrest⟩ := h1
    exact Tr.cons hs2 hside (ih ⟨hr, hrest s2 hs2⟩)

theorem reach_exec {n : Nat} {s s' : PySt} {cs : List Call} (h : Reach n s cs s') : Exec s cs s' := by
  induction cs generalizing s with
  | nil => simp only [Reach] at h; subst h; exact .nil _
  | cons c cs ih =>
    obtain ⟨s1, h1, h2⟩ := h
    exact .cons n h1 (ih h2)

theorem reach_mono {n m : Nat} (hnm : n ≤ m) {s s' : PySt} {cs : List Call} (h : Reach n s cs s') :
    Reach m s cs s' := by
  induction cs generalizing s with
  | nil => exact h
  | cons c cs ih =>
    obtain ⟨s1, h1, h2⟩ := h
    exact ⟨s1, track1_mono hnm _ _ _ h1, ih h2⟩

theorem doCalls_reach (n : Nat) : ∀ (cs : List Call) (s : PySt) (acc : List Call) (s' : PySt)
    (a' : List Call), doCalls n s cs acc = some (some (s', a')) → a' = acc ++ cs ∧ Reach n s cs s' := by
  intro cs
  induction cs with
  | nil =>
    intro s acc s' a' h
    simp only [doCalls, Option.some.injEq, Prod.mk.injEq] at h
    exact ⟨by simp [h.2], h.1.symm⟩
  | cons c cs ih =>
    intro s acc s' a' h
    simp only [doCalls, Option.bind_eq_bind, Option.bind_eq_some_iff] at h
    obtain ⟨o, ho, h⟩ := h
    cases o with
    | none => simp at h
    | some s1 =>
      obtain ⟨e, hr⟩ := ih s1 _ s' a' h
      exact ⟨by simp [e], s1, ho, hr⟩

theorem reach_doCalls (n : Nat) : ∀ (cs : List Call) (s : PySt) (acc : List Call) (s' : PySt),
    Reach n s cs s' → doCalls n s cs acc = some (some (s', acc ++ cs)) := by
  intro cs
  induction cs with
  | nil => intro s acc s' h; simp only [Reach] at h; subst h; simp [doCalls]
  | cons c cs ih =>
    intro s acc s' h
    obtain ⟨s1, h1, h2⟩ := h
    simp only [doCalls, h1, Option.bind_eq_bind, Option.bind_some]
    rw [ih s1 _ s' h2]
    simp

/-! ## side conditions of the calls the translator makes -/

theorem sideNS_mk (s : PySt) (c : Call) (h1 : SideCond s c) (h2 : touchesResidue s c = false)
    (hk : ∀ keys, c ≠ .instantiate keys ∧ c ≠ .instantiatePattern keys) (hl : ∀ t, c ≠ .load t)
    (hm : ∀ id ef sf ps ns hs, c ≠ .metavar id ef sf ps ns hs) : SideNS s c :=
  ⟨h1, h2, (fun keys e => by rcases e with e | e; exact absurd e (hk keys).1; exact absurd e (hk keys).2),
    (fun t e => absurd e (hl t)), (fun id ef sf ps ns hs e => absurd e (hm id ef sf ps ns hs))⟩

theorem sideNS_symbol (s : PySt) (nm : Nat) : SideNS s (.symbol nm) :=
  sideNS_mk s _ trivial (by simp [touchesResidue, Call.arity]) (by simp) (by simp) (by simp)

theorem sideNS_mvclean (s : PySt) (id : Nat) : SideNS s (.metavar id [] [] [] [] []) :=
  ⟨by simp [SideCond], by simp [touchesResidue, Call.arity],
    (fun _ e => by rcases e with e | e <;> cases e),
    (fun _ e => by cases e), (fun _ _ _ _ _ _ e => by cases e; exact ⟨rfl, rfl⟩)⟩

theorem sideNS_prop1 (s : PySt) : SideNS s .prop1 :=
  sideNS_mk s _ trivial (by simp [touchesResidue, Call.arity]) (by simp) (by simp) (by simp)

theorem sideNS_prop2 (s : PySt) : SideNS s .prop2 :=
  sideNS_mk s _ trivial (by simp [touchesResidue, Call.arity]) (by simp) (by simp) (by simp)

theorem sideNS_load (s : PySt) (t : TTerm) (ht : t.body.Shape = true) : SideNS s (.load t) :=
  ⟨trivial, by simp [touchesResidue, Call.arity], (fun _ e => by rcases e with e | e <;> cases e),
    (fun _ e => by cases e; exact ht), (fun _ _ _ _ _ _ e => by cases e)⟩

/-- calls that look at the top entry only -/
theorem sideNS_top1 (s : PySt) (c : Call) (t : TTerm) (st : List (TTerm × Bool))
    (hs : s.stack = (t, false) :: st)
    (hc : c = .save ∨ c = .pop ∨ c = .publishProof ∨ c = .publishAxiom ∨ c = .publishClaim) :
    SideNS s c := by
  rcases hc with rfl | rfl | rfl | rfl | rfl <;>
  exact sideNS_mk s _ trivial (by simp [touchesResidue, Call.arity, hs]) (by simp) (by simp) (by simp)

/-- calls that look at the two top entries -/
theorem sideNS_top2 (s : PySt) (c : Call) (t u : TTerm) (st : List (TTerm × Bool))
    (hs : s.stack = (t, false) :: (u, false) :: st)
    (hc : c = .implies ∨ c = .app ∨ c = .mp) : SideNS s c := by
  rcases hc with rfl | rfl | rfl <;>
  exact sideNS_mk s _ trivial (by simp [touchesResidue, Call.arity, hs]) (by simp) (by simp) (by simp)

theorem sideNS_inst (s : PySt) (c : Call) (keys : List Nat)
    (hc : c = .instantiate keys ∨ c = .instantiatePattern keys) (hnd : keys.Nodup)
    (t : TTerm) (st : List (TTerm × Bool)) (hs : s.stack = (t, false) :: st)
    (hres : (st.take keys.length).any (·.2) = false) (ht : t.body.F0 = true) : SideNS s c := by
  have hsc : ∀ a b st0 plugs st', s.stack = (a, b) :: st0 →
      PySt.takePlugs keys.length st0 = some (plugs, st') →
      (Pat.inst (Py.lookup (NPat.expand.expandMap (keys.zip plugs))) a.body.expand).isSome = true := by
    intro a b st0 plugs st' hs' _
    rw [hs] at hs'
    cases hs'
    exact Pat.inst_simple _ _ (F0.simple _ ht)
  rcases hc with rfl | rfl
  · exact ⟨hsc, by simp [touchesResidue, Call.arity, hs, List.take_succ_cons, hres],
      (fun _ e => by rcases e with e | e <;> cases e; exact hnd),
      (fun _ e => by cases e), (fun _ _ _ _ _ _ e => by cases e)⟩
  · exact ⟨hsc, by simp [touchesResidue, Call.arity, hs, List.take_succ_cons, hres],
      (fun _ e => by rcases e with e | e <;> cases e; exact hnd),
      (fun _ e => by cases e), (fun _ _ _ _ _ _ e => by cases e)⟩

/-! ## `Interpreter.pattern` on notation-free patterns -/

/-- calls made on top of `s0`: trace with fuel `N`, new entries `top`, the rest framed -/
def PostTr (N : Nat) (s0 : PySt) (top : List (TTerm × Bool)) (acc : List Call) (s : PySt)
    (a : List Call) : Prop :=
  ∃ cs, a = acc ++ cs ∧ Tr N s0 cs s ∧ s.stack = top ++ s0.stack ∧ StF0 s ∧ Frame s0 s ∧
    ∀ c ∈ cs, c.quiet = true

theorem PostTr.init (N : Nat) (s : PySt) (acc : List Call) (h : StF0 s) : PostTr N s [] acc s acc :=
  ⟨[], by simp, Tr.nil N s, rfl, h, Frame.refl s, by simp⟩

theorem PostTr.trans {N : Nat} {s0 s1 s2 : PySt} {t1 t2 : List (TTerm × Bool)}
    {acc a1 a2 : List Call} (h1 : PostTr N s0 t1 acc s1 a1) (h2 : PostTr N s1 t2 a1 s2 a2) :
    PostTr N s0 (t2 ++ t1) acc s2 a2 := by
  obtain ⟨c1, rfl, tr1, k1, _, f1, q1⟩ := h1
  obtain ⟨c2, rfl, tr2, k2, sf2, f2, q2⟩ := h2
  refine ⟨c1 ++ c2, by simp, tr1.append tr2, by rw [k2, k1, List.append_assoc], sf2, f1.trans f2, ?_⟩
  intro c hc
  rcases List.mem_append.mp hc with hc | hc
  · exact q1 c hc
  · exact q2 c hc

theorem PostTr.step {N : Nat} {s0 s s' : PySt} {top top' : List (TTerm × Bool)} {acc a : List Call}
    (c : Call) (hp : PostTr N s0 top acc s a) (ht : track1 N s c = some (some s'))
    (hside : SideNS s c) (hstk : s'.stack = top' ++ s0.stack) (hsf : StF0 s')
    (hq : c.quiet = true) : PostTr N s0 top' acc s' (a ++ [c]) := by
  obtain ⟨cs, rfl, tr, _, _, f, q⟩ := hp
  have hns := quiet_noswitch hq
  refine ⟨cs ++ [c], by simp, tr.append (Tr.single ht (Or.inr hside)), hstk, hsf,
    f.trans (track1_frame N s s' c (quiet_nopublishProof hq) hns.1 hns.2 ht), ?_⟩
  intro x hx
  rcases List.mem_append.mp hx with hx | hx
  · exact q x hx
  · simp at hx; subst hx; exact hq

theorem track1_load_eq {n : Nat} {s s' : PySt} {t : TTerm}
    (h : track1 n s (.load t) = some (some s')) : s' = s.push t := by
  simp only [track1, Option.bind_eq_bind, Option.bind_eq_some_iff] at h
  obtain ⟨oi, _, h⟩ := h
  cases oi with
  | none => simp at h
  | some i => simp only [Option.pure_def, Option.some.injEq] at h; exact h.symm

/-- a successful single call made through `doCalls` -/
theorem doCalls_one {n : Nat} {s s' : PySt} {c : Call} {acc a' : List Call}
    (h : doCalls n s [c] acc = some (some (s', a'))) :
    track1 n s c = some (some s') ∧ a' = acc ++ [c] := by
  obtain ⟨x, hx, e⟩ := (doCalls_single n s c acc _).mp h
  cases x with
  | none => simp at e
  | some s1 =>
    simp only [Option.map_some, Option.some.injEq, Prod.mk.injEq] at e
    obtain ⟨rfl, rfl⟩ := e
    exact ⟨hx, rfl⟩

def PatTrOK (cfg : Cfg) (N k : Nat) : Prop :=
  ∀ s p acc s' a', p.B0 = true → StF0 s → patternF cfg k s p acc = some (some (s', a')) →
    PostTr N s [(.pat p, false)] acc s' a'

theorem build_tr (cfg : Cfg) (N k : Nat) (hk : k ≤ N) (ih : PatTrOK cfg N k)
    (s : PySt) (p : NPat) (acc : List Call) (s' : PySt) (a' : List Call)
    (hp : p.B0 = true) (hs : StF0 s) (h : buildF cfg k s p acc = some (some (s', a'))) :
    PostTr N s [(.pat p, false)] acc s' a' := by
  have hP0 := PostTr.init N s acc hs
  have two : ∀ (l r : NPat) (c : Call) (res : NPat), l.B0 = true → r.B0 = true →
      (c = .implies ∨ c = .app) → res.F0 = true →
      (∀ (s2 : PySt) st, s2.stack = (.pat r, false) :: (.pat l, false) :: st →
        ∀ n, track1 n s2 c = some (some { s2 with stack := (.pat res, false) :: st })) →
      c.quiet = true →
      (andThen (patternF cfg k s l acc) fun s1 a1 =>
        andThen (patternF cfg k s1 r a1) fun s2 a2 => doCalls k s2 [c] a2) = some (some (s', a')) →
      PostTr N s [(.pat res, false)] acc s' a' := by
    intro l r c res hl hr hc hres htr hq h
    rcases andThen_eq_some _ _ _ h with ⟨_, e⟩ | ⟨s1, a1, h1, h⟩
    · cases e
    rcases andThen_eq_some _ _ _ h with ⟨_, e⟩ | ⟨s2, a2, h2, h⟩
    · cases e
    have p1 := ih s l acc s1 a1 hl hs h1
    have p2 := ih s1 r a1 s2 a2 hr p1.choose_spec.2.2.2.1 h2
    have p12 := p1.trans p2
    obtain ⟨ht, rfl⟩ := doCalls_one h
    have hstk : s2.stack = (.pat r, false) :: (.pat l, false) :: s.stack := by
      obtain ⟨_, _, _, hk', _⟩ := p12
      simpa using hk'
    have ht' := htr s2 s.stack hstk k
    rw [ht'] at ht
    simp only [Option.some.injEq] at ht
    subst ht
    have hsf2 : StF0 s2 := p12.choose_spec.2.2.2.1
    refine p12.step c (htr s2 s.stack hstk N) ?_ rfl ?_ hq
    · exact sideNS_top2 s2 c _ _ _ hstk (by rcases hc with rfl | rfl <;> simp)
    · exact hsf2.cons _ _ _ hres (fun e he => by rw [hstk]; simp [he])
  cases p with
  | sym x =>
    simp only [buildF] at h
    obtain ⟨ht, rfl⟩ := doCalls_one h
    have ht' : track1 N s (.symbol x) = some (some s') := track1_mono hk _ _ _ ht
    simp only [track1, Option.some.injEq] at ht
    subst ht
    exact hP0.step _ ht' (sideNS_symbol s x) rfl
      ⟨fun e he => by
          rcases List.mem_cons.mp he with rfl | he
          · rfl
          · exact hs.1 e he, hs.2.1, hs.2.2⟩ rfl
  | mv id ef sf ps ns hs' =>
    simp only [B0, Bool.and_eq_true, List.isEmpty_iff] at hp
    obtain ⟨⟨⟨⟨rfl, rfl⟩, rfl⟩, rfl⟩, rfl⟩ := hp
    simp only [buildF] at h
    obtain ⟨ht, rfl⟩ := doCalls_one h
    have ht' : track1 N s (.metavar id [] [] [] [] []) = some (some s') := track1_mono hk _ _ _ ht
    simp only [track1, Option.some.injEq] at ht
    subst ht
    exact hP0.step _ ht' (sideNS_mvclean s id) rfl (hs.push _ (by rfl)) rfl
  | imp l r =>
    simp only [B0, Bool.and_eq_true] at hp
    simp only [buildF] at h
    exact two l r .implies (.imp l r) hp.1 hp.2 (Or.inl rfl)
      (by simp [F0, B0.toF0 l hp.1, B0.toF0 r hp.2])
      (fun s2 st hstk n => by simp [track1, hstk]) rfl h
  | app l r =>
    simp only [B0, Bool.and_eq_true] at hp
    simp only [buildF] at h
    exact two l r .app (.app l r) hp.1 hp.2 (Or.inr rfl)
      (by simp [F0, B0.toF0 l hp.1, B0.toF0 r hp.2])
      (fun s2 st hstk n => by simp [track1, hstk]) rfl h
  | evar _ => simp [B0] at hp
  | svar _ => simp [B0] at hp
  | ex _ _ => simp [B0] at hp
  | mu _ _ => simp [B0] at hp
  | esub _ _ _ => simp [B0] at hp
  | ssub _ _ _ => simp [B0] at hp
  | inst _ _ => simp [B0] at hp

theorem patternF_trOK (cfg : Cfg) (N : Nat) : ∀ k, k ≤ N → PatTrOK cfg N k := by
  intro k
  induction k with
  | zero => intro _ s p acc s' a' _ _ h; simp [patternF] at h
  | succ k ih =>
    intro hk s p acc s' a' hp hs h
    have ihk := ih (by omega)
    rw [patternF_succ] at h
    simp only [Option.bind_eq_some_iff] at h
    obtain ⟨hit, _, h⟩ := h
    cases hit with
    | true =>
      simp only [if_true] at h
      obtain ⟨ht, rfl⟩ := doCalls_one h
      have e := track1_load_eq ht
      subst e
      exact (PostTr.init N s acc hs).step _ (track1_mono (by omega) _ _ _ ht)
        (sideNS_load s _ (F0.shape _ (B0.toF0 p hp))) rfl (hs.push _ (B0.toF0 p hp)) rfl
    | false =>
      simp only [Bool.false_eq_true, if_false] at h
      rcases andThen_eq_some _ _ _ h with ⟨_, e⟩ | ⟨s1, a1, hb, h⟩
      · cases e
      have p1 := build_tr cfg N k (by omega) ihk s p acc s1 a1 hp hs hb
      unfold saveF at h
      split at h
      · split at h
        · obtain ⟨ht, rfl⟩ := doCalls_one h
          have hstk : s1.stack = (.pat p, false) :: s.stack := by
            obtain ⟨_, _, _, hk', _⟩ := p1
            simpa using hk'
          have hsf1 : StF0 s1 := p1.choose_spec.2.2.2.1
          have ht2 : ∀ n, track1 n s1 .save
              = some (some { s1 with memory := s1.memory ++ [.pat p] }) := by
            intro n; simp [track1, hstk]
          rw [ht2 k] at ht
          simp only [Option.some.injEq] at ht
          subst ht
          exact p1.step _ (ht2 N) (sideNS_top1 s1 _ _ _ hstk (Or.inl rfl)) hstk
            (hsf1.addMem _ (B0.toF0 p hp)) rfl
        · simp only [Option.some.injEq, Prod.mk.injEq] at h
          obtain ⟨rfl, rfl⟩ := h
          exact p1
      · simp only [Option.some.injEq, Prod.mk.injEq] at h
        obtain ⟨rfl, rfl⟩ := h
        exact p1

/-- `Interpreter.pattern` (plain or memoising) on a notation-free pattern: it pushes exactly that
pattern; the calls it makes satisfy the side conditions -/
theorem patternF_tr (cfg : Cfg) {N k : Nat} (hk : k ≤ N) {s : PySt} {p : NPat} {acc : List Call}
    {s' : PySt} {a' : List Call} (hp : p.B0 = true) (hs : StF0 s)
    (h : patternF cfg k s p acc = some (some (s', a'))) :
    PostTr N s [(.pat p, false)] acc s' a' := patternF_trOK cfg N k hk s p acc s' a' hp hs h

end MM
namespace MM

/-! ## termination of the tracker on the fragment -/

theorem teqF_term (a b : TTerm) (ha : a.body.F0 = true) (hb : b.body.F0 = true) :
    ∃ n r, teqF n a b = some r := by
  cases a <;> cases b
  · obtain ⟨n, h⟩ := peqF_total _ _ ha hb; exact ⟨n, _, h⟩
  · exact ⟨0, _, rfl⟩
  · exact ⟨0, _, rfl⟩
  · obtain ⟨n, h⟩ := peqF_total _ _ ha hb; exact ⟨n, _, h⟩

theorem teqF_mono {n m : Nat} (h : n ≤ m) (a b : TTerm) : OLe (teqF n a b) (teqF m a b) :=
  OLe.of_step (fun n => teqF n a b) (fun n => teqF_step n a b) h

theorem indexF_mono {n m : Nat} (h : n ≤ m) (t : TTerm) (mem : List TTerm) (i : Nat) :
    OLe (indexF n t mem i) (indexF m t mem i) :=
  OLe.of_step (fun n => indexF n t mem i) (fun n => indexF_step n t mem i) h

theorem inMemoryF_mono {n m : Nat} (h : n ≤ m) (p : NPat) (mem : List TTerm) :
    OLe (inMemoryF n p mem) (inMemoryF m p mem) :=
  OLe.of_step (fun n => inMemoryF n p mem) (fun n => inMemoryF_step n p mem) h

theorem indexF_term (t : TTerm) (ht : t.body.F0 = true) : ∀ (mem : List TTerm),
    (∀ u ∈ mem, u.body.F0 = true) → ∀ i, ∃ n r, indexF n t mem i = some r := by
  intro mem
  induction mem with
  | nil => intro _ i; exact ⟨0, _, rfl⟩
  | cons u r ih =>
    intro hm i
    obtain ⟨n1, b, hb⟩ := teqF_term u t (hm u (by simp)) ht
    obtain ⟨n2, x, hx⟩ := ih (fun v hv => hm v (List.mem_cons_of_mem _ hv)) (i + 1)
    refine ⟨max n1 n2, if b then some i else x, ?_⟩
    simp only [indexF, Option.bind_eq_bind, Option.pure_def]
    rw [teqF_mono (Nat.le_max_left n1 n2) _ _ _ hb]
    cases b
    · simpa using indexF_mono (Nat.le_max_right n1 n2) _ _ _ _ hx
    · simp

theorem inMemoryF_term (p : NPat) (hp : p.F0 = true) : ∀ (mem : List TTerm),
    (∀ u ∈ mem, u.body.F0 = true) → ∃ n r, inMemoryF n p mem = some r := by
  intro mem
  induction mem with
  | nil => intro _; exact ⟨0, _, rfl⟩
  | cons u r ih =>
    intro hm
    obtain ⟨n1, b, hb⟩ := teqF_term u (.pat p) (hm u (by simp)) hp
    obtain ⟨n2, x, hx⟩ := ih (fun v hv => hm v (List.mem_cons_of_mem _ hv))
    refine ⟨max n1 n2, if b then true else x, ?_⟩
    simp only [inMemoryF, Option.bind_eq_bind, Option.pure_def]
    rw [teqF_mono (Nat.le_max_left n1 n2) _ _ _ hb]
    cases b
    · simpa using inMemoryF_mono (Nat.le_max_right n1 n2) _ _ _ hx
    · simp

/-- `load` of a term that is in memory (up to notation) -/
theorem load_total (s : PySt) (t : TTerm) (hs : StF0 s) (ht : t.body.F0 = true)
    (hm : ∃ u ∈ s.memory, convT u = convT t) :
    ∃ n, track1 n s (.load t) = some (some (s.push t)) := by
  obtain ⟨n, r, h⟩ := indexF_term t ht s.memory hs.2.1 0
  cases r with
  | none =>
    obtain ⟨u, hu, e⟩ := hm
    exact absurd e (indexF_none n t (F0.shape _ ht) s.memory (fun v hv => F0.shape _ (hs.2.1 v hv)) 0 h
      u hu)
  | some i => exact ⟨n, tr_load n s t i h⟩

theorem memoHitF_mono (cfg : Cfg) {n m : Nat} (h : n ≤ m) (p : NPat) (s : PySt) :
    OLe (memoHitF cfg n p s) (memoHitF cfg m p s) :=
  OLe.of_step (fun n => memoHitF cfg n p s) (fun n => memoHitF_step cfg n p s) h

theorem memoHitF_term (cfg : Cfg) (p : NPat) (hp : p.F0 = true) (s : PySt) (hs : StF0 s) :
    ∃ n b, memoHitF cfg n p s = some b := by
  unfold memoHitF
  split
  · exact ⟨0, _, rfl⟩
  · exact inMemoryF_term p hp s.memory hs.2.1

/-- a single call returns (possibly raising) once its fuel-dependent part does -/
theorem doCalls_one_term {s : PySt} {c : Call} (acc : List Call)
    (h : ∃ n r, track1 n s c = some r) : ∃ n r, doCalls n s [c] acc = some r := by
  obtain ⟨n, r, h⟩ := h
  exact ⟨n, _, (doCalls_single n s c acc _).mpr ⟨r, h, rfl⟩⟩

theorem patternF_term (cfg : Cfg) : ∀ (p : NPat) (s : PySt) (acc : List Call), p.B0 = true → StF0 s →
    ∃ n s' a', patternF cfg n s p acc = some (some (s', a')) := by
  -- it suffices to return at all: `Interpreter.pattern` does not raise on shaped patterns
  have up : ∀ (p : NPat) (s : PySt) (acc : List Call), p.B0 = true → StF0 s →
      (∃ n r, patternF cfg n s p acc = some r) →
      ∃ n s' a', patternF cfg n s p acc = some (some (s', a')) := by
    intro p s acc hp hs ⟨n, r, h⟩
    obtain ⟨s', a', rfl, _⟩ := (pattern_spec cfg n).1 s p acc r (F0.shape _ (B0.toF0 p hp)) hs.shape h
    exact ⟨n, s', a', h⟩
  have two : ∀ (l r : NPat) (c : Call) (s : PySt) (acc : List Call), l.B0 = true → r.B0 = true →
      StF0 s →
      (∀ (s : PySt) (acc : List Call), StF0 s → ∃ n s' a', patternF cfg n s l acc = some (some (s', a'))) →
      (∀ (s : PySt) (acc : List Call), StF0 s → ∃ n s' a', patternF cfg n s r acc = some (some (s', a'))) →
      (∀ s2 n, ∃ r, track1 n s2 c = some r) →
      ∃ n o, (andThen (patternF cfg n s l acc) fun s1 a1 =>
        andThen (patternF cfg n s1 r a1) fun s2 a2 => doCalls n s2 [c] a2) = some o := by
    intro l r c s acc hl hr hs ihl ihr hc
    obtain ⟨n1, s1, a1, h1⟩ := ihl s acc hs
    have hs1 : StF0 s1 := (patternF_tr cfg (Nat.le_refl n1) hl hs h1).choose_spec.2.2.2.1
    obtain ⟨n2, s2, a2, h2⟩ := ihr s1 a1 hs1
    obtain ⟨x, hx⟩ := hc s2 (max n1 n2)
    refine ⟨max n1 n2, x.map fun s' => (s', a2 ++ [c]), ?_⟩
    rw [patternF_mono cfg (Nat.le_max_left n1 n2) _ _ _ _ h1]
    simp only [andThen, Option.bind_some]
    rw [patternF_mono cfg (Nat.le_max_right n1 n2) _ _ _ _ h2]
    simp only [Option.bind_some]
    exact (doCalls_single _ s2 c a2 _).mpr ⟨x, hx, rfl⟩
  -- the memo check and the final `save` around a build that returns
  have wrap : ∀ (p : NPat) (s : PySt) (acc : List Call), p.B0 = true → StF0 s →
      (∃ n o, buildF cfg n s p acc = some o) → ∃ n r, patternF cfg n s p acc = some r := by
    intro p s acc hp hs ⟨n1, o, hb⟩
    obtain ⟨n2, hit, hh⟩ := memoHitF_term cfg p (B0.toF0 p hp) s hs
    cases hit with
    | true =>
      obtain ⟨n3, r, hl⟩ := indexF_term (.pat p) (B0.toF0 p hp) s.memory hs.2.1 0
      have ht : ∃ x, track1 (max n2 n3) s (.load (.pat p)) = some x := by
        simp only [track1, Option.bind_eq_bind]
        rw [indexF_mono (Nat.le_max_right n2 n3) _ _ _ _ hl]
        cases r <;> exact ⟨_, rfl⟩
      obtain ⟨x, hx⟩ := ht
      refine ⟨max n2 n3 + 1, x.map fun s' => (s', acc ++ [.load (.pat p)]), ?_⟩
      rw [patternF_succ, memoHitF_mono cfg (Nat.le_max_left n2 n3) _ _ _ hh]
      simp only [Option.bind_some, if_true]
      exact (doCalls_single _ s _ acc _).mpr ⟨x, hx, rfl⟩
    | false =>
      cases o with
      | none =>
        refine ⟨max n1 n2 + 1, none, ?_⟩
        rw [patternF_succ, memoHitF_mono cfg (Nat.le_max_right n1 n2) _ _ _ hh]
        simp only [Option.bind_some, Bool.false_eq_true, if_false]
        have hb' : buildF cfg (max n1 n2) s p acc = some none :=
          OLe.of_step (fun n => buildF cfg n s p acc)
            (fun n => buildF_step cfg n (patMono cfg n) s p acc) (Nat.le_max_left n1 n2) _ hb
        simp [andThen, hb']
      | some sa =>
        obtain ⟨s1, a1⟩ := sa
        have hb' : buildF cfg (max n1 n2) s p acc = some (some (s1, a1)) :=
          OLe.of_step (fun n => buildF cfg n s p acc)
            (fun n => buildF_step cfg n (patMono cfg n) s p acc) (Nat.le_max_left n1 n2) _ hb
        have hsave : ∃ r, saveF cfg (max n1 n2) p s1 a1 = some r := by
          unfold saveF
          split
          · split
            · have : ∃ r, track1 (max n1 n2) s1 .save = some r := by
                simp only [track1]; split <;> exact ⟨_, rfl⟩
              obtain ⟨r, hr⟩ := this
              exact ⟨_, (doCalls_single _ s1 _ a1 _).mpr ⟨r, hr, rfl⟩⟩
            · exact ⟨_, rfl⟩
          · exact ⟨_, rfl⟩
        obtain ⟨r, hr⟩ := hsave
        refine ⟨max n1 n2 + 1, r, ?_⟩
        rw [patternF_succ, memoHitF_mono cfg (Nat.le_max_right n1 n2) _ _ _ hh]
        simp only [Option.bind_some, Bool.false_eq_true, if_false]
        simp [andThen, hb', hr]
  have main : ∀ (k : Nat) (p : NPat), hgt p < k → ∀ (s : PySt) (acc : List Call), p.B0 = true →
      StF0 s → ∃ n s' a', patternF cfg n s p acc = some (some (s', a')) := by
    intro k
    induction k with
    | zero => intro p h; omega
    | succ k ih =>
      intro p hk s acc hp hs
      cases p with
      | sym x => exact up _ s acc hp hs (wrap _ s acc hp hs ⟨0, _, rfl⟩)
      | mv id ef sf ps ns hs' => exact up _ s acc hp hs (wrap _ s acc hp hs ⟨0, _, rfl⟩)
      | imp l r =>
        have hp' := hp
        simp only [B0, Bool.and_eq_true] at hp'
        simp only [hgt] at hk
        apply up _ s acc hp hs
        apply wrap _ s acc hp hs
        simp only [buildF]
        exact two l r .implies s acc hp'.1 hp'.2 hs (fun s acc hs => ih l (by omega) s acc hp'.1 hs)
          (fun s acc hs => ih r (by omega) s acc hp'.2 hs)
          (fun s2 n => by simp only [track1]; split <;> exact ⟨_, rfl⟩)
      | app l r =>
        have hp' := hp
        simp only [B0, Bool.and_eq_true] at hp'
        simp only [hgt] at hk
        apply up _ s acc hp hs
        apply wrap _ s acc hp hs
        simp only [buildF]
        exact two l r .app s acc hp'.1 hp'.2 hs (fun s acc hs => ih l (by omega) s acc hp'.1 hs)
          (fun s acc hs => ih r (by omega) s acc hp'.2 hs)
          (fun s2 n => by simp only [track1]; split <;> exact ⟨_, rfl⟩)
      | evar _ => simp [B0] at hp
      | svar _ => simp [B0] at hp
      | ex _ _ => simp [B0] at hp
      | mu _ _ => simp [B0] at hp
      | esub _ _ _ => simp [B0] at hp
      | ssub _ _ _ => simp [B0] at hp
      | inst _ _ => simp [B0] at hp
  intro p s acc hp hs
  exact main (hgt p + 1) p (by omega) s acc hp hs

end MM
#print axioms MM.patternF_tr
#print axioms MM.patternF_term
