import Pi2.MM.ConvQuery
/-!
# The generated `MetamathConverter` (`Pi2/Gen/MMConv.lean`) on the databases of the supported fragment

`Pi2/Gen/MMConv.lean` is regenerated from the text of `converter.py` / `scope.py` / `representation.py` on every run
(`vlib/transconv.py`).  This file ties it to the meaning of the database.

* `InFragmentM mdb fuel target : Bool` — the decidable conditions on the parsed database (`MDb`) under which the run of the converter
  is determined (first sweep: `ok1`; shapes and terms of the `$a` statements and their `$e` hypotheses; labels pairwise different;
  exactly one `$p`, the target, with a proof that `_import_proof` decodes).
* `converter_state`: on such a database `MetamathConverter(parsed)` returns (no exception, no path outside the modelled fragment,
  enough fuel) and its final state is `Final` (`Pi2/MM/ConvInit.lean`): the pattern constructors / proof rules are exactly the
  labels of the `#Pattern` axioms / of the `|-` axioms named `proof-rule-…`, `_axioms` holds in DATABASE ORDER one `Axiom` per `$a`
  statement whose pattern is the structural image `patOf` of its term over `MetaVar(position of the variable's $f statement)`,
  whose antecedents are the images of the `$e |-` hypotheses of its block and whose metavariables are the variables of hypotheses
  and conclusion; `_lemmas` holds the target with the image of its statement and its decoded proof.
* the queries `translate.exec_proof` makes, answered on that state: `q_is_pattern_constructor`, `q_is_proof_rule`, `q_get_axiom`
  (`get_axiom_by_name`, `get_metavars_in_order` = the statement's variables in `$f` order), `q_floating`
  (`_fp_label_to_pattern`, `resolve_metavar`), `q_exported` (`exported_axioms` in database order), `q_lemma` — `Pi2/MM/ConvQuery.lean`.
-/
set_option linter.unusedSimpArgs false
set_option linter.unusedVariables false
open MM SliceSup ConvSup Gen.MMConv

namespace ConvTie

theorem translated : Gen.MMConv.translated = true := by decide

/-! ## the fragment, decidably -/
def termOKb (K fs : List String) (fuel : Nat) (t : MTerm) : Bool :=
  decide (tsize t < fuel) && wfT K t && (termMvs t).all fs.contains

def axItemOKb (K fs : List String) (fuel : Nat) (st : MStmt) : Bool :=
  match axParts st with
  | some (_, eh, _, tcs, t) => axOK [.app tcs [], t] && termOKb K fs fuel t && eh.all fun p => termOKb K fs fuel p.2
  | none => false

/-- the target lemma: the only `$p`, a top-level statement `target $p |- t $= proof` -/
def lemmaOf (mdb : MDb) : Option (String × MTerm × List String) :=
  match mdb.filter isLemItem with
  | [.prov l [.app tc [], t] prf] => if tc = "|-" then some (l, t, prf) else none
  | _ => none

def InFragmentM (mdb : MDb) (fuel : Nat) (target : String) : Bool :=
  let K := ConvSpec.constsOf mdb
  let fs := (floatPairs mdb).map (·.2)
  ok1 K [] [] mdb &&
  decide ((floatPairs mdb).map (·.1)).Nodup &&
  (mdb.filter isAxItem).all (axItemOKb K fs fuel) &&
  decide ((mdb.filter isAxItem).map axLabel).Nodup &&
  ((floatPairs mdb).map (·.1)).all (fun l => !((mdb.filter isAxItem).map axLabel).contains l) &&
  (match lemmaOf mdb with
   | some (l, t, prf) => l == target && termOKb K fs fuel t && (callImportProof fs (.prov l [.app "|-" [], t] prf)).isOk
   | none => false)

mutual
/-- the total size of the terms of a statement (a bound for the fuel the converter needs) -/
def stmtTS : MStmt → Nat
  | .ess _ ts => tsizes ts
  | .ax _ ts => tsizes ts
  | .prov _ ts _ => tsizes ts
  | .block ss => stmtsTS ss
  | _ => 0
def stmtsTS : List MStmt → Nat
  | [] => 0
  | s :: ss => stmtTS s + stmtsTS ss
end
/-- enough fuel for every `while` loop and recursion of the converter on this database -/
def dbFuel (mdb : MDb) : Nat := stmtsTS mdb + 1

theorem termOKb_sound {K fs : List String} {fuel fuel' : Nat} {t : MTerm} (h : termOKb K fs fuel t = true) (hf : fuel ≤ fuel') :
    TermOK K fs fuel' t := by
  simp only [termOKb, Bool.and_eq_true, decide_eq_true_eq, List.all_eq_true, List.contains_eq_mem] at h
  exact ⟨by omega, h.1.2, fun v hv => h.2 v hv⟩

theorem inFragmentM_sound {mdb : MDb} {fuel : Nat} {target : String} (h : InFragmentM mdb fuel target = true) :
    ∃ t prf pf, lemmaOf mdb = some (target, t, prf) ∧ LabelsOK mdb ∧
      callImportProof ((floatPairs mdb).map (·.2)) (.prov target [.app "|-" [], t] prf) = .ok pf ∧
      ∀ fuel', fuel ≤ fuel' → FragM mdb fuel' target t prf := by
  simp only [InFragmentM, Bool.and_eq_true, decide_eq_true_eq, List.all_eq_true] at h
  obtain ⟨⟨⟨⟨⟨h1, h2⟩, h3⟩, h4⟩, h5⟩, h6⟩ := h
  cases hl : lemmaOf mdb with
  | none => simp [hl] at h6
  | some q =>
    obtain ⟨l, t, prf⟩ := q
    simp only [hl, Bool.and_eq_true, beq_iff_eq] at h6
    obtain ⟨⟨rfl, ht⟩, hpf⟩ := h6
    cases hp : callImportProof ((floatPairs mdb).map (·.2)) (.prov l [.app "|-" [], t] prf) with
    | ok pf =>
      refine ⟨t, prf, pf, rfl, ⟨?_⟩, hp, ?_⟩
      · intro x hx hx'
        have := h5 x hx
        simp at this
        obtain ⟨st, hst, hlab⟩ := List.mem_map.mp hx'
        simp only [List.mem_filter] at hst
        exact this st hst.1 hst.2 hlab
      · intro fuel' hf
        have hlem : mdb.filter isLemItem = [.prov l [.app "|-" [], t] prf] := by
          unfold lemmaOf at hl
          split at hl
          · rename_i l' tc t' prf' heq
            split at hl
            · rename_i htc
              subst htc
              simp only [Option.some.injEq, Prod.mk.injEq] at hl
              obtain ⟨rfl, rfl, rfl⟩ := hl
              exact heq
            · cases hl
          · cases hl
        refine ⟨h1, h2, ?_, h4, hlem, termOKb_sound ht hf⟩
        intro st hst
        have := h3 st hst
        unfold axItemOKb at this
        split at this
        · rename_i pl eh l' tcs t' hparts
          simp only [Bool.and_eq_true, List.all_eq_true] at this
          exact ⟨pl, eh, l', tcs, t', hparts, this.1.1, termOKb_sound this.1.2 hf, fun p hp => termOKb_sound (this.2 p hp) hf⟩
        · cases this
    | raise => simp [hp, Res.isOk] at hpf
    | outside => simp [hp, Res.isOk] at hpf
    | nofuel => simp [hp, Res.isOk] at hpf

/-- on a database of the fragment the converter returns, and its final state is the one the database determines -/
theorem converter_state (σ : String → Nat) (mdb : MDb) (fuel0 : Nat) (target : String) (h : InFragmentM mdb fuel0 target = true) :
    ∃ t prf pf, lemmaOf mdb = some (target, t, prf) ∧
      callImportProof ((floatPairs mdb).map (·.2)) (.prov target [.app "|-" [], t] prf) = .ok pf ∧
      ∀ fuel, fuel0 ≤ fuel → ∃ c, MetamathConverter_init σ fuel default mdb = .ok c ∧ Final σ mdb target t pf c := by
  obtain ⟨t, prf, pf, hl, _, hpf, hF⟩ := inFragmentM_sound h
  exact ⟨t, prf, pf, hl, hpf, fun fuel hf => init_ok σ fuel mdb target t prf pf (hF fuel hf) hpf⟩

end ConvTie

#print axioms ConvTie.translated
#print axioms ConvTie.converter_state
#print axioms ConvTie.q_is_pattern_constructor
#print axioms ConvTie.q_is_proof_rule
#print axioms ConvTie.q_get_axiom
#print axioms ConvTie.q_floating
#print axioms ConvTie.q_exported
#print axioms ConvTie.q_lemma
