import Pi2.MM.Ast
/-!
# The printer is a left inverse of the parser (token level)
-/
namespace MM

/-! ## terms -/

theorem scanClose_split : ∀ (ts : List String) (d k0 k : Nat), scanClose d ts k0 = some k →
    ∃ pre post, ts = pre ++ ")" :: post ∧ k = k0 + pre.length
  | [], _, _, _, h => by simp [scanClose] at h
  | t :: ts, d, k0, k, h => by
      simp only [scanClose] at h
      split at h
      · obtain ⟨pre, post, e, hk⟩ := scanClose_split ts _ _ _ h
        exact ⟨t :: pre, post, by simp [e], by simp [hk]; omega⟩
      · split at h
        · split at h
          · injection h with h
            exact ⟨[], ts, by simp [*], by simp [h]⟩
          · obtain ⟨pre, post, e, hk⟩ := scanClose_split ts _ _ _ h
            exact ⟨t :: pre, post, by simp [e], by simp [hk]; omega⟩
        · obtain ⟨pre, post, e, hk⟩ := scanClose_split ts _ _ _ h
          exact ⟨t :: pre, post, by simp [e], by simp [hk]; omega⟩

theorem parseTermsF_ne_nil (mvs : List String) (n : Nat) (t : String) (ts : List String) (terms : List MTerm)
    (h : parseTermsF mvs n (t :: ts) = some terms) : terms ≠ [] := by
  cases n with
  | zero => simp [parseTermsF] at h
  | succ n =>
    simp only [parseTermsF] at h
    split at h
    · split at h
      · cases h
      · split at h
        · cases h
        · split at h
          · cases h
          · simp only [Option.bind_eq_bind, Option.bind_eq_some_iff, Option.pure_def] at h
            obtain ⟨_, _, _, _, h⟩ := h
            injection h with h; subst h; simp
    · split at h <;>
      · simp only [Option.bind_eq_bind, Option.bind_eq_some_iff, Option.pure_def] at h
        obtain ⟨_, _, h⟩ := h
        injection h with h; subst h; simp

theorem printTerms_append (as bs : List MTerm) : printTerms (as ++ bs) = printTerms as ++ printTerms bs := by
  induction as with
  | nil => simp [printTerms]
  | cons a as ih => simp [printTerms, ih]

theorem printTerm_app_ne_nil (s : String) (sub : List MTerm) (h : sub ≠ []) :
    printTerm (.app s sub) = "(" :: s :: (printTerms sub ++ [")"]) := by
  cases sub with
  | nil => exact absurd rfl h
  | cons a as => simp [printTerm]

/-- A1: the printer is a left inverse of the term parser on every token list the parser accepts -/
theorem print_parseTerms (mvs : List String) (n : Nat) (ts : List String) (terms : List MTerm) :
    parseTermsF mvs n ts = some terms → printTerms terms = ts := by
  induction n generalizing ts terms with
  | zero =>
    intro h
    cases ts with
    | nil => simp [parseTermsF] at h; subst h; simp [printTerms]
    | cons t ts => simp [parseTermsF] at h
  | succ n ih =>
    intro h
    cases ts with
    | nil => simp [parseTermsF] at h; subst h; simp [printTerms]
    | cons first rest =>
      simp only [parseTermsF] at h
      split at h
      · next hfirst =>
        split at h
        · cases h
        · next k hk =>
          split at h
          · cases h
          · next hk2 =>
            split at h
            · cases h
            · next head inner =>
              simp only [Option.bind_eq_bind, Option.bind_eq_some_iff, Option.pure_def] at h
              obtain ⟨sub, hsub, more, hmore, h⟩ := h
              injection h with h; subst h
              obtain ⟨pre, post, e, hkl⟩ := scanClose_split _ _ _ _ hk
              simp only [Nat.zero_add] at hkl
              -- `pre` is non-empty since `k ≥ 2`
              cases pre with
              | nil => simp at hkl; omega
              | cons p pre' =>
                simp only [List.cons_append, List.cons.injEq] at e
                obtain ⟨e1, e2⟩ := e
                subst e1
                have hlen : k - 1 = pre'.length := by simp at hkl; omega
                have htake : List.take (k - 1) inner = pre' := by
                  rw [e2, hlen]; simp
                have hdrop : List.drop (k + 1) (head :: inner) = post := by
                  rw [e2, hkl]; simp
                rw [htake] at hsub
                rw [hdrop] at hmore
                have hne : sub ≠ [] := by
                  cases pre' with
                  | nil => simp at hlen hkl; omega
                  | cons q pre'' => exact parseTermsF_ne_nil _ _ _ _ _ hsub
                have h1 := ih _ _ hsub
                have h2 := ih _ _ hmore
                simp only [printTerms, printTerm_app_ne_nil _ _ hne, h1, h2, hfirst, e2]
                simp
      · split at h <;>
        · simp only [Option.bind_eq_bind, Option.bind_eq_some_iff, Option.pure_def] at h
          obtain ⟨more, hmore, h⟩ := h
          injection h with h; subst h
          simp [printTerms, printTerm, ih _ _ hmore]

theorem print_parseTerms' (mvs : List String) (ts : List String) (terms : List MTerm) :
    parseTerms mvs ts = some terms → printTerms terms = ts :=
  print_parseTerms mvs _ ts terms

/-! ## statements -/

theorem takeUntil_split (stop : String) : ∀ (ts a b : List String), takeUntil stop ts = some (a, b) →
    ts = a ++ stop :: b
  | [], _, _, h => by simp [takeUntil] at h
  | t :: ts, a, b, h => by
      simp only [takeUntil] at h
      split at h
      · next ht => injection h with h; injection h with h1 h2; subst h1 h2 ht; rfl
      · split at h
        · cases h
        · simp only [Option.map_eq_some_iff] at h
          obtain ⟨⟨a', b'⟩, h', e⟩ := h
          injection e with e1 e2; subst e1 e2
          simp [takeUntil_split stop ts _ _ h']

theorem printStmts_append (as bs : List MStmt) : printStmts (as ++ bs) = printStmts as ++ printStmts bs := by
  induction as with
  | nil => simp [printStmts]
  | cons a as ih => simp [printStmts, ih]

theorem parseStmtsF_print : ∀ (n : Nat) (inBlock : Bool) (mvs toks : List String) (ss : List MStmt)
    (mvs' rest : List String), parseStmtsF n inBlock mvs toks = some (ss, mvs', rest) →
    toks = printStmts ss ++ (if inBlock then "$}" :: rest else rest) ∧ (inBlock = false → rest = []) := by
  intro n
  induction n with
  | zero => intro _ _ _ _ _ _ h; simp [parseStmtsF] at h
  | succ n ih =>
    intro inBlock mvs toks ss mvs' rest h
    cases toks with
    | nil =>
      simp only [parseStmtsF] at h
      split at h
      · cases h
      · next hb => injection h with h; injection h with h1 h2; injection h2 with h2 h3
                   subst h1 h3; simp [printStmts, hb]
    | cons t ts =>
      simp only [parseStmtsF] at h
      split at h
      · next ht =>
        split at h
        · next hb => injection h with h; injection h with h1 h2; injection h2 with h2 h3
                     subst h1 h3; simp [printStmts, hb, ht]
        · cases h
      · simp only [Option.bind_eq_bind, Option.bind_eq_some_iff, Option.pure_def] at h
        obtain ⟨⟨s, mvs1, rest1⟩, hone, ⟨ss', mvs2, rest2⟩, htail, h⟩ := h
        injection h with h; injection h with h1 h2; injection h2 with h2 h3
        subst h1 h2 h3
        simp only at htail
        obtain ⟨ih1, ih2⟩ := ih _ _ _ _ _ _ htail
        refine ⟨?_, ih2⟩
        -- the single statement: `t :: ts = printStmt s ++ rest1`
        have hs : t :: ts = printStmt s ++ rest1 := by
          clear htail ih1 ih2
          split at hone
          · next ht =>
            simp only [Option.bind_eq_some_iff] at hone
            obtain ⟨⟨cs, r⟩, htu, hone⟩ := hone
            split at hone
            · cases hone
            · injection hone with hone; injection hone with h1 h2; injection h2 with h2 h3
              subst h1 h3
              simp [printStmt, ht, takeUntil_split _ _ _ _ htu]
          · split at hone
            · next ht =>
              simp only [Option.bind_eq_some_iff] at hone
              obtain ⟨⟨cs, r⟩, htu, hone⟩ := hone
              split at hone
              · cases hone
              · injection hone with hone; injection hone with h1 h2; injection h2 with h2 h3
                subst h1 h3
                simp [printStmt, ht, takeUntil_split _ _ _ _ htu]
            · split at hone
              · next ht =>
                simp only [Option.bind_eq_some_iff] at hone
                obtain ⟨⟨cs, r⟩, htu, hone⟩ := hone
                split at hone
                · cases hone
                · split at hone
                  · injection hone with hone; injection hone with h1 h2; injection h2 with h2 h3
                    subst h1 h3
                    simp [printStmt, ht, takeUntil_split _ _ _ _ htu]
                  · cases hone
              · split at hone
                · next ht =>
                  simp only [Option.bind_eq_some_iff] at hone
                  obtain ⟨⟨bs, m, r⟩, hblk, hone⟩ := hone
                  injection hone with hone; injection hone with h1 h2; injection h2 with h2 h3
                  subst h1 h3
                  obtain ⟨ihb, _⟩ := ih _ _ _ _ _ _ hblk
                  simp [printStmt, ht, ihb]
                · split at hone
                  · cases hone
                  · split at hone
                    · -- `$f`
                      split at hone
                      · cases hone
                      · split at hone
                        · injection hone with hone; injection hone with h1 h2; injection h2 with h2 h3
                          subst h1 h3
                          simp [printStmt]
                        · cases hone
                    · -- `$e`
                      simp only [Option.bind_eq_some_iff] at hone
                      obtain ⟨⟨body, r⟩, htu, hone⟩ := hone
                      split at hone
                      · cases hone
                      · simp only [Option.bind_eq_some_iff] at hone
                        obtain ⟨terms, hterms, hone⟩ := hone
                        injection hone with hone; injection hone with h1 h2; injection h2 with h2 h3
                        subst h1 h3
                        simp [printStmt, print_parseTerms' _ _ _ hterms, takeUntil_split _ _ _ _ htu]
                    · -- `$a`
                      simp only [Option.bind_eq_some_iff] at hone
                      obtain ⟨⟨body, r⟩, htu, hone⟩ := hone
                      split at hone
                      · cases hone
                      · simp only [Option.bind_eq_some_iff] at hone
                        obtain ⟨terms, hterms, hone⟩ := hone
                        injection hone with hone; injection hone with h1 h2; injection h2 with h2 h3
                        subst h1 h3
                        simp [printStmt, print_parseTerms' _ _ _ hterms, takeUntil_split _ _ _ _ htu]
                    · -- `$p`
                      simp only [Option.bind_eq_some_iff] at hone
                      obtain ⟨⟨body, r1⟩, htu1, ⟨pf, r⟩, htu2, hone⟩ := hone
                      simp only at htu2
                      split at hone
                      · cases hone
                      · simp only [Option.bind_eq_some_iff] at hone
                        obtain ⟨terms, hterms, hone⟩ := hone
                        injection hone with hone; injection hone with h1 h2; injection h2 with h2 h3
                        subst h1 h3
                        simp [printStmt, print_parseTerms' _ _ _ hterms, takeUntil_split _ _ _ _ htu1,
                          takeUntil_split _ _ _ _ htu2]
                    · cases hone
        rw [hs, ih1]
        simp [printStmts]

/-- A2: the printer is a left inverse of the database parser on every token list the parser accepts -/
theorem print_parse (toks : List String) (db : MDb) : parseDb toks = some db → printDb db = toks := by
  intro h
  simp only [parseDb, Option.map_eq_some_iff] at h
  obtain ⟨⟨ss, mvs', rest⟩, h, e⟩ := h
  simp only at e; subst e
  obtain ⟨h1, h2⟩ := parseStmtsF_print _ _ _ _ _ _ _ h
  have := h2 rfl
  subst this
  simp at h1
  simp [printDb, h1]

/-- A3: parse ∘ print is the identity on the image of the parser -/
theorem parse_print_parse (toks : List String) (db : MDb) :
    parseDb toks = some db → parseDb (printDb db) = some db := by
  intro h
  rw [print_parse toks db h]; exact h

/-! ## A4: non-vacuity -/

/-- a token list with a `$c`, a `$v`, two `$f`, an `$a` with a nested parenthesised term, and a block
containing an `$e`, a `$d` and a `$p` -/
def exToks : List String :=
  ["$c", "(", ")", "->", "wff", "|-", "$.", "$v", "p", "q", "$.",
   "wp", "$f", "wff", "p", "$.", "wq", "$f", "wff", "q", "$.",
   "ax1", "$a", "|-", "(", "->", "p", "(", "->", "q", "p", ")", ")", "$.",
   "${", "h1", "$e", "|-", "p", "$.", "$d", "p", "q", "$.",
   "th1", "$p", "|-", "(", "->", "q", "p", ")", "$=", "(", "ax1", ")", "A", "$.", "$}"]

def exDb : MDb :=
  [.const ["(", ")", "->", "wff", "|-"], .var ["p", "q"],
   .float "wp" "wff" "p", .float "wq" "wff" "q",
   .ax "ax1" [.app "|-" [], .app "->" [.mv "p", .app "->" [.mv "q", .mv "p"]]],
   .block [.ess "h1" [.app "|-" [], .mv "p"], .disj ["p", "q"],
           .prov "th1" [.app "|-" [], .app "->" [.mv "q", .mv "p"]] ["(", "ax1", ")", "A"]]]

set_option maxRecDepth 10000 in
example : parseDb exToks = some exDb := by rfl

example : printDb exDb = exToks := by rfl

set_option maxRecDepth 10000 in
example : parseDb (printDb exDb) = some exDb := by rfl

/-- the parser does reject something (so `print_parse` is not about a parser that accepts everything
vacuously, nor one that rejects everything) -/
example : parseDb ["$c", "$."] = none := by rfl
example : parseDb ["x", "$a", "(", "a", ")", "$."] = none := by rfl   -- `assert i > 2`

end MM

#print axioms MM.print_parseTerms
#print axioms MM.print_parse
#print axioms MM.parse_print_parse
