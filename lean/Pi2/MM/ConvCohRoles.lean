import Pi2.MM.ConvCompose
import Pi2.MM.ConvShape
import Pi2.MM.ImportTie
/-!
# Databases of the shape `CoreShape`: the role of every statement, the label table and the model database of a list of roles

Auxiliary file of `Pi2/MM/ConvCoherence.lean`.  For a statement of a database of the shape (`Pi2/MM/ConvShape.lean`) the
specification (`declOf`, `roleOf` of `Pi2/MM/ConvSpec.lean`) yields a role (`stmt_role`) that is related to the statement as `Rel`
says: an `$a` statement — alone or closing a block — gets the role whose assertion (`roleItem`) is the statement's own content
(`ItemFacts`).  `tableOf` / `dbOfRoles` on a list of roles: keys, entries, one-to-one (`table_…`, `dbOfRoles_some`).
-/
set_option linter.unusedSimpArgs false
set_option linter.unusedVariables false
open MM SliceSup ConvSup Gen.MMConv

namespace ConvCoh
open ConvSpec ConvTie

/-! ## lists -/
theorem mapM_cons_some {α β : Type} (f : α → Option β) (x : α) (xs : List α) (ys : List β) :
    (x :: xs).mapM f = some ys ↔ ∃ y ys', f x = some y ∧ xs.mapM f = some ys' ∧ ys = y :: ys' := by
  rw [List.mapM_cons]
  cases hx : f x with
  | none => simp
  | some y =>
    cases hr : xs.mapM f with
    | none => simp
    | some r => simp [eq_comm]

theorem mapM_some_of_forall {α β : Type} (f : α → Option β) : ∀ (xs : List α), (∀ x ∈ xs, ∃ y, f x = some y) →
    ∃ ys, xs.mapM f = some ys := by
  intro xs
  induction xs with
  | nil => intro _; exact ⟨[], rfl⟩
  | cons x xs ih =>
    intro h
    obtain ⟨y, hy⟩ := h x (by simp)
    obtain ⟨ys, hys⟩ := ih (fun z hz => h z (by simp [hz]))
    exact ⟨y :: ys, (mapM_cons_some f x xs _).mpr ⟨y, ys, hy, hys, rfl⟩⟩

theorem mapM_comp {α β γ : Type} (f : α → Option β) (g : β → Option γ) : ∀ (xs : List α),
    (xs.mapM f).bind (fun ys => ys.mapM g) = xs.mapM (fun x => (f x).bind g) := by
  intro xs
  induction xs with
  | nil => rfl
  | cons x xs ih =>
    rw [List.mapM_cons, List.mapM_cons]
    cases hx : f x with
    | none => simp
    | some y =>
      cases hr : xs.mapM f with
      | none =>
        rw [hr] at ih
        simp only [Option.bind_none] at ih
        cases hg : g y with
        | none => simp [hg]
        | some z => simp [hg, ← ih]
      | some r =>
        rw [hr] at ih
        simp only [Option.bind_some] at ih
        simp only [Option.bind_eq_bind, Option.bind_some, Option.pure_def, List.mapM_cons, ← ih]

/-- two lists related element by element -/
inductive All2 {α β : Type} (R : α → β → Prop) : List α → List β → Prop
  | nil : All2 R [] []
  | cons {a : α} {b : β} {as : List α} {bs : List β} : R a b → All2 R as bs → All2 R (a :: as) (b :: bs)

/-- the relation a successful `mapM` establishes, element by element -/
theorem forall2_of_mapM {α β : Type} (f : α → Option β) : ∀ (xs : List α) (ys : List β), xs.mapM f = some ys →
    All2 (fun x y => f x = some y) xs ys := by
  intro xs
  induction xs with
  | nil => intro ys h; simp at h; subst h; exact .nil
  | cons x xs ih =>
    intro ys h
    obtain ⟨y, ys', hy, hys, rfl⟩ := (mapM_cons_some f x xs ys).mp h
    exact .cons hy (ih ys' hys)

theorem forall2_mem_left {α β : Type} {R : α → β → Prop} {xs : List α} {ys : List β} (h : All2 R xs ys) :
    ∀ x ∈ xs, ∃ y ∈ ys, R x y := by
  induction h with
  | nil => intro x hx; simp at hx
  | cons hxy _ ih =>
    intro x hx
    simp only [List.mem_cons] at hx
    rcases hx with rfl | hx
    · exact ⟨_, by simp, hxy⟩
    · obtain ⟨y, hy, hr⟩ := ih x hx
      exact ⟨y, by simp [hy], hr⟩

theorem forall2_mem_right {α β : Type} {R : α → β → Prop} {xs : List α} {ys : List β} (h : All2 R xs ys) :
    ∀ y ∈ ys, ∃ x ∈ xs, R x y := by
  induction h with
  | nil => intro y hy; simp at hy
  | cons hxy _ ih =>
    intro y hy
    simp only [List.mem_cons] at hy
    rcases hy with rfl | hy
    · exact ⟨_, by simp, hxy⟩
    · obtain ⟨x, hx, hr⟩ := ih y hy
      exact ⟨x, by simp [hx], hr⟩

theorem lookup_of_mem_nodup {β : Type} : ∀ (tbl : List (String × β)) (k : String) (v : β), (k, v) ∈ tbl → (tbl.map (·.1)).Nodup →
    tbl.lookup k = some v := by
  intro tbl
  induction tbl with
  | nil => intro k v h; simp at h
  | cons p tbl ih =>
    intro k v h hnd
    obtain ⟨k0, v0⟩ := p
    simp only [List.map_cons, List.nodup_cons] at hnd
    simp only [List.mem_cons, Prod.mk.injEq] at h
    rcases h with ⟨rfl, rfl⟩ | h
    · simp [List.lookup]
    · have hne : k ≠ k0 := fun e => hnd.1 (e ▸ List.mem_map.mpr ⟨(k, v), h, rfl⟩)
      have : (k == k0) = false := by simp [hne]
      simp only [List.lookup, this]
      exact ih k v h hnd.2

/-- with pairwise different keys, two elements with the same key are the same element -/
theorem nodup_filterMap_inj {α : Type} (f : α → Option String) : ∀ (xs : List α), (xs.filterMap f).Nodup →
    ∀ x ∈ xs, ∀ y ∈ xs, ∀ k, f x = some k → f y = some k → x = y := by
  intro xs
  induction xs with
  | nil => intro _ x hx; simp at hx
  | cons a xs ih =>
    intro hnd x hx y hy k hfx hfy
    simp only [List.mem_cons] at hx hy
    have hin : ∀ z ∈ xs, f z = some k → k ∈ xs.filterMap f := fun z hz hfz => List.mem_filterMap.mpr ⟨z, hz, hfz⟩
    cases hfa : f a with
    | none =>
      rw [List.filterMap_cons_none hfa] at hnd
      rcases hx with rfl | hx
      · rw [hfa] at hfx; cases hfx
      rcases hy with rfl | hy
      · rw [hfa] at hfy; cases hfy
      exact ih hnd x hx y hy k hfx hfy
    | some ka =>
      rw [List.filterMap_cons_some hfa, List.nodup_cons] at hnd
      rcases hx with rfl | hx
      · rcases hy with rfl | hy
        · rfl
        · rw [hfa] at hfx; cases hfx
          exact absurd (hin y hy hfy) hnd.1
      · rcases hy with rfl | hy
        · rw [hfa] at hfy; cases hfy
          exact absurd (hin x hx hfx) hnd.1
        · exact ih hnd.2 x hx y hy k hfx hfy

theorem sublist_filterMap_le {α β : Type} (g f : α → Option β) (h : ∀ x b, g x = some b → f x = some b) : ∀ (xs : List α),
    (xs.filterMap g).Sublist (xs.filterMap f) := by
  intro xs
  induction xs with
  | nil => exact .slnil
  | cons x xs ih =>
    cases hg : g x with
    | none =>
      rw [List.filterMap_cons_none hg]
      cases hf : f x with
      | none => rw [List.filterMap_cons_none hf]; exact ih
      | some b => rw [List.filterMap_cons_some hf]; exact .cons _ ih
    | some b =>
      rw [List.filterMap_cons_some hg, List.filterMap_cons_some (h x b hg)]
      exact List.Sublist.cons_cons _ ih

theorem nodup_map_idxOf (V : List String) : ∀ (xs : List String), xs.Nodup → (∀ x ∈ xs, x ∈ V) → (xs.map V.idxOf).Nodup := by
  intro xs
  induction xs with
  | nil => intro _ _; simp
  | cons x xs ih =>
    intro hnd hV
    simp only [List.nodup_cons] at hnd
    simp only [List.map_cons, List.nodup_cons]
    refine ⟨?_, ih hnd.2 (fun y hy => hV y (by simp [hy]))⟩
    intro hm
    obtain ⟨y, hy, e⟩ := List.mem_map.mp hm
    have := str_idxOf_inj V y x (hV y (by simp [hy])) e
    subst this
    exact hnd.1 hy

/-! ## the statements of a database of the shape -/
theorem floatsOf_eq : ∀ mdb : MDb, floatsOf mdb = floatPairs mdb := by
  intro mdb
  induction mdb with
  | nil => rfl
  | cons st mdb ih => cases st <;> simp [floatsOf, floatPairs, ih]

theorem ax_shape {K fs : List String} {l : String} {ts : List MTerm} (h : stmtShape K fs (.ax l ts) = true) :
    ∃ tc t, ts = [.app tc [], t] ∧ ((tc = "#Pattern" ∧ syntaxShape K fs l t = true) ∨
      (tc = "|-" ∧ termShape K fs t = true ∧ ruleShape l [] t = true)) := by
  unfold stmtShape at h
  split at h
  all_goals try (cases h; done)
  · rename_i heq; cases heq
  · rename_i heq; cases heq
  · rename_i heq; cases heq
  · rename_i l' tc t heq
    cases heq
    refine ⟨tc, t, rfl, ?_⟩
    split at h
    · rename_i htc; exact Or.inl ⟨htc, h⟩
    · simp only [Bool.and_eq_true, beq_iff_eq] at h
      exact Or.inr ⟨h.1.1, h.1.2, h.2⟩
  · rename_i heq; cases heq
  · rename_i heq; cases heq

theorem prov_shape {K fs : List String} {l : String} {ts : List MTerm} {pf : List String}
    (h : stmtShape K fs (.prov l ts pf) = true) : ∃ t, ts = [.app "|-" [], t] ∧ termShape K fs t = true := by
  unfold stmtShape at h
  split at h
  all_goals try (cases h; done)
  · rename_i heq; cases heq
  · rename_i heq; cases heq
  · rename_i heq; cases heq
  · rename_i heq; cases heq
  · rename_i l' tc t pf' heq
    cases heq
    simp only [Bool.and_eq_true, beq_iff_eq] at h
    obtain ⟨rfl, ht⟩ := h
    exact ⟨t, rfl, ht⟩
  · rename_i heq; cases heq

theorem block_shape {K fs : List String} {ss : List MStmt} (h : stmtShape K fs (.block ss) = true) :
    ∃ l t hs, ss.getLast? = some (.ax l [.app "|-" [], t]) ∧ ss.dropLast.mapM essTerm = some hs ∧ termShape K fs t = true ∧
      termsShape K fs hs = true ∧ ruleShape l hs t = true := by
  simp only [stmtShape] at h
  split at h
  · rename_i l tc t hs hlast hm
    simp only [Bool.and_eq_true, beq_iff_eq] at h
    obtain ⟨⟨⟨rfl, ht⟩, hhs⟩, hr⟩ := h
    exact ⟨l, t, hs, hlast, hm, ht, hhs, hr⟩
  · cases h

theorem no_disj {K fs : List String} {vs : List String} (h : stmtShape K fs (.disj vs) = true) : False := by
  simp [stmtShape] at h
theorem no_ess {K fs : List String} {l : String} {ts : List MTerm} (h : stmtShape K fs (.ess l ts) = true) : False := by
  simp [stmtShape] at h

/-! ## terms -/
theorem reserved_eq (s : String) : reserved s = isBuiltin s := by
  simp only [reserved, isBuiltin]
  cases h1 : s == "\\imp" <;> cases h2 : s == "\\app" <;> simp

mutual
theorem termOf_of_shape (nm : Names) (fs : List String) (hfs : ∀ v ∈ fs, v ∈ nm.vars) :
    (t : MTerm) → termShape nm.consts fs t = true → ∃ T, termOf nm t = some T
  | .mv v, h => by
    simp only [termShape, List.contains_eq_mem, decide_eq_true_eq] at h
    have : nm.vars.contains v = true := by simp [hfs v h]
    exact ⟨.var (nm.vars.idxOf v), by simp [termOf, Names.var?, hfs v h]⟩
  | .app s args, h => by
    unfold termShape at h
    unfold termOf
    by_cases h1 : s = "\\imp"
    · subst h1
      simp only [true_or, if_true, Bool.and_eq_true, beq_iff_eq] at h
      obtain ⟨Ts, hTs⟩ := termsOf_of_shape nm fs hfs args h.2
      match args, h.1, Ts, hTs with
      | [a, b], _, Ts, hTs =>
        simp only [termsOf] at hTs
        cases ha : termOf nm a with
        | none => simp [ha] at hTs
        | some A =>
          cases hb : termOf nm b with
          | none => simp [ha, hb] at hTs
          | some B => exact ⟨.imp A B, by simp [ha, hb]⟩
    · by_cases h2 : s = "\\app"
      · subst h2
        simp only [or_true, if_true, Bool.and_eq_true, beq_iff_eq] at h
        obtain ⟨Ts, hTs⟩ := termsOf_of_shape nm fs hfs args h.2
        match args, h.1, Ts, hTs with
        | [a, b], _, Ts, hTs =>
          simp only [termsOf] at hTs
          cases ha : termOf nm a with
          | none => simp [ha] at hTs
          | some A =>
            cases hb : termOf nm b with
            | none => simp [ha, hb] at hTs
            | some B => exact ⟨.app A B, by simp [h1, ha, hb]⟩
      · have hno : ¬ (s = "\\imp" ∨ s = "\\app") := by simp [h1, h2]
        rw [if_neg hno] at h
        simp only [Bool.and_eq_true, Bool.not_eq_true', List.contains_eq_mem, decide_eq_true_eq] at h
        obtain ⟨⟨hres, hK⟩, hargs⟩ := h
        obtain ⟨Ts, hTs⟩ := termsOf_of_shape nm fs hfs args hargs
        have h3 : ¬ (s = "\\exists" ∨ s = "\\mu") := by
          intro h3
          simp only [reserved, Bool.or_eq_false_iff, beq_eq_false_iff_ne, ne_eq] at hres
          rcases h3 with h3 | h3
          · exact hres.1.2 h3
          · exact hres.2 h3
        exact ⟨.con (nm.consts.idxOf s) Ts, by simp [h1, h2, h3, Names.con?, hK, hTs]⟩
theorem termsOf_of_shape (nm : Names) (fs : List String) (hfs : ∀ v ∈ fs, v ∈ nm.vars) :
    (ts : List MTerm) → termsShape nm.consts fs ts = true → ∃ Ts, termsOf nm ts = some Ts
  | [], _ => ⟨[], rfl⟩
  | t :: ts, h => by
    simp only [termsShape, Bool.and_eq_true] at h
    obtain ⟨T, hT⟩ := termOf_of_shape nm fs hfs t h.1
    obtain ⟨Ts, hTs⟩ := termsOf_of_shape nm fs hfs ts h.2
    exact ⟨T :: Ts, by simp [termsOf, hT, hTs]⟩
end

mutual
theorem wfT_of_shape (K fs : List String) (hfs : ∀ v ∈ fs, reserved v = false) :
    (t : MTerm) → termShape K fs t = true → wfT K t = true ∧ ∀ v ∈ termMvs t, v ∈ fs
  | .mv v, h => by
    simp only [termShape, List.contains_eq_mem, decide_eq_true_eq] at h
    refine ⟨by simp [wfT, ← reserved_eq, hfs v h], ?_⟩
    intro w hw
    simp only [termMvs, List.mem_singleton] at hw
    subst hw; exact h
  | .app s args, h => by
    unfold termShape at h
    unfold wfT
    simp only [termMvs]
    by_cases h1 : s = "\\imp" ∨ s = "\\app"
    · rw [if_pos h1] at h
      rw [if_pos h1]
      simp only [Bool.and_eq_true] at h ⊢
      obtain ⟨hw, hv⟩ := wfTs_of_shape K fs hfs args h.2
      exact ⟨⟨h.1, hw⟩, hv⟩
    · rw [if_neg h1] at h
      rw [if_neg h1]
      simp only [Bool.and_eq_true] at h ⊢
      obtain ⟨hw, hv⟩ := wfTs_of_shape K fs hfs args h.2
      rw [← reserved_eq]
      exact ⟨⟨h.1, hw⟩, hv⟩
theorem wfTs_of_shape (K fs : List String) (hfs : ∀ v ∈ fs, reserved v = false) :
    (ts : List MTerm) → termsShape K fs ts = true → wfTs K ts = true ∧ ∀ v ∈ termsMvs ts, v ∈ fs
  | [], _ => ⟨rfl, by simp [termsMvs]⟩
  | t :: ts, h => by
    simp only [termsShape, Bool.and_eq_true] at h
    obtain ⟨h1, v1⟩ := wfT_of_shape K fs hfs t h.1
    obtain ⟨h2, v2⟩ := wfTs_of_shape K fs hfs ts h.2
    refine ⟨by simp [wfTs, h1, h2], ?_⟩
    intro v hv
    simp only [termsMvs, List.mem_append] at hv
    rcases hv with hv | hv
    · exact v1 v hv
    · exact v2 v hv
end

theorem termsShape_append (K fs : List String) : ∀ (a b : List MTerm),
    termsShape K fs (a ++ b) = (termsShape K fs a && termsShape K fs b) := by
  intro a
  induction a with
  | nil => intro b; simp [termsShape]
  | cons x a ih => intro b; simp [termsShape, ih, Bool.and_assoc]

theorem mvNames_spec : ∀ (args : List MTerm) (vs : List String), mvNames args = some vs → args = vs.map .mv := by
  intro args
  induction args with
  | nil => intro vs h; simp [mvNames] at h; subst h; rfl
  | cons a args ih =>
    intro vs h
    cases a with
    | app _ _ => simp [mvNames] at h
    | mv v =>
      simp only [mvNames, Option.map_eq_some_iff] at h
      obtain ⟨vs', hvs', rfl⟩ := h
      simp [ih vs' hvs']

theorem termsOf_mvs (nm : Names) : ∀ (vs : List String), (∀ v ∈ vs, v ∈ nm.vars) →
    termsOf nm (vs.map .mv) = some (vs.map fun v => .var (nm.vars.idxOf v)) := by
  intro vs
  induction vs with
  | nil => intro _; rfl
  | cons v vs ih =>
    intro h
    simp [termsOf, termOf, Names.var?, h v (by simp), ih (fun w hw => h w (by simp [hw]))]

theorem termsShape_mvs (K fs : List String) : ∀ (vs : List String), (∀ v ∈ vs, v ∈ fs) → termsShape K fs (vs.map .mv) = true := by
  intro vs
  induction vs with
  | nil => intro _; rfl
  | cons v vs ih =>
    intro h
    simp [termsShape, termShape, h v (by simp), ih (fun w hw => h w (by simp [hw]))]

theorem asVars_vars : ∀ (ns : List Nat), asVars (ns.map .var) = some ns := by
  intro ns
  induction ns with
  | nil => rfl
  | cons n ns ih => simp [asVars, ih]

/-! ## the role of a statement -/
def roleOfStmt (nm : Names) (st : MStmt) : Option Role := (declOf nm st).bind roleOf

/-- label, `|-`?, hypotheses and conclusion of the assertion a role of the label table stands for -/
def roleItem : Role → Option (String × Bool × List MM.Term × MM.Term)
  | .imp a b => some ("imp-is-pattern", false, [], .imp (.var a) (.var b))
  | .app a b => some ("app-is-pattern", false, [], .app (.var a) (.var b))
  | .ctor l c => some (l, false, [], .con c.sym (c.args.map .var))
  | .p1 a b => some ("proof-rule-prop-1", true, [], .imp (.var a) (.imp (.var b) (.var a)))
  | .p2 a b c => some ("proof-rule-prop-2", true, [],
      .imp (.imp (.var a) (.imp (.var b) (.var c))) (.imp (.imp (.var a) (.var b)) (.imp (.var a) (.var c))))
  | .mp a b => some ("proof-rule-mp", true, [.imp (.var a) (.var b), .var a], .var b)
  | .rule l r => some (l, true, r.hyps, r.concl)
  | _ => none

def roleLabel : Role → Option String
  | .float l _ => some l
  | .tokens => none
  | .lemma _ _ _ => none
  | r => (roleItem r).map (·.1)

/-- what `DB.wf` asks of a role; `F` = the numbers of the variables with a `$f` -/
def roleWF (F : List Nat) : Role → Prop
  | .imp a b => a ≠ b ∧ a ∈ F ∧ b ∈ F
  | .app a b => a ≠ b ∧ a ∈ F ∧ b ∈ F
  | .ctor _ c => c.args.Nodup ∧ (∀ v ∈ c.args, v ∈ F) ∧ c.body = none
  | .p1 a b => a ≠ b ∧ a ∈ F ∧ b ∈ F
  | .p2 a b c => (a ≠ b ∧ a ≠ c ∧ b ≠ c) ∧ a ∈ F ∧ b ∈ F ∧ c ∈ F
  | .mp a b => a ≠ b ∧ a ∈ F ∧ b ∈ F
  | .rule _ r => ∀ v ∈ Term.varsList (r.hyps ++ [r.concl]), v ∈ F
  | _ => True

theorem idx_ne (V : List String) (a b : String) (ha : a ∈ V) (h : a ≠ b) : V.idxOf a ≠ V.idxOf b :=
  fun e => h (str_idxOf_inj V a b ha e)

theorem idx_mem (V fs : List String) (a : String) (ha : a ∈ fs) : V.idxOf a ∈ fs.map V.idxOf :=
  List.mem_map.mpr ⟨a, ha, rfl⟩

theorem termShape_imp (K fs : List String) (x y : MTerm) :
    termShape K fs (.app "\\imp" [x, y]) = true ↔ termShape K fs x = true ∧ termShape K fs y = true := by
  simp [termShape, termsShape]
theorem termShape_mv (K fs : List String) (v : String) : termShape K fs (.mv v) = true ↔ v ∈ fs := by
  simp [termShape]
theorem termOf_imp (nm : Names) (x y : MTerm) :
    termOf nm (.app "\\imp" [x, y]) = (termOf nm x).bind fun X => (termOf nm y).bind fun Y => some (.imp X Y) := by
  simp [termOf]
theorem termOf_mv (nm : Names) (v : String) (h : v ∈ nm.vars) : termOf nm (.mv v) = some (.var (nm.vars.idxOf v)) := by
  simp [termOf, Names.var?, h]

theorem essTerm_essParts : ∀ (es : List MStmt) (hs : List MTerm), es.mapM essTerm = some hs →
    ∃ eh, es.mapM essParts = some eh ∧ eh.map (·.2) = hs := by
  intro es
  induction es with
  | nil => intro hs h; simp at h; subst h; exact ⟨[], rfl, rfl⟩
  | cons e es ih =>
    intro hs h
    obtain ⟨x, hs', hx, hr, rfl⟩ := (mapM_cons_some _ _ _ _).mp h
    obtain ⟨eh, heh, hm⟩ := ih hs' hr
    have : ∃ l, essParts e = some (l, x) := by
      unfold essTerm at hx
      split at hx
      · rename_i l tc h'
        split at hx
        · rename_i htc
          cases hx
          exact ⟨l, by simp [essParts, htc]⟩
        · cases hx
      · cases hx
    obtain ⟨l, hl⟩ := this
    exact ⟨(l, x) :: eh, (mapM_cons_some _ _ _ _).mpr ⟨(l, x), eh, hl, heh, rfl⟩, by simp [hm]⟩

theorem hypOf_mapM (nm : Names) : ∀ (eh : List (String × MTerm)),
    (eh.map mkEss).mapM (hypOf nm) = termsOf nm (eh.map (·.2)) := by
  intro eh
  induction eh with
  | nil => rfl
  | cons p eh ih =>
    rw [List.map_cons, List.mapM_cons, ih]
    simp only [List.map_cons, termsOf, mkEss, hypOf, typed, if_true]

theorem declOf_rule_mk (nm : Names) (pl : Bool) (eh : List (String × MTerm)) (l : String) (t : MTerm) (T : MM.Term) (Hs : List MM.Term)
    (hpl : pl = true → eh = []) (hT : termOf nm t = some T) (hHs : termsOf nm (eh.map (·.2)) = some Hs) :
    declOf nm (mkAxStmt pl eh l "|-" t) = some (.rule l Hs T) := by
  cases pl with
  | true =>
    have := hpl rfl
    subst this
    simp [termsOf] at hHs
    subst hHs
    have hne : ("|-" : String) ≠ "#Pattern" := by decide
    simp [mkAxStmt, declOf, typed, hne, hT]
  | false =>
    simp only [mkAxStmt, Bool.false_eq_true, if_false, declOf, List.getLast?_append, List.getLast?_singleton, Option.some_or,
      typed, if_true, List.dropLast_concat, hypOf_mapM, hHs, hT]
    rfl

theorem roleItem_label (r : Role) (x : String × Bool × List MM.Term × MM.Term) (h : roleItem r = some x) : roleLabel r = some x.1 := by
  cases r <;> simp [roleItem] at h <;> simp [roleLabel, roleItem, ← h]

/-- what the shape of an `$a` statement (alone or closing a block) says about its role -/
structure ItemFacts (nm : Names) (fs : List String) (st : MStmt) (r : Role) : Prop where
  parts : ∃ pl eh l tcs t T Hs, axParts st = some (pl, eh, l, tcs, t) ∧ termOf nm t = some T ∧
    termsOf nm (eh.map (·.2)) = some Hs ∧ roleItem r = some (l, tcs == "|-", Hs, T) ∧ (tcs = "#Pattern" ∨ tcs = "|-") ∧
    axOK [.app tcs [], t] = true ∧ termShape nm.consts fs t = true ∧ termsShape nm.consts fs (eh.map (·.2)) = true ∧
    axHeadOf st = some (l, tcs)
  notpr : ∀ l' rr, r = .rule l' rr → strStartsWith l' "proof-rule-" = false
  ctorl : ∀ l' c, r = .ctor l' c → l' ≠ "imp-is-pattern" ∧ l' ≠ "app-is-pattern"
  wf : roleWF (fs.map nm.vars.idxOf) r

/-- how a statement of a database of the shape and its role are related -/
inductive Rel (nm : Names) (fs : List String) : MStmt → Role → Prop
  | const (cs : List String) : Rel nm fs (.const cs) .tokens
  | var (vs : List String) : Rel nm fs (.var vs) .tokens
  | float (l tc v : String) : v ∈ nm.vars → Rel nm fs (.float l tc v) (.float l (nm.vars.idxOf v))
  | prov (l : String) (t : MTerm) (T : MM.Term) (pf : List String) : termOf nm t = some T → termShape nm.consts fs t = true →
      Rel nm fs (.prov l [.app "|-" [], t] pf) (.lemma l T pf)
  | item (st : MStmt) (r : Role) : ItemFacts nm fs st r → Rel nm fs st r

section
variable (nm : Names) (fs : List String) (hfsV : ∀ v ∈ fs, v ∈ nm.vars) (hres : ∀ v ∈ fs, reserved v = false)
include hfsV hres

omit hfsV in
theorem vars_in_floats (ts : List MTerm) (Ts : List MM.Term) (hsh : termsShape nm.consts fs ts = true)
    (hTs : termsOf nm ts = some Ts) : ∀ v ∈ Term.varsList Ts, v ∈ fs.map nm.vars.idxOf := by
  obtain ⟨hv, _, _, _⟩ := varsList_of_termsOf nm ts Ts hTs
  obtain ⟨_, hm⟩ := wfTs_of_shape nm.consts fs hres ts hsh
  intro v hvm
  rw [hv] at hvm
  obtain ⟨w, hw, rfl⟩ := List.mem_map.mp hvm
  exact idx_mem _ _ _ (hm w hw)

theorem role_of_rule (l : String) (hs : List MTerm) (t : MTerm) (Hs : List MM.Term) (T : MM.Term)
    (hsh : ruleShape l hs t = true) (ht : termShape nm.consts fs t = true) (hhs : termsShape nm.consts fs hs = true)
    (hT : termOf nm t = some T) (hHs : termsOf nm hs = some Hs) :
    ∃ r, roleOf (.rule l Hs T) = some r ∧ roleItem r = some (l, true, Hs, T) ∧ roleWF (fs.map nm.vars.idxOf) r ∧
      (∀ l' rr, r = .rule l' rr → strStartsWith l' "proof-rule-" = false) := by
  unfold ruleShape at hsh
  by_cases h1 : l = "proof-rule-prop-1"
  · rw [if_pos h1] at hsh
    subst h1
    split at hsh
    · rename_i i1 a0 i2 b a
      simp only [Bool.and_eq_true, beq_iff_eq, bne_iff_ne, ne_eq] at hsh
      obtain ⟨⟨⟨rfl, rfl⟩, rfl⟩, hab⟩ := hsh
      simp only [termShape_imp, termShape_mv] at ht
      obtain ⟨haf, hbf, _⟩ := ht
      have ha : a ∈ nm.vars := hfsV _ haf
      have hb : b ∈ nm.vars := hfsV _ hbf
      simp only [termOf_imp, termOf_mv nm _ ha, termOf_mv nm _ hb, Option.bind_some, Option.some.injEq] at hT
      simp only [termsOf, Option.some.injEq] at hHs
      subst hT hHs
      refine ⟨.p1 (nm.vars.idxOf a) (nm.vars.idxOf b), by simp [roleOf], rfl,
        ⟨idx_ne _ _ _ ha hab, idx_mem _ _ _ haf, idx_mem _ _ _ hbf⟩, ?_⟩
      intro l' rr h; cases h
    · cases hsh
  · rw [if_neg h1] at hsh
    by_cases h2 : l = "proof-rule-prop-2"
    · rw [if_pos h2] at hsh
      subst h2
      split at hsh
      · rename_i i1 i2 a0 i3 b0 c0 i4 i5 a1 b i6 a c
        simp only [Bool.and_eq_true, beq_iff_eq, bne_iff_ne, ne_eq] at hsh
        obtain ⟨⟨⟨⟨⟨⟨⟨⟨⟨⟨⟨⟨rfl, rfl⟩, rfl⟩, rfl⟩, rfl⟩, rfl⟩, rfl⟩, rfl⟩, rfl⟩, rfl⟩, hab⟩, hac⟩, hbc⟩ := hsh
        simp only [termShape_imp, termShape_mv] at ht
        obtain ⟨⟨haf, hbf, hcf⟩, _⟩ := ht
        have ha : a ∈ nm.vars := hfsV _ haf
        have hb : b ∈ nm.vars := hfsV _ hbf
        have hc : c ∈ nm.vars := hfsV _ hcf
        simp only [termOf_imp, termOf_mv nm _ ha, termOf_mv nm _ hb, termOf_mv nm _ hc, Option.bind_some, Option.some.injEq] at hT
        simp only [termsOf, Option.some.injEq] at hHs
        subst hT hHs
        refine ⟨.p2 (nm.vars.idxOf a) (nm.vars.idxOf b) (nm.vars.idxOf c), by simp [roleOf], rfl,
          ⟨⟨idx_ne _ _ _ ha hab, idx_ne _ _ _ ha hac, idx_ne _ _ _ hb hbc⟩, idx_mem _ _ _ haf, idx_mem _ _ _ hbf, idx_mem _ _ _ hcf⟩, ?_⟩
        intro l' rr h; cases h
      · cases hsh
    · rw [if_neg h2] at hsh
      by_cases h3 : l = "proof-rule-mp"
      · rw [if_pos h3] at hsh
        subst h3
        split at hsh
        · rename_i i1 a0 b0 a b
          simp only [Bool.and_eq_true, beq_iff_eq, bne_iff_ne, ne_eq] at hsh
          obtain ⟨⟨⟨rfl, rfl⟩, rfl⟩, hab⟩ := hsh
          simp only [termsShape, termShape_imp, termShape_mv, Bool.and_eq_true, Bool.and_true] at ht hhs
          obtain ⟨⟨haf, hbf⟩, _⟩ := hhs
          have ha : a ∈ nm.vars := hfsV _ haf
          have hb : b ∈ nm.vars := hfsV _ hbf
          simp only [termOf_mv nm _ hb, Option.some.injEq] at hT
          simp only [termsOf, termOf_imp, termOf_mv nm _ ha, termOf_mv nm _ hb, Option.bind_some, Option.some.injEq,
            Option.bind_eq_bind, Option.pure_def] at hHs
          subst hT hHs
          refine ⟨.mp (nm.vars.idxOf a) (nm.vars.idxOf b), by simp [roleOf], rfl,
            ⟨idx_ne _ _ _ ha hab, idx_mem _ _ _ haf, idx_mem _ _ _ hbf⟩, ?_⟩
          intro l' rr h; cases h
        · cases hsh
      · rw [if_neg h3] at hsh
        simp only [Bool.not_eq_true'] at hsh
        refine ⟨.rule l ⟨Hs, T⟩, by simp only [roleOf, h1, h2, h3, if_false, hsh, Bool.false_eq_true], rfl, ?_, ?_⟩
        · have hall := termsOf_append nm hs Hs t T hHs hT
          have hsh' : termsShape nm.consts fs (hs ++ [t]) = true := by
            rw [termsShape_append]; simp [termsShape, hhs, ht]
          exact vars_in_floats nm fs hres _ _ hsh' hall
        · intro l' rr h
          cases h
          exact hsh

omit hres in
theorem role_of_syntax (l : String) (t : MTerm) (h : syntaxShape nm.consts fs l t = true) :
    ∃ T r, termOf nm t = some T ∧ roleOf (.syntax l T) = some r ∧ roleItem r = some (l, false, [], T) ∧
      roleWF (fs.map nm.vars.idxOf) r ∧ termShape nm.consts fs t = true ∧ axOK [.app "#Pattern" [], t] = true ∧
      (∀ l' c, r = .ctor l' c → l' ≠ "imp-is-pattern" ∧ l' ≠ "app-is-pattern") := by
  cases t with
  | mv v => simp [syntaxShape] at h
  | app s args =>
    simp only [syntaxShape] at h
    split at h
    · cases h
    · rename_i vs hvs
      have := mvNames_spec args vs hvs
      subst this
      simp only [Bool.and_eq_true, List.all_eq_true, List.contains_eq_mem, decide_eq_true_eq] at h
      obtain ⟨⟨hvfs, hnd⟩, hcase⟩ := h
      have hvV : ∀ v ∈ vs, v ∈ nm.vars := fun v hv => hfsV v (hvfs v hv)
      by_cases h1 : s = "\\imp"
      · subst h1
        simp only [if_true, Bool.and_eq_true, beq_iff_eq] at hcase
        obtain ⟨rfl, hlen⟩ := hcase
        match vs, hlen, hvfs, hnd, hvV with
        | [x, y], _, hvfs, hnd, hvV =>
          have hx := hvV x (by simp)
          have hy := hvV y (by simp)
          have hxy : x ≠ y := by simpa using hnd
          refine ⟨.imp (.var (nm.vars.idxOf x)) (.var (nm.vars.idxOf y)), .imp (nm.vars.idxOf x) (nm.vars.idxOf y), ?_, by simp [roleOf], rfl,
            ⟨idx_ne _ _ _ hx hxy, idx_mem _ _ _ (hvfs x (by simp)), idx_mem _ _ _ (hvfs y (by simp))⟩, ?_, by simp [axOK]; decide, by intro l' c e; cases e⟩
          · simp only [List.map_cons, List.map_nil, termOf_imp, termOf_mv nm _ hx, termOf_mv nm _ hy, Option.bind_some]
          · simp only [List.map_cons, List.map_nil, termShape_imp, termShape_mv]
            exact ⟨hvfs x (by simp), hvfs y (by simp)⟩
      · rw [if_neg h1] at hcase
        by_cases h2 : s = "\\app"
        · subst h2
          simp only [if_true, Bool.and_eq_true, beq_iff_eq] at hcase
          obtain ⟨rfl, hlen⟩ := hcase
          match vs, hlen, hvfs, hnd, hvV with
          | [x, y], _, hvfs, hnd, hvV =>
            have hx := hvV x (by simp)
            have hy := hvV y (by simp)
            have hxy : x ≠ y := by simpa using hnd
            refine ⟨.app (.var (nm.vars.idxOf x)) (.var (nm.vars.idxOf y)), .app (nm.vars.idxOf x) (nm.vars.idxOf y), ?_, by simp [roleOf], rfl,
              ⟨idx_ne _ _ _ hx hxy, idx_mem _ _ _ (hvfs x (by simp)), idx_mem _ _ _ (hvfs y (by simp))⟩, ?_, by simp [axOK]; decide, by intro l' c e; cases e⟩
            · simp [termOf, Names.var?, hx, hy]
            · simp [termShape, termsShape, hvfs x (by simp), hvfs y (by simp)]
        · rw [if_neg h2] at hcase
          simp only [Bool.and_eq_true, Bool.not_eq_true', List.contains_eq_mem, decide_eq_true_eq, bne_iff_ne, ne_eq] at hcase
          obtain ⟨⟨⟨⟨hres', hK⟩, hq⟩, hl1⟩, hl2⟩ := hcase
          have h3 : ¬ (s = "\\exists" ∨ s = "\\mu") := by
            intro h3
            simp only [reserved, Bool.or_eq_false_iff, beq_eq_false_iff_ne, ne_eq] at hres'
            rcases h3 with h3 | h3
            · exact hres'.1.2 h3
            · exact hres'.2 h3
          have hno : ¬ (s = "\\imp" ∨ s = "\\app") := by simp [h1, h2]
          refine ⟨.con (nm.consts.idxOf s) (vs.map fun v => .var (nm.vars.idxOf v)),
            .ctor l { sym := nm.consts.idxOf s, args := vs.map nm.vars.idxOf }, ?_, ?_, ?_, ⟨nodup_map_idxOf _ vs hnd hvV, ?_, rfl⟩, ?_, ?_,
            by intro l' c e; cases e; exact ⟨hl1, hl2⟩⟩
          · unfold termOf
            simp [h1, h2, h3, Names.con?, hK, termsOf_mvs nm vs hvV]
          · have hl : ¬ (l = "imp-is-pattern" ∨ l = "app-is-pattern") := by simp [hl1, hl2]
            have hmm : (vs.map fun v => MM.Term.var (nm.vars.idxOf v)) = (vs.map nm.vars.idxOf).map .var := by
              rw [List.map_map]; rfl
            simp only [roleOf, hl, if_false, hmm, asVars_vars, Option.map_some]
          · simp only [roleItem, List.map_map]
            rfl
          · intro v hv
            obtain ⟨w, hw, rfl⟩ := List.mem_map.mp hv
            exact idx_mem _ _ _ (hvfs w hw)
          · unfold termShape
            rw [if_neg hno]
            simp [hres', hK, termsShape_mvs nm.consts fs vs hvfs]
          · have : reConstantMatch s = false := by
              unfold reConstantMatch
              split
              · rename_i c rest heq
                simp [quoted, heq] at hq
              · rfl
            simp [axOK, this]

theorem item_role (st : MStmt) (h : stmtShape nm.consts fs st = true) (hax : isAxItem st = true) :
    ∃ r, roleOfStmt nm st = some r ∧ ItemFacts nm fs st r := by
  cases st with
  | const _ => cases hax
  | var _ => cases hax
  | disj _ => cases hax
  | float _ _ _ => cases hax
  | ess _ _ => cases hax
  | prov _ _ _ => cases hax
  | ax l ts =>
    obtain ⟨tc, t, rfl, hcase⟩ := ax_shape h
    rcases hcase with ⟨rfl, hsyn⟩ | ⟨rfl, ht, hrule⟩
    · obtain ⟨T, r, hT, hr, hitem, hwf, hts, haxok, hcl⟩ := role_of_syntax nm fs hfsV l t hsyn
      refine ⟨r, by simp [roleOfStmt, declOf, typed, hT, hr], ⟨⟨true, [], l, "#Pattern", t, T, [], rfl, hT, rfl, ?_, Or.inl rfl, haxok,
        hts, rfl, rfl⟩, ?_, hcl, hwf⟩⟩
      · rw [hitem]; rfl
      · intro l' rr e
        subst e
        simp [roleItem] at hitem
    · obtain ⟨T, hT⟩ := termOf_of_shape nm fs hfsV t ht
      obtain ⟨r, hr, hitem, hwf, hnp⟩ := role_of_rule nm fs hfsV hres l [] t [] T hrule ht rfl hT rfl
      have hd := declOf_rule_mk nm true [] l t T [] (fun _ => rfl) hT rfl
      simp only [mkAxStmt, if_true] at hd
      refine ⟨r, by simp [roleOfStmt, hd, hr], ⟨⟨true, [], l, "|-", t, T, [], rfl, hT, rfl, ?_, Or.inr rfl, by simp [axOK],
        ht, rfl, rfl⟩, hnp, by intro l' c e; subst e; simp [roleItem] at hitem, hwf⟩⟩
      rw [hitem]; rfl
  | block ss =>
    obtain ⟨l, t, hs, hlast, hm, ht, hhs, hrule⟩ := block_shape h
    obtain ⟨eh, heh, rfl⟩ := essTerm_essParts _ _ hm
    have hparts : axParts (.block ss) = some (false, eh, l, "|-", t) := by simp [axParts, hlast, heh]
    obtain ⟨hmk, _⟩ := axParts_eq hparts
    obtain ⟨T, hT⟩ := termOf_of_shape nm fs hfsV t ht
    obtain ⟨Hs, hHs⟩ := termsOf_of_shape nm fs hfsV _ hhs
    obtain ⟨r, hr, hitem, hwf, hnp⟩ := role_of_rule nm fs hfsV hres l _ t Hs T hrule ht hhs hT hHs
    have hd := declOf_rule_mk nm false eh l t T Hs (fun e => by cases e) hT hHs
    rw [← hmk] at hd
    refine ⟨r, by simp [roleOfStmt, hd, hr], ⟨⟨false, eh, l, "|-", t, T, Hs, hparts, hT, hHs, ?_, Or.inr rfl, by simp [axOK],
      ht, hhs, by simp [axHeadOf, hlast]⟩, hnp, by intro l' c e; subst e; simp [roleItem] at hitem, hwf⟩⟩
    rw [hitem]; rfl

theorem stmt_role (st : MStmt) (h : stmtShape nm.consts fs st = true)
    (hfl : ∀ l tc v, st = .float l tc v → tc = "#Pattern" ∧ v ∈ nm.vars) :
    ∃ r, roleOfStmt nm st = some r ∧ Rel nm fs st r := by
  cases st with
  | const cs => exact ⟨.tokens, rfl, .const cs⟩
  | var vs => exact ⟨.tokens, rfl, .var vs⟩
  | disj _ => exact (no_disj h).elim
  | ess _ _ => exact (no_ess h).elim
  | float l tc v =>
    obtain ⟨rfl, hv⟩ := hfl l tc v rfl
    exact ⟨.float l (nm.vars.idxOf v), by simp [roleOfStmt, declOf, Names.var?, hv, roleOf], .float l _ v hv⟩
  | prov l ts pf =>
    obtain ⟨t, rfl, ht⟩ := prov_shape h
    obtain ⟨T, hT⟩ := termOf_of_shape nm fs hfsV t ht
    exact ⟨.lemma l T pf, by simp [roleOfStmt, declOf, typed, hT, roleOf], .prov l t T pf hT ht⟩
  | ax l ts =>
    obtain ⟨r, hr, hf⟩ := item_role nm fs hfsV hres _ h rfl
    exact ⟨r, hr, .item _ r hf⟩
  | block ss =>
    obtain ⟨l, t, hs, hlast, _⟩ := block_shape h
    obtain ⟨r, hr, hf⟩ := item_role nm fs hfsV hres _ h (by simp [isAxItem, hlast])
    exact ⟨r, hr, .item _ r hf⟩

end

/-! ## the `$f` statements -/
theorem floatsOf_mem : ∀ (mdb : MDb) (l v : String), (l, v) ∈ floatsOf mdb ↔ ∃ tc, MStmt.float l tc v ∈ mdb := by
  intro mdb
  induction mdb with
  | nil => intro l v; simp [floatsOf]
  | cons st mdb ih =>
    intro l v
    cases st <;> simp [floatsOf, ih]
    rename_i l' tc' v'
    constructor
    · rintro (⟨rfl, rfl⟩ | ⟨tc, h⟩)
      · exact ⟨tc', Or.inl ⟨rfl, rfl, rfl⟩⟩
      · exact ⟨tc, Or.inr h⟩
    · rintro ⟨tc, (⟨rfl, rfl, rfl⟩ | h)⟩
      · exact Or.inl ⟨rfl, rfl⟩
      · exact Or.inr ⟨tc, h⟩

theorem floatsShape_mem (K : List String) : ∀ (mdb : MDb) (vs fs : List String), floatsShape K vs fs mdb = true →
    ∀ l tc v, MStmt.float l tc v ∈ mdb →
      tc = "#Pattern" ∧ l = v ++ "-is-pattern" ∧ v ∈ vs ++ varsOf mdb ∧ v ∉ K ∧ reserved v = false := by
  intro mdb
  induction mdb with
  | nil => intro vs fs _ l tc v h; simp at h
  | cons st mdb ih =>
    intro vs fs hsh l tc v hm
    simp only [List.mem_cons] at hm
    cases st with
    | var ws =>
      simp only [floatsShape] at hsh
      rcases hm with hm | hm
      · cases hm
      · have := ih _ _ hsh l tc v hm
        simpa [varsOf, List.append_assoc] using this
    | float l' tc' v' =>
      simp only [floatsShape, Bool.and_eq_true, beq_iff_eq, Bool.not_eq_true', List.contains_eq_mem, decide_eq_true_eq,
        decide_eq_false_iff_not] at hsh
      obtain ⟨⟨⟨⟨⟨⟨h1, h2⟩, h3⟩, h4⟩, h5⟩, h6⟩, h7⟩ := hsh
      rcases hm with hm | hm
      · cases hm
        exact ⟨h1, h2, by simp [h3], h5, h6⟩
      · have := ih _ _ h7 l tc v hm
        simpa [varsOf] using this
    | const _ =>
      simp only [floatsShape] at hsh
      rcases hm with hm | hm
      · cases hm
      · simpa [varsOf] using ih _ _ hsh l tc v hm
    | disj _ =>
      simp only [floatsShape] at hsh
      rcases hm with hm | hm
      · cases hm
      · simpa [varsOf] using ih _ _ hsh l tc v hm
    | ess _ _ =>
      simp only [floatsShape] at hsh
      rcases hm with hm | hm
      · cases hm
      · simpa [varsOf] using ih _ _ hsh l tc v hm
    | ax _ _ =>
      simp only [floatsShape] at hsh
      rcases hm with hm | hm
      · cases hm
      · simpa [varsOf] using ih _ _ hsh l tc v hm
    | prov _ _ _ =>
      simp only [floatsShape] at hsh
      rcases hm with hm | hm
      · cases hm
      · simpa [varsOf] using ih _ _ hsh l tc v hm
    | block _ =>
      simp only [floatsShape] at hsh
      rcases hm with hm | hm
      · cases hm
      · simpa [varsOf] using ih _ _ hsh l tc v hm

/-! ## the label table and the database of a list of roles -/
def floatVar? : Role → Option Nat | .float _ v => some v | _ => none
def impOf? : Role → Option (Nat × Nat) | .imp a b => some (a, b) | _ => none
def appOf? : Role → Option (Nat × Nat) | .app a b => some (a, b) | _ => none
def p1Of? : Role → Option (Nat × Nat) | .p1 a b => some (a, b) | _ => none
def p2Of? : Role → Option (Nat × Nat × Nat) | .p2 a b c => some (a, b, c) | _ => none
def mpOf? : Role → Option (Nat × Nat) | .mp a b => some (a, b) | _ => none
def ctorOf? : Role → Option Ctor | .ctor _ c => some c | _ => none
def ruleOf? : Role → Option Rule | .rule _ r => some r | _ => none

theorem dbOfRoles_eq (rs : List Role) : dbOfRoles rs = (rs.findSome? impOf?).bind fun imp => (rs.findSome? p1Of?).bind fun p1 =>
      (rs.findSome? p2Of?).bind fun p2 => (rs.findSome? mpOf?).bind fun mp =>
      some { floats := rs.filterMap floatVar?, impArgs := imp, appArgs := (rs.findSome? appOf?).getD imp,
             ctors := rs.filterMap ctorOf?, rules := rs.filterMap ruleOf?, p1 := p1, p2 := p2, mp := mp } := rfl

theorem dbOfRoles_some (rs : List Role) (db : DB) (h : dbOfRoles rs = some db) :
    ∃ imp p1 p2 mp, rs.findSome? impOf? = some imp ∧ rs.findSome? p1Of? = some p1 ∧ rs.findSome? p2Of? = some p2 ∧
      rs.findSome? mpOf? = some mp ∧
      db = { floats := rs.filterMap floatVar?, impArgs := imp, appArgs := (rs.findSome? appOf?).getD imp,
             ctors := rs.filterMap ctorOf?, rules := rs.filterMap ruleOf?, p1 := p1, p2 := p2, mp := mp } := by
  rw [dbOfRoles_eq] at h
  cases h1 : rs.findSome? impOf? with
  | none => simp [h1] at h
  | some imp =>
    cases h2 : rs.findSome? p1Of? with
    | none => simp [h1, h2] at h
    | some p1 =>
      cases h3 : rs.findSome? p2Of? with
      | none => simp [h1, h2, h3] at h
      | some p2 =>
        cases h4 : rs.findSome? mpOf? with
        | none => simp [h1, h2, h3, h4] at h
        | some mp =>
          simp [h1, h2, h3, h4] at h
          exact ⟨imp, p1, p2, mp, rfl, rfl, rfl, rfl, h.symm⟩

theorem table_keys : ∀ (rs : List Role) (i j : Nat), (tableOf rs i j).map (·.1) = rs.filterMap roleLabel := by
  intro rs
  induction rs with
  | nil => intro i j; rfl
  | cons r rs ih => intro i j; cases r <;> simp [tableOf, List.filterMap_cons, roleLabel, roleItem, ih]

/-- the table entry of a role that does not depend on the counters -/
def fixedEntry : Role → Option (String × Lbl)
  | .float l v => some (l, .float v)
  | .imp _ _ => some ("imp-is-pattern", .impC)
  | .app _ _ => some ("app-is-pattern", .appC)
  | .p1 _ _ => some ("proof-rule-prop-1", .p1)
  | .p2 _ _ _ => some ("proof-rule-prop-2", .p2)
  | .mp _ _ => some ("proof-rule-mp", .mp)
  | _ => none

theorem table_mem_fixed : ∀ (rs : List Role) (i j : Nat) (r : Role) (e : String × Lbl), r ∈ rs → fixedEntry r = some e →
    e ∈ tableOf rs i j := by
  intro rs
  induction rs with
  | nil => intro i j r e h; simp at h
  | cons x rs ih =>
    intro i j r e hr he
    simp only [List.mem_cons] at hr
    rcases hr with rfl | hr
    · cases r <;> simp [fixedEntry] at he <;> subst he <;> simp [tableOf]
    · cases x <;> simp only [tableOf, List.mem_cons] <;> first | exact Or.inr (ih _ _ r e hr he) | exact ih _ _ r e hr he

theorem table_mem_ctor : ∀ (rs : List Role) (i j : Nat) (l : String) (c : Ctor), Role.ctor l c ∈ rs →
    ∃ k, (l, Lbl.ctor (i + k)) ∈ tableOf rs i j ∧ (rs.filterMap ctorOf?)[k]? = some c := by
  intro rs
  induction rs with
  | nil => intro i j l c h; simp at h
  | cons x rs ih =>
    intro i j l c hr
    simp only [List.mem_cons] at hr
    rcases hr with rfl | hr
    · exact ⟨0, by simp [tableOf], by simp [ctorOf?]⟩
    · cases x with
      | ctor l' c' =>
        obtain ⟨k, h1, h2⟩ := ih (i + 1) j l c hr
        refine ⟨k + 1, ?_, by simpa [List.filterMap_cons, ctorOf?] using h2⟩
        simp only [tableOf, List.mem_cons]
        right
        have : i + (k + 1) = i + 1 + k := by omega
        rw [this]; exact h1
      | rule l' r' =>
        obtain ⟨k, h1, h2⟩ := ih i (j + 1) l c hr
        exact ⟨k, by simp only [tableOf, List.mem_cons]; exact Or.inr h1, by simpa [List.filterMap_cons, ctorOf?] using h2⟩
      | tokens =>
        obtain ⟨k, h1, h2⟩ := ih i j l c hr
        exact ⟨k, by simpa only [tableOf] using h1, by simpa [List.filterMap_cons, ctorOf?] using h2⟩
      | lemma _ _ _ =>
        obtain ⟨k, h1, h2⟩ := ih i j l c hr
        exact ⟨k, by simpa only [tableOf] using h1, by simpa [List.filterMap_cons, ctorOf?] using h2⟩
      | float _ _ =>
        obtain ⟨k, h1, h2⟩ := ih i j l c hr
        exact ⟨k, by simp only [tableOf, List.mem_cons]; exact Or.inr h1, by simpa [List.filterMap_cons, ctorOf?] using h2⟩
      | imp _ _ =>
        obtain ⟨k, h1, h2⟩ := ih i j l c hr
        exact ⟨k, by simp only [tableOf, List.mem_cons]; exact Or.inr h1, by simpa [List.filterMap_cons, ctorOf?] using h2⟩
      | app _ _ =>
        obtain ⟨k, h1, h2⟩ := ih i j l c hr
        exact ⟨k, by simp only [tableOf, List.mem_cons]; exact Or.inr h1, by simpa [List.filterMap_cons, ctorOf?] using h2⟩
      | p1 _ _ =>
        obtain ⟨k, h1, h2⟩ := ih i j l c hr
        exact ⟨k, by simp only [tableOf, List.mem_cons]; exact Or.inr h1, by simpa [List.filterMap_cons, ctorOf?] using h2⟩
      | p2 _ _ _ =>
        obtain ⟨k, h1, h2⟩ := ih i j l c hr
        exact ⟨k, by simp only [tableOf, List.mem_cons]; exact Or.inr h1, by simpa [List.filterMap_cons, ctorOf?] using h2⟩
      | mp _ _ =>
        obtain ⟨k, h1, h2⟩ := ih i j l c hr
        exact ⟨k, by simp only [tableOf, List.mem_cons]; exact Or.inr h1, by simpa [List.filterMap_cons, ctorOf?] using h2⟩

theorem table_mem_rule : ∀ (rs : List Role) (i j : Nat) (l : String) (c : Rule), Role.rule l c ∈ rs →
    ∃ k, (l, Lbl.rule (j + k)) ∈ tableOf rs i j ∧ (rs.filterMap ruleOf?)[k]? = some c := by
  intro rs
  induction rs with
  | nil => intro i j l c h; simp at h
  | cons x rs ih =>
    intro i j l c hr
    simp only [List.mem_cons] at hr
    rcases hr with rfl | hr
    · exact ⟨0, by simp [tableOf], by simp [ruleOf?]⟩
    · cases x with
      | rule l' c' =>
        obtain ⟨k, h1, h2⟩ := ih i (j + 1) l c hr
        refine ⟨k + 1, ?_, by simpa [List.filterMap_cons, ruleOf?] using h2⟩
        simp only [tableOf, List.mem_cons]
        right
        have : j + (k + 1) = j + 1 + k := by omega
        rw [this]; exact h1
      | ctor l' r' =>
        obtain ⟨k, h1, h2⟩ := ih (i + 1) j l c hr
        exact ⟨k, by simp only [tableOf, List.mem_cons]; exact Or.inr h1, by simpa [List.filterMap_cons, ruleOf?] using h2⟩
      | tokens =>
        obtain ⟨k, h1, h2⟩ := ih i j l c hr
        exact ⟨k, by simpa only [tableOf] using h1, by simpa [List.filterMap_cons, ruleOf?] using h2⟩
      | lemma _ _ _ =>
        obtain ⟨k, h1, h2⟩ := ih i j l c hr
        exact ⟨k, by simpa only [tableOf] using h1, by simpa [List.filterMap_cons, ruleOf?] using h2⟩
      | float _ _ =>
        obtain ⟨k, h1, h2⟩ := ih i j l c hr
        exact ⟨k, by simp only [tableOf, List.mem_cons]; exact Or.inr h1, by simpa [List.filterMap_cons, ruleOf?] using h2⟩
      | imp _ _ =>
        obtain ⟨k, h1, h2⟩ := ih i j l c hr
        exact ⟨k, by simp only [tableOf, List.mem_cons]; exact Or.inr h1, by simpa [List.filterMap_cons, ruleOf?] using h2⟩
      | app _ _ =>
        obtain ⟨k, h1, h2⟩ := ih i j l c hr
        exact ⟨k, by simp only [tableOf, List.mem_cons]; exact Or.inr h1, by simpa [List.filterMap_cons, ruleOf?] using h2⟩
      | p1 _ _ =>
        obtain ⟨k, h1, h2⟩ := ih i j l c hr
        exact ⟨k, by simp only [tableOf, List.mem_cons]; exact Or.inr h1, by simpa [List.filterMap_cons, ruleOf?] using h2⟩
      | p2 _ _ _ =>
        obtain ⟨k, h1, h2⟩ := ih i j l c hr
        exact ⟨k, by simp only [tableOf, List.mem_cons]; exact Or.inr h1, by simpa [List.filterMap_cons, ruleOf?] using h2⟩
      | mp _ _ =>
        obtain ⟨k, h1, h2⟩ := ih i j l c hr
        exact ⟨k, by simp only [tableOf, List.mem_cons]; exact Or.inr h1, by simpa [List.filterMap_cons, ruleOf?] using h2⟩

/-- where the values of the table come from -/
theorem table_val : ∀ (rs : List Role) (i j : Nat) (k : String) (x : Lbl), (k, x) ∈ tableOf rs i j →
    match x with
    | .float v => v ∈ rs.filterMap floatVar?
    | .impC => k = "imp-is-pattern"
    | .appC => k = "app-is-pattern"
    | .p1 => k = "proof-rule-prop-1"
    | .p2 => k = "proof-rule-prop-2"
    | .mp => k = "proof-rule-mp"
    | .ctor n => i ≤ n
    | .rule n => j ≤ n := by
  intro rs
  induction rs with
  | nil => intro i j k x h; simp [tableOf] at h
  | cons r rs ih =>
    intro i j k x h
    cases r with
    | tokens => simp only [tableOf] at h; have := ih i j k x h; cases x <;> simp_all [floatVar?]
    | lemma _ _ _ => simp only [tableOf] at h; have := ih i j k x h; cases x <;> simp_all [floatVar?]
    | float l v =>
      simp only [tableOf, List.mem_cons, Prod.mk.injEq] at h
      rcases h with ⟨rfl, rfl⟩ | h
      · simp [floatVar?]
      · have := ih i j k x h; cases x <;> simp_all [floatVar?]
    | imp _ _ =>
      simp only [tableOf, List.mem_cons, Prod.mk.injEq] at h
      rcases h with ⟨rfl, rfl⟩ | h
      · simp
      · have := ih i j k x h; cases x <;> simp_all [floatVar?]
    | app _ _ =>
      simp only [tableOf, List.mem_cons, Prod.mk.injEq] at h
      rcases h with ⟨rfl, rfl⟩ | h
      · simp
      · have := ih i j k x h; cases x <;> simp_all [floatVar?]
    | p1 _ _ =>
      simp only [tableOf, List.mem_cons, Prod.mk.injEq] at h
      rcases h with ⟨rfl, rfl⟩ | h
      · simp
      · have := ih i j k x h; cases x <;> simp_all [floatVar?]
    | p2 _ _ _ =>
      simp only [tableOf, List.mem_cons, Prod.mk.injEq] at h
      rcases h with ⟨rfl, rfl⟩ | h
      · simp
      · have := ih i j k x h; cases x <;> simp_all [floatVar?]
    | mp _ _ =>
      simp only [tableOf, List.mem_cons, Prod.mk.injEq] at h
      rcases h with ⟨rfl, rfl⟩ | h
      · simp
      · have := ih i j k x h; cases x <;> simp_all [floatVar?]
    | ctor _ _ =>
      simp only [tableOf, List.mem_cons, Prod.mk.injEq] at h
      rcases h with ⟨rfl, rfl⟩ | h
      · simp
      · have := ih (i + 1) j k x h; cases x <;> simp_all [floatVar?] <;> omega
    | rule _ _ =>
      simp only [tableOf, List.mem_cons, Prod.mk.injEq] at h
      rcases h with ⟨rfl, rfl⟩ | h
      · simp
      · have := ih i (j + 1) k x h; cases x <;> simp_all [floatVar?] <;> omega

/-- pairwise different labels and `$f` variables: the table is one-to-one -/
theorem table_vals_nodup : ∀ (rs : List Role) (i j : Nat), (rs.filterMap roleLabel).Nodup → (rs.filterMap floatVar?).Nodup →
    ((tableOf rs i j).map (·.2)).Nodup := by
  intro rs
  induction rs with
  | nil => intro i j _ _; simp [tableOf]
  | cons r rs ih =>
    intro i j hk hf
    have hkeys := fun i j => table_keys rs i j
    have notin : ∀ (i' j' : Nat) (k : String) (x : Lbl), k ∉ rs.filterMap roleLabel →
        (∀ k', (k', x) ∈ tableOf rs i' j' → k' = k) → x ∉ (tableOf rs i' j').map (·.2) := by
      intro i' j' k x hk' hx hm
      obtain ⟨p, hp, rfl⟩ := List.mem_map.mp hm
      have := hx p.1 hp
      apply hk'
      rw [← hkeys i' j', ← this]
      exact List.mem_map.mpr ⟨p, hp, rfl⟩
    cases r with
    | tokens => simpa [tableOf] using ih i j (by simpa [List.filterMap_cons, roleLabel] using hk) (by simpa [List.filterMap_cons, floatVar?] using hf)
    | lemma _ _ _ => simpa [tableOf] using ih i j (by simpa [List.filterMap_cons, roleLabel] using hk) (by simpa [List.filterMap_cons, floatVar?] using hf)
    | float l v =>
      simp only [List.filterMap_cons, roleLabel, floatVar?, List.nodup_cons] at hk hf
      simp only [tableOf, List.map_cons, List.nodup_cons]
      refine ⟨?_, ih i j hk.2 hf.2⟩
      intro hm
      obtain ⟨p, hp, e⟩ := List.mem_map.mp hm
      have := table_val rs i j p.1 p.2 hp
      rw [e] at this
      exact hf.1 this
    | imp _ _ =>
      simp only [List.filterMap_cons, roleLabel, roleItem, floatVar?, Option.map_some, List.nodup_cons] at hk hf
      simp only [tableOf, List.map_cons, List.nodup_cons]
      exact ⟨notin i j _ _ hk.1 (fun k' h => table_val rs i j k' _ h), ih i j hk.2 hf⟩
    | app _ _ =>
      simp only [List.filterMap_cons, roleLabel, roleItem, floatVar?, Option.map_some, List.nodup_cons] at hk hf
      simp only [tableOf, List.map_cons, List.nodup_cons]
      exact ⟨notin i j _ _ hk.1 (fun k' h => table_val rs i j k' _ h), ih i j hk.2 hf⟩
    | p1 _ _ =>
      simp only [List.filterMap_cons, roleLabel, roleItem, floatVar?, Option.map_some, List.nodup_cons] at hk hf
      simp only [tableOf, List.map_cons, List.nodup_cons]
      exact ⟨notin i j _ _ hk.1 (fun k' h => table_val rs i j k' _ h), ih i j hk.2 hf⟩
    | p2 _ _ _ =>
      simp only [List.filterMap_cons, roleLabel, roleItem, floatVar?, Option.map_some, List.nodup_cons] at hk hf
      simp only [tableOf, List.map_cons, List.nodup_cons]
      exact ⟨notin i j _ _ hk.1 (fun k' h => table_val rs i j k' _ h), ih i j hk.2 hf⟩
    | mp _ _ =>
      simp only [List.filterMap_cons, roleLabel, roleItem, floatVar?, Option.map_some, List.nodup_cons] at hk hf
      simp only [tableOf, List.map_cons, List.nodup_cons]
      exact ⟨notin i j _ _ hk.1 (fun k' h => table_val rs i j k' _ h), ih i j hk.2 hf⟩
    | ctor _ _ =>
      simp only [List.filterMap_cons, roleLabel, roleItem, floatVar?, Option.map_some, List.nodup_cons] at hk hf
      simp only [tableOf, List.map_cons, List.nodup_cons]
      refine ⟨?_, ih (i + 1) j hk.2 hf⟩
      intro hm
      obtain ⟨p, hp, e⟩ := List.mem_map.mp hm
      have := table_val rs (i + 1) j p.1 p.2 hp
      rw [e] at this
      simp only at this
      omega
    | rule _ _ =>
      simp only [List.filterMap_cons, roleLabel, roleItem, floatVar?, Option.map_some, List.nodup_cons] at hk hf
      simp only [tableOf, List.map_cons, List.nodup_cons]
      refine ⟨?_, ih i (j + 1) hk.2 hf⟩
      intro hm
      obtain ⟨p, hp, e⟩ := List.mem_map.mp hm
      have := table_val rs i (j + 1) p.1 p.2 hp
      rw [e] at this
      simp only at this
      omega

end ConvCoh
