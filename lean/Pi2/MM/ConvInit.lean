import Pi2.MM.ConvPass2
/-!
# `MetamathConverter.__init__` on a database of the fragment: the final state of the converter
-/
set_option linter.unusedSimpArgs false
set_option linter.unusedVariables false
open MM SliceSup ConvSup Gen.MMConv

namespace ConvTie

/-- the scope `GlobalScope()` creates -/
def scope0 : ScopeObj :=
  { _metavars := vdEmpty PyType.MetaVar, _element_vars := vdEmpty PyType.EVar, _set_vars := vdEmpty PyType.SVar, _notations := [],
    _ambiguous_vars := [], _args := [] }

/-- the converter before `_add_builtin_notations` -/
def blank (mdb : MDb) : ConvObj :=
  { parsed := mdb, _scope := scope0, _declared_constants := [], _declared_variables := [], _symbols := vdEmpty PyType.Symbol,
    _domain_values := [], _axioms := [], _pattern_constructors := [], _proof_rules := [], _ignored_axioms := [], _lemmas := [],
    _ignored_lemmas := [], _missing_declarations := [], _floating_patterns := [], _fp_label_to_pattern := [] }

theorem init_eq (σ : String → Nat) (fuel : Nat) (mdb : MDb) :
    MetamathConverter_init σ fuel default mdb = (_add_builtin_notations σ fuel (blank mdb) >>= fun c => _top_down σ fuel c) := by
  unfold MetamathConverter_init
  have h : GlobalScope_init σ fuel default = .ok scope0 := rfl
  simp only [h, bind_pure, Res.bind_ok, pure_bind, Res.pure_eq]
  rfl

theorem dictSet_last {α : Type} (d : PyDict α) (k : String) (v0 v : α) (h : k ∉ d.map (·.1)) :
    SliceSup.dictSet (d ++ [(k, v0)]) k v = d ++ [(k, v)] := by
  unfold SliceSup.dictSet
  have hany : (d ++ [(k, v0)]).any (·.1 == k) = true := by simp
  simp only [hany, if_true, List.map_append, List.map_cons, List.map_nil, beq_self_eq_true]
  congr 1
  have : d.map (fun (x : String × α) => match x with | (k', v') => if (k' == k) = true then (k', v) else (k', v')) = d.map id := by
    apply List.map_congr_left
    intro p hp
    obtain ⟨k', v'⟩ := p
    have : k' ≠ k := fun e => h (List.mem_map.mpr ⟨(k', v'), hp, e⟩)
    simp [this]
  rw [this, List.map_id]

theorem add_notation_new (σ : String → Nat) (fuel : Nat) (sc : ScopeObj) (n : Notation) (h : n.name ∉ sc._notations.map (·.1)) :
    Scope_add_notation σ fuel sc n = .ok { sc with _notations := sc._notations ++ [(n.name, [n])] } := by
  have h1 : dictHas sc._notations n.name = false := (dictHas_false_iff _ _).mpr h
  have h2 : dictGet (sc._notations ++ [(n.name, ([] : List Notation))]) n.name = .ok [] := by
    apply dictGet_ok
    rw [lookup_append_new _ _ _ _ h]; simp
  simp only [Scope_add_notation, dictSetDefault, h1, Bool.false_eq_true, if_false, h2, bind, Res.bind, pure, List.nil_append,
    dictSet_last _ _ _ _ h]

theorem builtin_ok (σ : String → Nat) (fuel : Nat) (mdb : MDb) :
    ∃ N, _add_builtin_notations σ fuel (blank mdb) = .ok { blank mdb with _scope := { scope0 with _notations := N } } ∧
      GoodNotations N := by
  refine ⟨?N, ?h1, ?h2⟩
  case h1 =>
    simp only [_add_builtin_notations, bind, Res.bind, pure]
    rw [add_notation_new _ _ _ _ (by simp [blank, scope0])]
    simp only []
    rw [add_notation_new _ _ _ _ (by simp [blank, scope0])]
    simp only []
    rw [add_notation_new _ _ _ _ (by simp [blank, scope0])]
    simp only []
    rw [add_notation_new _ _ _ _ (by simp [blank, scope0])]
    rfl
  case h2 =>
    refine ⟨?_, ⟨_, rfl, fun view a b => ⟨rfl, rfl⟩⟩, ⟨_, rfl, fun view a b => ⟨rfl, rfl⟩⟩⟩
    intro s
    simp only [blank, scope0, List.nil_append, List.cons_append, dictHas, List.lookup]
    cases h1 : s == "\\app" <;> cases h2 : s == "\\imp" <;> cases h3 : s == "\\exists" <;> cases h4 : s == "\\mu" <;> simp

end ConvTie

namespace ConvTie

/-! ## what the first sweep leaves: closed forms over the database -/
/-- `(label, variable)` of the top-level `$f` statements, in order -/
def floatPairs : MDb → List (String × String)
  | [] => []
  | .float l _ v :: r => (l, v) :: floatPairs r
  | _ :: r => floatPairs r

/-- is the statement put on the list `axioms` (given that `_check_axiom` says `Provable`)? -/
def isAxItem : MStmt → Bool
  | .ax _ _ => true
  | .block ss => (match ss.getLast? with | some (.ax _ _) => true | _ => false)
  | _ => false
def isLemItem : MStmt → Bool
  | .prov _ _ _ => true
  | .block ss => (match ss.getLast? with | some (.prov _ _ _) => true | _ => false)
  | _ => false

/-- the `$a` statement of an item of `axioms` -/
def axHead : MStmt → Option (String × List MTerm)
  | .ax l ts => some (l, ts)
  | .block ss => (match ss.getLast? with | some (.ax l ts) => some (l, ts) | _ => none)
  | _ => none

def isPcItem (st : MStmt) : Bool :=
  match axHead st with
  | some (_, [.app tc [], _]) => tc == "#Pattern"
  | _ => false
def isPrItem (st : MStmt) : Bool :=
  match axHead st with
  | some (l, [.app tc [], _]) => tc != "#Pattern" && strStartsWith l "proof-rule-"
  | _ => false
def headLabel (st : MStmt) : String := match axHead st with | some (l, _) => l | none => ""

/-- `_fp_label_to_pattern` -/
def fpOf (pairs : List (String × String)) : PyDict (List NPat) := pairs.zipIdx.map fun p => (p.1.1, [mkMetaVar p.2])

theorem fpOf_append (ps : List (String × String)) (l v : String) : fpOf (ps ++ [(l, v)]) = fpOf ps ++ [(l, [mkMetaVar ps.length])] := by
  simp [fpOf, List.zipIdx_append]

theorem fpOf_keys (ps : List (String × String)) : (fpOf ps).map (·.1) = ps.map (·.1) := by
  simp only [fpOf, List.map_map]
  have : ((fun (x : String × List NPat) => x.1) ∘ fun (p : (String × String) × Nat) => (p.1.1, [mkMetaVar p.2])) =
      (fun (q : String × String) => q.1) ∘ Prod.fst := by funext p; rfl
  rw [this, ← List.map_map, List.zipIdx_map_fst]

structure Fin1 (N : PyDict (List Notation)) (consts0 : List String) (done : MDb) (s : S1) : Prop where
  syms : s.1._symbols = vdEmpty PyType.Symbol
  missing : s.1._missing_declarations = []
  axioms : s.1._axioms = []
  lemmas : s.1._lemmas = []
  scope : s.1._scope = { scope0 with _notations := N, _metavars := ⟨mvData ((floatPairs done).map (·.2)), some PyType.MetaVar⟩ }
  floats : s.1._floating_patterns = (floatPairs done).map (·.2)
  fps : s.1._fp_label_to_pattern = fpOf (floatPairs done)
  consts : ∀ x, x ∈ s.1._declared_constants ↔ x ∈ consts0 ∨ x ∈ ConvSpec.constsOf done
  pcs : ∀ l, l ∈ s.1._pattern_constructors ↔ l ∈ ((done.filter isAxItem).filter isPcItem).map headLabel
  prs : ∀ l, l ∈ s.1._proof_rules ↔ l ∈ ((done.filter isAxItem).filter isPrItem).map headLabel
  axs : s.2.2.1 = done.filter isAxItem
  lems : s.2.2.2 = done.filter isLemItem

theorem floatPairs_append (a b : MDb) : floatPairs (a ++ b) = floatPairs a ++ floatPairs b := by
  induction a with
  | nil => rfl
  | cons x a ih => cases x <;> simp [floatPairs, ih]

theorem constsOf_append (a b : MDb) : ConvSpec.constsOf (a ++ b) = ConvSpec.constsOf a ++ ConvSpec.constsOf b := by
  induction a with
  | nil => rfl
  | cons x a ih => cases x <;> simp [ConvSpec.constsOf, ih]

/-- the conditions of the first sweep that are about labels: the labels of the `$f` statements are pairwise different -/
def floatLabelsNodup (mdb : MDb) : Prop := ((floatPairs mdb).map (·.1)).Nodup

theorem axUpd_fields (c : ConvObj) (l : String) (ts : List MTerm) :
    (axUpd c l ts)._symbols = c._symbols ∧ (axUpd c l ts)._missing_declarations = c._missing_declarations ∧
    (axUpd c l ts)._axioms = c._axioms ∧ (axUpd c l ts)._lemmas = c._lemmas ∧ (axUpd c l ts)._scope = c._scope ∧
    (axUpd c l ts)._floating_patterns = c._floating_patterns ∧ (axUpd c l ts)._fp_label_to_pattern = c._fp_label_to_pattern ∧
    (axUpd c l ts)._declared_constants = c._declared_constants := by
  unfold axUpd
  split
  · split
    · simp
    · split <;> simp
  · simp

theorem axUpd_pcs (c : ConvObj) (l : String) (ts : List MTerm) (x : String) :
    x ∈ (axUpd c l ts)._pattern_constructors ↔ x ∈ c._pattern_constructors ∨
      (x = l ∧ match ts with | [.app tc [], _] => tc = "#Pattern" | _ => False) := by
  unfold axUpd
  split
  · rename_i tc t
    split
    · rename_i h; simp [mem_setAdd, h]
    · rename_i h
      split <;> simp [h]
  · rename_i h
    simp only [iff_self_or]
    rintro ⟨_, h'⟩
    exact h'.elim

theorem axUpd_prs (c : ConvObj) (l : String) (ts : List MTerm) (x : String) :
    x ∈ (axUpd c l ts)._proof_rules ↔ x ∈ c._proof_rules ∨
      (x = l ∧ match ts with | [.app tc [], _] => tc ≠ "#Pattern" ∧ strStartsWith l "proof-rule-" = true | _ => False) := by
  unfold axUpd
  split
  · rename_i tc t
    split
    · rename_i h; simp [h]
    · rename_i h
      split
      · rename_i h'; simp [mem_setAdd, h, h']
      · rename_i h'; simp [h, h']
  · rename_i h
    simp only [iff_self_or]
    rintro ⟨_, h'⟩
    exact h'.elim

end ConvTie

namespace ConvTie

theorem filter_append_singleton {α : Type} (p : α → Bool) (l : List α) (a : α) :
    (l ++ [a]).filter p = l.filter p ++ (if p a then [a] else []) := by
  simp [List.filter_append, List.filter_cons]

theorem fin1_step (N : PyDict (List Notation)) (consts0 : List String) (done : MDb) (s : S1) (st : MStmt)
    (h : Fin1 N consts0 done s) (hl : ((floatPairs (done ++ [st])).map (·.1)).Nodup) :
    Fin1 N consts0 (done ++ [st]) (step1 s st) := by
  obtain ⟨c, n, ax, lem⟩ := s
  have hax : ∀ (l : String) (ts : List MTerm) (st' : MStmt), isAxItem st' = true → isLemItem st' = false → axHead st' = some (l, ts) →
      floatPairs [st'] = [] → ConvSpec.constsOf [st'] = [] →
      Fin1 N consts0 (done ++ [st']) (axUpd c l ts, n, ax ++ [st'], lem) := by
    intro l ts st' h1 h2 h3 h4 h5
    obtain ⟨e1, e2, e3, e4, e5, e6, e7, e8⟩ := axUpd_fields c l ts
    refine ⟨by rw [e1]; exact h.syms, by rw [e2]; exact h.missing, by rw [e3]; exact h.axioms, by rw [e4]; exact h.lemmas,
      by rw [e5, floatPairs_append, h4, List.append_nil]; exact h.scope,
      by rw [e6, floatPairs_append, h4, List.append_nil]; exact h.floats,
      by rw [e7, floatPairs_append, h4, List.append_nil]; exact h.fps,
      by intro x; rw [e8, constsOf_append, h5, List.append_nil]; exact h.consts x, ?_, ?_,
      by simp only [filter_append_singleton, h1, if_true]; rw [← h.axs],
      by simp only [filter_append_singleton, h2, Bool.false_eq_true, if_false, List.append_nil]; exact h.lems⟩
    · intro x
      rw [axUpd_pcs, h.pcs x]
      simp only [filter_append_singleton, h1, if_true, isPcItem, h3, List.map_append, List.mem_append]
      apply or_congr Iff.rfl
      match ts with
      | [.app tc [], t] =>
        by_cases htc : tc = "#Pattern"
        · simp [htc, headLabel, h3]
        · simp [htc]
      | [] => simp
      | [.mv _] => simp
      | [.app _ (_ :: _)] => simp
      | [.app _ []] => simp
      | .mv _ :: _ :: _ => simp
      | .app _ (_ :: _) :: _ :: _ => simp
      | .app _ [] :: _ :: _ :: _ => simp
    · intro x
      rw [axUpd_prs, h.prs x]
      simp only [filter_append_singleton, h1, if_true, isPrItem, h3, List.map_append, List.mem_append]
      apply or_congr Iff.rfl
      match ts with
      | [.app tc [], t] =>
        by_cases htc : tc = "#Pattern"
        · simp [htc]
        · cases hp : strStartsWith l "proof-rule-"
          · simp [htc, hp]
          · simp [htc, hp, headLabel, h3]
      | [] => simp
      | [.mv _] => simp
      | [.app _ (_ :: _)] => simp
      | [.app _ []] => simp
      | .mv _ :: _ :: _ => simp
      | .app _ (_ :: _) :: _ :: _ => simp
      | .app _ [] :: _ :: _ :: _ => simp
  have hlem : ∀ (st' : MStmt), isAxItem st' = false → isLemItem st' = true → floatPairs [st'] = [] → ConvSpec.constsOf [st'] = [] →
      Fin1 N consts0 (done ++ [st']) (c, n, ax, lem ++ [st']) := by
    intro st' h1 h2 h4 h5
    refine ⟨h.syms, h.missing, h.axioms, h.lemmas,
      by rw [floatPairs_append, h4, List.append_nil]; exact h.scope,
      by rw [floatPairs_append, h4, List.append_nil]; exact h.floats,
      by rw [floatPairs_append, h4, List.append_nil]; exact h.fps,
      by intro x; rw [constsOf_append, h5, List.append_nil]; exact h.consts x,
      by intro x; simp only [filter_append_singleton, h1, Bool.false_eq_true, if_false, List.append_nil]; exact h.pcs x,
      by intro x; simp only [filter_append_singleton, h1, Bool.false_eq_true, if_false, List.append_nil]; exact h.prs x,
      by simp only [filter_append_singleton, h1, Bool.false_eq_true, if_false, List.append_nil]; exact h.axs,
      by simp only [filter_append_singleton, h2, if_true]; rw [← h.lems]⟩
  have hskip : ∀ (st' : MStmt), isAxItem st' = false → isLemItem st' = false → floatPairs [st'] = [] → ConvSpec.constsOf [st'] = [] →
      Fin1 N consts0 (done ++ [st']) (c, n, ax, lem) := by
    intro st' h1 h2 h4 h5
    refine ⟨h.syms, h.missing, h.axioms, h.lemmas,
      by rw [floatPairs_append, h4, List.append_nil]; exact h.scope,
      by rw [floatPairs_append, h4, List.append_nil]; exact h.floats,
      by rw [floatPairs_append, h4, List.append_nil]; exact h.fps,
      by intro x; rw [constsOf_append, h5, List.append_nil]; exact h.consts x,
      by intro x; simp only [filter_append_singleton, h1, Bool.false_eq_true, if_false, List.append_nil]; exact h.pcs x,
      by intro x; simp only [filter_append_singleton, h1, Bool.false_eq_true, if_false, List.append_nil]; exact h.prs x,
      by simp only [filter_append_singleton, h1, Bool.false_eq_true, if_false, List.append_nil]; exact h.axs,
      by simp only [filter_append_singleton, h2, Bool.false_eq_true, if_false, List.append_nil]; exact h.lems⟩
  cases st with
  | const cs =>
    refine ⟨h.syms, h.missing, h.axioms, h.lemmas, by rw [floatPairs_append]; simpa [floatPairs, step1] using h.scope,
      by rw [floatPairs_append]; simpa [floatPairs, step1] using h.floats, by rw [floatPairs_append]; simpa [floatPairs, step1] using h.fps, ?_,
      by intro x; simpa [filter_append_singleton, isAxItem, step1] using h.pcs x,
      by intro x; simpa [filter_append_singleton, isAxItem, step1] using h.prs x,
      by simpa [filter_append_singleton, isAxItem, step1] using h.axs, by simpa [filter_append_singleton, isLemItem, step1] using h.lems⟩
    intro x
    simp only [step1, mem_setUnion, mem_setOf, constsOf_append, ConvSpec.constsOf, List.append_nil, List.mem_append, h.consts x]
    exact or_assoc
  | var vs => exact hskip _ rfl rfl rfl rfl |> fun r => ⟨r.syms, r.missing, r.axioms, r.lemmas, r.scope, r.floats, r.fps, r.consts, r.pcs, r.prs, r.axs, r.lems⟩
  | disj vs => exact hskip _ rfl rfl rfl rfl
  | ess l ts => exact hskip _ rfl rfl rfl rfl
  | float l tc v =>
    have hfp : floatPairs (done ++ [MStmt.float l tc v]) = floatPairs done ++ [(l, v)] := by rw [floatPairs_append]; rfl
    have hsc := h.scope
    simp only [] at hsc
    have hlen : c._scope._metavars.data.length = (floatPairs done).length := by rw [hsc]; simp [mvData_length]
    refine ⟨h.syms, h.missing, h.axioms, h.lemmas, ?_, ?_, ?_,
      by intro x; rw [constsOf_append]; simpa [ConvSpec.constsOf, step1, floatUpd] using h.consts x,
      by intro x; simpa [filter_append_singleton, isAxItem, step1, floatUpd] using h.pcs x,
      by intro x; simpa [filter_append_singleton, isAxItem, step1, floatUpd] using h.prs x,
      by simpa [filter_append_singleton, isAxItem, step1] using h.axs, by simpa [filter_append_singleton, isLemItem, step1] using h.lems⟩
    · simp only [step1, floatUpd, hfp, List.map_append, List.map_cons, List.map_nil, mvData_append]
      rw [hsc]
      simp [mvData_length]
    · simp only [step1, floatUpd, hfp, List.map_append, List.map_cons, List.map_nil]
      have := h.floats; simp only [] at this; rw [this]
    · simp only [step1, floatUpd, hfp, fpOf_append]
      have hf := h.fps; simp only [] at hf
      rw [hf, hlen, dictSet_new]
      rw [fpOf_keys]
      rw [hfp] at hl
      simp only [List.map_append, List.map_cons, List.map_nil] at hl
      have := (List.nodup_append.mp hl).2.2
      intro hm
      exact this l hm l (by simp) rfl
  | ax l ts => exact hax l ts _ rfl rfl rfl rfl rfl
  | prov l ts pf => exact hlem _ rfl rfl rfl rfl
  | block ss =>
    cases hlast : ss.getLast? with
    | none =>
      have : step1 (c, n, ax, lem) (MStmt.block ss) = (c, n, ax, lem) := by simp [step1, hlast]
      rw [this]; exact hskip _ (by simp [isAxItem, hlast]) (by simp [isLemItem, hlast]) rfl rfl
    | some last =>
      cases last with
      | ax l ts =>
        have : step1 (c, n, ax, lem) (MStmt.block ss) = (axUpd c l ts, n, ax ++ [MStmt.block ss], lem) := by simp [step1, hlast]
        rw [this]; exact hax l ts _ (by simp [isAxItem, hlast]) (by simp [isLemItem, hlast]) (by simp [axHead, hlast]) rfl rfl
      | prov l ts pf =>
        have : step1 (c, n, ax, lem) (MStmt.block ss) = (c, n, ax, lem ++ [MStmt.block ss]) := by simp [step1, hlast]
        rw [this]; exact hlem _ (by simp [isAxItem, hlast]) (by simp [isLemItem, hlast]) rfl rfl
      | const _ =>
        have : step1 (c, n, ax, lem) (MStmt.block ss) = (c, n, ax, lem) := by simp [step1, hlast]
        rw [this]; exact hskip _ (by simp [isAxItem, hlast]) (by simp [isLemItem, hlast]) rfl rfl
      | var _ =>
        have : step1 (c, n, ax, lem) (MStmt.block ss) = (c, n, ax, lem) := by simp [step1, hlast]
        rw [this]; exact hskip _ (by simp [isAxItem, hlast]) (by simp [isLemItem, hlast]) rfl rfl
      | disj _ =>
        have : step1 (c, n, ax, lem) (MStmt.block ss) = (c, n, ax, lem) := by simp [step1, hlast]
        rw [this]; exact hskip _ (by simp [isAxItem, hlast]) (by simp [isLemItem, hlast]) rfl rfl
      | float _ _ _ =>
        have : step1 (c, n, ax, lem) (MStmt.block ss) = (c, n, ax, lem) := by simp [step1, hlast]
        rw [this]; exact hskip _ (by simp [isAxItem, hlast]) (by simp [isLemItem, hlast]) rfl rfl
      | ess _ _ =>
        have : step1 (c, n, ax, lem) (MStmt.block ss) = (c, n, ax, lem) := by simp [step1, hlast]
        rw [this]; exact hskip _ (by simp [isAxItem, hlast]) (by simp [isLemItem, hlast]) rfl rfl
      | block _ =>
        have : step1 (c, n, ax, lem) (MStmt.block ss) = (c, n, ax, lem) := by simp [step1, hlast]
        rw [this]; exact hskip _ (by simp [isAxItem, hlast]) (by simp [isLemItem, hlast]) rfl rfl

theorem fin1_fold (N : PyDict (List Notation)) (consts0 : List String) : ∀ (rest done : MDb) (s : S1), Fin1 N consts0 done s →
    ((floatPairs (done ++ rest)).map (·.1)).Nodup → Fin1 N consts0 (done ++ rest) (rest.foldl step1 s) := by
  intro rest
  induction rest with
  | nil => intro done s h _; simpa using h
  | cons st rest ih =>
    intro done s h hl
    have h1 : ((floatPairs (done ++ [st])).map (·.1)).Nodup := by
      have : done ++ st :: rest = (done ++ [st]) ++ rest := by simp
      rw [this, floatPairs_append, List.map_append] at hl
      exact (List.nodup_append.mp hl).1
    have := ih (done ++ [st]) (step1 s st) (fin1_step N consts0 done s st h h1) (by simpa using hl)
    simpa using this

end ConvTie

namespace ConvTie

theorem wfT_congr (K K' : List String) (h : ∀ x, x ∈ K ↔ x ∈ K') : ∀ (n : Nat) (t : MTerm), tsize t ≤ n → wfT K t = wfT K' t := by
  intro n
  induction n with
  | zero => intro t ht; have := tsize_pos t; omega
  | succ n ih =>
    have hl : ∀ ts : List MTerm, tsizes ts ≤ n → wfTs K ts = wfTs K' ts := by
      intro ts
      induction ts with
      | nil => intro _; rfl
      | cons t ts iht =>
        intro hsz
        simp only [tsizes] at hsz
        have := tsize_pos t
        simp only [wfTs, ih t (by omega), iht (by omega)]
    intro t hsz
    cases t with
    | mv v => rfl
    | app s args =>
      simp only [tsize] at hsz
      have hc : K.contains s = K'.contains s := by
        have := h s
        by_cases hs : s ∈ K
        · simp [hs, this.mp hs]
        · have hs' : s ∉ K' := fun h' => hs (this.mpr h')
          simp [hs, hs']
      simp only [wfT, hl args (by omega), hc]

theorem termOK_congr (K K' fs : List String) (fuel : Nat) (t : MTerm) (h : ∀ x, x ∈ K ↔ x ∈ K') (ht : TermOK K fs fuel t) :
    TermOK K' fs fuel t := ⟨ht.fuel, by rw [← wfT_congr K K' h (tsize t) t (Nat.le_refl _)]; exact ht.wf, ht.vars⟩

theorem axParts_head {st : MStmt} {pl : Bool} {eh : List (String × MTerm)} {l tcs : String} {t : MTerm}
    (h : axParts st = some (pl, eh, l, tcs, t)) : axHead st = some (l, [.app tcs [], t]) ∧ isAxItem st = true := by
  obtain ⟨rfl, _⟩ := axParts_eq h
  cases pl
  · simp [mkAxStmt, axHead, isAxItem]
  · simp [mkAxStmt, axHead, isAxItem]

/-- the conditions of the fragment at the level of the parsed database (everything the converter's run depends on) -/
structure FragM (mdb : MDb) (fuel : Nat) (target : String) (t : MTerm) (prf : List String) : Prop where
  ok1 : ok1 (ConvSpec.constsOf mdb) [] [] mdb = true
  floatLabels : floatLabelsNodup mdb
  axioms : ∀ st ∈ mdb.filter isAxItem, ∃ pl eh l tcs t, axParts st = some (pl, eh, l, tcs, t) ∧ axOK [.app tcs [], t] = true ∧
    TermOK (ConvSpec.constsOf mdb) ((floatPairs mdb).map (·.2)) fuel t ∧
    (∀ p ∈ eh, TermOK (ConvSpec.constsOf mdb) ((floatPairs mdb).map (·.2)) fuel p.2)
  axLabels : ((mdb.filter isAxItem).map axLabel).Nodup
  lemma : mdb.filter isLemItem = [.prov target [.app "|-" [], t] prf]
  goal : TermOK (ConvSpec.constsOf mdb) ((floatPairs mdb).map (·.2)) fuel t

/-- the state of the converter after `__init__` -/
structure Final (σ : String → Nat) (mdb : MDb) (target : String) (t : MTerm) (pf : Gen.ImportProof.Proof) (c : ConvObj) : Prop where
  pcs : ∀ l, l ∈ c._pattern_constructors ↔ l ∈ ((mdb.filter isAxItem).filter isPcItem).map headLabel
  prs : ∀ l, l ∈ c._proof_rules ↔ l ∈ ((mdb.filter isAxItem).filter isPrItem).map headLabel
  floats : c._floating_patterns = (floatPairs mdb).map (·.2)
  fps : c._fp_label_to_pattern = fpOf (floatPairs mdb)
  scope : GoodScope c._scope ((floatPairs mdb).map (·.2))
  axioms : AxList σ ((floatPairs mdb).map (·.2)) c._axioms (mdb.filter isAxItem)
  lemmas : ∃ a, c._lemmas = [(target, [a])] ∧ AxiomOf σ ((floatPairs mdb).map (·.2)) target t a ∧ a.proof? = some pf

theorem ok1_floats_nodup (consts : List String) : ∀ (mdb : MDb) (vs fs : List String), ok1 consts vs fs mdb = true → fs.Nodup →
    (fs ++ (floatPairs mdb).map (·.2)).Nodup ∧ ∀ x ∈ (floatPairs mdb).map (·.2), x ∉ consts := by
  intro mdb
  induction mdb with
  | nil => intro vs fs _ h; simpa [floatPairs] using h
  | cons st mdb ih =>
    intro vs fs hok hnd
    cases st with
    | const cs => simp only [ok1, Bool.and_eq_true] at hok; simpa [floatPairs] using ih vs fs hok.2 hnd
    | var ws => simp only [ok1] at hok; simpa [floatPairs] using ih _ fs hok hnd
    | disj _ => simp [ok1] at hok
    | ess _ _ => simp [ok1] at hok
    | ax _ _ => simp only [ok1, Bool.and_eq_true] at hok; simpa [floatPairs] using ih vs fs hok.2 hnd
    | prov _ _ _ => simp only [ok1] at hok; simpa [floatPairs] using ih vs fs hok hnd
    | block _ => simp only [ok1, Bool.and_eq_true] at hok; simpa [floatPairs] using ih vs fs hok.2 hnd
    | float l tc v =>
      simp only [ok1, Bool.and_eq_true, beq_iff_eq, Bool.not_eq_true', List.contains_eq_mem, decide_eq_true_eq,
        decide_eq_false_iff_not] at hok
      obtain ⟨⟨⟨⟨_, _⟩, hf⟩, hc⟩, hrest⟩ := hok
      have hnd' : (fs ++ [v]).Nodup :=
        List.nodup_append.mpr ⟨hnd, by simp, by intro a ha b hb; simp at hb; subst hb; intro e; subst e; exact hf ha⟩
      obtain ⟨h1, h2⟩ := ih vs (fs ++ [v]) hrest hnd'
      refine ⟨by simpa [floatPairs] using h1, ?_⟩
      intro x hx
      simp only [floatPairs, List.map_cons, List.mem_cons] at hx
      rcases hx with rfl | hx
      · exact hc
      · exact h2 x hx

theorem init_ok (σ : String → Nat) (fuel : Nat) (mdb : MDb) (target : String) (t : MTerm) (prf : List String)
    (pf : Gen.ImportProof.Proof) (hF : FragM mdb fuel target t prf)
    (hpf : callImportProof ((floatPairs mdb).map (·.2)) (.prov target [.app "|-" [], t] prf) = .ok pf) :
    ∃ c, MetamathConverter_init σ fuel default mdb = .ok c ∧ Final σ mdb target t pf c := by
  obtain ⟨N, hN, hGN⟩ := builtin_ok σ fuel mdb
  let c0 : ConvObj := { blank mdb with _scope := { scope0 with _notations := N } }
  have hinv0 : Inv1 (ConvSpec.constsOf mdb) [] [] c0 :=
    ⟨by intro x hx; simp at hx, rfl, rfl, rfl, by intro x hx; simp [c0, blank] at hx⟩
  have hfin0 : Fin1 N [] [] (c0, [], [], []) :=
    ⟨rfl, rfl, rfl, rfl, rfl, rfl, rfl, by intro x; simp [c0, blank, ConvSpec.constsOf], by intro l; simp [c0, blank],
      by intro l; simp [c0, blank], rfl, rfl⟩
  have hfin := fin1_fold N [] mdb [] (c0, [], [], []) hfin0 (by simpa [floatLabelsNodup] using hF.floatLabels)
  simp only [List.nil_append] at hfin
  generalize hs1 : mdb.foldl step1 (c0, [], [], []) = s1 at hfin
  obtain ⟨c1, n1, ax1, lem1⟩ := s1
  have htd := top_down_eq σ fuel c0 (ConvSpec.constsOf mdb) [] [] hinv0 hF.ok1
  have hparsed : c0.parsed = mdb := rfl
  rw [hparsed, hs1] at htd
  simp only [] at htd
  -- facts about the state after the first sweep
  let fs := (floatPairs mdb).map (·.2)
  obtain ⟨hfsnd, hfsK⟩ := ok1_floats_nodup (ConvSpec.constsOf mdb) mdb [] [] hF.ok1 List.nodup_nil
  simp only [List.nil_append] at hfsnd
  have hK : ∀ x, x ∈ c1._declared_constants ↔ x ∈ ConvSpec.constsOf mdb := by
    intro x; have := hfin.consts x; simpa using this
  have hsc1 : GoodScope c1._scope fs := by
    have := hfin.scope
    simp only [] at this
    rw [this]
    exact ⟨rfl, rfl, rfl, hGN, rfl, hfsnd⟩
  have hS1 : SymState σ c1 [] := ⟨hfin.syms, hfin.missing⟩
  have hdis : ∀ x ∈ fs, x ∉ c1._declared_constants := fun x hx h => hfsK x hx ((hK x).mp h)
  have hax1 : ax1 = mdb.filter isAxItem := hfin.axs
  have hlem1 : lem1 = [.prov target [.app "|-" [], t] prf] := by rw [← hF.lemma]; exact hfin.lems
  -- the second sweep
  obtain ⟨S', A, hp2, hS'K, hA⟩ := pass2_ok σ fuel fs ax1 c1 [] hS1 hsc1 hdis (by intro s hs; simp at hs) (by
      intro st hst
      rw [hax1] at hst
      obtain ⟨pl, eh, l, tcs, t', hparts, haxok, ht', hts'⟩ := hF.axioms st hst
      obtain ⟨hhead, _⟩ := axParts_head hparts
      refine ⟨pl, eh, l, tcs, t', hparts, haxok, termOK_congr _ _ _ _ _ (fun x => (hK x).symm) ht',
        fun p hp => termOK_congr _ _ _ _ _ (fun x => (hK x).symm) (hts' p hp), ?_, ?_⟩
      · intro htc
        refine (hfin.pcs l).mpr (List.mem_map.mpr ⟨st, ?_, by simp [headLabel, hhead]⟩)
        simp only [List.mem_filter]
        exact ⟨by simpa [List.mem_filter] using hst, by simp [isPcItem, hhead, htc]⟩
      · intro htc hpr
        refine (hfin.prs l).mpr (List.mem_map.mpr ⟨st, ?_, by simp [headLabel, hhead]⟩)
        simp only [List.mem_filter]
        exact ⟨by simpa [List.mem_filter] using hst, by simp [isPrItem, hhead, htc, hpr]⟩)
    (by rw [hax1]; exact hF.axLabels) (by intro st _; rw [hfin.axioms]; simp)
  have haxempty : c1._axioms = [] := hfin.axioms
  rw [haxempty, List.nil_append] at hp2
  -- the lemma
  let c2 : ConvObj := { withSyms σ c1 S' with _axioms := A }
  have hl1 : c1._lemmas = [] := hfin.lemmas
  obtain ⟨a, hla, haof, _, hapf⟩ := import_lemma_ok σ fuel c2 S' fs target t prf pf ⟨rfl, rfl⟩ hsc1
    (termOK_congr _ _ _ _ _ (fun x => (hK x).symm) hF.goal) hdis hS'K (by simp [c2, withSyms, hl1])
    (by
      have : c2._floating_patterns = fs := hfin.floats
      rw [this]; exact hpf)
  refine ⟨{ withSyms σ c2 (setUnion S' (symsOf t)) with _lemmas := c2._lemmas ++ [(target, [a])] }, ?_, ?_⟩
  · rw [init_eq, hN, Res.bind_ok, htd, hp2, Res.bind_ok, hlem1, forM'_cons]
    show (_import_lemma σ fuel c2 _ >>= _) = _
    rw [hla]
    rfl
  · refine ⟨hfin.pcs, hfin.prs, hfin.floats, hfin.fps, hsc1, hax1 ▸ hA, a, ?_, haof, hapf⟩
    simp [c2, withSyms, hl1]

end ConvTie
