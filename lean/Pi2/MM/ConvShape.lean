import Pi2.MM.ConvSpec
/-!
# What a database of the supported fragment IS: `FragmentShape`

A decidable predicate on the parsed database (`MDb`) and the target label that speaks about the STATEMENTS only — it mentions
neither the output of the specification `dbOfMDb` (`Pi2/MM/ConvSpec.lean`) nor the converter.  Written from the Metamath meaning of
the statements (Metamath book, chapter 4) and the fixed names by which `translate.exec_proof` knows the built-in constructors and
the three proof rules:

* top level: `$c`, `$v`, `$f`, `$a`, one `$p`, and blocks `${ $e … $e $a $}`; no `$d`, no `$e` outside a block;
* `$f`: `v-is-pattern $f #Pattern v` for a variable `v` that is declared (`$v`) BEFORE the statement, is no constant, no reserved
  word (`\imp`, `\app`, `\exists`, `\mu`) and has no earlier `$f`;
* terms: variables with a `$f` statement; `( \imp a b )`, `( \app a b )`; `( s a₁ … aₙ )` / `s` for a declared constant `s` that is
  no reserved word (so the binders `\exists`, `\mu` are outside the fragment);
* `l $a #Pattern ( s v₁ … vₙ )` / `l $a #Pattern s`: pairwise different variables as arguments; `s = \imp` (resp. `\app`) exactly
  for the label `imp-is-pattern` (resp. `app-is-pattern`), then with two arguments; otherwise `s` is a declared constant that is
  neither reserved nor a quoted literal `"…"`;
* `l $a |- t`, alone or closing a block of `$e |- h` statements: terms as above; the labels `proof-rule-prop-1`, `proof-rule-prop-2`,
  `proof-rule-mp` state exactly the three rules (over pairwise different variables), no other label begins with `proof-rule-`;
* all labels (`$f`, `$e`, `$a`, `$p`) pairwise different; `imp-is-pattern` and the three proof rules are present;
* exactly one `$p`, at top level: `target $p |- t $= ( l₁ … lₖ ) LETTERS $.` — a compressed proof: the cited labels are Metamath
  labels (letters, digits, `-`, `_`, `.`) of `$f` / `$a` statements of the database, the letter tokens consist of printable ASCII
  and decode as in Appendix B of the Metamath book.

`Pi2/MM/ConvCoherence.lean` proves that every such database is in the fragment of the converter tie (`ConvTie.InFragmentX`), with
`dbOfMDb` coherent with every statement.
-/
namespace MM.ConvSpec

def reserved (s : String) : Bool := s == "\\imp" || s == "\\app" || s == "\\exists" || s == "\\mu"

/-- a quoted literal `"…"` (a different sort of constant for the converter; outside the fragment) -/
def quoted (s : String) : Bool :=
  match s.toList with
  | c :: _ => c == '"'
  | [] => false

/-- a printable, non-blank ASCII character: the characters of Metamath tokens -/
def tokChar (c : Char) : Bool := decide (33 ≤ c.toNat) && decide (c.toNat ≤ 126)
/-- the characters of Metamath labels: letters, digits, `-`, `_`, `.` -/
def labelChar (c : Char) : Bool :=
  let n := c.toNat
  (decide (48 ≤ n) && decide (n ≤ 57)) || (decide (65 ≤ n) && decide (n ≤ 90)) || (decide (97 ≤ n) && decide (n ≤ 122)) ||
  n == 45 || n == 46 || n == 95
def labelTok (s : String) : Bool := !s.toList.isEmpty && s.toList.all labelChar

mutual
/-- a term of the fragment over the constants `K` and the variables `fs` (those with a `$f` statement) -/
def termShape (K fs : List String) : MTerm → Bool
  | .mv v => fs.contains v
  | .app s args =>
      if s = "\\imp" ∨ s = "\\app" then args.length == 2 && termsShape K fs args
      else !reserved s && K.contains s && termsShape K fs args
def termsShape (K fs : List String) : List MTerm → Bool
  | [] => true
  | t :: ts => termShape K fs t && termsShape K fs ts
end

/-- the argument list of a pattern-constructor axiom: variables -/
def mvNames : List MTerm → Option (List String)
  | [] => some []
  | .mv v :: ts => (mvNames ts).map (v :: ·)
  | _ :: _ => none

/-- `l $a #Pattern ( s v₁ … vₙ )` / `l $a #Pattern s` -/
def syntaxShape (K fs : List String) (l : String) : MTerm → Bool
  | .mv _ => false
  | .app s args =>
      match mvNames args with
      | none => false
      | some vs =>
          vs.all fs.contains && decide vs.Nodup &&
          (if s = "\\imp" then l == "imp-is-pattern" && vs.length == 2
           else if s = "\\app" then l == "app-is-pattern" && vs.length == 2
           else !reserved s && K.contains s && !quoted s && l != "imp-is-pattern" && l != "app-is-pattern")

/-- the three proof rules are stated as `exec_proof` expects them, under their names; no other label begins with `proof-rule-` -/
def ruleShape (l : String) (hyps : List MTerm) (t : MTerm) : Bool :=
  if l = "proof-rule-prop-1" then
    match hyps, t with
    | [], .app i1 [.mv a, .app i2 [.mv b, .mv a']] => i1 == "\\imp" && i2 == "\\imp" && a' == a && a != b
    | _, _ => false
  else if l = "proof-rule-prop-2" then
    match hyps, t with
    | [], .app i1 [.app i2 [.mv a, .app i3 [.mv b, .mv c]], .app i4 [.app i5 [.mv a', .mv b'], .app i6 [.mv a'', .mv c']]] =>
        i1 == "\\imp" && i2 == "\\imp" && i3 == "\\imp" && i4 == "\\imp" && i5 == "\\imp" && i6 == "\\imp" &&
        a' == a && a'' == a && b' == b && c' == c && a != b && a != c && b != c
    | _, _ => false
  else if l = "proof-rule-mp" then
    match hyps, t with
    | [.app i1 [.mv a, .mv b], .mv a'], .mv b' => i1 == "\\imp" && a' == a && b' == b && a != b
    | _, _ => false
  else !("proof-rule-".toList.isPrefixOf l.toList)

/-- `$e |- h` -/
def essTerm : MStmt → Option MTerm
  | .ess _ [.app tc [], h] => if tc = "|-" then some h else none
  | _ => none

/-- a top-level statement of the fragment (the `$f` statements: `floatsShape`; the proof of the `$p`: `proofShape`) -/
def stmtShape (K fs : List String) : MStmt → Bool
  | .const _ => true
  | .var _ => true
  | .float _ _ _ => true
  | .ax l [.app tc [], t] =>
      if tc = "#Pattern" then syntaxShape K fs l t else tc == "|-" && termShape K fs t && ruleShape l [] t
  | .prov _ [.app tc [], t] _ => tc == "|-" && termShape K fs t
  | .block ss =>
      match ss.getLast?, ss.dropLast.mapM essTerm with
      | some (.ax l [.app tc [], t]), some hs => tc == "|-" && termShape K fs t && termsShape K fs hs && ruleShape l hs t
      | _, _ => false
  | _ => false

/-- `(label, variable)` of the `$f` statements, in order -/
def floatsOf : MDb → List (String × String)
  | [] => []
  | .float l _ v :: r => (l, v) :: floatsOf r
  | _ :: r => floatsOf r

/-- the `$f` statements in their places: `vs` = the variables declared so far, `fs` = those with a `$f` so far -/
def floatsShape (K : List String) : List String → List String → MDb → Bool
  | _, _, [] => true
  | vs, fs, .var ws :: r => floatsShape K (vs ++ ws) fs r
  | vs, fs, .float l tc v :: r =>
      tc == "#Pattern" && l == v ++ "-is-pattern" && vs.contains v && !fs.contains v && !K.contains v && !reserved v &&
      floatsShape K vs (fs ++ [v]) r
  | vs, fs, _ :: r => floatsShape K vs fs r

/-- label and typecode of an `$a` statement, alone or closing a block -/
def axHeadOf : MStmt → Option (String × String)
  | .ax l (.app tc [] :: _) => some (l, tc)
  | .block ss => (match ss.getLast? with | some (.ax l (.app tc [] :: _)) => some (l, tc) | _ => none)
  | _ => none

/-- the labels of the `$a` statements -/
def axLabelsOf (mdb : MDb) : List String := mdb.filterMap fun st => (axHeadOf st).map (·.1)

def innerLabel : MStmt → Option String
  | .float l _ _ => some l
  | .ess l _ => some l
  | .ax l _ => some l
  | .prov l _ _ => some l
  | _ => none

/-- all labels of the database, in order (blocks: one level, as in the fragment) -/
def labelsOf : MDb → List String
  | [] => []
  | .block ss :: r => ss.filterMap innerLabel ++ labelsOf r
  | st :: r => (innerLabel st).toList ++ labelsOf r

def isProv : MStmt → Bool
  | .prov _ _ _ => true
  | _ => false

/-- a compressed proof `( l₁ … lₖ ) LETTERS`; `citable` = the labels of the `$f` and `$a` statements -/
def proofShape (citable : List String) (pf : List String) : Bool :=
  match pf with
  | "(" :: rest =>
      match parseLabels rest [] with
      | some (labels, body) =>
          labels.all (fun l => labelTok l && citable.contains l) && body.all (fun b => b.toList.all tokChar) &&
          (tokenize (body.flatMap String.toList) []).isSome
      | none => false
  | _ => false

/-- the database `mdb`, WITHOUT `#Notation` statements, with the theorem `target` is a database of the supported fragment -/
def CoreShape (mdb : MDb) (target : String) : Bool :=
  let K := constsOf mdb
  let F := floatsOf mdb
  let fs := F.map (·.2)
  floatsShape K [] [] mdb &&
  mdb.all (stmtShape K fs) &&
  decide (labelsOf mdb).Nodup &&
  mdb.any (fun st => axHeadOf st == some ("imp-is-pattern", "#Pattern")) &&
  mdb.any (fun st => axHeadOf st == some ("proof-rule-prop-1", "|-")) &&
  mdb.any (fun st => axHeadOf st == some ("proof-rule-prop-2", "|-")) &&
  mdb.any (fun st => axHeadOf st == some ("proof-rule-mp", "|-")) &&
  (match mdb.filter isProv with
   | [.prov l _ pf] => l == target && proofShape (F.map (·.1) ++ axLabelsOf mdb) pf
   | _ => false)

/-! ## declared notations (`sugarShape`)

`l $a #Notation ( n v₁ … vₖ ) BODY $.` / `l $a #Notation n BODY $.`:
* `n` has exactly one constructor axiom `… $a #Pattern ( n v₁ … vₖ )`, BEFORE the statement, over the same variables in the same
  order (pairwise different, with `$f`: `syntaxShape`); one `#Notation` statement per head;
* `BODY` is a term over `v₁ … vₖ` (no other variable), the constants and `\imp` / `\app`; of the heads of `#Notation` statements it
  mentions only those whose `#Notation` statement comes EARLIER (so not `n` itself): `MetamathConverter._top_down` imports the
  `#Notation` statements in database order and converts each body in the scope of the notations imported so far — a later one stays an
  opaque symbol inside the body but is expanded where it is written directly (finding KF-C16-forward-notation);
* the `#Notation` statements come in the order of the constructor axioms of their heads (the model's `DB.notTab` imports the
  notations in the order of the constructor entries);
* everywhere in the database (`$a`, `$e`, `$p`, bodies) a head `n` is applied to exactly `k` arguments (with fewer the closure built
  by `_to_pattern` raises `IndexError`, with more it ignores the rest);
* all labels, those of the `#Notation` statements included, are pairwise different; the proof cites no `#Notation` statement
  (`CoreShape` of the database without them: `proofShape`);
* no `#Notation` statement has the head `\imp` or `\app` (`headsPlain`): their "constructor axioms" `imp-is-pattern` / `app-is-pattern`
  are the built-in connectives, not constructor entries, and the converter has nothing to attach a body to;
* without its `#Notation` statements the database is a database of the fragment (`CoreShape`). -/

/-- `… $a #Pattern ( s a₁ … aₙ )`: head and arguments -/
def ctorHeadOf : MStmt → Option (String × List MTerm)
  | .ax _ [.app tc [], .app s args] => if tc = "#Pattern" then some (s, args) else none
  | _ => none

mutual
/-- the heads of the applications of a term -/
def headsOf : MTerm → List String
  | .mv _ => []
  | .app s args => s :: headsOfL args
def headsOfL : List MTerm → List String
  | [] => []
  | t :: ts => headsOf t ++ headsOfL ts
end

mutual
/-- the declared notations are applied to as many arguments as they have variables; `ar`: (head, number of variables) -/
def arityShape (ar : List (String × Nat)) : MTerm → Bool
  | .mv _ => true
  | .app s args => (match ar.lookup s with | some k => args.length == k | none => true) && aritiesShape ar args
def aritiesShape (ar : List (String × Nat)) : List MTerm → Bool
  | [] => true
  | t :: ts => arityShape ar t && aritiesShape ar ts
end

def stmtArity (ar : List (String × Nat)) : MStmt → Bool
  | .ess _ ts => aritiesShape ar ts
  | .ax _ ts => aritiesShape ar ts
  | .prov _ ts _ => aritiesShape ar ts
  | .block ss => ss.all fun
      | .ess _ ts => aritiesShape ar ts
      | .ax _ ts => aritiesShape ar ts
      | _ => true
  | _ => true

/-- the `#Notation` statements in their places: `cs` = (head, variables) of the constructor axioms so far, `seen` = the heads of the
`#Notation` statements so far; `heads` = the heads of all `#Notation` statements of the database -/
def sugarShape (K heads : List String) : List (String × List String) → List String → MDb → Bool
  | _, _, [] => true
  | cs, seen, st :: r =>
      match sugarOf st with
      | some (_, n, args, body) =>
          (match mvNames args with
           | some vs => (cs.filter (·.1 == n)).map (·.2) == [vs] && termShape K vs body
           | none => false) &&
          (headsOf body).all (fun s => seen.contains s || !heads.contains s) &&
          sugarShape K heads cs (seen ++ [n]) r
      | none =>
          match ctorHeadOf st with
          | some (s, args) => sugarShape K heads (cs ++ [(s, (mvNames args).getD [])]) seen r
          | none => sugarShape K heads cs seen r

/-- no `#Notation` statement for `\imp` or `\app`: these two heads have no constructor ENTRY (`imp-is-pattern` / `app-is-pattern` are
the built-in connectives, not constructors), so the converter has nothing to attach the body to -/
def headsPlain (mdb : MDb) : Bool := (sugarsOf mdb).all fun sg => sg.2.1 != "\\imp" && sg.2.1 != "\\app"

/-- the database `mdb` with the theorem `target` is a database of the supported fragment -/
def FragmentShape (mdb : MDb) (target : String) : Bool :=
  let K := constsOf mdb
  let sugars := sugarsOf mdb
  let heads : List String := sugars.map (·.2.1)
  let ctorHeads : List String := (mdb.filterMap ctorHeadOf).map (·.1)
  CoreShape (coreOf mdb) target &&
  decide (labelsOf mdb).Nodup &&
  decide heads.Nodup &&
  heads.all (fun n => (ctorHeads.filter (· == n)).length == 1) &&
  ctorHeads.filter heads.contains == heads &&
  sugarShape K heads [] [] mdb &&
  mdb.all (stmtArity (sugars.map fun sg => (sg.2.1, sg.2.2.1.length))) &&
  headsPlain mdb

/-- the clause `headsPlain` of `FragmentShape` -/
theorem headsPlain_of_fragmentShape {mdb : MDb} {target : String} (h : FragmentShape mdb target = true) : headsPlain mdb = true := by
  simp only [FragmentShape, Bool.and_eq_true] at h
  exact h.2

/-- a database without `#Notation` statements: `FragmentShape` says what `CoreShape` says … -/
theorem coreShape_of_sugarFree {mdb : MDb} {target : String} (h : FragmentShape mdb target = true) (hs : sugarFree mdb = true) :
    CoreShape mdb target = true := by
  simp only [FragmentShape, Bool.and_eq_true] at h
  have := h.1.1.1.1.1.1.1
  rwa [coreOf_of_sugarFree hs] at this

/-- … and a database of `CoreShape` has none -/
theorem sugarFree_of_coreShape {mdb : MDb} {target : String} (h : CoreShape mdb target = true) : sugarFree mdb = true := by
  simp only [CoreShape, Bool.and_eq_true, List.all_eq_true] at h
  have hall := h.1.1.1.1.1.1.2
  simp only [sugarFree, List.all_eq_true]
  intro st hst
  have := hall st hst
  cases st with
  | ax l ts =>
    match ts, this with
    | [.app tc [], .app n args, body], this => simp [stmtShape] at this
    | [], _ => simp [isSugar, sugarOf]
    | [_], _ => simp [isSugar, sugarOf]
    | [_, _], _ => simp [isSugar, sugarOf]
    | [.mv _, _, _], _ => simp [isSugar, sugarOf]
    | [.app _ (_ :: _), _, _], _ => simp [isSugar, sugarOf]
    | [.app _ [], .mv _, _], _ => simp [isSugar, sugarOf]
    | _ :: _ :: _ :: _ :: _, _ => simp [isSugar, sugarOf]
  | _ => simp [isSugar, sugarOf]

/-! ## non-vacuity: a small database of the fragment -/
namespace Example
def v (s : String) : MTerm := .mv s
def imp (a b : MTerm) : MTerm := .app "\\imp" [a, b]
def tc (s : String) : MTerm := .app s []

/-- constants, a binary constructor `f`, `\imp` / `\app`, three `$f` in shuffled order, one axiom, one rule with two hypotheses,
the three proof rules, and `goal $p |- ( \imp c ( \imp c c ) )` proved by `proof-rule-prop-1` -/
def db : MDb := [
  .const ["#Pattern", "|-", "(", ")", "\\imp", "\\app", "c", "f"],
  .var ["x", "y", "z"],
  .float "y-is-pattern" "#Pattern" "y",
  .float "z-is-pattern" "#Pattern" "z",
  .float "x-is-pattern" "#Pattern" "x",
  .ax "imp-is-pattern" [tc "#Pattern", imp (v "x") (v "y")],
  .ax "app-is-pattern" [tc "#Pattern", .app "\\app" [v "y", v "x"]],
  .ax "c-is-pattern" [tc "#Pattern", .app "c" []],
  .ax "f-is-pattern" [tc "#Pattern", .app "f" [v "z", v "x"]],
  .ax "proof-rule-prop-1" [tc "|-", imp (v "x") (imp (v "y") (v "x"))],
  .ax "proof-rule-prop-2" [tc "|-", imp (imp (v "x") (imp (v "y") (v "z"))) (imp (imp (v "x") (v "y")) (imp (v "x") (v "z")))],
  .block [.ess "proof-rule-mp.0" [tc "|-", imp (v "y") (v "x")], .ess "proof-rule-mp.1" [tc "|-", v "y"],
          .ax "proof-rule-mp" [tc "|-", v "x"]],
  .ax "ax0" [tc "|-", .app "f" [.app "c" [], .app "\\app" [v "x", .app "c" []]]],
  .block [.ess "r.0" [tc "|-", imp (v "x") (.app "c" [])], .ess "r.1" [tc "|-", v "z"],
          .ax "r" [tc "|-", .app "f" [v "z", .app "f" [v "x", .app "c" []]]]],
  .prov "goal" [tc "|-", imp (.app "c" []) (imp (.app "c" []) (.app "c" []))] ["(", "c-is-pattern", "proof-rule-prop-1", ")", "AAB"]]

theorem db_in_fragment : FragmentShape db "goal" = true := by decide +kernel
end Example

end MM.ConvSpec
