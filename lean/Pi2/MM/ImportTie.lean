import Pi2.Gen.ImportProof
import Pi2.MM.Compressed
/-!
# The generated `_import_proof` (`Pi2/Gen/ImportProof.lean`, character level) = the model `Pi2/MM/Compressed.lean` (token level)

`Pi2/Gen/ImportProof.lean` is regenerated from the text of `MetamathConverter._import_proof` (converter.py) by
`vlib/transimport.py`; it works on the CHARACTERS of `statement.proof`.  The hand-written model works on its TOKENS.

* `convert_to_number_eq`, `main_loop_eq`: the number decoder and the main loop are the model's, on EVERY input.
* `import_proof_layout`: on every string `<pre> ( <ws> label₁ s₁ … labelₙ sₙ ) <tail>` (`pre` without `(`, `ws` whitespace, labels
  non-empty without whitespace and `)`, every `sᵢ` ONE whitespace character) the whole function is the model on the tokens.
  `import_proof_parsed`: in particular on `' '.join(tokens)` — what the parser stores — for tokens `(`, labels, `)`, letters.
* `import_proof_none`, `import_proof_no_paren` (with `model_needs_open`): `None`, `''` and strings without `(`: both reject
  (Python: `AssertionError` / `UnboundLocalError` for the loop variable `_j` of a loop that never ran).
* everywhere else the character loops are MORE PERMISSIVE than the model (and than Metamath): `differ_*` (concrete strings,
  evaluated by the kernel and confirmed on the real code through the real parser), `import_proof_unterminated_chars`
  (a label list that is never closed is accepted, its last token dropped), `model_needs_open` / `model_needs_close`.
  Not producible by the parser: `differ_double_blank`, `differ_trailing_blank` (phantom empty labels).
-/
namespace ImportTie
open ImpSup Gen.ImportProof

theorem translated : Gen.ImportProof.translated = true := by decide

/-! ## the digit tables -/

theorem lookup_mem {κ α : Type} [BEq κ] [LawfulBEq κ] :
    ∀ (T : List (κ × α)) (k : κ) (v : α), T.lookup k = some v → (k, v) ∈ T := by
  intro T k v
  induction T with
  | nil => simp [List.lookup]
  | cons p T ih =>
    obtain ⟨k', v'⟩ := p
    simp only [List.lookup]
    by_cases h : k == k'
    · simp only [h]
      intro hv
      have hk : k = k' := by simpa using h
      simp only [Option.some.injEq] at hv
      simp [hk, hv]
    · simp only [h]
      intro hv
      exact List.mem_cons_of_mem _ (ih hv)

theorem lsdigit_eq (c : Char) : dictGet lsdigit c = MM.lsdigit c := by
  unfold MM.lsdigit
  have h65 : ('A' : Char).toNat = 65 := by decide
  have h84 : ('T' : Char).toNat = 84 := by decide
  have hc : Char.ofNat c.toNat = c := Char.ofNat_toNat c
  split
  · next h =>
    rw [h65, h84] at h
    have : c.toNat = 65 ∨ c.toNat = 66 ∨ c.toNat = 67 ∨ c.toNat = 68 ∨ c.toNat = 69 ∨ c.toNat = 70 ∨ c.toNat = 71 ∨
        c.toNat = 72 ∨ c.toNat = 73 ∨ c.toNat = 74 ∨ c.toNat = 75 ∨ c.toNat = 76 ∨ c.toNat = 77 ∨ c.toNat = 78 ∨
        c.toNat = 79 ∨ c.toNat = 80 ∨ c.toNat = 81 ∨ c.toNat = 82 ∨ c.toNat = 83 ∨ c.toNat = 84 := by omega
    rcases this with h | h | h | h | h | h | h | h | h | h | h | h | h | h | h | h | h | h | h | h <;>
      (rw [← hc, h]; decide)
  · next h =>
    rw [h65, h84] at h
    cases hl : dictGet lsdigit c with
    | none => rfl
    | some d =>
      have hm := lookup_mem _ _ _ hl
      have hr : ∀ p ∈ lsdigit, 65 ≤ p.1.toNat ∧ p.1.toNat ≤ 84 := by decide
      exact absurd (hr _ hm) h

theorem msdigit_eq (c : Char) : dictGet msdigit c = MM.msdigit c := by
  unfold MM.msdigit
  have h85 : ('U' : Char).toNat = 85 := by decide
  have h89 : ('Y' : Char).toNat = 89 := by decide
  have hc : Char.ofNat c.toNat = c := Char.ofNat_toNat c
  split
  · next h =>
    rw [h85, h89] at h
    have : c.toNat = 85 ∨ c.toNat = 86 ∨ c.toNat = 87 ∨ c.toNat = 88 ∨ c.toNat = 89 := by omega
    rcases this with h | h | h | h | h <;> (rw [← hc, h]; decide)
  · next h =>
    rw [h85, h89] at h
    cases hl : dictGet msdigit c with
    | none => rfl
    | some d =>
      have hm := lookup_mem _ _ _ hl
      have hr : ∀ p ∈ msdigit, 85 ≤ p.1.toNat ∧ p.1.toNat ≤ 89 := by decide
      exact absurd (hr _ hm) h

theorem dictHas_lsdigit (c : Char) : dictHas lsdigit c = (MM.lsdigit c).isSome := by
  have := lsdigit_eq c
  unfold dictGet at this
  unfold dictHas
  rw [this]

/-! ## `convert_to_number` -/

theorem convert_loop_eq (cs : List Char) (n e : Nat) :
    (convert_to_number_for1 cs n e).map (·.1) = MM.convLoop cs e n := by
  induction cs generalizing n e with
  | nil => simp [convert_to_number_for1, MM.convLoop]
  | cons c cs ih =>
    simp only [convert_to_number_for1, MM.convLoop, msdigit_eq, Option.bind_eq_bind]
    cases MM.msdigit c with
    | none => simp
    | some d => simp [ih]

/-- the generated `convert_to_number` is the model's `convertToNumber` on every word -/
theorem convert_to_number_eq (word : List Char) : convert_to_number word = MM.convertToNumber word := by
  unfold convert_to_number MM.convertToNumber
  cases word.reverse with
  | nil => simp [pyHeadRest]
  | cons first rest =>
    simp only [pyHeadRest, lsdigit_eq, Option.bind_eq_bind, Option.bind_some]
    cases MM.lsdigit first with
    | none => simp
    | some d =>
      simp only [Option.bind_some]
      rw [← convert_loop_eq]
      cases convert_to_number_for1 rest d 0 with
      | none => simp
      | some p => simp

/-! ## the main loop of `_import_proof` -/

theorem main_loop_gen (cs : List Char) (d : PyDict Nat Str) (acc : List Nat) (buf : List Char) :
    (import_proof_for1 cs ⟨d, acc⟩ buf).map (·.1) = (MM.tokenize cs buf).map (fun st => ⟨d, acc ++ st⟩) := by
  induction cs generalizing acc buf with
  | nil => simp [import_proof_for1, MM.tokenize]
  | cons c cs ih =>
    simp only [import_proof_for1, MM.tokenize]
    by_cases hz : c = 'Z'
    · subst hz
      simp only [beq_self_eq_true, if_true]
      cases buf with
      | nil =>
        simp only [pyAssert, beq_self_eq_true, if_true, Option.bind_eq_bind, Option.bind_some, List.isEmpty_nil]
        rw [ih]
        cases MM.tokenize cs [] with
        | none => simp
        | some st => simp
      | cons b bs => simp [pyAssert]
    · have hz' : (c == 'Z') = false := by simpa using hz
      simp only [hz', hz, if_false, Bool.false_eq_true, dictHas_lsdigit]
      by_cases hl : (MM.lsdigit c).isSome = true
      · simp only [hl, if_true, convert_to_number_eq, Option.bind_eq_bind]
        cases MM.convertToNumber (buf ++ [c]) with
        | none => simp
        | some n =>
          simp only [Option.bind_some]
          rw [ih]
          cases MM.tokenize cs [] with
          | none => simp
          | some st => simp
      · simp only [hl, if_false, Bool.false_eq_true]
        rw [ih]

/-- the generated main loop (started with an empty buffer and no steps) is the model's `tokenize`, on every letter string -/
theorem main_loop_eq (letters : List Char) (d : PyDict Nat Str) :
    (import_proof_for1 letters ⟨d, []⟩ []).map (·.1) = (MM.tokenize letters []).map (Proof.mk d) := by
  rw [main_loop_gen]
  simp

/-! ## `parse_lemmas`: the three character loops -/

/-- loop 1 (`Skip to first (`) on a string with a `(`: `_i` = its offset -/
theorem for1_found (pre rest : List Char) (k : Nat) (o : Option Nat) (hpre : ∀ c ∈ pre, c ≠ '(') :
    parse_lemmas_for1 (pyEnumerateFrom k (pre ++ '(' :: rest)) o = some (some (k + pre.length)) := by
  induction pre generalizing k o with
  | nil => simp [pyEnumerateFrom, parse_lemmas_for1]
  | cons x pre ih =>
    have hx : (x == '(') = false := by simpa using hpre x (by simp)
    simp only [List.cons_append, pyEnumerateFrom, parse_lemmas_for1, hx, Bool.false_eq_true, if_false]
    rw [ih _ _ (fun c hc => hpre c (List.mem_cons_of_mem _ hc))]
    simp only [List.length_cons]
    congr 2; omega

/-- loop 1 on a string without `(`: `_i` = the offset of the LAST character (unbound on the empty string) -/
theorem for1_absent (s : List Char) (k : Nat) (o : Option Nat) (hs : ∀ c ∈ s, c ≠ '(') :
    parse_lemmas_for1 (pyEnumerateFrom k s) o = some (if s = [] then o else some (k + s.length - 1)) := by
  induction s generalizing k o with
  | nil => simp [pyEnumerateFrom, parse_lemmas_for1]
  | cons x s ih =>
    have hx : (x == '(') = false := by simpa using hs x (by simp)
    simp only [pyEnumerateFrom, parse_lemmas_for1, hx, Bool.false_eq_true, if_false]
    rw [ih _ _ (fun c hc => hs c (List.mem_cons_of_mem _ hc))]
    cases s with
    | nil => simp
    | cons y s => simp only [reduceCtorEq, if_false, List.length_cons]; congr 2; omega

/-- loop 2 (`Skip to first declared lemma`): `_j` = the number of whitespace characters skipped -/
theorem for2_found (ws rest : List Char) (c : Char) (k : Nat) (o : Option Nat)
    (hws : ∀ c ∈ ws, pyIsSpace c = true) (hc : pyIsSpace c = false) :
    parse_lemmas_for2 (pyEnumerateFrom k (ws ++ c :: rest)) o = some (some (k + ws.length)) := by
  induction ws generalizing k o with
  | nil => simp [pyEnumerateFrom, parse_lemmas_for2, hc]
  | cons x ws ih =>
    have hx := hws x (by simp)
    simp only [List.cons_append, pyEnumerateFrom, parse_lemmas_for2, hx, Bool.not_true, Bool.false_eq_true, if_false]
    rw [ih _ _ (fun c hc => hws c (List.mem_cons_of_mem _ hc))]
    simp only [List.length_cons]
    congr 2; omega

/-- loop 2 on whitespace only: `_j` = the offset of the LAST character (unbound on the empty string) -/
theorem for2_absent (ws : List Char) (k : Nat) (o : Option Nat) (hws : ∀ c ∈ ws, pyIsSpace c = true) :
    parse_lemmas_for2 (pyEnumerateFrom k ws) o = some (if ws = [] then o else some (k + ws.length - 1)) := by
  induction ws generalizing k o with
  | nil => simp [pyEnumerateFrom, parse_lemmas_for2]
  | cons x ws ih =>
    have hx := hws x (by simp)
    simp only [pyEnumerateFrom, parse_lemmas_for2, hx, Bool.not_true, Bool.false_eq_true, if_false]
    rw [ih _ _ (fun c hc => hws c (List.mem_cons_of_mem _ hc))]
    cases ws with
    | nil => simp
    | cons y s => simp only [reduceCtorEq, if_false, List.length_cons]; congr 2; omega

/-- the label table `{k: l₀, k+1: l₁, …}` -/
def numbered : Nat → List Str → PyDict Nat Str
  | _, [] => []
  | k, l :: ls => (k, l) :: numbered (k + 1) ls

theorem numbered_length (k : Nat) (xs : List Str) : dictLen (numbered k xs) = xs.length := by
  induction xs generalizing k with
  | nil => rfl
  | cons x xs ih => simp only [numbered, dictLen, List.length_cons] at ih ⊢; rw [ih]

/-- assigning to the next free number appends -/
theorem dictSet_numbered (k : Nat) (xs : List Str) (v : Str) :
    dictSet (numbered k xs) (k + xs.length) v = numbered k (xs ++ [v]) := by
  induction xs generalizing k with
  | nil => simp [numbered, dictSet]
  | cons x xs ih =>
    have hne : (k == k + (xs.length + 1)) = false := by
      simp only [beq_eq_false_iff_ne, ne_eq]; omega
    simp only [numbered, dictSet, List.length_cons, hne, List.cons_append, Bool.false_eq_true, if_false]
    rw [show k + (xs.length + 1) = k + 1 + xs.length by omega, ih]

/-- a label as `parse_lemmas` reads it: non-empty, without whitespace, without `)` -/
def LabelOK (l : Str) : Prop := l ≠ [] ∧ ∀ c ∈ l, pyIsSpace c = false ∧ c ≠ ')'
instance (l : Str) : Decidable (LabelOK l) := by unfold LabelOK; infer_instance

/-- the label list as characters: every label followed by ONE whitespace character -/
def flat (labels : List (Str × Char)) : List Char := labels.flatMap fun p => p.1 ++ [p.2]

/-- loop 3, one label with the whitespace character behind it -/
theorem for3_label (l : Str) (sep : Char) (r : List Char) (k : Nat) (o : Option Nat) (d : PyDict Nat Str) (n : Nat) (b : Str)
    (hl : ∀ c ∈ l, pyIsSpace c = false ∧ c ≠ ')') (hs : pyIsSpace sep = true) :
    parse_lemmas_for3 (pyEnumerateFrom k (l ++ sep :: r)) o d n b
      = parse_lemmas_for3 (pyEnumerateFrom (k + l.length + 1) r) (some (k + l.length)) (dictSet d n (b ++ l)) (n + 1) [] := by
  induction l generalizing k o b with
  | nil => simp [pyEnumerateFrom, parse_lemmas_for3, hs]
  | cons x l ih =>
    obtain ⟨hx1, hx2⟩ := hl x (by simp)
    have hx2' : (x == ')') = false := by simpa using hx2
    simp only [List.cons_append, pyEnumerateFrom, parse_lemmas_for3, hx1, hx2', Bool.false_eq_true, if_false]
    rw [ih _ _ _ (fun c hc => hl c (List.mem_cons_of_mem _ hc))]
    simp only [List.length_cons, List.append_assoc, List.cons_append, List.nil_append]
    rw [show k + 1 + l.length + 1 = k + (l.length + 1) + 1 by omega, show k + 1 + l.length = k + (l.length + 1) by omega]

/-- loop 3 (`Register each lemma`) on a label list closed by `)` -/
theorem for3_labels (labels : List (Str × Char)) (tail : List Char) (k : Nat) (o : Option Nat) (xs : List Str)
    (hl : ∀ p ∈ labels, (∀ c ∈ p.1, pyIsSpace c = false ∧ c ≠ ')') ∧ pyIsSpace p.2 = true) :
    parse_lemmas_for3 (pyEnumerateFrom k (flat labels ++ ')' :: tail)) o (numbered 1 xs) (xs.length + 1) []
      = some (some (k + (flat labels).length), numbered 1 (xs ++ labels.map (·.1)), xs.length + labels.length + 1, []) := by
  induction labels generalizing k o xs with
  | nil =>
    have h1 : pyIsSpace ')' = false := by decide
    simp [flat, pyEnumerateFrom, parse_lemmas_for3, h1]
  | cons p labels ih =>
    obtain ⟨l, sep⟩ := p
    obtain ⟨hl1, hl2⟩ := hl (l, sep) (by simp)
    have e : flat ((l, sep) :: labels) ++ ')' :: tail = l ++ sep :: (flat labels ++ ')' :: tail) := by
      simp [flat]
    rw [e, for3_label l sep _ k o _ _ [] hl1 hl2]
    have hd : dictSet (numbered 1 xs) (xs.length + 1) ([] ++ l) = numbered 1 (xs ++ [l]) := by
      rw [Nat.add_comm, List.nil_append, dictSet_numbered]
    rw [hd]
    have := ih (k + l.length + 1) (some (k + l.length)) (xs ++ [l])
      (fun q hq => hl q (List.mem_cons_of_mem _ hq))
    simp only [List.length_append, List.length_cons, List.length_nil] at this
    rw [this]
    have hlen : (flat ((l, sep) :: labels)).length = l.length + 1 + (flat labels).length := by
      simp only [flat, List.flatMap_cons, List.length_append, List.length_cons, List.length_nil]
    rw [hlen]
    simp only [List.map_cons, List.append_assoc, List.cons_append, List.nil_append, List.length_cons]
    have a1 : k + l.length + 1 + (flat labels).length = k + (l.length + 1 + (flat labels).length) := by omega
    have a2 : xs.length + 1 + labels.length + 1 = xs.length + (labels.length + 1) + 1 := by omega
    rw [a1, a2]

theorem drop_append_len {α : Type} (a b : List α) (n : Nat) (h : n = a.length) : (a ++ b).drop n = b := by
  subst h; simp

theorem flat_head (labels : List (Str × Char)) (tail : List Char) (hl : ∀ p ∈ labels, LabelOK p.1) :
    ∃ c rest, flat labels ++ ')' :: tail = c :: rest ∧ pyIsSpace c = false := by
  cases labels with
  | nil => exact ⟨')', tail, by simp [flat], by decide⟩
  | cons p labels =>
    obtain ⟨hne, hc⟩ := hl p (by simp)
    cases hp : p.1 with
    | nil => exact absurd hp hne
    | cons c l =>
      refine ⟨c, l ++ [p.2] ++ (flat labels ++ ')' :: tail), by simp [flat, hp], ?_⟩
      exact (hc c (by rw [hp]; simp)).1

/-- `parse_lemmas` on `<no '('> ( <whitespace> label₁␣label₂␣…labelₙ␣ ) <tail>`: every label is registered under the next number
and the returned offset is the one of the first character behind `)` -/
theorem parse_lemmas_layout (pre ws tail : List Char) (labels : List (Str × Char)) (xs : List Str)
    (hpre : ∀ c ∈ pre, c ≠ '(') (hws : ∀ c ∈ ws, pyIsSpace c = true)
    (hl : ∀ p ∈ labels, LabelOK p.1 ∧ pyIsSpace p.2 = true) :
    parse_lemmas (pre ++ '(' :: (ws ++ (flat labels ++ ')' :: tail))) (numbered 1 xs)
      = some (pre.length + ws.length + (flat labels).length + 2, numbered 1 (xs ++ labels.map (·.1))) := by
  obtain ⟨c, rest, hcr, hc⟩ := flat_head labels tail (fun p hp => (hl p hp).1)
  unfold parse_lemmas pyEnumerate pySliceFrom
  rw [for1_found pre _ 0 none hpre]
  simp only [Option.bind_eq_bind, Option.bind_some, Nat.zero_add]
  have e1 : (pre ++ '(' :: (ws ++ (flat labels ++ ')' :: tail))).drop (pre.length + 1) = ws ++ (flat labels ++ ')' :: tail) := by
    simp
  have e2 : (pre ++ '(' :: (ws ++ (flat labels ++ ')' :: tail))).drop (pre.length + ws.length + 1) = flat labels ++ ')' :: tail := by
    have := drop_append_len (pre ++ ['('] ++ ws) (flat labels ++ ')' :: tail) (pre.length + ws.length + 1) (by simp; omega)
    simpa using this
  have h2 : parse_lemmas_for2 (pyEnumerateFrom 0 (ws ++ (flat labels ++ ')' :: tail))) none = some (some ws.length) := by
    rw [hcr]; simpa using for2_found ws rest c 0 none hws hc
  rw [e1, h2]
  simp only [Option.bind_some, numbered_length]
  rw [e2, for3_labels labels tail 0 none xs (fun p hp => ⟨(hl p hp).1.2, (hl p hp).2⟩)]
  simp only [Option.bind_some, Nat.zero_add, Option.pure_def]

/-! ## `split_proof` and the whole `_import_proof`, character level -/

/-- `'-is-pattern'` -/
def isPatternSuffix : Str := ['-', 'i', 's', '-', 'p', 'a', 't', 't', 'e', 'r', 'n']

/-- the labels of the mandatory hypotheses in the order `split_proof` numbers them: the statement's metavariables that have a
`$f #Pattern` statement, in the order of these statements; then the others, sorted -/
def mandatory (self : Converter) (statement : ProvableStatement) : List Str :=
  ((self._floating_patterns.filter fun m => statement.get_metavariables.contains m) ++
    pySorted (statement.get_metavariables.filter fun m => !(self._floating_patterns.contains m))).map (· ++ isPatternSuffix)

theorem split_for1_eq (ordered xs : List Str) :
    split_proof_for1 ordered (numbered 1 xs) (xs.length + 1)
      = some (numbered 1 (xs ++ ordered.map (· ++ isPatternSuffix)), xs.length + ordered.length + 1) := by
  induction ordered generalizing xs with
  | nil => simp [split_proof_for1]
  | cons m ordered ih =>
    simp only [split_proof_for1]
    rw [Nat.add_comm xs.length 1, dictSet_numbered]
    have := ih (xs ++ [m ++ isPatternSuffix])
    simp only [List.length_append, List.length_cons, List.length_nil, Nat.zero_add] at this
    rw [Nat.add_comm 1 xs.length]
    simp only [isPatternSuffix] at this ⊢
    rw [this]
    simp only [List.map_cons, List.append_assoc, List.cons_append, List.nil_append, List.length_cons]
    congr 2
    omega

theorem split_for2_eq (cs : List Char) (acc : Str) :
    split_proof_for2 cs acc = some (acc ++ cs.filter (fun c => !pyIsSpace c)) := by
  induction cs generalizing acc with
  | nil => simp [split_proof_for2]
  | cons c cs ih =>
    simp only [split_proof_for2]
    by_cases h : pyIsSpace c = true
    · simp [h, ih]
    · have h' : pyIsSpace c = false := by simpa using h
      simp [h', ih]

/-- `split_proof` on `<no '('> ( <whitespace> label₁␣…labelₙ␣ ) <tail>` -/
theorem split_proof_layout (self : Converter) (statement : ProvableStatement) (pre ws tail : List Char)
    (labels : List (Str × Char))
    (hpre : ∀ c ∈ pre, c ≠ '(') (hws : ∀ c ∈ ws, pyIsSpace c = true)
    (hl : ∀ p ∈ labels, LabelOK p.1 ∧ pyIsSpace p.2 = true) :
    split_proof self statement (some (pre ++ '(' :: (ws ++ (flat labels ++ ')' :: tail))))
      = some (numbered 1 (mandatory self statement ++ labels.map (·.1)), tail.filter (fun c => !pyIsSpace c)) := by
  have hne : pyAssertStr (some (pre ++ '(' :: (ws ++ (flat labels ++ ')' :: tail))))
      = some (pre ++ '(' :: (ws ++ (flat labels ++ ')' :: tail))) := by
    cases pre <;> simp [pyAssertStr]
  unfold split_proof
  simp only [hne, Option.bind_eq_bind, Option.bind_some]
  have h1 := split_for1_eq ((self._floating_patterns.filter fun m => statement.get_metavariables.contains m) ++
    pySorted (statement.get_metavariables.filter fun m => !(self._floating_patterns.contains m))) []
  simp only [numbered, List.length_nil, Nat.zero_add, List.nil_append] at h1
  rw [h1]
  simp only [Option.bind_some]
  have h2 := parse_lemmas_layout pre ws tail labels (mandatory self statement) hpre hws hl
  unfold mandatory at h2 ⊢
  rw [h2]
  simp only [Option.bind_some, pySliceFrom]
  have e3 : (pre ++ '(' :: (ws ++ (flat labels ++ ')' :: tail))).drop (pre.length + ws.length + (flat labels).length + 2) = tail := by
    have := drop_append_len (pre ++ ['('] ++ ws ++ flat labels ++ [')']) tail (pre.length + ws.length + (flat labels).length + 2)
      (by simp; omega)
    simpa using this
  rw [e3, split_for2_eq]
  simp

/-- the whole `_import_proof` on `<no '('> ( <whitespace> label₁␣…labelₙ␣ ) <tail>`: the table is the mandatory hypotheses followed
by the labels, the steps are the model's `tokenize` of the non-blank characters of the tail -/
theorem import_proof_layout_chars (self : Converter) (mvs : List Str) (pre ws tail : List Char) (labels : List (Str × Char))
    (hpre : ∀ c ∈ pre, c ≠ '(') (hws : ∀ c ∈ ws, pyIsSpace c = true)
    (hl : ∀ p ∈ labels, LabelOK p.1 ∧ pyIsSpace p.2 = true) :
    import_proof self ⟨mvs, some (pre ++ '(' :: (ws ++ (flat labels ++ ')' :: tail)))⟩
      = (MM.tokenize (tail.filter (fun c => !pyIsSpace c)) []).map
          (Proof.mk (numbered 1 (mandatory self ⟨mvs, some (pre ++ '(' :: (ws ++ (flat labels ++ ')' :: tail)))⟩ ++ labels.map (·.1)))) := by
  unfold import_proof
  simp only [split_proof_layout self _ pre ws tail labels hpre hws hl, Option.bind_eq_bind, Option.bind_some]
  rw [← main_loop_eq]
  cases import_proof_for1 _ _ _ with
  | none => simp
  | some p => simp

/-- `_import_proof` raises when the proof is `None` or `''` (`assert proof`) -/
theorem import_proof_none (self : Converter) (mvs : List Str) :
    import_proof self ⟨mvs, none⟩ = none ∧ import_proof self ⟨mvs, some []⟩ = none := by
  constructor <;> simp [import_proof, split_proof, pyAssertStr]

/-- `parse_lemmas` raises (`UnboundLocalError`: `_i` on the empty string, else `_j`) on every string without the character `(` -/
theorem parse_lemmas_no_paren (s : List Char) (d : PyDict Nat Str) (hs : ∀ c ∈ s, c ≠ '(') : parse_lemmas s d = none := by
  cases s with
  | nil => simp [parse_lemmas, pyEnumerate, pyEnumerateFrom, parse_lemmas_for1]
  | cons x s =>
    have h1 := for1_absent (x :: s) 0 none hs
    simp only [reduceCtorEq, if_false, List.length_cons, Nat.zero_add, Nat.add_sub_cancel] at h1
    have e : (x :: s).drop (s.length + 1) = [] := by simp
    unfold parse_lemmas pyEnumerate pySliceFrom
    rw [h1]
    simp only [Option.bind_eq_bind, Option.bind_some]
    rw [e]
    simp [pyEnumerateFrom, parse_lemmas_for2]

/-- `_import_proof` raises (`UnboundLocalError: _j`) on every string without the character `(` -/
theorem import_proof_no_paren (self : Converter) (mvs : List Str) (s : List Char) (hs : ∀ c ∈ s, c ≠ '(') :
    import_proof self ⟨mvs, some s⟩ = none := by
  cases s with
  | nil => exact (import_proof_none self mvs).2
  | cons x s =>
    unfold import_proof split_proof
    simp only [pyAssertStr, Option.bind_eq_bind, Option.bind_some]
    have h1 := split_for1_eq ((self._floating_patterns.filter fun m => mvs.contains m) ++
      pySorted (mvs.filter fun m => !(self._floating_patterns.contains m))) []
    simp only [numbered, List.length_nil, Nat.zero_add, List.nil_append] at h1
    rw [h1]
    simp only [Option.bind_some]
    rw [parse_lemmas_no_paren _ _ hs]
    simp

/-! ## from the characters to the tokens of the model -/

theorem parseLabels_spec (labels body acc : List String) (hl : ∀ l ∈ labels, l ≠ ")") :
    MM.parseLabels (labels ++ ")" :: body) acc = some (acc.reverse ++ labels, body) := by
  induction labels generalizing acc with
  | nil => simp [MM.parseLabels]
  | cons l labels ih =>
    have hne : l ≠ ")" := hl l (by simp)
    rw [List.cons_append]
    unfold MM.parseLabels
    split
    · next heq => simp at heq
    · next heq =>
      simp only [List.cons.injEq] at heq
      exact absurd heq.1 hne
    · next heq =>
      simp only [List.cons.injEq] at heq
      obtain ⟨rfl, rfl⟩ := heq
      rw [ih _ (fun x hx => hl x (List.mem_cons_of_mem _ hx))]
      simp

/-- what the model returns, as the `Proof` object of the Python code: the table numbered from 1 -/
def ofModel (r : List String × List Nat) : Proof := ⟨numbered 1 (r.1.map String.toList), r.2⟩

theorem contains_toList (vars : List String) (v : String) :
    (vars.map String.toList).contains v.toList = vars.contains v := by
  induction vars with
  | nil => simp
  | cons x vars ih =>
    simp only [List.map_cons, List.contains_cons, ih]
    congr 1
    rw [Bool.beq_eq_decide_eq, Bool.beq_eq_decide_eq]
    exact decide_eq_decide.mpr String.toList_inj

theorem filter_toList (xs : List String) (p : String → Bool) (q : Str → Bool) (h : ∀ x, q x.toList = p x) :
    (xs.map String.toList).filter q = (xs.filter p).map String.toList := by
  induction xs with
  | nil => simp
  | cons x xs ih => simp only [List.map_cons, List.filter_cons, h, ih]; split <;> simp

theorem sorted_toList (xs : List String) :
    pySorted (xs.map String.toList) = (xs.mergeSort (fun a b => decide (a ≤ b))).map String.toList := by
  unfold pySorted
  rw [List.map_mergeSort]
  intro a _ b _
  exact decide_eq_decide.mpr Iff.rfl

/-- the mandatory hypotheses of the generated code are those of the model -/
theorem mandatory_eq (floats vars : List String) (pf : Option Str) :
    mandatory ⟨floats.map String.toList⟩ ⟨vars.map String.toList, pf⟩
      = (((floats.filter (vars.contains ·)) ++ ((vars.filter (!floats.contains ·)).mergeSort (fun a b => a ≤ b))).map
          (· ++ "-is-pattern")).map String.toList := by
  unfold mandatory
  simp only
  rw [filter_toList floats (vars.contains ·) _ (fun x => contains_toList vars x),
    filter_toList vars (!floats.contains ·) _ (fun x => by rw [contains_toList]), sorted_toList, ← List.map_append,
    List.map_map, List.map_map]
  apply List.map_congr_left
  intro v _
  simp only [Function.comp, String.toList_append]
  rfl

theorem label_ne_close (l : String) (h : LabelOK l.toList) : l ≠ ")" := by
  intro e
  subst e
  exact (h.2 ')' (by decide)).2 rfl

/-- **The whole `_import_proof` on the characters = the model on the tokens**, for every proof string of the shape
`<pre> ( <ws> label₁ s₁ label₂ s₂ … labelₙ sₙ ) <tail>` where `pre` has no `(`, `ws` is any (possibly empty) run of whitespace,
every label is non-empty, free of whitespace and of `)`, every `sᵢ` is ONE whitespace character (any of Python's), and `tail` is
arbitrary; the model gets the tokens `(`, the labels, `)` and any token list `body` whose concatenation is the tail with the
whitespace removed. -/
theorem import_proof_layout (floats vars : List String) (labels : List (String × Char)) (body : List String)
    (pre ws tail : List Char)
    (hpre : ∀ c ∈ pre, c ≠ '(') (hws : ∀ c ∈ ws, pyIsSpace c = true)
    (hl : ∀ p ∈ labels, LabelOK p.1.toList ∧ pyIsSpace p.2 = true)
    (hbody : body.flatMap String.toList = tail.filter (fun c => !pyIsSpace c)) :
    import_proof ⟨floats.map String.toList⟩ ⟨vars.map String.toList,
        some (pre ++ '(' :: (ws ++ (flat (labels.map fun p => (p.1.toList, p.2)) ++ ')' :: tail)))⟩
      = (MM.importProof floats vars ("(" :: labels.map (·.1) ++ ")" :: body)).map ofModel := by
  rw [import_proof_layout_chars _ _ pre ws tail _ hpre hws (by
    intro p hp
    obtain ⟨q, hq, rfl⟩ := List.mem_map.mp hp
    exact hl q hq)]
  have hl' : ∀ l ∈ labels.map (·.1), l ≠ ")" := by
    intro l hm
    obtain ⟨q, hq, rfl⟩ := List.mem_map.mp hm
    exact label_ne_close _ (hl q hq).1
  simp only [MM.importProof, List.cons_append, parseLabels_spec _ body [] hl', Option.bind_eq_bind, Option.bind_some,
    List.reverse_nil, List.nil_append, hbody, mandatory_eq]
  have hm : (labels.map fun p => (p.1.toList, p.2)).map (·.1) = (labels.map (·.1)).map String.toList := by
    simp only [List.map_map, Function.comp_def]
  rw [hm]
  cases MM.tokenize (tail.filter fun c => !pyIsSpace c) [] with
  | none => simp
  | some st => simp [ofModel]

/-! ## the strings the parser produces: `' '.join(tokens)` -/

/-- `' '.join(tokens)` -/
def joinToks : List Str → Str
  | [] => []
  | [t] => t
  | t :: u :: ts => t ++ ' ' :: joinToks (u :: ts)

/-- what follows a token in `' '.join(..)` -/
def tailOf : List Str → Str
  | [] => []
  | u :: ts => ' ' :: joinToks (u :: ts)

theorem joinToks_cons (t : Str) (ts : List Str) : joinToks (t :: ts) = t ++ tailOf ts := by
  cases ts <;> simp [joinToks, tailOf]

theorem joinToks_labels (ls : List Str) (c : Str) (bs : List Str) :
    joinToks (ls ++ c :: bs) = flat (ls.map fun l => (l, ' ')) ++ (c ++ tailOf bs) := by
  induction ls with
  | nil => simp [flat, joinToks_cons]
  | cons l ls ih =>
    rw [List.cons_append, joinToks_cons]
    cases h : ls ++ c :: bs with
    | nil => simp at h
    | cons u us =>
      have e : tailOf (u :: us) = ' ' :: joinToks (u :: us) := rfl
      rw [e, ← h, ih]
      simp [flat]

theorem tailOf_filter (bs : List Str) (hb : ∀ b ∈ bs, ∀ c ∈ b, pyIsSpace c = false) :
    (tailOf bs).filter (fun c => !pyIsSpace c) = bs.flatten := by
  have hf : ∀ b : Str, (∀ c ∈ b, pyIsSpace c = false) → b.filter (fun c => !pyIsSpace c) = b := by
    intro b h
    rw [List.filter_eq_self]
    intro c hc
    simp [h c hc]
  have hsp : pyIsSpace ' ' = true := by decide
  induction bs with
  | nil => simp [tailOf]
  | cons b bs ih =>
    have hb' : ∀ x ∈ bs, ∀ c ∈ x, pyIsSpace c = false := fun x hx => hb x (List.mem_cons_of_mem _ hx)
    show (' ' :: joinToks (b :: bs)).filter (fun c => !pyIsSpace c) = _
    rw [joinToks_cons]
    simp only [List.filter_cons, hsp, Bool.not_true, Bool.false_eq_true, if_false,
      List.filter_append, hf b (hb b (by simp)), ih hb', List.flatten_cons]

/-- **`_import_proof` on what the parser stores = the model on the tokens**: `statement.proof` is `' '.join(tokens)`
(`ASTTransformer.provable_stmt`); if the tokens are `(`, labels that are non-empty and free of whitespace and of the character `)`,
the token `)`, and then any tokens free of (Python-)whitespace, the generated code on the joined string is the model on the tokens. -/
theorem import_proof_parsed (floats vars labels body : List String)
    (hl : ∀ l ∈ labels, LabelOK l.toList) (hb : ∀ b ∈ body, ∀ c ∈ b.toList, pyIsSpace c = false) :
    import_proof ⟨floats.map String.toList⟩ ⟨vars.map String.toList,
        some (joinToks (("(" :: labels ++ ")" :: body).map String.toList))⟩
      = (MM.importProof floats vars ("(" :: labels ++ ")" :: body)).map ofModel := by
  have hsp : pyIsSpace ' ' = true := by decide
  have key := import_proof_layout floats vars (labels.map fun l => (l, ' ')) body [] [' ']
    (tailOf (body.map String.toList)) (by simp) (by simp [hsp]) (by
      intro p hp
      obtain ⟨l, hl', rfl⟩ := List.mem_map.mp hp
      exact ⟨hl l hl', hsp⟩) (by
      rw [tailOf_filter _ (by
        intro b hb'
        obtain ⟨x, hx, rfl⟩ := List.mem_map.mp hb'
        exact hb x hx)]
      simp [List.flatMap])
  have e1 : (labels.map fun l => (l, ' ')).map (·.1) = labels := by
    simp only [List.map_map, Function.comp_def, List.map_id']
  have e2 : (labels.map fun l => (l, ' ')).map (fun p => (p.1.toList, p.2))
      = (labels.map String.toList).map fun l => (l, ' ') := by
    simp only [List.map_map, Function.comp_def]
  rw [e1, e2] at key
  rw [← key]
  congr 3
  simp only [List.map_cons, List.map_append, List.cons_append]
  have hp1 : ("(" : String).toList = ['('] := by decide
  have hp2 : (")" : String).toList = [')'] := by decide
  rw [joinToks_cons, hp1]
  cases hlb : labels.map String.toList ++ (")" : String).toList :: body.map String.toList with
  | nil => simp at hlb
  | cons u us =>
    have e : tailOf (u :: us) = ' ' :: joinToks (u :: us) := rfl
    rw [e, ← hlb, joinToks_labels, hp2]
    simp

/-! ## the corner cases of the character-level code

`import_proof_factor` reduces `_import_proof` to `parse_lemmas` and the two letter loops for an ARBITRARY proof string; the
concrete strings below are then evaluated by the kernel (`decide`).  Each string was also run through the real
`MetamathConverter._import_proof` (see the report): the results are the ones stated here. -/

/-- `_import_proof` behind the numbering of the mandatory hypotheses `M` -/
def afterMandatory (M : List Str) (proof : Option Str) : Option Proof := do
  let s ← pyAssertStr proof
  let (off, d) ← parse_lemmas s (numbered 1 M)
  let letters ← split_proof_for2 (pySliceFrom s off) []
  let (r, _) ← import_proof_for1 letters ⟨d, []⟩ []
  pure r

theorem import_proof_factor (self : Converter) (statement : ProvableStatement) :
    import_proof self statement = afterMandatory (mandatory self statement) statement.proof := by
  unfold import_proof split_proof afterMandatory
  cases pyAssertStr statement.proof with
  | none => simp
  | some s =>
    simp only [Option.bind_eq_bind, Option.bind_some]
    have h1 := split_for1_eq ((self._floating_patterns.filter fun m => statement.get_metavariables.contains m) ++
      pySorted (statement.get_metavariables.filter fun m => !(self._floating_patterns.contains m))) []
    simp only [numbered, List.length_nil, Nat.zero_add, List.nil_append] at h1
    rw [h1]
    simp only [Option.bind_some]
    unfold mandatory
    cases parse_lemmas s _ with
    | none => simp
    | some p =>
      simp only [Option.bind_some]
      cases split_proof_for2 _ _ with
      | none => simp
      | some l => simp

theorem mandatory_nil (pf : Option Str) : mandatory ⟨[]⟩ ⟨[], pf⟩ = [] := by
  simp [mandatory, pySorted]

/-- the generated `_import_proof` of a statement without metavariables, on a proof string -/
def run (s : String) : Option Proof := import_proof ⟨[]⟩ ⟨[], some s.toList⟩
/-- the model on tokens, no metavariables -/
def model (toks : List String) : Option Proof := (MM.importProof [] [] toks).map ofModel

theorem run_eq (s : String) : run s = afterMandatory [] (some s.toList) := by
  unfold run; rw [import_proof_factor, mandatory_nil]

theorem model_eq (toks : List String) :
    model toks = match toks with
      | "(" :: rest => (MM.parseLabels rest []).bind fun p =>
          (MM.tokenize (p.2.flatMap String.toList) []).map fun st => ⟨numbered 1 (p.1.map String.toList), st⟩
      | _ => none := by
  unfold model MM.importProof
  split
  · next rest =>
    simp only [List.filter_nil, List.mergeSort_nil, List.append_nil, List.map_nil, List.nil_append, Option.bind_eq_bind,
      Option.pure_def]
    cases MM.parseLabels rest [] with
    | none => simp
    | some p =>
      simp only [Option.bind_some]
      cases MM.tokenize (p.2.flatMap String.toList) [] with
      | none => simp
      | some st => simp [ofModel]
  · next h =>
    split
    · next rest => exact absurd rfl (h rest)
    · simp

/-! ### where the two agree (instances of `import_proof_parsed` / `import_proof_no_paren`, evaluated) -/

theorem corner_wellformed :
    run "( a b ) ABZ" = some ⟨[(1, ['a']), (2, ['b'])], [1, 2, 0]⟩ ∧
    model ["(", "a", "b", ")", "ABZ"] = some ⟨[(1, ['a']), (2, ['b'])], [1, 2, 0]⟩ := by
  rw [run_eq, model_eq]; decide
theorem corner_empty_label_list :
    run "( ) AB" = some ⟨[], [1, 2]⟩ ∧ model ["(", ")", "AB"] = some ⟨[], [1, 2]⟩ := by
  rw [run_eq, model_eq]; decide
theorem corner_no_letters :
    run "( a )" = some ⟨[(1, ['a'])], []⟩ ∧ model ["(", "a", ")"] = some ⟨[(1, ['a'])], []⟩ := by
  rw [run_eq, model_eq]; decide
/-- any single whitespace character separates labels (here a newline), blanks inside / behind the letters are dropped -/
theorem corner_other_whitespace :
    run "(\n a\nb\t) U A " = some ⟨[(1, ['a']), (2, ['b'])], [21]⟩ ∧
    model ["(", "a", "b", ")", "U", "A"] = some ⟨[(1, ['a']), (2, ['b'])], [21]⟩ := by
  rw [run_eq, model_eq]; decide
/-- no `(` at all (an uncompressed proof): Python raises `UnboundLocalError` (`_j`), the model rejects -/
theorem corner_no_paren : run "a b c" = none ∧ model ["a", "b", "c"] = none := by
  rw [run_eq, model_eq]; decide
/-- nothing after `(`: Python raises `UnboundLocalError` (`_j`), the model rejects -/
theorem corner_only_open : run "(" = none ∧ model ["("] = none := by
  rw [run_eq, model_eq]; decide
/-- `assert proof` -/
theorem corner_empty : run "" = none ∧ model [] = none := by
  rw [run_eq, model_eq]; decide
/-- `assert buffer == ''`: a `Z` inside a number -/
theorem corner_Z_inside_number : run "( a ) UZ" = none ∧ model ["(", "a", ")", "UZ"] = none := by
  rw [run_eq, model_eq]; decide
/-- `KeyError`: a letter that is no digit in front of a closing digit -/
theorem corner_bad_letter : run "( a ) ?A" = none ∧ model ["(", "a", ")", "?A"] = none := by
  rw [run_eq, model_eq]; decide
/-- a trailing incomplete number is silently ignored by both -/
theorem corner_trailing_incomplete :
    run "( a ) AU" = some ⟨[(1, ['a'])], [1]⟩ ∧ model ["(", "a", ")", "AU"] = some ⟨[(1, ['a'])], [1]⟩ := by
  rw [run_eq, model_eq]; decide

/-! ### where they DIFFER, on strings the parser produces (each is `' '.join` of its tokens; checked through the real
`parse_database` + `MetamathConverter`): the Python code ACCEPTS ill-formed compressed proofs the model rejects -/

/-- tokens in front of `(` are skipped -/
theorem differ_prefix :
    run "x ( a ) AB" = some ⟨[(1, ['a'])], [1, 2]⟩ ∧ model ["x", "(", "a", ")", "AB"] = none := by
  rw [run_eq, model_eq]; decide
/-- a label list that is never closed: the last token is dropped, no steps -/
theorem differ_unterminated :
    run "( a b" = some ⟨[(1, ['a'])], []⟩ ∧ model ["(", "a", "b"] = none := by
  rw [run_eq, model_eq]; decide
theorem differ_unterminated_one : run "( a" = some ⟨[], []⟩ ∧ model ["(", "a"] = none := by
  rw [run_eq, model_eq]; decide
/-- `)` glued to a label: the label is dropped (it is only registered at a whitespace character) -/
theorem differ_close_glued :
    run "( a) AB" = some ⟨[], [1, 2]⟩ ∧ model ["(", "a)", "AB"] = none := by
  rw [run_eq, model_eq]; decide
/-- `(` glued to the first label -/
theorem differ_open_glued :
    run "(a b ) AB" = some ⟨[(1, ['a']), (2, ['b'])], [1, 2]⟩ ∧ model ["(a", "b", ")", "AB"] = none := by
  rw [run_eq, model_eq]; decide
theorem differ_open_close_glued : run "()" = some ⟨[], []⟩ ∧ model ["()"] = none := by
  rw [run_eq, model_eq]; decide
/-- a `)` inside a label ends the list there; both succeed, with different results -/
theorem differ_close_inside_label :
    run "( a)A )" = some ⟨[], [1]⟩ ∧ model ["(", "a)A", ")"] = some ⟨[(1, ['a', ')', 'A'])], []⟩ := by
  rw [run_eq, model_eq]; decide
/-- a character that is whitespace for `str.isspace` but not for the lexer (`TOKEN: /[^ \n\t\f\r\$]+/`), here U+00A0,
splits a label … -/
theorem differ_nbsp_in_label :
    run "( a\u00a0b ) A" = some ⟨[(1, ['a']), (2, ['b'])], [1]⟩ ∧
    model ["(", "a\u00a0b", ")", "A"] = some ⟨[(1, ['a', Char.ofNat 160, 'b'])], [1]⟩ := by
  rw [run_eq, model_eq]; decide
/-- … and disappears from the letters -/
theorem differ_nbsp_in_letters :
    run "( a ) A\u00a0B" = some ⟨[(1, ['a'])], [1, 2]⟩ ∧ model ["(", "a", ")", "A\u00a0B"] = none := by
  rw [run_eq, model_eq]; decide

/-! ### where they differ on strings the parser does NOT produce (the tokens are joined by single blanks, no blank at the end) -/

/-- two blanks between labels: a phantom empty label -/
theorem differ_double_blank :
    run "( a  b ) AB" = some ⟨[(1, ['a']), (2, []), (3, ['b'])], [1, 2]⟩ ∧
    model ["(", "a", "b", ")", "AB"] = some ⟨[(1, ['a']), (2, ['b'])], [1, 2]⟩ := by
  rw [run_eq, model_eq]; decide
/-- a blank behind `(` at the end of the string: a phantom empty label -/
theorem differ_trailing_blank : run "( " = some ⟨[(1, [])], []⟩ ∧ model ["("] = none := by
  rw [run_eq, model_eq]; decide

/-! ### the general form of two of the differences -/

/-- the model rejects whatever does not start with the token `(` … -/
theorem model_needs_open (floats vars : List String) (t : String) (ts : List String) (h : t ≠ "(") :
    MM.importProof floats vars (t :: ts) = none := by
  unfold MM.importProof
  split
  · next rest heq => simp only [List.cons.injEq] at heq; exact absurd heq.1 h
  · rfl

theorem parseLabels_none (toks acc : List String) (h : ∀ t ∈ toks, t ≠ ")") : MM.parseLabels toks acc = none := by
  induction toks generalizing acc with
  | nil => simp [MM.parseLabels]
  | cons t toks ih =>
    have hne : t ≠ ")" := h t (by simp)
    unfold MM.parseLabels
    split
    · next heq => simp at heq
    · next heq => simp only [List.cons.injEq] at heq; exact absurd heq.1 hne
    · next heq =>
      simp only [List.cons.injEq] at heq
      obtain ⟨rfl, rfl⟩ := heq
      exact ih _ (fun x hx => h x (List.mem_cons_of_mem _ hx))

/-- … and whatever has no token `)` behind it -/
theorem model_needs_close (floats vars toks : List String) (h : ∀ t ∈ toks, t ≠ ")") :
    MM.importProof floats vars ("(" :: toks) = none := by
  simp [MM.importProof, parseLabels_none toks [] h]

/-- loop 3 on the characters of a last, unterminated label -/
theorem for3_tail (l : Str) (k : Nat) (o : Option Nat) (d : PyDict Nat Str) (n : Nat) (b : Str)
    (hl : ∀ c ∈ l, pyIsSpace c = false ∧ c ≠ ')') :
    parse_lemmas_for3 (pyEnumerateFrom k l) o d n b = some (if l = [] then o else some (k + l.length - 1), d, n, b ++ l) := by
  induction l generalizing k o b with
  | nil => simp [pyEnumerateFrom, parse_lemmas_for3]
  | cons x l ih =>
    obtain ⟨hx1, hx2⟩ := hl x (by simp)
    have hx2' : (x == ')') = false := by simpa using hx2
    simp only [pyEnumerateFrom, parse_lemmas_for3, hx1, hx2', Bool.false_eq_true, if_false]
    rw [ih _ _ _ (fun c hc => hl c (List.mem_cons_of_mem _ hc))]
    cases l with
    | nil => simp
    | cons y l =>
      simp only [reduceCtorEq, if_false, List.length_cons, List.append_assoc, List.cons_append, List.nil_append]
      congr 3; omega

theorem for3_unterminated (labels : List (Str × Char)) (last : Str) (k : Nat) (o : Option Nat) (xs : List Str)
    (hl : ∀ p ∈ labels, (∀ c ∈ p.1, pyIsSpace c = false ∧ c ≠ ')') ∧ pyIsSpace p.2 = true)
    (hlast : LabelOK last) :
    parse_lemmas_for3 (pyEnumerateFrom k (flat labels ++ last)) o (numbered 1 xs) (xs.length + 1) []
      = some (some (k + (flat labels).length + last.length - 1), numbered 1 (xs ++ labels.map (·.1)),
          xs.length + labels.length + 1, last) := by
  induction labels generalizing k o xs with
  | nil =>
    have hne := hlast.1
    simp only [flat, List.flatMap_nil, List.nil_append, for3_tail last k o _ _ [] hlast.2, hne, if_false, List.length_nil,
      Nat.add_zero, List.map_nil, List.append_nil]
  | cons p labels ih =>
    obtain ⟨l, sep⟩ := p
    obtain ⟨hl1, hl2⟩ := hl (l, sep) (by simp)
    have e : flat ((l, sep) :: labels) ++ last = l ++ sep :: (flat labels ++ last) := by simp [flat]
    rw [e, for3_label l sep _ k o _ _ [] hl1 hl2]
    have hd : dictSet (numbered 1 xs) (xs.length + 1) ([] ++ l) = numbered 1 (xs ++ [l]) := by
      rw [Nat.add_comm, List.nil_append, dictSet_numbered]
    rw [hd]
    have := ih (k + l.length + 1) (some (k + l.length)) (xs ++ [l]) (fun q hq => hl q (List.mem_cons_of_mem _ hq))
    simp only [List.length_append, List.length_cons, List.length_nil] at this
    rw [this]
    have hlen : (flat ((l, sep) :: labels)).length = l.length + 1 + (flat labels).length := by
      simp only [flat, List.flatMap_cons, List.length_append, List.length_cons, List.length_nil]
    rw [hlen]
    simp only [List.map_cons, List.append_assoc, List.cons_append, List.nil_append, List.length_cons]
    have a1 : k + l.length + 1 + (flat labels).length + last.length - 1
        = k + (l.length + 1 + (flat labels).length) + last.length - 1 := by omega
    have a2 : xs.length + (0 + 1) + labels.length + 1 = xs.length + (labels.length + 1) + 1 := by omega
    rw [a1, a2]

/-- **An unterminated label list is accepted**: on `<pre> ( <ws> label₁ s₁ … labelₙ sₙ last` (no `)` anywhere behind `(`) the
Python code returns the table with the labels BUT THE LAST TOKEN and no steps, where the model (and Metamath) reject. -/
theorem import_proof_unterminated_chars (self : Converter) (mvs : List Str) (pre ws : List Char) (labels : List (Str × Char))
    (last : Str)
    (hpre : ∀ c ∈ pre, c ≠ '(') (hws : ∀ c ∈ ws, pyIsSpace c = true)
    (hl : ∀ p ∈ labels, LabelOK p.1 ∧ pyIsSpace p.2 = true) (hlast : LabelOK last) :
    import_proof self ⟨mvs, some (pre ++ '(' :: (ws ++ (flat labels ++ last)))⟩
      = some ⟨numbered 1 (mandatory self ⟨mvs, some (pre ++ '(' :: (ws ++ (flat labels ++ last)))⟩ ++ labels.map (·.1)), []⟩ := by
  have hhead : ∃ c rest, flat labels ++ last = c :: rest ∧ pyIsSpace c = false := by
    cases labels with
    | nil =>
      cases hq : last with
      | nil => exact absurd hq hlast.1
      | cons c l => exact ⟨c, l, by simp [flat], (hlast.2 c (by rw [hq]; simp)).1⟩
    | cons p labels =>
      obtain ⟨hne, hc⟩ := (hl p (by simp)).1
      cases hp : p.1 with
      | nil => exact absurd hp hne
      | cons c l =>
        exact ⟨c, l ++ [p.2] ++ (flat labels ++ last), by simp [flat, hp], (hc c (by rw [hp]; simp)).1⟩
  obtain ⟨c, rest, hcr, hc⟩ := hhead
  rw [import_proof_factor]
  unfold afterMandatory
  generalize mandatory self _ = M
  have hne : pyAssertStr (some (pre ++ '(' :: (ws ++ (flat labels ++ last)))) = some (pre ++ '(' :: (ws ++ (flat labels ++ last))) := by
    cases pre <;> simp [pyAssertStr]
  simp only [hne, Option.bind_eq_bind, Option.bind_some]
  have hp : parse_lemmas (pre ++ '(' :: (ws ++ (flat labels ++ last))) (numbered 1 M)
      = some ((pre ++ '(' :: (ws ++ (flat labels ++ last))).length, numbered 1 (M ++ labels.map (·.1))) := by
    unfold parse_lemmas pyEnumerate pySliceFrom
    rw [for1_found pre _ 0 none hpre]
    simp only [Option.bind_eq_bind, Option.bind_some, Nat.zero_add]
    have e1 : (pre ++ '(' :: (ws ++ (flat labels ++ last))).drop (pre.length + 1) = ws ++ (flat labels ++ last) := by
      simp
    have e2 : (pre ++ '(' :: (ws ++ (flat labels ++ last))).drop (pre.length + ws.length + 1) = flat labels ++ last := by
      simpa using drop_append_len (pre ++ ['('] ++ ws) (flat labels ++ last) (pre.length + ws.length + 1) (by simp; omega)
    have h2 : parse_lemmas_for2 (pyEnumerateFrom 0 (ws ++ (flat labels ++ last))) none = some (some ws.length) := by
      rw [hcr]; simpa using for2_found ws rest c 0 none hws hc
    rw [e1, h2]
    simp only [Option.bind_some, numbered_length]
    rw [e2, for3_unterminated labels last 0 none M (fun p hp => ⟨(hl p hp).1.2, (hl p hp).2⟩) hlast]
    simp only [Option.bind_some, Nat.zero_add, Option.pure_def, Option.some.injEq, Prod.mk.injEq, and_true]
    have : 0 < last.length := List.length_pos_iff.mpr hlast.1
    simp only [List.length_append, List.length_cons]
    omega
  rw [hp]
  simp [pySliceFrom, split_proof_for2, import_proof_for1]

end ImportTie
