import Pi2.NotationThm
import Pi2.Match
/-!
# Matching: soundness and (partial-correctness) completeness of `match_single` / `match`
-/
open Pat

/-- no `esub`/`ssub` node anywhere -/
def Pat.SubstFree : Pat → Bool
  | .evar _ => true | .svar _ => true | .sym _ => true
  | .imp l r => l.SubstFree && r.SubstFree
  | .app l r => l.SubstFree && r.SubstFree
  | .ex _ p => p.SubstFree | .mu _ p => p.SubstFree
  | .mv .. => true
  | .esub .. => false
  | .ssub .. => false

namespace NPat
set_option linter.unusedSimpArgs false

/-! ## 1. `headF` -/

theorem headF_expand (n : Nat) (p q : NPat) :
    p.Shape = true → NPat.headF n p = some q →
    q.expand = p.expand ∧ q.Shape = true ∧ q.isInst = false := by
  induction n generalizing p with
  | zero => intro _ h; simp [headF] at h
  | succ n ih =>
    intro hp h
    cases p with
    | inst p' m =>
      simp only [headF, Option.bind_eq_bind, Option.bind_eq_some_iff] at h
      obtain ⟨s, hs, hq⟩ := h
      simp only [Shape, Bool.and_eq_true] at hp
      obtain ⟨es, ss⟩ := instF_expand _ _ _ _ hp.1 hp.2 hs
      obtain ⟨eq, sq, iq⟩ := ih _ ss hq
      exact ⟨by rw [eq, es]; simp only [expand], sq, iq⟩
    | _ =>
      simp only [headF, Option.some.injEq] at h; subst h
      exact ⟨rfl, hp, by simp [isInst]⟩

/-! ## 5. corollaries about `peqF` -/

theorem peqF_refl (n : Nat) (a : NPat) (r : Bool) :
    a.Shape = true → peqF n a a = some r → r = true := by
  intro ha h
  simpa using peqF_expand n a a r ha ha h

theorem peqF_symm (n m : Nat) (a b : NPat) (r r' : Bool) :
    a.Shape = true → b.Shape = true → peqF n a b = some r → peqF m b a = some r' → r = r' := by
  intro ha hb h h'
  rw [peqF_expand n a b r ha hb h, peqF_expand m b a r' hb ha h']
  exact decide_eq_decide.mpr ⟨Eq.symm, Eq.symm⟩

theorem peqF_trans (n m k : Nat) (a b c : NPat) (r : Bool) :
    a.Shape = true → b.Shape = true → c.Shape = true →
    peqF n a b = some true → peqF m b c = some true → peqF k a c = some r → r = true := by
  intro ha hb hc h1 h2 h3
  have e1 : a.expand = b.expand := by simpa using (peqF_expand n a b true ha hb h1).symm
  have e2 : b.expand = c.expand := by simpa using (peqF_expand m b c true hb hc h2).symm
  rw [peqF_expand k a c r ha hc h3]
  simp [e1, e2]

/-! ## 2. soundness of `matchF` -/

/-- the conclusion of soundness, on the expansions -/
def SoundC (P I : Pat) (s s' : Subst) : Prop :=
  Py.inst (Py.lookup (expand.expandMap s')) P = I
  ∧ (∀ k v, Py.lookup s k = some v → Py.lookup s' k = some v)
  ∧ (∀ k ∈ Py.metavars P, (Py.lookup s' k).isSome = true)
  ∧ ShapeMap s' = true

/-- extending a substitution that binds all metavariables of `P` does not change `P`'s instance -/
theorem inst_extend (P : Pat) (r1 s' : Subst)
    (hb : ∀ k ∈ Py.metavars P, (Py.lookup r1 k).isSome = true)
    (hmono : ∀ k v, Py.lookup r1 k = some v → Py.lookup s' k = some v) :
    Py.inst (Py.lookup (expand.expandMap s')) P = Py.inst (Py.lookup (expand.expandMap r1)) P
    ∧ ∀ k ∈ Py.metavars P, (Py.lookup s' k).isSome = true := by
  constructor
  · apply Py.inst_congr
    intro k hk
    obtain ⟨v, hv⟩ := Option.isSome_iff_exists.mp (hb k hk)
    rw [lookup_expandMap, lookup_expandMap, hv, hmono k v hv]
  · intro k hk
    obtain ⟨v, hv⟩ := Option.isSome_iff_exists.mp (hb k hk)
    rw [hmono k v hv]; rfl

theorem soundC_pair {Pl Il Pr Ir : Pat} {s r1 s' : Subst}
    (c1 : SoundC Pl Il s r1) (c2 : SoundC Pr Ir r1 s') :
    Py.inst (Py.lookup (expand.expandMap s')) Pl = Il
    ∧ Py.inst (Py.lookup (expand.expandMap s')) Pr = Ir
    ∧ (∀ k v, Py.lookup s k = some v → Py.lookup s' k = some v)
    ∧ (∀ k, (k ∈ Py.metavars Pl ∨ k ∈ Py.metavars Pr) → (Py.lookup s' k).isSome = true)
    ∧ ShapeMap s' = true := by
  obtain ⟨e1, m1, b1, _⟩ := c1
  obtain ⟨e2, m2, b2, sh2⟩ := c2
  obtain ⟨e1', b1'⟩ := inst_extend Pl r1 s' b1 m2
  refine ⟨e1'.trans e1, e2, fun k v h => m2 k v (m1 k v h), ?_, sh2⟩
  intro k hk
  rcases hk with hk | hk
  · exact b1' k hk
  · exact b2 k hk

theorem soundC_imp {Pl Il Pr Ir : Pat} {s r1 s' : Subst}
    (c1 : SoundC Pl Il s r1) (c2 : SoundC Pr Ir r1 s') :
    SoundC (.imp Pl Pr) (.imp Il Ir) s s' := by
  obtain ⟨e1, e2, m, b, sh⟩ := soundC_pair c1 c2
  refine ⟨by simp [Py.inst, e1, e2], m, ?_, sh⟩
  intro k hk
  exact b k (by simpa [Py.metavars] using hk)

theorem soundC_app {Pl Il Pr Ir : Pat} {s r1 s' : Subst}
    (c1 : SoundC Pl Il s r1) (c2 : SoundC Pr Ir r1 s') :
    SoundC (.app Pl Pr) (.app Il Ir) s s' := by
  obtain ⟨e1, e2, m, b, sh⟩ := soundC_pair c1 c2
  refine ⟨by simp [Py.inst, e1, e2], m, ?_, sh⟩
  intro k hk
  exact b k (by simpa [Py.metavars] using hk)

theorem soundC_ex {P I : Pat} {s s' : Subst} (x : VId) (c : SoundC P I s s') :
    SoundC (.ex x P) (.ex x I) s s' := by
  obtain ⟨e, m, b, sh⟩ := c
  exact ⟨by simp [Py.inst, e], m, by simpa [Py.metavars] using b, sh⟩

theorem soundC_mu {P I : Pat} {s s' : Subst} (x : VId) (c : SoundC P I s s') :
    SoundC (.mu x P) (.mu x I) s s' := by
  obtain ⟨e, m, b, sh⟩ := c
  exact ⟨by simp [Py.inst, e], m, by simpa [Py.metavars] using b, sh⟩

theorem soundC_atom (P : Pat) (s : Subst) (hs : ShapeMap s = true)
    (hP : ∀ δ, Py.inst δ P = P) (hm : Py.metavars P = []) : SoundC P P s s :=
  ⟨hP _, fun _ _ h => h, by simp [hm], hs⟩

def SoundOK (n : Nat) : Prop :=
  ∀ (p i : NPat) (s s' : Subst), p.Shape = true → i.Shape = true → ShapeMap s = true →
    matchF n p i s = some (some s') → SoundC p.expand i.expand s s'

theorem sound_mv (n : Nat) (id : VId) (ef sf ps ns hs : List VId) (ins : NPat) (ret s' : Subst)
    (hins : ins.Shape = true) (hret : ShapeMap ret = true)
    (h : (match Py.lookup ret id with
          | some v => (peqF n v ins).bind fun eq => pure (if eq = true then some ret else none)
          | none => pure (some (ret ++ [(id, ins)]))) = some (some s')) :
    SoundC (mv id ef sf ps ns hs).expand ins.expand ret s' := by
  cases hl : Py.lookup ret id with
  | some v =>
    simp only [hl, Option.bind_eq_some_iff, Option.pure_def, Option.some.injEq] at h
    obtain ⟨eq, heq, hr⟩ := h
    have hv := shape_of_lookup ret hret id v hl
    have e := peqF_expand _ _ _ _ hv hins heq
    cases eq with
    | false => simp at hr
    | true =>
      simp at hr; subst hr
      have e' : v.expand = ins.expand := by simpa using e.symm
      refine ⟨?_, fun _ _ h => h, ?_, hret⟩
      · simp [expand, Py.inst, lookup_expandMap, hl, e']
      · simp [expand, Py.metavars, hl]
  | none =>
    simp only [hl, Option.pure_def, Option.some.injEq] at h
    subst h
    refine ⟨?_, ?_, ?_, ?_⟩
    · simp [expand, Py.inst, lookup_expandMap, Py.lookup_append, hl, Py.lookup]
    · intro k v hk; simp [Py.lookup_append, hk]
    · simp [expand, Py.metavars, Py.lookup_append, hl, Py.lookup]
    · simp [shapeMap_append, hret, ShapeMap, hins]

theorem sound_step (n : Nat) (ih : SoundOK n) : SoundOK (n + 1) := by
  intro pat ins ret s' hpat hins hret h
  simp only [matchF, Option.bind_eq_bind, Option.bind_eq_some_iff] at h
  obtain ⟨p, hp, h⟩ := h
  obtain ⟨ep, sp, ip⟩ := headF_expand _ _ _ hpat hp
  rw [← ep]
  cases p with
  | mv id ef sf ps ns hs => exact sound_mv n id ef sf ps ns hs ins ret s' hins hret h
  | inst p' m => simp [isInst] at ip
  | imp pl pr =>
    simp only [Option.bind_eq_bind, Option.bind_eq_some_iff] at h
    obtain ⟨i, hi, h⟩ := h
    obtain ⟨ei, si, ii⟩ := headF_expand _ _ _ hins hi
    rw [← ei]
    cases i with
    | imp il ir =>
      simp only [Option.bind_eq_bind, Option.bind_eq_some_iff, Option.pure_def] at h
      obtain ⟨a, ha, h⟩ := h
      cases a with
      | none => simp at h
      | some r1 =>
        simp only [] at h
        simp only [Shape, Bool.and_eq_true] at sp si
        have c1 := ih _ _ _ _ sp.1 si.1 hret ha
        have c2 := ih _ _ _ _ sp.2 si.2 c1.2.2.2 h
        simpa only [expand] using soundC_imp c1 c2
    | _ => simp at h
  | app pl pr =>
    simp only [Option.bind_eq_bind, Option.bind_eq_some_iff] at h
    obtain ⟨i, hi, h⟩ := h
    obtain ⟨ei, si, ii⟩ := headF_expand _ _ _ hins hi
    rw [← ei]
    cases i with
    | app il ir =>
      simp only [Option.bind_eq_bind, Option.bind_eq_some_iff, Option.pure_def] at h
      obtain ⟨a, ha, h⟩ := h
      cases a with
      | none => simp at h
      | some r1 =>
        simp only [] at h
        simp only [Shape, Bool.and_eq_true] at sp si
        have c1 := ih _ _ _ _ sp.1 si.1 hret ha
        have c2 := ih _ _ _ _ sp.2 si.2 c1.2.2.2 h
        simpa only [expand] using soundC_app c1 c2
    | _ => simp at h
  | ex x pb =>
    simp only [Option.bind_eq_bind, Option.bind_eq_some_iff] at h
    obtain ⟨i, hi, h⟩ := h
    obtain ⟨ei, si, ii⟩ := headF_expand _ _ _ hins hi
    rw [← ei]
    cases i with
    | ex y ib =>
      simp only [Option.pure_def] at h
      split at h
      · next hxy =>
        subst hxy
        simp only [Shape] at sp si
        simpa only [expand] using soundC_ex x (ih _ _ _ _ sp si hret h)
      · simp at h
    | _ => simp at h
  | mu x pb =>
    simp only [Option.bind_eq_bind, Option.bind_eq_some_iff] at h
    obtain ⟨i, hi, h⟩ := h
    obtain ⟨ei, si, ii⟩ := headF_expand _ _ _ hins hi
    rw [← ei]
    cases i with
    | mu y ib =>
      simp only [Option.pure_def] at h
      split at h
      · next hxy =>
        subst hxy
        simp only [Shape] at sp si
        simpa only [expand] using soundC_mu x (ih _ _ _ _ sp si hret h)
      · simp at h
    | _ => simp at h
  | evar x =>
    simp only [Option.bind_eq_bind, Option.bind_eq_some_iff] at h
    obtain ⟨i, hi, h⟩ := h
    obtain ⟨ei, si, ii⟩ := headF_expand _ _ _ hins hi
    rw [← ei]
    cases i with
    | evar y =>
      simp only [Option.pure_def, Option.some.injEq] at h
      split at h
      · next hxy =>
        subst hxy
        simp only [Option.some.injEq] at h; subst h
        exact soundC_atom _ _ hret (by simp [expand, Py.inst]) (by simp [expand, Py.metavars])
      · simp at h
    | _ => simp at h
  | svar x =>
    simp only [Option.bind_eq_bind, Option.bind_eq_some_iff] at h
    obtain ⟨i, hi, h⟩ := h
    obtain ⟨ei, si, ii⟩ := headF_expand _ _ _ hins hi
    rw [← ei]
    cases i with
    | svar y =>
      simp only [Option.pure_def, Option.some.injEq] at h
      split at h
      · next hxy =>
        subst hxy
        simp only [Option.some.injEq] at h; subst h
        exact soundC_atom _ _ hret (by simp [expand, Py.inst]) (by simp [expand, Py.metavars])
      · simp at h
    | _ => simp at h
  | sym x =>
    simp only [Option.bind_eq_bind, Option.bind_eq_some_iff] at h
    obtain ⟨i, hi, h⟩ := h
    obtain ⟨ei, si, ii⟩ := headF_expand _ _ _ hins hi
    rw [← ei]
    cases i with
    | sym y =>
      simp only [Option.pure_def, Option.some.injEq] at h
      split at h
      · next hxy =>
        subst hxy
        simp only [Option.some.injEq] at h; subst h
        exact soundC_atom _ _ hret (by simp [expand, Py.inst]) (by simp [expand, Py.metavars])
      · simp at h
    | _ => simp at h
  | esub p' x q =>
    simp only [Option.bind_eq_bind, Option.bind_eq_some_iff] at h
    obtain ⟨i, hi, h⟩ := h
    cases i <;> simp at h
  | ssub p' x q =>
    simp only [Option.bind_eq_bind, Option.bind_eq_some_iff] at h
    obtain ⟨i, hi, h⟩ := h
    cases i <;> simp at h

theorem sound_all (n : Nat) : SoundOK n := by
  induction n with
  | zero => intro p i s s' _ _ _ h; simp [matchF] at h
  | succ n ih => exact sound_step n ih

theorem matchF_sound (n : Nat) (p i : NPat) (s s' : NPat.Subst) :
    p.Shape = true → i.Shape = true → NPat.ShapeMap s = true →
    NPat.matchF n p i s = some (some s') →
      Py.inst (Py.lookup (NPat.expand.expandMap s')) p.expand = i.expand
    ∧ (∀ k v, Py.lookup s k = some v → Py.lookup s' k = some v)
    ∧ (∀ k ∈ Py.metavars p.expand, (Py.lookup s' k).isSome = true)
    ∧ NPat.ShapeMap s' = true :=
  sound_all n p i s s'

/-! ## 3. completeness (partial-correctness form) -/

/-- every binding of `s` agrees with `θ` -/
def Agree (s : Subst) (θ : VId → Option Pat) : Prop :=
  ∀ k v, Py.lookup s k = some v → θ k = some v.expand

def CompleteOK (n : Nat) : Prop :=
  ∀ (p i : NPat) (s : Subst) (θ : VId → Option Pat) (r : Option Subst),
    p.Shape = true → i.Shape = true → ShapeMap s = true → p.expand.SubstFree = true →
    (∀ k ∈ Py.metavars p.expand, (θ k).isSome = true) → i.expand = Py.inst θ p.expand →
    Agree s θ → matchF n p i s = some r → ∃ s', r = some s' ∧ Agree s' θ

theorem complete_mv (n : Nat) (id : VId) (ef sf ps ns hs : List VId) (ins : NPat) (ret : Subst)
    (θ : VId → Option Pat) (r : Option Subst)
    (hins : ins.Shape = true) (hret : ShapeMap ret = true)
    (hθ : ∀ k ∈ Py.metavars (mv id ef sf ps ns hs).expand, (θ k).isSome = true)
    (hexp : ins.expand = Py.inst θ (mv id ef sf ps ns hs).expand) (hag : Agree ret θ)
    (h : (match Py.lookup ret id with
          | some v => (peqF n v ins).bind fun eq => pure (if eq = true then some ret else none)
          | none => pure (some (ret ++ [(id, ins)]))) = some r) :
    ∃ s', r = some s' ∧ Agree s' θ := by
  obtain ⟨w, hw⟩ := Option.isSome_iff_exists.mp (hθ id (by simp [expand, Py.metavars]))
  have hexp' : ins.expand = w := by simpa [expand, Py.inst, hw] using hexp
  cases hl : Py.lookup ret id with
  | some v =>
    simp only [hl, Option.bind_eq_some_iff, Option.pure_def, Option.some.injEq] at h
    obtain ⟨eq, heq, hr⟩ := h
    have hv := shape_of_lookup ret hret id v hl
    have e := peqF_expand _ _ _ _ hv hins heq
    have hvw : v.expand = w := by
      have := hag id v hl
      rw [hw] at this; exact (Option.some.inj this).symm
    have : eq = true := by rw [e]; simp [hvw, hexp']
    subst this
    exact ⟨ret, by simpa using hr.symm, hag⟩
  | none =>
    simp only [hl, Option.pure_def, Option.some.injEq] at h
    subst h
    refine ⟨_, rfl, ?_⟩
    intro k v hkv
    rw [Py.lookup_append] at hkv
    cases hk : Py.lookup ret k with
    | some v' =>
      rw [hk] at hkv
      simp only [Option.some_or, Option.some.injEq] at hkv
      subst hkv
      exact hag k v' hk
    | none =>
      rw [hk] at hkv
      simp only [Option.none_or, Py.lookup] at hkv
      split at hkv
      · next hik =>
        subst hik
        simp only [Option.some.injEq] at hkv; subst hkv
        rw [hw, hexp']
      · simp at hkv

/-- the two-field case (`imp`, `app`) -/
theorem complete_two (n : Nat) (ih : CompleteOK n) (pl pr il ir : NPat) (s : Subst)
    (θ : VId → Option Pat) (r : Option Subst) (a : Option Subst)
    (spl : pl.Shape = true) (spr : pr.Shape = true) (sil : il.Shape = true)
    (sir : ir.Shape = true) (hs : ShapeMap s = true)
    (fl : pl.expand.SubstFree = true) (fr : pr.expand.SubstFree = true)
    (hθl : ∀ k ∈ Py.metavars pl.expand, (θ k).isSome = true)
    (hθr : ∀ k ∈ Py.metavars pr.expand, (θ k).isSome = true)
    (el : il.expand = Py.inst θ pl.expand) (er : ir.expand = Py.inst θ pr.expand)
    (hag : Agree s θ) (ha : matchF n pl il s = some a)
    (hnone : a = none → some none = some r)
    (hsome : ∀ r1, a = some r1 → matchF n pr ir r1 = some r) :
    ∃ s', r = some s' ∧ Agree s' θ := by
  obtain ⟨r1, e1, ag1⟩ := ih _ _ _ _ _ spl sil hs fl hθl el hag ha
  subst e1
  have sh1 := (matchF_sound n pl il s r1 spl sil hs ha).2.2.2
  exact ih _ _ _ _ _ spr sir sh1 fr hθr er ag1 (hsome r1 rfl)

theorem complete_step (n : Nat) (ih : CompleteOK n) : CompleteOK (n + 1) := by
  intro pat ins ret θ r hpat hins hret hsf hθ hexp hag h
  simp only [matchF, Option.bind_eq_bind, Option.bind_eq_some_iff] at h
  obtain ⟨p, hp, h⟩ := h
  obtain ⟨ep, sp, ip⟩ := headF_expand _ _ _ hpat hp
  rw [← ep] at hsf hθ hexp
  cases p with
  | mv id ef sf ps ns hs => exact complete_mv n id ef sf ps ns hs ins ret θ r hins hret hθ hexp hag h
  | inst p' m => simp [isInst] at ip
  | esub p' x q => simp [expand, Pat.SubstFree] at hsf
  | ssub p' x q => simp [expand, Pat.SubstFree] at hsf
  | imp pl pr =>
    simp only [Option.bind_eq_bind, Option.bind_eq_some_iff] at h
    obtain ⟨i, hi, h⟩ := h
    obtain ⟨ei, si, ii⟩ := headF_expand _ _ _ hins hi
    rw [← ei] at hexp
    cases i with
    | imp il ir =>
      simp only [Option.bind_eq_bind, Option.bind_eq_some_iff, Option.pure_def] at h
      obtain ⟨a, ha, h⟩ := h
      simp only [Shape, Bool.and_eq_true] at sp si
      simp only [expand, Pat.SubstFree, Bool.and_eq_true] at hsf
      simp only [expand, Py.inst, Pat.imp.injEq] at hexp
      simp only [expand, Py.metavars, List.mem_append] at hθ
      exact complete_two n ih pl pr il ir ret θ r a sp.1 sp.2 si.1 si.2 hret hsf.1 hsf.2
        (fun k hk => hθ k (Or.inl hk)) (fun k hk => hθ k (Or.inr hk)) hexp.1 hexp.2 hag ha
        (fun e => by subst e; simpa using h) (fun r1 e => by subst e; simpa using h)
    | inst p' m => simp [isInst] at ii
    | _ => simp [expand, Py.inst] at hexp
  | app pl pr =>
    simp only [Option.bind_eq_bind, Option.bind_eq_some_iff] at h
    obtain ⟨i, hi, h⟩ := h
    obtain ⟨ei, si, ii⟩ := headF_expand _ _ _ hins hi
    rw [← ei] at hexp
    cases i with
    | app il ir =>
      simp only [Option.bind_eq_bind, Option.bind_eq_some_iff, Option.pure_def] at h
      obtain ⟨a, ha, h⟩ := h
      simp only [Shape, Bool.and_eq_true] at sp si
      simp only [expand, Pat.SubstFree, Bool.and_eq_true] at hsf
      simp only [expand, Py.inst, Pat.app.injEq] at hexp
      simp only [expand, Py.metavars, List.mem_append] at hθ
      exact complete_two n ih pl pr il ir ret θ r a sp.1 sp.2 si.1 si.2 hret hsf.1 hsf.2
        (fun k hk => hθ k (Or.inl hk)) (fun k hk => hθ k (Or.inr hk)) hexp.1 hexp.2 hag ha
        (fun e => by subst e; simpa using h) (fun r1 e => by subst e; simpa using h)
    | inst p' m => simp [isInst] at ii
    | _ => simp [expand, Py.inst] at hexp
  | ex x pb =>
    simp only [Option.bind_eq_bind, Option.bind_eq_some_iff] at h
    obtain ⟨i, hi, h⟩ := h
    obtain ⟨ei, si, ii⟩ := headF_expand _ _ _ hins hi
    rw [← ei] at hexp
    cases i with
    | ex y ib =>
      simp only [Shape] at sp si
      simp only [expand, Pat.SubstFree] at hsf
      simp only [expand, Py.inst, Pat.ex.injEq] at hexp
      simp only [expand, Py.metavars] at hθ
      obtain ⟨hyx, hexp⟩ := hexp
      subst hyx
      simp only [if_true] at h
      exact ih _ _ _ _ _ sp si hret hsf hθ hexp hag h
    | inst p' m => simp [isInst] at ii
    | _ => simp [expand, Py.inst] at hexp
  | mu x pb =>
    simp only [Option.bind_eq_bind, Option.bind_eq_some_iff] at h
    obtain ⟨i, hi, h⟩ := h
    obtain ⟨ei, si, ii⟩ := headF_expand _ _ _ hins hi
    rw [← ei] at hexp
    cases i with
    | mu y ib =>
      simp only [Shape] at sp si
      simp only [expand, Pat.SubstFree] at hsf
      simp only [expand, Py.inst, Pat.mu.injEq] at hexp
      simp only [expand, Py.metavars] at hθ
      obtain ⟨hyx, hexp⟩ := hexp
      subst hyx
      simp only [if_true] at h
      exact ih _ _ _ _ _ sp si hret hsf hθ hexp hag h
    | inst p' m => simp [isInst] at ii
    | _ => simp [expand, Py.inst] at hexp
  | evar x =>
    simp only [Option.bind_eq_bind, Option.bind_eq_some_iff] at h
    obtain ⟨i, hi, h⟩ := h
    obtain ⟨ei, si, ii⟩ := headF_expand _ _ _ hins hi
    rw [← ei] at hexp
    cases i with
    | evar y =>
      simp only [expand, Py.inst, Pat.evar.injEq] at hexp
      subst hexp
      simp only [Option.pure_def, if_true, Option.some.injEq] at h
      exact ⟨ret, h.symm, hag⟩
    | inst p' m => simp [isInst] at ii
    | _ => simp [expand, Py.inst] at hexp
  | svar x =>
    simp only [Option.bind_eq_bind, Option.bind_eq_some_iff] at h
    obtain ⟨i, hi, h⟩ := h
    obtain ⟨ei, si, ii⟩ := headF_expand _ _ _ hins hi
    rw [← ei] at hexp
    cases i with
    | svar y =>
      simp only [expand, Py.inst, Pat.svar.injEq] at hexp
      subst hexp
      simp only [Option.pure_def, if_true, Option.some.injEq] at h
      exact ⟨ret, h.symm, hag⟩
    | inst p' m => simp [isInst] at ii
    | _ => simp [expand, Py.inst] at hexp
  | sym x =>
    simp only [Option.bind_eq_bind, Option.bind_eq_some_iff] at h
    obtain ⟨i, hi, h⟩ := h
    obtain ⟨ei, si, ii⟩ := headF_expand _ _ _ hins hi
    rw [← ei] at hexp
    cases i with
    | sym y =>
      simp only [expand, Py.inst, Pat.sym.injEq] at hexp
      subst hexp
      simp only [Option.pure_def, if_true, Option.some.injEq] at h
      exact ⟨ret, h.symm, hag⟩
    | inst p' m => simp [isInst] at ii
    | _ => simp [expand, Py.inst] at hexp

theorem complete_all (n : Nat) : CompleteOK n := by
  induction n with
  | zero => intro p i s θ r _ _ _ _ _ _ _ h; simp [matchF] at h
  | succ n ih => exact complete_step n ih

theorem matchF_complete (n : Nat) (p i : NPat) (s : NPat.Subst) (θ : VId → Option Pat)
    (r : Option NPat.Subst) :
    p.Shape = true → i.Shape = true → NPat.ShapeMap s = true → p.expand.SubstFree = true →
    (∀ k ∈ Py.metavars p.expand, (θ k).isSome = true) → i.expand = Py.inst θ p.expand →
    (∀ k v, Py.lookup s k = some v → θ k = some v.expand) →
    NPat.matchF n p i s = some r →
    ∃ s', r = some s' ∧ (∀ k v, Py.lookup s' k = some v → θ k = some v.expand) :=
  complete_all n p i s θ r

/-! ## 4. `matchListF` -/

theorem matchListF_nil (n : Nat) (s : NPat.Subst) : NPat.matchListF n [] s = some (some s) := by
  simp [matchListF]

theorem matchListF_sound (n : Nat) (eqs : List (NPat × NPat)) (s s' : NPat.Subst) :
    (∀ pi ∈ eqs, pi.1.Shape = true ∧ pi.2.Shape = true) → NPat.ShapeMap s = true →
    NPat.matchListF n eqs s = some (some s') →
      (∀ pi ∈ eqs, Py.inst (Py.lookup (NPat.expand.expandMap s')) pi.1.expand = pi.2.expand)
    ∧ (∀ k v, Py.lookup s k = some v → Py.lookup s' k = some v)
    ∧ NPat.ShapeMap s' = true := by
  induction eqs generalizing s with
  | nil =>
    intro _ hs h
    simp only [matchListF, Option.some.injEq] at h; subst h
    exact ⟨by simp, fun _ _ h => h, hs⟩
  | cons pi rest ih =>
    obtain ⟨p, i⟩ := pi
    intro hsh hs h
    simp only [matchListF, Option.bind_eq_bind, Option.bind_eq_some_iff, Option.pure_def] at h
    obtain ⟨a, ha, h⟩ := h
    cases a with
    | none => simp at h
    | some s1 =>
      simp only [] at h
      have hpi := hsh (p, i) (by simp)
      obtain ⟨e1, m1, b1, sh1⟩ := matchF_sound n p i s s1 hpi.1 hpi.2 hs ha
      obtain ⟨e2, m2, sh2⟩ := ih s1 (fun q hq => hsh q (List.mem_cons_of_mem _ hq)) sh1 h
      refine ⟨?_, fun k v hk => m2 k v (m1 k v hk), sh2⟩
      intro q hq
      rcases List.mem_cons.mp hq with hq | hq
      · subst hq
        exact ((inst_extend p.expand s1 s' b1 m2).1).trans e1
      · exact e2 q hq

end NPat

#print axioms NPat.headF_expand
#print axioms NPat.matchF_sound
#print axioms NPat.matchF_complete
#print axioms NPat.matchListF_sound
#print axioms NPat.matchListF_nil
#print axioms NPat.peqF_refl
#print axioms NPat.peqF_symm
#print axioms NPat.peqF_trans
