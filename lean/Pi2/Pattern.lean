/-!
# L0/L1 — patterns and the four syntactic judgements

`Pat` is `enum Pattern` of `rust/src/lib.rs:94-133` (ids are `Nat` instead of `u8`; the wire
bound lives in `Pi2.Codec`).  `eFresh sFresh pos ng` follow `lib.rs:136-281` arm by arm.
This file imports nothing but core Lean (it is linked into the native driver).
-/

abbrev VId := Nat

inductive Pat where
  | evar (x : VId) | svar (X : VId) | sym (s : VId)
  | imp (l r : Pat) | app (l r : Pat)
  | ex (x : VId) (p : Pat) | mu (X : VId) (p : Pat)
  | mv (id : VId) (ef sf pos neg holes : List VId)
  | esub (p : Pat) (x : VId) (plug : Pat)
  | ssub (p : Pat) (X : VId) (plug : Pat)
deriving DecidableEq, Repr, Inhabited

namespace Pat

/-- `Pattern::e_fresh`, lib.rs:136-175 -/
def eFresh (e : VId) : Pat → Bool
  | evar x => x != e
  | svar _ => true | sym _ => true
  | mv _ ef .. => ef.contains e
  | imp l r => l.eFresh e && r.eFresh e
  | app l r => l.eFresh e && r.eFresh e
  | ex x p => e == x || p.eFresh e
  | mu _ p => p.eFresh e
  | esub p x plug => if e == x then plug.eFresh e else p.eFresh e && plug.eFresh e
  | ssub p _ plug => p.eFresh e && plug.eFresh e

/-- `Pattern::s_fresh`, lib.rs:177-215 -/
def sFresh (s : VId) : Pat → Bool
  | evar _ => true
  | svar X => X != s | sym _ => true
  | mv _ _ sf .. => sf.contains s
  | imp l r => l.sFresh s && r.sFresh s
  | app l r => l.sFresh s && r.sFresh s
  | ex _ p => p.sFresh s
  | mu X p => s == X || p.sFresh s
  | esub p _ plug => p.sFresh s && plug.sFresh s
  | ssub p X plug => if s == X then plug.sFresh s else p.sFresh s && plug.sFresh s

mutual
/-- `Pattern::positive` of rust/src/lib.rs:217-248 -/
def pos (s : VId) : Pat → Bool
  | evar _ => true | svar _ => true | sym _ => true
  | mv _ _ _ ps _ _ => ps.contains s
  | imp l r => l.ng s && r.pos s
  | app l r => l.pos s && r.pos s
  | ex _ p => p.pos s
  | mu X p => s == X || p.pos s
  | esub p _ plug => p.pos s && plug.sFresh s
  | ssub p X plug =>
      let pp := plug.sFresh s || (p.pos X && plug.pos s) || (p.ng X && plug.ng s)
      if s == X then pp else p.pos s && pp
/-- `Pattern::negative` of rust/src/lib.rs:250-281 -/
def ng (s : VId) : Pat → Bool
  | evar _ => true | svar X => X != s | sym _ => true
  | mv _ _ _ _ ns _ => ns.contains s
  | imp l r => l.pos s && r.ng s
  | app l r => l.ng s && r.ng s
  | ex _ p => p.ng s
  | mu X p => s == X || p.ng s
  | esub p _ plug => p.ng s && plug.sFresh s
  | ssub p X plug =>
      let pn := plug.sFresh s || (p.pos X && plug.ng s) || (p.ng X && plug.pos s)
      if s == X then pn else p.ng s && pn
end

/-- head is MetaVar / ESubst / SSubst (the `matches!` of `well_formed`, lib.rs:296-306) -/
def isMeta : Pat → Bool
  | mv .. => true | esub .. => true | ssub .. => true | _ => false

/-- `well_formed` for a MetaVar: no application-context hole is declared e-fresh (lib.rs:288-292) -/
def mvWF (ef holes : List VId) : Bool := !(holes.any (ef.contains ·))

/-- size (number of constructors), used by generators and as a termination measure -/
def size : Pat → Nat
  | evar _ => 1 | svar _ => 1 | sym _ => 1 | mv .. => 1
  | imp l r => l.size + r.size + 1
  | app l r => l.size + r.size + 1
  | ex _ p => p.size + 1 | mu _ p => p.size + 1
  | esub p _ q => p.size + q.size + 1
  | ssub p _ q => p.size + q.size + 1

end Pat
