import Pi2.ProofTie
/-!
# `proof.py` as written, running on `stateful_interpreter.py` as written, is the model

`Pi2/ProofTie.lean` ties the generated proof generator (`Pi2/Gen/PyProof.lean`) to the hand-written model with the
interpreter *object* instantiated by `ProofTie.callI`: every method ignores its pattern / proof arguments and
performs `track1` on the corresponding `Call`.  `Pi2/InterpTie.lean` ties the generated `StatefulInterpreter`
methods (`Pi2/Gen/PyInterp.lean`) to `track1` *when they are called with the terms that are on the stack*.
Here the two are composed:

* `statefulI n` is the interpreter object whose methods are the generated `Gen.PyInterp.Stateful.*` methods
  applied to the arguments they are given (plus the ghost bookkeeping of the model: the list of calls made,
  the serializer's symbol table in `symbol`, the residue mark of `publish_*` — exactly what `InterpTie.pyCall`
  adds); `statefulK N k` is its closure under the generated `Interpreter.pattern`, `statefulMemoK N k S` is the
  generated `MemoizingInterpreter(statefulI, S)`.
* **the calling convention holds**: along every run of the generated `Interpreter.pattern`
  (`pattern_id`, `memo_pattern_id`: the value returned for a pattern is *the pattern itself*, and it is the one
  new entry on top of the stack) and of a thunk built by the generated rule constructors (`run_top`: the `Proved`
  returned is the one new entry on top of the stack), every method of the interpreter is called with exactly
  the terms on top of the stack.  Hence (`Checks`) each call of a `statefulI` method is the `track1` step preceded
  by the reflexive comparisons `t == t` of the entries it consumes.
* **sound** (`*_S`): whatever a run on `statefulK` / `statefulMemoK` returns, the run on `trackerK` / `memoK`
  returns (same fuel, same state, same calls, same value) — no hypothesis on patterns or fuel; for proof
  expressions the dicts have distinct keys (`ProofTie.KeysNodup`: they are Python dicts).
* **complete** (`*_C`): whatever a run on `trackerK` / `memoK` returns, the run on `statefulK` / `statefulMemoK`
  returns, provided the fuel suffices for the reflexive comparisons (`Refl`): of every sub-pattern of a pattern
  walked (`SubRefl`) and of every conclusion a consumed sub-proof returns (`ConcsRefl`, `OwnRefl`).  (`t == t`
  can only run out of fuel for shaped terms — `InterpTie.teqF_refl`; its termination is not proved in general,
  which is why it is a hypothesis.)
-/
set_option linter.unusedSimpArgs false
set_option linter.unusedVariables false
open PySt PyI
open Gen.PyProof
open Gen.PyInterp
open ProofTie

namespace ComposeTie

/-! ## reflexive comparisons -/

/-- the comparison `t == t` evaluates to `True` within fuel `M` -/
def Refl (M : Nat) (t : TTerm) : Prop := teqF M t t = some true

/-- `assert expected == arg` when `arg` is the very term `t` on the stack (no hypothesis on `t`) -/
def chkA {α} (M : Nat) (t : TTerm) (k : Py α) : Py α := fuel (teqF M t t) fun b => assert_ b k
/-- the same for `assert expected_plugs == list(delta.values())` -/
def chkLA {α} (M : Nat) (l : List TTerm) (k : Py α) : Py α := fuel (listEqF M l l) fun b => assert_ b k

theorem chkA_some {α} {M : Nat} {t : TTerm} {k : Py α} {a : α} :
    chkA M t k = some (some a) ↔ Refl M t ∧ k = some (some a) := by
  unfold chkA Refl fuel assert_
  cases h : teqF M t t with
  | none => simp
  | some b => cases b <;> simp [raise]

theorem go_true_iff (M : Nat) : ∀ l : List TTerm, listEqF.go M l l = some true ↔ ∀ t ∈ l, Refl M t := by
  intro l
  induction l with
  | nil => simp [listEqF.go]
  | cons x xs ih =>
    simp only [listEqF.go, Option.bind_eq_bind, List.mem_cons, forall_eq_or_imp, Refl]
    cases h : teqF M x x with
    | none => simp
    | some b =>
      cases b
      · simp
      · simpa [Refl] using ih

theorem chkLA_some {α} {M : Nat} {l : List TTerm} {k : Py α} {a : α} :
    chkLA M l k = some (some a) ↔ (∀ t ∈ l, Refl M t) ∧ k = some (some a) := by
  rw [← go_true_iff]
  unfold chkLA fuel assert_ listEqF
  simp only [bne_self_eq_false, Bool.false_eq_true, if_false]
  cases h : listEqF.go M l l with
  | none => simp
  | some b => cases b <;> simp [raise]

theorem call_chkA_some {α} {M : Nat} {t : TTerm} {x : Py α} {a : α} :
    (call x fun s' => chkA M t (ret s')) = some (some a) ↔ Refl M t ∧ x = some (some a) := by
  rcases x with _ | _ | s'
  · simp [call]
  · simp [call]
  · simp only [call, chkA_some, ret]

theorem refl_mono {n m : Nat} (h : n ≤ m) {t : TTerm} (hr : Refl n t) : Refl m t := by
  unfold Refl at *
  cases t <;> exact NPat.peqF_mono h _ _ _ hr

/-! ## the generated `StatefulInterpreter` methods, called with the stack's own terms (no shape hypothesis) -/

theorem implies_tieA (n : Nat) (s : PySt) (l r : NPat) (fl fr : Bool) (st : Stack)
    (hs : s.stack = (.pat r, fr) :: (.pat l, fl) :: st) :
    Stateful.implies n s l r = chkA n (.pat l) (chkA n (.pat r) (InterpTie.withTopPat (track1 n s .implies))) := by
  simp only [Stateful.implies, unpackLast2, hs, track1, chkA]
  rfl

theorem app_tieA (n : Nat) (s : PySt) (l r : NPat) (fl fr : Bool) (st : Stack)
    (hs : s.stack = (.pat r, fr) :: (.pat l, fl) :: st) :
    Stateful.app n s l r = chkA n (.pat l) (chkA n (.pat r) (InterpTie.withTopPat (track1 n s .app))) := by
  simp only [Stateful.app, unpackLast2, hs, track1, chkA]
  rfl

theorem exists_tieA (n : Nat) (s : PySt) (x : VId) (p : NPat) (f : Bool) (st : Stack)
    (hs : s.stack = (.pat p, f) :: st) :
    Stateful.«exists» n s x p = chkA n (.pat p) (InterpTie.withTopPat (track1 n s (.ex x))) := by
  simp only [Stateful.«exists», unpackLast1, hs, track1, chkA]
  rfl

theorem mu_tieA (n : Nat) (s : PySt) (x : VId) (p : NPat) (f : Bool) (st : Stack)
    (hs : s.stack = (.pat p, f) :: st) :
    Stateful.mu n s x p = chkA n (.pat p) (InterpTie.withTopPat (track1 n s (.mu x))) := by
  simp only [Stateful.mu, unpackLast1, hs, track1, chkA]
  rfl

theorem esubst_tieA (n : Nat) (s : PySt) (x : VId) (p plug : NPat) (f1 f2 : Bool) (st : Stack)
    (hs : s.stack = (.pat p, f1) :: (.pat plug, f2) :: st) (hm : p.isMetaHead = true) :
    Stateful.esubst n s x p plug
      = chkA n (.pat p) (chkA n (.pat plug) (InterpTie.withTopPat (track1 n s (.esubst x)))) := by
  simp only [Stateful.esubst, unpackLast2, hs, track1, hm, if_true, chkA]
  rfl

theorem ssubst_tieA (n : Nat) (s : PySt) (x : VId) (p plug : NPat) (f1 f2 : Bool) (st : Stack)
    (hs : s.stack = (.pat p, f1) :: (.pat plug, f2) :: st) (hm : p.isMetaHead = true) :
    Stateful.ssubst n s x p plug
      = chkA n (.pat p) (chkA n (.pat plug) (InterpTie.withTopPat (track1 n s (.ssubst x)))) := by
  simp only [Stateful.ssubst, unpackLast2, hs, track1, hm, if_true, chkA]
  rfl

theorem modus_ponens_tieA (n : Nat) (s : PySt) (l r : NPat) (fl fr : Bool) (st : Stack)
    (hs : s.stack = (.proved r, fr) :: (.proved l, fl) :: st) :
    Stateful.modus_ponens n s ⟨l⟩ ⟨r⟩
      = chkA n (.proved l) (chkA n (.proved r) (InterpTie.withTopProved (track1 n s .mp))) := by
  simp only [Stateful.modus_ponens, unpackLast2, hs, ofProved, track1, InterpTie.modus_ponens_eq, chkA]
  refine congrArg _ (funext fun b1 => congrArg _ (congrArg _ (funext fun b2 => congrArg _ ?_)))
  cases NPat.pyMP n l r with
  | none => rfl
  | some o => cases o <;> rfl

theorem exists_generalization_tieA (n : Nat) (s : PySt) (a : NPat) (x : VId) (f : Bool) (st : Stack)
    (hs : s.stack = (.proved a, f) :: st) :
    Stateful.exists_generalization n s ⟨a⟩ x
      = chkA n (.proved a) (InterpTie.withTopProved (track1 n s (.gen x))) := by
  simp only [Stateful.exists_generalization, unpackLast1, hs, ofProved, track1,
    InterpTie.exists_generalization_eq, chkA]
  refine congrArg _ (funext fun b1 => congrArg _ ?_)
  cases NPat.pyGen n a x with
  | none => rfl
  | some o => cases o <;> rfl

theorem instantiate_tieA (n : Nat) (s : PySt) (a : NPat) (f : Bool) (st st' : Stack)
    (keys : List Nat) (plugs : List NPat)
    (hs : s.stack = (.proved a, f) :: st) (htp : takePlugs keys.length st = some (plugs, st')) :
    Stateful.instantiate n s ⟨a⟩ (keys.zip plugs)
      = chkA n (.proved a) (chkLA n (plugs.map .pat)
          (InterpTie.withTopProved (track1 n s (.instantiate keys)))) := by
  obtain ⟨hlen, hsl, hdr⟩ := InterpTie.takePlugs_slices _ _ _ _ htp
  have hz : (keys.zip plugs).length = keys.length := by simp [hlen]
  by_cases hk : keys = []
  · subst hk
    have : plugs = [] := List.eq_nil_of_length_eq_zero hlen
    subst this
    simp only [takePlugs, List.length_nil, Option.some.injEq, Prod.mk.injEq, true_and] at htp
    subst htp
    simp only [Stateful.instantiate, unpackLast1, hs, ofProved, List.zip_nil_left, List.length_nil,
      bne_self_eq_false, Bool.false_eq_true, if_false, pyList,
      deltaValues, List.map_nil, List.reverse_nil, track1, List.isEmpty_nil, if_true, InterpTie.instantiate_eq,
      NPat.pyInst, chkA, chkLA]
    rfl
  · have hK : ¬ keys.length = 0 := fun h => hk (List.eq_nil_of_length_eq_zero h)
    have hne' : (keys.zip plugs).isEmpty = false := by
      cases hzp : keys.zip plugs with
      | nil => rw [hzp] at hz; exact absurd hz.symm hK
      | cons _ _ => rfl
    have hke : keys.isEmpty = false := by cases keys <;> simp_all
    simp only [Stateful.instantiate, unpackLast1, hs, ofProved, hz, bne_iff_ne, ne_eq, hK, not_false_eq_true,
      if_true, sliceFromNeg, sliceToNeg, if_false, hsl, hdr, InterpTie.zip_values _ _ hlen,
      track1, htp, InterpTie.instantiate_eq, NPat.pyInst, hne',
      hke, Bool.false_eq_true, chkA, chkLA]
    refine congrArg _ (funext fun b1 => congrArg _ (congrArg _ (funext fun b2 => congrArg _ ?_)))
    cases NPat.instF n (keys.zip plugs) a <;> rfl

theorem instantiate_pattern_tieA (n : Nat) (s : PySt) (a : NPat) (f : Bool) (st st' : Stack)
    (keys : List Nat) (plugs : List NPat)
    (hs : s.stack = (.pat a, f) :: st) (htp : takePlugs keys.length st = some (plugs, st')) :
    Stateful.instantiate_pattern n s a (keys.zip plugs)
      = chkA n (.pat a) (chkLA n (plugs.map .pat)
          (InterpTie.withTopPat (track1 n s (.instantiatePattern keys)))) := by
  obtain ⟨hlen, hsl, hdr⟩ := InterpTie.takePlugs_slices _ _ _ _ htp
  have hz : (keys.zip plugs).length = keys.length := by simp [hlen]
  by_cases hk : keys = []
  · subst hk
    have : plugs = [] := List.eq_nil_of_length_eq_zero hlen
    subst this
    simp only [takePlugs, List.length_nil, Option.some.injEq, Prod.mk.injEq, true_and] at htp
    subst htp
    simp only [Stateful.instantiate_pattern, unpackLast1, hs, List.zip_nil_left, List.length_nil,
      bne_self_eq_false, Bool.false_eq_true, if_false, pyList,
      deltaValues, List.map_nil, List.reverse_nil, track1, takePlugs, chkA, chkLA]
    rfl
  · have hK : ¬ keys.length = 0 := fun h => hk (List.eq_nil_of_length_eq_zero h)
    simp only [Stateful.instantiate_pattern, unpackLast1, hs, hz, bne_iff_ne, ne_eq, hK, not_false_eq_true,
      if_true, sliceFromNeg, sliceToNeg, if_false, hsl, hdr, InterpTie.zip_values _ _ hlen,
      track1, htp, chkA, chkLA]
    rfl

theorem save_tieA (n : Nat) (s : PySt) (id : Nat) (t : TTerm) (f : Bool) (st : Stack)
    (hs : s.stack = (t, f) :: st) :
    Stateful.save n s id t = chkA n t (track1 n s .save) := by
  simp only [Stateful.save, topOf, hs, track1, chkA]
  rfl

theorem publish_proof_tieA (n : Nat) (s : PySt) (t : NPat) (f : Bool) (st : Stack)
    (hs : s.stack = (.proved t, f) :: st) :
    (Stateful.publish_proof n s ⟨t⟩).map (Option.map InterpTie.markTop)
      = call (track1 n s .publishProof) fun s' => chkA n (.proved t) (ret s') := by
  simp only [Stateful.publish_proof, Basic.publish_proof, track1, hs, topOf, ofProved]
  cases hph : s.phase <;> simp only [assert_, call, raise, ret, decide_true, decide_false, if_true, if_false,
      Bool.false_eq_true, reduceCtorEq] <;> try rfl
  cases hc : s.claims with
  | nil => rfl
  | cons c cs =>
    simp only [unpackFirst1, Claim.pattern, fuel, Option.bind_eq_bind, Option.pure_def]
    cases NPat.peqF n t c with
    | none => rfl
    | some b =>
      cases b
      · rfl
      · simp only [if_true, Option.bind_some, chkA, fuel, assert_]
        cases teqF n (.proved t) (.proved t) with
        | none => rfl
        | some b => cases b <;> simp [InterpTie.markTop, raise, ret]

theorem publish_axiom_tieA (n : Nat) (s : PySt) (a : NPat) (f : Bool) (st : Stack)
    (hs : s.stack = (.pat a, f) :: st) :
    (Stateful.publish_axiom n s a).map (Option.map InterpTie.markTop)
      = call (track1 n s .publishAxiom) fun s' => chkA n (.pat a) (ret s') := by
  simp only [Stateful.publish_axiom, Basic.publish_axiom, track1, hs, ofProved, topOf]
  cases hph : s.phase <;> simp only [assert_, call, raise, ret, decide_true, decide_false, if_true, if_false,
      Bool.false_eq_true, reduceCtorEq] <;> try rfl
  simp only [chkA, fuel, assert_]
  cases teqF n (.pat a) (.pat a) with
  | none => rfl
  | some b => cases b <;> simp [InterpTie.markTop, raise, ret]

theorem publish_claim_tieA (n : Nat) (s : PySt) (a : NPat) (f : Bool) (st : Stack)
    (hs : s.stack = (.pat a, f) :: st) :
    (Stateful.publish_claim n s a).map (Option.map fun _ => InterpTie.markTop s)
      = call (track1 n s .publishClaim) fun s' => chkA n (.pat a) (ret s') := by
  simp only [Stateful.publish_claim, Basic.publish_claim, track1, hs, topOf]
  cases hph : s.phase <;> simp only [assert_, call, raise, ret, decide_true, decide_false, if_true, if_false,
      Bool.false_eq_true, reduceCtorEq] <;> try rfl
  simp only [chkA, fuel, assert_]
  cases teqF n (.pat a) (.pat a) with
  | none => rfl
  | some b => cases b <;> simp [InterpTie.markTop, hs, hph, raise, ret]

/-! ## the generated `StatefulInterpreter` as an interpreter object -/

/-- the state of the object: the tracker's state and (ghost) the calls made so far — as `ProofTie.St` -/
abbrev St := ProofTie.St

/-- ghost bookkeeping: the call is recorded -/
def recP (σ : St) (c : Call) (r : Py (PySt × NPat)) : Py (St × NPat) :=
  pmap (fun x => ((x.1, σ.2 ++ [c]), x.2)) r
def recT (σ : St) (c : Call) (r : Py (PySt × Proved)) : Py (St × Proved) :=
  pmap (fun x => ((x.1, σ.2 ++ [c]), x.2)) r
def recU (σ : St) (c : Call) (r : Py PySt) : Py St := pmap (fun s' => (s', σ.2 ++ [c])) r

/-- **the generated `StatefulInterpreter` as an object**: every method is the translated method of
`Pi2/Gen/PyInterp.lean` applied to the arguments it is given.  Ghost state of the model that Python does not
have is maintained as in `InterpTie.pyCall`: the call is recorded (`rec*`), `symbol` maintains the
serializer's symbol table, `publish_*` mark the top entry as residue. -/
def statefulI (n : Nat) : Interp St where
  phase σ := σ.1.phase
  isStateful := true
  memory σ := σ.1.memory
  pattern _ _ := none
  evar σ x := recP σ (.evar x) (Stateful.evar σ.1 x)
  svar σ x := recP σ (.svar x) (Stateful.svar σ.1 x)
  symbol σ x := recP σ (.symbol x) (pmap (fun y => ({ y.1 with
      symtab := if σ.1.symtab.contains x then σ.1.symtab else σ.1.symtab ++ [x] }, y.2)) (Stateful.symbol σ.1 x))
  metavar σ id ef sf ps ns hs := recP σ (.metavar id ef sf ps ns hs) (Stateful.metavar σ.1 id ef sf ps ns hs)
  implies σ l r := recP σ .implies (Stateful.implies n σ.1 l r)
  app σ l r := recP σ .app (Stateful.app n σ.1 l r)
  «exists» σ x p := recP σ (.ex x) (Stateful.«exists» n σ.1 x p)
  esubst σ x p q := recP σ (.esubst x) (Stateful.esubst n σ.1 x p q)
  ssubst σ x p q := recP σ (.ssubst x) (Stateful.ssubst n σ.1 x p q)
  mu σ x p := recP σ (.mu x) (Stateful.mu n σ.1 x p)
  prop1 σ := recT σ .prop1 (Stateful.prop1 σ.1)
  prop2 σ := recT σ .prop2 (Stateful.prop2 σ.1)
  prop3 σ := recT σ .prop3 (Stateful.prop3 σ.1)
  modus_ponens σ l r := recT σ .mp (Stateful.modus_ponens n σ.1 l r)
  exists_quantifier σ := recT σ .quantifier (Stateful.exists_quantifier σ.1)
  exists_generalization σ p x := recT σ (.gen x) (Stateful.exists_generalization n σ.1 p x)
  instantiate σ p δ := recT σ (.instantiate (δ.map (·.1))) (Stateful.instantiate n σ.1 p δ)
  instantiate_pattern σ p δ := recP σ (.instantiatePattern (δ.map (·.1))) (Stateful.instantiate_pattern n σ.1 p δ)
  pop σ t := recU σ .pop (Stateful.pop n σ.1 t)
  save σ i t := recU σ .save (Stateful.save n σ.1 i t)
  load σ i t := recU σ (.load t) (Stateful.load n σ.1 i t)
  publish_proof σ p := recU σ .publishProof (pmap InterpTie.markTop (Stateful.publish_proof n σ.1 p))
  publish_axiom σ a := recU σ .publishAxiom (pmap InterpTie.markTop (Stateful.publish_axiom n σ.1 a))
  publish_claim σ a := recU σ .publishClaim (pmap (fun _ => InterpTie.markTop σ.1) (Stateful.publish_claim n σ.1 a))
  into_claim_phase σ := recU σ .intoClaim (Stateful.into_claim_phase σ.1)
  into_proof_phase σ := recU σ .intoProof (Stateful.into_proof_phase σ.1)

/-- the generated `StatefulInterpreter` with the inherited (generated) `Interpreter.pattern` -/
def statefulK (N k : Nat) : Interp St := Interp.close Interpreter.pattern (statefulI N) k
/-- the generated `MemoizingInterpreter(StatefulInterpreter, S)` -/
def statefulMemoK (N k : Nat) (S : List NPat) : Interp (TrSt St) :=
  Interp.close (MemoizingInterpreter.pattern N (statefulI N) S) (InterpreterTransformer.obj (statefulI N)) k

theorem emit_eq (n : Nat) (σ : St) (c : Call) : emit n σ c = recU σ c (track1 n σ.1 c) := by
  unfold emit recU
  rcases h : track1 n σ.1 c with _ | _ | s'
  · simp [doCalls, h, pmap]
  · simp [doCalls, h, pmap]
  · simp [doCalls, h, pmap]

theorem recP_top (n : Nat) (σ : St) (c : Call) :
    recP σ c (InterpTie.withTopPat (track1 n σ.1 c)) = emitP n σ c := by
  unfold emitP
  rw [emit_eq]
  rcases track1 n σ.1 c with _ | _ | s' <;> rfl

theorem recT_top (n : Nat) (σ : St) (c : Call) :
    recT σ c (InterpTie.withTopProved (track1 n σ.1 c)) = emitT n σ c := by
  unfold emitT
  rw [emit_eq]
  rcases track1 n σ.1 c with _ | _ | s' <;> rfl

theorem recP_chkA (M : Nat) (σ : St) (c : Call) (t : TTerm) (k : Py (PySt × NPat)) :
    recP σ c (chkA M t k) = chkA M t (recP σ c k) := by
  unfold chkA fuel assert_
  cases teqF M t t with
  | none => rfl
  | some b => cases b <;> rfl

theorem recT_chkA (M : Nat) (σ : St) (c : Call) (t : TTerm) (k : Py (PySt × Proved)) :
    recT σ c (chkA M t k) = chkA M t (recT σ c k) := by
  unfold chkA fuel assert_
  cases teqF M t t with
  | none => rfl
  | some b => cases b <;> rfl

theorem recU_chkA (M : Nat) (σ : St) (c : Call) (t : TTerm) (k : Py PySt) :
    recU σ c (chkA M t k) = chkA M t (recU σ c k) := by
  unfold chkA fuel assert_
  cases teqF M t t with
  | none => rfl
  | some b => cases b <;> rfl

theorem recP_chkLA (M : Nat) (σ : St) (c : Call) (l : List TTerm) (k : Py (PySt × NPat)) :
    recP σ c (chkLA M l k) = chkLA M l (recP σ c k) := by
  unfold chkLA fuel assert_
  cases listEqF M l l with
  | none => rfl
  | some b => cases b <;> rfl

theorem recT_chkLA (M : Nat) (σ : St) (c : Call) (l : List TTerm) (k : Py (PySt × Proved)) :
    recT σ c (chkLA M l k) = chkLA M l (recT σ c k) := by
  unfold chkLA fuel assert_
  cases listEqF M l l with
  | none => rfl
  | some b => cases b <;> rfl

theorem recU_call_chkA (M : Nat) (σ : St) (c : Call) (t : TTerm) (x : Py PySt) :
    recU σ c (call x fun s' => chkA M t (ret s')) = call (recU σ c x) fun σ' => chkA M t (ret σ') := by
  rcases x with _ | _ | s'
  · rfl
  · rfl
  · simp only [call, recU]
    unfold chkA fuel assert_
    cases teqF M t t with
    | none => rfl
    | some b => cases b <;> rfl

/-! ## an interpreter object that is the *checking* tracker seen through an embedding of its state -/

section checks
variable {τ : Type} (emb : St → τ)

/-- every method of `O`, **called with the terms that are on the stack**, returns what the tracker's method
(`callI M`, on the embedded state) returns, provided the reflexive comparisons of the consumed entries
evaluate to `True` — and returns nothing otherwise.  (Methods without pattern / proof arguments are the
tracker's.) -/
structure Checks (M : Nat) (O : Interp τ) : Prop where
  phase : ∀ σ, O.phase (emb σ) = σ.1.phase
  evar : ∀ σ x, O.evar (emb σ) x = gP emb M σ (.evar x)
  svar : ∀ σ x, O.svar (emb σ) x = gP emb M σ (.svar x)
  symbol : ∀ σ x, O.symbol (emb σ) x = gP emb M σ (.symbol x)
  metavar : ∀ σ id ef sf ps ns hs, O.metavar (emb σ) id ef sf ps ns hs = gP emb M σ (.metavar id ef sf ps ns hs)
  implies : ∀ (σ : St) l r fl fr st x, σ.1.stack = (.pat r, fr) :: (.pat l, fl) :: st →
    (O.implies (emb σ) l r = some (some x) ↔
      Refl M (.pat l) ∧ Refl M (.pat r) ∧ gP emb M σ .implies = some (some x))
  app : ∀ (σ : St) l r fl fr st x, σ.1.stack = (.pat r, fr) :: (.pat l, fl) :: st →
    (O.app (emb σ) l r = some (some x) ↔
      Refl M (.pat l) ∧ Refl M (.pat r) ∧ gP emb M σ .app = some (some x))
  «exists» : ∀ (σ : St) v p f st x, σ.1.stack = (.pat p, f) :: st →
    (O.«exists» (emb σ) v p = some (some x) ↔ Refl M (.pat p) ∧ gP emb M σ (.ex v) = some (some x))
  mu : ∀ (σ : St) v p f st x, σ.1.stack = (.pat p, f) :: st →
    (O.mu (emb σ) v p = some (some x) ↔ Refl M (.pat p) ∧ gP emb M σ (.mu v) = some (some x))
  esubst : ∀ (σ : St) v p plug f1 f2 st x, σ.1.stack = (.pat p, f1) :: (.pat plug, f2) :: st →
    p.isMetaHead = true →
    (O.esubst (emb σ) v p plug = some (some x) ↔
      Refl M (.pat p) ∧ Refl M (.pat plug) ∧ gP emb M σ (.esubst v) = some (some x))
  ssubst : ∀ (σ : St) v p plug f1 f2 st x, σ.1.stack = (.pat p, f1) :: (.pat plug, f2) :: st →
    p.isMetaHead = true →
    (O.ssubst (emb σ) v p plug = some (some x) ↔
      Refl M (.pat p) ∧ Refl M (.pat plug) ∧ gP emb M σ (.ssubst v) = some (some x))
  prop1 : ∀ σ, O.prop1 (emb σ) = gT emb M σ .prop1
  prop2 : ∀ σ, O.prop2 (emb σ) = gT emb M σ .prop2
  prop3 : ∀ σ, O.prop3 (emb σ) = gT emb M σ .prop3
  exists_quantifier : ∀ σ, O.exists_quantifier (emb σ) = gT emb M σ .quantifier
  modus_ponens : ∀ (σ : St) l r fl fr st x, σ.1.stack = (.proved r, fr) :: (.proved l, fl) :: st →
    (O.modus_ponens (emb σ) ⟨l⟩ ⟨r⟩ = some (some x) ↔
      Refl M (.proved l) ∧ Refl M (.proved r) ∧ gT emb M σ .mp = some (some x))
  exists_generalization : ∀ (σ : St) a v f st x, σ.1.stack = (.proved a, f) :: st →
    (O.exists_generalization (emb σ) ⟨a⟩ v = some (some x) ↔
      Refl M (.proved a) ∧ gT emb M σ (.gen v) = some (some x))
  instantiate : ∀ (σ : St) a (δ : List (Nat × NPat)) f st st' x, σ.1.stack = (.proved a, f) :: st →
    takePlugs δ.length st = some (δ.map (·.2), st') →
    (O.instantiate (emb σ) ⟨a⟩ δ = some (some x) ↔
      Refl M (.proved a) ∧ (∀ p ∈ δ.map (·.2), Refl M (.pat p)) ∧
        gT emb M σ (.instantiate (δ.map (·.1))) = some (some x))
  instantiate_pattern : ∀ (σ : St) a (δ : List (Nat × NPat)) f st st' x, σ.1.stack = (.pat a, f) :: st →
    takePlugs δ.length st = some (δ.map (·.2), st') →
    (O.instantiate_pattern (emb σ) a δ = some (some x) ↔
      Refl M (.pat a) ∧ (∀ p ∈ δ.map (·.2), Refl M (.pat p)) ∧
        gP emb M σ (.instantiatePattern (δ.map (·.1))) = some (some x))
  save : ∀ (σ : St) i t f st x, σ.1.stack = (t, f) :: st →
    (O.save (emb σ) i t = some (some x) ↔ Refl M t ∧ gU emb M σ .save = some (some x))
  load : ∀ σ i t, O.load (emb σ) i t = gU emb M σ (.load t)
  publish_proof : ∀ (σ : St) t f st x, σ.1.stack = (.proved t, f) :: st →
    (O.publish_proof (emb σ) ⟨t⟩ = some (some x) ↔
      Refl M (.proved t) ∧ gU emb M σ .publishProof = some (some x))
  publish_axiom : ∀ (σ : St) a f st x, σ.1.stack = (.pat a, f) :: st →
    (O.publish_axiom (emb σ) a = some (some x) ↔ Refl M (.pat a) ∧ gU emb M σ .publishAxiom = some (some x))
  publish_claim : ∀ (σ : St) a f st x, σ.1.stack = (.pat a, f) :: st →
    (O.publish_claim (emb σ) a = some (some x) ↔ Refl M (.pat a) ∧ gU emb M σ .publishClaim = some (some x))
  into_claim_phase : ∀ σ, O.into_claim_phase (emb σ) = gU emb M σ .intoClaim
  into_proof_phase : ∀ σ, O.into_proof_phase (emb σ) = gU emb M σ .intoProof

theorem Checks.close {M : Nat} {I : Interp τ} (h : Checks emb M I)
    (pat : Interp τ → τ → NPat → Py (τ × NPat)) (k : Nat) : Checks emb M (Interp.close pat I k) := by
  cases k <;>
  exact ⟨h.phase, h.evar, h.svar, h.symbol, h.metavar, h.implies, h.app, h.«exists», h.mu, h.esubst, h.ssubst,
    h.prop1, h.prop2, h.prop3, h.exists_quantifier, h.modus_ponens, h.exists_generalization, h.instantiate,
    h.instantiate_pattern, h.save, h.load, h.publish_proof, h.publish_axiom, h.publish_claim,
    h.into_claim_phase, h.into_proof_phase⟩

end checks

/-! ## `statefulI` checks -/

theorem gP_id (M : Nat) (σ : St) (c : Call) : gP (fun σ => σ) M σ c = emitP M σ c := rfl
theorem gT_id (M : Nat) (σ : St) (c : Call) : gT (fun σ => σ) M σ c = emitT M σ c := rfl
theorem gU_id (M : Nat) (σ : St) (c : Call) : gU (fun σ => σ) M σ c = emit M σ c := pmap_id _

theorem map_pat_mem {M : Nat} {l : List NPat} :
    (∀ t ∈ l.map TTerm.pat, Refl M t) ↔ ∀ p ∈ l, Refl M (.pat p) := by
  simp [List.mem_map]

theorem checks_stateful (M : Nat) : Checks (fun σ => σ) M (statefulI M) where
  phase σ := rfl
  evar σ x := rfl
  svar σ x := rfl
  symbol σ x := rfl
  metavar σ id ef sf ps ns hs := rfl
  prop1 σ := rfl
  prop2 σ := rfl
  prop3 σ := rfl
  exists_quantifier σ := rfl
  implies σ l r fl fr st x hs := by
    show recP σ .implies (Stateful.implies M σ.1 l r) = _ ↔ _
    rw [implies_tieA M σ.1 l r fl fr st hs, recP_chkA, recP_chkA, recP_top, chkA_some, chkA_some, gP_id]
  app σ l r fl fr st x hs := by
    show recP σ .app (Stateful.app M σ.1 l r) = _ ↔ _
    rw [app_tieA M σ.1 l r fl fr st hs, recP_chkA, recP_chkA, recP_top, chkA_some, chkA_some, gP_id]
  «exists» σ v p f st x hs := by
    show recP σ (.ex v) (Stateful.«exists» M σ.1 v p) = _ ↔ _
    rw [exists_tieA M σ.1 v p f st hs, recP_chkA, recP_top, chkA_some, gP_id]
  mu σ v p f st x hs := by
    show recP σ (.mu v) (Stateful.mu M σ.1 v p) = _ ↔ _
    rw [mu_tieA M σ.1 v p f st hs, recP_chkA, recP_top, chkA_some, gP_id]
  esubst σ v p plug f1 f2 st x hs hm := by
    show recP σ (.esubst v) (Stateful.esubst M σ.1 v p plug) = _ ↔ _
    rw [esubst_tieA M σ.1 v p plug f1 f2 st hs hm, recP_chkA, recP_chkA, recP_top, chkA_some, chkA_some, gP_id]
  ssubst σ v p plug f1 f2 st x hs hm := by
    show recP σ (.ssubst v) (Stateful.ssubst M σ.1 v p plug) = _ ↔ _
    rw [ssubst_tieA M σ.1 v p plug f1 f2 st hs hm, recP_chkA, recP_chkA, recP_top, chkA_some, chkA_some, gP_id]
  modus_ponens σ l r fl fr st x hs := by
    show recT σ .mp (Stateful.modus_ponens M σ.1 ⟨l⟩ ⟨r⟩) = _ ↔ _
    rw [modus_ponens_tieA M σ.1 l r fl fr st hs, recT_chkA, recT_chkA, recT_top, chkA_some, chkA_some, gT_id]
  exists_generalization σ a v f st x hs := by
    show recT σ (.gen v) (Stateful.exists_generalization M σ.1 ⟨a⟩ v) = _ ↔ _
    rw [exists_generalization_tieA M σ.1 a v f st hs, recT_chkA, recT_top, chkA_some, gT_id]
  instantiate σ a δ f st st' x hs htp := by
    show recT σ (.instantiate (δ.map (·.1))) (Stateful.instantiate M σ.1 ⟨a⟩ δ) = _ ↔ _
    have htp' : takePlugs (δ.map (·.1)).length st = some (δ.map (·.2), st') := by simpa using htp
    have := instantiate_tieA M σ.1 a f st st' (δ.map (·.1)) (δ.map (·.2)) hs htp'
    rw [zip_keys_vals] at this
    rw [this, recT_chkA, recT_chkLA, recT_top, chkA_some, chkLA_some, gT_id, map_pat_mem]
  instantiate_pattern σ a δ f st st' x hs htp := by
    show recP σ (.instantiatePattern (δ.map (·.1))) (Stateful.instantiate_pattern M σ.1 a δ) = _ ↔ _
    have htp' : takePlugs (δ.map (·.1)).length st = some (δ.map (·.2), st') := by simpa using htp
    have := instantiate_pattern_tieA M σ.1 a f st st' (δ.map (·.1)) (δ.map (·.2)) hs htp'
    rw [zip_keys_vals] at this
    rw [this, recP_chkA, recP_chkLA, recP_top, chkA_some, chkLA_some, gP_id, map_pat_mem]
  save σ i t f st x hs := by
    show recU σ .save (Stateful.save M σ.1 i t) = _ ↔ _
    rw [save_tieA M σ.1 i t f st hs, recU_chkA, chkA_some, ← emit_eq, gU_id]
  load σ i t := by
    show recU σ (.load t) (Stateful.load M σ.1 i t) = _
    rw [InterpTie.load_tie, ← emit_eq, gU_id]
  publish_proof σ t f st x hs := by
    show recU σ .publishProof (pmap InterpTie.markTop (Stateful.publish_proof M σ.1 ⟨t⟩)) = _ ↔ _
    have := publish_proof_tieA M σ.1 t f st hs
    unfold pmap
    rw [this, recU_call_chkA, call_chkA_some, ← emit_eq, gU_id]
  publish_axiom σ a f st x hs := by
    show recU σ .publishAxiom (pmap InterpTie.markTop (Stateful.publish_axiom M σ.1 a)) = _ ↔ _
    have := publish_axiom_tieA M σ.1 a f st hs
    unfold pmap
    rw [this, recU_call_chkA, call_chkA_some, ← emit_eq, gU_id]
  publish_claim σ a f st x hs := by
    show recU σ .publishClaim (pmap (fun _ => InterpTie.markTop σ.1) (Stateful.publish_claim M σ.1 a)) = _ ↔ _
    have := publish_claim_tieA M σ.1 a f st hs
    unfold pmap
    rw [this, recU_call_chkA, call_chkA_some, ← emit_eq, gU_id]
  into_claim_phase σ := by
    show recU σ .intoClaim (Stateful.into_claim_phase σ.1) = _
    rw [InterpTie.into_claim_phase_tie M, ← emit_eq, gU_id]
  into_proof_phase σ := by
    show recU σ .intoProof (Stateful.into_proof_phase σ.1) = _
    rw [InterpTie.into_proof_phase_tie M, ← emit_eq, gU_id]

theorem checks_statefulK (M k : Nat) : Checks (fun σ => σ) M (statefulK M k) :=
  (checks_stateful M).close _ _ k

/-! ## the transformer over `statefulI` checks -/

theorem call_iff {α β} {x x' : Py α} {R : Prop} (h : ∀ a, x = some (some a) ↔ R ∧ x' = some (some a))
    (k : α → Py β) (y : β) : call x k = some (some y) ↔ R ∧ call x' k = some (some y) := by
  constructor
  · intro hc
    obtain ⟨a, ha, hk⟩ := call_eq_some hc
    obtain ⟨hR, hx'⟩ := (h a).mp ha
    exact ⟨hR, by rw [hx']; exact hk⟩
  · rintro ⟨hR, hc⟩
    obtain ⟨a, ha, hk⟩ := call_eq_some hc
    rw [(h a).mpr ⟨hR, ha⟩]
    exact hk

theorem tr_iff_P {M : Nat} {σ : St} {c : Call} {R : Prop} {m : Py (St × NPat)}
    (h2 : c ≠ .intoClaim) (h3 : c ≠ .intoProof)
    (h : ∀ a, m = some (some a) ↔ R ∧ emitP M σ c = some (some a))
    (k : St × NPat → Py (TrSt St × NPat))
    (hk : ∀ t1 t2, k (t1, t2) = ret (({ phase := σ.1.phase, sub := t1 } : TrSt St), t2)) (y : TrSt St × NPat) :
    call m k = some (some y) ↔ R ∧ gP embM M σ c = some (some y) := by
  rw [call_iff h k y, ProofTie.tr_P M σ c h2 h3 k hk]

theorem tr_iff_T {M : Nat} {σ : St} {c : Call} {R : Prop} {m : Py (St × Proved)}
    (h2 : c ≠ .intoClaim) (h3 : c ≠ .intoProof)
    (h : ∀ a, m = some (some a) ↔ R ∧ emitT M σ c = some (some a))
    (k : St × Proved → Py (TrSt St × Proved))
    (hk : ∀ t1 t2, k (t1, t2) = ret (({ phase := σ.1.phase, sub := t1 } : TrSt St), t2)) (y : TrSt St × Proved) :
    call m k = some (some y) ↔ R ∧ gT embM M σ c = some (some y) := by
  rw [call_iff h k y, ProofTie.tr_T M σ c h2 h3 k hk]

theorem tr_iff_U {M : Nat} {σ : St} {c : Call} {R : Prop} {m : Py St}
    (h2 : c ≠ .intoClaim) (h3 : c ≠ .intoProof)
    (h : ∀ a, m = some (some a) ↔ R ∧ emit M σ c = some (some a))
    (k : St → Py (TrSt St))
    (hk : ∀ t1, k t1 = ret ({ phase := σ.1.phase, sub := t1 } : TrSt St)) (y : TrSt St) :
    call m k = some (some y) ↔ R ∧ gU embM M σ c = some (some y) := by
  rw [call_iff h k y, ProofTie.tr_U M σ c h2 h3 k hk]

theorem tr_eq_P {M : Nat} {σ : St} {c : Call} {m : Py (St × NPat)} (h2 : c ≠ .intoClaim) (h3 : c ≠ .intoProof)
    (h : m = emitP M σ c) (k : St × NPat → Py (TrSt St × NPat))
    (hk : ∀ t1 t2, k (t1, t2) = ret (({ phase := σ.1.phase, sub := t1 } : TrSt St), t2)) :
    call m k = gP embM M σ c := by rw [h, ProofTie.tr_P M σ c h2 h3 k hk]
theorem tr_eq_T {M : Nat} {σ : St} {c : Call} {m : Py (St × Proved)} (h2 : c ≠ .intoClaim) (h3 : c ≠ .intoProof)
    (h : m = emitT M σ c) (k : St × Proved → Py (TrSt St × Proved))
    (hk : ∀ t1 t2, k (t1, t2) = ret (({ phase := σ.1.phase, sub := t1 } : TrSt St), t2)) :
    call m k = gT embM M σ c := by rw [h, ProofTie.tr_T M σ c h2 h3 k hk]
theorem tr_eq_U {M : Nat} {σ : St} {c : Call} {m : Py St} (h2 : c ≠ .intoClaim) (h3 : c ≠ .intoProof)
    (h : m = emit M σ c) (k : St → Py (TrSt St))
    (hk : ∀ t1, k t1 = ret ({ phase := σ.1.phase, sub := t1 } : TrSt St)) :
    call m k = gU embM M σ c := by rw [h, ProofTie.tr_U M σ c h2 h3 k hk]

theorem stateful_intoClaim (M : Nat) (σ : St) : (statefulI M).into_claim_phase σ = emit M σ .intoClaim := by
  rw [(checks_stateful M).into_claim_phase σ, gU_id]
theorem stateful_intoProof (M : Nat) (σ : St) : (statefulI M).into_proof_phase σ = emit M σ .intoProof := by
  rw [(checks_stateful M).into_proof_phase σ, gU_id]

theorem trS_intoClaim (M : Nat) (σ : St) :
    InterpreterTransformer.into_claim_phase (statefulI M) (embM σ) = gU embM M σ .intoClaim := by
  rw [← ProofTie.tr_intoClaim]
  simp only [InterpreterTransformer.into_claim_phase, stateful_intoClaim]
  rfl

theorem trS_intoProof (M : Nat) (σ : St) :
    InterpreterTransformer.into_proof_phase (statefulI M) (embM σ) = gU embM M σ .intoProof := by
  rw [← ProofTie.tr_intoProof]
  simp only [InterpreterTransformer.into_proof_phase, stateful_intoProof]
  rfl

theorem checks_transformer (M : Nat) : Checks embM M (InterpreterTransformer.obj (statefulI M)) where
  phase σ := rfl
  into_claim_phase := trS_intoClaim M
  into_proof_phase := trS_intoProof M
  evar σ x := ProofTie.tr_P2 M σ (.evar x) (by simp) (by simp)
  svar σ x := ProofTie.tr_P2 M σ (.svar x) (by simp) (by simp)
  symbol σ x := ProofTie.tr_P2 M σ (.symbol x) (by simp) (by simp)
  metavar σ id ef sf ps ns hs := ProofTie.tr_P2 M σ (.metavar id ef sf ps ns hs) (by simp) (by simp)
  prop1 σ := ProofTie.tr_T2 M σ .prop1 (by simp) (by simp)
  prop2 σ := ProofTie.tr_T2 M σ .prop2 (by simp) (by simp)
  prop3 σ := ProofTie.tr_T2 M σ .prop3 (by simp) (by simp)
  exists_quantifier σ := ProofTie.tr_T2 M σ .quantifier (by simp) (by simp)
  load σ i t := tr_eq_U (M := M) (σ := σ) (c := .load t) (by simp) (by simp)
    (((checks_stateful M).load σ i t).trans (gU_id M σ _)) _ (fun _ => rfl)
  implies σ l r fl fr st x hs :=
    (tr_iff_P (by simp) (by simp)
      (fun a => ((checks_stateful M).implies σ l r fl fr st a hs).trans and_assoc.symm) _ (fun _ _ => rfl) x).trans
      and_assoc
  app σ l r fl fr st x hs :=
    (tr_iff_P (by simp) (by simp)
      (fun a => ((checks_stateful M).app σ l r fl fr st a hs).trans and_assoc.symm) _ (fun _ _ => rfl) x).trans
      and_assoc
  «exists» σ v p f st x hs :=
    tr_iff_P (by simp) (by simp) (fun a => (checks_stateful M).«exists» σ v p f st a hs) _ (fun _ _ => rfl) x
  mu σ v p f st x hs :=
    tr_iff_P (by simp) (by simp) (fun a => (checks_stateful M).mu σ v p f st a hs) _ (fun _ _ => rfl) x
  esubst σ v p plug f1 f2 st x hs hm :=
    (tr_iff_P (by simp) (by simp)
      (fun a => ((checks_stateful M).esubst σ v p plug f1 f2 st a hs hm).trans and_assoc.symm) _
      (fun _ _ => rfl) x).trans and_assoc
  ssubst σ v p plug f1 f2 st x hs hm :=
    (tr_iff_P (by simp) (by simp)
      (fun a => ((checks_stateful M).ssubst σ v p plug f1 f2 st a hs hm).trans and_assoc.symm) _
      (fun _ _ => rfl) x).trans and_assoc
  modus_ponens σ l r fl fr st x hs :=
    (tr_iff_T (by simp) (by simp)
      (fun a => ((checks_stateful M).modus_ponens σ l r fl fr st a hs).trans and_assoc.symm) _
      (fun _ _ => rfl) x).trans and_assoc
  exists_generalization σ a v f st x hs :=
    tr_iff_T (by simp) (by simp) (fun y => (checks_stateful M).exists_generalization σ a v f st y hs) _
      (fun _ _ => rfl) x
  instantiate σ a δ f st st' x hs htp :=
    (tr_iff_T (by simp) (by simp)
      (fun y => ((checks_stateful M).instantiate σ a δ f st st' y hs htp).trans and_assoc.symm) _
      (fun _ _ => rfl) x).trans and_assoc
  instantiate_pattern σ a δ f st st' x hs htp :=
    (tr_iff_P (by simp) (by simp)
      (fun y => ((checks_stateful M).instantiate_pattern σ a δ f st st' y hs htp).trans and_assoc.symm) _
      (fun _ _ => rfl) x).trans and_assoc
  save σ i t f st x hs :=
    tr_iff_U (by simp) (by simp)
      (fun y => ((checks_stateful M).save σ i t f st y hs).trans (Iff.of_eq (by rw [gU_id]))) _ (fun _ => rfl) x
  publish_proof σ t f st x hs :=
    tr_iff_U (by simp) (by simp)
      (fun y => ((checks_stateful M).publish_proof σ t f st y hs).trans (Iff.of_eq (by rw [gU_id]))) _ (fun _ => rfl) x
  publish_axiom σ a f st x hs :=
    tr_iff_U (by simp) (by simp)
      (fun y => ((checks_stateful M).publish_axiom σ a f st y hs).trans (Iff.of_eq (by rw [gU_id]))) _ (fun _ => rfl) x
  publish_claim σ a f st x hs :=
    tr_iff_U (by simp) (by simp)
      (fun y => ((checks_stateful M).publish_claim σ a f st y hs).trans (Iff.of_eq (by rw [gU_id]))) _ (fun _ => rfl) x

theorem checks_statefulMemoK (M k : Nat) (S : List NPat) : Checks embM M (statefulMemoK M k S) :=
  (checks_transformer M).close _ _ k

/-! ## single steps of the tracker: what is on the stack afterwards -/

theorem tr_evar {n : Nat} {s s' : PySt} {x : VId} (h : track1 n s (.evar x) = some (some s')) :
    s'.stack = (.pat (.evar x), false) :: s.stack := by
  simp only [track1, Option.some.injEq] at h; subst h; rfl
theorem tr_svar {n : Nat} {s s' : PySt} {x : VId} (h : track1 n s (.svar x) = some (some s')) :
    s'.stack = (.pat (.svar x), false) :: s.stack := by
  simp only [track1, Option.some.injEq] at h; subst h; rfl
theorem tr_symbol {n : Nat} {s s' : PySt} {x : Nat} (h : track1 n s (.symbol x) = some (some s')) :
    s'.stack = (.pat (.sym x), false) :: s.stack := by
  simp only [track1, Option.some.injEq] at h; subst h; rfl
theorem tr_metavar {n : Nat} {s s' : PySt} {id : VId} {ef sf ps ns hs : List VId}
    (h : track1 n s (.metavar id ef sf ps ns hs) = some (some s')) :
    s'.stack = (.pat (.mv id ef sf ps ns hs), false) :: s.stack := by
  simp only [track1, Option.some.injEq] at h; subst h; rfl
theorem tr_implies {n : Nat} {s s' : PySt} {l r : NPat} {fl fr : Bool} {st : Stack}
    (hs : s.stack = (.pat r, fr) :: (.pat l, fl) :: st) (h : track1 n s .implies = some (some s')) :
    s'.stack = (.pat (.imp l r), false) :: st := by
  simp only [track1, hs, Option.some.injEq] at h; subst h; rfl
theorem tr_app {n : Nat} {s s' : PySt} {l r : NPat} {fl fr : Bool} {st : Stack}
    (hs : s.stack = (.pat r, fr) :: (.pat l, fl) :: st) (h : track1 n s .app = some (some s')) :
    s'.stack = (.pat (.app l r), false) :: st := by
  simp only [track1, hs, Option.some.injEq] at h; subst h; rfl
theorem tr_ex {n : Nat} {s s' : PySt} {x : VId} {p : NPat} {f : Bool} {st : Stack}
    (hs : s.stack = (.pat p, f) :: st) (h : track1 n s (.ex x) = some (some s')) :
    s'.stack = (.pat (.ex x p), false) :: st := by
  simp only [track1, hs, Option.some.injEq] at h; subst h; rfl
theorem tr_mu {n : Nat} {s s' : PySt} {x : VId} {p : NPat} {f : Bool} {st : Stack}
    (hs : s.stack = (.pat p, f) :: st) (h : track1 n s (.mu x) = some (some s')) :
    s'.stack = (.pat (.mu x p), false) :: st := by
  simp only [track1, hs, Option.some.injEq] at h; subst h; rfl
theorem tr_esubst {n : Nat} {s s' : PySt} {x : VId} {p plug : NPat} {f1 f2 : Bool} {st : Stack}
    (hs : s.stack = (.pat p, f1) :: (.pat plug, f2) :: st) (h : track1 n s (.esubst x) = some (some s')) :
    s'.stack = (.pat (.esub p x plug), false) :: st := by
  simp only [track1, hs] at h
  split at h
  · simp only [Option.some.injEq] at h; subst h; rfl
  · simp at h
theorem tr_ssubst {n : Nat} {s s' : PySt} {x : VId} {p plug : NPat} {f1 f2 : Bool} {st : Stack}
    (hs : s.stack = (.pat p, f1) :: (.pat plug, f2) :: st) (h : track1 n s (.ssubst x) = some (some s')) :
    s'.stack = (.pat (.ssub p x plug), false) :: st := by
  simp only [track1, hs] at h
  split at h
  · simp only [Option.some.injEq] at h; subst h; rfl
  · simp at h
theorem tr_instPat {n : Nat} {s s' : PySt} {keys : List Nat} {a : NPat} {f : Bool} {st st' : Stack}
    {plugs : List NPat} (hs : s.stack = (.pat a, f) :: st) (htp : takePlugs keys.length st = some (plugs, st'))
    (h : track1 n s (.instantiatePattern keys) = some (some s')) :
    s'.stack = (.pat (.inst a (keys.zip plugs)), false) :: st' := by
  simp only [track1, hs, htp, Option.some.injEq] at h; subst h; rfl
theorem tr_axiom {n : Nat} {s s' : PySt} {c : Call}
    (hc : c = .prop1 ∨ c = .prop2 ∨ c = .prop3 ∨ c = .quantifier) (h : track1 n s c = some (some s')) :
    ∃ a, s'.stack = (.proved a, false) :: s.stack := by
  rcases hc with rfl | rfl | rfl | rfl <;>
    (simp only [track1, Option.some.injEq] at h; subst h; exact ⟨_, rfl⟩)
theorem tr_mp {n : Nat} {s s' : PySt} {l r : NPat} {fl fr : Bool} {st : Stack}
    (hs : s.stack = (.proved r, fr) :: (.proved l, fl) :: st) (h : track1 n s .mp = some (some s')) :
    ∃ c, s'.stack = (.proved c, false) :: st := by
  simp only [track1, hs, Option.bind_eq_bind, Option.bind_eq_some_iff] at h
  obtain ⟨oc, _, h⟩ := h
  cases oc with
  | none => simp at h
  | some c => simp only [Option.pure_def, Option.some.injEq] at h; subst h; exact ⟨_, rfl⟩
theorem tr_gen {n : Nat} {s s' : PySt} {x : VId} {a : NPat} {f : Bool} {st : Stack}
    (hs : s.stack = (.proved a, f) :: st) (h : track1 n s (.gen x) = some (some s')) :
    ∃ c, s'.stack = (.proved c, false) :: st := by
  simp only [track1, hs, Option.bind_eq_bind, Option.bind_eq_some_iff] at h
  obtain ⟨oc, _, h⟩ := h
  cases oc with
  | none => simp at h
  | some c => simp only [Option.pure_def, Option.some.injEq] at h; subst h; exact ⟨_, rfl⟩
theorem tr_inst {n : Nat} {s s' : PySt} {keys : List Nat} {a : NPat} {f : Bool} {st st' : Stack}
    {plugs : List NPat} (hk : keys.isEmpty = false) (hs : s.stack = (.proved a, f) :: st)
    (htp : takePlugs keys.length st = some (plugs, st'))
    (h : track1 n s (.instantiate keys) = some (some s')) :
    ∃ c, s'.stack = (.proved c, false) :: st' := by
  simp only [track1, hs, hk, htp, Bool.false_eq_true, if_false, Option.bind_eq_bind, Option.bind_eq_some_iff,
    Option.pure_def, Option.some.injEq] at h
  obtain ⟨c, _, h⟩ := h
  subst h; exact ⟨_, rfl⟩
theorem tr_load {n : Nat} {s s' : PySt} {t : TTerm} (h : track1 n s (.load t) = some (some s')) :
    s'.stack = (t, false) :: s.stack := by
  rw [track1_load_push n s s' t h]; rfl
theorem tr_publishProof {n : Nat} {s s' : PySt} (h : track1 n s .publishProof = some (some s')) :
    ∃ t f st, s.stack = (.proved t, f) :: st := by
  simp only [track1] at h
  split at h
  · exact ⟨_, _, _, by assumption⟩
  · simp at h
theorem tr_publishAxiom {n : Nat} {s s' : PySt} (h : track1 n s .publishAxiom = some (some s')) :
    ∃ t f st, s.stack = (.pat t, f) :: st := by
  simp only [track1] at h
  split at h
  · exact ⟨_, _, _, by assumption⟩
  · simp at h
theorem tr_publishClaim {n : Nat} {s s' : PySt} (h : track1 n s .publishClaim = some (some s')) :
    ∃ t f st, s.stack = (.pat t, f) :: st := by
  simp only [track1] at h
  split at h
  · exact ⟨_, _, _, by assumption⟩
  · simp at h

theorem topPat_cons {s : PySt} {t : TTerm} {f : Bool} {st : Stack} (h : s.stack = (t, f) :: st) :
    InterpTie.topPat s = t.body := by
  simp [InterpTie.topPat, h]

/-! ## the calling convention on the tracker: the value returned is the one new entry on top of the stack -/

section generic
variable {τ : Type} (emb : St → τ)

theorem gP_some {N : Nat} {σ : St} {c : Call} {τ' : τ} {v : NPat} (h : gP emb N σ c = some (some (τ', v))) :
    ∃ s', track1 N σ.1 c = some (some s') ∧ τ' = emb (s', σ.2 ++ [c]) ∧ v = InterpTie.topPat s' := by
  obtain ⟨o, ho, ho'⟩ := (pmap_some _ _ _).mp h
  cases o with
  | none => cases ho'
  | some σ' =>
    simp only [Option.map_some, Option.some.injEq, wP, Prod.mk.injEq] at ho'
    obtain ⟨h1, h2⟩ := emit_some N σ σ' c ho
    obtain ⟨s', a'⟩ := σ'
    simp only at h2; subst h2
    exact ⟨s', h1, ho'.1, ho'.2⟩

theorem gT_some' {N : Nat} {σ : St} {c : Call} {τ' : τ} {v : Proved} (h : gT emb N σ c = some (some (τ', v))) :
    ∃ s', track1 N σ.1 c = some (some s') ∧ τ' = emb (s', σ.2 ++ [c]) ∧ v = ⟨InterpTie.topPat s'⟩ := by
  obtain ⟨o, ho, ho'⟩ := (pmap_some _ _ _).mp h
  cases o with
  | none => cases ho'
  | some σ' =>
    simp only [Option.map_some, Option.some.injEq, wT, Prod.mk.injEq] at ho'
    obtain ⟨h1, h2⟩ := emit_some N σ σ' c ho
    obtain ⟨s', a'⟩ := σ'
    simp only at h2; subst h2
    exact ⟨s', h1, ho'.1, ho'.2⟩

theorem gU_some' {N : Nat} {σ : St} {c : Call} {τ' : τ} (h : gU emb N σ c = some (some τ')) :
    ∃ s', track1 N σ.1 c = some (some s') ∧ τ' = emb (s', σ.2 ++ [c]) := by
  obtain ⟨σ', ho, rfl⟩ := gU_some emb h
  obtain ⟨h1, h2⟩ := emit_some N σ σ' c ho
  obtain ⟨s', a'⟩ := σ'
  simp only at h2; subst h2
  exact ⟨s', h1, rfl⟩

/-- **the walk is the identity**: the value `O.pattern` returns for `p` is `p` itself, and it is the one new
entry on the stack -/
def PatId (O : Interp τ) : Prop :=
  ∀ σ p τ' v, O.pattern (emb σ) p = some (some (τ', v)) →
    ∃ σ' : St, τ' = emb σ' ∧ v = p ∧ σ'.1.stack = (.pat p, false) :: σ.1.stack

/-- one sub-walk: the value is the pattern, pushed -/
theorem step_id {O : Interp τ} (ih : PatId emb O) {β} {σ : St} {p : NPat} {K : τ × NPat → Py β} {x : β}
    (h : call (O.pattern (emb σ) p) K = some (some x)) :
    ∃ σ1 : St, σ1.1.stack = (.pat p, false) :: σ.1.stack ∧ O.pattern (emb σ) p = some (some (emb σ1, p)) ∧
      K (emb σ1, p) = some (some x) := by
  obtain ⟨⟨τ1, t⟩, h1, hK⟩ := call_eq_some h
  obtain ⟨σ1, e1, e2, hs1⟩ := ih _ _ _ _ h1
  subst e1; subst e2
  exact ⟨σ1, hs1, h1, hK⟩

theorem walk_id {O : Interp τ} (ih : PatId emb O) {β} : ∀ (l : List NPat) (σ : St) (x : β) (K : τ → Py β),
    walkList O l (emb σ) K = some (some x) →
    ∃ σ' : St, σ'.1.stack = l.reverse.map entry ++ σ.1.stack ∧ K (emb σ') = some (some x) := by
  intro l
  induction l with
  | nil => intro σ x K h; exact ⟨σ, by simp, h⟩
  | cons a r ihr =>
    intro σ x K h
    have h0 : call (O.pattern (emb σ) a) (fun y => call (ret y.1) fun s => walkList O r s K) = some (some x) := by
      have h' : call (call (O.pattern (emb σ) a) fun (s, _) => ret s) (fun s => walkList O r s K)
          = some (some x) := h
      rw [call_assoc] at h'
      exact h'
    obtain ⟨σ1, hs1, -, hA⟩ := step_id emb ih h0
    have hA' : walkList O r (emb σ1) K = some (some x) := hA
    obtain ⟨σ', hs', hK⟩ := ihr σ1 x K hA'
    exact ⟨σ', by rw [hs', hs1]; simp [entry], hK⟩

theorem takePlugs_vals (m : List (Nat × NPat)) (rest : Stack) :
    takePlugs m.length ((m.map (·.2)).reverse.map entry ++ rest) = some (m.map (·.2), rest) := by
  have := takePlugs_rev (m.map (·.2)).reverse rest
  simpa using this

/-- one level of `Interpreter.pattern` on an object that emits like the tracker -/
theorem body_id {O : Interp τ} {N : Nat} (hE : Emits emb N O) (ih : PatId emb O)
    (σ : St) (p : NPat) (τ' : τ) (v : NPat) (h : Interpreter.pattern O (emb σ) p = some (some (τ', v))) :
    ∃ σ' : St, τ' = emb σ' ∧ v = p ∧ σ'.1.stack = (.pat p, false) :: σ.1.stack := by
  cases p with
  | evar x =>
    simp only [Interpreter.pattern] at h
    rw [call_eta2 _ _ (fun _ _ => rfl), hE.evar] at h
    obtain ⟨s', ht, rfl, rfl⟩ := gP_some emb h
    exact ⟨_, rfl, by rw [topPat_cons (tr_evar ht)]; rfl, tr_evar ht⟩
  | svar x =>
    simp only [Interpreter.pattern] at h
    rw [call_eta2 _ _ (fun _ _ => rfl), hE.svar] at h
    obtain ⟨s', ht, rfl, rfl⟩ := gP_some emb h
    exact ⟨_, rfl, by rw [topPat_cons (tr_svar ht)]; rfl, tr_svar ht⟩
  | sym x =>
    simp only [Interpreter.pattern] at h
    rw [call_eta2 _ _ (fun _ _ => rfl), hE.symbol] at h
    obtain ⟨s', ht, rfl, rfl⟩ := gP_some emb h
    exact ⟨_, rfl, by rw [topPat_cons (tr_symbol ht)]; rfl, tr_symbol ht⟩
  | mv id ef sf ps ns hs =>
    simp only [Interpreter.pattern] at h
    rw [call_eta2 _ _ (fun _ _ => rfl), hE.metavar] at h
    obtain ⟨s', ht, rfl, rfl⟩ := gP_some emb h
    exact ⟨_, rfl, by rw [topPat_cons (tr_metavar ht)]; rfl, tr_metavar ht⟩
  | imp l r =>
    simp only [Interpreter.pattern] at h
    obtain ⟨σ1, hs1, -, hA⟩ := step_id emb ih h
    obtain ⟨σ2, hs2, -, hB⟩ := step_id emb ih hA
    dsimp only at hB
    rw [call_eta2 _ _ (fun _ _ => rfl), hE.implies] at hB
    obtain ⟨s', ht, rfl, rfl⟩ := gP_some emb hB
    have hs' := tr_implies (hs2.trans (by rw [hs1])) ht
    exact ⟨_, rfl, by rw [topPat_cons hs']; rfl, hs'⟩
  | app l r =>
    simp only [Interpreter.pattern] at h
    obtain ⟨σ1, hs1, -, hA⟩ := step_id emb ih h
    obtain ⟨σ2, hs2, -, hB⟩ := step_id emb ih hA
    dsimp only at hB
    rw [call_eta2 _ _ (fun _ _ => rfl), hE.app] at hB
    obtain ⟨s', ht, rfl, rfl⟩ := gP_some emb hB
    have hs' := tr_app (hs2.trans (by rw [hs1])) ht
    exact ⟨_, rfl, by rw [topPat_cons hs']; rfl, hs'⟩
  | ex x q =>
    simp only [Interpreter.pattern] at h
    obtain ⟨σ1, hs1, -, hA⟩ := step_id emb ih h
    dsimp only at hA
    rw [call_eta2 _ _ (fun _ _ => rfl), hE.«exists»] at hA
    obtain ⟨s', ht, rfl, rfl⟩ := gP_some emb hA
    have hs' := tr_ex hs1 ht
    exact ⟨_, rfl, by rw [topPat_cons hs']; rfl, hs'⟩
  | mu x q =>
    simp only [Interpreter.pattern] at h
    obtain ⟨σ1, hs1, -, hA⟩ := step_id emb ih h
    dsimp only at hA
    rw [call_eta2 _ _ (fun _ _ => rfl), hE.mu] at hA
    obtain ⟨s', ht, rfl, rfl⟩ := gP_some emb hA
    have hs' := tr_mu hs1 ht
    exact ⟨_, rfl, by rw [topPat_cons hs']; rfl, hs'⟩
  | esub q x plug =>
    simp only [Interpreter.pattern, assert_, if_true] at h
    obtain ⟨σ1, hs1, -, hA⟩ := step_id emb ih h
    obtain ⟨σ2, hs2, -, hB⟩ := step_id emb ih hA
    dsimp only at hB
    split at hB
    · rw [call_eta2 _ _ (fun _ _ => rfl), hE.esubst] at hB
      obtain ⟨s', ht, rfl, rfl⟩ := gP_some emb hB
      have hs' := tr_esubst (hs2.trans (by rw [hs1])) ht
      exact ⟨_, rfl, by rw [topPat_cons hs']; rfl, hs'⟩
    · cases hB
  | ssub q x plug =>
    simp only [Interpreter.pattern, assert_, if_true] at h
    obtain ⟨σ1, hs1, -, hA⟩ := step_id emb ih h
    obtain ⟨σ2, hs2, -, hB⟩ := step_id emb ih hA
    dsimp only at hB
    split at hB
    · rw [call_eta2 _ _ (fun _ _ => rfl), hE.ssubst] at hB
      obtain ⟨s', ht, rfl, rfl⟩ := gP_some emb hB
      have hs' := tr_ssubst (hs2.trans (by rw [hs1])) ht
      exact ⟨_, rfl, by rw [topPat_cons hs']; rfl, hs'⟩
    · cases hB
  | inst q m =>
    have h0 : walkList O (m.map (·.2)) (emb σ) (fun s => call (O.pattern s q) fun (s, t16) =>
        call (O.instantiate_pattern s t16 m) fun (s, t17) => ret (s, t17)) = some (some (τ', v)) := h
    obtain ⟨σ1, hs1, hA⟩ := walk_id emb ih (m.map (·.2)) σ _ _ h0
    obtain ⟨σ2, hs2, -, hB⟩ := step_id emb ih hA
    dsimp only at hB
    rw [call_eta2 _ _ (fun _ _ => rfl), hE.instantiate_pattern] at hB
    obtain ⟨s', ht, rfl, rfl⟩ := gP_some emb hB
    have htp : takePlugs (m.map (·.1)).length σ1.1.stack = some (m.map (·.2), σ.1.stack) := by
      rw [hs1, List.length_map]; exact takePlugs_vals m _
    have hs' := tr_instPat hs2 htp ht
    rw [zip_keys_vals] at hs'
    exact ⟨_, rfl, by rw [topPat_cons hs']; rfl, hs'⟩

end generic

theorem pattern_id (N : Nat) : ∀ k, PatId (fun σ => σ) (trackerK N k) := by
  intro k
  induction k with
  | zero => intro σ p τ' v h; rw [trackerK_zero] at h; cases h
  | succ k ih =>
    intro σ p τ' v h
    rw [trackerK_succ] at h
    exact body_id (fun σ => σ) (emits_tracker N k) ih σ p τ' v h

/-! ## fuel for the reflexive comparisons of a pattern walk -/

mutual
/-- the fuel `M` suffices to compare every sub-pattern of `p` (and `p`) with itself -/
def SubRefl (M : Nat) : NPat → Prop
  | .evar x => Refl M (.pat (.evar x))
  | .svar x => Refl M (.pat (.svar x))
  | .sym x => Refl M (.pat (.sym x))
  | .mv a b c d e f => Refl M (.pat (.mv a b c d e f))
  | .imp l r => Refl M (.pat (.imp l r)) ∧ SubRefl M l ∧ SubRefl M r
  | .app l r => Refl M (.pat (.app l r)) ∧ SubRefl M l ∧ SubRefl M r
  | .ex x p => Refl M (.pat (.ex x p)) ∧ SubRefl M p
  | .mu x p => Refl M (.pat (.mu x p)) ∧ SubRefl M p
  | .esub p x q => Refl M (.pat (.esub p x q)) ∧ SubRefl M p ∧ SubRefl M q
  | .ssub p x q => Refl M (.pat (.ssub p x q)) ∧ SubRefl M p ∧ SubRefl M q
  | .inst p m => Refl M (.pat (.inst p m)) ∧ SubRefl M p ∧ SubReflMap M m
def SubReflMap (M : Nat) : List (Nat × NPat) → Prop
  | [] => True
  | (_, v) :: r => SubRefl M v ∧ SubReflMap M r
end

theorem SubRefl.self {M : Nat} {p : NPat} (h : SubRefl M p) : Refl M (.pat p) := by
  cases p <;> simp only [SubRefl] at h <;> first | exact h | exact h.1

theorem subReflMap_iff {M : Nat} {m : List (Nat × NPat)} :
    SubReflMap M m ↔ ∀ v ∈ m.map (·.2), SubRefl M v := by
  induction m with
  | nil => simp [SubReflMap]
  | cons kv r ih => obtain ⟨k, v⟩ := kv; simp [SubReflMap, ih]

/-! ## `Interpreter.pattern` on the checking object against `Interpreter.pattern` on the tracker -/

section compose
variable {τ : Type} (emb : St → τ)

/-- whatever `O₁.pattern` returns, `O₂.pattern` returns -/
def PatS12 (O₁ O₂ : Interp τ) : Prop :=
  ∀ σ p x, O₁.pattern (emb σ) p = some (some x) → O₂.pattern (emb σ) p = some (some x)

/-- whatever `O₂.pattern` returns, `O₁.pattern` returns, given the fuel for the reflexive comparisons -/
def PatC12 (M : Nat) (O₁ O₂ : Interp τ) : Prop :=
  ∀ σ p x, SubRefl M p → O₂.pattern (emb σ) p = some (some x) → O₁.pattern (emb σ) p = some (some x)

theorem stepS {O₁ O₂ : Interp τ} (hS : PatS12 emb O₁ O₂) (hId : PatId emb O₂) {β} {σ : St} {p : NPat}
    {K : τ × NPat → Py β} {x : β} (h : call (O₁.pattern (emb σ) p) K = some (some x)) :
    ∃ σ1 : St, σ1.1.stack = (.pat p, false) :: σ.1.stack ∧ O₂.pattern (emb σ) p = some (some (emb σ1, p)) ∧
      K (emb σ1, p) = some (some x) := by
  obtain ⟨⟨τ1, t⟩, h1, hK⟩ := call_eq_some h
  have h2 := hS _ _ _ h1
  obtain ⟨σ1, e1, e2, hs1⟩ := hId _ _ _ _ h2
  subst e1; subst e2
  exact ⟨σ1, hs1, h2, hK⟩

theorem stepC {M : Nat} {O₁ O₂ : Interp τ} (hCp : PatC12 emb M O₁ O₂) (hId : PatId emb O₂) {β} {σ : St} {p : NPat}
    (hp : SubRefl M p) {K : τ × NPat → Py β} {x : β} (h : call (O₂.pattern (emb σ) p) K = some (some x)) :
    ∃ σ1 : St, σ1.1.stack = (.pat p, false) :: σ.1.stack ∧ O₁.pattern (emb σ) p = some (some (emb σ1, p)) ∧
      K (emb σ1, p) = some (some x) := by
  obtain ⟨⟨τ1, t⟩, h2, hK⟩ := call_eq_some h
  obtain ⟨σ1, e1, e2, hs1⟩ := hId _ _ _ _ h2
  subst e1; subst e2
  exact ⟨σ1, hs1, hCp _ _ _ hp h2, hK⟩

theorem walkList_cons (O : Interp τ) {β} (a : NPat) (r : List NPat) (s : τ) (K : τ → Py β) :
    walkList O (a :: r) s K = call (O.pattern s a) (fun y => walkList O r y.1 K) := by
  show call (call (O.pattern s a) fun (s, _) => ret s) (fun s => walkList O r s K) = _
  rw [call_assoc]
  rfl

theorem walkS {O₁ O₂ : Interp τ} (hS : PatS12 emb O₁ O₂) (hId : PatId emb O₂) {β} :
    ∀ (l : List NPat) (σ : St) (x : β) (K₁ K₂ : τ → Py β),
    (∀ σ' : St, σ'.1.stack = l.reverse.map entry ++ σ.1.stack → K₁ (emb σ') = some (some x) →
      K₂ (emb σ') = some (some x)) →
    walkList O₁ l (emb σ) K₁ = some (some x) → walkList O₂ l (emb σ) K₂ = some (some x) := by
  intro l
  induction l with
  | nil => intro σ x K₁ K₂ hK h; exact hK σ (by simp) h
  | cons a r ihr =>
    intro σ x K₁ K₂ hK h
    rw [walkList_cons] at h ⊢
    obtain ⟨σ1, hs1, h2, hA⟩ := stepS emb hS hId h
    rw [h2]
    exact ihr σ1 x K₁ K₂ (fun σ' hs' => hK σ' (by rw [hs', hs1]; simp [entry])) hA

theorem walkC {M : Nat} {O₁ O₂ : Interp τ} (hCp : PatC12 emb M O₁ O₂) (hId : PatId emb O₂) {β} :
    ∀ (l : List NPat), (∀ v ∈ l, SubRefl M v) → ∀ (σ : St) (x : β) (K₁ K₂ : τ → Py β),
    (∀ σ' : St, σ'.1.stack = l.reverse.map entry ++ σ.1.stack → K₂ (emb σ') = some (some x) →
      K₁ (emb σ') = some (some x)) →
    walkList O₂ l (emb σ) K₂ = some (some x) → walkList O₁ l (emb σ) K₁ = some (some x) := by
  intro l
  induction l with
  | nil => intro _ σ x K₁ K₂ hK h; exact hK σ (by simp) h
  | cons a r ihr =>
    intro hl σ x K₁ K₂ hK h
    rw [walkList_cons] at h ⊢
    obtain ⟨σ1, hs1, h1, hA⟩ := stepC emb hCp hId (hl a (by simp)) h
    rw [h1]
    exact ihr (fun v hv => hl v (List.mem_cons_of_mem _ hv)) σ1 x K₁ K₂
      (fun σ' hs' => hK σ' (by rw [hs', hs1]; simp [entry])) hA

/-- **one level of `Interpreter.pattern`, checking object → tracker**: every method is called with the
terms that are on the stack -/
theorem body_S {M : Nat} {O₁ O₂ : Interp τ} (hC : Checks emb M O₁) (hE : Emits emb M O₂) (hId : PatId emb O₂)
    (hS : PatS12 emb O₁ O₂) (σ : St) (p : NPat) (x : τ × NPat)
    (h : Interpreter.pattern O₁ (emb σ) p = some (some x)) :
    Interpreter.pattern O₂ (emb σ) p = some (some x) := by
  cases p with
  | evar v => simpa only [Interpreter.pattern, hC.evar, hE.evar] using h
  | svar v => simpa only [Interpreter.pattern, hC.svar, hE.svar] using h
  | sym v => simpa only [Interpreter.pattern, hC.symbol, hE.symbol] using h
  | mv id ef sf ps ns hs => simpa only [Interpreter.pattern, hC.metavar, hE.metavar] using h
  | imp l r =>
    simp only [Interpreter.pattern] at h ⊢
    obtain ⟨σ1, hs1, h1, hA⟩ := stepS emb hS hId h
    obtain ⟨σ2, hs2, h2, hB⟩ := stepS emb hS hId hA
    rw [h1]; simp only [call_some_some]; rw [h2]; simp only [call_some_some]
    dsimp only at hB
    rw [call_eta2 _ _ (fun _ _ => rfl)] at hB ⊢
    rw [hE.implies]
    exact ((hC.implies σ2 l r _ _ _ x (hs2.trans (by rw [hs1]))).mp hB).2.2
  | app l r =>
    simp only [Interpreter.pattern] at h ⊢
    obtain ⟨σ1, hs1, h1, hA⟩ := stepS emb hS hId h
    obtain ⟨σ2, hs2, h2, hB⟩ := stepS emb hS hId hA
    rw [h1]; simp only [call_some_some]; rw [h2]; simp only [call_some_some]
    dsimp only at hB
    rw [call_eta2 _ _ (fun _ _ => rfl)] at hB ⊢
    rw [hE.app]
    exact ((hC.app σ2 l r _ _ _ x (hs2.trans (by rw [hs1]))).mp hB).2.2
  | ex v q =>
    simp only [Interpreter.pattern] at h ⊢
    obtain ⟨σ1, hs1, h1, hA⟩ := stepS emb hS hId h
    rw [h1]; simp only [call_some_some]
    dsimp only at hA
    rw [call_eta2 _ _ (fun _ _ => rfl)] at hA ⊢
    rw [hE.«exists»]
    exact ((hC.«exists» σ1 v q _ _ x hs1).mp hA).2
  | mu v q =>
    simp only [Interpreter.pattern] at h ⊢
    obtain ⟨σ1, hs1, h1, hA⟩ := stepS emb hS hId h
    rw [h1]; simp only [call_some_some]
    dsimp only at hA
    rw [call_eta2 _ _ (fun _ _ => rfl)] at hA ⊢
    rw [hE.mu]
    exact ((hC.mu σ1 v q _ _ x hs1).mp hA).2
  | esub q v plug =>
    simp only [Interpreter.pattern, assert_, if_true] at h ⊢
    obtain ⟨σ1, hs1, h1, hA⟩ := stepS emb hS hId h
    obtain ⟨σ2, hs2, h2, hB⟩ := stepS emb hS hId hA
    rw [h1]; simp only [call_some_some]; rw [h2]; simp only [call_some_some]
    dsimp only at hB
    cases hm : q.isMetaHead with
    | false => simp only [hm, Bool.false_eq_true, if_false] at hB; cases hB
    | true =>
      simp only [hm, if_true] at hB ⊢
      rw [call_eta2 _ _ (fun _ _ => rfl)] at hB ⊢
      rw [hE.esubst]
      exact ((hC.esubst σ2 v q plug _ _ _ x (hs2.trans (by rw [hs1])) hm).mp hB).2.2
  | ssub q v plug =>
    simp only [Interpreter.pattern, assert_, if_true] at h ⊢
    obtain ⟨σ1, hs1, h1, hA⟩ := stepS emb hS hId h
    obtain ⟨σ2, hs2, h2, hB⟩ := stepS emb hS hId hA
    rw [h1]; simp only [call_some_some]; rw [h2]; simp only [call_some_some]
    dsimp only at hB
    cases hm : q.isMetaHead with
    | false => simp only [hm, Bool.false_eq_true, if_false] at hB; cases hB
    | true =>
      simp only [hm, if_true] at hB ⊢
      rw [call_eta2 _ _ (fun _ _ => rfl)] at hB ⊢
      rw [hE.ssubst]
      exact ((hC.ssubst σ2 v q plug _ _ _ x (hs2.trans (by rw [hs1])) hm).mp hB).2.2
  | inst q m =>
    have h0 : walkList O₁ (m.map (·.2)) (emb σ) (fun s => call (O₁.pattern s q) fun (s, t16) =>
        call (O₁.instantiate_pattern s t16 m) fun (s, t17) => ret (s, t17)) = some (some x) := h
    show walkList O₂ (m.map (·.2)) (emb σ) (fun s => call (O₂.pattern s q) fun (s, t16) =>
        call (O₂.instantiate_pattern s t16 m) fun (s, t17) => ret (s, t17)) = some (some x)
    refine walkS emb hS hId (m.map (·.2)) σ x _ _ (fun σ1 hs1 hA => ?_) h0
    obtain ⟨σ2, hs2, h2, hB⟩ := stepS emb hS hId hA
    rw [h2]; simp only [call_some_some]
    dsimp only at hB
    rw [call_eta2 _ _ (fun _ _ => rfl)] at hB ⊢
    rw [hE.instantiate_pattern]
    have htp : takePlugs m.length σ1.1.stack = some (m.map (·.2), σ.1.stack) := by
      rw [hs1]; exact takePlugs_vals m _
    exact ((hC.instantiate_pattern σ2 q m _ _ _ x hs2 htp).mp hB).2.2

/-- **one level of `Interpreter.pattern`, tracker → checking object** -/
theorem body_C {M : Nat} {O₁ O₂ : Interp τ} (hC : Checks emb M O₁) (hE : Emits emb M O₂) (hId : PatId emb O₂)
    (hCp : PatC12 emb M O₁ O₂) (σ : St) (p : NPat) (x : τ × NPat) (hp : SubRefl M p)
    (h : Interpreter.pattern O₂ (emb σ) p = some (some x)) :
    Interpreter.pattern O₁ (emb σ) p = some (some x) := by
  cases p with
  | evar v => simpa only [Interpreter.pattern, hC.evar, hE.evar] using h
  | svar v => simpa only [Interpreter.pattern, hC.svar, hE.svar] using h
  | sym v => simpa only [Interpreter.pattern, hC.symbol, hE.symbol] using h
  | mv id ef sf ps ns hs => simpa only [Interpreter.pattern, hC.metavar, hE.metavar] using h
  | imp l r =>
    simp only [SubRefl] at hp
    simp only [Interpreter.pattern] at h ⊢
    obtain ⟨σ1, hs1, h1, hA⟩ := stepC emb hCp hId hp.2.1 h
    obtain ⟨σ2, hs2, h2, hB⟩ := stepC emb hCp hId hp.2.2 hA
    rw [h1]; simp only [call_some_some]; rw [h2]; simp only [call_some_some]
    dsimp only at hB
    rw [call_eta2 _ _ (fun _ _ => rfl)] at hB ⊢
    rw [hE.implies] at hB
    exact (hC.implies σ2 l r _ _ _ x (hs2.trans (by rw [hs1]))).mpr ⟨hp.2.1.self, hp.2.2.self, hB⟩
  | app l r =>
    simp only [SubRefl] at hp
    simp only [Interpreter.pattern] at h ⊢
    obtain ⟨σ1, hs1, h1, hA⟩ := stepC emb hCp hId hp.2.1 h
    obtain ⟨σ2, hs2, h2, hB⟩ := stepC emb hCp hId hp.2.2 hA
    rw [h1]; simp only [call_some_some]; rw [h2]; simp only [call_some_some]
    dsimp only at hB
    rw [call_eta2 _ _ (fun _ _ => rfl)] at hB ⊢
    rw [hE.app] at hB
    exact (hC.app σ2 l r _ _ _ x (hs2.trans (by rw [hs1]))).mpr ⟨hp.2.1.self, hp.2.2.self, hB⟩
  | ex v q =>
    simp only [SubRefl] at hp
    simp only [Interpreter.pattern] at h ⊢
    obtain ⟨σ1, hs1, h1, hA⟩ := stepC emb hCp hId hp.2 h
    rw [h1]; simp only [call_some_some]
    dsimp only at hA
    rw [call_eta2 _ _ (fun _ _ => rfl)] at hA ⊢
    rw [hE.«exists»] at hA
    exact (hC.«exists» σ1 v q _ _ x hs1).mpr ⟨hp.2.self, hA⟩
  | mu v q =>
    simp only [SubRefl] at hp
    simp only [Interpreter.pattern] at h ⊢
    obtain ⟨σ1, hs1, h1, hA⟩ := stepC emb hCp hId hp.2 h
    rw [h1]; simp only [call_some_some]
    dsimp only at hA
    rw [call_eta2 _ _ (fun _ _ => rfl)] at hA ⊢
    rw [hE.mu] at hA
    exact (hC.mu σ1 v q _ _ x hs1).mpr ⟨hp.2.self, hA⟩
  | esub q v plug =>
    simp only [SubRefl] at hp
    simp only [Interpreter.pattern, assert_, if_true] at h ⊢
    obtain ⟨σ1, hs1, h1, hA⟩ := stepC emb hCp hId hp.2.2 h
    obtain ⟨σ2, hs2, h2, hB⟩ := stepC emb hCp hId hp.2.1 hA
    rw [h1]; simp only [call_some_some]; rw [h2]; simp only [call_some_some]
    dsimp only at hB
    cases hm : q.isMetaHead with
    | false => simp only [hm, Bool.false_eq_true, if_false] at hB; cases hB
    | true =>
      simp only [hm, if_true] at hB ⊢
      rw [call_eta2 _ _ (fun _ _ => rfl)] at hB ⊢
      rw [hE.esubst] at hB
      exact (hC.esubst σ2 v q plug _ _ _ x (hs2.trans (by rw [hs1])) hm).mpr ⟨hp.2.1.self, hp.2.2.self, hB⟩
  | ssub q v plug =>
    simp only [SubRefl] at hp
    simp only [Interpreter.pattern, assert_, if_true] at h ⊢
    obtain ⟨σ1, hs1, h1, hA⟩ := stepC emb hCp hId hp.2.2 h
    obtain ⟨σ2, hs2, h2, hB⟩ := stepC emb hCp hId hp.2.1 hA
    rw [h1]; simp only [call_some_some]; rw [h2]; simp only [call_some_some]
    dsimp only at hB
    cases hm : q.isMetaHead with
    | false => simp only [hm, Bool.false_eq_true, if_false] at hB; cases hB
    | true =>
      simp only [hm, if_true] at hB ⊢
      rw [call_eta2 _ _ (fun _ _ => rfl)] at hB ⊢
      rw [hE.ssubst] at hB
      exact (hC.ssubst σ2 v q plug _ _ _ x (hs2.trans (by rw [hs1])) hm).mpr ⟨hp.2.1.self, hp.2.2.self, hB⟩
  | inst q m =>
    simp only [SubRefl] at hp
    have hm := subReflMap_iff.mp hp.2.2
    have h0 : walkList O₂ (m.map (·.2)) (emb σ) (fun s => call (O₂.pattern s q) fun (s, t16) =>
        call (O₂.instantiate_pattern s t16 m) fun (s, t17) => ret (s, t17)) = some (some x) := h
    show walkList O₁ (m.map (·.2)) (emb σ) (fun s => call (O₁.pattern s q) fun (s, t16) =>
        call (O₁.instantiate_pattern s t16 m) fun (s, t17) => ret (s, t17)) = some (some x)
    refine walkC emb hCp hId (m.map (·.2)) hm σ x _ _ (fun σ1 hs1 hA => ?_) h0
    obtain ⟨σ2, hs2, h2, hB⟩ := stepC emb hCp hId hp.2.1 hA
    rw [h2]; simp only [call_some_some]
    dsimp only at hB
    rw [call_eta2 _ _ (fun _ _ => rfl)] at hB ⊢
    rw [hE.instantiate_pattern] at hB
    have htp : takePlugs m.length σ1.1.stack = some (m.map (·.2), σ.1.stack) := by
      rw [hs1]; exact takePlugs_vals m _
    exact (hC.instantiate_pattern σ2 q m _ _ _ x hs2 htp).mpr
      ⟨hp.2.1.self, fun v hv => (hm v hv).self, hB⟩

end compose

/-! ## (a) `Interpreter.pattern`: `statefulK` against `trackerK` -/

theorem statefulK_succ (N k : Nat) : (statefulK N (k + 1)).pattern = Interpreter.pattern (statefulK N k) := rfl
theorem statefulK_zero (N : Nat) (σ : St) (p : NPat) : (statefulK N 0).pattern σ p = none := rfl

/-- **sound**: whatever the generated `Interpreter.pattern` returns on the generated `StatefulInterpreter`, it
returns on the tracker object — same fuel, same recursion depth, no hypothesis -/
theorem pattern_S (N : Nat) : ∀ k, PatS12 (fun σ => σ) (statefulK N k) (trackerK N k) := by
  intro k
  induction k with
  | zero => intro σ p x h; rw [statefulK_zero] at h; cases h
  | succ k ih =>
    intro σ p x h
    rw [statefulK_succ] at h
    rw [trackerK_succ]
    exact body_S (fun σ => σ) (checks_statefulK N k) (emits_tracker N k) (pattern_id N k) ih σ p x h

/-- **complete**: whatever it returns on the tracker object it returns on the generated `StatefulInterpreter`,
given fuel for the reflexive comparisons of the sub-patterns -/
theorem pattern_C (N : Nat) : ∀ k, PatC12 (fun σ => σ) N (statefulK N k) (trackerK N k) := by
  intro k
  induction k with
  | zero => intro σ p x _ h; rw [trackerK_zero] at h; cases h
  | succ k ih =>
    intro σ p x hp h
    rw [trackerK_succ] at h
    rw [statefulK_succ]
    exact body_C (fun σ => σ) (checks_statefulK N k) (emits_tracker N k) (pattern_id N k) ih σ p x hp h

/-! ## (a') `MemoizingInterpreter.pattern`: `statefulMemoK` against `memoK` -/

theorem statefulMemoK_succ (N k : Nat) (S : List NPat) :
    (statefulMemoK N (k + 1) S).pattern = MemoizingInterpreter.pattern N (statefulI N) S (statefulMemoK N k S) := rfl
theorem statefulMemoK_zero (N : Nat) (S : List NPat) (σ : TrSt St) (p : NPat) :
    (statefulMemoK N 0 S).pattern σ p = none := rfl

/-- the text of `MemoizingInterpreter.pattern` over the generated `StatefulInterpreter` (`isinstance(…,
StatefulInterpreter)` holds, `memory` is the tracker's) -/
theorem memo_genS (M : Nat) (S : List NPat) (O : Interp (TrSt St)) (σ : St) (p : NPat) :
    MemoizingInterpreter.pattern M (statefulI M) S O (embM σ) p =
      fuel (inMemoryF M p σ.1.memory) fun hit =>
        if hit then call (O.load (embM σ) noStr (.pat p)) fun s => ret (s, p)
        else if inSet p S then
          call (Interpreter.pattern O (embM σ) p) fun (s, t3) =>
            call (O.save s noStr (.pat p)) fun s => ret (s, t3)
        else call (Interpreter.pattern O (embM σ) p) fun (s, t4) => ret (s, t4) := by
  simp only [MemoizingInterpreter.pattern, andAlso, statefulI, if_true, embM, memF_inMemory]

/-- the body-level statement of `PatId` -/
def BodyId (O : Interp (TrSt St)) : Prop :=
  ∀ σ p τ' v, Interpreter.pattern O (embM σ) p = some (some (τ', v)) →
    ∃ σ' : St, τ' = embM σ' ∧ v = p ∧ σ'.1.stack = (.pat p, false) :: σ.1.stack

theorem memo_step_id (S : List NPat) {O : Interp (TrSt St)} {N : Nat} (hE : Emits embM N O) (hb : BodyId O)
    (σ : St) (p : NPat) (τ' : TrSt St) (v : NPat)
    (h : MemoizingInterpreter.pattern N (callI N) S O (embM σ) p = some (some (τ', v))) :
    ∃ σ' : St, τ' = embM σ' ∧ v = p ∧ σ'.1.stack = (.pat p, false) :: σ.1.stack := by
  rw [memo_gen] at h
  obtain ⟨hit, hmem, h⟩ := fuel_eq_some h
  cases hit with
  | true =>
    simp only [if_true] at h
    rw [hE.load] at h
    obtain ⟨τ1, hu, h⟩ := call_eq_some h
    simp only [ret, Option.some.injEq, Prod.mk.injEq] at h
    obtain ⟨rfl, rfl⟩ := h
    obtain ⟨s', ht, rfl⟩ := gU_some' embM hu
    exact ⟨_, rfl, rfl, tr_load ht⟩
  | false =>
    simp only [Bool.false_eq_true, if_false] at h
    cases hS : inSet p S with
    | true =>
      simp only [hS, if_true] at h
      obtain ⟨⟨τ1, t3⟩, h1, h⟩ := call_eq_some h
      obtain ⟨σ1, e1, e2, hs1⟩ := hb _ _ _ _ h1
      subst e1; subst e2
      dsimp only at h
      rw [hE.save] at h
      obtain ⟨τ2, hu, h⟩ := call_eq_some h
      simp only [ret, Option.some.injEq, Prod.mk.injEq] at h
      obtain ⟨rfl, rfl⟩ := h
      obtain ⟨s', ht, rfl⟩ := gU_some' embM hu
      exact ⟨_, rfl, rfl, (track1_save_stack N _ _ ht).trans hs1⟩
    | false =>
      simp only [hS, Bool.false_eq_true, if_false] at h
      rw [call_eta2 _ _ (fun _ _ => rfl)] at h
      exact hb _ _ _ _ h

theorem memo_pattern_id (N : Nat) (S : List NPat) : ∀ k, PatId embM (memoK N k S) := by
  intro k
  induction k with
  | zero => intro σ p τ' v h; rw [memoK_zero] at h; cases h
  | succ k ih =>
    intro σ p τ' v h
    rw [memoK_succ] at h
    exact memo_step_id S (emits_memo N k S) (body_id embM (emits_memo N k S) ih) σ p τ' v h

/-- one level of `MemoizingInterpreter.pattern`, checking object → tracker -/
theorem memo_step_S (S : List NPat) {O₁ O₂ : Interp (TrSt St)} {M : Nat} (hC : Checks embM M O₁)
    (hE : Emits embM M O₂) (hb : BodyId O₂)
    (hbS : ∀ σ p x, Interpreter.pattern O₁ (embM σ) p = some (some x) →
      Interpreter.pattern O₂ (embM σ) p = some (some x))
    (σ : St) (p : NPat) (x : TrSt St × NPat)
    (h : MemoizingInterpreter.pattern M (statefulI M) S O₁ (embM σ) p = some (some x)) :
    MemoizingInterpreter.pattern M (callI M) S O₂ (embM σ) p = some (some x) := by
  rw [memo_genS] at h
  rw [memo_gen]
  obtain ⟨hit, hmem, h⟩ := fuel_eq_some h
  simp only [hmem, fuel]
  cases hit with
  | true =>
    simp only [if_true] at h ⊢
    rw [hC.load] at h
    rw [hE.load]
    exact h
  | false =>
    simp only [Bool.false_eq_true, if_false] at h ⊢
    cases hS : inSet p S with
    | true =>
      simp only [hS, if_true] at h ⊢
      obtain ⟨⟨τ1, t3⟩, h1, h⟩ := call_eq_some h
      have h2 := hbS _ _ _ h1
      obtain ⟨σ1, e1, e2, hs1⟩ := hb _ _ _ _ h2
      subst e1; subst e2
      rw [h2]; simp only [call_some_some]
      dsimp only at h
      rw [hE.save]
      exact ((call_iff (fun a => hC.save σ1 noStr _ _ _ a hs1) _ x).mp h).2
    | false =>
      simp only [hS, Bool.false_eq_true, if_false] at h ⊢
      rw [call_eta2 _ _ (fun _ _ => rfl)] at h ⊢
      exact hbS _ _ _ h

/-- one level of `MemoizingInterpreter.pattern`, tracker → checking object -/
theorem memo_step_C (S : List NPat) {O₁ O₂ : Interp (TrSt St)} {M : Nat} (hC : Checks embM M O₁)
    (hE : Emits embM M O₂) (hb : BodyId O₂)
    (hbC : ∀ σ p x, SubRefl M p → Interpreter.pattern O₂ (embM σ) p = some (some x) →
      Interpreter.pattern O₁ (embM σ) p = some (some x))
    (σ : St) (p : NPat) (x : TrSt St × NPat) (hp : SubRefl M p)
    (h : MemoizingInterpreter.pattern M (callI M) S O₂ (embM σ) p = some (some x)) :
    MemoizingInterpreter.pattern M (statefulI M) S O₁ (embM σ) p = some (some x) := by
  rw [memo_gen] at h
  rw [memo_genS]
  obtain ⟨hit, hmem, h⟩ := fuel_eq_some h
  simp only [hmem, fuel]
  cases hit with
  | true =>
    simp only [if_true] at h ⊢
    rw [hE.load] at h
    rw [hC.load]
    exact h
  | false =>
    simp only [Bool.false_eq_true, if_false] at h ⊢
    cases hS : inSet p S with
    | true =>
      simp only [hS, if_true] at h ⊢
      obtain ⟨⟨τ1, t3⟩, h2, h⟩ := call_eq_some h
      obtain ⟨σ1, e1, e2, hs1⟩ := hb _ _ _ _ h2
      subst e1; subst e2
      rw [hbC _ _ _ hp h2]; simp only [call_some_some]
      dsimp only at h
      rw [hE.save] at h
      exact (call_iff (fun a => hC.save σ1 noStr _ _ _ a hs1) _ x).mpr ⟨hp.self, h⟩
    | false =>
      simp only [hS, Bool.false_eq_true, if_false] at h ⊢
      rw [call_eta2 _ _ (fun _ _ => rfl)] at h ⊢
      exact hbC _ _ _ hp h

/-- **sound**, through the generated `MemoizingInterpreter` -/
theorem memo_pattern_S (N : Nat) (S : List NPat) : ∀ k, PatS12 embM (statefulMemoK N k S) (memoK N k S) := by
  intro k
  induction k with
  | zero => intro σ p x h; rw [statefulMemoK_zero] at h; cases h
  | succ k ih =>
    intro σ p x h
    rw [statefulMemoK_succ] at h
    rw [memoK_succ]
    exact memo_step_S S (checks_statefulMemoK N k S) (emits_memo N k S)
      (body_id embM (emits_memo N k S) (memo_pattern_id N S k))
      (body_S embM (checks_statefulMemoK N k S) (emits_memo N k S) (memo_pattern_id N S k) ih) σ p x h

/-- **complete**, through the generated `MemoizingInterpreter` -/
theorem memo_pattern_C (N : Nat) (S : List NPat) : ∀ k, PatC12 embM N (statefulMemoK N k S) (memoK N k S) := by
  intro k
  induction k with
  | zero => intro σ p x _ h; rw [memoK_zero] at h; cases h
  | succ k ih =>
    intro σ p x hp h
    rw [memoK_succ] at h
    rw [statefulMemoK_succ]
    exact memo_step_C S (checks_statefulMemoK N k S) (emits_memo N k S)
      (body_id embM (emits_memo N k S) (memo_pattern_id N S k))
      (body_C embM (checks_statefulMemoK N k S) (emits_memo N k S) (memo_pattern_id N S k) ih) σ p x hp h

/-! ## (c) proof expressions: the thunks of the generated rule constructors -/

section runs
variable {τ : Type} (emb : St → τ)

theorem items_cons (O : Interp τ) {β} (k0 : Nat) (p : NPat) (r : List (Nat × NPat)) (s : τ)
    (δ : List (Nat × NPat)) (K : τ × List (Nat × NPat) → Py β) :
    forEach ((k0, p) :: r) (s, δ) (itemsBody O) K =
      call (O.pattern s p) fun y => forEach r (y.1, dictSet δ k0 y.2) (itemsBody O) K := by
  show call (call (O.pattern s p) fun (s, t1) => ret (s, dictSet δ k0 t1)) (fun s => forEach r s (itemsBody O) K) = _
  rw [call_assoc]
  rfl

/-- the loop of `dynamic_inst` on the tracker: the plugs are pushed in the order of `delta.items()`, and every
value of the dict is replaced by itself (the keys are distinct) -/
theorem items_id {O : Interp τ} (ih : PatId emb O) (δ : List (Nat × NPat)) (hnd : (δ.map (·.1)).Nodup) {β} :
    ∀ (items : List (Nat × NPat)), (∀ kv ∈ items, kv ∈ δ) → ∀ (σ : St) (x : β)
      (K : τ × List (Nat × NPat) → Py β),
      forEach items (emb σ, δ) (itemsBody O) K = some (some x) →
      ∃ σ' : St, σ'.1.stack = (items.map (·.2)).reverse.map entry ++ σ.1.stack ∧
        K (emb σ', δ) = some (some x) := by
  intro items
  induction items with
  | nil => intro _ σ x K h; exact ⟨σ, by simp, h⟩
  | cons kp r ihr =>
    intro hsub σ x K h
    obtain ⟨k0, p⟩ := kp
    rw [items_cons] at h
    obtain ⟨σ1, hs1, -, hA⟩ := step_id emb ih h
    dsimp only at hA
    rw [dictSet_self δ hnd k0 p (hsub _ (by simp))] at hA
    obtain ⟨σ', hs', hK⟩ := ihr (fun kv hkv => hsub kv (List.mem_cons_of_mem _ hkv)) σ1 x K hA
    exact ⟨σ', by rw [hs', hs1]; simp [entry], hK⟩

theorem itemsS {O₁ O₂ : Interp τ} (hS : PatS12 emb O₁ O₂) (hId : PatId emb O₂) (δ : List (Nat × NPat))
    (hnd : (δ.map (·.1)).Nodup) {β} :
    ∀ (items : List (Nat × NPat)), (∀ kv ∈ items, kv ∈ δ) → ∀ (σ : St) (x : β)
      (K₁ K₂ : τ × List (Nat × NPat) → Py β),
      (∀ σ' : St, σ'.1.stack = (items.map (·.2)).reverse.map entry ++ σ.1.stack →
        K₁ (emb σ', δ) = some (some x) → K₂ (emb σ', δ) = some (some x)) →
      forEach items (emb σ, δ) (itemsBody O₁) K₁ = some (some x) →
      forEach items (emb σ, δ) (itemsBody O₂) K₂ = some (some x) := by
  intro items
  induction items with
  | nil => intro _ σ x K₁ K₂ hK h; exact hK σ (by simp) h
  | cons kp r ihr =>
    intro hsub σ x K₁ K₂ hK h
    obtain ⟨k0, p⟩ := kp
    rw [items_cons] at h ⊢
    obtain ⟨σ1, hs1, h2, hA⟩ := stepS emb hS hId h
    rw [h2]; simp only [call_some_some]
    dsimp only at hA
    rw [dictSet_self δ hnd k0 p (hsub _ (by simp))] at hA ⊢
    exact ihr (fun kv hkv => hsub kv (List.mem_cons_of_mem _ hkv)) σ1 x K₁ K₂
      (fun σ' hs' => hK σ' (by rw [hs', hs1]; simp [entry])) hA

theorem itemsC {M : Nat} {O₁ O₂ : Interp τ} (hCp : PatC12 emb M O₁ O₂) (hId : PatId emb O₂)
    (δ : List (Nat × NPat)) (hnd : (δ.map (·.1)).Nodup) {β} :
    ∀ (items : List (Nat × NPat)), (∀ kv ∈ items, kv ∈ δ) → (∀ kv ∈ items, SubRefl M kv.2) →
      ∀ (σ : St) (x : β) (K₁ K₂ : τ × List (Nat × NPat) → Py β),
      (∀ σ' : St, σ'.1.stack = (items.map (·.2)).reverse.map entry ++ σ.1.stack →
        K₂ (emb σ', δ) = some (some x) → K₁ (emb σ', δ) = some (some x)) →
      forEach items (emb σ, δ) (itemsBody O₂) K₂ = some (some x) →
      forEach items (emb σ, δ) (itemsBody O₁) K₁ = some (some x) := by
  intro items
  induction items with
  | nil => intro _ _ σ x K₁ K₂ hK h; exact hK σ (by simp) h
  | cons kp r ihr =>
    intro hsub hsr σ x K₁ K₂ hK h
    obtain ⟨k0, p⟩ := kp
    rw [items_cons] at h ⊢
    obtain ⟨σ1, hs1, h1, hA⟩ := stepC emb hCp hId (hsr (k0, p) (by simp)) h
    rw [h1]; simp only [call_some_some]
    dsimp only at hA
    rw [dictSet_self δ hnd k0 p (hsub _ (by simp))] at hA ⊢
    exact ihr (fun kv hkv => hsub kv (List.mem_cons_of_mem _ hkv))
      (fun kv hkv => hsr kv (List.mem_cons_of_mem _ hkv)) σ1 x K₁ K₂
      (fun σ' hs' => hK σ' (by rw [hs', hs1]; simp [entry])) hA

/-- the `Proved` a thunk returns is the one new entry on the stack -/
def RunTop (N : Nat) (O : Interp τ) (t : ProofThunk τ) : Prop :=
  ∀ (σ : St) (τ' : τ) (pr : Proved), ProofThunk.__call__ N t O (emb σ) = some (some (τ', pr)) →
    ∃ σ' : St, τ' = emb σ' ∧ σ'.1.stack = (.proved pr.conclusion, false) :: σ.1.stack

theorem step_top {N : Nat} {O : Interp τ} {t : ProofThunk τ} (ht : RunTop emb N O t) {β} {σ : St}
    {K : τ × Proved → Py β} {x : β} (h : call (ProofThunk.__call__ N t O (emb σ)) K = some (some x)) :
    ∃ (σ1 : St) (pr : Proved), σ1.1.stack = (.proved pr.conclusion, false) :: σ.1.stack ∧
      ProofThunk.__call__ N t O (emb σ) = some (some (emb σ1, pr)) ∧ K (emb σ1, pr) = some (some x) := by
  obtain ⟨⟨τ1, pr⟩, h1, hK⟩ := call_eq_some h
  obtain ⟨σ1, e1, hs1⟩ := ht _ _ _ h1
  subst e1
  exact ⟨σ1, pr, hs1, h1, hK⟩

theorem proved_top {s : PySt} {c : NPat} {st : Stack} (h : s.stack = (.proved c, false) :: st) :
    (⟨InterpTie.topPat s⟩ : Proved).conclusion = c := by
  simp [InterpTie.topPat, h, TTerm.body]

/-- **the calling convention for proofs**: the `Proved` a thunk of the generated rule constructors returns on the
tracker is the one new entry on top of the stack -/
theorem run_top {O : Interp τ} {N M : Nat} (ax : List NPat) (hE : Emits emb M O) (hId : PatId emb O) :
    ∀ (pf : Pf), KeysNodup pf → ∀ (t : ProofThunk τ), build N ax pf = some (some t) → RunTop emb N O t := by
  intro pf
  induction pf with
  | prop1 =>
    intro _ t ht σ τ' pr h
    obtain ⟨hexpr, -⟩ := (thunk_call_some N t O _ _).mp h
    simp only [build, ret, Option.some.injEq] at ht; subst ht
    simp only [prop1_eq, axExpr] at hexpr
    rw [call_eta2 _ _ (fun _ _ => rfl), hE.prop1] at hexpr
    obtain ⟨s', htr, rfl, rfl⟩ := gT_some' emb hexpr
    obtain ⟨a, hs'⟩ := tr_axiom (Or.inl rfl) htr
    exact ⟨_, rfl, by rw [hs', proved_top hs']⟩
  | prop2 =>
    intro _ t ht σ τ' pr h
    obtain ⟨hexpr, -⟩ := (thunk_call_some N t O _ _).mp h
    simp only [build, ret, Option.some.injEq] at ht; subst ht
    simp only [prop2_eq, axExpr] at hexpr
    rw [call_eta2 _ _ (fun _ _ => rfl), hE.prop2] at hexpr
    obtain ⟨s', htr, rfl, rfl⟩ := gT_some' emb hexpr
    obtain ⟨a, hs'⟩ := tr_axiom (Or.inr (Or.inl rfl)) htr
    exact ⟨_, rfl, by rw [hs', proved_top hs']⟩
  | prop3 =>
    intro _ t ht σ τ' pr h
    obtain ⟨hexpr, -⟩ := (thunk_call_some N t O _ _).mp h
    simp only [build, ret, Option.some.injEq] at ht; subst ht
    simp only [prop3_eq, axExpr] at hexpr
    rw [call_eta2 _ _ (fun _ _ => rfl), hE.prop3] at hexpr
    obtain ⟨s', htr, rfl, rfl⟩ := gT_some' emb hexpr
    obtain ⟨a, hs'⟩ := tr_axiom (Or.inr (Or.inr (Or.inl rfl))) htr
    exact ⟨_, rfl, by rw [hs', proved_top hs']⟩
  | quantifier =>
    intro _ t ht σ τ' pr h
    obtain ⟨hexpr, -⟩ := (thunk_call_some N t O _ _).mp h
    simp only [build, ret, Option.some.injEq] at ht; subst ht
    simp only [quant_eq, axExpr] at hexpr
    rw [call_eta2 _ _ (fun _ _ => rfl), hE.exists_quantifier] at hexpr
    obtain ⟨s', htr, rfl, rfl⟩ := gT_some' emb hexpr
    obtain ⟨a, hs'⟩ := tr_axiom (Or.inr (Or.inr (Or.inr rfl))) htr
    exact ⟨_, rfl, by rw [hs', proved_top hs']⟩
  | loadAxiom a =>
    intro _ t ht σ τ' pr h
    obtain ⟨hexpr, -⟩ := (thunk_call_some N t O _ _).mp h
    simp only [build, load_eq, Option.bind_eq_some_iff] at ht
    obtain ⟨b, _, ht⟩ := ht
    cases b with
    | false => simp at ht
    | true =>
      simp only [if_true, Option.some.injEq] at ht; subst ht
      simp only [loadExpr, hE.load, ofProved] at hexpr
      obtain ⟨τ1, hu, hexpr⟩ := call_eq_some hexpr
      simp only [ret, Option.some.injEq, Prod.mk.injEq] at hexpr
      obtain ⟨rfl, rfl⟩ := hexpr
      obtain ⟨s', htr, rfl⟩ := gU_some' emb hu
      exact ⟨_, rfl, tr_load htr⟩
  | mp l r ihl ihr =>
    intro hk t ht σ τ' pr h
    obtain ⟨hexpr, -⟩ := (thunk_call_some N t O _ _).mp h
    simp only [build] at ht
    obtain ⟨tl, hl, ht⟩ := call_eq_some ht
    obtain ⟨tr, hr, ht⟩ := call_eq_some ht
    rw [mp_eq] at ht
    obtain ⟨o, _, ho'⟩ := (pmap_some _ _ _).mp ht
    cases o with
    | none => cases ho'
    | some q =>
      simp only [Option.map_some, Option.some.injEq] at ho'; subst ho'
      simp only [mpExpr] at hexpr
      obtain ⟨σ1, p1, hs1, -, hA⟩ := step_top emb (ihl hk.1 tl hl) hexpr
      obtain ⟨σ2, p2, hs2, -, hB⟩ := step_top emb (ihr hk.2 tr hr) hA
      dsimp only at hB
      rw [call_eta2 _ _ (fun _ _ => rfl), hE.modus_ponens] at hB
      obtain ⟨s', htr, rfl, rfl⟩ := gT_some' emb hB
      obtain ⟨c, hs'⟩ := tr_mp (hs2.trans (by rw [hs1])) htr
      exact ⟨_, rfl, by rw [hs', proved_top hs']⟩
  | gen p x ih =>
    intro hk t ht σ τ' pr h
    obtain ⟨hexpr, -⟩ := (thunk_call_some N t O _ _).mp h
    simp only [build] at ht
    obtain ⟨tp, hp, ht⟩ := call_eq_some ht
    rw [gen_eq] at ht
    obtain ⟨o, _, ho'⟩ := (pmap_some _ _ _).mp ht
    cases o with
    | none => cases ho'
    | some q =>
      simp only [Option.map_some, Option.some.injEq] at ho'; subst ho'
      simp only [genExpr] at hexpr
      obtain ⟨σ1, p1, hs1, -, hA⟩ := step_top emb (ih hk tp hp) hexpr
      dsimp only at hA
      rw [call_eta2 _ _ (fun _ _ => rfl), hE.exists_generalization] at hA
      obtain ⟨s', htr, rfl, rfl⟩ := gT_some' emb hA
      obtain ⟨c, hs'⟩ := tr_gen hs1 htr
      exact ⟨_, rfl, by rw [hs', proved_top hs']⟩
  | dynInst p δ ih =>
    intro hk t ht σ τ' pr h
    simp only [build] at ht
    obtain ⟨tp, hp, ht⟩ := call_eq_some ht
    rw [dyn_eq] at ht
    cases hδ : δ.isEmpty with
    | true =>
      simp only [hδ, if_true, Option.some.injEq] at ht; subst ht
      exact ih hk.1 _ hp σ τ' pr h
    | false =>
      obtain ⟨hexpr, -⟩ := (thunk_call_some N t O _ _).mp h
      simp only [hδ, Bool.false_eq_true, if_false] at ht
      obtain ⟨o, _, ho'⟩ := (pmap_some _ _ _).mp ht
      cases o with
      | none => cases ho'
      | some q =>
        simp only [Option.map_some, Option.some.injEq] at ho'; subst ho'
        replace hexpr : dynExpr tp δ N O (emb σ) = some (some (τ', pr)) := hexpr
        rw [dynExpr_eq] at hexpr
        obtain ⟨σ1, hs1, hK⟩ := items_id emb hId δ hk.2 δ (fun _ h => h) σ _ _ hexpr
        simp only [dynK] at hK
        obtain ⟨σ2, p2, hs2, -, hB⟩ := step_top emb (ih hk.1 tp hp) hK
        dsimp only at hB
        rw [call_eta2 _ _ (fun _ _ => rfl), hE.instantiate] at hB
        obtain ⟨s', htr, rfl, rfl⟩ := gT_some' emb hB
        have htp : takePlugs (δ.map (·.1)).length σ1.1.stack = some (δ.map (·.2), σ.1.stack) := by
          rw [hs1, List.length_map]; exact takePlugs_vals δ _
        have hke : (δ.map (·.1)).isEmpty = false := by cases δ <;> simp_all
        obtain ⟨c, hs'⟩ := tr_inst hke hs2 htp htr
        exact ⟨_, rfl, by rw [hs', proved_top hs']⟩

/-- whatever the thunk returns on `O₁` it returns on `O₂` -/
def RunS (N : Nat) (O₁ O₂ : Interp τ) (t : ProofThunk τ) : Prop :=
  ∀ (σ : St) (x : τ × Proved), ProofThunk.__call__ N t O₁ (emb σ) = some (some x) →
    ProofThunk.__call__ N t O₂ (emb σ) = some (some x)

theorem stepRunS {N : Nat} {O₁ O₂ : Interp τ} {t : ProofThunk τ} (hS : RunS emb N O₁ O₂ t) (ht : RunTop emb N O₂ t)
    {β} {σ : St} {K : τ × Proved → Py β} {x : β}
    (h : call (ProofThunk.__call__ N t O₁ (emb σ)) K = some (some x)) :
    ∃ (σ1 : St) (pr : Proved), σ1.1.stack = (.proved pr.conclusion, false) :: σ.1.stack ∧
      ProofThunk.__call__ N t O₂ (emb σ) = some (some (emb σ1, pr)) ∧ K (emb σ1, pr) = some (some x) := by
  obtain ⟨⟨τ1, pr⟩, h1, hK⟩ := call_eq_some h
  have h2 := hS _ _ h1
  obtain ⟨σ1, e1, hs1⟩ := ht _ _ _ h2
  subst e1
  exact ⟨σ1, pr, hs1, h2, hK⟩

theorem thunk_expr_S {N : Nat} {O₁ O₂ : Interp τ} {t : ProofThunk τ}
    (h : ∀ (σ : St) x, t._expr N O₁ (emb σ) = some (some x) → t._expr N O₂ (emb σ) = some (some x)) :
    RunS emb N O₁ O₂ t := by
  intro σ x hx
  obtain ⟨hexpr, hpeq⟩ := (thunk_call_some N t O₁ _ _).mp hx
  exact (thunk_call_some N t O₂ _ _).mpr ⟨h σ x hexpr, hpeq⟩

/-- **sound, proof expressions**: whatever a thunk built by the generated rule constructors returns on the
checking object, it returns on the tracker — every rule method is called with the `Proved` terms (and the
plugs) that are on the stack -/
theorem run_S {O₁ O₂ : Interp τ} {N M : Nat} (ax : List NPat) (hC : Checks emb M O₁) (hE : Emits emb M O₂)
    (hId : PatId emb O₂) (hS : PatS12 emb O₁ O₂) :
    ∀ (pf : Pf), KeysNodup pf → ∀ (t : ProofThunk τ), build N ax pf = some (some t) → RunS emb N O₁ O₂ t := by
  intro pf
  induction pf with
  | prop1 =>
    intro _ t ht
    simp only [build, ret, Option.some.injEq] at ht; subst ht
    refine thunk_expr_S emb (fun σ x h => ?_)
    simp only [prop1_eq, axExpr] at h ⊢
    rw [hC.prop1] at h; rw [hE.prop1]; exact h
  | prop2 =>
    intro _ t ht
    simp only [build, ret, Option.some.injEq] at ht; subst ht
    refine thunk_expr_S emb (fun σ x h => ?_)
    simp only [prop2_eq, axExpr] at h ⊢
    rw [hC.prop2] at h; rw [hE.prop2]; exact h
  | prop3 =>
    intro _ t ht
    simp only [build, ret, Option.some.injEq] at ht; subst ht
    refine thunk_expr_S emb (fun σ x h => ?_)
    simp only [prop3_eq, axExpr] at h ⊢
    rw [hC.prop3] at h; rw [hE.prop3]; exact h
  | quantifier =>
    intro _ t ht
    simp only [build, ret, Option.some.injEq] at ht; subst ht
    refine thunk_expr_S emb (fun σ x h => ?_)
    simp only [quant_eq, axExpr] at h ⊢
    rw [hC.exists_quantifier] at h; rw [hE.exists_quantifier]; exact h
  | loadAxiom a =>
    intro _ t ht
    simp only [build, load_eq, Option.bind_eq_some_iff] at ht
    obtain ⟨b, _, ht⟩ := ht
    cases b with
    | false => simp at ht
    | true =>
      simp only [if_true, Option.some.injEq] at ht; subst ht
      refine thunk_expr_S emb (fun σ x h => ?_)
      simp only [loadExpr] at h ⊢
      rw [hC.load] at h; rw [hE.load]; exact h
  | mp l r ihl ihr =>
    intro hk t ht
    simp only [build] at ht
    obtain ⟨tl, hl, ht⟩ := call_eq_some ht
    obtain ⟨tr, hr, ht⟩ := call_eq_some ht
    rw [mp_eq] at ht
    obtain ⟨o, _, ho'⟩ := (pmap_some _ _ _).mp ht
    cases o with
    | none => cases ho'
    | some q =>
      simp only [Option.map_some, Option.some.injEq] at ho'; subst ho'
      refine thunk_expr_S emb (fun σ x h => ?_)
      simp only [mpExpr] at h ⊢
      obtain ⟨σ1, p1, hs1, h1, hA⟩ := stepRunS emb (ihl hk.1 tl hl) (run_top emb ax hE hId l hk.1 tl hl) h
      obtain ⟨σ2, p2, hs2, h2, hB⟩ := stepRunS emb (ihr hk.2 tr hr) (run_top emb ax hE hId r hk.2 tr hr) hA
      rw [h1]; simp only [call_some_some]; rw [h2]; simp only [call_some_some]
      dsimp only at hB
      rw [call_eta2 _ _ (fun _ _ => rfl)] at hB ⊢
      rw [hE.modus_ponens]
      exact ((hC.modus_ponens σ2 p1.conclusion p2.conclusion _ _ _ x (hs2.trans (by rw [hs1]))).mp hB).2.2
  | gen p v ih =>
    intro hk t ht
    simp only [build] at ht
    obtain ⟨tp, hp, ht⟩ := call_eq_some ht
    rw [gen_eq] at ht
    obtain ⟨o, _, ho'⟩ := (pmap_some _ _ _).mp ht
    cases o with
    | none => cases ho'
    | some q =>
      simp only [Option.map_some, Option.some.injEq] at ho'; subst ho'
      refine thunk_expr_S emb (fun σ x h => ?_)
      simp only [genExpr] at h ⊢
      obtain ⟨σ1, p1, hs1, h1, hA⟩ := stepRunS emb (ih hk tp hp) (run_top emb ax hE hId p hk tp hp) h
      rw [h1]; simp only [call_some_some]
      dsimp only at hA
      rw [call_eta2 _ _ (fun _ _ => rfl)] at hA ⊢
      rw [hE.exists_generalization]
      exact ((hC.exists_generalization σ1 p1.conclusion v _ _ x hs1).mp hA).2
  | dynInst p δ ih =>
    intro hk t ht
    simp only [build] at ht
    obtain ⟨tp, hp, ht⟩ := call_eq_some ht
    rw [dyn_eq] at ht
    cases hδ : δ.isEmpty with
    | true =>
      simp only [hδ, if_true, Option.some.injEq] at ht; subst ht
      exact ih hk.1 _ hp
    | false =>
      simp only [hδ, Bool.false_eq_true, if_false] at ht
      obtain ⟨o, _, ho'⟩ := (pmap_some _ _ _).mp ht
      cases o with
      | none => cases ho'
      | some q =>
        simp only [Option.map_some, Option.some.injEq] at ho'; subst ho'
        refine thunk_expr_S emb (fun σ x h => ?_)
        replace h : dynExpr tp δ N O₁ (emb σ) = some (some x) := h
        show dynExpr tp δ N O₂ (emb σ) = some (some x)
        rw [dynExpr_eq] at h ⊢
        refine itemsS emb hS hId δ hk.2 δ (fun _ h => h) σ x _ _ (fun σ1 hs1 hK => ?_) h
        simp only [dynK] at hK ⊢
        obtain ⟨σ2, p2, hs2, h2, hB⟩ := stepRunS emb (ih hk.1 tp hp) (run_top emb ax hE hId p hk.1 tp hp) hK
        rw [h2]; simp only [call_some_some]
        dsimp only at hB
        rw [call_eta2 _ _ (fun _ _ => rfl)] at hB ⊢
        rw [hE.instantiate]
        have htp : takePlugs δ.length σ1.1.stack = some (δ.map (·.2), σ.1.stack) := by
          rw [hs1]; exact takePlugs_vals δ _
        exact ((hC.instantiate σ2 p2.conclusion δ _ _ _ x hs2 htp).mp hB).2.2

/-! ### the other direction -/

/-- every conclusion the thunk of `pf` returns on `O` (from any state) self-compares within fuel `M` -/
def OwnRefl (M N : Nat) (ax : List NPat) (O : Interp τ) (pf : Pf) : Prop :=
  ∀ (t : ProofThunk τ) (σ : St) (τ' : τ) (pr : Proved), build N ax pf = some (some t) →
    ProofThunk.__call__ N t O (emb σ) = some (some (τ', pr)) → Refl M (.proved pr.conclusion)

/-- fuel for the reflexive comparisons of a run of `pf`: the conclusions of the sub-proofs a rule consumes, and
the sub-patterns of the plugs -/
def ConcsRefl (M N : Nat) (ax : List NPat) (O : Interp τ) : Pf → Prop
  | .mp l r => ConcsRefl M N ax O l ∧ ConcsRefl M N ax O r ∧ OwnRefl emb M N ax O l ∧ OwnRefl emb M N ax O r
  | .gen p _ => ConcsRefl M N ax O p ∧ OwnRefl emb M N ax O p
  | .dynInst p δ => ConcsRefl M N ax O p ∧ (δ.isEmpty = false → OwnRefl emb M N ax O p ∧ SubReflMap M δ)
  | _ => True

/-- whatever the thunk returns on `O₂` it returns on `O₁` -/
def RunC (N : Nat) (O₁ O₂ : Interp τ) (t : ProofThunk τ) : Prop :=
  ∀ (σ : St) (x : τ × Proved), ProofThunk.__call__ N t O₂ (emb σ) = some (some x) →
    ProofThunk.__call__ N t O₁ (emb σ) = some (some x)

theorem stepRunC {N : Nat} {O₁ O₂ : Interp τ} {t : ProofThunk τ} (hCr : RunC emb N O₁ O₂ t) (ht : RunTop emb N O₂ t)
    {β} {σ : St} {K : τ × Proved → Py β} {x : β}
    (h : call (ProofThunk.__call__ N t O₂ (emb σ)) K = some (some x)) :
    ∃ (σ1 : St) (pr : Proved), σ1.1.stack = (.proved pr.conclusion, false) :: σ.1.stack ∧
      ProofThunk.__call__ N t O₁ (emb σ) = some (some (emb σ1, pr)) ∧
      ProofThunk.__call__ N t O₂ (emb σ) = some (some (emb σ1, pr)) ∧ K (emb σ1, pr) = some (some x) := by
  obtain ⟨⟨τ1, pr⟩, h2, hK⟩ := call_eq_some h
  obtain ⟨σ1, e1, hs1⟩ := ht _ _ _ h2
  subst e1
  exact ⟨σ1, pr, hs1, hCr _ _ h2, h2, hK⟩

theorem thunk_expr_C {N : Nat} {O₁ O₂ : Interp τ} {t : ProofThunk τ}
    (h : ∀ (σ : St) x, t._expr N O₂ (emb σ) = some (some x) → t._expr N O₁ (emb σ) = some (some x)) :
    RunC emb N O₁ O₂ t := by
  intro σ x hx
  obtain ⟨hexpr, hpeq⟩ := (thunk_call_some N t O₂ _ _).mp hx
  exact (thunk_call_some N t O₁ _ _).mpr ⟨h σ x hexpr, hpeq⟩

/-- **complete, proof expressions**: whatever a thunk built by the generated rule constructors returns on the
tracker it returns on the checking object, given the fuel for the reflexive comparisons -/
theorem run_C {O₁ O₂ : Interp τ} {N M : Nat} (ax : List NPat) (hC : Checks emb M O₁) (hE : Emits emb M O₂)
    (hId : PatId emb O₂) (hCp : PatC12 emb M O₁ O₂) :
    ∀ (pf : Pf), KeysNodup pf → ConcsRefl emb M N ax O₂ pf → ∀ (t : ProofThunk τ),
      build N ax pf = some (some t) → RunC emb N O₁ O₂ t := by
  intro pf
  induction pf with
  | prop1 =>
    intro _ _ t ht
    simp only [build, ret, Option.some.injEq] at ht; subst ht
    refine thunk_expr_C emb (fun σ x h => ?_)
    simp only [prop1_eq, axExpr] at h ⊢
    rw [hE.prop1] at h; rw [hC.prop1]; exact h
  | prop2 =>
    intro _ _ t ht
    simp only [build, ret, Option.some.injEq] at ht; subst ht
    refine thunk_expr_C emb (fun σ x h => ?_)
    simp only [prop2_eq, axExpr] at h ⊢
    rw [hE.prop2] at h; rw [hC.prop2]; exact h
  | prop3 =>
    intro _ _ t ht
    simp only [build, ret, Option.some.injEq] at ht; subst ht
    refine thunk_expr_C emb (fun σ x h => ?_)
    simp only [prop3_eq, axExpr] at h ⊢
    rw [hE.prop3] at h; rw [hC.prop3]; exact h
  | quantifier =>
    intro _ _ t ht
    simp only [build, ret, Option.some.injEq] at ht; subst ht
    refine thunk_expr_C emb (fun σ x h => ?_)
    simp only [quant_eq, axExpr] at h ⊢
    rw [hE.exists_quantifier] at h; rw [hC.exists_quantifier]; exact h
  | loadAxiom a =>
    intro _ _ t ht
    simp only [build, load_eq, Option.bind_eq_some_iff] at ht
    obtain ⟨b, _, ht⟩ := ht
    cases b with
    | false => simp at ht
    | true =>
      simp only [if_true, Option.some.injEq] at ht; subst ht
      refine thunk_expr_C emb (fun σ x h => ?_)
      simp only [loadExpr] at h ⊢
      rw [hE.load] at h; rw [hC.load]; exact h
  | mp l r ihl ihr =>
    intro hk hr' t ht
    simp only [ConcsRefl] at hr'
    simp only [build] at ht
    obtain ⟨tl, hl, ht⟩ := call_eq_some ht
    obtain ⟨tr, hr, ht⟩ := call_eq_some ht
    rw [mp_eq] at ht
    obtain ⟨o, _, ho'⟩ := (pmap_some _ _ _).mp ht
    cases o with
    | none => cases ho'
    | some q =>
      simp only [Option.map_some, Option.some.injEq] at ho'; subst ho'
      refine thunk_expr_C emb (fun σ x h => ?_)
      simp only [mpExpr] at h ⊢
      obtain ⟨σ1, p1, hs1, h1, h1', hA⟩ :=
        stepRunC emb (ihl hk.1 hr'.1 tl hl) (run_top emb ax hE hId l hk.1 tl hl) h
      obtain ⟨σ2, p2, hs2, h2, h2', hB⟩ :=
        stepRunC emb (ihr hk.2 hr'.2.1 tr hr) (run_top emb ax hE hId r hk.2 tr hr) hA
      rw [h1]; simp only [call_some_some]; rw [h2]; simp only [call_some_some]
      dsimp only at hB
      rw [call_eta2 _ _ (fun _ _ => rfl)] at hB ⊢
      rw [hE.modus_ponens] at hB
      exact (hC.modus_ponens σ2 p1.conclusion p2.conclusion _ _ _ x (hs2.trans (by rw [hs1]))).mpr
        ⟨hr'.2.2.1 tl σ _ p1 hl h1', hr'.2.2.2 tr σ1 _ p2 hr h2', hB⟩
  | gen p v ih =>
    intro hk hr' t ht
    simp only [ConcsRefl] at hr'
    simp only [build] at ht
    obtain ⟨tp, hp, ht⟩ := call_eq_some ht
    rw [gen_eq] at ht
    obtain ⟨o, _, ho'⟩ := (pmap_some _ _ _).mp ht
    cases o with
    | none => cases ho'
    | some q =>
      simp only [Option.map_some, Option.some.injEq] at ho'; subst ho'
      refine thunk_expr_C emb (fun σ x h => ?_)
      simp only [genExpr] at h ⊢
      obtain ⟨σ1, p1, hs1, h1, h1', hA⟩ :=
        stepRunC emb (ih hk hr'.1 tp hp) (run_top emb ax hE hId p hk tp hp) h
      rw [h1]; simp only [call_some_some]
      dsimp only at hA
      rw [call_eta2 _ _ (fun _ _ => rfl)] at hA ⊢
      rw [hE.exists_generalization] at hA
      exact (hC.exists_generalization σ1 p1.conclusion v _ _ x hs1).mpr ⟨hr'.2 tp σ _ p1 hp h1', hA⟩
  | dynInst p δ ih =>
    intro hk hr' t ht
    simp only [ConcsRefl] at hr'
    simp only [build] at ht
    obtain ⟨tp, hp, ht⟩ := call_eq_some ht
    rw [dyn_eq] at ht
    cases hδ : δ.isEmpty with
    | true =>
      simp only [hδ, if_true, Option.some.injEq] at ht; subst ht
      exact ih hk.1 hr'.1 _ hp
    | false =>
      obtain ⟨hown, hplugs⟩ := hr'.2 hδ
      have hplugs' := subReflMap_iff.mp hplugs
      simp only [hδ, Bool.false_eq_true, if_false] at ht
      obtain ⟨o, _, ho'⟩ := (pmap_some _ _ _).mp ht
      cases o with
      | none => cases ho'
      | some q =>
        simp only [Option.map_some, Option.some.injEq] at ho'; subst ho'
        refine thunk_expr_C emb (fun σ x h => ?_)
        replace h : dynExpr tp δ N O₂ (emb σ) = some (some x) := h
        show dynExpr tp δ N O₁ (emb σ) = some (some x)
        rw [dynExpr_eq] at h ⊢
        refine itemsC emb hCp hId δ hk.2 δ (fun _ h => h)
          (fun kv hkv => hplugs' kv.2 (List.mem_map.mpr ⟨kv, hkv, rfl⟩)) σ x _ _ (fun σ1 hs1 hK => ?_) h
        simp only [dynK] at hK ⊢
        obtain ⟨σ2, p2, hs2, h2, h2', hB⟩ :=
          stepRunC emb (ih hk.1 hr'.1 tp hp) (run_top emb ax hE hId p hk.1 tp hp) hK
        rw [h2]; simp only [call_some_some]
        dsimp only at hB
        rw [call_eta2 _ _ (fun _ _ => rfl)] at hB ⊢
        rw [hE.instantiate] at hB
        have htp : takePlugs δ.length σ1.1.stack = some (δ.map (·.2), σ.1.stack) := by
          rw [hs1]; exact takePlugs_vals δ _
        exact (hC.instantiate σ2 p2.conclusion δ _ _ _ x hs2 htp).mpr
          ⟨hown tp σ1 _ p2 hp h2', fun v hv => (hplugs' v hv).self, hB⟩

end runs

/-! ## (b) the phases of `ProofExp` -/

section phases
variable {τ : Type} (emb : St → τ)

/-- `F₁` followed by anything returns only what `F₂` followed by the same returns — for continuations that are
compared on embedded tracker states only (all states of a run are) -/
def Trans {α : Type} (X₁ X₂ : Py α) (P : α → Prop) : Prop :=
  ∀ {β : Type} (x : β) (K₁ K₂ : α → Py β), (∀ a, P a → K₁ a = some (some x) → K₂ a = some (some x)) →
    call X₁ K₁ = some (some x) → call X₂ K₂ = some (some x)

/-- the states of a run: embedded tracker states -/
def IsEmb (s : τ) : Prop := ∃ σ : St, s = emb σ

theorem trans_of {α : Type} {X₁ X₂ : Py α} {P : α → Prop}
    (h : ∀ a, X₁ = some (some a) → X₂ = some (some a) ∧ P a) : Trans X₁ X₂ P := by
  intro β x K₁ K₂ hK hc
  obtain ⟨a, ha, hk⟩ := call_eq_some hc
  obtain ⟨h2, hP⟩ := h a ha
  rw [h2]
  exact hK a hP hk

theorem Trans.run {α : Type} {X₁ X₂ : Py α} {P : α → Prop} (h : Trans X₁ X₂ P) (a : α)
    (ha : X₁ = some (some a)) : X₂ = some (some a) := by
  have := h (β := α) a (fun y => ret y) (fun y => ret y) (fun _ _ hk => hk) (by rw [ha]; rfl)
  rwa [call_ret] at this

theorem forEach_call {α σ' β γ : Type} (l : List α) (s : σ') (b : α → σ' → Py σ') (K : σ' → Py β) (K' : β → Py γ) :
    call (forEach l s b K) K' = forEach l s b (fun s => call (K s) K') := by
  induction l generalizing s with
  | nil => rfl
  | cons a r ih =>
    simp only [forEach, call_assoc]
    congr 1
    funext s1
    exact ih s1

/-- a loop, body by body -/
theorem forEach_trans {α : Type} (l : List α) (b₁ b₂ : α → τ → Py τ)
    (hb : ∀ a ∈ l, ∀ σ : St, Trans (b₁ a (emb σ)) (b₂ a (emb σ)) (IsEmb emb)) :
    ∀ (σ : St) {β : Type} (x : β) (K₁ K₂ : τ → Py β),
      (∀ σ' : St, K₁ (emb σ') = some (some x) → K₂ (emb σ') = some (some x)) →
      forEach l (emb σ) b₁ K₁ = some (some x) → forEach l (emb σ) b₂ K₂ = some (some x) := by
  induction l with
  | nil => intro σ β x K₁ K₂ hK h; exact hK σ h
  | cons a r ih =>
    intro σ β x K₁ K₂ hK h
    have ihr := ih (fun a' ha' => hb a' (List.mem_cons_of_mem _ ha'))
    refine hb a (by simp) σ x (fun s => forEach r s b₁ K₁) (fun s => forEach r s b₂ K₂) ?_ h
    rintro _ ⟨σ1, rfl⟩ h1
    exact ihr σ1 x K₁ K₂ hK h1

theorem trans_gU {M : Nat} (σ : St) (c : Call) : Trans (gU emb M σ c) (gU emb M σ c) (IsEmb emb) :=
  trans_of (fun a ha => ⟨ha, by obtain ⟨s', _, rfl⟩ := gU_some' emb ha; exact ⟨_, rfl⟩⟩)

/-- `interpreter.publish_*(interpreter.pattern(a))`, checking object → tracker -/
theorem pubBody_S {M : Nat} {O₁ O₂ : Interp τ} (hS : PatS12 emb O₁ O₂) (hId : PatId emb O₂) (c : Call)
    (pub₁ pub₂ : τ → NPat → Py τ)
    (hp : ∀ (σ : St) a f st y, σ.1.stack = (.pat a, f) :: st → pub₁ (emb σ) a = some (some y) →
      gU emb M σ c = some (some y))
    (hp2 : ∀ σ a, pub₂ (emb σ) a = gU emb M σ c) (a : NPat) (σ : St) :
    Trans (pubBody O₁ pub₁ a (emb σ)) (pubBody O₂ pub₂ a (emb σ)) (IsEmb emb) := by
  refine trans_of (fun y hy => ?_)
  simp only [pubBody] at hy ⊢
  obtain ⟨σ1, hs1, h2, hA⟩ := stepS emb hS hId hy
  dsimp only at hA
  rw [call_ret] at hA
  have hg := hp σ1 a _ _ y hs1 hA
  obtain ⟨s', _, rfl⟩ := gU_some' emb hg
  refine ⟨?_, _, rfl⟩
  rw [h2]; simp only [call_some_some]
  rw [call_ret, hp2]
  exact hg

/-- `interpreter.publish_*(interpreter.pattern(a))`, tracker → checking object -/
theorem pubBody_C {M : Nat} {O₁ O₂ : Interp τ} (hCp : PatC12 emb M O₁ O₂) (hId : PatId emb O₂) (c : Call)
    (pub₁ pub₂ : τ → NPat → Py τ)
    (hp : ∀ (σ : St) a f st y, σ.1.stack = (.pat a, f) :: st → Refl M (.pat a) → gU emb M σ c = some (some y) →
      pub₁ (emb σ) a = some (some y))
    (hp2 : ∀ σ a, pub₂ (emb σ) a = gU emb M σ c) (a : NPat) (ha : SubRefl M a) (σ : St) :
    Trans (pubBody O₂ pub₂ a (emb σ)) (pubBody O₁ pub₁ a (emb σ)) (IsEmb emb) := by
  refine trans_of (fun y hy => ?_)
  simp only [pubBody] at hy ⊢
  obtain ⟨σ1, hs1, h1, hA⟩ := stepC emb hCp hId ha hy
  dsimp only at hA
  rw [call_ret, hp2] at hA
  obtain ⟨s', _, rfl⟩ := gU_some' emb hA
  refine ⟨?_, _, rfl⟩
  rw [h1]; simp only [call_some_some]
  rw [call_ret]
  exact hp σ1 a _ _ _ hs1 ha.self hA

theorem assert_call {α β : Type} (c : Bool) (k : Py α) (K : α → Py β) :
    call (assert_ c k) K = assert_ c (call k K) := by
  cases c <;> rfl

theorem assert_some {β : Type} {c : Bool} {k : Py β} {x : β} :
    assert_ c k = some (some x) ↔ c = true ∧ k = some (some x) := by
  cases c <;> simp [assert_, raise]

/-- an object whose phase changes and `phase` attribute are the tracker's -/
structure PhaseLike (M : Nat) (O : Interp τ) : Prop where
  phase : ∀ σ, O.phase (emb σ) = σ.1.phase
  into_claim_phase : ∀ σ, O.into_claim_phase (emb σ) = gU emb M σ .intoClaim
  into_proof_phase : ∀ σ, O.into_proof_phase (emb σ) = gU emb M σ .intoProof

theorem Checks.phaseLike {M : Nat} {O : Interp τ} (h : Checks emb M O) : PhaseLike emb M O :=
  ⟨h.phase, h.into_claim_phase, h.into_proof_phase⟩
theorem _root_.ProofTie.Emits.phaseLike {M : Nat} {O : Interp τ} (h : Emits emb M O) : PhaseLike emb M O :=
  ⟨h.phase, h.into_claim_phase, h.into_proof_phase⟩

theorem moveTail_trans {M : Nat} {Oa Ob : Interp τ} (ha : PhaseLike emb M Oa) (hb : PhaseLike emb M Ob)
    (mv : Bool) (σ : St) :
    Trans (moveTail Oa.into_claim_phase mv (emb σ)) (moveTail Ob.into_claim_phase mv (emb σ)) (IsEmb emb) ∧
    Trans (moveTail Oa.into_proof_phase mv (emb σ)) (moveTail Ob.into_proof_phase mv (emb σ)) (IsEmb emb) := by
  constructor
  · refine trans_of (fun y hy => ?_)
    cases mv with
    | false =>
      simp only [moveTail, Bool.false_eq_true, if_false, ret, call_some_some, Option.some.injEq] at hy ⊢
      exact ⟨hy, σ, hy.symm⟩
    | true =>
      simp only [moveTail, if_true, call_ret, ha.into_claim_phase, hb.into_claim_phase] at hy ⊢
      obtain ⟨s', _, rfl⟩ := gU_some' emb hy
      exact ⟨hy, _, rfl⟩
  · refine trans_of (fun y hy => ?_)
    cases mv with
    | false =>
      simp only [moveTail, Bool.false_eq_true, if_false, ret, call_some_some, Option.some.injEq] at hy ⊢
      exact ⟨hy, σ, hy.symm⟩
    | true =>
      simp only [moveTail, if_true, call_ret, ha.into_proof_phase, hb.into_proof_phase] at hy ⊢
      obtain ⟨s', _, rfl⟩ := gU_some' emb hy
      exact ⟨hy, _, rfl⟩

/-- **`execute_gamma_phase`, from `Oa` to `Ob`**, given the transfer of the publishing loop body for every axiom
of the module tree (`hpub`, up to depth `D`) -/
theorem gamma_trans {M : Nat} {Oa Ob : Interp τ} (ha : PhaseLike emb M Oa) (hb : PhaseLike emb M Ob)
    (Good : NPat → Prop)
    (hpub : ∀ a, Good a → ∀ σ : St, Trans (pubBody Oa Oa.publish_axiom a (emb σ)) (pubBody Ob Ob.publish_axiom a (emb σ))
      (IsEmb emb))
    (GoodE : Nat → ProofExp τ → Prop)
    (hG : ∀ D ax cl th subs, GoodE (D + 1) (.mk ax cl th subs) → (∀ a ∈ ax, Good a) ∧ ∀ e ∈ subs, GoodE D e) :
    ∀ (D : Nat) (E : ProofExp τ), GoodE D E → ∀ (σ : St) (mv : Bool),
      Trans (ProofExp.execute_gamma_phase D E Oa (emb σ) mv) (ProofExp.execute_gamma_phase D E Ob (emb σ) mv)
        (IsEmb emb) := by
  intro D
  induction D with
  | zero =>
    intro E _ σ mv β x K₁ K₂ _ h
    simp [ProofExp.execute_gamma_phase, call] at h
  | succ D ih =>
    intro E hE σ mv β x K₁ K₂ hK h
    obtain ⟨ax, cl, th, subs⟩ := E
    obtain ⟨hax, hsubs⟩ := hG D ax cl th subs hE
    rw [gamma_unfold, assert_call, ha.phase] at h
    rw [gamma_unfold, assert_call, hb.phase]
    obtain ⟨hph, h⟩ := assert_some.mp h
    refine assert_some.mpr ⟨hph, ?_⟩
    rw [forEach_call] at h ⊢
    refine forEach_trans emb subs _ _ (fun e he σ1 => ?_) σ x _ _ (fun σ1 h1 => ?_) h
    · -- a submodule
      intro β' x' K₁' K₂' hK' h'
      rw [call_assoc] at h' ⊢
      exact ih e (hsubs e he) σ1 false x' _ _ (fun a hP hk => hK' a hP hk) h'
    · -- the module's own axioms, then the phase change
      rw [forEach_call] at h1 ⊢
      refine forEach_trans emb ax _ _ (fun a hmem σ2 => hpub a (hax a hmem) σ2) σ1 x _ _ (fun σ2 h2 => ?_) h1
      exact (moveTail_trans emb ha hb mv σ2).1 x K₁ K₂ hK h2

/-- `execute_claims_phase`, from `Oa` to `Ob` -/
theorem claims_trans {M : Nat} {Oa Ob : Interp τ} (ha : PhaseLike emb M Oa) (hb : PhaseLike emb M Ob)
    (E : ProofExp τ)
    (hpub : ∀ a ∈ E._claims, ∀ σ : St, Trans (pubBody Oa Oa.publish_claim a (emb σ))
      (pubBody Ob Ob.publish_claim a (emb σ)) (IsEmb emb)) (σ : St) (mv : Bool) :
    Trans (ProofExp.execute_claims_phase E Oa (emb σ) mv) (ProofExp.execute_claims_phase E Ob (emb σ) mv)
      (IsEmb emb) := by
  intro β x K₁ K₂ hK h
  obtain ⟨ax, cl, th, subs⟩ := E
  rw [claims_unfold, assert_call, ha.phase] at h
  rw [claims_unfold, assert_call, hb.phase]
  obtain ⟨hph, h⟩ := assert_some.mp h
  refine assert_some.mpr ⟨hph, ?_⟩
  rw [forEach_call] at h ⊢
  refine forEach_trans emb cl.reverse _ _ (fun a hmem σ2 => hpub a (by simpa [ProofExp._claims] using hmem) σ2)
    σ x _ _ (fun σ2 h2 => ?_) h
  exact (moveTail_trans emb ha hb mv σ2).2 x K₁ K₂ hK h2

theorem proofBody_iff (N : Nat) (O : Interp τ) (t : ProofThunk τ) (s s2 : τ) :
    proofBody N O t s = some (some s2) ↔
      ∃ s1 pr, ProofThunk.__call__ N t O s = some (some (s1, pr)) ∧ O.publish_proof s1 pr = some (some s2) ∧
        NPat.peqF N t.conc t.conc = some true := by
  constructor
  · intro h
    simp only [proofBody] at h
    obtain ⟨⟨s2', pr2⟩, hc, h⟩ := call_eq_some h
    simp only [ret, Option.some.injEq] at h
    subst h
    obtain ⟨hexpr, hself⟩ := (thunk_call_some N _ O s _).mp hc
    simp only [ProofExp.publish_proof] at hexpr
    obtain ⟨⟨s1, pr⟩, h1, hexpr⟩ := call_eq_some hexpr
    obtain ⟨s2'', h2, hexpr⟩ := call_eq_some hexpr
    simp only [ret, Option.some.injEq, Prod.mk.injEq] at hexpr
    obtain ⟨rfl, rfl⟩ := hexpr
    exact ⟨s1, pr, h1, h2, hself⟩
  · rintro ⟨s1, pr, h1, h2, hself⟩
    exact proofBody_eq N O t s s1 s2 pr h1 h2 hself

/-- `execute_proofs_phase`, from `Oa` to `Ob`, given the transfer of one round of the loop for every thunk -/
theorem proofs_trans {M : Nat} {Oa Ob : Interp τ} (ha : PhaseLike emb M Oa) (hb : PhaseLike emb M Ob) (N : Nat)
    (E : ProofExp τ)
    (hbody : ∀ t ∈ E._proof_expressions, ∀ σ : St, Trans (proofBody N Oa t (emb σ)) (proofBody N Ob t (emb σ))
      (IsEmb emb)) (σ : St) :
    Trans (ProofExp.execute_proofs_phase N E Oa (emb σ)) (ProofExp.execute_proofs_phase N E Ob (emb σ))
      (IsEmb emb) := by
  intro β x K₁ K₂ hK h
  obtain ⟨ax, cl, th, subs⟩ := E
  rw [proofs_unfold, assert_call, ha.phase] at h
  rw [proofs_unfold, assert_call, hb.phase]
  obtain ⟨hph, h⟩ := assert_some.mp h
  refine assert_some.mpr ⟨hph, ?_⟩
  rw [forEach_call] at h ⊢
  refine forEach_trans emb th _ _ (fun t hmem σ2 => hbody t (by simpa [ProofExp._proof_expressions] using hmem) σ2)
    σ x _ _ (fun σ2 h2 => ?_) h
  exact hK _ ⟨σ2, rfl⟩ h2

/-- **`execute_full`, from `Oa` to `Ob`** -/
theorem full_trans {M : Nat} {Oa Ob : Interp τ} (ha : PhaseLike emb M Oa) (hb : PhaseLike emb M Ob) (N : Nat)
    (E : ProofExp τ)
    (hg : ∀ σ : St, Trans (ProofExp.execute_gamma_phase N E Oa (emb σ) true)
      (ProofExp.execute_gamma_phase N E Ob (emb σ) true) (IsEmb emb))
    (hc : ∀ a ∈ E._claims, ∀ σ : St, Trans (pubBody Oa Oa.publish_claim a (emb σ))
      (pubBody Ob Ob.publish_claim a (emb σ)) (IsEmb emb))
    (hbody : ∀ t ∈ E._proof_expressions, ∀ σ : St, Trans (proofBody N Oa t (emb σ)) (proofBody N Ob t (emb σ))
      (IsEmb emb)) (σ : St) (y : τ)
    (h : ProofExp.execute_full N E Oa (emb σ) = some (some y)) :
    ProofExp.execute_full N E Ob (emb σ) = some (some y) := by
  rw [full_unfold, ha.phase] at h
  rw [full_unfold, hb.phase]
  obtain ⟨hph, h⟩ := assert_some.mp h
  refine assert_some.mpr ⟨hph, ?_⟩
  refine hg σ y _ _ ?_ h
  rintro _ ⟨σ1, rfl⟩ h1
  refine claims_trans emb ha hb E hc σ1 true y _ _ ?_ h1
  rintro _ ⟨σ2, rfl⟩ h2
  refine proofs_trans emb ha hb N E hbody σ2 y _ _ ?_ h2
  rintro _ _ h3
  exact h3

/-- one round of the proof loop (`self.publish_proof(proof_expr)(interpreter)`), checking object → tracker:
`publish_proof` is called with the `Proved` on top of the stack -/
theorem proofBody_S {M N : Nat} {O₁ O₂ : Interp τ} (hC : Checks emb M O₁) (hE : Emits emb M O₂)
    (t : ProofThunk τ) (hS : RunS emb N O₁ O₂ t) (ht : RunTop emb N O₂ t) (σ : St) :
    Trans (proofBody N O₁ t (emb σ)) (proofBody N O₂ t (emb σ)) (IsEmb emb) := by
  refine trans_of (fun y hy => ?_)
  obtain ⟨s1, pr, hcall, hpub, hself⟩ := (proofBody_iff N O₁ t _ _).mp hy
  have h2 := hS _ _ hcall
  obtain ⟨σ1, rfl, hs1⟩ := ht _ _ _ h2
  have hg := ((hC.publish_proof σ1 pr.conclusion _ _ y hs1).mp hpub).2
  obtain ⟨s', _, rfl⟩ := gU_some' emb hg
  exact ⟨(proofBody_iff N O₂ t _ _).mpr ⟨_, pr, h2, by rw [hE.publish_proof]; exact hg, hself⟩, _, rfl⟩

theorem proofBody_C {M N : Nat} {O₁ O₂ : Interp τ} (hC : Checks emb M O₁) (hE : Emits emb M O₂)
    (t : ProofThunk τ) (hCr : RunC emb N O₁ O₂ t) (ht : RunTop emb N O₂ t)
    (hown : ∀ (σ : St) τ' pr, ProofThunk.__call__ N t O₂ (emb σ) = some (some (τ', pr)) →
      Refl M (.proved pr.conclusion)) (σ : St) :
    Trans (proofBody N O₂ t (emb σ)) (proofBody N O₁ t (emb σ)) (IsEmb emb) := by
  refine trans_of (fun y hy => ?_)
  obtain ⟨s1, pr, hcall, hpub, hself⟩ := (proofBody_iff N O₂ t _ _).mp hy
  have h1 := hCr _ _ hcall
  obtain ⟨σ1, rfl, hs1⟩ := ht _ _ _ hcall
  rw [hE.publish_proof] at hpub
  obtain ⟨s', _, rfl⟩ := gU_some' emb hpub
  exact ⟨(proofBody_iff N O₁ t _ _).mpr ⟨_, pr, h1,
    (hC.publish_proof σ1 pr.conclusion _ _ _ hs1).mpr ⟨hown σ _ pr hcall, hpub⟩, hself⟩, _, rfl⟩

/-- **sound, `execute_full`**: whatever the three phases return on the checking object they return on the
tracker -/
theorem full_S {M N : Nat} {O₁ O₂ : Interp τ} (hC : Checks emb M O₁) (hE : Emits emb M O₂) (hId : PatId emb O₂)
    (hS : PatS12 emb O₁ O₂) (E : ProofExp τ)
    (hT : ∀ t ∈ E._proof_expressions, RunS emb N O₁ O₂ t ∧ RunTop emb N O₂ t) (σ : St) (y : τ)
    (h : ProofExp.execute_full N E O₁ (emb σ) = some (some y)) :
    ProofExp.execute_full N E O₂ (emb σ) = some (some y) := by
  refine full_trans emb (hC.phaseLike emb) (hE.phaseLike emb) N E (fun σ => ?_) (fun a _ σ => ?_) (fun t ht σ => ?_) σ y h
  · exact gamma_trans emb (hC.phaseLike emb) (hE.phaseLike emb) (fun _ => True)
      (fun a _ σ => pubBody_S emb hS hId .publishAxiom _ _
        (fun σ a f st y hs h => ((hC.publish_axiom σ a f st y hs).mp h).2) hE.publish_axiom a σ)
      (fun _ _ => True) (fun _ _ _ _ _ _ => ⟨fun _ _ => trivial, fun _ _ => trivial⟩) N E trivial σ true
  · exact pubBody_S emb hS hId .publishClaim _ _
      (fun σ a f st y hs h => ((hC.publish_claim σ a f st y hs).mp h).2) hE.publish_claim a σ
  · exact proofBody_S emb hC hE t (hT t ht).1 (hT t ht).2 σ

/-- the axioms of a `ProofExp` tree (to depth `D`) have fuel for their reflexive comparisons -/
def AxRefl (M : Nat) : Nat → ProofExp τ → Prop
  | 0, _ => True
  | D + 1, .mk ax _ _ subs => (∀ a ∈ ax, SubRefl M a) ∧ ∀ e ∈ subs, AxRefl M D e

/-- **complete, `execute_full`** -/
theorem full_C {M N : Nat} {O₁ O₂ : Interp τ} (hC : Checks emb M O₁) (hE : Emits emb M O₂) (hId : PatId emb O₂)
    (hCp : PatC12 emb M O₁ O₂) (E : ProofExp τ) (hAx : AxRefl M N E) (hCl : ∀ c ∈ E._claims, SubRefl M c)
    (hT : ∀ t ∈ E._proof_expressions, RunC emb N O₁ O₂ t ∧ RunTop emb N O₂ t ∧
      ∀ (σ : St) τ' pr, ProofThunk.__call__ N t O₂ (emb σ) = some (some (τ', pr)) → Refl M (.proved pr.conclusion))
    (σ : St) (y : τ) (h : ProofExp.execute_full N E O₂ (emb σ) = some (some y)) :
    ProofExp.execute_full N E O₁ (emb σ) = some (some y) := by
  refine full_trans emb (hE.phaseLike emb) (hC.phaseLike emb) N E (fun σ => ?_) (fun a ha σ => ?_) (fun t ht σ => ?_) σ y h
  · exact gamma_trans emb (hE.phaseLike emb) (hC.phaseLike emb) (SubRefl M)
      (fun a ha σ => pubBody_C emb hCp hId .publishAxiom _ _
        (fun σ a f st y hs hr h => (hC.publish_axiom σ a f st y hs).mpr ⟨hr, h⟩) hE.publish_axiom a ha σ)
      (AxRefl M) (fun _ _ _ _ _ h => h) N E hAx σ true
  · exact pubBody_C emb hCp hId .publishClaim _ _
      (fun σ a f st y hs hr h => (hC.publish_claim σ a f st y hs).mpr ⟨hr, h⟩) hE.publish_claim a (hCl a ha) σ
  · exact proofBody_C emb hC hE t (hT t ht).1 (hT t ht).2.1 (hT t ht).2.2 σ

/-! ### the `ProofExp` of a module -/

theorem buildAll_mem {N : Nat} {ax : List NPat} : ∀ {pfs : List Pf} {ts : List (ProofThunk τ)},
    buildAll N ax pfs = some (some ts) → ∀ t ∈ ts, ∃ pf ∈ pfs, build N ax pf = some (some t) := by
  intro pfs
  induction pfs with
  | nil =>
    intro ts h t ht
    simp only [buildAll, ret, Option.some.injEq] at h
    subst h; cases ht
  | cons pf r ih =>
    intro ts h t ht
    obtain ⟨t0, ts', rfl, h0, hr⟩ := buildAll_cons h
    rcases List.mem_cons.mp ht with rfl | ht'
    · exact ⟨pf, by simp, h0⟩
    · obtain ⟨pf', hm, hb⟩ := ih hr t ht'
      exact ⟨pf', List.mem_cons_of_mem _ hm, hb⟩

theorem expOf_claims (thunks : List (ProofThunk τ)) (f : PModule → List (ProofThunk τ)) (m : PModule) :
    (expOf thunks f m)._claims = m.claimsOf := by cases m; rfl
theorem expOf_proofs (thunks : List (ProofThunk τ)) (f : PModule → List (ProofThunk τ)) (m : PModule) :
    (expOf thunks f m)._proof_expressions = thunks := by cases m; rfl

theorem mem_subExps (f : PModule → List (ProofThunk τ)) : ∀ (subs : List PModule) (e : ProofExp τ),
    e ∈ subExp.subExps f subs → ∃ m' ∈ subs, e = subExp f m' := by
  intro subs
  induction subs with
  | nil => intro e he; simp [subExp.subExps] at he
  | cons m r ih =>
    intro e he
    rw [subExps_cons] at he
    rcases List.mem_cons.mp he with rfl | he'
    · exact ⟨m, by simp, rfl⟩
    · obtain ⟨m', hm, rfl⟩ := ih e he'
      exact ⟨m', List.mem_cons_of_mem _ hm, rfl⟩

theorem gammaList_mem : ∀ (subs : List PModule) (m' : PModule), m' ∈ subs →
    ∀ a ∈ m'.gammaAxioms, a ∈ PModule.gammaAxioms.gammaList subs := by
  intro subs
  induction subs with
  | nil => intro m' hm; cases hm
  | cons m r ih =>
    intro m' hm a ha
    rw [gammaList_cons]
    rcases List.mem_cons.mp hm with rfl | hm'
    · exact List.mem_append_left _ ha
    · exact List.mem_append_right _ (ih m' hm' a ha)

theorem axRefl_of_gamma (M : Nat) (f : PModule → List (ProofThunk τ)) : ∀ (D : Nat) (m : PModule)
    (th : List (ProofThunk τ)), (∀ a ∈ m.gammaAxioms, SubRefl M a) →
    AxRefl M D (ProofExp.mk m.axiomsOf m.claimsOf th (subExp.subExps f m.subsOf)) := by
  intro D
  induction D with
  | zero => intro m th _; trivial
  | succ D ih =>
    intro m th h
    obtain ⟨ax, cl, pfs, subs⟩ := m
    rw [gammaAxioms_mk] at h
    refine ⟨fun a ha => h a (List.mem_append_right _ ha), fun e he => ?_⟩
    obtain ⟨m', hm', rfl⟩ := mem_subExps f subs e he
    obtain ⟨ax', cl', pfs', subs'⟩ := m'
    rw [subExp_mk]
    exact ih (.mk ax' cl' pfs' subs') _
      (fun a ha => h a (List.mem_append_left _ (gammaList_mem subs _ hm' a ha)))

end phases

/-! ## fuel hypotheses in terms of the model -/

/-- every conclusion a run of `pf` (from any state, at any fuel) returns in the model self-compares within
fuel `M` -/
def OwnReflM (M : Nat) (cfg : Cfg) (ax : List NPat) (pf : Pf) : Prop :=
  ∀ m s acc s' a' c, Pf.runF cfg ax m s pf acc = some (some (s', a', c)) → NPat.peqF M c c = some true

/-- fuel for the reflexive comparisons of a run of `pf`, in terms of the model: the conclusions of the
sub-proofs a rule consumes, the sub-patterns of the plugs -/
def ConcsReflM (M : Nat) (cfg : Cfg) (ax : List NPat) : Pf → Prop
  | .mp l r => ConcsReflM M cfg ax l ∧ ConcsReflM M cfg ax r ∧ OwnReflM M cfg ax l ∧ OwnReflM M cfg ax r
  | .gen p _ => ConcsReflM M cfg ax p ∧ OwnReflM M cfg ax p
  | .dynInst p δ => ConcsReflM M cfg ax p ∧ (δ.isEmpty = false → OwnReflM M cfg ax p ∧ SubReflMap M δ)
  | _ => True

section bridge
variable {τ : Type} (emb : St → τ)

theorem ownRefl_of_model {M N : Nat} {cfg : Cfg} {ax : List NPat} {O : Interp τ}
    (hRS : ∀ (pf : Pf) (t : ProofThunk τ), build N ax pf = some (some t) → ∀ (s : PySt) (acc : List Call) (τ' : τ)
      (pr : Proved), ProofThunk.__call__ N t O (emb (s, acc)) = some (some (τ', pr)) →
      ∃ m s' a', Pf.runF cfg ax m s pf acc = some (some (s', a', pr.conclusion)) ∧ τ' = emb (s', a'))
    (pf : Pf) (h : OwnReflM M cfg ax pf) : OwnRefl emb M N ax O pf := by
  intro t σ τ' pr ht hc
  obtain ⟨m, s', a', hm, _⟩ := hRS pf t ht σ.1 σ.2 τ' pr hc
  exact h m _ _ _ _ _ hm

theorem concsRefl_of_model {M N : Nat} {cfg : Cfg} {ax : List NPat} {O : Interp τ}
    (hRS : ∀ (pf : Pf) (t : ProofThunk τ), build N ax pf = some (some t) → ∀ (s : PySt) (acc : List Call) (τ' : τ)
      (pr : Proved), ProofThunk.__call__ N t O (emb (s, acc)) = some (some (τ', pr)) →
      ∃ m s' a', Pf.runF cfg ax m s pf acc = some (some (s', a', pr.conclusion)) ∧ τ' = emb (s', a')) :
    ∀ (pf : Pf), ConcsReflM M cfg ax pf → ConcsRefl emb M N ax O pf := by
  intro pf
  induction pf with
  | mp l r ihl ihr =>
    intro h
    simp only [ConcsReflM] at h
    exact ⟨ihl h.1, ihr h.2.1, ownRefl_of_model emb hRS l h.2.2.1, ownRefl_of_model emb hRS r h.2.2.2⟩
  | gen p x ih =>
    intro h
    simp only [ConcsReflM] at h
    exact ⟨ih h.1, ownRefl_of_model emb hRS p h.2⟩
  | dynInst p δ ih =>
    intro h
    simp only [ConcsReflM] at h
    exact ⟨ih h.1, fun hδ => ⟨ownRefl_of_model emb hRS p (h.2 hδ).1, (h.2 hδ).2⟩⟩
  | _ => intro _; trivial

end bridge

/-! ## the two configurations: the generated `StatefulInterpreter`, plain and under the generated
`MemoizingInterpreter`, against the model (`ProofTie` composed with the above) -/

section configs
variable (N : Nat)

/-- `Interpreter.pattern` as written on `StatefulInterpreter` as written is `patternF` -/
theorem pattern_stateful_model (s : PySt) (p : NPat) (acc : List Call) :
    (∀ n s' a', n ≤ N → SubRefl N p → patternF {} n s p acc = some (some (s', a')) →
      (statefulK N N).pattern (s, acc) p = some (some ((s', a'), p))) ∧
    (∀ σ' v, (statefulK N N).pattern (s, acc) p = some (some (σ', v)) →
      v = p ∧ σ'.1.stack = (.pat p, false) :: s.stack ∧ ∃ m, patternF {} m s p acc = some (some σ')) := by
  constructor
  · intro n s' a' hn hp h
    have ht := (pattern_plain N s p acc).1 n _ hn h
    simp only [Option.map_some] at ht
    obtain ⟨σ1, e1, e2, _⟩ := pattern_id N N (s, acc) p _ _ ht
    rw [e2] at ht
    exact pattern_C N N (s, acc) p _ hp ht
  · intro σ' v h
    have ht := pattern_S N N (s, acc) p _ h
    obtain ⟨σ1, e1, e2, hs⟩ := pattern_id N N (s, acc) p _ _ ht
    simp only at e1; subst e1
    obtain ⟨m, r, hm, hr⟩ := (pattern_plain N s p acc).2 _ ht
    cases r with
    | none => cases hr
    | some σ2 =>
      simp only [Option.map_some, Option.some.injEq, Prod.mk.injEq] at hr
      exact ⟨e2, hs, m, by rw [hm, hr.1]⟩

/-- the same through `MemoizingInterpreter` as written -/
theorem memo_pattern_stateful_model (S : List NPat) (s : PySt) (p : NPat) (acc : List Call) :
    (∀ n s' a', n ≤ N → SubRefl N p → patternF { memo := some S } n s p acc = some (some (s', a')) →
      (statefulMemoK N N S).pattern (embM (s, acc)) p = some (some (embM (s', a'), p))) ∧
    (∀ τ' v, (statefulMemoK N N S).pattern (embM (s, acc)) p = some (some (τ', v)) →
      v = p ∧ ∃ σ' : St, τ' = embM σ' ∧ σ'.1.stack = (.pat p, false) :: s.stack ∧
        ∃ m, patternF { memo := some S } m s p acc = some (some σ')) := by
  constructor
  · intro n s' a' hn hp h
    have ht := (pattern_memo N S s p acc).1 n _ hn h
    simp only [Option.map_some] at ht
    obtain ⟨σ1, e1, e2, _⟩ := memo_pattern_id N S N (s, acc) p _ _ ht
    rw [e2] at ht
    exact memo_pattern_C N S N (s, acc) p _ hp ht
  · intro τ' v h
    have ht := memo_pattern_S N S N (s, acc) p _ h
    obtain ⟨σ1, e1, e2, hs⟩ := memo_pattern_id N S N (s, acc) p _ _ ht
    obtain ⟨m, r, hm, hr⟩ := (pattern_memo N S s p acc).2 _ ht
    cases r with
    | none => cases hr
    | some σ2 =>
      simp only [Option.map_some, Option.some.injEq, Prod.mk.injEq] at hr
      have : σ2 = σ1 := by
        have h1 := hr.1
        rw [e1] at h1
        have := congrArg TrSt.sub h1
        exact this.symm
      subst this
      exact ⟨e2, σ2, e1, hs, m, hm⟩

/-- a proof expression as written, running on `StatefulInterpreter` as written, is `runF {}` -/
theorem run_stateful_model (ax : List NPat) (s : PySt) (pf : Pf) (acc : List Call) (hk : KeysNodup pf) :
    (∀ n s' a' c, n ≤ N → ConcsReflM N {} ax pf → Pf.runF {} ax n s pf acc = some (some (s', a', c)) →
      ∃ t : ProofThunk St, build N ax pf = some (some t) ∧
        ProofThunk.__call__ N t (statefulK N N) (s, acc) = some (some ((s', a'), ⟨c⟩))) ∧
    (∀ (t : ProofThunk St) σ' pr, build N ax pf = some (some t) →
      ProofThunk.__call__ N t (statefulK N N) (s, acc) = some (some (σ', pr)) →
      σ'.1.stack = (.proved pr.conclusion, false) :: s.stack ∧
        ∃ m, Pf.runF {} ax m s pf acc = some (some (σ'.1, σ'.2, pr.conclusion))) := by
  have hRS := run_sound (fun σ => σ) ax (cfg := {}) (emits_tracker N N) (pattern_sound N N)
  constructor
  · intro n s' a' c hn hr h
    obtain ⟨t, ht, hc⟩ := (run_plain N ax s pf acc).1 n s' a' c hn h
    refine ⟨t, ht, ?_⟩
    exact run_C (fun σ => σ) ax (checks_statefulK N N) (emits_tracker N N) (pattern_id N N) (pattern_C N N) pf hk
      (concsRefl_of_model (fun σ => σ) hRS pf hr) t ht (s, acc) _ hc
  · intro t σ' pr ht h
    have hc := run_S (fun σ => σ) ax (checks_statefulK N N) (emits_tracker N N) (pattern_id N N) (pattern_S N N)
      pf hk t ht (s, acc) _ h
    obtain ⟨σ1, e1, hs⟩ := run_top (fun σ => σ) ax (emits_tracker N N) (pattern_id N N) pf hk t ht (s, acc) _ _ hc
    simp only at e1; subst e1
    exact ⟨hs, (run_plain N ax s pf acc).2 t _ pr ht hc⟩

/-- the same through `MemoizingInterpreter` as written: `runF {memo := some S}` -/
theorem run_memo_stateful_model (S : List NPat) (ax : List NPat) (s : PySt) (pf : Pf) (acc : List Call)
    (hk : KeysNodup pf) :
    (∀ n s' a' c, n ≤ N → ConcsReflM N { memo := some S } ax pf →
      Pf.runF { memo := some S } ax n s pf acc = some (some (s', a', c)) →
      ∃ t : ProofThunk (TrSt St), build N ax pf = some (some t) ∧
        ProofThunk.__call__ N t (statefulMemoK N N S) (embM (s, acc)) = some (some (embM (s', a'), ⟨c⟩))) ∧
    (∀ (t : ProofThunk (TrSt St)) τ' pr, build N ax pf = some (some t) →
      ProofThunk.__call__ N t (statefulMemoK N N S) (embM (s, acc)) = some (some (τ', pr)) →
      ∃ m s' a', Pf.runF { memo := some S } ax m s pf acc = some (some (s', a', pr.conclusion)) ∧
        τ' = embM (s', a') ∧ s'.stack = (.proved pr.conclusion, false) :: s.stack) := by
  have hRS := run_sound embM ax (cfg := { memo := some S }) (emits_memo N N S) (memo_pattern_sound S N N)
  constructor
  · intro n s' a' c hn hr h
    obtain ⟨t, ht, hc⟩ := (run_memo N S ax s pf acc).1 n s' a' c hn h
    refine ⟨t, ht, ?_⟩
    exact run_C embM ax (checks_statefulMemoK N N S) (emits_memo N N S) (memo_pattern_id N S N)
      (memo_pattern_C N S N) pf hk (concsRefl_of_model embM hRS pf hr) t ht (s, acc) _ hc
  · intro t τ' pr ht h
    have hc := run_S embM ax (checks_statefulMemoK N N S) (emits_memo N N S) (memo_pattern_id N S N)
      (memo_pattern_S N S N) pf hk t ht (s, acc) _ h
    obtain ⟨σ1, e1, hs⟩ := run_top embM ax (emits_memo N N S) (memo_pattern_id N S N) pf hk t ht (s, acc) _ _ hc
    obtain ⟨m, s', a', hm, e2⟩ := (run_memo N S ax s pf acc).2 t _ pr ht hc
    have : σ1 = (s', a') := by
      rw [e1] at e2
      exact congrArg TrSt.sub e2
    subst this
    exact ⟨m, _, _, hm, e2, hs⟩

/-- the fuel hypotheses of the phases, in terms of the model: axioms, claims, the conclusions of the proofs -/
def ModuleRefl (M : Nat) (cfg : Cfg) (m : PModule) : Prop :=
  (∀ a ∈ m.gammaAxioms, SubRefl M a) ∧ (∀ c ∈ m.claimsOf, SubRefl M c) ∧
    ∀ pf ∈ m.proofsOf, ConcsReflM M cfg m.axiomsOf pf ∧ OwnReflM M cfg m.axiomsOf pf

/-- `execute_full` as written on `StatefulInterpreter` as written is `executeFull {}` -/
theorem execute_stateful_model (m : PModule) (hk : ∀ pf ∈ m.proofsOf, KeysNodup pf) :
    (∀ n s' a', n ≤ N → PModule.depth m ≤ N →
      (∀ pf ∈ m.proofsOf, ∀ k adv, Pf.concF m.axiomsOf k pf = some (some adv) → NPat.peqF N adv adv = some true) →
      ModuleRefl N {} m →
      PModule.executeFull {} n m = some (some (s', a')) →
      ∃ thunks : List (ProofThunk St), buildAll N m.axiomsOf m.proofsOf = some (some thunks) ∧
        ∀ f, ProofExp.execute_full N (expOf thunks f m) (statefulK N N) (PySt.init m.claimsOf, [])
          = some (some (s', a'))) ∧
    (∀ (thunks : List (ProofThunk St)) f σ', buildAll N m.axiomsOf m.proofsOf = some (some thunks) →
      ProofExp.execute_full N (expOf thunks f m) (statefulK N N) (PySt.init m.claimsOf, []) = some (some σ') →
      ∃ n, PModule.executeFull {} n m = some (some σ')) := by
  have hRS := run_sound (fun σ => σ) m.axiomsOf (cfg := {}) (emits_tracker N N) (pattern_sound N N)
  constructor
  · intro n s' a' hn hD hself hR h
    obtain ⟨thunks, hb, hf⟩ := (execute_plain N m).1 n s' a' hn hD hself h
    refine ⟨thunks, hb, fun f => ?_⟩
    refine full_C (fun σ => σ) (checks_statefulK N N) (emits_tracker N N) (pattern_id N N) (pattern_C N N)
      (expOf thunks f m) ?_ ?_ ?_ (PySt.init m.claimsOf, []) _ (hf f)
    · rw [expOf_mk]; exact axRefl_of_gamma N f N m thunks hR.1
    · rw [expOf_claims]; exact hR.2.1
    · rw [expOf_proofs]
      intro t ht
      obtain ⟨pf, hpf, hbt⟩ := buildAll_mem hb t ht
      refine ⟨run_C (fun σ => σ) m.axiomsOf (checks_statefulK N N) (emits_tracker N N) (pattern_id N N)
          (pattern_C N N) pf (hk pf hpf) (concsRefl_of_model (fun σ => σ) hRS pf (hR.2.2 pf hpf).1) t hbt,
        run_top (fun σ => σ) m.axiomsOf (emits_tracker N N) (pattern_id N N) pf (hk pf hpf) t hbt, ?_⟩
      intro σ τ' pr hc
      exact ownRefl_of_model (fun σ => σ) hRS pf (hR.2.2 pf hpf).2 t σ τ' pr hbt hc
  · intro thunks f σ' hb h
    refine (execute_plain N m).2 thunks f σ' hb ?_
    refine full_S (fun σ => σ) (checks_statefulK N N) (emits_tracker N N) (pattern_id N N) (pattern_S N N)
      (expOf thunks f m) ?_ (PySt.init m.claimsOf, []) _ h
    rw [expOf_proofs]
    intro t ht
    obtain ⟨pf, hpf, hbt⟩ := buildAll_mem hb t ht
    exact ⟨run_S (fun σ => σ) m.axiomsOf (checks_statefulK N N) (emits_tracker N N) (pattern_id N N)
        (pattern_S N N) pf (hk pf hpf) t hbt,
      run_top (fun σ => σ) m.axiomsOf (emits_tracker N N) (pattern_id N N) pf (hk pf hpf) t hbt⟩

/-- the same through `MemoizingInterpreter(StatefulInterpreter, S)` as written: `executeFull {memo := some S}` -/
theorem execute_memo_stateful_model (S : List NPat) (m : PModule) (hk : ∀ pf ∈ m.proofsOf, KeysNodup pf) :
    (∀ n s' a', n ≤ N → PModule.depth m ≤ N →
      (∀ pf ∈ m.proofsOf, ∀ k adv, Pf.concF m.axiomsOf k pf = some (some adv) → NPat.peqF N adv adv = some true) →
      ModuleRefl N { memo := some S } m →
      PModule.executeFull { memo := some S } n m = some (some (s', a')) →
      ∃ thunks : List (ProofThunk (TrSt St)), buildAll N m.axiomsOf m.proofsOf = some (some thunks) ∧
        ∀ f, ProofExp.execute_full N (expOf thunks f m) (statefulMemoK N N S) (embM (PySt.init m.claimsOf, []))
          = some (some (embM (s', a')))) ∧
    (∀ (thunks : List (ProofThunk (TrSt St))) f τ', buildAll N m.axiomsOf m.proofsOf = some (some thunks) →
      ProofExp.execute_full N (expOf thunks f m) (statefulMemoK N N S) (embM (PySt.init m.claimsOf, []))
        = some (some τ') →
      ∃ n s' a', PModule.executeFull { memo := some S } n m = some (some (s', a')) ∧ τ' = embM (s', a')) := by
  have hRS := run_sound embM m.axiomsOf (cfg := { memo := some S }) (emits_memo N N S) (memo_pattern_sound S N N)
  constructor
  · intro n s' a' hn hD hself hR h
    obtain ⟨thunks, hb, hf⟩ := (execute_memo N S m).1 n s' a' hn hD hself h
    refine ⟨thunks, hb, fun f => ?_⟩
    refine full_C embM (checks_statefulMemoK N N S) (emits_memo N N S) (memo_pattern_id N S N)
      (memo_pattern_C N S N) (expOf thunks f m) ?_ ?_ ?_ (PySt.init m.claimsOf, []) _ (hf f)
    · rw [expOf_mk]; exact axRefl_of_gamma N f N m thunks hR.1
    · rw [expOf_claims]; exact hR.2.1
    · rw [expOf_proofs]
      intro t ht
      obtain ⟨pf, hpf, hbt⟩ := buildAll_mem hb t ht
      refine ⟨run_C embM m.axiomsOf (checks_statefulMemoK N N S) (emits_memo N N S) (memo_pattern_id N S N)
          (memo_pattern_C N S N) pf (hk pf hpf) (concsRefl_of_model embM hRS pf (hR.2.2 pf hpf).1) t hbt,
        run_top embM m.axiomsOf (emits_memo N N S) (memo_pattern_id N S N) pf (hk pf hpf) t hbt, ?_⟩
      intro σ τ' pr hc
      exact ownRefl_of_model embM hRS pf (hR.2.2 pf hpf).2 t σ τ' pr hbt hc
  · intro thunks f τ' hb h
    refine (execute_memo N S m).2 thunks f τ' hb ?_
    refine full_S embM (checks_statefulMemoK N N S) (emits_memo N N S) (memo_pattern_id N S N)
      (memo_pattern_S N S N) (expOf thunks f m) ?_ (PySt.init m.claimsOf, []) _ h
    rw [expOf_proofs]
    intro t ht
    obtain ⟨pf, hpf, hbt⟩ := buildAll_mem hb t ht
    exact ⟨run_S embM m.axiomsOf (checks_statefulMemoK N N S) (emits_memo N N S) (memo_pattern_id N S N)
        (memo_pattern_S N S N) pf (hk pf hpf) t hbt,
      run_top embM m.axiomsOf (emits_memo N N S) (memo_pattern_id N S N) pf (hk pf hpf) t hbt⟩

/-- the object `MemoizingInterpreter(stateful_interpreter, S)` that `serialize` builds, with its initial state, is
`statefulMemoK` in the state `embM` -/
theorem memo_new_stateful (j : Nat) (S : List NPat) (σ : St) :
    MemoizingInterpreter.new N (statefulK N j) σ (some S) = (statefulMemoK N N S, embM σ) := by
  cases j <;> rfl

end configs

/-! ## the statements are not vacuous, and `statefulI` is not `callI` -/

/-- `φ2 → (φ0 → (φ1 → φ0))` by `modus_ponens(dynamic_inst(prop1, {0: prop1's conclusion, 1: φ2}), prop1)` -/
def witnessPf : Pf := .mp (.dynInst .prop1 [(0, prop1N), (1, phiN 2)]) .prop1

/-- the generated proof generator does run on the generated `StatefulInterpreter`: the thunk of `witnessPf`
returns after 10 calls, leaving one entry on the stack; under the generated `MemoizingInterpreter`, with `φ2` in
memory, after 10 calls one of which is a `load` -/
theorem stateful_nonvacuous :
    ((build (τ := St) 40 [] witnessPf).bind fun o => o.bind fun t =>
      (ProofThunk.__call__ 40 t (statefulK 40 40) (PySt.init [], [])).map
        (Option.map fun x => (x.1.2.length, x.1.1.stack.length))) = some (some (10, 1)) ∧
    ((build (τ := TrSt St) 40 [] witnessPf).bind fun o => o.bind fun t =>
      (ProofThunk.__call__ 40 t (statefulMemoK 40 40 [])
          (embM ({ PySt.init [] with memory := [.pat (phiN 2)] }, []))).map
        (Option.map fun x => (x.1.sub.2.length, x.1.sub.1.stack.length,
          x.1.sub.2.any fun c => match c with | .load _ => true | _ => false))) = some (some (10, 1, true)) := by
  decide

/-- `statefulI` does look at its arguments: with `EVar(1)` on top of `EVar(0)`, `implies(EVar(7), EVar(1))` raises
on the generated `StatefulInterpreter` and is accepted by `callI` (which ignores the arguments);
`implies(EVar(0), EVar(1))` — the terms on the stack — is accepted by both -/
theorem stateful_object_checks_its_arguments :
    let σ0 : St := ({ PySt.init [] with stack := [(.pat (.evar 1), false), (.pat (.evar 0), false)] }, [])
    ((statefulI 5).implies σ0 (.evar 7) (.evar 1)).map Option.isSome = some false ∧
    ((callI 5).implies σ0 (.evar 7) (.evar 1)).map Option.isSome = some true ∧
    ((statefulI 5).implies σ0 (.evar 0) (.evar 1)).map Option.isSome = some true := by
  decide

end ComposeTie

#print axioms ComposeTie.checks_stateful
#print axioms ComposeTie.checks_transformer
#print axioms ComposeTie.pattern_id
#print axioms ComposeTie.memo_pattern_id
#print axioms ComposeTie.pattern_S
#print axioms ComposeTie.pattern_C
#print axioms ComposeTie.memo_pattern_S
#print axioms ComposeTie.memo_pattern_C
#print axioms ComposeTie.run_top
#print axioms ComposeTie.run_S
#print axioms ComposeTie.run_C
#print axioms ComposeTie.full_S
#print axioms ComposeTie.full_C
#print axioms ComposeTie.pattern_stateful_model
#print axioms ComposeTie.memo_pattern_stateful_model
#print axioms ComposeTie.run_stateful_model
#print axioms ComposeTie.run_memo_stateful_model
#print axioms ComposeTie.execute_stateful_model
#print axioms ComposeTie.execute_memo_stateful_model
#print axioms ComposeTie.stateful_nonvacuous
#print axioms ComposeTie.stateful_object_checks_its_arguments
