import Pi2.Pretty
/-!
# Rendering of format strings: congruence, length, injectivity at a shown position
-/

namespace Fmt

/-! ## inversion of `render` -/

theorem render_lit_some {c : Char} {r : List Seg} {A : List (List Char)} {out : List Char}
    (h : render (.lit c :: r) A = some out) : ∃ t, render r A = some t ∧ out = c :: t := by
  simp only [render, Option.map_eq_some_iff] at h
  obtain ⟨t, ht, e⟩ := h
  exact ⟨t, ht, e.symm⟩

theorem render_hole_some {n : Nat} {r : List Seg} {A : List (List Char)} {out : List Char}
    (h : render (.hole n :: r) A = some out) :
    ∃ x t, A[n]? = some x ∧ render r A = some t ∧ out = x ++ t := by
  simp only [render] at h
  cases hx : A[n]? with
  | none => simp [hx] at h
  | some x =>
    simp only [hx, Option.map_eq_some_iff] at h
    obtain ⟨t, ht, e⟩ := h
    exact ⟨x, t, rfl, ht, e.symm⟩

/-! ## 1. congruence -/

theorem render_congr (segs : List Seg) (A B : List (List Char)) :
    (∀ n ∈ Fmt.holes segs, A[n]? = B[n]?) → Fmt.render segs A = Fmt.render segs B := by
  induction segs with
  | nil => intro _; simp [render]
  | cons s r ih =>
    intro h
    cases s with
    | lit c =>
      simp only [holes] at h
      simp only [render, ih h]
    | hole n =>
      simp only [holes, List.mem_cons] at h
      have hn := h n (Or.inl rfl)
      have hr := ih (fun k hk => h k (Or.inr hk))
      simp only [render, hn, hr]

/-! ## 4. holes and count -/

theorem mem_holes_iff_count (i : Nat) (segs : List Seg) :
    i ∈ Fmt.holes segs ↔ 0 < Fmt.count i segs := by
  induction segs with
  | nil => simp [holes, count]
  | cons s r ih =>
    cases s with
    | lit c => simpa only [holes, count] using ih
    | hole n =>
      simp only [holes, count, List.mem_cons, ih]
      by_cases hn : n = i
      · subst hn; simp; omega
      · have : ¬ i = n := fun e => hn e.symm
        simp [hn, this]

/-! ## 2. length -/

/-- the length of the rendering: one per literal, the argument's length per hole -/
def lenOf (A : List (List Char)) : List Seg → Nat
  | [] => 0
  | .lit _ :: r => 1 + lenOf A r
  | .hole n :: r => (A[n]?.getD []).length + lenOf A r

theorem render_length (segs : List Seg) (A : List (List Char)) (r : List Char) :
    Fmt.render segs A = some r → r.length = lenOf A segs := by
  induction segs generalizing r with
  | nil => intro h; simp only [render, Option.some.injEq] at h; subst h; simp [lenOf]
  | cons s rest ih =>
    intro h
    cases s with
    | lit c =>
      obtain ⟨t, ht, rfl⟩ := render_lit_some h
      simp only [List.length_cons, lenOf, ih t ht]; omega
    | hole n =>
      obtain ⟨x, t, hx, ht, rfl⟩ := render_hole_some h
      simp only [List.length_append, lenOf, ih t ht, hx, Option.getD_some]

/-- arguments agreeing except at `i`: the lengths differ by `count i segs` times the difference -/
theorem render_length_at (segs : List Seg) (i : Nat) (A B : List (List Char))
    (a b ra rb : List Char) :
    (∀ j, j ≠ i → A[j]? = B[j]?) → A[i]? = some a → B[i]? = some b →
    Fmt.render segs A = some ra → Fmt.render segs B = some rb →
    ra.length + Fmt.count i segs * b.length = rb.length + Fmt.count i segs * a.length := by
  intro hag hA hB
  induction segs generalizing ra rb with
  | nil =>
    intro h1 h2
    simp only [render, Option.some.injEq] at h1 h2; subst h1; subst h2
    simp [count]
  | cons s rest ih =>
    intro h1 h2
    cases s with
    | lit c =>
      obtain ⟨ta, hta, rfl⟩ := render_lit_some h1
      obtain ⟨tb, htb, rfl⟩ := render_lit_some h2
      have := ih ta tb hta htb
      simp only [List.length_cons, count]; omega
    | hole n =>
      obtain ⟨x, ta, hx, hta, rfl⟩ := render_hole_some h1
      obtain ⟨y, tb, hy, htb, rfl⟩ := render_hole_some h2
      have := ih ta tb hta htb
      by_cases hn : n = i
      · subst hn
        rw [hA] at hx; rw [hB] at hy
        cases hx; cases hy
        simp only [List.length_append, count, if_true, Nat.add_mul, Nat.one_mul]; omega
      · have hxy := hag n hn
        rw [hx, hy] at hxy; cases hxy
        simp only [List.length_append, count, hn, if_false, Nat.zero_add]; omega

/-! ## 3. injectivity at a shown position -/

/-- the equal-length case, by induction on the segments -/
theorem render_ne_of_length_eq (segs : List Seg) (i : Nat) (A B : List (List Char))
    (a b : List Char) (hag : ∀ j, j ≠ i → A[j]? = B[j]?) (hA : A[i]? = some a)
    (hB : B[i]? = some b) (hne : a ≠ b) (hlen : a.length = b.length) (ra rb : List Char) :
    i ∈ Fmt.holes segs → Fmt.render segs A = some ra → Fmt.render segs B = some rb → ra ≠ rb := by
  induction segs generalizing ra rb with
  | nil => intro hi; simp [holes] at hi
  | cons s rest ih =>
    intro hi h1 h2
    cases s with
    | lit c =>
      obtain ⟨ta, hta, rfl⟩ := render_lit_some h1
      obtain ⟨tb, htb, rfl⟩ := render_lit_some h2
      simp only [holes] at hi
      intro e
      exact ih ta tb hi hta htb (List.cons.inj e).2
    | hole n =>
      obtain ⟨x, ta, hx, hta, rfl⟩ := render_hole_some h1
      obtain ⟨y, tb, hy, htb, rfl⟩ := render_hole_some h2
      intro e
      by_cases hn : n = i
      · subst hn
        rw [hA] at hx; rw [hB] at hy
        cases hx; cases hy
        exact hne (List.append_inj e hlen).1
      · have hxy := hag n hn
        rw [hx, hy] at hxy; cases hxy
        simp only [holes, List.mem_cons] at hi
        have hi' : i ∈ holes rest := by
          rcases hi with hi | hi
          · exact absurd hi.symm hn
          · exact hi
        exact ih ta tb hi' hta htb (List.append_cancel_left e)

theorem render_injective_at (segs : List Seg) (i : Nat) (A B : List (List Char))
    (a b ra rb : List Char) :
    i ∈ Fmt.holes segs → (∀ j, j ≠ i → A[j]? = B[j]?) → A[i]? = some a → B[i]? = some b →
    a ≠ b → Fmt.render segs A = some ra → Fmt.render segs B = some rb → ra ≠ rb := by
  intro hi hag hA hB hne h1 h2
  by_cases hlen : a.length = b.length
  · exact render_ne_of_length_eq segs i A B a b hag hA hB hne hlen ra rb hi h1 h2
  · intro e
    have hl := render_length_at segs i A B a b ra rb hag hA hB h1 h2
    have hc := (mem_holes_iff_count i segs).mp hi
    rw [e] at hl
    have : count i segs * b.length = count i segs * a.length := by omega
    exact hlen (Nat.eq_of_mul_eq_mul_left hc this).symm

end Fmt

#print axioms Fmt.render_congr
#print axioms Fmt.render_length
#print axioms Fmt.render_length_at
#print axioms Fmt.render_injective_at
#print axioms Fmt.mem_holes_iff_count
