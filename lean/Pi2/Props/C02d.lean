import Pi2.ModuleMOKConv
import Pi2.KoreModule
import Pi2.Props.C01
import Pi2.Props.C02c
import Pi2.Props.C05
/-!
# C02 at full strength on a DECIDABLE class of modules: the side conditions are a Boolean function of the module text

`PModule.MOK m` (`Pi2/ModuleMOK.lean`) is evaluated on the text of a module, before anything runs:

* every declared axiom (imports included) and every claim is shaped (`NPat.Shape`: metavariables carry no e-fresh /
  s-fresh list, substitution nodes are meta-headed) and machine-OK (`NPat.MOK`: positivity under `mu` — positivity and
  negativity constraints of metavariables included —, well-formed metavariables, non-redundant meta-headed `esub` /
  `ssub`, notation nodes whose `Instantiate` the machine accepts, distinct keys);
* there is one proof per claim;
* every proof expression is `Pf.MOK`: the plugs of every `dynInst` are shaped, machine-OK, with distinct keys; loaded
  axioms are shaped and declared; and `Pf.concM` — the conclusion computed with the MACHINE's rules on expansions — is
  defined: `mp` premises match, `gen` is fresh by `Pat.eFresh`, and `Pat.inst` (constraint checks `eFresh / sFresh /
  pos / ng` on the plugs, capture checks of `apply_esubst / apply_ssubst`) accepts every instantiation.

All proof forms of `Pf` are covered (`prop1-3`, `quantifier`, `mp`, `gen`, `dynInst`, `loadAxiom`), nested at will.

`generated_module_accepted_mok`: `m.MOK = true` and `execute_full` (plain serialisation) returns ⇒ every claim is
discharged, every call satisfies the machine's side conditions (`KMod.AllSideK`, DERIVED), the history replays to three
instruction lists, and the checker accepts them and publishes the declaration — imports first, claims reversed — with
every symbol named by its position in the serializer's table (`ρ`; no canonical-names hypothesis).  Then bytes, the
translated Rust `verify`, and soundness.

Converse: `mok_iff_side_conditions` (on shaped machine-OK axioms/claims and a run that returns, `MOK` IS the side
conditions — nothing is lost by the syntactic checks on `mp`, `gen`, `loadAxiom`), and one module per open-finding class
with `MOK = false` that the toolkit model accepts and the machine rejects.

What is NOT covered (stated, not hidden): (1) patterns with e-fresh / s-fresh metavariable lists (`Shape` fails): there
the tracker's lazy notation (`Instantiate.instantiate` composes maps) and the machine's eager substitution can reach
DIFFERENT patterns (KF-C12-constraints), so `==` on the tracker no longer tells what the machine holds; this is why the
K modules of C20b (whose imported `func_subst_axiom` has `phi0{e_fresh x0}`) are not an instance
(`k_import_not_shaped`) and keep their own theorem; (2) the memoising serialisation.
-/
set_option linter.unusedVariables false
namespace C02
open PySt EndToEnd KMod

/-! ## 2. acceptance -/

/-- **C02 on machine-OK modules**, for every naming `ρ` that agrees with the final symbol table -/
theorem generated_module_accepted_mok (n : Nat) (m : PModule) (s : PySt) (calls : List Call)
    (hmok : m.MOK = true) (hex : PModule.executeFull {} n m = some (some (s, calls)))
    (ρ : Nat → Nat) (hag : Agree ρ s.symtab) :
    s.claims = [] ∧ AllSideK n (PySt.init m.claimsOf) calls ∧
    ∃ g c p, PySt.trackAll n (PySt.init m.claimsOf) calls ([], [], []) = some (some (s, (g, c, p))) ∧
      verify g c p = some (m.gammaAxioms.map (fun a => Pat.ren ρ a.expand),
        m.claimsOf.reverse.map (fun a => Pat.ren ρ a.expand)) := by
  obtain ⟨hgam, hclm, hpfs, hlen⟩ := PModule.MOK.spec hmok
  exact module_acceptedM m s calls hgam hclm (fun pf hpf => Pf.MOK.pfOK (hpfs pf hpf)) hlen hex ρ hag

/-- the naming the serializer uses: position in its symbol table -/
theorem generated_module_accepted_mok_idx (n : Nat) (m : PModule) (s : PySt) (calls : List Call)
    (hmok : m.MOK = true) (hex : PModule.executeFull {} n m = some (some (s, calls))) :
    s.claims = [] ∧
    ∃ g c p, PySt.trackAll n (PySt.init m.claimsOf) calls ([], [], []) = some (some (s, (g, c, p))) ∧
      verify g c p = some (m.gammaAxioms.map (fun a => Pat.ren (fun nm => s.symtab.idxOf nm) a.expand),
        m.claimsOf.reverse.map (fun a => Pat.ren (fun nm => s.symtab.idxOf nm) a.expand)) := by
  obtain ⟨h1, _, h3⟩ := generated_module_accepted_mok n m s calls hmok hex _ (agree_idxOf _)
  exact ⟨h1, h3⟩

/-- the side conditions `AllSideM` of `generated_module_accepted_partial` are derived (in the form `AllSideK`: the
machine's checks hold, no publish residue is touched, keys are distinct) -/
theorem generated_module_side_mok (n : Nat) (m : PModule) (s : PySt) (calls : List Call)
    (hmok : m.MOK = true) (hex : PModule.executeFull {} n m = some (some (s, calls))) :
    AllSideK n (PySt.init m.claimsOf) calls :=
  (generated_module_accepted_mok n m s calls hmok hex _ (agree_idxOf _)).2.1

/-- the same under the side conditions as propositions (`KMod.PfOK`: patterns in order, the machine accepts every
instantiation of the documented conclusions) instead of the Boolean `Pf.MOK` -/
theorem generated_module_accepted_sideconds (n : Nat) (m : PModule) (s : PySt) (calls : List Call)
    (hgam : ∀ a ∈ m.gammaAxioms, a.SM = true) (hclm : ∀ a ∈ m.claimsOf, a.SM = true)
    (hpfs : ∀ pf ∈ m.proofsOf, PfOK pf) (hlen : m.claimsOf.length = m.proofsOf.length)
    (hex : PModule.executeFull {} n m = some (some (s, calls)))
    (ρ : Nat → Nat) (hag : Agree ρ s.symtab) :
    s.claims = [] ∧ AllSideK n (PySt.init m.claimsOf) calls ∧
    ∃ g c p, PySt.trackAll n (PySt.init m.claimsOf) calls ([], [], []) = some (some (s, (g, c, p))) ∧
      verify g c p = some (m.gammaAxioms.map (fun a => Pat.ren ρ a.expand),
        m.claimsOf.reverse.map (fun a => Pat.ren ρ a.expand)) :=
  module_acceptedM m s calls hgam hclm hpfs hlen hex ρ hag

/-- **bytes.** the bytes the translated serializer writes along the run are the encodings of the three instruction
lists; `verifyBytes` accepts them and publishes the declaration; `verify` of `rust/src/lib.rs` as translated accepts
them from every initial content of its registers -/
theorem generated_module_bytes_accepted_mok (n : Nat) (m : PModule) (s : PySt) (calls : List Call)
    (hmok : m.MOK = true) (hex : PModule.executeFull {} n m = some (some (s, calls))) :
    ∃ g c p, PySt.trackAll n (PySt.init m.claimsOf) calls ([], [], []) = some (some (s, (g, c, p))) ∧
      writeAll n (PySt.init m.claimsOf) calls ([], [], []) = some (some (s, (encode g, encode c, encode p))) ∧
      verifyBytes (encode g) (encode c) (encode p)
        = some (m.gammaAxioms.map (fun a => Pat.ren (fun nm => s.symtab.idxOf nm) a.expand),
            m.claimsOf.reverse.map (fun a => Pat.ren (fun nm => s.symtab.idxOf nm) a.expand)) ∧
      Gen.Rust.execTranslated = true ∧
      ∀ r0 : RustExec.RSt, (Gen.Rust.verify (encode g) (encode c) (encode p) r0).isSome = true := by
  obtain ⟨_, g, c, p, hT, hv⟩ := generated_module_accepted_mok_idx n m s calls hmok hex
  refine ⟨g, c, p, hT, writeAll_of_trackAll_init n calls _ s g c p hT, ?_,
    (C05.rust_verify_is_the_model [] [] [] default).1, fun r0 => rust_accepts_encode g c p _ hv r0⟩
  rw [verifyBytes_encode, hv]

/-- **bytes proper**: if the three streams are wire byte strings (`wireCheck`, decidable) they are the images of three
`List UInt8`, accepted by both checkers -/
theorem generated_module_u8_accepted_mok (n : Nat) (m : PModule) (s : PySt) (calls : List Call)
    (hmok : m.MOK = true) (hex : PModule.executeFull {} n m = some (some (s, calls)))
    (hw : wireCheck n m.claimsOf calls = true) :
    ∃ gb cb pb : List UInt8,
      writeAll n (PySt.init m.claimsOf) calls ([], [], [])
        = some (some (s, (gb.map UInt8.toNat, cb.map UInt8.toNat, pb.map UInt8.toNat))) ∧
      verifyBytes (gb.map UInt8.toNat) (cb.map UInt8.toNat) (pb.map UInt8.toNat)
        = some (m.gammaAxioms.map (fun a => Pat.ren (fun nm => s.symtab.idxOf nm) a.expand),
            m.claimsOf.reverse.map (fun a => Pat.ren (fun nm => s.symtab.idxOf nm) a.expand)) ∧
      ∀ r0 : RustExec.RSt,
        (Gen.Rust.verify (gb.map UInt8.toNat) (cb.map UInt8.toNat) (pb.map UInt8.toNat) r0).isSome = true := by
  obtain ⟨g, c, p, hT, hW, hvb, _, hr⟩ := generated_module_bytes_accepted_mok n m s calls hmok hex
  obtain ⟨w1, w2, w3⟩ := wireCheck_sound hw hT
  obtain ⟨gb, hg⟩ := wire_is_u8 _ w1
  obtain ⟨cb, hc⟩ := wire_is_u8 _ w2
  obtain ⟨pb, hp⟩ := wire_is_u8 _ w3
  refine ⟨gb, cb, pb, ?_, ?_, ?_⟩
  · rw [hg, hc, hp]; exact hW
  · rw [hg, hc, hp]; exact hvb
  · rw [hg, hc, hp]; exact hr

/-- **soundness** (through the checker as written, `C01.rust_verify_text_sound`): every claim of a machine-OK module
whose `execute_full` run returns holds in every model of its declared axioms (the naming of the symbols is undone by an
injective choice of `ρ`) -/
theorem generated_module_sound_mok (n : Nat) (m : PModule) (s : PySt) (calls : List Call)
    (hmok : m.MOK = true) (hex : PModule.executeFull {} n m = some (some (s, calls)))
    (𝔐 : Model) (hΓ : ∀ a ∈ m.gammaAxioms, ValidM 𝔐 a.expand) :
    ∀ q ∈ m.claimsOf, ValidM 𝔐 q.expand := by
  obtain ⟨_, _, g, c, p, _, hv⟩ :=
    generated_module_accepted_mok n m s calls hmok hex (rhoInj s.symtab) (rhoInj_agree _)
  have hr := rust_accepts_encode g c p _ hv default
  obtain ⟨_, axs, cls, hvb, hsound⟩ := C01.rust_verify_text_sound _ _ _ default hr
  rw [verifyBytes_encode, hv] at hvb
  simp only [Option.some.injEq, Prod.mk.injEq] at hvb
  obtain ⟨rfl, rfl⟩ := hvb
  intro q hq
  rw [← validM_rhoInj 𝔐 s.symtab]
  apply hsound ⟨𝔐.M, fun t => 𝔐.sym (rhoInv s.symtab t), 𝔐.app⟩
  · intro a ha
    simp only [List.mem_map] at ha
    obtain ⟨a0, h0, rfl⟩ := ha
    exact (validM_rhoInj 𝔐 s.symtab _).mpr (hΓ a0 h0)
  · simp only [List.mem_map, List.mem_reverse]
    exact ⟨q, hq, rfl⟩

/-! ## 3. the converse -/

/-- on a module with shaped machine-OK axioms and claims whose run returns with no claim left, `PModule.MOK` holds
EXACTLY when every proof satisfies the side conditions: the syntactic predicate loses nothing -/
theorem mok_iff_side_conditions (n : Nat) (m : PModule) (s : PySt) (calls : List Call)
    (hgam : ∀ a ∈ m.gammaAxioms, a.SM = true) (hclm : ∀ a ∈ m.claimsOf, a.SM = true)
    (hex : PModule.executeFull {} n m = some (some (s, calls))) (hfin : s.claims = []) :
    m.MOK = true ↔ ∀ pf ∈ m.proofsOf, PfOK pf := by
  constructor
  · intro h pf hpf
    exact Pf.MOK.pfOK ((PModule.MOK.spec h).2.2.1 pf hpf)
  · intro h
    exact module_mok_of_run m s calls hgam hclm h hfin hex

/-- `concM` is the documented conclusion (`Pf.Sem`) whenever it is defined … -/
theorem concM_is_documented (pf : Pf) (C : Pat) (h : Pf.concM pf = some C) (hp : pf.patsOK = true) : Pf.Sem pf C :=
  (concM_sem pf C h hp).1

/-- … and it is defined on every expression that runs under the side conditions -/
theorem run_certifies_mok (k : Nat) (ax : List NPat) (pf : Pf) (s s1 : PySt) (acc a1 : List Call) (c : NPat)
    (hax : ∀ x ∈ ax, x.Shape = true) (hpf : PfOK pf)
    (h : Pf.runF {} ax k s pf acc = some (some (s1, a1, c))) : Pf.MOK ax pf = true ∧ Pf.concM pf = some c.expand := by
  refine ⟨mok_of_run hax hpf h, ?_⟩
  obtain ⟨_, _, hS, _⟩ := runC (Nat.le_refl k) ax h hpf.1 hpf.2
  exact concM_of_sem hS hpf.1 hpf.2

/-- does the model machine reject the serialisation of a module the toolkit model accepts? -/
def rejected (N : Nat) (m : PModule) : Bool :=
  match PModule.executeFull {} N m with
  | some (some (_, calls)) =>
    match PySt.trackAll N (PySt.init m.claimsOf) calls ([], [], []) with
    | some (some (_, (g, c, p))) => (verify g c p).isNone
    | _ => false
  | _ => false

theorem rejected_spec {N : Nat} {m : PModule} (h : rejected N m = true) :
    ∃ s calls s' g c p, PModule.executeFull {} N m = some (some (s, calls)) ∧
      PySt.trackAll N (PySt.init m.claimsOf) calls ([], [], []) = some (some (s', (g, c, p))) ∧
      verify g c p = none := by
  unfold rejected at h
  split at h
  · next s calls hex =>
    split at h
    · next s' g c p hT => exact ⟨s, calls, s', g, c, p, hex, hT, by simpa using h⟩
    · cases h
  · cases h

/-! ### one witness per open-finding class: `MOK = false`, the toolkit model accepts, the machine rejects -/
namespace Witness

/-- muNotPositive: the axiom `μX0.(X0 → ⊥)` -/
def muMod : PModule := .mk [.mu 0 (.imp (.svar 0) botN)] [] [] []

/-- constraint: the axiom `phi0{positive X0}` instantiated with `X0 → ⊥` (negative in `X0`) -/
def posMv : NPat := .mv 0 [] [] [0] [] []
def negPlug : NPat := .imp (.svar 0) botN
def conMod : PModule := .mk [posMv] [negPlug] [.dynInst (.loadAxiom posMv) [(0, negPlug)]] []

/-- capture: `Quantifier` instantiated with `phi0 := ∃x1.x0`; the pending `[x1/x0]` captures `x1` -/
def capMod : PModule :=
  .mk [] [.imp (.ex 1 (.evar 1)) (.ex 0 (.ex 1 (.evar 0)))] [.dynInst .quantifier [(0, .ex 1 (.evar 0))]] []

/-- redundantSubst: the axiom `phi0[x0/x0]`, and `phi0{s_fresh X1}[σ3/X1]` -/
def redMod : PModule := .mk [.esub (phiN 0) 0 (.evar 0)] [] [] []
def redMod2 : PModule := .mk [.ssub (.mv 0 [] [1] [] [] []) 1 (.sym 3)] [] [] []

/-- mvWF: the axiom `phi0{e_fresh x0, app_ctx_holes x0}` -/
def wfMod : PModule := .mk [.mv 0 [0] [] [] [] [0]] [] [] []

/-- substWF: the axiom `σ0[x1/x0]` (head of the substitution is a symbol) -/
def swfMod : PModule := .mk [.esub (.sym 0) 0 (.evar 1)] [] [] []

set_option maxRecDepth 100000 in
theorem muNotPositive : muMod.MOK = false ∧ rejected 40 muMod = true := by decide +kernel
set_option maxRecDepth 100000 in
theorem constraint : conMod.MOK = false ∧ rejected 40 conMod = true := by decide +kernel
set_option maxRecDepth 100000 in
theorem capture : capMod.MOK = false ∧ rejected 40 capMod = true := by decide +kernel
set_option maxRecDepth 100000 in
theorem redundantSubst : redMod.MOK = false ∧ rejected 40 redMod = true ∧
    redMod2.MOK = false ∧ rejected 40 redMod2 = true := by decide +kernel
set_option maxRecDepth 100000 in
theorem mvWF : wfMod.MOK = false ∧ rejected 40 wfMod = true := by decide +kernel

/-- substWF cannot be a successful run of the MODEL of the toolkit: the model's tracker follows the declared API type
`pattern: MetaVar | ESubst | SSubst` of `esubst` (DESIGN.md C04: the harness refuses ill-typed calls), so the run raises;
the instructions the serializer would have written are rejected by the machine -/
theorem substWF : swfMod.MOK = false ∧ PModule.executeFull {} 40 swfMod = some none ∧
    run .gamma ⟨[], [], []⟩ [.evar 1, .sym 0, .esubst 0] = none := by
  have h : swfMod.MOK = false ∧ (PModule.executeFull {} 40 swfMod).map Option.isNone = some true ∧
      (run .gamma ⟨[], [], []⟩ [.evar 1, .sym 0, .esubst 0]).isNone = true := by decide +kernel
  refine ⟨h.1, ?_, by simpa using h.2.2⟩
  have h2 := h.2.1
  cases hx : PModule.executeFull {} 40 swfMod with
  | none => rw [hx] at h2; simp at h2
  | some o =>
    cases o with
    | none => rfl
    | some r => rw [hx] at h2; simp at h2

end Witness

/-- **3. the converse on the open-finding classes**: for each class a module with `PModule.MOK = false` whose
`execute_full` run returns and whose serialisation the machine rejects -/
theorem findings_outside_mok :
    ∀ m ∈ [Witness.muMod, Witness.conMod, Witness.capMod, Witness.redMod, Witness.redMod2, Witness.wfMod],
      m.MOK = false ∧ ∃ s calls s' g c p, PModule.executeFull {} 40 m = some (some (s, calls)) ∧
        PySt.trackAll 40 (PySt.init m.claimsOf) calls ([], [], []) = some (some (s', (g, c, p))) ∧
        verify g c p = none := by
  intro m hm
  simp only [List.mem_cons, List.not_mem_nil, or_false] at hm
  rcases hm with rfl | rfl | rfl | rfl | rfl | rfl
  · exact ⟨Witness.muNotPositive.1, rejected_spec Witness.muNotPositive.2⟩
  · exact ⟨Witness.constraint.1, rejected_spec Witness.constraint.2⟩
  · exact ⟨Witness.capture.1, rejected_spec Witness.capture.2⟩
  · exact ⟨Witness.redundantSubst.1, rejected_spec Witness.redundantSubst.2.1⟩
  · exact ⟨Witness.redundantSubst.2.2.1, rejected_spec Witness.redundantSubst.2.2.2⟩
  · exact ⟨Witness.mvWF.1, rejected_spec Witness.mvWF.2⟩

/-! ## 4. corollaries -/

/-- **propositional ⊆ MOK**, on patterns … -/
theorem propositional_pattern_mok (p : NPat) (h : p.PF = true) : p.SM = true := by
  simp [NPat.SM, NPat.PF.shape p h, KMod.PF.mok p h]

/-- … on proof expressions (as side conditions; `Pf.PF` does not check that `mp` premises match, the run does) … -/
theorem propositional_proof_sideconds (pf : Pf) (h : pf.PF = true) : PfOK pf := (Pf.PF.pfOK pf h).1

/-- … and on modules that run: a module of the propositional fragment whose `execute_full` run returns with no claim
left is machine-OK -/
theorem propositional_module_mok (n : Nat) (m : PModule) (s : PySt) (calls : List Call)
    (hgam : ∀ a ∈ m.gammaAxioms, a.PF = true) (hclm : ∀ a ∈ m.claimsOf, a.PF = true)
    (hpfs : ∀ pf ∈ m.proofsOf, pf.PF = true)
    (hex : PModule.executeFull {} n m = some (some (s, calls))) (hfin : s.claims = []) : m.MOK = true :=
  module_mok_of_run m s calls (fun a ha => propositional_pattern_mok a (hgam a ha))
    (fun a ha => propositional_pattern_mok a (hclm a ha))
    (fun pf hpf => propositional_proof_sideconds pf (hpfs pf hpf)) hfin hex

/-- `C02.propositional_module_accepted` (plain serialisation) re-derived WITHOUT the canonical-names hypothesis
`CanonCalls`: the journal is the declaration with every symbol named by its position in the serializer's table -/
theorem propositional_module_accepted_rho (n : Nat) (m : PModule) (s : PySt) (calls : List Call)
    (hgam : ∀ a ∈ m.gammaAxioms, a.PF = true) (hclm : ∀ a ∈ m.claimsOf, a.PF = true)
    (hpfs : ∀ pf ∈ m.proofsOf, pf.PF = true)
    (hex : PModule.executeFull {} n m = some (some (s, calls))) (hfin : s.claims = [])
    (ρ : Nat → Nat) (hag : Agree ρ s.symtab) :
    ∃ g c p, PySt.trackAll n (PySt.init m.claimsOf) calls ([], [], []) = some (some (s, (g, c, p))) ∧
      verify g c p = some (m.gammaAxioms.map (fun a => Pat.ren ρ a.expand),
        m.claimsOf.reverse.map (fun a => Pat.ren ρ a.expand)) :=
  (generated_module_accepted_mok n m s calls (propositional_module_mok n m s calls hgam hclm hpfs hex hfin) hex ρ
    hag).2.2

/-- … and its soundness corollary, without `CanonCalls` -/
theorem propositional_module_sound_rho (n : Nat) (m : PModule) (s : PySt) (calls : List Call)
    (hgam : ∀ a ∈ m.gammaAxioms, a.PF = true) (hclm : ∀ a ∈ m.claimsOf, a.PF = true)
    (hpfs : ∀ pf ∈ m.proofsOf, pf.PF = true)
    (hex : PModule.executeFull {} n m = some (some (s, calls))) (hfin : s.claims = [])
    (𝔐 : Model) (hΓ : ∀ a ∈ m.gammaAxioms, ValidM 𝔐 a.expand) : ∀ q ∈ m.claimsOf, ValidM 𝔐 q.expand :=
  generated_module_sound_mok n m s calls (propositional_module_mok n m s calls hgam hclm hpfs hex hfin) hex 𝔐 hΓ

/-- the K modules of C20b are NOT an instance: the imported `func_subst_axiom` carries `phi0{e_fresh x0}`, which is not
shaped (it is machine-OK); they keep their own theorem `C20.k_module_accepted` -/
theorem k_import_not_shaped : KMod.funcSubstAxiom.MOK = true ∧ KMod.funcSubstAxiom.Shape = false ∧
    (∀ (st : Kore.ExecSt), (st.module).MOK = false) := by
  have h : KMod.funcSubstAxiom.MOK = true ∧ KMod.funcSubstAxiom.Shape = false := by decide +kernel
  refine ⟨h.1, h.2, ?_⟩
  intro st
  have : (st.module).gammaAxioms.all NPat.SM = false := by
    rw [List.all_eq_false]
    refine ⟨KMod.funcSubstAxiom, ?_, by simp [NPat.SM, h.2]⟩
    rw [KMod.module_gamma, KMod.kImports_gamma]
    simp
  simp [PModule.MOK, this]

/-! ## 5. non-vacuity: a machine-OK module outside the propositional fragment -/
namespace Example

/-- `μX0.phi1{positive X0} → phi2[x1/x0]`: a `mu`, a constrained metavariable, an `esub` -/
def axA : NPat := .imp (.mu 0 (.mv 1 [] [] [0] [] [])) (.esub (phiN 2) 0 (.evar 1))
/-- `∃x3.σ7` -/
def axB : NPat := .ex 3 (.sym 7)
/-- a notation node whose plug must satisfy a positivity constraint -/
def axC : NPat := .inst (.mu 0 (.mv 1 [] [] [0] [] [])) [(1, .svar 0)]
def cl1 : NPat := .imp (.ex 2 (.app (.sym 5) (.evar 1))) (.ex 0 (.ex 2 (.app (.sym 5) (.evar 0))))
def cl2 : NPat := .imp (.ex 3 (.sym 7)) (.imp (.sym 8) (.sym 7))
def cl3 : NPat := .imp (.mu 0 (.svar 0)) (.app (.sym 5) (.evar 1))
def cl4 : NPat := .imp (.sym 8) (.sym 7)
/-- `Quantifier` instantiated UNDER A BINDER: `phi0 := ∃x2.σ5 x0`; the machine pushes `[x1/x0]` under `∃x2` -/
def pf1 : Pf := .dynInst .quantifier [(0, .ex 2 (.app (.sym 5) (.evar 0)))]
/-- `gen` over an instance of `prop1` -/
def pf2 : Pf := .gen (.dynInst .prop1 [(0, .sym 7), (1, .sym 8)]) 3
/-- the constrained metavariable and the `esub` of `axA` instantiated -/
def pf3 : Pf := .dynInst (.loadAxiom axA) [(1, .svar 0), (2, .app (.sym 5) (.evar 0))]
def pf4 : Pf := .mp pf2 (.loadAxiom axB)
def mod : PModule := .mk [axA, axB, axC] [cl1, cl2, cl3, cl4] [pf1, pf2, pf3, pf4] []

def check : Bool :=
  mod.MOK &&
  match PModule.executeFull {} 60 mod with
  | some (some r) => EndToEnd.wireCheck 60 mod.claimsOf r.2 && (r.1.symtab == [7, 8, 5])
  | _ => false

set_option maxRecDepth 100000 in
theorem check_true : check = true := by decide +kernel

/-- the module is machine-OK, its run returns, the streams are byte strings, and the symbols are NOT named by position
(`σ7 ↦ 0`, `σ8 ↦ 1`, `σ5 ↦ 2`) -/
theorem hypotheses_hold : mod.MOK = true ∧ ∃ s calls, PModule.executeFull {} 60 mod = some (some (s, calls)) ∧
    EndToEnd.wireCheck 60 mod.claimsOf calls = true ∧ s.symtab = [7, 8, 5] := by
  have h := check_true
  unfold check at h
  simp only [Bool.and_eq_true] at h
  obtain ⟨hm, h⟩ := h
  split at h
  · next r hr =>
    simp only [Bool.and_eq_true, beq_iff_eq] at h
    exact ⟨hm, r.1, r.2, hr, h.1, h.2⟩
  · cases h

/-- it is outside the propositional fragment (axioms, claims and proofs) -/
theorem outside_PF : axA.PF = false ∧ axB.PF = false ∧ cl1.PF = false ∧ cl3.PF = false ∧
    pf1.PF = false ∧ pf2.PF = false ∧ pf3.PF = false ∧ pf4.PF = false := by decide +kernel

/-- hence (by the theorem) the checker accepts it and publishes the declaration up to the naming … -/
theorem accepted : ∃ (s : PySt) (g c p : List Instr),
    verify g c p = some (mod.gammaAxioms.map (fun a => Pat.ren (fun nm => s.symtab.idxOf nm) a.expand),
      mod.claimsOf.reverse.map (fun a => Pat.ren (fun nm => s.symtab.idxOf nm) a.expand)) ∧
    s.symtab = [7, 8, 5] ∧
    ∀ r0 : RustExec.RSt, (Gen.Rust.verify (encode g) (encode c) (encode p) r0).isSome = true := by
  obtain ⟨hm, s, calls, hex, _, hsym⟩ := hypotheses_hold
  obtain ⟨g, c, p, _, _, hvb, _, hr⟩ := generated_module_bytes_accepted_mok 60 mod s calls hm hex
  rw [EndToEnd.verifyBytes_encode] at hvb
  exact ⟨s, g, c, p, hvb, hsym, hr⟩

/-- … as byte strings proper … -/
theorem accepted_u8 : ∃ gb cb pb : List UInt8, ∀ r0 : RustExec.RSt,
    (Gen.Rust.verify (gb.map UInt8.toNat) (cb.map UInt8.toNat) (pb.map UInt8.toNat) r0).isSome = true := by
  obtain ⟨hm, s, calls, hex, hw, _⟩ := hypotheses_hold
  obtain ⟨gb, cb, pb, _, _, hr⟩ := generated_module_u8_accepted_mok 60 mod s calls hm hex hw
  exact ⟨gb, cb, pb, hr⟩

/-- … and its four claims hold in every model of its three axioms -/
theorem sound (𝔐 : Model) (hΓ : ∀ a ∈ mod.gammaAxioms, ValidM 𝔐 a.expand) : ∀ q ∈ mod.claimsOf, ValidM 𝔐 q.expand := by
  obtain ⟨hm, s, calls, hex, _, _⟩ := hypotheses_hold
  exact generated_module_sound_mok 60 mod s calls hm hex 𝔐 hΓ

end Example

end C02

#print axioms C02.generated_module_accepted_mok
#print axioms C02.generated_module_accepted_mok_idx
#print axioms C02.generated_module_side_mok
#print axioms C02.generated_module_accepted_sideconds
#print axioms C02.generated_module_bytes_accepted_mok
#print axioms C02.generated_module_u8_accepted_mok
#print axioms C02.generated_module_sound_mok
#print axioms C02.mok_iff_side_conditions
#print axioms C02.concM_is_documented
#print axioms C02.run_certifies_mok
#print axioms C02.Witness.muNotPositive
#print axioms C02.Witness.constraint
#print axioms C02.Witness.capture
#print axioms C02.Witness.redundantSubst
#print axioms C02.Witness.mvWF
#print axioms C02.Witness.substWF
#print axioms C02.findings_outside_mok
#print axioms C02.propositional_pattern_mok
#print axioms C02.propositional_proof_sideconds
#print axioms C02.propositional_module_mok
#print axioms C02.propositional_module_accepted_rho
#print axioms C02.propositional_module_sound_rho
#print axioms C02.k_import_not_shaped
#print axioms C02.Example.hypotheses_hold
#print axioms C02.Example.outside_PF
#print axioms C02.Example.accepted
#print axioms C02.Example.accepted_u8
#print axioms C02.Example.sound
