import Pi2.NotationThm
import Pi2.PyTie
import Pi2.Nary
import Pi2.NotTie
/-!
# C12 — notation is transparent

All operations of `pattern.py` on patterns with notation (`NPat`, modelled with fuel; `none` = Python
`RecursionError`) commute with full expansion, and `==` is exactly equality of full expansions —
for *shaped* patterns: metavariables declare no `e_fresh`/`s_fresh` list and `ESubst/SSubst` heads are
metavariables or substitutions (what the Python type annotations require).  Outside `Shape` the
statements are false because of `MetaVar.apply_esubst`'s shortcut (it returns the metavariable
unchanged when the variable is declared fresh); that region is covered by the correspondence run
only (`_partial` in the sense of DESIGN.md).
-/
set_option linter.unusedVariables false
namespace C12
open NPat

/-- Python's `a == b` (whenever it returns) is equality of the full expansions -/
theorem peq_is_expansion_equality (n : Nat) (a b : NPat) (r : Bool) (ha : a.Shape = true) (hb : b.Shape = true)
    (h : peqF n a b = some r) : r = decide (a.expand = b.expand) := peqF_expand n a b r ha hb h

theorem peq_refl (n : Nat) (a : NPat) (r : Bool) (ha : a.Shape = true) (h : peqF n a a = some r) : r = true := by
  rw [peqF_expand n a a r ha ha h]; simp

theorem peq_symm (n m : Nat) (a b : NPat) (r r' : Bool) (ha : a.Shape = true) (hb : b.Shape = true)
    (h : peqF n a b = some r) (h' : peqF m b a = some r') : r = r' := by
  rw [peqF_expand n a b r ha hb h, peqF_expand m b a r' hb ha h']
  by_cases e : a.expand = b.expand
  · simp [e]
  · have : ¬ b.expand = a.expand := fun e' => e e'.symm
    simp [e, this]

theorem peq_trans (n m k : Nat) (a b c : NPat) (r : Bool) (ha : a.Shape = true) (hb : b.Shape = true)
    (hc : c.Shape = true) (h1 : peqF n a b = some true) (h2 : peqF m b c = some true)
    (h3 : peqF k a c = some r) : r = true := by
  have e1 := peqF_expand n a b true ha hb h1
  have e2 := peqF_expand m b c true hb hc h2
  rw [peqF_expand k a c r ha hc h3]
  simp at e1 e2
  simp [e1, e2]

/-- the free-variable test sees through notation -/
theorem evar_is_free_transparent (n : Nat) (e : VId) (p : NPat) (b : Bool) (hp : p.Shape = true)
    (h : evarIsFreeF n e p = some b) : b = p.expand.eFresh e := evarIsFreeF_expand n e p b hp h

/-- the metavariable set is that of the expansion -/
theorem metavars_transparent (n : Nat) (p : NPat) (L : List VId) (hp : p.Shape = true)
    (h : metavarsF n p = some L) : ∀ j, j ∈ L ↔ j ∈ Py.metavars p.expand := metavarsF_expand n p L hp h

/-- instantiation commutes with expansion -/
theorem instantiate_transparent (n : Nat) (δ : List (Nat × NPat)) (p r : NPat) (hp : p.Shape = true)
    (hδ : ShapeMap δ = true) (h : instF n δ p = some r) :
    r.expand = Py.inst (Py.lookup (expand.expandMap δ)) p.expand := (instF_expand n δ p r hp hδ h).1

theorem esubst_transparent (n : Nat) (x : VId) (plug p r : NPat) (hp : p.Shape = true) (hq : plug.Shape = true)
    (h : esubF n x plug p = some r) : r.expand = Py.esub x plug.expand p.expand := (esubF_expand n x plug p r hp hq h).1

theorem ssubst_transparent (n : Nat) (x : VId) (plug p r : NPat) (hp : p.Shape = true) (hq : plug.Shape = true)
    (h : ssubF n x plug p = some r) : r.expand = Py.ssub x plug.expand p.expand := (ssubF_expand n x plug p r hp hq h).1

/-- one level of `simplify()` does not change the expansion -/
theorem simplify_transparent (n : Nat) (p : NPat) (m : List (Nat × NPat)) (s : NPat)
    (hp : (NPat.inst p m).Shape = true) (h : simplifyF n (.inst p m) = some s) : s.expand = (NPat.inst p m).expand := by
  simp only [simplifyF] at h
  have hs : p.Shape = true ∧ ShapeMap m = true := by simpa [NPat.Shape] using hp
  have := (instF_expand n m p s hs.1 hs.2 h).1
  rw [this]; rfl

/-- `deconstruct_nary_application` of `proofs/kore.py` (the application spine, looking through notation on the
spine; `none` = `RecursionError`) sees through notation: destructuring and then expanding head and arguments is
expanding and then destructuring (`Pat.nary`); head and arguments are shaped again -/
theorem nary_transparent (n : Nat) (p h : NPat) (as : List NPat) (hp : p.Shape = true)
    (hr : naryF n p = some (h, as)) :
    Pat.nary p.expand = (h.expand, as.map NPat.expand) ∧ h.Shape = true ∧ (∀ a ∈ as, a.Shape = true) :=
  NPat.naryF_expand n p h as hp hr

/-- … and the head it returns is neither a notation node nor an application, and applying the expanded head to the
expanded arguments gives back the expansion of the pattern -/
theorem nary_head_and_rebuild (n : Nat) (p h : NPat) (as : List NPat) (hp : p.Shape = true)
    (hr : naryF n p = some (h, as)) :
    h.isInst = false ∧ h.isApp = false ∧ (as.map NPat.expand).foldl Pat.app h.expand = p.expand :=
  ⟨(NPat.naryF_expand_full n p h as hp hr).2.2.2.1, (NPat.naryF_expand_full n p h as hp hr).2.2.2.2,
   NPat.naryF_rebuild n p h as hp hr⟩

/-- composition of instantiations on expansions (the algebraic law behind C11's "instantiating twice
equals instantiating once with the composed map") -/
theorem instantiate_compose (δ₁ δ₂ : VId → Option Pat) (q : Pat) (hδ : ∀ k v, δ₁ k = some v → v.Shape = true)
    (hq : q.Shape = true) :
    Py.inst δ₂ (Py.inst δ₁ q) = Py.inst (fun k => match δ₁ k with | some v => some (Py.inst δ₂ v) | none => δ₂ k) q :=
  Py.inst_comp δ₁ δ₂ hδ q hq

/-! Non-vacuity: `¬¬φ0` written with notation, compared with its expansion -/
def negN (p : NPat) : NPat := .inst (.imp (.mv 0 [] [] [] [] []) (.inst (.mu 0 (.svar 0)) [])) [(0, p)]
example : (negN (negN (.mv 0 [] [] [] [] []))).Shape = true := by decide
example : peqF 50 (negN (negN (.mv 0 [] [] [] [] []))) (NPat.ofPat (negN (negN (.mv 0 [] [] [] [] []))).expand) = some true := by decide

/-- the Python pattern operations as written in `pattern.py` (translated on every run, `Pi2/Gen/PyPattern.lean`) are the
hand-written Python semantics on notation-free patterns that the theorems above are stated about -/
theorem python_pattern_operations_are_the_model :
    Gen.Py.translated = true ∧
    (∀ p e, Gen.Py.evar_is_free p e = Pat.eFresh e p) ∧
    (∀ p, Gen.Py.metavars p = Py.metavars p) ∧
    (∀ p x plug, Gen.Py.apply_esubst p x plug = Py.esub x plug p) ∧
    (∀ p x plug, Gen.Py.apply_ssubst p x plug = Py.ssub x plug p) ∧
    (∀ p, Gen.Py.instantiate p [] = p) ∧
    (∀ p δ, δ ≠ [] → Gen.Py.instantiate p δ = Py.inst (Py.lookup δ) p) :=
  ⟨PyTie.translated, PyTie.evar_is_free_eq, PyTie.metavars_eq, PyTie.apply_esubst_eq, PyTie.apply_ssubst_eq,
   PyTie.instantiate_nil, PyTie.instantiate_eq⟩

/-! ## the text of `pattern.py` on patterns with notation

`Pi2/Gen/PyNotation.lean` is regenerated on every run (`vlib/transnot.py`) from the methods `instantiate`, `metavars`,
`apply_esubst`, `apply_ssubst`, `evar_is_free`, `__eq__` of all eleven pattern classes (the `Instantiate` class included;
`__eq__` as `@dataclass` generates it where the class does not write one) and `Instantiate.simplify`.  `NotTie.DK` says that
every argument map is the item list of a Python `dict` (distinct keys); see `Pi2/NotTie.lean`. -/

/-- the pattern operations on patterns with notation, as written in `pattern.py`, are the hand-written model (`instF`,
`metavarsF`, `esubF`, `ssubF`, `simplifyF`, `peqF`) the theorems of this module are stated about: equal at every fuel -/
theorem notation_text_is_the_model :
    Gen.PyNot.translated = true ∧
    (∀ n p δ, NotTie.DK p = true → NotTie.DKDict δ → Gen.PyNot.instantiate n p δ = instF n δ p) ∧
    (∀ n p, NotTie.DK p = true → Gen.PyNot.metavars n p = metavarsF n p) ∧
    (∀ n p x plug, NotTie.DK p = true → NotTie.DK plug = true → Gen.PyNot.apply_esubst n p x plug = esubF n x plug p) ∧
    (∀ n p x plug, NotTie.DK p = true → NotTie.DK plug = true → Gen.PyNot.apply_ssubst n p x plug = ssubF n x plug p) ∧
    (∀ n p m, NotTie.DK (.inst p m) = true → Gen.PyNot.simplify n (.inst p m) = (simplifyF n (.inst p m)).map some) ∧
    (∀ n a b, NotTie.DK a = true → NotTie.DK b = true → Gen.PyNot.eq n a b = peqF n a b) :=
  ⟨NotTie.translated, NotTie.instantiate_eq, NotTie.metavars_eq, NotTie.apply_esubst_eq, NotTie.apply_ssubst_eq,
   NotTie.simplify_eq, NotTie.eq_eq⟩

/-- `evar_is_free` as written (Python's `and` short-circuits, the model's `Implies/App` arm does not): every answer of the
model is the answer of the text at the same fuel; answers of the two at any fuels agree; the verdict `True` is exact at every
fuel; and the two do differ as functions of the fuel -/
theorem notation_text_evar_is_free :
    (∀ n e p b, NotTie.DK p = true → evarIsFreeF n e p = some b → Gen.PyNot.evar_is_free n p e = some b) ∧
    (∀ n m e p b b', NotTie.DK p = true → Gen.PyNot.evar_is_free n p e = some b → evarIsFreeF m e p = some b' → b = b') ∧
    (∀ n e p, NotTie.DK p = true → (Gen.PyNot.evar_is_free n p e = some true ↔ evarIsFreeF n e p = some true)) ∧
    (Gen.PyNot.evar_is_free 2 (.imp (.evar 0) (.imp (.evar 1) (.evar 1))) 0 = some false ∧
      evarIsFreeF 2 0 (.imp (.evar 0) (.imp (.evar 1) (.evar 1))) = none) :=
  ⟨NotTie.evar_is_free_of_model, NotTie.evar_is_free_consistent, NotTie.evar_is_free_true_iff, NotTie.evar_is_free_differs⟩

/-- the hypothesis of the two theorems above is an invariant: notation-free patterns and applications `N(args)` built by
`Notation.__call__` (`frozendict(enumerate(args))`) have distinct keys, and `instantiate`, `apply_esubst`, `apply_ssubst`
preserve it; it cannot be dropped (an association list with a repeated key is not a `dict`) -/
theorem notation_text_distinct_keys :
    (∀ q : Pat, NotTie.DK (NPat.ofPat q) = true) ∧
    (∀ body args, NotTie.DK body = true → (∀ a ∈ args, NotTie.DK a = true) → NotTie.DK (.inst body (NotTie.enumFrom 0 args)) = true) ∧
    (∀ n δ p r, NotTie.DK p = true → NotTie.DKDict δ → instF n δ p = some r → NotTie.DK r = true) ∧
    (∀ n x plug p r, NotTie.DK p = true → NotTie.DK plug = true → esubF n x plug p = some r → NotTie.DK r = true) ∧
    (∀ n x plug p r, NotTie.DK p = true → NotTie.DK plug = true → ssubF n x plug p = some r → NotTie.DK r = true) ∧
    ((Gen.PyNot.instantiate 5 (.inst (.mv 1 [] [] [] [] []) []) [(1, .evar 1), (1, .evar 2)]).map NPat.expand = some (.evar 2) ∧
      (instF 5 [(1, .evar 1), (1, .evar 2)] (.inst (.mv 1 [] [] [] [] []) [])).map NPat.expand = some (.evar 1)) :=
  ⟨NotTie.DK_ofPat, NotTie.DK_call, NotTie.instF_DK, NotTie.esubF_DK, NotTie.ssubF_DK, NotTie.instantiate_needs_distinct_keys⟩

/-- transparency, stated about the text: `==` as written is equality of full expansions, `instantiate` / `apply_esubst` /
`apply_ssubst` as written commute with expansion, `metavars` as written is the set of the expansion, and whenever
`evar_is_free` as written answers `True` the variable does not occur free in the expansion -/
theorem notation_text_transparent :
    (∀ n a b r, a.Shape = true → b.Shape = true → NotTie.DK a = true → NotTie.DK b = true →
      Gen.PyNot.eq n a b = some r → r = decide (a.expand = b.expand)) ∧
    (∀ n δ p r, p.Shape = true → ShapeMap δ = true → NotTie.DK p = true → NotTie.DKDict δ →
      Gen.PyNot.instantiate n p δ = some r → r.expand = Py.inst (Py.lookup (expand.expandMap δ)) p.expand) ∧
    (∀ n x plug p r, p.Shape = true → plug.Shape = true → NotTie.DK p = true → NotTie.DK plug = true →
      Gen.PyNot.apply_esubst n p x plug = some r → r.expand = Py.esub x plug.expand p.expand) ∧
    (∀ n x plug p r, p.Shape = true → plug.Shape = true → NotTie.DK p = true → NotTie.DK plug = true →
      Gen.PyNot.apply_ssubst n p x plug = some r → r.expand = Py.ssub x plug.expand p.expand) ∧
    (∀ n p L, p.Shape = true → NotTie.DK p = true → Gen.PyNot.metavars n p = some L →
      ∀ j, j ∈ L ↔ j ∈ Py.metavars p.expand) ∧
    (∀ n e p, p.Shape = true → NotTie.DK p = true → Gen.PyNot.evar_is_free n p e = some true →
      p.expand.eFresh e = true) := by
  refine ⟨?_, ?_, ?_, ?_, ?_, ?_⟩
  · intro n a b r ha hb da db h
    rw [NotTie.eq_eq n a b da db] at h
    exact peqF_expand n a b r ha hb h
  · intro n δ p r hp hδ dp dδ h
    rw [NotTie.instantiate_eq n p δ dp dδ] at h
    exact (instF_expand n δ p r hp hδ h).1
  · intro n x plug p r hp hq dp dq h
    rw [NotTie.apply_esubst_eq n p x plug dp dq] at h
    exact (esubF_expand n x plug p r hp hq h).1
  · intro n x plug p r hp hq dp dq h
    rw [NotTie.apply_ssubst_eq n p x plug dp dq] at h
    exact (ssubF_expand n x plug p r hp hq h).1
  · intro n p L hp dp h
    rw [NotTie.metavars_eq n p dp] at h
    exact metavarsF_expand n p L hp h
  · intro n e p hp dp h
    exact (evarIsFreeF_expand n e p true hp ((NotTie.evar_is_free_true_iff n e p dp).mp h)).symm

/-- non-vacuity: the text on `¬¬φ0` written with notation -/
example : NotTie.DK (negN (negN (.mv 0 [] [] [] [] []))) = true := by decide
example : Gen.PyNot.eq 50 (negN (negN (.mv 0 [] [] [] [] []))) (NPat.ofPat (negN (negN (.mv 0 [] [] [] [] []))).expand) = some true := by decide

end C12
