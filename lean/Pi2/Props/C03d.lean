import Pi2.SlotBudget2
import Pi2.Props.C03b
/-!
# C03 / C08 — the slot budget: the side hypotheses of `Props/C03b.lean` discharged

* `recording_frame`, `finalize_budget_reachable` — the recording calls write `_pattern_usage` only, so every reachable analyser
  state has suggested nothing, holds the budget 256 and is not finalised: `finalize_budget` without side hypotheses, `B = 256`.
* `counting_run_memory`, `analyser_memory_is_axioms` — the memory of the analyser after its run.
* `canonical_fails`, `seq_implies_peq`, `memo_run_memory_bound2` — `Canonical` cannot hold for a suggestion with a two-entry
  argument map; the memoising run under `Canon2` (shaped, distinct keys).
* `optimized_serialisation_fits_in_a_byte` — the combination.
-/
set_option linter.unusedVariables false
namespace C03
open PySt SlotBudget SlotBudget2 CountSup Gen.PyCount CountDet NotTie

/-! ## 1. the counting pass: no side hypothesis -/

/-- **frame**: in every analyser state reachable by the recording calls (`CountDet.Reachable`) nothing is suggested, the
budget is 256, the state is not finalised -/
theorem recording_frame {K : Type} [DecidableEq K] [PyPattern K] {σ : Self K} (hσ : Reachable σ) :
    σ._suggested_for_memoization = [] ∧ σ._max_allowed_slots = 256 ∧ σ._finalized = false :=
  reachable_frame hσ

/-- **`finalize` respects the budget 256** on every reachable state -/
theorem finalize_budget_reachable {K : Type} [DecidableEq K] [PyPattern K] (o : Orders K) (t : Nat) {σ : Self K}
    (hσ : Reachable σ) {R : PySet K} {σ' : Self K} {t' : Nat} (h : finalize o t σ = some (R, σ', t')) :
    R.length ≤ 256 - σ.memory.length ∧ R.Nodup := by
  obtain ⟨h1, h2, _⟩ := reachable_frame hσ
  obtain ⟨_, hl, hn⟩ := finalize_budget 256 o t σ h h1 (by rw [h2]; rfl)
  exact ⟨hl, hn⟩

/-! ## 2. the memory of the analyser -/

/-- in a counting run (`RunReach`: recording calls and the inherited `publish_axiom`) the memory holds exactly the published
axioms, one entry per `publish_axiom` -/
theorem counting_run_memory {K : Type} [DecidableEq K] [PyPattern K] {k : List K} {σ : Self K} (h : RunReach k σ) :
    Reachable σ ∧ σ.memory = (k.map fun a => MemItem.proved ⟨a⟩) ∧ σ.memory.length = k.length :=
  ⟨h.reachable, h.memory_eq, h.memory_length⟩

/-- the run of a module on a stateful interpreter that does not memoise (the tracker part of the analyser): the final memory
has no `Pattern` entry, its `Proved` entries are `gammaAxioms`, one slot each -/
theorem analyser_memory_is_axioms (n : Nat) (m : PModule) (hm : ModDK m) (s : PySt) (calls : List Call)
    (h : PModule.executeFull {} n m = some (some (s, calls))) :
    patsOf s.memory = [] ∧ provedOf s.memory = m.gammaAxioms ∧ s.memory.length = m.gammaAxioms.length :=
  executeFull_plain_memory n m hm s calls h

/-! ## 3. `seq ⊆ ==`, and the memoising run on what `finalize` returns -/

def twoA : NPat := .inst (.mv 0 [] [] [] [] []) [(0, .sym 0), (1, .sym 1)]
def twoB : NPat := .inst (.mv 0 [] [] [] [] []) [(1, .sym 1), (0, .sym 0)]

/-- `Canonical` quantifies over ALL patterns: it fails as soon as a suggestion has an argument map with two entries (the
same `frozendict` listed in the other order is `seq`-equal and a different term) -/
theorem canonical_fails : ¬ Canonical [twoA] := by
  intro h
  have := h.canon twoA (by simp) twoB (by simp [twoA, twoB, NPat.seq, NPat.seq.seqMap, NPat.seq.seqAt])
  simp [twoA, twoB] at this

/-- **`seq ⊆ ==`**: distinct keys in every argument map of `a` and `c`, `c` shaped, `seq a c` — then `a` is shaped,
`a.expand = c.expand`, and `a == c` returns `True` -/
theorem seq_implies_peq {a c : NPat} (h : NPat.seq a c = true) (ha : DK a = true) (hc : DK c = true)
    (hs : c.Shape = true) :
    a.Shape = true ∧ a.expand = c.expand ∧ ∀ n, NPat.peqBound a c ≤ n → NPat.peqF n a c = some true :=
  ⟨(seq_facts c a h ha hc hs).1, (seq_facts c a h ha hc hs).2.1, fun n hn => seq_peq h ha hc hs n hn⟩

/-- **the memory of a memoising run** under `Canon2 S` (the suggestions are shaped and their argument maps have distinct
keys — nothing else: `S` may contain `==` members or repetitions) and `ModDK m` (the argument maps of the module's patterns
have distinct keys).  The `Pattern` entries of the final memory are `seq`-matched with pairwise DIFFERENT members of `S`
(`cs`), the `Proved` entries are `gammaAxioms`; hence the number of slots. -/
theorem memo_run_memory_bound2 (S : List NPat) (hS : Canon2 S) (n : Nat) (m : PModule) (hm : ModDK m) (s : PySt)
    (calls : List Call) (h : PModule.executeFull { memo := some S } n m = some (some (s, calls))) :
    (∃ pc : List (NPat × NPat), pc.map (·.1) = patsOf s.memory ∧ (pc.map (·.2)).Nodup ∧
      ∀ x ∈ pc, x.2 ∈ S ∧ DK x.1 = true ∧ NPat.seq x.1 x.2 = true) ∧
    provedOf s.memory = m.gammaAxioms ∧
    s.memory.length = (patsOf s.memory).length + m.gammaAxioms.length ∧
    s.memory.length ≤ S.length + m.gammaAxioms.length := by
  obtain ⟨hI, hk⟩ := executeFull_memory2 { memo := some S } hS n m hm s calls h
  exact ⟨hI, hk, by rw [length_split, hk], executeFull_memory_length2 S hS n m hm s calls h⟩

/-- `Canon2` for the list `finalize` returns: shaped suggestions whose argument maps have distinct keys -/
theorem canon2_of_shaped (S : List NPat) (hs : ∀ c ∈ S, c.Shape = true) (hd : ∀ c ∈ S, DK c = true) : Canon2 S :=
  ⟨hs, hd⟩

/-! ## 4. the combination -/

/-- **an optimised serialisation addresses slots below 256 only.**  `σ` is an analyser state reachable by the recording calls
whose memory has as many entries as the memory `s0` of the module's run on a non-memoising stateful interpreter (the
analyser IS such an interpreter: `hmem` is the tie between the two models of the same list); `finalize` returns `R`; `L`
lists `R` (any order) as model patterns and satisfies `Canon2`; the memoising run on `L` succeeds and is replayed by the
serializer.  Then every `Load` operand is at most 255. -/
theorem optimized_serialisation_fits_in_a_byte {K : Type} [DecidableEq K] [PyPattern K] (repr : K → NPat) (o : Orders K)
    (t : Nat) {σ : Self K} (hσ : Reachable σ) {R : PySet K} {σ' : Self K} {t' : Nat} (m : PModule) (hm : ModDK m)
    (n0 : Nat) (s0 : PySt) (calls0 : List Call) (h0 : PModule.executeFull {} n0 m = some (some (s0, calls0)))
    (hmem : σ.memory.length = s0.memory.length) (hax : m.gammaAxioms.length ≤ 256)
    (hfin : finalize o t σ = some (R, σ', t'))
    (L : List NPat) (hL : L.Perm (R.map repr)) (hC : Canon2 L)
    (n : Nat) (s : PySt) (calls : List Call)
    (h : PModule.executeFull { memo := some L } n m = some (some (s, calls)))
    (g c p : List Instr)
    (hT : PySt.trackAll n (PySt.init m.claimsOf) calls ([], [], []) = some (some (s, (g, c, p)))) :
    s.memory.length ≤ 256 ∧
    ∀ i, (Instr.load i ∈ g ∨ Instr.load i ∈ c ∨ Instr.load i ∈ p) → i ≤ 255 ∧ Wire (encode [Instr.load i]) := by
  obtain ⟨hlen, _⟩ := finalize_budget_reachable o t hσ hfin
  have hm0 := (executeFull_plain_memory n0 m hm s0 calls0 h0).2.2
  have h1 := executeFull_memory_length2 L hC n m hm s calls h
  have h2 : L.length = R.length := by rw [hL.length_eq, List.length_map]
  have hB : s.memory.length ≤ 256 := by omega
  obtain ⟨_, hg, hc, hp⟩ := trackAll_slots n calls _ s _ _ hT (AllBelow.nil _)
  refine ⟨hB, ?_⟩
  intro i hi
  have : i < 256 := by
    rcases hi with hi | hi | hi
    · exact Nat.lt_of_lt_of_le (hg i hi) hB
    · exact Nat.lt_of_lt_of_le (hc i hi) hB
    · exact Nat.lt_of_lt_of_le (hp i hi) hB
  exact ⟨by omega, wire_load i this⟩

/-- the same with the counting run given as a `RunReach` derivation that published one axiom per element of `gammaAxioms` -/
theorem optimized_serialisation_fits_in_a_byte' {K : Type} [DecidableEq K] [PyPattern K] (repr : K → NPat) (o : Orders K)
    (t : Nat) {k : List K} {σ : Self K} (hσ : RunReach k σ) {R : PySet K} {σ' : Self K} {t' : Nat} (m : PModule)
    (hm : ModDK m) (hk : k.length = m.gammaAxioms.length) (hax : m.gammaAxioms.length ≤ 256)
    (hfin : finalize o t σ = some (R, σ', t'))
    (L : List NPat) (hL : L.Perm (R.map repr)) (hC : Canon2 L)
    (n : Nat) (s : PySt) (calls : List Call)
    (h : PModule.executeFull { memo := some L } n m = some (some (s, calls))) :
    s.memory.length ≤ 256 := by
  obtain ⟨hlen, _⟩ := finalize_budget_reachable o t hσ.reachable hfin
  have hm0 := hσ.memory_length
  have h1 := executeFull_memory_length2 L hC n m hm s calls h
  have h2 : L.length = R.length := by rw [hL.length_eq, List.length_map]
  omega

end C03

#print axioms C03.recording_frame
#print axioms C03.finalize_budget_reachable
#print axioms C03.counting_run_memory
#print axioms C03.analyser_memory_is_axioms
#print axioms C03.canonical_fails
#print axioms C03.seq_implies_peq
#print axioms C03.memo_run_memory_bound2
#print axioms C03.canon2_of_shaped
#print axioms C03.optimized_serialisation_fits_in_a_byte
#print axioms C03.optimized_serialisation_fits_in_a_byte'
