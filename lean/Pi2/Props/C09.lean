import Pi2.TautThm
import Pi2.TautTie
/-!
# C09 — the tautology prover decides correctly

The decision part of `tautology.py`: every normal-form stage preserves the truth table and
establishes the shape the next stage asserts; distribution terminates within `weight` fuel;
resolution by saturation is sound and (when the saturation finishes without the empty clause)
complete; hence the verdict of `prove_tautology` is right in all three cases.
Thin restatements of `Pi2.TautThm`.

`Pi2/Gen/PyTaut.lean` is regenerated on every run from `tautology.py` (`vlib/transtaut.py`: the normal-form classes and the
DATA SLICE of every stage, statement by statement; proof objects are opaque).  `Pi2/TautTie.lean` ties the generated
functions to the model; `prover_text_is_the_model` and `prover_text_decides` restate that here: C09 holds of the prover
AS WRITTEN (data part; the proof objects are C10 and the replay in the check).
-/
namespace C09
open Res

/-- stage 1: `to_conj_form` preserves the truth table -/
theorem ofForm_eval (f : Form) (v : Nat → Bool) : (CF.ofForm f).eval v = f.eval v :=
  CF.ofForm_eval f v

/-- …and produces a constant or an OR/negation tree -/
theorem ofForm_shape (f : Form) : (CF.ofForm f).isBot = true ∨ (CF.ofForm f).IsOrTree = true :=
  CF.ofForm_shape f

/-- stage 2: `propag_neg` never hits its assertion on an OR/negation tree, preserves the truth table
and yields a negation normal form -/
theorem propagNeg_spec (c : CF) : c.IsOrTree = true →
    ∃ r, CF.propagNeg c = some r ∧ (∀ v, r.eval v = c.eval v) ∧ r.IsNNF = true :=
  CF.propagNeg_spec c

/-- stage 3: `to_cnf` preserves the truth table and yields a conjunctive normal form -/
theorem toCnf_spec (k : Nat) (c r : CF) : c.IsNNF = true → CF.toCnfF k c = some r →
    (∀ v, r.eval v = c.eval v) ∧ r.IsCNF = true :=
  CF.toCnfF_spec k c r

/-- …and terminates: `weight c` recursion depth suffices, and the result is not heavier -/
theorem toCnf_terminates (c : CF) (k : Nat) : c.IsNNF = true → c.weight ≤ k →
    ∃ r, CF.toCnfF k c = some r ∧ r.weight ≤ c.weight :=
  CF.toCnfF_weight c k

/-- stage 4: `to_clauses` never hits its assertions on a CNF; the clause list means the same; no
clause is empty and no literal is `0` -/
theorem toClauses_spec (c : CF) : c.IsCNF = true →
    ∃ cls, CF.toClauses c = some cls ∧ (∀ v, Res.evalClauses v cls = c.eval v) ∧
      (∀ cl ∈ cls, cl ≠ []) ∧ (∀ cl ∈ cls, NoZero cl) :=
  CF.toClauses_spec c

/-- resolution derives only consequences -/
theorem resolvable_sound (c1 c2 : List Int) (r : Int) (res : List Int) (v : Nat → Bool) :
    NoZero c2 → resolvable c1 c2 = some (r, res) → evalClause v c1 = true →
    evalClause v c2 = true → evalClause v res = true :=
  Res.resolvable_sound c1 c2 r res v

/-- a refutation is a refutation -/
theorem refutation_sound (fuel : Nat) (cls : List (List Int)) :
    Res.start fuel cls = some (some false) → ¬ ∃ v, evalClauses v cls = true :=
  Res.start_sound_false fuel cls

/-- "all clauses are trivial" means valid -/
theorem all_trivial_valid (fuel : Nat) (cls : List (List Int)) (hz : ∀ cl ∈ cls, NoZero cl) :
    Res.start fuel cls = some (some true) → ∀ v, evalClauses v cls = true :=
  Res.start_sound_true fuel cls hz

/-- completeness of the saturation: if it finishes without deriving the empty clause, the clause set
is satisfiable (and, some clause being non-trivial, also falsifiable) -/
theorem saturation_complete (fuel : Nat) (cls : List (List Int)) (hne : ∀ cl ∈ cls, cl ≠ [])
    (hz : ∀ cl ∈ cls, NoZero cl) :
    Res.start fuel cls = some none →
    (∃ v, evalClauses v cls = true) ∧ (∃ v, evalClauses v cls = false) :=
  Res.start_complete fuel cls hne hz

/-- the verdict of `prove_tautology`: `True` only for tautologies, `False` only for contradictions,
"declined" only for contingent patterns -/
theorem prover_decides (fuel : Nat) (f : Form) :
    (proveTautology fuel f = some (some true) → ∀ v, f.eval v = true) ∧
    (proveTautology fuel f = some (some false) → ∀ v, f.eval v = false) ∧
    (proveTautology fuel f = some none → (∃ v, f.eval v = true) ∧ (∃ v, f.eval v = false)) :=
  _root_.prover_decides fuel f

/-- every class and every method of the data slice is covered by the translator -/
theorem prover_translated : Gen.PyTaut.translated = true := TautTie.translated

open Gen.PyTaut TautTie in
/-- the prover as written is the model, stage by stage (`ofCF` embeds the model's normal forms in the generated class
hierarchy; `depth` / `Form.size` bound the recursion depth; components 2 and 3 of the results are the opaque proofs):
`to_conj_form`, `propag_neg`, `to_cnf` (at EVERY fuel), `to_clauses`, `resolvable`, `is_trivial_clause` are EQUAL to the
model's functions, raises included; `start_resolution_algorithm` (the saturation loop over clause pairs with its hint
bookkeeping and the reconstruction from the hint) and `prove_tautology` give the model's verdict in both directions:
whatever they answer (at any fuel) the model answers at every sufficient fuel, and whatever the model answers they answer
at every sufficient fuel — in particular none of their assertions fails.  (Clauses without the literal `0`.) -/
theorem prover_text_is_the_model :
    (∀ (f : Form) (n : Nat), f.size ≤ n →
      to_conj_form n f = some (ofCF (CF.ofForm f), (), if (CF.ofForm f).isBot then none else some ())) ∧
    (∀ (c : CF) (n : Nat), depth c ≤ n → propag_neg n (ofCF c) = (CF.propagNeg c).map fun r => (ofCF r, (), ())) ∧
    (∀ (k : Nat) (c : CF), to_cnf k (ofCF c) = (CF.toCnfF k c).map fun r => (ofCF r, (), ())) ∧
    (∀ (c : CF) (n : Nat), depth c ≤ n → to_clauses n (ofCF c) = (CF.toClauses c).map fun r => (r, (), ())) ∧
    (∀ c1 c2 : List Int, Gen.PyTaut.resolvable c1 c2 = some (Res.resolvable c1 c2)) ∧
    (∀ c : List Int, NoZero c → is_trivial_clause c = some (Res.trivial c)) ∧
    (∀ (F : Nat) (cls : List (List Int)) (v : Option (Bool × Unit)), (∀ cl ∈ cls, NoZero cl) →
      start_resolution_algorithm F cls = some v → ∃ n, ∀ m, Res.start (n + m) cls = some (v.map (·.1))) ∧
    (∀ (F : Nat) (cls : List (List Int)) (x : Option Bool), (∀ cl ∈ cls, NoZero cl) →
      Res.start F cls = some x → ∃ F', ∀ G, F' ≤ G → start_resolution_algorithm G cls = some (x.map fun b => (b, ()))) ∧
    (∀ (F : Nat) (f : Form) (v : Option (Bool × Unit)), prove_tautology F f = some v →
      ∃ n, ∀ m, proveTautology (n + m) f = some (v.map (·.1))) ∧
    (∀ (F : Nat) (f : Form) (x : Option Bool), proveTautology F f = some x →
      ∃ F', ∀ G, F' ≤ G → prove_tautology G f = some (x.map fun b => (b, ()))) :=
  ⟨to_conj_form_eq, fun c n h => propag_neg_eq c n h, to_cnf_eq, to_clauses_eq, resolvable_eq, is_trivial_clause_eq,
    fun F cls v hz h => start_sound F cls hz v h, fun F cls x hz h => start_complete F cls hz x h,
    prove_tautology_sound, prove_tautology_complete⟩

open Gen.PyTaut in
/-- `prover_decides` for the prover AS WRITTEN: whatever fuel it is run with, the verdict `(True, _)` is given only for
tautologies, `(False, _)` only for contradictions, `None` ("declined") only for contingent patterns -/
theorem prover_text_decides (fuel : Nat) (f : Form) :
    (∀ u, prove_tautology fuel f = some (some (true, u)) → ∀ v, f.eval v = true) ∧
    (∀ u, prove_tautology fuel f = some (some (false, u)) → ∀ v, f.eval v = false) ∧
    (prove_tautology fuel f = some none → (∃ v, f.eval v = true) ∧ (∃ v, f.eval v = false)) := by
  refine ⟨fun u h => ?_, fun u h => ?_, fun h => ?_⟩
  · obtain ⟨n, hn⟩ := TautTie.prove_tautology_sound fuel f _ h
    exact (_root_.prover_decides (n + 0) f).1 (hn 0)
  · obtain ⟨n, hn⟩ := TautTie.prove_tautology_sound fuel f _ h
    exact (_root_.prover_decides (n + 0) f).2.1 (hn 0)
  · obtain ⟨n, hn⟩ := TautTie.prove_tautology_sound fuel f _ h
    exact (_root_.prover_decides (n + 0) f).2.2 (hn 0)

end C09
