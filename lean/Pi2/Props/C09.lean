import Pi2.TautThm
import Pi2.TautTie
import Pi2.StageThm
import Pi2.ClauseTotal
/-!
# C09 — the tautology prover decides correctly

The decision part of `tautology.py`: every normal-form stage preserves the truth table and
establishes the shape the next stage asserts; distribution terminates within `weight` fuel;
resolution by saturation is sound and (when the saturation finishes without the empty clause)
complete; hence the verdict of `prove_tautology` is right in all three cases.
Thin restatements of `Pi2.TautThm`.

`Pi2/Gen/PyTaut.lean` is regenerated on every run from `tautology.py` (`vlib/transtaut.py`: the normal-form classes and the
DATA SLICE of every stage, statement by statement; proof objects are opaque).  `Pi2/TautTie.lean` ties the generated
functions to the model; `prover_text_is_the_model` and `prover_text_decides` restate that here: C09 holds of the prover
AS WRITTEN (data part).

THE PROOF OBJECTS.  `Pi2/Gen/StageProofs.lean` is regenerated on every run from the same text (`vlib/transstage.py`: the
stage functions `to_conj_form`, `propag_neg`, `to_cnf`, `to_clauses` (+ its two loops, + `imp_trans_match1/2`) and
`start_resolution_algorithm` / `prove_tautology` with ALL their statements, every `ProofThunk` expression over a thunk algebra, calls of the library lemmas
by their index in `Gen.lemmaDefs`).  `Pi2/StageThm.lean` proves, and `stage_proofs_*` / `prover_proof_conclusion_is_literal`
restate here, the second sentence of C09: every normal-form stage returns, on EVERY input of the advertised shape, proof
objects that PROVE (`StageThm.Proves`: advertised conclusion literally = , the proof tree means it under the documented
rules, every returning replay on the basic interpreter returns it) both implications between `conj_to_pattern` of its input
and of its output; and `start_resolution_algorithm` / the final assembly of `prove_tautology` conclude the clause conjunction (or its
refutation) / literally the pattern (or its negation), given what `prove_trivial_clause` and `build_proof_from_hint` promise
about the proofs they return (the clause utilities and the reconstruction from the resolution hint are NOT translated: they
are parameters of the generated functions, replayed per sample by the check).  The per-lemma facts are those of C10 (`C10.conc_stable`: every library lemma, at ALL arguments).

THE CLAUSE UTILITIES AND THE RESOLUTION PROOF BUILDER.  `Pi2/Gen/ClauseProofs.lean` is regenerated on every run from the same
text (`vlib/transclause.py`: `id_to_metavar`, `foldl_op` / `foldr_op`, `clause_to_pattern`, `clause_conjunctionto_pattern`,
`conjunction_implies_nth`, `ac_move_to_front` with its nested `unroll`, `or_move_to_front` / `and_move_to_front`,
`reduce_n_or_duplicates_at_front`, `simplify_clause`, `merge_clauses`, `prove_trivial_clause`, `build_proof_from_hint`, with
ALL their statements).  `Pi2/ClauseThm.lean` (+ `ClauseBase`, `ClauseMove`, `ClauseTriv`) proves what each of them concludes
and DISCHARGES the two hypotheses (`ClauseThm.ptc_spec`, `ClauseThm.bpfh_spec`): `clause_utilities_conclude`,
`resolution_proof_conclusion_closed`, `prover_proof_conclusion_is_literal_closed`, `prover_returns_proof_sound`,
`prover_returns_proof_complete`, `prover_returns_proof_iff` are about the generated prover with proof objects, with no hypothesis
left (`Pi2/ClauseProver.lean`: what it answers is right; `Pi2/ClauseTotal.lean`: it answers wherever the model does).
-/
namespace C09
open Res

/-- stage 1: `to_conj_form` preserves the truth table -/
theorem ofForm_eval (f : Form) (v : Nat → Bool) : (CF.ofForm f).eval v = f.eval v :=
  CF.ofForm_eval f v

/-- …and produces a constant or an OR/negation tree -/
theorem ofForm_shape (f : Form) : (CF.ofForm f).isBot = true ∨ (CF.ofForm f).IsOrTree = true :=
  CF.ofForm_shape f

/-- stage 2: `propag_neg` never hits its assertion on an OR/negation tree, preserves the truth table
and yields a negation normal form -/
theorem propagNeg_spec (c : CF) : c.IsOrTree = true →
    ∃ r, CF.propagNeg c = some r ∧ (∀ v, r.eval v = c.eval v) ∧ r.IsNNF = true :=
  CF.propagNeg_spec c

/-- stage 3: `to_cnf` preserves the truth table and yields a conjunctive normal form -/
theorem toCnf_spec (k : Nat) (c r : CF) : c.IsNNF = true → CF.toCnfF k c = some r →
    (∀ v, r.eval v = c.eval v) ∧ r.IsCNF = true :=
  CF.toCnfF_spec k c r

/-- …and terminates: `weight c` recursion depth suffices, and the result is not heavier -/
theorem toCnf_terminates (c : CF) (k : Nat) : c.IsNNF = true → c.weight ≤ k →
    ∃ r, CF.toCnfF k c = some r ∧ r.weight ≤ c.weight :=
  CF.toCnfF_weight c k

/-- stage 4: `to_clauses` never hits its assertions on a CNF; the clause list means the same; no
clause is empty and no literal is `0` -/
theorem toClauses_spec (c : CF) : c.IsCNF = true →
    ∃ cls, CF.toClauses c = some cls ∧ (∀ v, Res.evalClauses v cls = c.eval v) ∧
      (∀ cl ∈ cls, cl ≠ []) ∧ (∀ cl ∈ cls, NoZero cl) :=
  CF.toClauses_spec c

/-- resolution derives only consequences -/
theorem resolvable_sound (c1 c2 : List Int) (r : Int) (res : List Int) (v : Nat → Bool) :
    NoZero c2 → resolvable c1 c2 = some (r, res) → evalClause v c1 = true →
    evalClause v c2 = true → evalClause v res = true :=
  Res.resolvable_sound c1 c2 r res v

/-- a refutation is a refutation -/
theorem refutation_sound (fuel : Nat) (cls : List (List Int)) :
    Res.start fuel cls = some (some false) → ¬ ∃ v, evalClauses v cls = true :=
  Res.start_sound_false fuel cls

/-- "all clauses are trivial" means valid -/
theorem all_trivial_valid (fuel : Nat) (cls : List (List Int)) (hz : ∀ cl ∈ cls, NoZero cl) :
    Res.start fuel cls = some (some true) → ∀ v, evalClauses v cls = true :=
  Res.start_sound_true fuel cls hz

/-- completeness of the saturation: if it finishes without deriving the empty clause, the clause set
is satisfiable (and, some clause being non-trivial, also falsifiable) -/
theorem saturation_complete (fuel : Nat) (cls : List (List Int)) (hne : ∀ cl ∈ cls, cl ≠ [])
    (hz : ∀ cl ∈ cls, NoZero cl) :
    Res.start fuel cls = some none →
    (∃ v, evalClauses v cls = true) ∧ (∃ v, evalClauses v cls = false) :=
  Res.start_complete fuel cls hne hz

/-- the verdict of `prove_tautology`: `True` only for tautologies, `False` only for contradictions,
"declined" only for contingent patterns -/
theorem prover_decides (fuel : Nat) (f : Form) :
    (proveTautology fuel f = some (some true) → ∀ v, f.eval v = true) ∧
    (proveTautology fuel f = some (some false) → ∀ v, f.eval v = false) ∧
    (proveTautology fuel f = some none → (∃ v, f.eval v = true) ∧ (∃ v, f.eval v = false)) :=
  _root_.prover_decides fuel f

/-- every class and every method of the data slice is covered by the translator -/
theorem prover_translated : Gen.PyTaut.translated = true := TautTie.translated

open Gen.PyTaut TautTie in
/-- the prover as written is the model, stage by stage (`ofCF` embeds the model's normal forms in the generated class
hierarchy; `depth` / `Form.size` bound the recursion depth; components 2 and 3 of the results are the opaque proofs):
`to_conj_form`, `propag_neg`, `to_cnf` (at EVERY fuel), `to_clauses`, `resolvable`, `is_trivial_clause` are EQUAL to the
model's functions, raises included; `start_resolution_algorithm` (the saturation loop over clause pairs with its hint
bookkeeping and the reconstruction from the hint) and `prove_tautology` give the model's verdict in both directions:
whatever they answer (at any fuel) the model answers at every sufficient fuel, and whatever the model answers they answer
at every sufficient fuel — in particular none of their assertions fails.  (Clauses without the literal `0`.) -/
theorem prover_text_is_the_model :
    (∀ (f : Form) (n : Nat), f.size ≤ n →
      to_conj_form n f = some (ofCF (CF.ofForm f), (), if (CF.ofForm f).isBot then none else some ())) ∧
    (∀ (c : CF) (n : Nat), depth c ≤ n → propag_neg n (ofCF c) = (CF.propagNeg c).map fun r => (ofCF r, (), ())) ∧
    (∀ (k : Nat) (c : CF), to_cnf k (ofCF c) = (CF.toCnfF k c).map fun r => (ofCF r, (), ())) ∧
    (∀ (c : CF) (n : Nat), depth c ≤ n → to_clauses n (ofCF c) = (CF.toClauses c).map fun r => (r, (), ())) ∧
    (∀ c1 c2 : List Int, Gen.PyTaut.resolvable c1 c2 = some (Res.resolvable c1 c2)) ∧
    (∀ c : List Int, NoZero c → is_trivial_clause c = some (Res.trivial c)) ∧
    (∀ (F : Nat) (cls : List (List Int)) (v : Option (Bool × Unit)), (∀ cl ∈ cls, NoZero cl) →
      start_resolution_algorithm F cls = some v → ∃ n, ∀ m, Res.start (n + m) cls = some (v.map (·.1))) ∧
    (∀ (F : Nat) (cls : List (List Int)) (x : Option Bool), (∀ cl ∈ cls, NoZero cl) →
      Res.start F cls = some x → ∃ F', ∀ G, F' ≤ G → start_resolution_algorithm G cls = some (x.map fun b => (b, ()))) ∧
    (∀ (F : Nat) (f : Form) (v : Option (Bool × Unit)), prove_tautology F f = some v →
      ∃ n, ∀ m, proveTautology (n + m) f = some (v.map (·.1))) ∧
    (∀ (F : Nat) (f : Form) (x : Option Bool), proveTautology F f = some x →
      ∃ F', ∀ G, F' ≤ G → prove_tautology G f = some (x.map fun b => (b, ()))) :=
  ⟨to_conj_form_eq, fun c n h => propag_neg_eq c n h, to_cnf_eq, to_clauses_eq, resolvable_eq, is_trivial_clause_eq,
    fun F cls v hz h => start_sound F cls hz v h, fun F cls x hz h => start_complete F cls hz x h,
    prove_tautology_sound, prove_tautology_complete⟩

open Gen.PyTaut in
/-- `prover_decides` for the prover AS WRITTEN: whatever fuel it is run with, the verdict `(True, _)` is given only for
tautologies, `(False, _)` only for contradictions, `None` ("declined") only for contingent patterns -/
theorem prover_text_decides (fuel : Nat) (f : Form) :
    (∀ u, prove_tautology fuel f = some (some (true, u)) → ∀ v, f.eval v = true) ∧
    (∀ u, prove_tautology fuel f = some (some (false, u)) → ∀ v, f.eval v = false) ∧
    (prove_tautology fuel f = some none → (∃ v, f.eval v = true) ∧ (∃ v, f.eval v = false)) := by
  refine ⟨fun u h => ?_, fun u h => ?_, fun h => ?_⟩
  · obtain ⟨n, hn⟩ := TautTie.prove_tautology_sound fuel f _ h
    exact (_root_.prover_decides (n + 0) f).1 (hn 0)
  · obtain ⟨n, hn⟩ := TautTie.prove_tautology_sound fuel f _ h
    exact (_root_.prover_decides (n + 0) f).2.1 (hn 0)
  · obtain ⟨n, hn⟩ := TautTie.prove_tautology_sound fuel f _ h
    exact (_root_.prover_decides (n + 0) f).2.2 (hn 0)

/-! ## the proof objects of the stages -/

/-- every stage function, with ALL its statements, is covered by the translator -/
theorem stage_proofs_translated : Gen.Stage.translated = true := StageThm.translated

open StageThm StageSup TautTie in
/-- stage 1, proof objects: on every propositional pattern `f` (recursion depth ≥ its size) `to_conj_form` as written returns
the model's normal form with proofs of `pat -> new` and `new -> pat`; for Top / Bottom a single proof, of `pat` / `neg(pat)` -/
theorem stage_proofs_conj_form (f : Form) (n : Nat) (hn : f.size ≤ n) :
    ∃ (t1 : Lem.GTh) (o2 : Option Lem.GTh),
      Gen.Stage.to_conj_form algGS n f = some (ofCF (CF.ofForm f), t1, o2) ∧
      (if (CF.ofForm f).isBot then
        o2 = none ∧ Proves t1 (if (CF.ofForm f).negated then toPat f else Lem.negP (toPat f))
      else
        Proves t1 (.imp (toPat f) (cfPat (ofCF (CF.ofForm f)))) ∧
          ∃ t2, o2 = some t2 ∧ Proves t2 (.imp (cfPat (ofCF (CF.ofForm f))) (toPat f))) :=
  StageThm.to_conj_form_proofs f n hn

open StageThm StageSup TautTie in
/-- stage 2, proof objects: on every OR/negation tree `propag_neg` as written returns the model's negation normal form with
proofs of both implications between `conj_to_pattern(in)` and `conj_to_pattern(out)` -/
theorem stage_proofs_propag_neg (c : CF) (n : Nat) (hn : depth c ≤ n) (hc : c.IsOrTree = true) :
    ∃ (r : CF) (t1 t2 : Lem.GTh), CF.propagNeg c = some r ∧ r.IsNNF = true ∧
      Gen.Stage.propag_neg algGS n (ofCF c) = some (ofCF r, t1, t2) ∧
      Proves t1 (.imp (cfPat (ofCF c)) (cfPat (ofCF r))) ∧ Proves t2 (.imp (cfPat (ofCF r)) (cfPat (ofCF c))) := by
  obtain ⟨r, hr, _, hs⟩ := CF.propagNeg_spec c hc
  obtain ⟨t1, t2, h⟩ := StageThm.propag_neg_proofs c r n hn hr
  exact ⟨r, t1, t2, hr, hs, h⟩

open StageThm StageSup TautTie in
/-- stage 3, proof objects: on every negation normal form, with `weight c` fuel, `to_cnf` as written returns the model's
conjunctive normal form with proofs of both implications -/
theorem stage_proofs_cnf (c : CF) (k : Nat) (hc : c.IsNNF = true) (hk : c.weight ≤ k) :
    ∃ (r : CF) (t1 t2 : Lem.GTh), CF.toCnfF k c = some r ∧ r.IsCNF = true ∧
      Gen.Stage.to_cnf algGS k (ofCF c) = some (ofCF r, t1, t2) ∧
      Proves t1 (.imp (cfPat (ofCF c)) (cfPat (ofCF r))) ∧ Proves t2 (.imp (cfPat (ofCF r)) (cfPat (ofCF c))) := by
  obtain ⟨r, hr, _⟩ := CF.toCnfF_weight c k hc hk
  obtain ⟨t1, t2, h⟩ := StageThm.to_cnf_proofs c r k hc hr
  exact ⟨r, t1, t2, hr, (CF.toCnfF_spec k c r hc hr).2, h⟩

open StageThm StageSup TautTie in
/-- stage 4, proof objects: on every conjunctive normal form `to_clauses` as written returns the model's clause list with
proofs of both implications between `conj_to_pattern(in)` and `clause_conjunctionto_pattern(out)` -/
theorem stage_proofs_clauses (c : CF) (n : Nat) (hn : depth c ≤ n) (hc : c.IsCNF = true) :
    ∃ (cls : List (List Int)) (t1 t2 : Lem.GTh), CF.toClauses c = some cls ∧
      Gen.Stage.to_clauses algGS n (ofCF c) = some (cls, t1, t2) ∧
      Proves t1 (.imp (cfPat (ofCF c)) (clausesPat cls)) ∧ Proves t2 (.imp (clausesPat cls) (cfPat (ofCF c))) := by
  obtain ⟨cls, hr, _⟩ := CF.toClauses_spec c hc
  obtain ⟨t1, t2, h⟩ := StageThm.to_clauses_proofs c cls n hn hc hr
  exact ⟨cls, t1, t2, hr, h⟩

open StageThm StageSup in
/-- `start_resolution_algorithm` as written, proof objects, at ANY fuel: verdict `True` comes with a proof of the clause
conjunction (`top_intro`; the proofs of the trivial clauses conjoined by a RIGHT fold of `and_intro`), verdict `False` with a
proof that the clause conjunction implies ⊥ — given what `prove_trivial_clause` and `build_proof_from_hint` promise
(`PtcSpec`, `BpfhSpec`: their proof objects — the clause utilities and the reconstruction from the hint — are NOT translated;
the check replays them per sample) -/
theorem resolution_proof_conclusion
    (ptc : Nat → List Int → Option Lem.GTh)
    (bpfh : Nat → Hint → TautSup.FrozenSet → List (List Int) → Option (List Int × Lem.GTh))
    (hp : PtcSpec ptc) (hb : BpfhSpec bpfh) (F : Nat) (cls : List (List Int)) (b : Bool) (th : Lem.GTh)
    (h : Gen.Stage.start_resolution_algorithm algGS ptc bpfh F cls = some (some (b, th))) :
    Proves th (if b then clausesPat cls else .imp (clausesPat cls) Lem.botP) :=
  StageThm.start_resolution_algorithm_proofs ptc bpfh hp hb F cls b th h

open StageThm StageSup in
/-- the final assembly: at ANY fuel, whatever `prove_tautology` as written returns with verdict `True` proves literally the
pattern, with verdict `False` literally its negation (same two hypotheses) -/
theorem prover_proof_conclusion_is_literal
    (ptc : Nat → List Int → Option Lem.GTh)
    (bpfh : Nat → Hint → TautSup.FrozenSet → List (List Int) → Option (List Int × Lem.GTh))
    (hp : PtcSpec ptc) (hb : BpfhSpec bpfh) (n : Nat) (f : Form) (b : Bool) (th : Lem.GTh)
    (h : Gen.Stage.prove_tautology algGS ptc bpfh n f = some (some (b, th))) :
    Proves th (if b then toPat f else Lem.negP (toPat f)) :=
  StageThm.prove_tautology_proofs ptc bpfh hp hb n f b th h

open StageThm StageSup TautTie in
/-- the data component of the generated stage functions is the data slice (same source text, read twice) -/
theorem stage_data_is_the_data_slice :
    (∀ (f : Form) (n : Nat), f.size ≤ n →
      (Gen.Stage.to_conj_form algGS n f).map (fun r => (r.1, (), r.2.2.map fun _ => ())) = Gen.PyTaut.to_conj_form n f) ∧
    (∀ (c r : CF) (n : Nat), depth c ≤ n → CF.propagNeg c = some r →
      (Gen.Stage.propag_neg algGS n (ofCF c)).map erase3 = Gen.PyTaut.propag_neg n (ofCF c)) ∧
    (∀ (c r : CF) (k : Nat), c.IsNNF = true → CF.toCnfF k c = some r →
      (Gen.Stage.to_cnf algGS k (ofCF c)).map erase3 = Gen.PyTaut.to_cnf k (ofCF c)) ∧
    (∀ (c : CF) (cls : List (List Int)) (n : Nat), depth c ≤ n → c.IsCNF = true → CF.toClauses c = some cls →
      (Gen.Stage.to_clauses algGS n (ofCF c)).map erase3 = Gen.PyTaut.to_clauses n (ofCF c)) :=
  ⟨StageThm.to_conj_form_data, StageThm.propag_neg_data, StageThm.to_cnf_data, StageThm.to_clauses_data⟩

/-! ## the clause utilities and the resolution proof builder: the two hypotheses discharged -/

/-- every clause utility and the resolution proof builder, with ALL their statements, are covered by the translator -/
theorem clause_proofs_translated : Gen.Clause.translated = true := ClauseThm.translated

open StageThm StageSup ClauseThm Lem in
/-- what the clause utilities conclude, on conclusions (`algCS`), at every sufficient fuel, as equations with the advertised
pattern: `conjunction_implies_nth(term, n, l)` concludes `term -> (the n-th conjunct)`; `or_move_to_front` /
`and_move_to_front` for the ascending positions of a mask conclude `terms <-> (selected operands, then the others)`;
`reduce_n_or_duplicates_at_front(n, terms)` concludes `p \/ (p .. (p \/ q)) <-> p \/ q`; `simplify_clause(cl, x)` returns
the clause with the occurrences of `x` merged in front and concludes `clause_to_pattern(cl) <-> clause_to_pattern(result)`;
`merge_clauses` concludes `(l1 \/ ..) \/ r <-> l1 \/ (.. \/ r)`; `prove_trivial_clause` concludes `clause_to_pattern(cl)` on
every trivial clause -/
theorem clause_utilities_conclude :
    (∀ (ps : List Pat) (n fuel : Nat) (hn : n < ps.length), ps.length ≤ fuel →
      Gen.Clause.conjunction_implies_nth algCS fuel (foldrP andP ps) (n : Int) (ps.length : Int) =
        some (.imp (foldrP andP ps) ps[n])) ∧
    (∀ (bs : List Bool) (xs : List Pat) (fuel : Nat), bs.length = xs.length → xs ≠ [] → moveFuel xs.length ≤ fuel →
      Gen.Clause.or_move_to_front algCS fuel ((idxs 0 bs).map fun (p : Nat) => (p : Int)) xs =
        some (equivP (foldrP orP xs) (foldrP orP (sel bs xs ++ sel (bs.map not) xs)))) ∧
    (∀ (bs : List Bool) (xs : List Pat) (fuel : Nat), bs.length = xs.length → xs ≠ [] → moveFuel xs.length ≤ fuel →
      Gen.Clause.and_move_to_front algCS fuel ((idxs 0 bs).map fun (p : Nat) => (p : Int)) xs =
        some (equivP (foldrP andP xs) (foldrP andP (sel bs xs ++ sel (bs.map not) xs)))) ∧
    (∀ (p : Pat) (rest : List Pat) (n fuel : Nat), n + 1 + rest.length ≤ fuel →
      Gen.Clause.reduce_n_or_duplicates_at_front algCS fuel (n : Int) (List.replicate (n + 1) p ++ rest) =
        some (equivP (foldrP orP (List.replicate (n + 1) p ++ rest)) (foldrP orP (p :: rest)))) ∧
    (∀ (cl : List Int) (x : Int) (fuel : Nat), NoZero cl → moveFuel cl.length ≤ fuel →
      Gen.Clause.simplify_clause algCS fuel cl x =
        some (simplified cl x, equivP (clausePat cl) (clausePat (simplified cl x)))) ∧
    (∀ (tr : Pat) (ls : List Pat) (fuel : Nat), ls ≠ [] → ls.length ≤ fuel →
      Gen.Clause.merge_clauses algCS fuel (foldrP orP ls) (ls.length : Int) tr =
        some (equivP (orP (foldrP orP ls) tr) (foldrP orP (ls ++ [tr])))) ∧
    (∀ (cl : List Int) (fuel : Nat), NoZero cl → Res.trivial cl = true → moveFuel cl.length ≤ fuel →
      Gen.Clause.prove_trivial_clause algCS fuel cl = some (clausePat cl)) :=
  ⟨conjunction_implies_nth_C, or_move_to_front_C, and_move_to_front_C, reduce_n_C, simplify_clause_C, merge_clauses_C,
    prove_trivial_clause_C⟩

open StageThm StageSup ClauseThm in
/-- `PtcSpec` / `BpfhSpec` hold of the GENERATED `prove_trivial_clause` / `build_proof_from_hint`: at ANY fuel, on EVERY
clause / for EVERY hint, key and clause list, whatever they return PROVES the clause pattern / the implication
`clause_conjunctionto_pattern(terms) -> clause_to_pattern(resolvent)`; and on a trivial clause (sufficient fuel)
`prove_trivial_clause` does return a proof -/
theorem clause_builders_prove :
    PtcSpec ptcG ∧ BpfhSpec bpfhG ∧
    (∀ F cl th, ptcG F cl = some th → Proves th (clausePat cl)) ∧
    (∀ F hint cl terms r th, bpfhG F hint cl terms = some (r, th) → Proves th (.imp (clausesPat terms) (clausePat r))) ∧
    (∀ cl fuel, NoZero cl → Res.trivial cl = true → moveFuel cl.length ≤ fuel →
      ∃ th, ptcG fuel cl = some th ∧ Proves th (clausePat cl)) :=
  ⟨ptc_spec, bpfh_spec, prove_trivial_clause_proofs, build_proof_from_hint_proofs, prove_trivial_clause_total⟩

open StageThm StageSup ClauseThm in
/-- `resolution_proof_conclusion` for the generated prover, no hypothesis left: at ANY fuel, verdict `True` of
`start_resolution_algorithm` comes with a proof of the clause conjunction, verdict `False` with a proof that it implies ⊥ -/
theorem resolution_proof_conclusion_closed (F : Nat) (cls : List (List Int)) (b : Bool) (th : Lem.GTh)
    (h : Gen.Stage.start_resolution_algorithm algGS (Gen.Clause.prove_trivial_clause algGS)
      (Gen.Clause.build_proof_from_hint algGS) F cls = some (some (b, th))) :
    Proves th (if b then clausesPat cls else .imp (clausesPat cls) Lem.botP) :=
  resolution_proof_conclusion _ _ ptc_spec bpfh_spec F cls b th h

open StageThm StageSup ClauseThm in
/-- `prover_proof_conclusion_is_literal` for the generated prover, no hypothesis left: at ANY fuel, whatever
`prove_tautology` as written returns with verdict `True` PROVES literally the pattern, with verdict `False` its negation -/
theorem prover_proof_conclusion_is_literal_closed (n : Nat) (f : Form) (b : Bool) (th : Lem.GTh)
    (h : Gen.Stage.prove_tautology algGS (Gen.Clause.prove_trivial_clause algGS)
      (Gen.Clause.build_proof_from_hint algGS) n f = some (some (b, th))) :
    Proves th (if b then toPat f else Lem.negP (toPat f)) :=
  prover_proof_conclusion_is_literal _ _ ptc_spec bpfh_spec n f b th h

open StageThm StageSup ClauseThm in
/-- the first sentence of C09 for the GENERATED prover WITH PROOF OBJECTS (`prove_tautology` over proof trees, calling the
generated `prove_trivial_clause` and `build_proof_from_hint`), soundness, at ANY fuel: it answers `(True, th)` only for
tautologies, and then `th` PROVES literally the pattern; `(False, th)` only for unsatisfiable patterns, and then `th` PROVES
literally its negation; `None` only for contingent patterns -/
theorem prover_returns_proof_sound (fuel : Nat) (f : Form) :
    (∀ th, Gen.Stage.prove_tautology algGS ptcG bpfhG fuel f = some (some (true, th)) →
      (∀ v, f.eval v = true) ∧ Proves th (toPat f)) ∧
    (∀ th, Gen.Stage.prove_tautology algGS ptcG bpfhG fuel f = some (some (false, th)) →
      (∀ v, f.eval v = false) ∧ Proves th (Lem.negP (toPat f))) ∧
    (Gen.Stage.prove_tautology algGS ptcG bpfhG fuel f = some none →
      (∃ v, f.eval v = true) ∧ (∃ v, f.eval v = false)) := by
  have hom := prove_tautology_hom ptcG ptcC bpfhG bpfhC prove_trivial_clause_hom build_proof_from_hint_hom fuel f
  refine ⟨fun th h => ?_, fun th h => ?_, fun h => ?_⟩
  · rw [h] at hom
    obtain ⟨N, hN⟩ := stage_prover_sound fuel f _ hom.symm
    exact ⟨(_root_.prover_decides (N + 0) f).1 (hN 0), prover_proof_conclusion_is_literal_closed fuel f true th h⟩
  · rw [h] at hom
    obtain ⟨N, hN⟩ := stage_prover_sound fuel f _ hom.symm
    exact ⟨(_root_.prover_decides (N + 0) f).2.1 (hN 0), prover_proof_conclusion_is_literal_closed fuel f false th h⟩
  · rw [h] at hom
    obtain ⟨N, hN⟩ := stage_prover_sound fuel f _ hom.symm
    exact (_root_.prover_decides (N + 0) f).2.2 (hN 0)

open StageThm StageSup ClauseThm in
/-- …and completeness: where the model `proveTautology` answers `x` (at some fuel), the generated prover with proof objects
answers `x` at EVERY sufficiently large fuel — with a proof tree that PROVES literally the pattern (`x = True`) / its negation
(`x = False`); none of its assertions and none of its proof constructions (`or_move_to_front`, `simplify_clause`,
`merge_clauses`, `resolution_step`, …) fails -/
theorem prover_returns_proof_complete (F : Nat) (f : Form) (x : Option Bool) (hm : proveTautology F f = some x) :
    ∃ F', ∀ G, F' ≤ G →
      match x with
      | some true => ∃ th, Gen.Stage.prove_tautology algGS ptcG bpfhG G f = some (some (true, th)) ∧ Proves th (toPat f)
      | some false => ∃ th, Gen.Stage.prove_tautology algGS ptcG bpfhG G f = some (some (false, th)) ∧
          Proves th (Lem.negP (toPat f))
      | none => Gen.Stage.prove_tautology algGS ptcG bpfhG G f = some none := by
  obtain ⟨F', hF'⟩ := stage_prover_complete F f x hm
  refine ⟨F', fun G hG => ?_⟩
  have hom := prove_tautology_hom ptcG ptcC bpfhG bpfhC prove_trivial_clause_hom build_proof_from_hint_hom G f
  rw [hF' G hG] at hom
  obtain ⟨a, ha, hpa⟩ := of_hom hom
  cases x with
  | none =>
    cases a with
    | none => exact ha
    | some bp => cases hpa
  | some b =>
    cases a with
    | none => cases hpa
    | some bp =>
      obtain ⟨b', th⟩ := bp
      have e : (b', th.conc) = (b, if b = true then toPat f else Lem.negP (toPat f)) := Option.some.inj hpa
      simp only [Prod.mk.injEq] at e
      obtain ⟨rfl, hc⟩ := e
      cases b' with
      | true => exact ⟨th, ha, proves_of_conc (by simpa using hc)⟩
      | false => exact ⟨th, ha, proves_of_conc (by simpa using hc)⟩

open StageThm StageSup ClauseThm in
/-- **the first sentence of C09 for the GENERATED prover WITH PROOF OBJECTS.**  Where the model answers (the saturation
ends within some fuel), at EVERY sufficiently large fuel: the generated `prove_tautology` over proof trees returns `(True, th)`
with `th` PROVING literally the pattern EXACTLY when the pattern is a tautology, `(False, th)` with `th` PROVING literally its
negation EXACTLY when it is unsatisfiable, and `None` EXACTLY when it is contingent -/
theorem prover_returns_proof_iff (F : Nat) (f : Form) (x : Option Bool) (hm : proveTautology F f = some x) :
    ∃ F', ∀ G, F' ≤ G →
      ((∀ v, f.eval v = true) ↔
        ∃ th, Gen.Stage.prove_tautology algGS ptcG bpfhG G f = some (some (true, th)) ∧ Proves th (toPat f)) ∧
      ((∀ v, f.eval v = false) ↔
        ∃ th, Gen.Stage.prove_tautology algGS ptcG bpfhG G f = some (some (false, th)) ∧ Proves th (Lem.negP (toPat f))) ∧
      (((∃ v, f.eval v = true) ∧ (∃ v, f.eval v = false)) ↔
        Gen.Stage.prove_tautology algGS ptcG bpfhG G f = some none) := by
  obtain ⟨F', hF'⟩ := prover_returns_proof_complete F f x hm
  have hd := _root_.prover_decides F f
  refine ⟨F', fun G hG => ?_⟩
  have hc := hF' G hG
  obtain ⟨s1, s2, s3⟩ := prover_returns_proof_sound G f
  have v0 : Nat → Bool := fun _ => true
  refine ⟨⟨fun ht => ?_, fun ⟨th, h, _⟩ => (s1 th h).1⟩, ⟨fun hf => ?_, fun ⟨th, h, _⟩ => (s2 th h).1⟩,
    ⟨fun hcg => ?_, fun h => s3 h⟩⟩
  · cases x with
    | none =>
      obtain ⟨_, v, hv⟩ := hd.2.2 hm
      rw [ht v] at hv; cases hv
    | some b =>
      cases b with
      | true => exact hc
      | false =>
        have := hd.2.1 hm v0
        rw [ht v0] at this; cases this
  · cases x with
    | none =>
      obtain ⟨⟨v, hv⟩, _⟩ := hd.2.2 hm
      rw [hf v] at hv; cases hv
    | some b =>
      cases b with
      | false => exact hc
      | true =>
        have := hd.1 hm v0
        rw [hf v0] at this; cases this
  · cases x with
    | none => exact hc
    | some b =>
      obtain ⟨⟨v1, h1⟩, ⟨v2, h2⟩⟩ := hcg
      cases b with
      | true =>
        have := hd.1 hm v2
        rw [h2] at this; cases this
      | false =>
        have := hd.2.1 hm v1
        rw [h1] at this; cases this

end C09
