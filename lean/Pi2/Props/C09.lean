import Pi2.TautThm
/-!
# C09 — the tautology prover decides correctly

The decision part of `tautology.py`: every normal-form stage preserves the truth table and
establishes the shape the next stage asserts; distribution terminates within `weight` fuel;
resolution by saturation is sound and (when the saturation finishes without the empty clause)
complete; hence the verdict of `prove_tautology` is right in all three cases.
Thin restatements of `Pi2.TautThm`.
-/
namespace C09
open Res

/-- stage 1: `to_conj_form` preserves the truth table -/
theorem ofForm_eval (f : Form) (v : Nat → Bool) : (CF.ofForm f).eval v = f.eval v :=
  CF.ofForm_eval f v

/-- …and produces a constant or an OR/negation tree -/
theorem ofForm_shape (f : Form) : (CF.ofForm f).isBot = true ∨ (CF.ofForm f).IsOrTree = true :=
  CF.ofForm_shape f

/-- stage 2: `propag_neg` never hits its assertion on an OR/negation tree, preserves the truth table
and yields a negation normal form -/
theorem propagNeg_spec (c : CF) : c.IsOrTree = true →
    ∃ r, CF.propagNeg c = some r ∧ (∀ v, r.eval v = c.eval v) ∧ r.IsNNF = true :=
  CF.propagNeg_spec c

/-- stage 3: `to_cnf` preserves the truth table and yields a conjunctive normal form -/
theorem toCnf_spec (k : Nat) (c r : CF) : c.IsNNF = true → CF.toCnfF k c = some r →
    (∀ v, r.eval v = c.eval v) ∧ r.IsCNF = true :=
  CF.toCnfF_spec k c r

/-- …and terminates: `weight c` recursion depth suffices, and the result is not heavier -/
theorem toCnf_terminates (c : CF) (k : Nat) : c.IsNNF = true → c.weight ≤ k →
    ∃ r, CF.toCnfF k c = some r ∧ r.weight ≤ c.weight :=
  CF.toCnfF_weight c k

/-- stage 4: `to_clauses` never hits its assertions on a CNF; the clause list means the same; no
clause is empty and no literal is `0` -/
theorem toClauses_spec (c : CF) : c.IsCNF = true →
    ∃ cls, CF.toClauses c = some cls ∧ (∀ v, Res.evalClauses v cls = c.eval v) ∧
      (∀ cl ∈ cls, cl ≠ []) ∧ (∀ cl ∈ cls, NoZero cl) :=
  CF.toClauses_spec c

/-- resolution derives only consequences -/
theorem resolvable_sound (c1 c2 : List Int) (r : Int) (res : List Int) (v : Nat → Bool) :
    NoZero c2 → resolvable c1 c2 = some (r, res) → evalClause v c1 = true →
    evalClause v c2 = true → evalClause v res = true :=
  Res.resolvable_sound c1 c2 r res v

/-- a refutation is a refutation -/
theorem refutation_sound (fuel : Nat) (cls : List (List Int)) :
    Res.start fuel cls = some (some false) → ¬ ∃ v, evalClauses v cls = true :=
  Res.start_sound_false fuel cls

/-- "all clauses are trivial" means valid -/
theorem all_trivial_valid (fuel : Nat) (cls : List (List Int)) (hz : ∀ cl ∈ cls, NoZero cl) :
    Res.start fuel cls = some (some true) → ∀ v, evalClauses v cls = true :=
  Res.start_sound_true fuel cls hz

/-- completeness of the saturation: if it finishes without deriving the empty clause, the clause set
is satisfiable (and, some clause being non-trivial, also falsifiable) -/
theorem saturation_complete (fuel : Nat) (cls : List (List Int)) (hne : ∀ cl ∈ cls, cl ≠ [])
    (hz : ∀ cl ∈ cls, NoZero cl) :
    Res.start fuel cls = some none →
    (∃ v, evalClauses v cls = true) ∧ (∃ v, evalClauses v cls = false) :=
  Res.start_complete fuel cls hne hz

/-- the verdict of `prove_tautology`: `True` only for tautologies, `False` only for contradictions,
"declined" only for contingent patterns -/
theorem prover_decides (fuel : Nat) (f : Form) :
    (proveTautology fuel f = some (some true) → ∀ v, f.eval v = true) ∧
    (proveTautology fuel f = some (some false) → ∀ v, f.eval v = false) ∧
    (proveTautology fuel f = some none → (∃ v, f.eval v = true) ∧ (∃ v, f.eval v = false)) :=
  _root_.prover_decides fuel f

end C09

