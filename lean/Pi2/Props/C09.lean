import Pi2.TautThm
import Pi2.TautTie
import Pi2.StageThm
/-!
# C09 — the tautology prover decides correctly

The decision part of `tautology.py`: every normal-form stage preserves the truth table and
establishes the shape the next stage asserts; distribution terminates within `weight` fuel;
resolution by saturation is sound and (when the saturation finishes without the empty clause)
complete; hence the verdict of `prove_tautology` is right in all three cases.
Thin restatements of `Pi2.TautThm`.

`Pi2/Gen/PyTaut.lean` is regenerated on every run from `tautology.py` (`vlib/transtaut.py`: the normal-form classes and the
DATA SLICE of every stage, statement by statement; proof objects are opaque).  `Pi2/TautTie.lean` ties the generated
functions to the model; `prover_text_is_the_model` and `prover_text_decides` restate that here: C09 holds of the prover
AS WRITTEN (data part).

THE PROOF OBJECTS.  `Pi2/Gen/StageProofs.lean` is regenerated on every run from the same text (`vlib/transstage.py`: the
stage functions `to_conj_form`, `propag_neg`, `to_cnf`, `to_clauses` (+ its two loops, + `imp_trans_match1/2`) and
`start_resolution_algorithm` / `prove_tautology` with ALL their statements, every `ProofThunk` expression over a thunk algebra, calls of the library lemmas
by their index in `Gen.lemmaDefs`).  `Pi2/StageThm.lean` proves, and `stage_proofs_*` / `prover_proof_conclusion_is_literal`
restate here, the second sentence of C09: every normal-form stage returns, on EVERY input of the advertised shape, proof
objects that PROVE (`StageThm.Proves`: advertised conclusion literally = , the proof tree means it under the documented
rules, every returning replay on the basic interpreter returns it) both implications between `conj_to_pattern` of its input
and of its output; and `start_resolution_algorithm` / the final assembly of `prove_tautology` conclude the clause conjunction (or its
refutation) / literally the pattern (or its negation), given what `prove_trivial_clause` and `build_proof_from_hint` promise
about the proofs they return (the clause utilities and the reconstruction from the resolution hint are NOT translated: they
are parameters of the generated functions, replayed per sample by the check).  The per-lemma facts are those of C10 (`C10.conc_stable`: every library lemma, at ALL arguments).
-/
namespace C09
open Res

/-- stage 1: `to_conj_form` preserves the truth table -/
theorem ofForm_eval (f : Form) (v : Nat → Bool) : (CF.ofForm f).eval v = f.eval v :=
  CF.ofForm_eval f v

/-- …and produces a constant or an OR/negation tree -/
theorem ofForm_shape (f : Form) : (CF.ofForm f).isBot = true ∨ (CF.ofForm f).IsOrTree = true :=
  CF.ofForm_shape f

/-- stage 2: `propag_neg` never hits its assertion on an OR/negation tree, preserves the truth table
and yields a negation normal form -/
theorem propagNeg_spec (c : CF) : c.IsOrTree = true →
    ∃ r, CF.propagNeg c = some r ∧ (∀ v, r.eval v = c.eval v) ∧ r.IsNNF = true :=
  CF.propagNeg_spec c

/-- stage 3: `to_cnf` preserves the truth table and yields a conjunctive normal form -/
theorem toCnf_spec (k : Nat) (c r : CF) : c.IsNNF = true → CF.toCnfF k c = some r →
    (∀ v, r.eval v = c.eval v) ∧ r.IsCNF = true :=
  CF.toCnfF_spec k c r

/-- …and terminates: `weight c` recursion depth suffices, and the result is not heavier -/
theorem toCnf_terminates (c : CF) (k : Nat) : c.IsNNF = true → c.weight ≤ k →
    ∃ r, CF.toCnfF k c = some r ∧ r.weight ≤ c.weight :=
  CF.toCnfF_weight c k

/-- stage 4: `to_clauses` never hits its assertions on a CNF; the clause list means the same; no
clause is empty and no literal is `0` -/
theorem toClauses_spec (c : CF) : c.IsCNF = true →
    ∃ cls, CF.toClauses c = some cls ∧ (∀ v, Res.evalClauses v cls = c.eval v) ∧
      (∀ cl ∈ cls, cl ≠ []) ∧ (∀ cl ∈ cls, NoZero cl) :=
  CF.toClauses_spec c

/-- resolution derives only consequences -/
theorem resolvable_sound (c1 c2 : List Int) (r : Int) (res : List Int) (v : Nat → Bool) :
    NoZero c2 → resolvable c1 c2 = some (r, res) → evalClause v c1 = true →
    evalClause v c2 = true → evalClause v res = true :=
  Res.resolvable_sound c1 c2 r res v

/-- a refutation is a refutation -/
theorem refutation_sound (fuel : Nat) (cls : List (List Int)) :
    Res.start fuel cls = some (some false) → ¬ ∃ v, evalClauses v cls = true :=
  Res.start_sound_false fuel cls

/-- "all clauses are trivial" means valid -/
theorem all_trivial_valid (fuel : Nat) (cls : List (List Int)) (hz : ∀ cl ∈ cls, NoZero cl) :
    Res.start fuel cls = some (some true) → ∀ v, evalClauses v cls = true :=
  Res.start_sound_true fuel cls hz

/-- completeness of the saturation: if it finishes without deriving the empty clause, the clause set
is satisfiable (and, some clause being non-trivial, also falsifiable) -/
theorem saturation_complete (fuel : Nat) (cls : List (List Int)) (hne : ∀ cl ∈ cls, cl ≠ [])
    (hz : ∀ cl ∈ cls, NoZero cl) :
    Res.start fuel cls = some none →
    (∃ v, evalClauses v cls = true) ∧ (∃ v, evalClauses v cls = false) :=
  Res.start_complete fuel cls hne hz

/-- the verdict of `prove_tautology`: `True` only for tautologies, `False` only for contradictions,
"declined" only for contingent patterns -/
theorem prover_decides (fuel : Nat) (f : Form) :
    (proveTautology fuel f = some (some true) → ∀ v, f.eval v = true) ∧
    (proveTautology fuel f = some (some false) → ∀ v, f.eval v = false) ∧
    (proveTautology fuel f = some none → (∃ v, f.eval v = true) ∧ (∃ v, f.eval v = false)) :=
  _root_.prover_decides fuel f

/-- every class and every method of the data slice is covered by the translator -/
theorem prover_translated : Gen.PyTaut.translated = true := TautTie.translated

open Gen.PyTaut TautTie in
/-- the prover as written is the model, stage by stage (`ofCF` embeds the model's normal forms in the generated class
hierarchy; `depth` / `Form.size` bound the recursion depth; components 2 and 3 of the results are the opaque proofs):
`to_conj_form`, `propag_neg`, `to_cnf` (at EVERY fuel), `to_clauses`, `resolvable`, `is_trivial_clause` are EQUAL to the
model's functions, raises included; `start_resolution_algorithm` (the saturation loop over clause pairs with its hint
bookkeeping and the reconstruction from the hint) and `prove_tautology` give the model's verdict in both directions:
whatever they answer (at any fuel) the model answers at every sufficient fuel, and whatever the model answers they answer
at every sufficient fuel — in particular none of their assertions fails.  (Clauses without the literal `0`.) -/
theorem prover_text_is_the_model :
    (∀ (f : Form) (n : Nat), f.size ≤ n →
      to_conj_form n f = some (ofCF (CF.ofForm f), (), if (CF.ofForm f).isBot then none else some ())) ∧
    (∀ (c : CF) (n : Nat), depth c ≤ n → propag_neg n (ofCF c) = (CF.propagNeg c).map fun r => (ofCF r, (), ())) ∧
    (∀ (k : Nat) (c : CF), to_cnf k (ofCF c) = (CF.toCnfF k c).map fun r => (ofCF r, (), ())) ∧
    (∀ (c : CF) (n : Nat), depth c ≤ n → to_clauses n (ofCF c) = (CF.toClauses c).map fun r => (r, (), ())) ∧
    (∀ c1 c2 : List Int, Gen.PyTaut.resolvable c1 c2 = some (Res.resolvable c1 c2)) ∧
    (∀ c : List Int, NoZero c → is_trivial_clause c = some (Res.trivial c)) ∧
    (∀ (F : Nat) (cls : List (List Int)) (v : Option (Bool × Unit)), (∀ cl ∈ cls, NoZero cl) →
      start_resolution_algorithm F cls = some v → ∃ n, ∀ m, Res.start (n + m) cls = some (v.map (·.1))) ∧
    (∀ (F : Nat) (cls : List (List Int)) (x : Option Bool), (∀ cl ∈ cls, NoZero cl) →
      Res.start F cls = some x → ∃ F', ∀ G, F' ≤ G → start_resolution_algorithm G cls = some (x.map fun b => (b, ()))) ∧
    (∀ (F : Nat) (f : Form) (v : Option (Bool × Unit)), prove_tautology F f = some v →
      ∃ n, ∀ m, proveTautology (n + m) f = some (v.map (·.1))) ∧
    (∀ (F : Nat) (f : Form) (x : Option Bool), proveTautology F f = some x →
      ∃ F', ∀ G, F' ≤ G → prove_tautology G f = some (x.map fun b => (b, ()))) :=
  ⟨to_conj_form_eq, fun c n h => propag_neg_eq c n h, to_cnf_eq, to_clauses_eq, resolvable_eq, is_trivial_clause_eq,
    fun F cls v hz h => start_sound F cls hz v h, fun F cls x hz h => start_complete F cls hz x h,
    prove_tautology_sound, prove_tautology_complete⟩

open Gen.PyTaut in
/-- `prover_decides` for the prover AS WRITTEN: whatever fuel it is run with, the verdict `(True, _)` is given only for
tautologies, `(False, _)` only for contradictions, `None` ("declined") only for contingent patterns -/
theorem prover_text_decides (fuel : Nat) (f : Form) :
    (∀ u, prove_tautology fuel f = some (some (true, u)) → ∀ v, f.eval v = true) ∧
    (∀ u, prove_tautology fuel f = some (some (false, u)) → ∀ v, f.eval v = false) ∧
    (prove_tautology fuel f = some none → (∃ v, f.eval v = true) ∧ (∃ v, f.eval v = false)) := by
  refine ⟨fun u h => ?_, fun u h => ?_, fun h => ?_⟩
  · obtain ⟨n, hn⟩ := TautTie.prove_tautology_sound fuel f _ h
    exact (_root_.prover_decides (n + 0) f).1 (hn 0)
  · obtain ⟨n, hn⟩ := TautTie.prove_tautology_sound fuel f _ h
    exact (_root_.prover_decides (n + 0) f).2.1 (hn 0)
  · obtain ⟨n, hn⟩ := TautTie.prove_tautology_sound fuel f _ h
    exact (_root_.prover_decides (n + 0) f).2.2 (hn 0)

/-! ## the proof objects of the stages -/

/-- every stage function, with ALL its statements, is covered by the translator -/
theorem stage_proofs_translated : Gen.Stage.translated = true := StageThm.translated

open StageThm StageSup TautTie in
/-- stage 1, proof objects: on every propositional pattern `f` (recursion depth ≥ its size) `to_conj_form` as written returns
the model's normal form with proofs of `pat -> new` and `new -> pat`; for Top / Bottom a single proof, of `pat` / `neg(pat)` -/
theorem stage_proofs_conj_form (f : Form) (n : Nat) (hn : f.size ≤ n) :
    ∃ (t1 : Lem.GTh) (o2 : Option Lem.GTh),
      Gen.Stage.to_conj_form algGS n f = some (ofCF (CF.ofForm f), t1, o2) ∧
      (if (CF.ofForm f).isBot then
        o2 = none ∧ Proves t1 (if (CF.ofForm f).negated then toPat f else Lem.negP (toPat f))
      else
        Proves t1 (.imp (toPat f) (cfPat (ofCF (CF.ofForm f)))) ∧
          ∃ t2, o2 = some t2 ∧ Proves t2 (.imp (cfPat (ofCF (CF.ofForm f))) (toPat f))) :=
  StageThm.to_conj_form_proofs f n hn

open StageThm StageSup TautTie in
/-- stage 2, proof objects: on every OR/negation tree `propag_neg` as written returns the model's negation normal form with
proofs of both implications between `conj_to_pattern(in)` and `conj_to_pattern(out)` -/
theorem stage_proofs_propag_neg (c : CF) (n : Nat) (hn : depth c ≤ n) (hc : c.IsOrTree = true) :
    ∃ (r : CF) (t1 t2 : Lem.GTh), CF.propagNeg c = some r ∧ r.IsNNF = true ∧
      Gen.Stage.propag_neg algGS n (ofCF c) = some (ofCF r, t1, t2) ∧
      Proves t1 (.imp (cfPat (ofCF c)) (cfPat (ofCF r))) ∧ Proves t2 (.imp (cfPat (ofCF r)) (cfPat (ofCF c))) := by
  obtain ⟨r, hr, _, hs⟩ := CF.propagNeg_spec c hc
  obtain ⟨t1, t2, h⟩ := StageThm.propag_neg_proofs c r n hn hr
  exact ⟨r, t1, t2, hr, hs, h⟩

open StageThm StageSup TautTie in
/-- stage 3, proof objects: on every negation normal form, with `weight c` fuel, `to_cnf` as written returns the model's
conjunctive normal form with proofs of both implications -/
theorem stage_proofs_cnf (c : CF) (k : Nat) (hc : c.IsNNF = true) (hk : c.weight ≤ k) :
    ∃ (r : CF) (t1 t2 : Lem.GTh), CF.toCnfF k c = some r ∧ r.IsCNF = true ∧
      Gen.Stage.to_cnf algGS k (ofCF c) = some (ofCF r, t1, t2) ∧
      Proves t1 (.imp (cfPat (ofCF c)) (cfPat (ofCF r))) ∧ Proves t2 (.imp (cfPat (ofCF r)) (cfPat (ofCF c))) := by
  obtain ⟨r, hr, _⟩ := CF.toCnfF_weight c k hc hk
  obtain ⟨t1, t2, h⟩ := StageThm.to_cnf_proofs c r k hc hr
  exact ⟨r, t1, t2, hr, (CF.toCnfF_spec k c r hc hr).2, h⟩

open StageThm StageSup TautTie in
/-- stage 4, proof objects: on every conjunctive normal form `to_clauses` as written returns the model's clause list with
proofs of both implications between `conj_to_pattern(in)` and `clause_conjunctionto_pattern(out)` -/
theorem stage_proofs_clauses (c : CF) (n : Nat) (hn : depth c ≤ n) (hc : c.IsCNF = true) :
    ∃ (cls : List (List Int)) (t1 t2 : Lem.GTh), CF.toClauses c = some cls ∧
      Gen.Stage.to_clauses algGS n (ofCF c) = some (cls, t1, t2) ∧
      Proves t1 (.imp (cfPat (ofCF c)) (clausesPat cls)) ∧ Proves t2 (.imp (clausesPat cls) (cfPat (ofCF c))) := by
  obtain ⟨cls, hr, _⟩ := CF.toClauses_spec c hc
  obtain ⟨t1, t2, h⟩ := StageThm.to_clauses_proofs c cls n hn hc hr
  exact ⟨cls, t1, t2, hr, h⟩

open StageThm StageSup in
/-- `start_resolution_algorithm` as written, proof objects, at ANY fuel: verdict `True` comes with a proof of the clause
conjunction (`top_intro`; the proofs of the trivial clauses conjoined by a RIGHT fold of `and_intro`), verdict `False` with a
proof that the clause conjunction implies ⊥ — given what `prove_trivial_clause` and `build_proof_from_hint` promise
(`PtcSpec`, `BpfhSpec`: their proof objects — the clause utilities and the reconstruction from the hint — are NOT translated;
the check replays them per sample) -/
theorem resolution_proof_conclusion
    (ptc : Nat → List Int → Option Lem.GTh)
    (bpfh : Nat → Hint → TautSup.FrozenSet → List (List Int) → Option (List Int × Lem.GTh))
    (hp : PtcSpec ptc) (hb : BpfhSpec bpfh) (F : Nat) (cls : List (List Int)) (b : Bool) (th : Lem.GTh)
    (h : Gen.Stage.start_resolution_algorithm algGS ptc bpfh F cls = some (some (b, th))) :
    Proves th (if b then clausesPat cls else .imp (clausesPat cls) Lem.botP) :=
  StageThm.start_resolution_algorithm_proofs ptc bpfh hp hb F cls b th h

open StageThm StageSup in
/-- the final assembly: at ANY fuel, whatever `prove_tautology` as written returns with verdict `True` proves literally the
pattern, with verdict `False` literally its negation (same two hypotheses) -/
theorem prover_proof_conclusion_is_literal
    (ptc : Nat → List Int → Option Lem.GTh)
    (bpfh : Nat → Hint → TautSup.FrozenSet → List (List Int) → Option (List Int × Lem.GTh))
    (hp : PtcSpec ptc) (hb : BpfhSpec bpfh) (n : Nat) (f : Form) (b : Bool) (th : Lem.GTh)
    (h : Gen.Stage.prove_tautology algGS ptc bpfh n f = some (some (b, th))) :
    Proves th (if b then toPat f else Lem.negP (toPat f)) :=
  StageThm.prove_tautology_proofs ptc bpfh hp hb n f b th h

open StageThm StageSup TautTie in
/-- the data component of the generated stage functions is the data slice (same source text, read twice) -/
theorem stage_data_is_the_data_slice :
    (∀ (f : Form) (n : Nat), f.size ≤ n →
      (Gen.Stage.to_conj_form algGS n f).map (fun r => (r.1, (), r.2.2.map fun _ => ())) = Gen.PyTaut.to_conj_form n f) ∧
    (∀ (c r : CF) (n : Nat), depth c ≤ n → CF.propagNeg c = some r →
      (Gen.Stage.propag_neg algGS n (ofCF c)).map erase3 = Gen.PyTaut.propag_neg n (ofCF c)) ∧
    (∀ (c r : CF) (k : Nat), c.IsNNF = true → CF.toCnfF k c = some r →
      (Gen.Stage.to_cnf algGS k (ofCF c)).map erase3 = Gen.PyTaut.to_cnf k (ofCF c)) ∧
    (∀ (c : CF) (cls : List (List Int)) (n : Nat), depth c ≤ n → c.IsCNF = true → CF.toClauses c = some cls →
      (Gen.Stage.to_clauses algGS n (ofCF c)).map erase3 = Gen.PyTaut.to_clauses n (ofCF c)) :=
  ⟨StageThm.to_conj_form_data, StageThm.propag_neg_data, StageThm.to_cnf_data, StageThm.to_clauses_data⟩

end C09
