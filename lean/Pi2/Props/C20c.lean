import Pi2.KoreText
import Pi2.KModMemo
import Pi2.KModMemoEx
import Pi2.Props.C20b
import Pi2.Props.C08b
/-!
# C20 (acceptance, from the TEXTS) — the module the translated generator builds is accepted by the translated checker

The hypotheses `traceF … = some (some st)` and `PModule.executeFull {} n st.module = some (some (s, calls))` of
`k_module_bytes_accepted` / `k_module_sound` (`Pi2/Props/C20b.lean`) are replaced by their text-side counterparts:

* `ExecutionProofExp.from_proof_hints` **as translated** (`Pi2/Gen/PyKore.lean`) returns the object `e'`
  (text → model: `KoreTie.from_proof_hints_eq`, packaged as `KMod.from_proof_hints_model`; the hypothesis
  `AllRewriting` of that tie is itself derived from the text returning, `KMod.allRewriting_of_text`);
* `ProofExp.execute_full` **as translated** (`Pi2/Gen/PyProof.lean`), on the `ProofExp` of the module of `e'` (its thunks
  built by the translated rule constructors, `buildAll`), running on `StatefulInterpreter` **as translated**
  (`Pi2/Gen/PyInterp.lean`), returns the state `s` and the history `calls`
  (text → model: `C03.phases_text_on_stateful_text_is_the_model`, unconditional for dicts with distinct keys).

**The module of the Python object.** `KMod.execModule e' = PModule.mk e'._axioms e'._claims e'._proof_expressions kImports`:
the three `ProofExp` fields `rewrite_event` fills, and the modules `ExecutionProofExp.__init__` imports (`kImports`:
`Substitution()` with `func_subst_axiom`, `KoreLemmas()` → `Definedness()` with `ceil(x0)`).  The tie gives
`e' = withSt (ExecutionProofExp.__init__ sem c₀) st` for the model state `st`, so `execModule e' = st.module`
definitionally (`KMod.execModule_withSt`) and `e'._claims = st.claims`.

The only remaining hypothesis that is not about a text returning is the decidable fragment condition `KSteps` on the
steps of the hints (rules and substitution values in the propositional fragment, distinct keys, `x0` fresh in the
values); `k_pipeline_text_module_accepted` starts one step earlier, at a Kore definition and an LLVM hint stream, and
`k_pipeline_ground_text_module_accepted` DERIVES the fragment condition there from the stream being ground.

**B. the memoising serialisation** (`k_module_memo_accepted`, `…_bytes_accepted`, `…_u8_accepted`, `…_sound`,
`k_trace_text_module_memo_accepted`): for EVERY suggestion set.  The obstacle named in `Pi2/Props/C20b.lean` — `load`
needs `==` to be truthful on the constrained metavariable — is removed by `NPat.peqF_expand_QF` (`Pi2/KModEq.lean`):
`==` decides equality of expansions on every pattern whose substitution nodes are meta-headed and outside notation nodes,
whatever the metavariables' constraints (`eq_truthful_on_quiet`; boundary: `Example.quiet_boundary`).  The compilation of
patterns and the three loops of `execute_full` are redone for an arbitrary configuration in `Pi2/KModMemo.lean`.

**Non-vacuity** (`C20.Example`, all by `decide +kernel`): the two-step trace from the texts (`text_accepted`, `text_sound`),
from a Kore definition and a hint stream (`pipeline_accepted`, `pipeline_ground_accepted`), through the memoising
serialiser with `S = ∅` and with `S = {phi0 with x0 fresh}` — one `Save` and two `Load`s of the constrained
metavariable (`memo_accepted`; evaluated through `KMod.executeFullP`, `Pi2/KModMemoEx.lean`, because `NPat.seq` is
defined by well-founded recursion) — and through the translated `MemoizingInterpreter` (`text_memo_accepted`).
-/
set_option linter.unusedVariables false
namespace C20
open Kore KMod PySt EndToEnd PyI PyK Gen.PyProof ProofTie ComposeTie KoreTie

/-- what acceptance means for the module of the object `e'` and a run `(s, calls)` of `execute_full` on it: the history
replays to three instruction lists, the translated serializer writes their encodings, the model checker on bytes accepts
them and publishes the declaration — every symbol named by its position in the serializer's table —, `verify` of
`rust/src/lib.rs` as translated accepts them from every initial content of its registers; every claim is discharged -/
def KAccepted (n : Nat) (e' : PyExec) (s : PySt) (calls : List Call) (g c p : List Instr) : Prop :=
  s.claims = [] ∧
  PySt.trackAll n (PySt.init e'._claims) calls ([], [], []) = some (some (s, (g, c, p))) ∧
  writeAll n (PySt.init e'._claims) calls ([], [], []) = some (some (s, (encode g, encode c, encode p))) ∧
  verifyBytes (encode g) (encode c) (encode p)
    = some ((execModule e').gammaAxioms.map (fun a => Pat.ren (fun nm => s.symtab.idxOf nm) a.expand),
        e'._claims.reverse.map (fun a => Pat.ren (fun nm => s.symtab.idxOf nm) a.expand)) ∧
  Gen.Rust.execTranslated = true ∧
  ∀ r0 : RustExec.RSt, (Gen.Rust.verify (encode g) (encode c) (encode p) r0).isSome = true

/-- the model facts behind the text hypotheses: the state of the trace, the fragment invariant -/
theorem text_to_model (n0 : Nat) (sem : PySem) (hints : List PyHint) (e' : PyExec)
    (htrace : Gen.PyKore.ExecutionProofExp.from_proof_hints n0 hints sem = some (some (some e'))) :
    ∃ h0 hs st, hints = h0 :: hs ∧
      traceF sem.sg n0 (initSt h0.configuration_before) (hints.map stepOf) = some (some st) ∧
      execModule e' = st.module ∧ e'._claims = st.claims ∧ e'._axioms = st.axioms ∧
      e'._proof_expressions = st.proofs := by
  obtain ⟨h0, hs, rfl⟩ := hints_ne_nil_of_text n0 sem hints e' htrace
  have hall := allRewriting_of_text n0 sem _ _ htrace
  obtain ⟨st, hst, rfl⟩ := from_proof_hints_model n0 sem h0 hs hall e' htrace
  exact ⟨h0, hs, st, rfl, hst, rfl, rfl, rfl, rfl⟩

/-- **1. from the texts** (plain serialisation).  If the translated `from_proof_hints` returns the object `e'` for a
hint list whose steps are in the fragment, and the translated `execute_full` on the translated `StatefulInterpreter`
returns `(s, calls)` for the module of `e'`, then for some fuel the history replays to three instruction lists whose
encodings the translated serializer writes and which `verifyBytes` and the translated Rust `verify` accept, publishing
the declaration of the module; every claim is discharged -/
theorem k_trace_text_module_accepted (n0 N : Nat) (sem : PySem) (hints : List PyHint) (e' : PyExec)
    (htrace : Gen.PyKore.ExecutionProofExp.from_proof_hints n0 hints sem = some (some (some e')))
    (hfrag : KSteps (hints.map stepOf) = true)
    (thunks : List (ProofThunk ProofTie.St)) (f : PModule → List (ProofThunk ProofTie.St)) (s : PySt) (calls : List Call)
    (hb : buildAll N e'._axioms e'._proof_expressions = some (some thunks))
    (hx : ProofExp.execute_full N (expOf thunks f (execModule e')) (statefulK N N) (PySt.init e'._claims, [])
      = some (some (s, calls))) :
    ∃ n g c p, KAccepted n e' s calls g c p := by
  obtain ⟨h0, hs, st, rfl, hst, hm, hc, ha, hp⟩ := text_to_model n0 sem hints e' htrace
  have hinv := trace_inv sem.sg n0 _ _ st hfrag (kinv_init _) hst
  have hk : ∀ pf ∈ (execModule e').proofsOf, KeysNodup pf := by
    intro pf hpf
    rw [hm] at hpf
    exact (hinv.proofs pf hpf).keysNodup
  obtain ⟨n, hex⟩ := (C03.phases_text_on_stateful_text_is_the_model N (execModule e') hk).2 thunks f (s, calls) hb hx
  rw [hm] at hex
  obtain ⟨hfin, _⟩ := k_module_accepted sem.sg n0 n _ _ st s calls hst hfrag hex
  obtain ⟨g, c, p, hT, hW, hv, htr, hr⟩ := k_module_bytes_accepted sem.sg n0 n _ _ st s calls hst hfrag hex
  refine ⟨n, g, c, p, hfin, ?_, ?_, ?_, htr, hr⟩
  · rw [hc]; exact hT
  · rw [hc]; exact hW
  · rw [hm, hc]; exact hv

/-- **1 (bytes proper).** if moreover the three streams are wire byte strings (decidable `wireCheck`), they are three
`List UInt8` which the serializer as translated writes and `verify` of `lib.rs` as translated accepts -/
theorem k_trace_text_module_u8_accepted (n0 N : Nat) (sem : PySem) (hints : List PyHint) (e' : PyExec)
    (htrace : Gen.PyKore.ExecutionProofExp.from_proof_hints n0 hints sem = some (some (some e')))
    (hfrag : KSteps (hints.map stepOf) = true)
    (thunks : List (ProofThunk ProofTie.St)) (f : PModule → List (ProofThunk ProofTie.St)) (s : PySt) (calls : List Call)
    (hb : buildAll N e'._axioms e'._proof_expressions = some (some thunks))
    (hx : ProofExp.execute_full N (expOf thunks f (execModule e')) (statefulK N N) (PySt.init e'._claims, [])
      = some (some (s, calls)))
    (n' : Nat) (hw : wireCheck n' e'._claims calls = true) :
    ∃ (n : Nat) (gb cb pb : List UInt8),
      writeAll n (PySt.init e'._claims) calls ([], [], [])
        = some (some (s, (gb.map UInt8.toNat, cb.map UInt8.toNat, pb.map UInt8.toNat))) ∧
      verifyBytes (gb.map UInt8.toNat) (cb.map UInt8.toNat) (pb.map UInt8.toNat)
        = some ((execModule e').gammaAxioms.map (fun a => Pat.ren (fun nm => s.symtab.idxOf nm) a.expand),
            e'._claims.reverse.map (fun a => Pat.ren (fun nm => s.symtab.idxOf nm) a.expand)) ∧
      ∀ r0 : RustExec.RSt,
        (Gen.Rust.verify (gb.map UInt8.toNat) (cb.map UInt8.toNat) (pb.map UInt8.toNat) r0).isSome = true := by
  obtain ⟨n, g, c, p, _, hT, hW, hvb, _, hr⟩ :=
    k_trace_text_module_accepted n0 N sem hints e' htrace hfrag thunks f s calls hb hx
  obtain ⟨w1, w2, w3⟩ := wireCheck_sound hw hT
  obtain ⟨gb, hg⟩ := wire_is_u8 _ w1
  obtain ⟨cb, hc⟩ := wire_is_u8 _ w2
  obtain ⟨pb, hp⟩ := wire_is_u8 _ w3
  refine ⟨n, gb, cb, pb, ?_, ?_, ?_⟩
  · rw [hg, hc, hp]; exact hW
  · rw [hg, hc, hp]; exact hvb
  · rw [hg, hc, hp]; exact hr

/-- **1 (soundness).** under the same text hypotheses, every claim of the object holds in every model of the axioms of
its module — the imported ones (`func_subst_axiom`, `ceil(x0)`), the rules and the functional assumptions — through the
bytes and `verify` of `lib.rs` as translated (`C01.rust_verify_text_sound`) -/
theorem k_trace_text_module_sound (n0 N : Nat) (sem : PySem) (hints : List PyHint) (e' : PyExec)
    (htrace : Gen.PyKore.ExecutionProofExp.from_proof_hints n0 hints sem = some (some (some e')))
    (hfrag : KSteps (hints.map stepOf) = true)
    (thunks : List (ProofThunk ProofTie.St)) (f : PModule → List (ProofThunk ProofTie.St)) (s : PySt) (calls : List Call)
    (hb : buildAll N e'._axioms e'._proof_expressions = some (some thunks))
    (hx : ProofExp.execute_full N (expOf thunks f (execModule e')) (statefulK N N) (PySt.init e'._claims, [])
      = some (some (s, calls)))
    (𝔐 : Model) (hΓ : ∀ a ∈ (execModule e').gammaAxioms, ValidM 𝔐 a.expand) :
    ∀ q ∈ e'._claims, ValidM 𝔐 q.expand := by
  obtain ⟨h0, hs, st, rfl, hst, hm, hc, ha, hp⟩ := text_to_model n0 sem hints e' htrace
  have hinv := trace_inv sem.sg n0 _ _ st hfrag (kinv_init _) hst
  have hk : ∀ pf ∈ (execModule e').proofsOf, KeysNodup pf := by
    intro pf hpf
    rw [hm] at hpf
    exact (hinv.proofs pf hpf).keysNodup
  obtain ⟨n, hex⟩ := (C03.phases_text_on_stateful_text_is_the_model N (execModule e') hk).2 thunks f (s, calls) hb hx
  rw [hm] at hex hΓ
  rw [hc]
  exact k_module_sound sem.sg n0 n _ _ st s calls hst hfrag hex 𝔐 hΓ

/-! ## 2. one step earlier: a Kore definition and an LLVM hint stream -/
section Pipeline
open PyM Gen.PyKDef KDefSpec KDefTie

/-- **2. from a Kore definition and a hint stream, all translated text.**  If `LanguageSemantics.from_kore_definition`
returns a semantics `ls` for a definition of the one-module fragment, `get_proof_hints` turns the stream into the hints
(leaving the semantics `ls'`), `ExecutionProofExp.from_proof_hints` on them returns the object `e'`, and `execute_full`
on the translated `StatefulInterpreter` returns for the module of `e'`, then the bytes are accepted by both checkers.
The steps of the fragment condition are the specification's steps of the stream (`traceStepsR`), which the hints are. -/
theorem k_pipeline_text_module_accepted (so : SetOrder) (hso : so.Valid) (n n0 N : Nat) (d : KDefinition)
    (hf : InFragment d) (tr : PyLLVMTrace) (ls ls' : PyLS) (hints : List PyHint) (e' : PyExec)
    (h1 : LanguageSemantics.from_kore_definition so (n + 2) d = ret ls)
    (h2 : get_proof_hints (n + 2) ls tr = ret (ls', hints))
    (htrace : Gen.PyKore.ExecutionProofExp.from_proof_hints n0 hints (semView ls') = some (some (some e')))
    (hfrag : KSteps (hints.map stepOf) = true)
    (thunks : List (ProofThunk ProofTie.St)) (f : PModule → List (ProofThunk ProofTie.St)) (s : PySt) (calls : List Call)
    (hb : buildAll N e'._axioms e'._proof_expressions = some (some thunks))
    (hx : ProofExp.execute_full N (expOf thunks f (execModule e')) (statefulK N N) (PySt.init e'._claims, [])
      = some (some (s, calls))) :
    (∃ ds init rules' steps, sigOfDefinition d = some ds ∧ traceStepsR ds tr = some (init, rules', steps) ∧
      hints = steps.map hintOf ∧ (semView ls').sg = ds.sg ∧ hints.map stepOf = modelSteps steps ∧
      ∃ st, traceF ds.sg n0 (initSt init) (modelSteps steps) = some (some st) ∧ execModule e' = st.module) ∧
    ∃ m g c p, KAccepted m e' s calls g c p := by
  refine ⟨?_, k_trace_text_module_accepted n0 N _ hints e' htrace hfrag thunks f s calls hb hx⟩
  obtain ⟨ds, init, rules', steps, hd, ht, hh, hsg, hms⟩ := pipeline_model so hso n d hf tr ls ls' hints h1 h2
  refine ⟨ds, init, rules', steps, hd, ht, hh, hsg, hms, ?_⟩
  obtain ⟨h0, hs, st, he, hst, hm, _⟩ := text_to_model n0 _ hints e' htrace
  refine ⟨st, ?_, hm⟩
  have hsg' : (semView ls').sg = ds.sg := hsg
  rw [hsg', hms] at hst
  -- the configuration before the first hint is the initial configuration of the stream
  cases steps with
  | nil => rw [hh] at he; cases he
  | cons s0 ss =>
    have hinit : h0.configuration_before = init := by
      rw [hh] at he
      simp only [List.map_cons, List.cons.injEq] at he
      rw [← he.1]
      simp only [traceStepsR, Option.bind_eq_bind, Option.bind_eq_some_iff, Option.pure_def, Option.some.injEq,
        Prod.mk.injEq] at ht
      obtain ⟨i0, _, ⟨rs, sts⟩, hsf, rfl, rfl, rfl⟩ := ht
      exact stepsF_first hsf
    rw [hinit] at hst
    exact hst

/-- **2 (no fragment hypothesis).**  The same with the fragment condition DERIVED: if the substitutions of the rule events of
the stream are ground (`GroundStream`: what an execution trace records), the steps are in the fragment — the rules
because they are conversions (`conv_PF`), the substitutions because they are conversions of ground substitutions
(`convertSubst_ok`).  Every remaining hypothesis says that a translated function returns. -/
theorem k_pipeline_ground_text_module_accepted (so : SetOrder) (hso : so.Valid) (n n0 N : Nat) (d : KDefinition)
    (hf : InFragment d) (tr : PyLLVMTrace) (ls ls' : PyLS) (hints : List PyHint) (e' : PyExec)
    (h1 : LanguageSemantics.from_kore_definition so (n + 2) d = ret ls)
    (h2 : get_proof_hints (n + 2) ls tr = ret (ls', hints))
    (htrace : Gen.PyKore.ExecutionProofExp.from_proof_hints n0 hints (semView ls') = some (some (some e')))
    (hg : GroundStream tr)
    (thunks : List (ProofThunk ProofTie.St)) (f : PModule → List (ProofThunk ProofTie.St)) (s : PySt) (calls : List Call)
    (hb : buildAll N e'._axioms e'._proof_expressions = some (some thunks))
    (hx : ProofExp.execute_full N (expOf thunks f (execModule e')) (statefulK N N) (PySt.init e'._claims, [])
      = some (some (s, calls))) :
    (∃ m g c p, KAccepted m e' s calls g c p) ∧
    ∀ 𝔐 : Model, (∀ a ∈ (execModule e').gammaAxioms, ValidM 𝔐 a.expand) → ∀ q ∈ e'._claims, ValidM 𝔐 q.expand := by
  obtain ⟨ds, init, rules', steps, hd, ht, hh, hsg, hms⟩ := pipeline_model so hso n d hf tr ls ls' hints h1 h2
  have hfrag : KSteps (hints.map stepOf) = true := by
    rw [hms]; exact ksteps_of_ground d ds tr init rules' steps hd ht hg
  exact ⟨k_trace_text_module_accepted n0 N _ hints e' htrace hfrag thunks f s calls hb hx,
    fun 𝔐 hΓ => k_trace_text_module_sound n0 N _ hints e' htrace hfrag thunks f s calls hb hx 𝔐 hΓ⟩

end Pipeline

/-! ## B. the memoising serialisation

`serialize(optimize=True)` runs `execute_full` on `MemoizingInterpreter(serializer, S)`: a pattern that is `==` to a
memory entry is `load`ed, a pattern of the suggestion set `S` is `save`d after it has been built.  The entry found has to
have the expansion of the pattern asked for; `==` (`NPat.peqF`) was known to be truthful on *shaped* patterns only, and
the metavariable `phi0` with `x0` fresh of `functional` / `func_subst_axiom` is not shaped.

`NPat.peqF_expand_QF` (`Pi2/KModEq.lean`): `==` is truthful on *quiet* patterns (`NPat.QF`) — substitution nodes
meta-headed and OUTSIDE notation nodes, no condition at all on metavariables.  Every pattern that `execute_full` of a K
module hands to `pattern` is quiet (`KMod.KAx.gaxq`, `KMod.kImports_gaxq`, `KMod.PF.qf`), so NO hypothesis on `S` is
needed: the theorems hold for every suggestion set. -/

/-- Python's `==` on quiet patterns decides equality of the expansions — whatever the constraints of the
metavariables; in particular on every sub-pattern of `functional(v)` and of `func_subst_axiom` -/
theorem eq_truthful_on_quiet (n : Nat) (a b : NPat) (r : Bool) (ha : a.QF = true) (hb : b.QF = true)
    (h : NPat.peqF n a b = some r) : r = decide (a.expand = b.expand) :=
  NPat.peqF_expand_QF n a b r ha hb h

/-- the patterns of a K module are quiet; the constrained metavariable and the definition of `functional` are not
shaped (so `NPat.peqF_expand` does not apply to them) -/
theorem k_patterns_quiet :
    (∀ p : NPat, p.PF = true → p.QF = true) ∧
    (∀ v : NPat, v.PF = true → (NPat.inst fnDef [(0, v)]).QF = true) ∧
    funcSubstAxiom.QF = true ∧ definednessAxiom.QF = true ∧
    (NPat.mv 0 [0] [] [] [] []).QF = true ∧ (NPat.mv 0 [0] [] [] [] []).Shape = false ∧
    fnDef.Shape = false ∧ funcSubstAxiom.Shape = false := by
  refine ⟨fun p hp => PF.qf hp, fun v hv => ?_, imports_qf.1, imports_qf.2.1, rfl, rfl, ?_, ?_⟩
  · simp [NPat.QF, imports_qf.2.2, NPat.SubFreeMap, PF.subFree v hv]
  · decide +kernel
  · decide +kernel

/-- **B (side conditions, acceptance).** for every configuration `cfg` of the serialiser — plain, or memoising with ANY
suggestion set — the run of `execute_full` on the module of a trace of the fragment satisfies the checker's side
conditions, replays to three instruction lists that the reference machine accepts, discharges every claim, and the
journal is the declaration (symbols named by position) -/
theorem k_module_cfg_accepted (cfg : PySt.Cfg) (sg : Sig) (n0 n : Nat) (init : NPat)
    (steps : List (NPat × List (Nat × NPat))) (st : ExecSt) (s : PySt) (calls : List Call)
    (htrace : traceF sg n0 (initSt init) steps = some (some st)) (hfrag : KSteps steps = true)
    (hex : PModule.executeFull cfg n st.module = some (some (s, calls))) :
    s.claims = [] ∧ AllSideK n (PySt.init st.claims) calls ∧
    ∃ g c p, PySt.trackAll n (PySt.init st.claims) calls ([], [], []) = some (some (s, (g, c, p))) ∧
      verify g c p = some (st.module.gammaAxioms.map (fun a => Pat.ren (fun nm => s.symtab.idxOf nm) a.expand),
        st.claims.reverse.map (fun a => Pat.ren (fun nm => s.symtab.idxOf nm) a.expand)) :=
  k_module_memo_core cfg sg n0 n init steps st kImports s calls htrace hfrag kImports_gaxq hex _ (agree_idxOf _)

/-- **B.** the memoising serialisation with suggestion set `S` (any) of the K module is accepted -/
theorem k_module_memo_accepted (S : List NPat) (sg : Sig) (n0 n : Nat) (init : NPat)
    (steps : List (NPat × List (Nat × NPat))) (st : ExecSt) (s : PySt) (calls : List Call)
    (htrace : traceF sg n0 (initSt init) steps = some (some st)) (hfrag : KSteps steps = true)
    (hex : PModule.executeFull { memo := some S } n st.module = some (some (s, calls))) :
    s.claims = [] ∧ AllSideK n (PySt.init st.claims) calls ∧
    ∃ g c p, PySt.trackAll n (PySt.init st.claims) calls ([], [], []) = some (some (s, (g, c, p))) ∧
      verify g c p = some (st.module.gammaAxioms.map (fun a => Pat.ren (fun nm => s.symtab.idxOf nm) a.expand),
        st.claims.reverse.map (fun a => Pat.ren (fun nm => s.symtab.idxOf nm) a.expand)) :=
  k_module_cfg_accepted { memo := some S } sg n0 n init steps st s calls htrace hfrag hex

/-- **B (bytes).** the bytes the translated serializer writes along the memoising run are accepted by `verifyBytes` and
by `verify` of `rust/src/lib.rs` as translated -/
theorem k_module_cfg_bytes_accepted (cfg : PySt.Cfg) (sg : Sig) (n0 n : Nat) (init : NPat)
    (steps : List (NPat × List (Nat × NPat))) (st : ExecSt) (s : PySt) (calls : List Call)
    (htrace : traceF sg n0 (initSt init) steps = some (some st)) (hfrag : KSteps steps = true)
    (hex : PModule.executeFull cfg n st.module = some (some (s, calls))) :
    ∃ g c p, PySt.trackAll n (PySt.init st.claims) calls ([], [], []) = some (some (s, (g, c, p))) ∧
      writeAll n (PySt.init st.claims) calls ([], [], []) = some (some (s, (encode g, encode c, encode p))) ∧
      verifyBytes (encode g) (encode c) (encode p)
        = some (st.module.gammaAxioms.map (fun a => Pat.ren (fun nm => s.symtab.idxOf nm) a.expand),
            st.claims.reverse.map (fun a => Pat.ren (fun nm => s.symtab.idxOf nm) a.expand)) ∧
      Gen.Rust.execTranslated = true ∧
      ∀ r0 : RustExec.RSt, (Gen.Rust.verify (encode g) (encode c) (encode p) r0).isSome = true := by
  obtain ⟨_, _, g, c, p, hT, hv⟩ := k_module_cfg_accepted cfg sg n0 n init steps st s calls htrace hfrag hex
  refine ⟨g, c, p, hT, writeAll_of_trackAll_init n calls _ s g c p hT, ?_,
    (C05.rust_verify_is_the_model [] [] [] default).1, fun r0 => rust_accepts_encode g c p _ hv r0⟩
  rw [verifyBytes_encode, hv]

theorem k_module_memo_bytes_accepted (S : List NPat) (sg : Sig) (n0 n : Nat) (init : NPat)
    (steps : List (NPat × List (Nat × NPat))) (st : ExecSt) (s : PySt) (calls : List Call)
    (htrace : traceF sg n0 (initSt init) steps = some (some st)) (hfrag : KSteps steps = true)
    (hex : PModule.executeFull { memo := some S } n st.module = some (some (s, calls))) :
    ∃ g c p, PySt.trackAll n (PySt.init st.claims) calls ([], [], []) = some (some (s, (g, c, p))) ∧
      writeAll n (PySt.init st.claims) calls ([], [], []) = some (some (s, (encode g, encode c, encode p))) ∧
      verifyBytes (encode g) (encode c) (encode p)
        = some (st.module.gammaAxioms.map (fun a => Pat.ren (fun nm => s.symtab.idxOf nm) a.expand),
            st.claims.reverse.map (fun a => Pat.ren (fun nm => s.symtab.idxOf nm) a.expand)) ∧
      Gen.Rust.execTranslated = true ∧
      ∀ r0 : RustExec.RSt, (Gen.Rust.verify (encode g) (encode c) (encode p) r0).isSome = true :=
  k_module_cfg_bytes_accepted { memo := some S } sg n0 n init steps st s calls htrace hfrag hex

/-- **B (bytes proper).** if the three streams are wire byte strings, they are three `List UInt8`, accepted -/
theorem k_module_memo_u8_accepted (S : List NPat) (sg : Sig) (n0 n : Nat) (init : NPat)
    (steps : List (NPat × List (Nat × NPat))) (st : ExecSt) (s : PySt) (calls : List Call)
    (htrace : traceF sg n0 (initSt init) steps = some (some st)) (hfrag : KSteps steps = true)
    (hex : PModule.executeFull { memo := some S } n st.module = some (some (s, calls)))
    (hw : wireCheck n st.claims calls = true) :
    ∃ gb cb pb : List UInt8,
      writeAll n (PySt.init st.claims) calls ([], [], [])
        = some (some (s, (gb.map UInt8.toNat, cb.map UInt8.toNat, pb.map UInt8.toNat))) ∧
      verifyBytes (gb.map UInt8.toNat) (cb.map UInt8.toNat) (pb.map UInt8.toNat)
        = some (st.module.gammaAxioms.map (fun a => Pat.ren (fun nm => s.symtab.idxOf nm) a.expand),
            st.claims.reverse.map (fun a => Pat.ren (fun nm => s.symtab.idxOf nm) a.expand)) ∧
      ∀ r0 : RustExec.RSt,
        (Gen.Rust.verify (gb.map UInt8.toNat) (cb.map UInt8.toNat) (pb.map UInt8.toNat) r0).isSome = true := by
  obtain ⟨g, c, p, hT, hW, hvb, _, hr⟩ := k_module_memo_bytes_accepted S sg n0 n init steps st s calls htrace hfrag hex
  obtain ⟨w1, w2, w3⟩ := wireCheck_sound hw hT
  obtain ⟨gb, hg⟩ := wire_is_u8 _ w1
  obtain ⟨cb, hc⟩ := wire_is_u8 _ w2
  obtain ⟨pb, hp⟩ := wire_is_u8 _ w3
  refine ⟨gb, cb, pb, ?_, ?_, ?_⟩
  · rw [hg, hc, hp]; exact hW
  · rw [hg, hc, hp]; exact hvb
  · rw [hg, hc, hp]; exact hr

/-- **B (soundness).** every claim of the module holds in every model of its axioms, through the bytes of the
memoising serialisation and the checker as written -/
theorem k_module_cfg_sound (cfg : PySt.Cfg) (sg : Sig) (n0 n : Nat) (init : NPat)
    (steps : List (NPat × List (Nat × NPat))) (st : ExecSt) (s : PySt) (calls : List Call)
    (htrace : traceF sg n0 (initSt init) steps = some (some st)) (hfrag : KSteps steps = true)
    (hex : PModule.executeFull cfg n st.module = some (some (s, calls)))
    (𝔐 : Model) (hΓ : ∀ a ∈ st.module.gammaAxioms, ValidM 𝔐 a.expand) :
    ∀ q ∈ st.claims, ValidM 𝔐 q.expand := by
  obtain ⟨_, _, g, c, p, _, hv⟩ := k_module_memo_core cfg sg n0 n init steps st kImports s calls htrace hfrag
    kImports_gaxq hex (rhoInj s.symtab) (rhoInj_agree _)
  have hr := rust_accepts_encode g c p _ hv default
  obtain ⟨_, axs, cls, hvb, hsound⟩ := C01.rust_verify_text_sound _ _ _ default hr
  rw [verifyBytes_encode, hv] at hvb
  simp only [Option.some.injEq, Prod.mk.injEq] at hvb
  obtain ⟨rfl, rfl⟩ := hvb
  intro q hq
  rw [← validM_rhoInj 𝔐 s.symtab]
  apply hsound ⟨𝔐.M, fun t => 𝔐.sym (rhoInv s.symtab t), 𝔐.app⟩
  · intro a ha
    simp only [List.mem_map] at ha
    obtain ⟨a0, h0, rfl⟩ := ha
    exact (validM_rhoInj 𝔐 s.symtab _).mpr (hΓ a0 h0)
  · simp only [List.mem_map, List.mem_reverse]
    exact ⟨q, hq, rfl⟩

theorem k_module_memo_sound (S : List NPat) (sg : Sig) (n0 n : Nat) (init : NPat)
    (steps : List (NPat × List (Nat × NPat))) (st : ExecSt) (s : PySt) (calls : List Call)
    (htrace : traceF sg n0 (initSt init) steps = some (some st)) (hfrag : KSteps steps = true)
    (hex : PModule.executeFull { memo := some S } n st.module = some (some (s, calls)))
    (𝔐 : Model) (hΓ : ∀ a ∈ st.module.gammaAxioms, ValidM 𝔐 a.expand) :
    ∀ q ∈ st.claims, ValidM 𝔐 q.expand :=
  k_module_cfg_sound { memo := some S } sg n0 n init steps st s calls htrace hfrag hex 𝔐 hΓ

/-! ### B, from the texts: `MemoizingInterpreter(StatefulInterpreter, S)` as translated -/

/-- **A + B.** If the translated `from_proof_hints` returns the object `e'` (steps in the fragment) and the translated
`execute_full`, running on the translated `MemoizingInterpreter` over the translated `StatefulInterpreter` with ANY
suggestion set `S` — the object `serialize(optimize=True)` builds —, returns the state `τ` (`τ.sub` = the state of the
wrapped interpreter and the history it received), then the bytes are accepted by both checkers and every claim is
discharged -/
theorem k_trace_text_module_memo_accepted (n0 N : Nat) (S : List NPat) (sem : PySem) (hints : List PyHint) (e' : PyExec)
    (htrace : Gen.PyKore.ExecutionProofExp.from_proof_hints n0 hints sem = some (some (some e')))
    (hfrag : KSteps (hints.map stepOf) = true)
    (thunks : List (ProofThunk (TrSt ProofTie.St))) (f : PModule → List (ProofThunk (TrSt ProofTie.St)))
    (τ : TrSt ProofTie.St)
    (hb : buildAll N e'._axioms e'._proof_expressions = some (some thunks))
    (hx : ProofExp.execute_full N (expOf thunks f (execModule e')) (statefulMemoK N N S)
      (embM (PySt.init e'._claims, [])) = some (some τ)) :
    ∃ n g c p, KAccepted n e' τ.sub.1 τ.sub.2 g c p := by
  obtain ⟨h0, hs, st, rfl, hst, hm, hc, ha, hp⟩ := text_to_model n0 sem hints e' htrace
  have hinv := trace_inv sem.sg n0 _ _ st hfrag (kinv_init _) hst
  have hk : ∀ pf ∈ (execModule e').proofsOf, KeysNodup pf := by
    intro pf hpf
    rw [hm] at hpf
    exact (hinv.proofs pf hpf).keysNodup
  obtain ⟨n, s, calls, hex, rfl⟩ :=
    (C03.memo_phases_text_on_stateful_text_is_the_model N S (execModule e') hk).1.2 thunks f τ hb hx
  rw [hm] at hex
  obtain ⟨hfin, _⟩ := k_module_memo_accepted S sem.sg n0 n _ _ st s calls hst hfrag hex
  obtain ⟨g, c, p, hT, hW, hv, htr, hr⟩ := k_module_memo_bytes_accepted S sem.sg n0 n _ _ st s calls hst hfrag hex
  refine ⟨n, g, c, p, hfin, ?_, ?_, ?_, htr, hr⟩
  · rw [hc]; exact hT
  · rw [hc]; exact hW
  · rw [hm, hc]; exact hv

/-- **A + B (soundness).** -/
theorem k_trace_text_module_memo_sound (n0 N : Nat) (S : List NPat) (sem : PySem) (hints : List PyHint) (e' : PyExec)
    (htrace : Gen.PyKore.ExecutionProofExp.from_proof_hints n0 hints sem = some (some (some e')))
    (hfrag : KSteps (hints.map stepOf) = true)
    (thunks : List (ProofThunk (TrSt ProofTie.St))) (f : PModule → List (ProofThunk (TrSt ProofTie.St)))
    (τ : TrSt ProofTie.St)
    (hb : buildAll N e'._axioms e'._proof_expressions = some (some thunks))
    (hx : ProofExp.execute_full N (expOf thunks f (execModule e')) (statefulMemoK N N S)
      (embM (PySt.init e'._claims, [])) = some (some τ))
    (𝔐 : Model) (hΓ : ∀ a ∈ (execModule e').gammaAxioms, ValidM 𝔐 a.expand) :
    ∀ q ∈ e'._claims, ValidM 𝔐 q.expand := by
  obtain ⟨h0, hs, st, rfl, hst, hm, hc, ha, hp⟩ := text_to_model n0 sem hints e' htrace
  have hinv := trace_inv sem.sg n0 _ _ st hfrag (kinv_init _) hst
  have hk : ∀ pf ∈ (execModule e').proofsOf, KeysNodup pf := by
    intro pf hpf
    rw [hm] at hpf
    exact (hinv.proofs pf hpf).keysNodup
  obtain ⟨n, s, calls, hex, rfl⟩ :=
    (C03.memo_phases_text_on_stateful_text_is_the_model N S (execModule e') hk).1.2 thunks f τ hb hx
  rw [hm] at hex hΓ
  rw [hc]
  exact k_module_memo_sound S sem.sg n0 n _ _ st s calls hst hfrag hex 𝔐 hΓ

end C20


/-! ## non-vacuity: the two-step trace of `C20.Example`, from the texts and through the memoising serialisations -/
namespace C20.Example
open Kore KMod PySt EndToEnd PyI PyK Gen.PyProof ProofTie ComposeTie KoreTie

/-- the semantics object: the signature of the example, no cached scope -/
def sem : PySem := { sg := sg, _cached_axiom_scopes := [] }
def after1 : NPat := (convertPattern sg (cell b)).getD (.sym 0)
def after2 : NPat := (convertPattern sg (cell c)).getD (.sym 0)
/-- the two hints `k(a) =[rule1, X ↦ a]=> k(b) =[rule2]=> k(c)` as `RewriteStepExpression` objects -/
def hints : List PyHint :=
  [{ configuration_before := init, configuration_after := after1, «axiom» := .rewriting ⟨0, rule1⟩, substitutions := σ1 },
   { configuration_before := after1, configuration_after := after2, «axiom» := .rewriting ⟨1, rule2⟩, substitutions := [] }]

/-- the translated `from_proof_hints` returns an object, the steps are in the fragment, the translated `execute_full` on
the translated `StatefulInterpreter` returns for its module, the streams are wire byte strings -/
def textCheckK : Bool :=
  match Gen.PyKore.ExecutionProofExp.from_proof_hints 100 hints sem with
  | some (some (some e')) =>
    KSteps (hints.map stepOf) && decide ((execModule e').gammaAxioms.length = 5) &&
    (match buildAll (τ := ProofTie.St) 100 e'._axioms e'._proof_expressions with
     | some (some thunks) =>
       (match ProofExp.execute_full 100 (expOf thunks (fun _ => []) (execModule e')) (statefulK 100 100)
           (PySt.init e'._claims, []) with
        | some (some r) => wireCheck 100 e'._claims r.2
        | _ => false)
     | _ => false)
  | _ => false

set_option maxRecDepth 100000 in
theorem textCheckK_true : textCheckK = true := by decide +kernel

/-- **all hypotheses of the text theorems hold** for the example -/
theorem text_hypotheses_hold : ∃ (e' : PyExec) (thunks : List (ProofThunk ProofTie.St)) (s : PySt) (calls : List Call),
    Gen.PyKore.ExecutionProofExp.from_proof_hints 100 hints sem = some (some (some e')) ∧
    KSteps (hints.map stepOf) = true ∧ (execModule e').gammaAxioms.length = 5 ∧
    buildAll 100 e'._axioms e'._proof_expressions = some (some thunks) ∧
    ProofExp.execute_full 100 (expOf thunks (fun _ => []) (execModule e')) (statefulK 100 100)
      (PySt.init e'._claims, []) = some (some (s, calls)) ∧
    wireCheck 100 e'._claims calls = true := by
  have h := textCheckK_true
  unfold textCheckK at h
  split at h
  · next e' he =>
    simp only [Bool.and_eq_true, decide_eq_true_eq] at h
    obtain ⟨⟨hk, hl⟩, h⟩ := h
    split at h
    · next thunks hb =>
      split at h
      · next r hr => exact ⟨e', thunks, r.1, r.2, he, hk, hl, hb, hr, h⟩
      · cases h
    · cases h
  · cases h

/-- hence, from the texts: the bytes of the module are accepted by both checkers … -/
theorem text_accepted : ∃ (e' : PyExec) (s : PySt) (calls : List Call) (n : Nat) (g c p : List Instr),
    KAccepted n e' s calls g c p ∧ (execModule e').gammaAxioms.length = 5 := by
  obtain ⟨e', thunks, s, calls, he, hk, hl, hb, hx, _⟩ := text_hypotheses_hold
  obtain ⟨n, g, c, p, h⟩ := k_trace_text_module_accepted 100 100 sem hints e' he hk thunks _ s calls hb hx
  exact ⟨e', s, calls, n, g, c, p, h, hl⟩

/-- … as byte strings proper … -/
theorem text_accepted_u8 : ∃ gb cb pb : List UInt8, ∀ r0 : RustExec.RSt,
    (Gen.Rust.verify (gb.map UInt8.toNat) (cb.map UInt8.toNat) (pb.map UInt8.toNat) r0).isSome = true := by
  obtain ⟨e', thunks, s, calls, he, hk, hl, hb, hx, hw⟩ := text_hypotheses_hold
  obtain ⟨n, gb, cb, pb, _, _, hr⟩ :=
    k_trace_text_module_u8_accepted 100 100 sem hints e' he hk thunks _ s calls hb hx 100 hw
  exact ⟨gb, cb, pb, hr⟩

/-- … and its two claims hold in every model of its five axioms -/
theorem text_sound : ∃ e' : PyExec, e'._claims.length = 2 ∧
    ∀ 𝔐 : Model, (∀ a ∈ (execModule e').gammaAxioms, ValidM 𝔐 a.expand) → ∀ q ∈ e'._claims, ValidM 𝔐 q.expand := by
  obtain ⟨e', thunks, s, calls, he, hk, hl, hb, hx, _⟩ := text_hypotheses_hold
  refine ⟨e', ?_, fun 𝔐 hΓ => k_trace_text_module_sound 100 100 sem hints e' he hk thunks _ s calls hb hx 𝔐 hΓ⟩
  obtain ⟨h0, hs, st, hh, hst, _, hc, _⟩ := text_to_model 100 sem hints e' he
  obtain ⟨insts, hcl, hlen, _⟩ := C20.chain_claims sem.sg 100 _ _ st hst
  rw [hc, hcl]; simp [initSt, hlen, hints]

/-! ### one step earlier: a Kore definition and an LLVM hint stream -/
section Pipeline
open KDefSpec KDefTie

/-- the definition: sort `S`; the cell `k(_)`, the functional constants `a`, `b`, `c`; the rules
`k(X) ∧ ⊤ => k(b) ∧ ⊤` (ordinal 0) and `k(b) ∧ ⊤ => k(c) ∧ ⊤` (ordinal 1) -/
def kdef : KDefinition := ⟨[⟨0, [
  .sortDecl 0 false,
  .symbolDecl 0 [] [S] S [.app (strName "cell") [] []],
  .symbolDecl 1 [] [] S [.app (strName "functional") [] []],
  .symbolDecl 2 [] [] S [.app (strName "functional") [] []],
  .symbolDecl 3 [] [] S [.app (strName "functional") [] []],
  .«axiom» (.rewrites S (.and S (cell (.evar 7)) (.top S)) (.and S (cell b) (.top S))),
  .«axiom» (.rewrites S (.and S (cell b) (.top S)) (.and S (cell c) (.top S)))]⟩]⟩

/-- the hint stream: `k(a)`, rule 0 with `X ↦ a`, `k(b)`, rule 1, `k(c)` -/
def ktrace : PyLLVMTrace :=
  { initial_config := cell a, trace := [.rule 0 [(7, a)], .config (cell b), .rule 1 [], .config (cell c)] }

def pipeCheck : Bool :=
  match Gen.PyKDef.LanguageSemantics.from_kore_definition id 5 kdef with
  | some (some ls) =>
    (match Gen.PyKDef.get_proof_hints 5 ls ktrace with
     | some (some lh) =>
       (match Gen.PyKore.ExecutionProofExp.from_proof_hints 100 lh.2 (semView lh.1) with
        | some (some (some e')) =>
          KSteps (lh.2.map stepOf) && decide (e'._claims.length = 2) &&
          (match buildAll (τ := ProofTie.St) 100 e'._axioms e'._proof_expressions with
           | some (some thunks) =>
             (match ProofExp.execute_full 100 (expOf thunks (fun _ => []) (execModule e')) (statefulK 100 100)
                 (PySt.init e'._claims, []) with
              | some (some r) => wireCheck 100 e'._claims r.2
              | _ => false)
           | _ => false)
        | _ => false)
     | _ => false)
  | _ => false

set_option maxRecDepth 100000 in
theorem pipeCheck_true : pipeCheck = true := by decide +kernel

theorem kdef_inFragment : InFragment kdef := by
  refine ⟨_, rfl, ?_⟩
  intro s hs
  simp only [List.mem_cons, List.not_mem_nil, or_false] at hs
  rcases hs with rfl | rfl | rfl | rfl | rfl | rfl | rfl <;> trivial

/-- **all hypotheses of `k_pipeline_text_module_accepted` hold**: the translated `from_kore_definition` builds the
semantics, the translated `get_proof_hints` reads the stream, the translated `from_proof_hints` builds the object (two
claims), the translated `execute_full` returns — and so the bytes are accepted by both checkers -/
theorem pipeline_accepted : ∃ (e' : PyExec) (s : PySt) (calls : List Call) (n : Nat) (g c p : List Instr),
    KAccepted n e' s calls g c p ∧ e'._claims.length = 2 := by
  have h := pipeCheck_true
  unfold pipeCheck at h
  split at h
  · next ls h1 =>
    split at h
    · next lh h2 =>
      split at h
      · next e' he =>
        simp only [Bool.and_eq_true, decide_eq_true_eq] at h
        obtain ⟨⟨hk, hl⟩, h⟩ := h
        split at h
        · next thunks hb =>
          split at h
          · next r hr =>
            obtain ⟨_, n, g, c, p, hacc⟩ := k_pipeline_text_module_accepted id (fun l => List.Perm.refl l) 3 100 100 kdef
              kdef_inFragment ktrace ls lh.1 lh.2 e' h1 h2 he hk thunks _ r.1 r.2 hb hr
            exact ⟨e', r.1, r.2, n, g, c, p, hacc, hl⟩
          · cases h
        · cases h
      · cases h
    · cases h
  · cases h

theorem ktrace_ground : GroundStream ktrace := by
  intro it hit
  simp only [ktrace, List.mem_cons, List.not_mem_nil, or_false] at hit
  rcases hit with rfl | rfl | rfl | rfl
  · intro kv hkv
    simp only [List.mem_singleton] at hkv
    subst hkv; rfl
  · trivial
  · intro kv hkv; cases hkv
  · trivial

/-- the same through `k_pipeline_ground_text_module_accepted`: no fragment hypothesis, the stream is ground -/
theorem pipeline_ground_accepted : ∃ (e' : PyExec) (s : PySt) (calls : List Call),
    (∃ n g c p, KAccepted n e' s calls g c p) ∧ e'._claims.length = 2 ∧
    ∀ 𝔐 : Model, (∀ a ∈ (execModule e').gammaAxioms, ValidM 𝔐 a.expand) → ∀ q ∈ e'._claims, ValidM 𝔐 q.expand := by
  have h := pipeCheck_true
  unfold pipeCheck at h
  split at h
  · next ls h1 =>
    split at h
    · next lh h2 =>
      split at h
      · next e' he =>
        simp only [Bool.and_eq_true, decide_eq_true_eq] at h
        obtain ⟨⟨hk, hl⟩, h⟩ := h
        split at h
        · next thunks hb =>
          split at h
          · next r hr =>
            obtain ⟨hacc, hsound⟩ := k_pipeline_ground_text_module_accepted id (fun l => List.Perm.refl l) 3 100 100 kdef
              kdef_inFragment ktrace ls lh.1 lh.2 e' h1 h2 he ktrace_ground thunks _ r.1 r.2 hb hr
            exact ⟨e', r.1, r.2, hacc, hl, hsound⟩
          · cases h
        · cases h
      · cases h
    · cases h
  · cases h

end Pipeline

/-! ### the memoising serialisations -/

def checkMemo0 : Bool :=
  match traceF sg 100 (initSt init) steps with
  | some (some st) =>
      (match PModule.executeFull { memo := some [] } 100 st.module with
       | some (some r) => wireCheck 100 st.claims r.2
       | _ => false)
  | _ => false

set_option maxRecDepth 100000 in
theorem checkMemo0_true : checkMemo0 = true := by decide +kernel

def loadsX (c : Call) : Bool := match c with | .load (.pat p) => isX p | _ => false
def isSave (c : Call) : Bool := match c with | .save => true | _ => false

/-- the run with the suggestion set `{phi0 with x0 fresh}` (evaluated through `executeFullP`): it returns, the streams
are wire byte strings, the constrained metavariable is `save`d once and `load`ed twice -/
def checkMemoX : Bool :=
  match traceF sg 100 (initSt init) steps with
  | some (some st) =>
      (match executeFullP isX 100 st.module with
       | some (some r) => wireCheck 100 st.claims r.2 && decide ((r.2.filter loadsX).length = 2) &&
           decide ((r.2.filter isSave).length = 1)
       | _ => false)
  | _ => false

set_option maxRecDepth 100000 in
theorem checkMemoX_true : checkMemoX = true := by decide +kernel

/-- **all hypotheses of the memoising theorems hold**, for the empty suggestion set and for the suggestion set
`{phi0 with x0 fresh}` — in whose run the constrained metavariable, the one pattern outside `Shape`, is saved once and
loaded twice (`memory.index` answers by `phi0 == phi0`) -/
theorem memo_hypotheses_hold : ∃ st, traceF sg 100 (initSt init) steps = some (some st) ∧ KSteps steps = true ∧
    (∃ s calls, PModule.executeFull { memo := some [] } 100 st.module = some (some (s, calls)) ∧
      wireCheck 100 st.claims calls = true) ∧
    (∃ s calls, PModule.executeFull { memo := some [phiX] } 100 st.module = some (some (s, calls)) ∧
      wireCheck 100 st.claims calls = true ∧ (calls.filter loadsX).length = 2 ∧ (calls.filter isSave).length = 1) := by
  obtain ⟨st, s, calls, ht, hk, _⟩ := hypotheses_hold
  refine ⟨st, ht, hk, ?_, ?_⟩
  · have h := checkMemo0_true
    unfold checkMemo0 at h
    rw [ht] at h
    simp only [] at h
    split at h
    · next r hr => exact ⟨r.1, r.2, hr, h⟩
    · cases h
  · have h := checkMemoX_true
    unfold checkMemoX at h
    rw [ht] at h
    simp only [] at h
    split at h
    · next r hr =>
      simp only [Bool.and_eq_true, decide_eq_true_eq] at h
      rw [← executeFullP_eq [phiX] isX seq_X] at hr
      exact ⟨r.1, r.2, hr, h.1.1, h.1.2, h.2⟩
    · cases h

/-- hence the bytes of the memoising serialisation with `S = {phi0 with x0 fresh}` — with its `Save` and its two `Load`s
of the constrained metavariable — are accepted by the model checker and by `verify` of `lib.rs` as translated … -/
theorem memo_accepted : ∃ (st : ExecSt) (s : PySt) (calls : List Call) (gb cb pb : List UInt8),
    PModule.executeFull { memo := some [phiX] } 100 st.module = some (some (s, calls)) ∧
    (calls.filter loadsX).length = 2 ∧
    verifyBytes (gb.map UInt8.toNat) (cb.map UInt8.toNat) (pb.map UInt8.toNat)
      = some (st.module.gammaAxioms.map (fun a => Pat.ren (fun nm => s.symtab.idxOf nm) a.expand),
          st.claims.reverse.map (fun a => Pat.ren (fun nm => s.symtab.idxOf nm) a.expand)) ∧
    ∀ r0 : RustExec.RSt,
      (Gen.Rust.verify (gb.map UInt8.toNat) (cb.map UInt8.toNat) (pb.map UInt8.toNat) r0).isSome = true := by
  obtain ⟨st, ht, hk, _, s, calls, hex, hw, hl, _⟩ := memo_hypotheses_hold
  obtain ⟨gb, cb, pb, _, hv, hr⟩ := k_module_memo_u8_accepted [phiX] sg 100 100 init steps st s calls ht hk hex hw
  exact ⟨st, s, calls, gb, cb, pb, hex, hl, hv, hr⟩

/-- … and the claims hold in every model of the axioms -/
theorem memo_sound : ∃ st : ExecSt, st.claims.length = 2 ∧
    ∀ 𝔐 : Model, (∀ a ∈ st.module.gammaAxioms, ValidM 𝔐 a.expand) → ∀ q ∈ st.claims, ValidM 𝔐 q.expand := by
  obtain ⟨st, ht, hk, _, s, calls, hex, _⟩ := memo_hypotheses_hold
  refine ⟨st, ?_, fun 𝔐 hΓ => k_module_memo_sound [phiX] sg 100 100 init steps st s calls ht hk hex 𝔐 hΓ⟩
  obtain ⟨insts, hc, hlen, _⟩ := C20.chain_claims sg 100 steps _ st ht
  rw [hc]; simp [initSt, hlen, steps]

/-- the translated `execute_full` through the translated `MemoizingInterpreter` over the translated
`StatefulInterpreter` (empty suggestion set: the translated membership test is `NPat.seq` too) returns for the module
of the object the translated `from_proof_hints` built -/
def textCheckKM : Bool :=
  match Gen.PyKore.ExecutionProofExp.from_proof_hints 100 hints sem with
  | some (some (some e')) =>
    (match buildAll (τ := TrSt ProofTie.St) 100 e'._axioms e'._proof_expressions with
     | some (some thunks) =>
       (match ProofExp.execute_full 100 (expOf thunks (fun _ => []) (execModule e')) (statefulMemoK 100 100 [])
           (embM (PySt.init e'._claims, [])) with
        | some (some τ) => wireCheck 100 e'._claims τ.sub.2
        | _ => false)
     | _ => false)
  | _ => false

set_option maxRecDepth 100000 in
theorem textCheckKM_true : textCheckKM = true := by decide +kernel

/-- from the texts, through the memoising interpreter as translated: accepted -/
theorem text_memo_accepted : ∃ (e' : PyExec) (τ : TrSt ProofTie.St) (n : Nat) (g c p : List Instr),
    KAccepted n e' τ.sub.1 τ.sub.2 g c p := by
  obtain ⟨e0, _, _, _, he0, hk, _⟩ := text_hypotheses_hold
  have h := textCheckKM_true
  unfold textCheckKM at h
  rw [he0] at h
  simp only [] at h
  split at h
  · next thunks hb =>
    split at h
    · next τ hx =>
      obtain ⟨n, g, c, p, hacc⟩ := k_trace_text_module_memo_accepted 100 100 [] sem hints e0 he0 hk thunks _ τ hb hx
      exact ⟨e0, τ, n, g, c, p, hacc⟩
    · cases h
  · cases h

/-- the boundary of "quiet": a substitution node INSIDE a notation node.  `Instantiate.simplify` of the empty map returns
the body `phi5[x1/x0]` as it is, which is `==` to the substitution node itself; but the expansion of the notation node
is the result of the substitution, `phi5` (where `x0` is fresh) — `==` answers `True` on patterns with different
expansions.  (No K module contains such a pattern; the machine refuses the substitution node.) -/
theorem quiet_boundary :
    let body : NPat := .esub (.mv 5 [0] [] [] [] []) 0 (.evar 1)
    (NPat.inst body []).QF = false ∧ body.QF = true ∧
    NPat.peqF 5 (NPat.inst body []) body = some true ∧ (NPat.inst body []).expand ≠ body.expand ∧ body.MOK = false := by
  decide +kernel

end C20.Example

#print axioms C20.k_trace_text_module_accepted
#print axioms C20.k_trace_text_module_u8_accepted
#print axioms C20.k_trace_text_module_sound
#print axioms C20.k_pipeline_text_module_accepted
#print axioms C20.k_pipeline_ground_text_module_accepted
#print axioms C20.eq_truthful_on_quiet
#print axioms C20.k_patterns_quiet
#print axioms C20.k_module_cfg_accepted
#print axioms C20.k_module_memo_accepted
#print axioms C20.k_module_memo_bytes_accepted
#print axioms C20.k_module_memo_u8_accepted
#print axioms C20.k_module_memo_sound
#print axioms C20.k_trace_text_module_memo_accepted
#print axioms C20.k_trace_text_module_memo_sound
#print axioms C20.Example.text_hypotheses_hold
#print axioms C20.Example.text_accepted
#print axioms C20.Example.text_accepted_u8
#print axioms C20.Example.text_sound
#print axioms C20.Example.pipeline_accepted
#print axioms C20.Example.pipeline_ground_accepted
#print axioms C20.Example.memo_hypotheses_hold
#print axioms C20.Example.memo_accepted
#print axioms C20.Example.memo_sound
#print axioms C20.Example.text_memo_accepted
#print axioms C20.Example.quiet_boundary
