import Pi2.MachineThm
import Pi2.Gen.Opcodes
import Pi2.RustTie
import Pi2.RustExecTie
/-!
# C05 — the checker implements the documented machine

The theorems here are about the *reference machine* (`Pi2.Machine` + `Pi2.Codec`), which is the
formalisation of `docs/proof-language.md`.  That the Rust code behaves like the reference on every
byte triple is not provable without a semantics of Rust; it is decided by the correspondence run
(verdict and the three end-of-phase states) — see DESIGN.md §5/C05.
-/
set_option linter.unusedVariables false
open Pat

namespace C05

/-! ## Tie to the source: the opcode tables of both implementations -/

/-- the opcode numbering the model's `decode1`/`encode1` use, by name -/
def opcodeTable : List (String × Nat) :=
  [("EVar", 2), ("SVar", 3), ("Symbol", 4), ("Implies", 5), ("App", 6), ("Mu", 7), ("Exists", 8),
   ("MetaVar", 9), ("ESubst", 10), ("SSubst", 11), ("Prop1", 12), ("Prop2", 13), ("Prop3", 14),
   ("Quantifier", 15), ("PropagationOr", 16), ("PropagationExists", 17), ("PreFixpoint", 18),
   ("Existence", 19), ("Singleton", 20), ("ModusPonens", 21), ("Generalization", 22), ("Frame", 23),
   ("Substitution", 24), ("KnasterTarski", 25), ("Instantiate", 26), ("Pop", 27), ("Save", 28),
   ("Load", 29), ("Publish", 30), ("CleanMetaVar", 137)]

/-- `Instruction::from` (lib.rs) and `class Instruction` (instruction.py), regenerated from the
source on every run, are the table the model uses. -/
theorem opcodes_tied : Gen.rustOpcodes = opcodeTable ∧ Gen.pyOpcodes = opcodeTable := by decide

/-- the encoder's first byte is the table's number (one representative instruction per opcode) -/
theorem encode1_heads :
    (encode1 (.evar 0)).head? = some 2 ∧ (encode1 (.svar 0)).head? = some 3 ∧ (encode1 (.sym 0)).head? = some 4 ∧
    (encode1 .implies).head? = some 5 ∧ (encode1 .app).head? = some 6 ∧ (encode1 (.mu 0)).head? = some 7 ∧
    (encode1 (.ex 0)).head? = some 8 ∧ (encode1 (.metavar 0 [] [] [] [] [])).head? = some 9 ∧
    (encode1 (.esubst 0)).head? = some 10 ∧ (encode1 (.ssubst 0)).head? = some 11 ∧
    (encode1 .prop1).head? = some 12 ∧ (encode1 .prop2).head? = some 13 ∧ (encode1 .prop3).head? = some 14 ∧
    (encode1 .quantifier).head? = some 15 ∧ (encode1 .existence).head? = some 19 ∧ (encode1 .mp).head? = some 21 ∧
    (encode1 (.gen 0)).head? = some 22 ∧ (encode1 (.subst 0)).head? = some 24 ∧
    (encode1 (.instantiate [])).head? = some 26 ∧ (encode1 .pop).head? = some 27 ∧ (encode1 .save).head? = some 28 ∧
    (encode1 (.load 0)).head? = some 29 ∧ (encode1 .publish).head? = some 30 ∧ (encode1 (.cleanmv 0)).head? = some 137 := by
  decide

/-! ## Malformed input is always rejected -/

/-- **unknown opcode** (including the listed-but-unimplemented 16,17,18,20,23,25 and the byte 0):
the stream is rejected wherever it occurs after a well-formed prefix. -/
theorem unknown_opcode_rejected (pre : List Instr) (b : Nat) (rest : List Nat) (h : b ∉ validOps) :
    decode (encode pre ++ b :: rest) = none := by
  rw [decode_append_instr]
  have : decode (b :: rest) = none := decodeF_cons_none (decode1_badOpcode b rest h)
  simp [this]

/-- **truncated operand**: a stream that ends inside an instruction's encoding is rejected. -/
theorem truncated_rejected (pre : List Instr) (i : Instr) (cut suf : List Nat)
    (h : encode1 i = cut ++ suf) (hcut : cut ≠ []) (hsuf : suf ≠ []) :
    decode (encode pre ++ cut) = none := by
  rw [decode_append_instr]
  cases cut with
  | nil => exact absurd rfl hcut
  | cons b bs =>
    have : decode (b :: bs) = none := decodeF_cons_none (decode1_strict_prefix i (b :: bs) suf h hsuf)
    simp [this]

/-- a rejected phase rejects the whole triple -/
theorem verifyBytes_decode_none (g c p : List Nat)
    (h : decode g = none ∨ decode c = none ∨ decode p = none) : verifyBytes g c p = none := by
  simp only [verifyBytes]
  rcases h with h | h | h
  · simp [h]
  · cases decode g <;> simp [h]
  · cases decode g <;> cases decode c <;> simp [h]

/-- **stack underflow / type confusion** (a proof where a pattern is needed, or vice versa) -/
theorem type_confusion_rejected (ph : Phase) (s : St) (i : Instr)
    (h : stackOK (needs ph i) s.stack = false) : step ph s i = none :=
  step_type_confusion ph s i h

/-- **bad memory index** -/
theorem bad_index_rejected (ph : Phase) (s : St) (i : Nat) (h : s.memory.length ≤ i) :
    step ph s (.load i) = none := step_load_badIndex ph s i h

/-- **mismatching claim** -/
theorem mismatching_claim_rejected (s : St) (t c : Pat) (st : List Term) (cs : List Pat)
    (hs : s.stack = .proved t :: st) (hc : s.claims = c :: cs) (hne : c ≠ t) :
    step .proof s .publish = none := step_publish_mismatch s t c st cs hs hc hne

/-- **unproved claims**: acceptance implies that the proof phase ended with no claim left. -/
theorem unproved_claims_rejected (g c p : List Instr) (s1 s2 s3 : St) (axs cls : List Pat)
    (h : verifyStates g c p = some (s1, s2, s3, axs, cls)) (hleft : s3.claims ≠ []) :
    verify g c p = none := by
  simp only [verifyStates] at h
  simp only [verify]
  cases h1 : run .gamma ⟨[], [], []⟩ g with
  | none => simp [h1] at h
  | some r1 =>
    cases h2 : run .claim { r1.1 with stack := [] } c with
    | none => simp [h1, h2] at h
    | some r2 =>
      cases h3 : run .proof { r2.1 with stack := [] } p with
      | none => simp [h1, h2, h3] at h
      | some r3 =>
        simp [h1, h2, h3] at h
        obtain ⟨_, _, rfl, _, _⟩ := h
        simp [h1, h2, h3]
        intro hc; exact absurd hc hleft

/-- **never ignored**: once a prefix of a phase is rejected, no continuation is accepted. -/
theorem rejection_is_final (ph : Phase) (is js : List Instr) (s : St) (h : run ph s is = none) :
    run ph s (is ++ js) = none := run_prefix_rejected ph is js s h

/-- **left-to-right, no look-ahead** -/
theorem run_is_sequential (ph : Phase) (is js : List Instr) (s : St) :
    run ph s (is ++ js) =
      (run ph s is).bind fun (s', o) => (run ph s' js).map fun (s'', o') => (s'', o ++ o') :=
  run_append ph is js s

/-! ## Non-vacuity -/
example : decode ([12] ++ 26 :: [2]) = none :=          -- the truncated `Instantiate 2` of DESIGN F2
  truncated_rejected [.prop1] (.instantiate [0, 0]) [26, 2] [0, 0] rfl (by simp) (by simp)
example : step .proof ⟨[.pat (evar 0)], [], []⟩ .mp = none := type_confusion_rejected _ _ _ rfl
example : verifyBytes [] [137, 0, 30] [] = none := by decide

/-- the four syntactic judgements as written in `rust/src/lib.rs` (translated on every run) are the model's -/
theorem rust_judgements_tied :
    Gen.Rust.translated = true ∧
    (∀ p e, Gen.Rust.e_fresh p e = Pat.eFresh e p) ∧ (∀ p s, Gen.Rust.s_fresh p s = Pat.sFresh s p) ∧
    (∀ p s, Gen.Rust.positive p s = Pat.pos s p) ∧ (∀ p s, Gen.Rust.negative p s = Pat.ng s p) :=
  ⟨RustTie.translated, RustTie.e_fresh_eq, RustTie.s_fresh_eq, RustTie.positive_eq, RustTie.negative_eq⟩


/-- **conformance of the code as written**: `execute_instructions` of `rust/src/lib.rs` (translated statement by statement
on every run, `Pi2/Gen/RustExec.lean`) run on a byte string from a machine-reachable state (`RShape`: what the
instructions can build) is `decode` followed by the reference machine `run`; a panic is `none` on both sides -/
theorem rust_execute_is_the_model (ph : Phase) (bs : List Nat) (r0 : RustExec.RSt) (hs : (RustExecTie.toSt r0).RShape = true) :
    Gen.Rust.execute_instructions bs ph r0 =
      (decode bs).bind fun is => (run ph (RustExecTie.toSt r0) is).map fun sj => ((), RustExecTie.mkR [] sj.1) :=
  RustExecTie.exec_eq ph bs r0 hs

/-- `verify` as written accepts exactly the byte strings the reference `verifyBytes` accepts -/
theorem rust_verify_is_the_model (g c p : List Nat) (r0 : RustExec.RSt) :
    Gen.Rust.execTranslated = true ∧ (Gen.Rust.verify g c p r0).isSome = (verifyBytes g c p).isSome :=
  ⟨RustExecTie.translated, RustExecTie.verify_eq g c p r0⟩

end C05
